(* C01/Commit.v -- LEADER COMPLETENESS for every run of the executable cluster model.
   History lives in the message pool (it only grows): a successful AppendEntriesResponse is an
   acknowledgement, a granted RequestVoteResponse is a vote.  On top of the voting invariants (VoteSim)
   and the ledger invariants (LogMatch) the invariant LCI records, for every acknowledgement, that the
   acknowledged prefix is still in the follower's log unless a later leader lacking it has appeared,
   and for every elected leader an electing quorum each of whose members passed the up-to-date check
   with everything it had acknowledged.  Leader completeness for quorum-acknowledged entries then
   follows by induction on the term, using quorum intersection. *)
From NV.Common Require Import Base.
From NV.C01 Require Import Model LogList VoteSim LogMatch.
From NV.C01 Require Vote.
From Coq Require Import Arith.
Open Scope N_scope.

Section Commit.
Variable cfg : config.
Variable ru : rules.
Let n : nat := N.to_nat (n_nodes cfg).
Let q : nat := N.to_nat (quorum cfg).
Hypothesis quorum_ok : (n < q + q)%nat.
(* the follower acknowledges at most the prefix the request verified, and at most its own log *)
Hypothesis ack_ok : forall p ln len, follower_ack ru p ln len <= ln /\ follower_ack ru p ln len <= len.

Notation nd_of s i := (nth_node (nodes s) i).
Notation Ld a w c := (In (N.to_nat w, N.to_nat c) (Vote.leaders a)).

(* leader w holds the first m entries of ledger t *)
Definition P (gl : ledger) (t : N) (m : nat) (w : N) : Prop := firstn m (gl w) = firstn m (gl t).
(* entry m of ledger t was created in term t *)
Definition own (gl : ledger) (t : N) (m : nat) : Prop := term_at (gl t) m = Some t.

Definition ExcLe gl a t m (b : N) : Prop := exists w c, t < w /\ w <= b /\ Ld a w c /\ ~ P gl t m w.
Definition ExcLt gl a t m (u : N) : Prop := exists w c, t < w /\ w < u /\ Ld a w c /\ ~ P gl t m w.
Definition ExcC gl a t m (u c0 : N) : Prop :=
  exists w c, t < w /\ Ld a w c /\ ~ P gl t m w /\ (w < u \/ (w = u /\ c <> c0)).

(* v acknowledged (t, m): it answered success in term t with match_index >= m, or it is the leader of t *)
Definition Acked (s : sys) gl a (v t : N) (m : nat) : Prop :=
  own gl t m /\
  ((exists dst fol mi, In (v, dst, AER t true fol mi) (pool s) /\ (m <= N.to_nat mi)%nat) \/ Ld a t v).

Definition HasPrefix gl (L : list entry) (t : N) (m : nat) : Prop :=
  firstn m L = firstn m (gl t) /\ (m <= length L)%nat.

Record LCI (s : sys) (gl : ledger) (a : Vote.sys) : Prop := {
  c_ack : forall v dst t fol mi, In (v, dst, AER t true fol mi) (pool s) ->
            v < n_nodes cfg /\ (N.to_nat mi <= length (gl t))%nat /\ t <= term (nd_of s v);
  c_keep : forall v t m, v < n_nodes cfg -> Acked s gl a v t m ->
            HasPrefix gl (log (nd_of s v)) t m \/ ExcLe gl a t m (term (nd_of s v));
  c_own : forall t c, Ld a t c -> term (nd_of s c) = t -> log (nd_of s c) = gl t;
  c_rv : forall c dst u c' lli llt, In (c, dst, RV u c' lli llt) (pool s) ->
            c <> dst /\ u <= term (nd_of s c) /\
            (rl (nd_of s c) = Candidate -> term (nd_of s c) = u -> last_info (log (nd_of s c)) = (lli, llt));
  c_cand : forall c, c < n_nodes cfg -> rl (nd_of s c) = Candidate ->
            forall e, In e (log (nd_of s c)) -> eterm e < term (nd_of s c);
  c_grant : forall v c u voter, In (v, c, RVR u true voter) (pool s) ->
            v < n_nodes cfg /\ u <= term (nd_of s v) /\ u <= term (nd_of s c) /\
            forall t m, Acked s gl a v t m -> t < u ->
              rl (nd_of s c) = Candidate -> term (nd_of s c) = u ->
              HasPrefix gl (log (nd_of s c)) t m \/ ExcC gl a t m u c;
  c_elq : forall u c, Ld a u c ->
            exists Q, NoDup Q /\ (q <= length Q)%nat /\
              forall v, In v Q -> (v < n)%nat /\ u <= term (nd_of s (N.of_nat v)) /\
                forall t m, Acked s gl a (N.of_nat v) t m -> t < u -> P gl t m u \/ ExcLt gl a t m u;
  c_ae_src : forall src dst t ldr pi pt es lc, In (src, dst, AE t ldr pi pt es lc) (pool s) -> src <> dst
}.

(* (t, m) is acknowledged by a quorum *)
Definition QA (s : sys) gl a (t : N) (m : nat) : Prop :=
  exists Q, NoDup Q /\ (q <= length Q)%nat /\ forall v, In v Q -> (v < n)%nat /\ Acked s gl a (N.of_nat v) t m.

(* LEADER COMPLETENESS (from the invariant): every leader of a later term holds every
   quorum-acknowledged entry, with the whole prefix before it. *)
Theorem leader_completeness_inv : forall s gl a, LCI s gl a ->
  forall t m, QA s gl a t m -> forall u c, Ld a u c -> t < u -> P gl t m u.
Proof.
  intros s gl a HL t m [Q [ND [LQ HQ]]].
  assert (G : forall k u c, (N.to_nat u < k)%nat -> Ld a u c -> t < u -> P gl t m u).
  { induction k as [|k IH]; intros u c Hk Hld Htu; [lia|].
    destruct (c_elq _ _ _ HL u c Hld) as [Q' [ND' [LQ' HQ']]].
    destruct (Vote.quorums_intersect n Q Q' ND ND') as [v [Hv Hv']].
    - intros x Hx. apply (HQ x Hx).
    - intros x Hx. apply (HQ' x Hx).
    - lia.
    - destruct (HQ v Hv) as [_ Hack]. destruct (HQ' v Hv') as [_ [_ Hel]].
      destruct (Hel t m Hack Htu) as [HP|[w [c' [Htw [Hwu [Hldw HnP]]]]]]; [exact HP|].
      exfalso. apply HnP. apply (IH w c'); [lia|exact Hldw|exact Htw]. }
  intros u c. apply (G (S (N.to_nat u))). lia.
Qed.


(* ---------------- plumbing ---------------- *)
Lemma cast_msg s a v u c : R cfg s a -> Vote.Inv8 a -> In (v, u, c) (Vote.cast a) ->
  v = c \/ exists tt voter src dst, In (src, dst, RVR tt true voter) (pool s) /\
                  N.to_nat tt = u /\ N.to_nat src = v /\ N.to_nat dst = c.
Proof.
  intros HR H8 Hin. destruct (H8 _ _ _ Hin) as [->|Hm]; [left; reflexivity|right].
  apply (R_back _ _ _ HR). exact Hm.
Qed.

Lemma nth_upd s a i x out j : R cfg s a -> i < n_nodes cfg ->
  nd_of (upd_node s i x out) j = if N.eqb j i then x else nd_of s j.
Proof. intros HR Hi. apply (nth_upd_node cfg quorum_ok). rewrite (R_len _ _ _ HR). lia. Qed.

Lemma ExcLe_mono gl a t m b b' : b <= b' -> ExcLe gl a t m b -> ExcLe gl a t m b'.
Proof. intros Hb [w [c [H1 [H2 [H3 H4]]]]]. exists w, c. repeat split; auto; lia. Qed.

(* Acked is unchanged by a step that adds no successful AppendEntriesResponse and no leader *)
Lemma acked_frame s gl a a' i x out v t m :
  (forall p, In p (Vote.leaders a') <-> In p (Vote.leaders a)) ->
  (forall d t0 fol mi, ~ In (d, AER t0 true fol mi) out) ->
  Acked (upd_node s i x out) gl a' v t m <-> Acked s gl a v t m.
Proof.
  intros HL Hno. unfold Acked. split; intros [Ho H]; (split; [exact Ho|]).
  - destruct H as [[dst [fol [mi [Hin Hm]]]]|Hld]; [left|right; apply HL; exact Hld].
    apply pool_upd in Hin. destruct Hin as [Hin|[d [m0 [Ho' E]]]]; [eauto|].
    injection E as E1 E2 E3. subst. exfalso. eapply Hno; eauto.
  - destruct H as [[dst [fol [mi [Hin Hm]]]]|Hld]; [left|right; apply HL; exact Hld].
    exists dst, fol, mi. split; [apply pool_upd; left; exact Hin|exact Hm].
Qed.

(* ---------------- frame: node i changes, its log does not; no ledger / leader change ---------------- *)
Lemma lci_frame s gl a a' i x out :
  R cfg s a -> LMI cfg s gl a -> LCI s gl a -> i < n_nodes cfg ->
  (forall p, In p (Vote.leaders a') <-> In p (Vote.leaders a)) ->
  K1 (nd_of s i) x ->
  (rl x = Candidate -> forall e, In e (log x) -> eterm e < term x) ->
  (forall d t0 fol mi, ~ In (d, AER t0 true fol mi) out) ->
  (forall d u c' lli llt, In (d, RV u c' lli llt) out ->
     i <> d /\ u <= term x /\ (rl x = Candidate -> term x = u -> last_info (log x) = (lli, llt))) ->
  (forall d u voter, In (d, RVR u true voter) out ->
     d <> i /\ u <= term x /\ u <= term (nd_of s d) /\
     forall t m, Acked s gl a i t m -> t < u ->
       rl (nd_of s d) = Candidate -> term (nd_of s d) = u ->
       HasPrefix gl (log (nd_of s d)) t m \/ ExcC gl a t m u d) ->
  (forall d t0 ldr pi pt es lc, In (d, AE t0 ldr pi pt es lc) out -> i <> d) ->
  LCI (upd_node s i x out) gl a'.
Proof.
  intros HR HM [A1 A2 A3 A4 A5 A6 A7 A8] Hi HL [Klog [Kterm [KL KC]]] Hcand Hnoaer Hrv Hrvr Hae.
  assert (Nd : forall j, nd_of (upd_node s i x out) j = if N.eqb j i then x else nd_of s j)
    by (intros j; apply (nth_upd s a); assumption).
  assert (Tm : forall j, term (nd_of s j) <= term (nd_of (upd_node s i x out) j)).
  { intros j. rewrite Nd. destruct (N.eqb_spec j i) as [->|]; lia. }
  assert (Lg : forall j, log (nd_of (upd_node s i x out) j) = log (nd_of s j)).
  { intros j. rewrite Nd. destruct (N.eqb_spec j i) as [->|]; [exact Klog|reflexivity]. }
  assert (Ak : forall v t m, Acked (upd_node s i x out) gl a' v t m <-> Acked s gl a v t m)
    by (intros; apply acked_frame; assumption).
  assert (ExLe : forall t m b, ExcLe gl a t m b -> ExcLe gl a' t m b).
  { intros t m b [w [c [H1 [H2 [H3 H4]]]]]. exists w, c. repeat split; auto. apply HL. exact H3. }
  assert (ExC : forall t m u c0, ExcC gl a t m u c0 -> ExcC gl a' t m u c0).
  { intros t m u c0 [w [c [H1 [H2 [H3 H4]]]]]. exists w, c. repeat split; auto. apply HL. exact H2. }
  assert (ExLt : forall t m u, ExcLt gl a t m u -> ExcLt gl a' t m u).
  { intros t m u [w [c [H1 [H2 [H3 H4]]]]]. exists w, c. repeat split; auto. apply HL. exact H3. }
  constructor.
  - (* c_ack *)
    intros v dst t fol mi Hin. apply pool_upd in Hin. destruct Hin as [Hin|[d [m0 [Ho E]]]].
    + destruct (A1 _ _ _ _ _ Hin) as [B1 [B2 B3]]. repeat split; auto. specialize (Tm v). lia.
    + injection E as E1 E2 E3; subst. exfalso. eapply Hnoaer; eauto.
  - (* c_keep *)
    intros v t m Hv Hack. apply Ak in Hack. rewrite Lg.
    destruct (A2 v t m Hv Hack) as [Hp|He]; [left; exact Hp|right].
    apply ExLe. eapply ExcLe_mono; [apply Tm|exact He].
  - (* c_own *)
    intros t c Hld Ht. apply HL in Hld. rewrite Lg. apply A3; [exact Hld|].
    rewrite Nd in Ht. destruct (N.eqb_spec c i) as [->|]; [|exact Ht].
    destruct (lm_G2 _ _ _ _ HM _ _ Hld) as [_ G2]. lia.
  - (* c_rv *)
    intros c dst u c' lli llt Hin. apply pool_upd in Hin. destruct Hin as [Hin|[d [m0 [Ho E]]]].
    + destruct (A4 _ _ _ _ _ _ Hin) as [B0 [B1 B2]]. split; [exact B0|]. split; [specialize (Tm c); lia|].
      rewrite Lg, Nd. destruct (N.eqb_spec c i) as [->|]; [|exact B2].
      intros Hc Ht. destruct (KC Hc) as [[Hoc Hot]|Hlt]; [apply B2; [exact Hoc|lia]|lia].
    + injection E as E1 E2 E3; subst. rewrite Nd, N.eqb_refl. apply (Hrv _ _ _ _ _ Ho).
  - (* c_cand *)
    intros c Hc. rewrite Nd. destruct (N.eqb_spec c i) as [->|]; [exact Hcand|apply A5; exact Hc].
  - (* c_grant *)
    intros v c u voter Hin. apply pool_upd in Hin. destruct Hin as [Hin|[d [m0 [Ho E]]]].
    + destruct (A6 _ _ _ _ Hin) as [B1 [B2 [B3 B4]]]. split; [exact B1|]. split; [specialize (Tm v); lia|].
      split; [specialize (Tm c); lia|]. intros t m Hack Htu. apply Ak in Hack. rewrite Lg, Nd.
      destruct (N.eqb_spec c i) as [->|].
      * intros Hc Ht. destruct (KC Hc) as [[Hoc Hot]|Hlt]; [|lia].
        destruct (B4 t m Hack Htu Hoc) as [Hp|He]; [lia|left; exact Hp|right; apply ExC; exact He].
      * intros Hc Ht. destruct (B4 t m Hack Htu Hc Ht) as [Hp|He]; [left; exact Hp|right; apply ExC; exact He].
    + injection E as E1 E2 E3; subst. destruct (Hrvr _ _ _ Ho) as [Hne [B2 [B3 B4]]].
      split; [exact Hi|]. rewrite !Nd, N.eqb_refl. destruct (N.eqb_spec d i) as [->|]; [congruence|].
      split; [exact B2|]. split; [exact B3|].
      intros t m Hack Htu Hc Ht. apply Ak in Hack.
      destruct (B4 t m Hack Htu Hc Ht) as [Hp|He]; [left; exact Hp|right; apply ExC; exact He].
  - (* c_elq *)
    intros u c Hld. apply HL in Hld. destruct (A7 u c Hld) as [Q [ND [LQ HQ]]]. exists Q. repeat split; auto.
    + apply (HQ v H).
    + destruct (HQ v H) as [_ [B _]]. specialize (Tm (N.of_nat v)). lia.
    + intros t m Hack Htu. apply Ak in Hack. destruct (HQ v H) as [_ [_ B]].
      destruct (B t m Hack Htu) as [Hp|He]; [left; exact Hp|right; apply ExLt; exact He].
  - (* c_ae_src *)
    intros src dst t ldr pi pt es lc Hin. apply pool_upd in Hin. destruct Hin as [Hin|[d [m0 [Ho E]]]].
    + eapply A8; eauto.
    + injection E as E1 E2 E3; subst. eapply Hae; eauto.
Qed.


(* ---------------- list facts for the up-to-date argument ---------------- *)
Lemma last_info_last (L : list entry) : L <> [] -> WI L ->
  exists lam, last_info L = (N.of_nat (length L), lam) /\ term_at L (length L) = Some lam.
Proof.
  intros Hne W. destruct (rev L) as [|e r] eqn:Er.
  - exfalso. apply Hne. rewrite <- (rev_involutive L), Er. reflexivity.
  - assert (EL : L = rev r ++ [e]) by (rewrite <- (rev_involutive L), Er; reflexivity).
    exists (eterm e). unfold last_info. rewrite Er.
    assert (Hat : ent_at L (length L) = Some e).
    { rewrite EL at 1. rewrite EL, app_length. cbn [length]. rewrite Nat.add_1_r. apply ent_at_app_last. }
    split; [|unfold term_at; rewrite Hat; reflexivity]. f_equal. apply W. exact Hat.
Qed.

Lemma last_info_nil_idx (L : list entry) : WI L -> fst (last_info L) = N.of_nat (length L).
Proof.
  intros W. destruct L as [|e0 L0] eqn:E; [reflexivity|].
  destruct (last_info_last (e0 :: L0)) as [lam [H _]]; [discriminate|exact W|]. rewrite H. reflexivity.
Qed.

Lemma term_at_prefix L L' m k : firstn m L = firstn m L' -> (k <= m)%nat -> term_at L k = term_at L' k.
Proof.
  intros E Hk. rewrite <- (term_at_firstn L k m Hk), <- (term_at_firstn L' k m Hk), E. reflexivity.
Qed.

(* terms never decrease along an LM log (entries of ledger t have terms <= t) *)
Lemma LM_mono gl L : LM gl L -> (forall t e, In e (gl t) -> eterm e <= t) ->
  forall j k tj tk, term_at L j = Some tj -> term_at L k = Some tk -> (j <= k)%nat -> tj <= tk.
Proof.
  intros HL T2 j k tj tk Hj Hk Hjk.
  pose proof (HL _ _ Hk) as E.
  assert (Hj' : term_at (gl tk) j = Some tj).
  { rewrite <- (term_at_prefix L (gl tk) k j E Hjk). exact Hj. }
  unfold term_at in Hj'. destruct (ent_at (gl tk) j) as [e|] eqn:Ee; [|discriminate]. injection Hj' as <-.
  apply (T2 tk). destruct j; [discriminate|]. cbn in Ee. eapply nth_error_In; eauto.
Qed.

Lemma LM_whole gl L lam : LM gl L -> term_at L (length L) = Some lam -> L = firstn (length L) (gl lam).
Proof. intros HL H. rewrite <- (HL _ _ H). symmetry. apply firstn_all. Qed.


Lemma entry_eq_dec : forall a b : entry, {a = b} + {a <> b}.
Proof. decide equality; apply N.eq_dec. Qed.
Lemma P_dec gl t m w : {P gl t m w} + {~ P gl t m w}.
Proof. unfold P. apply list_eq_dec. apply entry_eq_dec. Qed.

(* THE UP-TO-DATE ARGUMENT.  v holds (or is excused for) the acknowledged prefix (t, m); the candidate c
   of term u > t passed v's up-to-date check; then c holds the prefix too, unless some leader of a
   term between t and u lacks it. *)
Lemma grant_prefix s gl a v c u lli llt t m :
  LMI cfg s gl a -> LCI s gl a -> v < n_nodes cfg -> c < n_nodes cfg ->
  Acked s gl a v t m -> t < u -> term (nd_of s v) <= u ->
  (let '(mli, mlt) := last_info (log (nd_of s v)) in
   N.ltb mlt llt || (N.eqb llt mlt && N.ltb mli lli) || (N.eqb llt mlt && N.eqb lli mli)) = true ->
  rl (nd_of s c) = Candidate -> term (nd_of s c) = u -> last_info (log (nd_of s c)) = (lli, llt) ->
  HasPrefix gl (log (nd_of s c)) t m \/ ExcC gl a t m u c.
Proof.
  intros HM HC Hv Hc Hack Htu Hvt Hchk Hcand Hct Hli.
  destruct (c_keep _ _ _ HC v t m Hv Hack) as [[Hpre Hlen]|[w [c' [H1 [H2 [H3 H4]]]]]].
  2:{ right. exists w, c'. repeat split; auto. destruct (N.lt_ge_cases w u) as [|Hge]; [left; assumption|right].
      assert (w = u) by lia. subst w. split; [reflexivity|]. intros ->.
      apply (lm_G3 _ _ _ _ HM _ _ H3 Hct). exact Hcand. }
  destruct Hack as [Hown _]. unfold own in Hown.
  set (Lv := log (nd_of s v)) in *. set (Lc := log (nd_of s c)) in *.
  pose proof (term_at_some_len _ _ _ Hown) as [Hm1 _].
  assert (TvM : term_at Lv m = Some t) by (rewrite (term_at_prefix Lv (gl t) m m Hpre (le_n m)); exact Hown).
  assert (Lvne : Lv <> []) by (intros E; rewrite E in Hlen; cbn in Hlen; lia).
  destruct (last_info_last Lv Lvne (lm_wi_log _ _ _ _ HM v)) as [mu [Ev Tv]].
  fold Lv in Hchk. rewrite Ev in Hchk.
  assert (Htmu : t <= mu).
  { eapply (LM_mono gl Lv (lm_L1 _ _ _ _ HM v) (lm_T2 _ _ _ _ HM)); [exact TvM|exact Tv|exact Hlen]. }
  assert (Lcne : Lc <> []).
  { intros E. rewrite E in Hli. cbn in Hli. injection Hli as <- <-.
    rewrite !orb_true_iff, !andb_true_iff, N.ltb_lt, !N.eqb_eq in Hchk. lia. }
  destruct (last_info_last Lc Lcne (lm_wi_log _ _ _ _ HM c)) as [lam [Ec Tc]].
  rewrite Ec in Hli. injection Hli as <- <-.
  pose proof (LM_whole gl Lc lam (lm_L1 _ _ _ _ HM c) Tc) as WLc.
  rewrite !orb_true_iff, !andb_true_iff, N.ltb_lt, !N.eqb_eq in Hchk.
  assert (Cases : mu < lam \/ (lam = mu /\ (length Lv <= length Lc)%nat)) by lia. clear Hchk.
  destruct Cases as [Hlt|[-> Hle]].
  - (* the candidate's last term is larger: its last entry comes from a leader between t and u *)
    assert (Hlu : lam < u).
    { pose proof Tc as Tc'. unfold term_at in Tc'.
      destruct (ent_at Lc (length Lc)) as [e|] eqn:Ee; [|discriminate]. injection Tc' as El.
      rewrite <- El, <- Hct. apply (c_cand _ _ _ HC c Hc Hcand).
      destruct (length Lc) as [|k]; [discriminate|]. cbn in Ee. eapply nth_error_In; eauto. }
    assert (Hgl : gl lam <> []).
    { intros E. rewrite E, firstn_nil in WLc. apply Lcne. exact WLc. }
    destruct (lm_G1 _ _ _ _ HM lam Hgl) as [c' Hld].
    destruct (P_dec gl t m lam) as [HP|HnP].
    + left. unfold P in HP.
      assert (TLam : term_at (gl lam) (length Lc) = Some lam).
      { rewrite <- Tc. symmetry. rewrite WLc at 1. apply term_at_firstn. lia. }
      assert (Hml : (m < length Lc)%nat).
      { destruct (le_lt_dec (length Lc) m) as [Hge|]; [exfalso|assumption].
        rewrite (term_at_prefix (gl lam) (gl t) m (length Lc) HP Hge) in TLam.
        unfold term_at in TLam. destruct (ent_at (gl t) (length Lc)) as [e|] eqn:Ee; [|discriminate]. injection TLam as El.
        assert (eterm e <= t).
        { apply (lm_T2 _ _ _ _ HM t). destruct (length Lc) as [|k]; [discriminate|]. cbn in Ee. eapply nth_error_In; eauto. }
        lia. }
      split; [|lia]. rewrite WLc, firstn_firstn. replace (Nat.min m (length Lc)) with m by lia. exact HP.
    + right. exists lam, c'. repeat split; auto; try lia.
  - (* equal last terms and the candidate's log is at least as long: v's log is a prefix of c's *)
    left. pose proof (LM_whole gl Lv mu (lm_L1 _ _ _ _ HM v) Tv) as WLv.
    split; [|lia]. rewrite <- Hpre. rewrite WLc, WLv, !firstn_firstn.
    replace (Nat.min m (length Lc)) with m by lia. replace (Nat.min m (length Lv)) with m by lia. reflexivity.
Qed.


(* index of the last entry a request carried *)
Lemma last_new_seg (Lg : list entry) pi es : WI Lg -> (N.to_nat pi <= length Lg)%nat ->
  es = firstn (length es) (skipn (N.to_nat pi) Lg) ->
  (N.to_nat pi + length es <= length Lg)%nat /\ N.to_nat (last_new pi es) = (N.to_nat pi + length es)%nat.
Proof.
  intros W Hpl Hes.
  assert (Hl : (length es <= length (skipn (N.to_nat pi) Lg))%nat).
  { assert (length es = length (firstn (length es) (skipn (N.to_nat pi) Lg))) by (rewrite <- Hes; reflexivity).
    rewrite firstn_length in H. lia. }
  rewrite skipn_length in Hl.
  unfold last_new. destruct (rev es) as [|e r] eqn:Er.
  - assert (es = []) by (rewrite <- (rev_involutive es), Er; reflexivity). subst es. cbn. split; lia.
  - assert (Ees : es = rev r ++ [e]) by (rewrite <- (rev_involutive es), Er; reflexivity).
    assert (Hlen : length es = S (length r)) by (rewrite Ees, app_length, rev_length; cbn; lia).
    destruct (le_lt_dec (length es) 0); [lia|].
    split; [lia|].
    (* e is the entry of Lg at position pi + |es| *)
    assert (He : ent_at Lg (N.to_nat pi + length es) = Some e).
    { replace (N.to_nat pi + length es)%nat with (S (N.to_nat pi + length r)) by lia. cbn [ent_at].
      assert (nth_error es (length r) = Some e).
      { rewrite Ees. rewrite nth_error_app2 by (rewrite rev_length; lia). rewrite rev_length, Nat.sub_diag. reflexivity. }
      rewrite Hes in H. rewrite nth_error_firstn_lt in H by lia.
      rewrite <- H. clear. revert Lg. induction (N.to_nat pi) as [|k IH]; intros Lg; [reflexivity|].
      destruct Lg as [|x Lg]; [destruct (length r); reflexivity|]. cbn. apply IH. }
    rewrite (W _ _ He). lia.
Qed.

(* ---------------- K5: a follower appends and acknowledges ---------------- *)
Lemma lci_ae s gl a a' i x src t pi pt es mi :
  R cfg s a -> Vote.Inv n q a -> LMI cfg s gl a -> LCI s gl a -> i < n_nodes cfg -> src <> i ->
  (forall p, In p (Vote.leaders a') <-> In p (Vote.leaders a)) ->
  Ld a t src ->
  es = firstn (length es) (skipn (N.to_nat pi) (gl t)) ->
  (pi = 0 \/ term_at (gl t) (N.to_nat pi) = Some pt) ->
  (N.to_nat pi <= length (gl t))%nat ->
  (pi = 0 \/ (pi <= llen (log (nd_of s i)) /\ (term_at (log (nd_of s i)) (N.to_nat pi) = Some pt \/ pi <= base (nd_of s i)))) ->
  rl x = Follower -> term x = t -> term (nd_of s i) <= t ->
  log x = append_entries (gap_refused ru) (base (nd_of s i)) es (log (nd_of s i)) ->
  firstn (N.to_nat (base (nd_of s i))) (log (nd_of s i)) = firstn (N.to_nat (base (nd_of s i))) (gl t) ->
  mi = follower_ack ru pi (last_new pi es) (llen (log x)) ->
  LCI (upd_node s i x [(src, AER t true i mi)]) gl a'.
Proof.
  intros HR HI HM [A1 A2 A3 A4 A5 A6 A7 A8] Hi Hsrc HL Hld Hseg Hprev Hplen Hok Hrl Hterm Hge Hlog Hcomp Hmi.
  set (out := [(src, AER t true i mi)]).
  assert (Nd : forall j, nd_of (upd_node s i x out) j = if N.eqb j i then x else nd_of s j)
    by (intros j; apply (nth_upd s a); assumption).
  assert (Tm : forall j, term (nd_of s j) <= term (nd_of (upd_node s i x out) j)).
  { intros j. rewrite Nd. destruct (N.eqb_spec j i) as [->|]; lia. }
  set (A := log (nd_of s i)) in *.
  assert (Hp : (N.to_nat pi <= length A)%nat).
  { destruct Hok as [->|[Hle _]]; [cbn; lia|unfold llen in Hle; lia]. }
  assert (Hag : firstn (N.to_nat pi) A = firstn (N.to_nat pi) (gl t)).
  { destruct Hok as [->|[_ [Ht|Hb]]]; [reflexivity| |].
    - destruct Hprev as [->|Ht']; [reflexivity|].
      eapply LM_agree; [apply (lm_L1 _ _ _ _ HM i)|apply (lm_L2 _ _ _ _ HM t)|exact Ht|exact Ht'].
    - replace (firstn (N.to_nat pi) A) with (firstn (N.to_nat pi) (firstn (N.to_nat (base (nd_of s i))) A))
        by (rewrite firstn_firstn; f_equal; lia).
      rewrite Hcomp, firstn_firstn. f_equal. lia. }
  destruct (append_entries_LM gl (gap_refused ru) (base (nd_of s i)) es A (N.to_nat pi) (gl t) (lm_wi_log _ _ _ _ HM i) (lm_wi_gl _ _ _ _ HM t)
              (lm_L1 _ _ _ _ HM i) (lm_L2 _ _ _ _ HM t) Hp Hag Hseg Hcomp) as [_ [_ [Fv [Lv _]]]].
  rewrite <- Hlog in Fv, Lv.
  destruct (last_new_seg (gl t) pi es (lm_wi_gl _ _ _ _ HM t) Hplen Hseg) as [Hsl Hln].
  assert (Hmi1 : (N.to_nat mi <= N.to_nat pi + length es)%nat).
  { destruct (ack_ok pi (last_new pi es) (llen (log x))) as [B _]. rewrite <- Hmi in B. lia. }
  (* acknowledgements after the step *)
  assert (Ak : forall v t0 m, Acked (upd_node s i x out) gl a' v t0 m ->
              Acked s gl a v t0 m \/ (v = i /\ t0 = t /\ own gl t m /\ (m <= N.to_nat mi)%nat)).
  { intros v t0 m [Ho H]. destruct H as [[dst [fol [mi0 [Hin Hm]]]]|Hl].
    - apply pool_upd in Hin. destruct Hin as [Hin|[d [m0 [Ho' E]]]].
      + left. split; [exact Ho|left; eauto].
      + destruct Ho' as [E'|[]]. inversion E'; subst. inversion E; subst. right. auto.
    - left. split; [exact Ho|right; apply HL; exact Hl]. }
  assert (Ak' : forall v t0 m, Acked s gl a v t0 m -> Acked (upd_node s i x out) gl a' v t0 m).
  { intros v t0 m [Ho H]. split; [exact Ho|]. destruct H as [[dst [fol [mi0 [Hin Hm]]]]|Hl].
    - left. exists dst, fol, mi0. split; [apply pool_upd; left; exact Hin|exact Hm].
    - right. apply HL. exact Hl. }
  assert (ExLe : forall t0 m b, ExcLe gl a t0 m b -> ExcLe gl a' t0 m b).
  { intros t0 m b [w [c [H1 [H2 [H3 H4]]]]]. exists w, c. repeat split; auto. apply HL. exact H3. }
  assert (ExC : forall t0 m u c0, ExcC gl a t0 m u c0 -> ExcC gl a' t0 m u c0).
  { intros t0 m u c0 [w [c [H1 [H2 [H3 H4]]]]]. exists w, c. repeat split; auto. apply HL. exact H2. }
  assert (ExLt : forall t0 m u, ExcLt gl a t0 m u -> ExcLt gl a' t0 m u).
  { intros t0 m u [w [c [H1 [H2 [H3 H4]]]]]. exists w, c. repeat split; auto. apply HL. exact H3. }
  (* acknowledged terms of node i never exceed its old term *)
  assert (AckT : forall t0 m, Acked s gl a i t0 m -> t0 <= term (nd_of s i)).
  { intros t0 m [_ [[dst [fol [mi0 [Hin _]]]]|Hl]].
    - apply (A1 _ _ _ _ _ Hin).
    - apply (lm_G2 _ _ _ _ HM _ _ Hl). }
  constructor.
  - (* c_ack *)
    intros v dst t0 fol mi0 Hin. apply pool_upd in Hin. destruct Hin as [Hin|[d [m0 [Ho E]]]].
    + destruct (A1 _ _ _ _ _ Hin) as [B1 [B2 B3]]. repeat split; auto. specialize (Tm v). lia.
    + destruct Ho as [E'|[]]. inversion E'; subst. inversion E; subst.
      split; [exact Hi|]. split; [lia|]. rewrite Nd, N.eqb_refl. lia.
  - (* c_keep *)
    intros v t0 m Hv Hack. rewrite Nd. destruct (N.eqb_spec v i) as [->|Hne].
    + destruct (Ak _ _ _ Hack) as [Hold|[_ [-> [Ho Hm]]]].
      * (* an earlier acknowledgement of node i *)
        pose proof (AckT _ _ Hold) as Ht0.
        destruct (A2 i t0 m Hi Hold) as [[Hpre Hlen]|He].
        -- destruct (N.eq_dec t0 t) as [->|Hnt].
           ++ left. destruct (append_entries_keep gl (gap_refused ru) (base (nd_of s i)) es A (N.to_nat pi) (gl t) m (lm_wi_log _ _ _ _ HM i)
                               (lm_wi_gl _ _ _ _ HM t) (lm_L1 _ _ _ _ HM i) (lm_L2 _ _ _ _ HM t) Hp Hag Hseg Hcomp Hlen Hpre) as [K1' K2'].
              rewrite <- Hlog in K1', K2'. split; assumption.
           ++ destruct (P_dec gl t0 m t) as [HP|HnP].
              ** left. unfold P in HP.
                 assert (Hpre' : firstn m A = firstn m (gl t)) by (rewrite HP; exact Hpre).
                 destruct (append_entries_keep gl (gap_refused ru) (base (nd_of s i)) es A (N.to_nat pi) (gl t) m (lm_wi_log _ _ _ _ HM i)
                               (lm_wi_gl _ _ _ _ HM t) (lm_L1 _ _ _ _ HM i) (lm_L2 _ _ _ _ HM t) Hp Hag Hseg Hcomp Hlen Hpre') as [K1' K2'].
                 rewrite <- Hlog in K1', K2'. split; [rewrite K2'; exact HP|exact K1'].
              ** right. exists t, src. repeat split; [lia|lia|apply HL; exact Hld|exact HnP].
        -- right. apply ExLe. eapply ExcLe_mono; [|exact He]. lia.
      * (* the acknowledgement just sent *)
        left. split; [|lia].
        replace (firstn m (log x)) with (firstn m (firstn (N.to_nat pi + length es) (log x)))
          by (rewrite firstn_firstn; f_equal; lia).
        replace (firstn m (gl t)) with (firstn m (firstn (N.to_nat pi + length es) (gl t)))
          by (rewrite firstn_firstn; f_equal; lia).
        rewrite Fv. reflexivity.
    + destruct (Ak _ _ _ Hack) as [Hold|[E _]]; [|contradiction].
      destruct (A2 v t0 m Hv Hold) as [Hp0|He]; [left; exact Hp0|right; apply ExLe; exact He].
  - (* c_own *)
    intros t0 c Hl0 Ht0. apply HL in Hl0. rewrite Nd in *. destruct (N.eqb_spec c i) as [->|]; [|apply A3; assumption].
    exfalso. rewrite Hterm in Ht0. subst t0. apply Hsrc.
    pose proof (Vote.election_safety n q quorum_ok a HI _ _ _ Hld Hl0). lia.
  - (* c_rv *)
    intros c dst u c' lli llt Hin. apply pool_upd in Hin. destruct Hin as [Hin|[d [m0 [Ho E]]]].
    + destruct (A4 _ _ _ _ _ _ Hin) as [B0 [B1 B2]]. split; [exact B0|]. split; [specialize (Tm c); lia|].
      rewrite Nd. destruct (N.eqb_spec c i) as [->|]; [rewrite Hrl; discriminate|exact B2].
    + destruct Ho as [E'|[]]. inversion E'; subst. discriminate.
  - (* c_cand *)
    intros c Hc. rewrite Nd. destruct (N.eqb_spec c i) as [->|]; [rewrite Hrl; discriminate|apply A5; exact Hc].
  - (* c_grant *)
    intros v c u voter Hin. apply pool_upd in Hin. destruct Hin as [Hin|[d [m0 [Ho E]]]].
    2:{ destruct Ho as [E'|[]]. inversion E'; subst. discriminate. }
    destruct (A6 _ _ _ _ Hin) as [B1 [B2 [B3 B4]]]. split; [exact B1|]. split; [specialize (Tm v); lia|].
    split; [specialize (Tm c); lia|]. intros t0 m Hack Htu. rewrite Nd.
    destruct (N.eqb_spec c i) as [->|Hci]; [rewrite Hrl; discriminate|].
    intros Hc Ht. destruct (Ak _ _ _ Hack) as [Hold|[-> [-> _]]]; [|lia].
    destruct (B4 t0 m Hold Htu Hc Ht) as [Hp0|He]; [left; exact Hp0|right; apply ExC; exact He].
  - (* c_elq *)
    intros u c Hl0. apply HL in Hl0. destruct (A7 u c Hl0) as [Q [ND [LQ HQ]]]. exists Q. repeat split; auto.
    + apply (HQ v H).
    + destruct (HQ v H) as [_ [B _]]. specialize (Tm (N.of_nat v)). lia.
    + intros t0 m Hack Htu. destruct (HQ v H) as [_ [Bt B]].
      destruct (Ak _ _ _ Hack) as [Hold|[Ev [-> _]]]; [|rewrite Ev in Bt; lia].
      destruct (B t0 m Hold Htu) as [Hp0|He]; [left; exact Hp0|right; apply ExLt; exact He].
  - (* c_ae_src *)
    intros s0 dst t0 ldr pi0 pt0 es0 lc Hin. apply pool_upd in Hin. destruct Hin as [Hin|[d [m0 [Ho E]]]].
    + eapply A8; eauto.
    + destruct Ho as [E'|[]]. inversion E'; subst. discriminate.
Qed.


(* ---------------- K3: a candidate wins its election ---------------- *)
Lemma lci_leader s gl a a' i x :
  R cfg s a -> R cfg (upd_node s i x []) a' -> Vote.Inv n q a' -> Vote.Inv8 a' ->
  LMI cfg s gl a -> LCI s gl a -> i < n_nodes cfg ->
  rl (nd_of s i) = Candidate -> rl x = Leader -> log x = log (nd_of s i) -> term x = term (nd_of s i) ->
  votes x <> [] -> N.leb (quorum cfg) (llen (votes x)) = true ->
  (forall p, In p (Vote.leaders a) -> In p (Vote.leaders a')) ->
  (forall p, In p (Vote.leaders a') -> p = (N.to_nat (term x), N.to_nat i) \/ In p (Vote.leaders a)) ->
  LCI (upd_node s i x []) (gl_set gl (term x) (log x)) a'.
Proof.
  intros HR HR' HI' H8' HM [A1 A2 A3 A4 A5 A6 A7 A8] Hi Hc Hl Hlog Hterm Hvne Hquo Hmono Hnew.
  set (u := term x) in *. set (gl' := gl_set gl u (log x)).
  assert (Nd : forall j, nd_of (upd_node s i x []) j = if N.eqb j i then x else nd_of s j)
    by (intros j; apply (nth_upd s a); assumption).
  assert (Hme : Ld a' u i).
  { pose proof (Vote.I7 _ _ _ HI' (N.to_nat i)) as G. rewrite (R_nodes _ _ _ HR' i Hi) in G.
    rewrite Nd, N.eqb_refl in G. cbn in G. rewrite Hl in G. apply G. reflexivity. }
  assert (Uniq : forall j, Ld a' u j -> j = i).
  { intros j Hj. pose proof (Vote.election_safety n q quorum_ok a' HI' _ _ _ Hj Hme). lia. }
  assert (NoOld : forall j, ~ Ld a u j).
  { intros j Hj. assert (j = i) by (apply Uniq; apply Hmono; exact Hj). subst j.
    apply (lm_G3 _ _ _ _ HM _ _ Hj); [unfold u; lia|exact Hc]. }
  assert (Hempty : gl u = []).
  { destruct (gl u) as [|e0 l0] eqn:E; [reflexivity|]. exfalso.
    destruct (lm_G1 _ _ _ _ HM u) as [j Hj]; [rewrite E; discriminate|]. exact (NoOld j Hj). }
  assert (Glne : forall t, t <> u -> gl' t = gl t).
  { intros t Hne. unfold gl', gl_set. destruct (N.eqb_spec t u); [contradiction|reflexivity]. }
  assert (Glu : gl' u = log x) by (unfold gl', gl_set; rewrite N.eqb_refl; reflexivity).
  (* no entry of the new term exists yet *)
  assert (NoOwnU : forall m, ~ own gl' u m).
  { intros m Ho. unfold own in Ho. rewrite Glu, Hlog in Ho. unfold term_at in Ho.
    destruct (ent_at (log (nd_of s i)) m) as [e|] eqn:Ee; [|discriminate]. injection Ho as Ho.
    assert (eterm e < term (nd_of s i)).
    { apply (A5 i Hi Hc). destruct m; [discriminate|]. cbn in Ee. eapply nth_error_In; eauto. }
    unfold u in Ho. lia. }
  assert (OwnEq : forall t m, own gl' t m -> t <> u /\ own gl t m).
  { intros t m Ho. destruct (N.eq_dec t u) as [->|Hne]; [exfalso; eapply NoOwnU; eauto|].
    split; [exact Hne|]. unfold own in *. rewrite Glne in Ho by exact Hne. exact Ho. }
  assert (Ak : forall v t m, Acked (upd_node s i x []) gl' a' v t m -> t <> u /\ Acked s gl a v t m).
  { intros v t m [Ho H]. destruct (OwnEq _ _ Ho) as [Hne Ho']. split; [exact Hne|]. split; [exact Ho'|].
    destruct H as [[dst [fol [mi [Hin Hm]]]]|Hld].
    - left. apply pool_upd in Hin. destruct Hin as [Hin|[d [m0 [[] _]]]]. eauto.
    - right. destruct (Hnew _ Hld) as [E|Hold]; [|exact Hold]. exfalso. injection E as E1 E2. apply Hne. lia. }
  assert (Pne : forall t m w, t <> u -> w <> u -> (P gl' t m w <-> P gl t m w)).
  { intros t m w Ht Hw. unfold P. rewrite !Glne by assumption. tauto. }
  assert (ExLe : forall t m b, t <> u -> ExcLe gl a t m b -> ExcLe gl' a' t m b).
  { intros t m b Ht [w [c [H1 [H2 [H3 H4]]]]]. exists w, c. repeat split; auto.
    assert (w <> u) by (intros ->; exact (NoOld c H3)). rewrite Pne; assumption. }
  assert (ExC : forall t m u0 c0, t <> u -> ExcC gl a t m u0 c0 -> ExcC gl' a' t m u0 c0).
  { intros t m u0 c0 Ht [w [c [H1 [H2 [H3 H4]]]]]. exists w, c. repeat split; auto.
    assert (w <> u) by (intros ->; exact (NoOld c H2)). rewrite Pne; assumption. }
  assert (ExLt : forall t m u0, t <> u -> ExcLt gl a t m u0 -> ExcLt gl' a' t m u0).
  { intros t m u0 Ht [w [c [H1 [H2 [H3 H4]]]]]. exists w, c. repeat split; auto.
    assert (w <> u) by (intros ->; exact (NoOld c H3)). rewrite Pne; assumption. }
  assert (HPre : forall L t m, t <> u -> HasPrefix gl L t m -> HasPrefix gl' L t m).
  { intros L t m Ht [B1 B2]. split; [rewrite Glne by exact Ht; exact B1|exact B2]. }
  constructor.
  - (* c_ack *)
    intros v dst t fol mi Hin. apply pool_upd in Hin. destruct Hin as [Hin|[d [m0 [[] _]]]].
    destruct (A1 _ _ _ _ _ Hin) as [B1 [B2 B3]]. split; [exact B1|]. split.
    + destruct (N.eq_dec t u) as [->|Hne]; [rewrite Hempty in B2; cbn in B2; lia|rewrite Glne by exact Hne; exact B2].
    + rewrite Nd. destruct (N.eqb_spec v i) as [->|]; [unfold u in *; lia|exact B3].
  - (* c_keep *)
    intros v t m Hv Hack. destruct (Ak _ _ _ Hack) as [Hne Hold]. rewrite Nd.
    destruct (A2 v t m Hv Hold) as [Hp|He].
    + left. apply HPre; [exact Hne|]. destruct (N.eqb_spec v i) as [->|]; [rewrite Hlog|]; exact Hp.
    + right. apply ExLe; [exact Hne|]. destruct (N.eqb_spec v i) as [->|]; [unfold u in *; rewrite Hterm|]; exact He.
  - (* c_own *)
    intros t c Hld Ht. rewrite Nd in *. destruct (Hnew _ Hld) as [E|Hold].
    + injection E as E1 E2. assert (t = u) by lia. assert (c = i) by lia. subst. rewrite N.eqb_refl. symmetry. exact Glu.
    + assert (t <> u) by (intros ->; exact (NoOld c Hold)). rewrite Glne by assumption.
      destruct (N.eqb_spec c i) as [->|]; [rewrite Hlog; apply A3; [exact Hold|unfold u in *; lia]|apply A3; assumption].
  - (* c_rv *)
    intros c dst u0 c' lli llt Hin. apply pool_upd in Hin. destruct Hin as [Hin|[d [m0 [[] _]]]].
    destruct (A4 _ _ _ _ _ _ Hin) as [B0 [B1 B2]]. rewrite Nd. destruct (N.eqb_spec c i) as [->|]; [|auto].
    split; [exact B0|]. split; [unfold u in *; lia|]. rewrite Hl. discriminate.
  - (* c_cand *)
    intros c Hc0. rewrite Nd. destruct (N.eqb_spec c i) as [->|]; [rewrite Hl; discriminate|apply A5; exact Hc0].
  - (* c_grant *)
    intros v c u0 voter Hin. apply pool_upd in Hin. destruct Hin as [Hin|[d [m0 [[] _]]]].
    destruct (A6 _ _ _ _ Hin) as [B1 [B2 [B3 B4]]]. split; [exact B1|].
    split; [rewrite Nd; destruct (N.eqb_spec v i) as [->|]; [unfold u in *; lia|exact B2]|].
    split; [rewrite Nd; destruct (N.eqb_spec c i) as [->|]; [unfold u in *; lia|exact B3]|].
    intros t m Hack Htu. destruct (Ak _ _ _ Hack) as [Hne Hold]. rewrite Nd.
    destruct (N.eqb_spec c i) as [->|]; [rewrite Hl; discriminate|].
    intros Hc0 Ht0. destruct (B4 t m Hold Htu Hc0 Ht0) as [Hp|He]; [left; apply HPre; assumption|right; apply ExC; assumption].
  - (* c_elq *)
    intros u0 c Hld. destruct (Hnew _ Hld) as [E|Hold].
    + (* the leader just elected: its electing quorum is its votes list *)
      injection E as E1 E2. assert (u0 = u) by lia. assert (c = i) by lia. subst u0 c.
      pose proof (Vote.I4 _ _ _ HI' (N.to_nat i)) as G4. rewrite (R_nodes _ _ _ HR' i Hi) in G4.
      rewrite Nd, N.eqb_refl in G4. cbn in G4. rewrite Hl in G4. destruct G4 as [ND Hcast]; [discriminate|].
      exists (map N.to_nat (votes x)). split; [exact ND|]. split.
      { rewrite map_length. apply N.leb_le in Hquo. unfold llen in Hquo. unfold q. lia. }
      intros v Hv. specialize (Hcast v Hv). fold u in Hcast.
      destruct (Vote.I2 _ _ _ HI' _ _ _ Hcast) as [Hvn [Hvt _]].
      assert (Hvn' : N.of_nat v < n_nodes cfg) by (fold n in Hvn; lia).
      split; [exact Hvn|]. split.
      { pose proof (R_nodes _ _ _ HR' (N.of_nat v) Hvn') as Ev. rewrite Nat2N.id in Ev. rewrite Ev in Hvt.
        unfold absn in Hvt. cbn [Vote.term] in Hvt. lia. }
      intros t m Hack Htu. destruct (Ak _ _ _ Hack) as [Hne Hold].
      (* the voter is the candidate itself, or sent a granted response *)
      assert (Conv : HasPrefix gl (log (nd_of s i)) t m \/ ExcC gl a t m u i -> P gl' t m u \/ ExcLt gl' a' t m u).
      { intros [[B1 B2]|[w [c [H1 [H2 [H3 H4]]]]]].
        - left. unfold P. rewrite Glu, Glne by exact Hne. rewrite Hlog. exact B1.
        - right. exists w, c. destruct H4 as [Hlt|[-> _]]; [|exfalso; exact (NoOld c H2)].
          repeat split; auto. assert (w <> u) by lia. rewrite Pne; assumption. }
      destruct (cast_msg _ _ _ _ _ HR' H8' Hcast) as [Evi|[tt [voter [src [dst [Hin [F1 [F2 F3]]]]]]]].
      * (* v = i *)
        apply Conv. assert (N.of_nat v = i) by lia. subst i.
        destruct (A2 _ t m Hvn' Hold) as [Hp|[w [c [H1 [H2 [H3 H4]]]]]]; [left; exact Hp|right].
        exists w, c. repeat split; auto. destruct (N.lt_ge_cases w u) as [|Hge]; [left; assumption|].
        exfalso. assert (w = u) by (unfold u in *; lia). subst w. exact (NoOld c H3).
      * apply pool_upd in Hin. destruct Hin as [Hin|[d [m0 [[] _]]]].
        assert (src = N.of_nat v) by lia. assert (dst = i) by lia. assert (tt = u) by lia. subst src dst tt.
        destruct (A6 _ _ _ _ Hin) as [_ [_ [_ B4]]]. apply Conv.
        apply (B4 t m Hold Htu Hc). unfold u. lia.
    + (* an earlier leader *)
      assert (Hu0 : u0 <> u) by (intros ->; exact (NoOld c Hold)).
      destruct (A7 u0 c Hold) as [Q [ND [LQ HQ]]]. exists Q. repeat split; auto.
      * apply (HQ v H).
      * destruct (HQ v H) as [_ [B _]]. rewrite Nd. destruct (N.eqb_spec (N.of_nat v) i) as [Ei|]; [rewrite Ei in B; unfold u in *; lia|exact B].
      * intros t m Hack Htu. destruct (Ak _ _ _ Hack) as [Hne Hold']. destruct (HQ v H) as [_ [_ B]].
        destruct (B t m Hold' Htu) as [Hp|He]; [left; rewrite Pne; assumption|right; apply ExLt; assumption].
  - (* c_ae_src *)
    intros s0 dst t ldr pi pt es lc Hin. apply pool_upd in Hin. destruct Hin as [Hin|[d [m0 [[] _]]]]. eapply A8; eauto.
Qed.


(* ---------------- K4: the leader appends a proposal ---------------- *)
Lemma lci_propose s gl a a' i p :
  R cfg s a -> Vote.Inv n q a -> LMI cfg s gl a -> LCI s gl a -> i < n_nodes cfg ->
  rl (nd_of s i) = Leader ->
  (forall pp, In pp (Vote.leaders a') <-> In pp (Vote.leaders a)) ->
  let nd := nd_of s i in
  let x := Node (term nd) (voted nd) (rl nd) (votes nd) (log nd ++ [E (term nd) (llen (log nd) + 1) p])
                (commit nd) (in_prevote nd) (prevotes nd) (lvs nd) (fin nd) (base nd) in
  LCI (upd_node s i x []) (gl_set gl (term nd) (log x)) a'.
Proof.
  intros HR HI HM [A1 A2 A3 A4 A5 A6 A7 A8] Hi Hl HL nd x. subst x. subst nd.
  set (nd := nd_of s i) in *. set (t := term nd) in *. set (e := E t (llen (log nd) + 1) p) in *.
  set (x := Node t (voted nd) (rl nd) (votes nd) (log nd ++ [e]) (commit nd) (in_prevote nd) (prevotes nd) (lvs nd) (fin nd) (base nd)).
  set (gl' := gl_set gl t (log nd ++ [e])).
  change (LCI (upd_node s i x []) gl' a').
  assert (Nd : forall j, nd_of (upd_node s i x []) j = if N.eqb j i then x else nd_of s j)
    by (intros j; apply (nth_upd s a); assumption).
  assert (EL : log nd = gl t) by (apply (lm_L3 _ _ _ _ HM i Hi Hl)).
  assert (Hme : Ld a t i).
  { pose proof (Vote.I7 _ _ _ HI (N.to_nat i)) as G. rewrite (R_nodes _ _ _ HR i Hi) in G. cbn in G.
    fold nd in G. rewrite Hl in G. apply G. reflexivity. }
  assert (Glne : forall t0, t0 <> t -> gl' t0 = gl t0).
  { intros t0 Hne. unfold gl', gl_set. destruct (N.eqb_spec t0 t); [contradiction|reflexivity]. }
  assert (Glt : gl' t = gl t ++ [e]) by (unfold gl', gl_set; rewrite N.eqb_refl, EL; reflexivity).
  (* prefixes within the old ledgers are untouched *)
  assert (Fst : forall t0 m, (m <= length (gl t0))%nat -> firstn m (gl' t0) = firstn m (gl t0)).
  { intros t0 m Hm. destruct (N.eq_dec t0 t) as [->|Hne]; [rewrite Glt; apply firstn_app_le; exact Hm|rewrite Glne by exact Hne; reflexivity]. }
  assert (OwnOld : forall t0 m, own gl t0 m -> own gl' t0 m /\ (m <= length (gl t0))%nat).
  { intros t0 m Ho. pose proof (term_at_some_len _ _ _ Ho) as [_ Hm]. split; [|exact Hm].
    unfold own in *. rewrite <- Ho. apply term_at_prefix with (m := m); [apply Fst; exact Hm|lia]. }
  assert (OwnNew : forall t0 m, own gl' t0 m -> own gl t0 m \/ (t0 = t /\ m = S (length (gl t)))).
  { intros t0 m Ho. destruct (N.eq_dec t0 t) as [->|Hne].
    - pose proof (term_at_some_len _ _ _ Ho) as [_ Hm]. rewrite Glt, app_length in Hm. cbn in Hm.
      destruct (le_lt_dec m (length (gl t))) as [Hle|]; [left|right; split; [reflexivity|lia]].
      unfold own in *. rewrite <- Ho. symmetry. apply term_at_prefix with (m := m); [apply Fst; exact Hle|lia].
    - left. unfold own in *. rewrite Glne in Ho by exact Hne. exact Ho. }
  (* P between old own positions is unchanged *)
  assert (Peq : forall t0 m w, own gl t0 m -> (P gl' t0 m w <-> P gl t0 m w)).
  { intros t0 m w Ho. destruct (OwnOld _ _ Ho) as [_ Hm]. unfold P. rewrite (Fst t0 m Hm).
    destruct (N.eq_dec w t) as [->|Hne]; [|rewrite Glne by exact Hne; tauto].
    rewrite Glt. destruct (le_lt_dec m (length (gl t))) as [Hle|Hgt]; [rewrite firstn_app_le by exact Hle; tauto|].
    (* m lies beyond ledger t: the two sides have different entries / lengths both before and after *)
    split; intros HP; exfalso.
    + assert (Hlen : length (firstn m (gl t ++ [e])) = length (firstn m (gl t0))) by (rewrite HP; reflexivity).
      rewrite !firstn_length, app_length in Hlen. cbn in Hlen.
      assert (m = S (length (gl t))) by lia. subst m.
      assert (Ht : term_at (gl t0) (S (length (gl t))) = Some t).
      { rewrite <- (term_at_prefix (gl t ++ [e]) (gl t0) (S (length (gl t))) (S (length (gl t))) HP (le_n _)).
        unfold term_at. rewrite ent_at_app_last. reflexivity. }
      unfold own in Ho. rewrite Ht in Ho. injection Ho as <-. lia.
    + assert (Hlen : length (firstn m (gl t)) = length (firstn m (gl t0))) by (rewrite HP; reflexivity).
      rewrite !firstn_length in Hlen. lia. }
  assert (Peq' : forall t0 m w, own gl t0 m -> t0 = t -> w <> t -> True) by trivial.
  (* acknowledgements after the step *)
  assert (AckLe : forall v dst t0 fol mi, In (v, dst, AER t0 true fol mi) (pool s) -> (N.to_nat mi <= length (gl t0))%nat)
    by (intros; eapply A1; eauto).
  assert (Ak : forall v t0 m, Acked (upd_node s i x []) gl' a' v t0 m ->
              Acked s gl a v t0 m \/ (v = i /\ t0 = t /\ m = S (length (gl t)))).
  { intros v t0 m [Ho H]. destruct (OwnNew _ _ Ho) as [Ho'|[-> ->]].
    - left. split; [exact Ho'|]. destruct H as [[dst [fol [mi [Hin Hm]]]]|Hld]; [left|right; apply HL; exact Hld].
      apply pool_upd in Hin. destruct Hin as [Hin|[d [m0 [[] _]]]]. eauto.
    - destruct H as [[dst [fol [mi [Hin Hm]]]]|Hld].
      + exfalso. apply pool_upd in Hin. destruct Hin as [Hin|[d [m0 [[] _]]]]. specialize (AckLe _ _ _ _ _ Hin). lia.
      + right. apply HL in Hld. pose proof (Vote.election_safety n q quorum_ok a HI _ _ _ Hld Hme).
        split; [lia|split; reflexivity]. }
  assert (ExLe : forall t0 m b, own gl t0 m -> ExcLe gl a t0 m b -> ExcLe gl' a' t0 m b).
  { intros t0 m b Ho [w [c [H1 [H2 [H3 H4]]]]]. exists w, c. repeat split; auto; [apply HL; exact H3|rewrite Peq; assumption]. }
  assert (ExC : forall t0 m u c0, own gl t0 m -> ExcC gl a t0 m u c0 -> ExcC gl' a' t0 m u c0).
  { intros t0 m u c0 Ho [w [c [H1 [H2 [H3 H4]]]]]. exists w, c. repeat split; auto; [apply HL; exact H2|rewrite Peq; assumption]. }
  assert (ExLt : forall t0 m u, own gl t0 m -> ExcLt gl a t0 m u -> ExcLt gl' a' t0 m u).
  { intros t0 m u Ho [w [c [H1 [H2 [H3 H4]]]]]. exists w, c. repeat split; auto; [apply HL; exact H3|rewrite Peq; assumption]. }
  assert (HPre : forall L t0 m, own gl t0 m -> HasPrefix gl L t0 m -> HasPrefix gl' L t0 m).
  { intros L t0 m Ho [B1 B2]. destruct (OwnOld _ _ Ho) as [_ Hm]. split; [rewrite (Fst t0 m Hm); exact B1|exact B2]. }
  assert (Lgx : forall j, log (nd_of (upd_node s i x []) j) = if N.eqb j i then log nd ++ [e] else log (nd_of s j)).
  { intros j. rewrite Nd. destruct (N.eqb j i); reflexivity. }
  assert (Tmx : forall j, term (nd_of (upd_node s i x []) j) = term (nd_of s j)).
  { intros j. rewrite Nd. destruct (N.eqb_spec j i) as [->|]; reflexivity. }
  constructor.
  - (* c_ack *)
    intros v dst t0 fol mi Hin. apply pool_upd in Hin. destruct Hin as [Hin|[d [m0 [[] _]]]].
    destruct (A1 _ _ _ _ _ Hin) as [B1 [B2 B3]]. split; [exact B1|]. split; [|rewrite Tmx; exact B3].
    destruct (N.eq_dec t0 t) as [->|Hne]; [rewrite Glt, app_length; lia|rewrite Glne by exact Hne; exact B2].
  - (* c_keep *)
    intros v t0 m Hv Hack. rewrite Lgx, Tmx. destruct (Ak _ _ _ Hack) as [Hold|[-> [-> ->]]].
    + destruct Hold as [Ho Hrest]. destruct (A2 v t0 m Hv (conj Ho Hrest)) as [[B1 B2]|He].
      * left. apply HPre; [exact Ho|]. destruct (N.eqb_spec v i) as [->|]; [|split; assumption].
        fold nd in B1, B2. split; [rewrite firstn_app_le by exact B2; exact B1|rewrite app_length; lia].
      * right. apply ExLe; assumption.
    + left. rewrite N.eqb_refl. split; [rewrite Glt, EL; reflexivity|rewrite app_length, EL; cbn; lia].
  - (* c_own *)
    intros t0 c Hld Ht0. apply HL in Hld. rewrite Tmx in Ht0. rewrite Lgx.
    destruct (N.eqb_spec c i) as [->|Hne].
    + fold nd in Ht0. fold t in Ht0. subst t0. rewrite Glt, EL. reflexivity.
    + destruct (N.eq_dec t0 t) as [->|Hnt].
      * exfalso. apply Hne. pose proof (Vote.election_safety n q quorum_ok a HI _ _ _ Hld Hme). lia.
      * rewrite Glne by exact Hnt. apply A3; assumption.
  - (* c_rv *)
    intros c dst u c' lli llt Hin. apply pool_upd in Hin. destruct Hin as [Hin|[d [m0 [[] _]]]].
    destruct (A4 _ _ _ _ _ _ Hin) as [B0 [B1 B2]]. rewrite Tmx. split; [exact B0|]. split; [exact B1|]. rewrite Nd.
    destruct (N.eqb_spec c i) as [->|]; [|exact B2]. cbn [rl x]. fold nd. rewrite Hl. discriminate.
  - (* c_cand *)
    intros c Hc0. rewrite Nd. destruct (N.eqb_spec c i) as [->|]; [cbn [rl x]; fold nd; rewrite Hl; discriminate|apply A5; exact Hc0].
  - (* c_grant *)
    intros v c u voter Hin. apply pool_upd in Hin. destruct Hin as [Hin|[d [m0 [[] _]]]].
    destruct (A6 _ _ _ _ Hin) as [B1 [B2 [B3 B4]]]. rewrite !Tmx. split; [exact B1|]. split; [exact B2|]. split; [exact B3|].
    intros t0 m Hack Htu. rewrite Nd. destruct (N.eqb_spec c i) as [->|]; [cbn [rl x]; fold nd; rewrite Hl; discriminate|].
    intros Hc0 Ht0. destruct (Ak _ _ _ Hack) as [Hold|[-> [-> _]]]; [|fold nd in B2; fold t in B2; lia].
    destruct Hold as [Ho Hrest]. destruct (B4 t0 m (conj Ho Hrest) Htu Hc0 Ht0) as [Hp|He];
      [left; apply HPre; assumption|right; apply ExC; assumption].
  - (* c_elq *)
    intros u c Hld. apply HL in Hld. destruct (A7 u c Hld) as [Q [ND [LQ HQ]]]. exists Q. repeat split; auto.
    + apply (HQ v H).
    + rewrite Tmx. apply (HQ v H).
    + intros t0 m Hack Htu. destruct (HQ v H) as [_ [Bt B]].
      destruct (Ak _ _ _ Hack) as [Hold|[Ev [-> _]]]; [|rewrite Ev in Bt; fold nd in Bt; fold t in Bt; lia].
      destruct Hold as [Ho Hrest]. destruct (B t0 m (conj Ho Hrest) Htu) as [Hp|He];
        [left; rewrite Peq; assumption|right; apply ExLt; assumption].
  - (* c_ae_src *)
    intros s0 dst t0 ldr pi pt es lc Hin. apply pool_upd in Hin. destruct Hin as [Hin|[d [m0 [[] _]]]]. eapply A8; eauto.
Qed.


(* ledgers only grow, by appending *)
Definition gl_ext (gl gl' : ledger) : Prop := forall t, firstn (length (gl t)) (gl' t) = gl t.
Lemma gl_ext_refl gl : gl_ext gl gl.
Proof. intros t. apply firstn_all. Qed.
Lemma gl_ext_trans g1 g2 g3 : gl_ext g1 g2 -> gl_ext g2 g3 -> gl_ext g1 g3.
Proof.
  intros H1 H2 t. specialize (H1 t). specialize (H2 t).
  assert (L : (length (g1 t) <= length (g2 t))%nat).
  { rewrite <- H1 at 1. rewrite firstn_length. lia. }
  transitivity (firstn (length (g1 t)) (firstn (length (g2 t)) (g3 t))).
  - rewrite firstn_firstn. f_equal. lia.
  - rewrite H2. exact H1.
Qed.
Lemma gl_ext_set_app gl t X : gl_ext gl (gl_set gl t (gl t ++ X)).
Proof.
  intros t0. unfold gl_set. destruct (N.eqb_spec t0 t) as [->|]; [|apply firstn_all].
  rewrite firstn_app, Nat.sub_diag, firstn_all. cbn. apply app_nil_r.
Qed.
Lemma gl_ext_set_empty gl t L : gl t = [] -> gl_ext gl (gl_set gl t L).
Proof.
  intros E t0. unfold gl_set. destruct (N.eqb_spec t0 t) as [->|]; [rewrite E; reflexivity|apply firstn_all].
Qed.

(* ---------------- the full invariant and its preservation ---------------- *)
(* the follower's prev-entry test accepts only a matching term *)
Hypothesis prev_sound : forall xt pt, prev_ok ru xt pt = true -> xt = pt.
(* the leader sends entries only together with a prev entry that is still in its log *)
Hypothesis need_prev : entries_need_prev ru = true.
(* a vote is granted only to a candidate whose log is at least as up to date *)
Hypothesis vote_sound : forall lli llt mli mlt g, vote_log_ok ru lli llt mli mlt g = true ->
  N.ltb mlt llt || (N.eqb llt mlt && N.ltb mli lli) || (N.eqb llt mlt && N.eqb lli mli) = true.



(* every node's compacted prefix agrees with the ledger of every leader whose AppendEntries it may still accept
   (derived from the commit invariant in Safety.v; a premise of the step theorem here) *)
Definition CompOK (s : sys) (gl : ledger) : Prop :=
  forall src dst t ldr pi pt es lc, In (src, dst, AE t ldr pi pt es lc) (pool s) -> dst < n_nodes cfg ->
    term (nd_of s dst) <= t ->
    firstn (N.to_nat (base (nd_of s dst))) (log (nd_of s dst)) = firstn (N.to_nat (base (nd_of s dst))) (gl t).

(* B is a set of (term, leader) pairs already known to the ghost; it lets a caller follow one ghost
   state through a step (Safety.v) *)
Definition FIB (B : list (nat * nat)) (s : sys) (gl : ledger) : Prop :=
  exists a, R cfg s a /\ Vote.Inv n q a /\ Vote.Inv8 a /\ LMI cfg s gl a /\ LCI s gl a /\ incl B (Vote.leaders a).

Section WithBase.
Variable B0 : list (nat * nat).
Notation FI := (FIB B0).

Lemma inv8_step01 a a' : Vote.Inv8 a -> step01 cfg a a' -> Vote.Inv8 a'.
Proof. intros H [->|St]; [exact H|eapply Vote.step_inv8; eauto]. Qed.

Lemma h_rv_resp self nd t c lli llt ok nd' r :
  h_rv ru self nd t c lli llt ok = (nd', r) ->
  exists tt g, r = RVR tt g self /\
    (g = true -> tt = t /\ term nd <= t /\ term nd' = t /\
       (let '(mli, mlt) := last_info (log nd) in
        N.ltb mlt llt || (N.eqb llt mlt && N.ltb mli lli) || (N.eqb llt mlt && N.eqb lli mli)) = true).
Proof.
  unfold h_rv. intros H.
  set (nd1 := if N.ltb (term nd) t then step_down nd t else nd) in *.
  assert (L1 : log nd1 = log nd) by (unfold nd1; destruct (N.ltb (term nd) t); reflexivity).
  assert (T1 : term nd <= term nd1) by (unfold nd1; destruct (N.ltb_spec (term nd) t); cbn; lia).
  destruct (N.eqb_spec t (term nd1)) as [Et|Hne].
  - rewrite L1 in H. destruct (last_info (log nd)) as [mli mlt].
    match type of H with (if ?c then _ else _) = _ => destruct c eqn:G end; injection H as <- <-.
    + exists (term nd1), true. split; [reflexivity|]. intros _. cbn [term set_term_vote].
      rewrite !andb_true_iff in G. destruct G as [[_ G] _]. apply vote_sound in G. repeat split; try lia; exact G.
    + exists (term nd1), false. split; [reflexivity|discriminate].
  - injection H as <- <-. exists (term nd1), false. split; [reflexivity|discriminate].
Qed.


Record OutOk (s : sys) (gl : ledger) (a : Vote.sys) (i : N) (x : node) (out : list (N * msg)) : Prop := {
  oo_ae : forall d t ldr pi pt es lc, In (d, AE t ldr pi pt es lc) out ->
     i <> d /\ Ld a t i /\
     es = firstn (length es) (skipn (N.to_nat pi) (gl t)) /\
     (pi = 0 \/ term_at (gl t) (N.to_nat pi) = Some pt) /\ (N.to_nat pi <= length (gl t))%nat;
  oo_rv : forall d u c' lli llt, In (d, RV u c' lli llt) out ->
     i <> d /\ u <= term x /\ (rl x = Candidate -> term x = u -> last_info (log x) = (lli, llt));
  oo_rvr : forall d u voter, In (d, RVR u true voter) out ->
     d <> i /\ u <= term x /\ u <= term (nd_of s d) /\
     forall t m, Acked s gl a i t m -> t < u ->
       rl (nd_of s d) = Candidate -> term (nd_of s d) = u ->
       HasPrefix gl (log (nd_of s d)) t m \/ ExcC gl a t m u d
}.

Lemma OutOk_nil s gl a i x : OutOk s gl a i x [].
Proof. constructor; intros; contradiction. Qed.

Lemma fi_frame s gl o i x out :
  FI s gl -> fst (gstep cfg ru s o) = upd_node s i x out -> i < n_nodes cfg ->
  K1 (nd_of s i) x ->
  (rl x = Candidate -> forall e, In e (log x) -> eterm e < term x) ->
  (forall d t0 fol mi, ~ In (d, AER t0 true fol mi) out) ->
  (forall a, R cfg s a -> Vote.Inv n q a -> LMI cfg s gl a -> LCI s gl a -> OutOk s gl a i x out) ->
  FI (upd_node s i x out) gl.
Proof.
  intros [a [HR [HI [H8 [HM [HC HB]]]]]] E Hi HK Hcand Hnoaer Hout.
  destruct (sim_step cfg ru quorum_ok s a o HR) as [a' [S01 HR']]. rewrite E in HR'.
  destruct (Hout a HR HI HM HC) as [Oae Orv Orvr].
  assert (HLs : forall p, In p (Vote.leaders a') <-> In p (Vote.leaders a)).
  { eapply (leaders_same cfg quorum_ok); eauto. intros j Hj Hl Hc.
    rewrite (nth_upd s a) in Hl by assumption. destruct (N.eqb_spec j i) as [->|]; [|congruence].
    destruct HK as [_ [_ [KL _]]]. destruct (KL Hl) as [Hl' _]. congruence. }
  exists a'. split; [exact HR'|]. split; [eapply (inv_step01 cfg quorum_ok); eauto|].
  split; [eapply inv8_step01; eauto|]. split.
  - destruct HK as [K1a [K1b [K1c K1d]]].
    eapply (lmi_frame cfg quorum_ok); eauto. intros d t ldr pi pt es lc Hin.
    destruct (Oae _ _ _ _ _ _ _ Hin) as [_ [B1 B2]]. split; assumption.
  - split; [|intros p0 Hp0; apply HLs, HB, Hp0]. eapply lci_frame; eauto.
    intros d t0 ldr pi pt es lc Hin. apply (Oae _ _ _ _ _ _ _ Hin).
Qed.

Lemma fi_ae s gl o i x src t pi pt es mi lc ldr :
  FI s gl -> fst (gstep cfg ru s o) = upd_node s i x [(src, AER t true i mi)] -> i < n_nodes cfg ->
  In (src, i, AE t ldr pi pt es lc) (pool s) ->
  (pi = 0 \/ (pi <= llen (log (nd_of s i)) /\ (term_at (log (nd_of s i)) (N.to_nat pi) = Some pt \/ pi <= base (nd_of s i)))) ->
  rl x = Follower -> term x = t -> term (nd_of s i) <= t ->
  log x = append_entries (gap_refused ru) (base (nd_of s i)) es (log (nd_of s i)) ->
  firstn (N.to_nat (base (nd_of s i))) (log (nd_of s i)) = firstn (N.to_nat (base (nd_of s i))) (gl t) ->
  mi = follower_ack ru pi (last_new pi es) (llen (log x)) ->
  FI (upd_node s i x [(src, AER t true i mi)]) gl.
Proof.
  intros [a [HR [HI [H8 [HM [HC HB]]]]]] E Hi Hin Hok Hrl Hterm Hge Hlog Hcomp Hmi.
  destruct (sim_step cfg ru quorum_ok s a o HR) as [a' [S01 HR']]. rewrite E in HR'.
  destruct (lm_M1 _ _ _ _ HM _ _ _ _ _ _ _ _ Hin) as [Hld [M1 [M2 M3]]].
  pose proof (c_ae_src _ _ _ HC _ _ _ _ _ _ _ _ Hin) as Hsd.
  assert (HLs : forall p, In p (Vote.leaders a') <-> In p (Vote.leaders a)).
  { eapply (leaders_same cfg quorum_ok); eauto. intros j Hj Hl Hc.
    rewrite (nth_upd s a) in Hl by assumption. destruct (N.eqb_spec j i) as [->|]; congruence. }
  exists a'. split; [exact HR'|]. split; [eapply (inv_step01 cfg quorum_ok); eauto|].
  split; [eapply inv8_step01; eauto|]. split.
  - eapply (lmi_ae cfg ru quorum_ok); eauto. intros d t0 ldr0 pi0 pt0 es0 lc0 [Eq|[]]. discriminate.
  - split; [eapply lci_ae; eauto|intros p0 Hp0; apply HLs, HB, Hp0].
Qed.

Lemma fi_propose s gl o i p :
  FI s gl -> i < n_nodes cfg -> rl (nd_of s i) = Leader ->
  let nd := nd_of s i in
  let x := Node (term nd) (voted nd) (rl nd) (votes nd) (log nd ++ [E (term nd) (llen (log nd) + 1) p])
                (commit nd) (in_prevote nd) (prevotes nd) (lvs nd) (fin nd) (base nd) in
  fst (gstep cfg ru s o) = upd_node s i x [] ->
  FI (upd_node s i x []) (gl_set gl (term nd) (log x)).
Proof.
  intros [a [HR [HI [H8 [HM [HC HB]]]]]] Hi Hl nd x E.
  destruct (sim_step cfg ru quorum_ok s a o HR) as [a' [S01 HR']]. rewrite E in HR'.
  assert (HLs : forall pp, In pp (Vote.leaders a') <-> In pp (Vote.leaders a)).
  { eapply (leaders_same cfg quorum_ok); eauto. intros j Hj Hlj Hc.
    rewrite (nth_upd s a) in Hlj by assumption. destruct (N.eqb_spec j i) as [->|]; congruence. }
  exists a'. split; [exact HR'|]. split; [eapply (inv_step01 cfg quorum_ok); eauto|].
  split; [eapply inv8_step01; eauto|]. split.
  - apply (lmi_propose cfg quorum_ok s gl a a'); auto.
  - split; [apply (lci_propose s gl a a'); auto|intros p0 Hp0; apply HLs, HB, Hp0].
Qed.

Lemma fi_leader s gl o i x :
  FI s gl -> fst (gstep cfg ru s o) = upd_node s i x [] -> i < n_nodes cfg ->
  rl (nd_of s i) = Candidate -> rl x = Leader -> log x = log (nd_of s i) -> term x = term (nd_of s i) ->
  votes x <> [] -> N.leb (quorum cfg) (llen (votes x)) = true ->
  FI (upd_node s i x []) (gl_set gl (term x) (log x)) /\ gl (term x) = [].
Proof.
  intros [a [HR [HI [H8 [HM [HC HB]]]]]] E Hi Hc Hl Hlog Hterm Hvne Hquo.
  destruct (sim_step cfg ru quorum_ok s a o HR) as [a' [S01 HR']]. rewrite E in HR'.
  pose proof (inv_step01 cfg quorum_ok _ _ HI S01) as HI'. pose proof (inv8_step01 _ _ H8 S01) as H8'.
  assert (Hmono : forall p, In p (Vote.leaders a) -> In p (Vote.leaders a')) by (apply (leaders_mono cfg); exact S01).
  assert (Hnew : forall p, In p (Vote.leaders a') -> p = (N.to_nat (term x), N.to_nat i) \/ In p (Vote.leaders a)).
  { intros [t j] Hin. destruct S01 as [->|St]; [right; exact Hin|].
    destruct (Vote.step_leaders_new _ _ _ _ St _ _ Hin) as [H|[Hj [L' [T' [C0 _]]]]]; [right; exact H|].
    assert (Hjn : N.of_nat j < n_nodes cfg) by (fold n in Hj; lia).
    pose proof (R_nodes _ _ _ HR' (N.of_nat j) Hjn) as E'. rewrite Nat2N.id in E'. rewrite E' in L', T'.
    pose proof (R_nodes _ _ _ HR (N.of_nat j) Hjn) as E0. rewrite Nat2N.id in E0. rewrite E0 in C0.
    rewrite (nth_upd s a) in L', T' by assumption.
    destruct (N.eqb_spec (N.of_nat j) i) as [Eji|Hne].
    + left. cbn in T'. subst t. f_equal. lia.
    + exfalso. cbn in L', C0. destruct (rl (nd_of s (N.of_nat j))); cbn in *; discriminate. }
  split.
  - exists a'. split; [exact HR'|]. split; [exact HI'|]. split; [exact H8'|]. split.
    + apply (lmi_leader cfg quorum_ok s gl a (upd_node s i x []) a' i x); auto.
    + split; [apply (lci_leader s gl a a' i x); auto|intros p0 Hp0; apply Hmono, HB, Hp0].
  - (* no leader of that term existed, so its ledger is still empty *)
    destruct (gl (term x)) as [|e0 l0] eqn:Eg; [reflexivity|exfalso].
    destruct (lm_G1 _ _ _ _ HM (term x)) as [j Hj]; [rewrite Eg; discriminate|].
    assert (Hme : Ld a' (term x) i).
    { pose proof (Vote.I7 _ _ _ HI' (N.to_nat i)) as G. rewrite (R_nodes _ _ _ HR' i Hi) in G.
      rewrite (nth_upd s a) in G by assumption. rewrite N.eqb_refl in G. cbn in G. rewrite Hl in G. apply G. reflexivity. }
    pose proof (Vote.election_safety n q quorum_ok a' HI' _ _ _ (Hmono _ Hj) Hme) as Eji.
    assert (j = i) by lia. subst j.
    apply (lm_G3 _ _ _ _ HM _ _ Hj); [lia|exact Hc].
Qed.


Lemma T1_cand s gl a i x :
  LMI cfg s gl a -> log x = log (nd_of s i) -> term (nd_of s i) < term x ->
  forall e, In e (log x) -> eterm e < term x.
Proof. intros HM Hl Ht e He. rewrite Hl in He. pose proof (lm_T1 _ _ _ _ HM i e He). lia. Qed.

Theorem fi_step : forall s gl o, FI s gl -> CompOK s gl -> exists gl', FI (fst (gstep cfg ru s o)) gl' /\ gl_ext gl gl'.
Proof.
  intros s gl o HF HCO.
  assert (Stay : exists gl', FI s gl' /\ gl_ext gl gl') by (exists gl; split; [exact HF|apply gl_ext_refl]).
  pose proof HF as [a0 [HR0 [HI0 [H80 [HM0 [HC0 HB0]]]]]].
  destruct o as [i|i|i|i|i p ok|k ok|i|i ok|i h|i]; cbn [gstep].
  - (* GElect *)
    unfold valid_id. destruct (N.ltb_spec i (n_nodes cfg)) as [Hi|]; cbn [fst]; [|exact Stay].
    exists gl. split; [|apply gl_ext_refl]. eapply (fi_frame s gl (GElect i)); eauto.
    + cbn [gstep]. unfold valid_id. destruct (N.ltb_spec i (n_nodes cfg)); [reflexivity|lia].
    + apply (K1_elect cfg quorum_ok).
    + intros _. apply (T1_cand s gl a0 i); auto. cbn. lia.
    + intros d t0 fol mi Hin. destruct (rv_msgs_ok cfg quorum_ok _ _ _ _ Hin) as [_ [? [? E]]]. discriminate.
    + intros a HR HI HM HC. constructor.
      * intros d t ldr pi pt es lc Hin. destruct (rv_msgs_ok cfg quorum_ok _ _ _ _ Hin) as [_ [? [? E]]]. discriminate.
      * intros d u c' lli llt Hin. pose proof Hin as Hin'. unfold rv_msgs in Hin'.
        destruct (last_info (log (start_election i (nd_of s i)))) as [a1 b1] eqn:El.
        apply in_map_iff in Hin'. destruct Hin' as [pp [E Hp]]. injection E as <- <- <- <- <-.
        destruct (peers_valid cfg quorum_ok i pp Hp) as [_ Hne]. split; [congruence|]. split; [apply N.le_refl|]. intros _ _. first [exact El | reflexivity].
      * intros d u voter Hin. destruct (rv_msgs_ok cfg quorum_ok _ _ _ _ Hin) as [_ [? [? E]]]. discriminate.
  - (* GPreVote *)
    unfold valid_id. destruct (N.ltb_spec i (n_nodes cfg)) as [Hi|]; cbn [fst]; [|exact Stay].
    assert (Hpv : forall d m0, In (d, m0) (pv_msgs cfg i (start_pre_vote i (nd_of s i))) -> exists a1 b1 c1 d1, m0 = PV a1 b1 c1 d1).
    { intros d m0 Hin. unfold pv_msgs in Hin. destruct (last_info _) as [a1 b1].
      apply in_map_iff in Hin. destruct Hin as [pp [E _]]. injection E as <- <-. eauto. }
    exists gl. split; [|apply gl_ext_refl]. eapply (fi_frame s gl (GPreVote i)); eauto.
    + cbn [gstep]. unfold valid_id. destruct (N.ltb_spec i (n_nodes cfg)); [reflexivity|lia].
    + apply (K1_same cfg quorum_ok); reflexivity.
    + cbn [start_pre_vote rl log term]. apply (c_cand _ _ _ HC0 i Hi).
    + intros d t0 fol mi Hin. destruct (Hpv _ _ Hin) as [? [? [? [? E]]]]. discriminate.
    + intros a HR HI HM HC. constructor; intros; match goal with H : In _ _ |- _ => destruct (Hpv _ _ H) as [? [? [? [? E]]]]; discriminate end.
  - (* GRequestVotes *)
    unfold valid_id. destruct (N.ltb_spec i (n_nodes cfg)) as [Hi|]; cbn [fst]; [|exact Stay].
    destruct (rl (nd_of s i)) eqn:Er; try exact Stay.
    exists gl. split; [|apply gl_ext_refl]. eapply (fi_frame s gl (GRequestVotes i)); eauto.
    + cbn [gstep]. unfold valid_id. destruct (N.ltb_spec i (n_nodes cfg)); [|lia]. rewrite Er. reflexivity.
    + apply (K1_refl cfg quorum_ok).
    + intros _. apply (c_cand _ _ _ HC0 i Hi Er).
    + intros d t0 fol mi Hin. destruct (rv_msgs_ok cfg quorum_ok _ _ _ _ Hin) as [_ [? [? E]]]. discriminate.
    + intros a HR HI HM HC. constructor.
      * intros d t ldr pi pt es lc Hin. destruct (rv_msgs_ok cfg quorum_ok _ _ _ _ Hin) as [_ [? [? E]]]. discriminate.
      * intros d u c' lli llt Hin. pose proof Hin as Hin'. unfold rv_msgs in Hin'.
        destruct (last_info (log (nd_of s i))) as [a1 b1] eqn:El.
        apply in_map_iff in Hin'. destruct Hin' as [pp [E Hp]]. injection E as <- <- <- <- <-.
        destruct (peers_valid cfg quorum_ok i pp Hp) as [_ Hne]. split; [congruence|]. split; [apply N.le_refl|]. intros _ _. first [exact El | reflexivity].
      * intros d u voter Hin. destruct (rv_msgs_ok cfg quorum_ok _ _ _ _ Hin) as [_ [? [? E]]]. discriminate.
  - (* GHeartbeat *)
    unfold valid_id. destruct (N.ltb_spec i (n_nodes cfg)) as [Hi|]; cbn [fst]; [|exact Stay].
    assert (Hhb : forall d m0, In (d, m0) (heartbeat_msgs cfg ru i (nd_of s i)) ->
              rl (nd_of s i) = Leader /\ In d (peers_of cfg i) /\
              exists pi pt es, entries_for ru (nd_of s i) d = (pi, pt, es) /\ m0 = AE (term (nd_of s i)) i pi pt es (commit (nd_of s i))).
    { intros d m0 Hin. unfold heartbeat_msgs in Hin. destruct (rl (nd_of s i)) eqn:Er; try contradiction.
      apply in_map_iff in Hin. destruct Hin as [pp [E Hp]]. destruct (entries_for ru (nd_of s i) pp) as [[pi0 pt0] es0] eqn:Ee.
      injection E as <- <-. split; [reflexivity|]. split; [exact Hp|]. eauto. }
    exists gl. split; [|apply gl_ext_refl]. eapply (fi_frame s gl (GHeartbeat i)); eauto.
    + cbn [gstep]. unfold valid_id. destruct (N.ltb_spec i (n_nodes cfg)); [reflexivity|lia].
    + apply (K1_refl cfg quorum_ok).
    + apply (c_cand _ _ _ HC0 i Hi).
    + intros d t0 fol mi Hin. destruct (Hhb _ _ Hin) as [_ [_ [? [? [? [_ E]]]]]]. discriminate.
    + intros a HR HI HM HC. constructor.
      * intros d t ldr pi pt es lc Hin. destruct (Hhb _ _ Hin) as [Er [Hp [pi0 [pt0 [es0 [Ee E]]]]]].
        injection E as E1 E2 E3 E4 E5 E6. subst t ldr pi pt es lc.
        pose proof (entries_for_ok cfg ru quorum_ok need_prev (nd_of s i) d (lm_wi_log _ _ _ _ HM i)) as Hok. rewrite Ee in Hok.
        destruct (peers_valid cfg quorum_ok i d Hp) as [_ Hne]. split; [congruence|].
        rewrite <- (lm_L3 _ _ _ _ HM i Hi Er). split; [|exact Hok].
        pose proof (Vote.I7 _ _ _ HI (N.to_nat i)) as G. rewrite (R_nodes _ _ _ HR i Hi) in G. cbn in G.
        rewrite Er in G. apply G. reflexivity.
      * intros d u c' lli llt Hin. destruct (Hhb _ _ Hin) as [_ [_ [? [? [? [_ E]]]]]]. discriminate.
      * intros d u voter Hin. destruct (Hhb _ _ Hin) as [_ [_ [? [? [? [_ E]]]]]]. discriminate.
  - (* GPropose *)
    unfold valid_id. destruct (N.ltb_spec i (n_nodes cfg)) as [Hi|]; cbn [fst]; [|exact Stay].
    assert (Quiet : forall okb, propose (nd_of s i) p okb = nd_of s i ->
              exists gl', FI (upd_node s i (propose (nd_of s i) p okb) []) gl' /\ gl_ext gl gl').
    { intros okb Ep. exists gl. split; [|apply gl_ext_refl]. eapply (fi_frame s gl (GPropose i p okb)); eauto.
      all: try (intros ? ? ? ? []; fail).
      all: try (intros; apply OutOk_nil; fail).
      all: try (rewrite Ep; apply (K1_refl cfg quorum_ok); fail).
      all: try (rewrite Ep; apply (c_cand _ _ _ HC0 i Hi); fail).
      all: try (cbn [gstep]; unfold valid_id; destruct (N.ltb_spec i (n_nodes cfg)); [reflexivity|lia]). }
    unfold propose in *. destruct (rl (nd_of s i)) eqn:Er; try (apply (Quiet ok); reflexivity).
    destruct ok; [|apply (Quiet false); reflexivity].
    rewrite <- Er. eexists. split.
    + apply (fi_propose s gl (GPropose i p true) i p HF Hi Er).
      cbn [gstep]. unfold valid_id. destruct (N.ltb_spec i (n_nodes cfg)); [|lia]. unfold propose. rewrite Er. reflexivity.
    + cbn [log]. rewrite (lm_L3 _ _ _ _ HM0 i Hi Er). apply gl_ext_set_app.
  - (* GDeliver *)
    destruct (nth_error (pool s) (N.to_nat k)) as [[[src dst] m]|] eqn:Ek; cbn [fst]; [|exact Stay].
    pose proof (nth_error_In _ _ Ek) as Hin.
    destruct (R_ids _ _ _ HR0 _ _ _ Hin) as [Hsrc Hdst].
    unfold valid_id. destruct (N.ltb_spec dst (n_nodes cfg)) as [_|]; [|lia]. cbn [fst].
    assert (Eg : forall s', deliver cfg ru s src dst m ok = s' -> fst (gstep cfg ru s (GDeliver k ok)) = s').
    { intros s' <-. cbn [gstep]. rewrite Ek. unfold valid_id. destruct (N.ltb_spec dst (n_nodes cfg)); [reflexivity|lia]. }
    destruct m as [t cand lli llt|t g voter|t cand lli llt|t g voter|t ldr pi pt es lc|t succ fol mi]; cbn [deliver] in *; cbv zeta in *.
    + (* RV *)
      destruct (h_rv ru dst (nd_of s dst) t cand lli llt ok) as [nd' r] eqn:Eh.
      destruct (h_rv_resp _ _ _ _ _ _ _ _ _ Eh) as [tt [g [Er Hg]]]. subst r.
      pose proof (h_rv_K1 cfg ru quorum_ok dst (nd_of s dst) t cand lli llt ok) as HK. rewrite Eh in HK. cbn [fst] in HK.
      exists gl. split; [|apply gl_ext_refl]. eapply (fi_frame s gl (GDeliver k ok)); eauto.
      * intros Hc. destruct HK as [Kl [_ [_ KC]]]. destruct (KC Hc) as [[Hoc Hot]|Hlt].
        -- intros e He. rewrite Kl in He. rewrite Hot. apply (c_cand _ _ _ HC0 dst Hdst Hoc e He).
        -- apply (T1_cand s gl a0 dst); auto.
      * intros d t0 fol mi [E|[]]. discriminate.
      * intros a HR HI HM HC. constructor.
        -- intros d t0 ldr pi pt es lc [E|[]]. discriminate.
        -- intros d u c' l1 l2 [E|[]]. discriminate.
        -- intros d u voter0 [E|[]]. injection E as <- <- Eg0 <-. subst g. destruct (Hg eq_refl) as [-> [Ht1 [Ht2 Hchk]]].
           destruct (c_rv _ _ _ HC _ _ _ _ _ _ Hin) as [Hne [Hu Hli]].
           split; [exact Hne|]. split; [lia|]. split; [exact Hu|].
           intros t0 m Hack Ht0 Hcd Htd.
           assert (Ecand : src = cand) by (eapply (R_rv _ _ _ HR); eauto). subst cand.
           eapply (grant_prefix s gl a dst src t lli llt t0 m); eauto.
    + (* RVR *)
      unfold h_rvr in *. destruct (rl (nd_of s dst)) eqn:Er.
      * exists gl. split; [|apply gl_ext_refl]. eapply (fi_frame s gl (GDeliver k ok)); eauto.
        all: try (intros ? ? ? ? []; fail).
        all: try (intros; apply OutOk_nil; fail).
        all: try (apply (K1_refl cfg quorum_ok); fail).
        all: try (rewrite Er; discriminate).
      * destruct (N.ltb_spec (term (nd_of s dst)) t).
        -- exists gl. split; [|apply gl_ext_refl]. eapply (fi_frame s gl (GDeliver k ok)); eauto.
           all: try (intros ? ? ? ? []; fail).
           all: try (intros; apply OutOk_nil; fail).
           all: try (apply K1_follower; cbn; auto; lia).
           all: try (cbn; discriminate).
        -- destruct (g && N.eqb t (term (nd_of s dst)) && negb (memb src (votes (nd_of s dst)))).
           ++ destruct (N.leb (quorum cfg) (llen (votes (nd_of s dst) ++ [src]))) eqn:Eq.
              ** match goal with |- exists gl', FI (upd_node s dst ?x []) gl' /\ _ =>
                   assert (FL : FI (upd_node s dst x []) (gl_set gl (term x) (log x)) /\ gl (term x) = []) end.
                 { eapply (fi_leader s gl (GDeliver k ok)); eauto.
                   all: try (cbn; destruct (votes (nd_of s dst)); discriminate). }
                 destruct FL as [FL Hemp]. eexists. split; [exact FL|apply gl_ext_set_empty; exact Hemp].
              ** exists gl. split; [|apply gl_ext_refl]. eapply (fi_frame s gl (GDeliver k ok)); eauto.
                 all: try (intros ? ? ? ? []; fail).
                 all: try (intros; apply OutOk_nil; fail).
                 all: try (apply (K1_same cfg quorum_ok); cbn; auto; fail).
                 all: try (cbn [rl log term]; intros _; apply (c_cand _ _ _ HC0 dst Hdst Er)).
           ++ exists gl. split; [|apply gl_ext_refl]. eapply (fi_frame s gl (GDeliver k ok)); eauto.
              all: try (intros ? ? ? ? []; fail).
              all: try (intros; apply OutOk_nil; fail).
              all: try (apply (K1_refl cfg quorum_ok); fail).
              all: try (intros _; apply (c_cand _ _ _ HC0 dst Hdst Er)).
      * exists gl. split; [|apply gl_ext_refl]. eapply (fi_frame s gl (GDeliver k ok)); eauto.
        all: try (intros ? ? ? ? []; fail).
        all: try (intros; apply OutOk_nil; fail).
        all: try (apply (K1_refl cfg quorum_ok); fail).
        all: try (rewrite Er; discriminate).
    + (* PV *)
      unfold h_pv in *. destruct (last_info (log (nd_of s dst))) as [mli mlt].
      exists gl. split; [|apply gl_ext_refl]. eapply (fi_frame s gl (GDeliver k ok)); eauto.
      * apply (K1_refl cfg quorum_ok).
      * apply (c_cand _ _ _ HC0 dst Hdst).
      * intros d t0 fol mi [E|[]]. discriminate.
      * intros a HR HI HM HC. constructor; intros; match goal with H : In _ [_] |- _ => destruct H as [E|[]]; discriminate end.
    + (* PVR *)
      pose proof (h_pvr_K1 cfg quorum_ok dst (nd_of s dst) src t g) as HK.
      exists gl. split; [|apply gl_ext_refl]. eapply (fi_frame s gl (GDeliver k ok)); eauto.
      all: try (intros ? ? ? ? []; fail).
      all: try (intros; apply OutOk_nil; fail).
      intros Hc. destruct HK as [Kl [_ [_ KC]]]. destruct (KC Hc) as [[Hoc Hot]|Hlt].
      * intros e He. rewrite Kl in He. rewrite Hot. apply (c_cand _ _ _ HC0 dst Hdst Hoc e He).
      * apply (T1_cand s gl a0 dst); auto.
    + (* AE *)
      unfold h_ae in *.
      set (nd := nd_of s dst) in *.
      set (nd1 := if N.ltb (term nd) t then step_down nd t else nd) in *.
      assert (Hl1 : log nd1 = log nd) by (unfold nd1; destruct (N.ltb (term nd) t); reflexivity).
      assert (Ht1 : term nd <= term nd1) by (unfold nd1; destruct (N.ltb_spec (term nd) t); cbn; lia).
      assert (OutAER : forall tt mi0 a x0, OutOk s gl a dst x0 [(src, AER tt false dst mi0)]).
      { intros. constructor; intros; match goal with H : In _ [_] |- _ => destruct H as [E|[]]; discriminate end. }
      destruct (N.eqb_spec t (term nd1)) as [Et|Hne].
      * match goal with |- context [if (if N.eqb pi 0 then true else ?rest) then _ else _] =>
          destruct (if N.eqb pi 0 then true else rest) eqn:Elok end.
        -- rewrite <- Et in *.
           assert (Hb1 : base nd1 = base nd) by (unfold nd1; destruct (N.ltb (term nd) t); reflexivity).
           assert (Hok : pi = 0 \/ (pi <= llen (log (nd_of s dst)) /\
                           (term_at (log (nd_of s dst)) (N.to_nat pi) = Some pt \/ pi <= base (nd_of s dst)))).
           { rewrite Hl1, Hb1 in Elok. unfold nd in *. destruct (N.eqb_spec pi 0) as [->|Hpi]; [left; reflexivity|right].
             destruct (N.leb_spec pi (llen (log (nd_of s dst)))) as [Hle|]; [|discriminate]. split; [exact Hle|].
             unfold lookup in Elok. destruct (N.leb_spec pi (base (nd_of s dst))) as [Hcb|Hncb]; [right; exact Hcb|left].
             rewrite nth_entry_ent_at in Elok. unfold term_at.
             destruct (ent_at (log (nd_of s dst)) (N.to_nat pi)) as [x0|] eqn:Ex.
             - apply prev_sound in Elok. cbn. congruence.
             - exfalso. unfold ent_at in Ex. destruct (N.to_nat pi) as [|kk] eqn:Ekk; [lia|].
               apply nth_error_None in Ex. unfold llen in Hle. lia. }
           destruct (lm_M1 _ _ _ _ HM0 _ _ _ _ _ _ _ _ Hin) as [_ [Hseg0 [_ Hplen0]]].
           assert (Hsucc : append_ok (gap_refused ru) (base nd1) es (log nd1) = true).
           { rewrite Hl1. apply (append_ok_seg (gap_refused ru) (base nd1) es (log nd) (N.to_nat pi) (gl t)); [apply (lm_wi_gl _ _ _ _ HM0)| |exact Hseg0].
             unfold nd in *. destruct Hok as [->|[Hle _]]; [cbn; lia|unfold llen in Hle; lia]. }
           rewrite Hsucc in *.
           exists gl. split; [|apply gl_ext_refl]. eapply (fi_ae s gl (GDeliver k ok) dst _ src t pi pt es _ lc ldr); eauto.
           all: try (cbn [log]; rewrite Hl1, ?Hb1; reflexivity).
           all: try (unfold nd in *; exact Ht1).
           all: try (unfold nd in *; eapply HCO; eauto; fail).
        -- exists gl. split; [|apply gl_ext_refl]. eapply (fi_frame s gl (GDeliver k ok)); eauto.
           ++ apply K1_follower; cbn; auto.
           ++ cbn. discriminate.
           ++ intros d t0 fol mi [E|[]]. discriminate.
      * exists gl. split; [|apply gl_ext_refl]. eapply (fi_frame s gl (GDeliver k ok)); eauto.
        -- unfold nd1 in *. destruct (N.ltb_spec (term nd) t); [cbn in Hne; congruence|apply (K1_refl cfg quorum_ok)].
        -- unfold nd1 in *. destruct (N.ltb_spec (term nd) t); [cbn in Hne; congruence|apply (c_cand _ _ _ HC0 dst Hdst)].
        -- intros d t0 fol mi [E|[]]. discriminate.
    + (* AER *)
      pose proof (h_aer_K1 cfg ru quorum_ok dst (nd_of s dst) src t succ mi) as HK.
      exists gl. split; [|apply gl_ext_refl]. eapply (fi_frame s gl (GDeliver k ok)); eauto.
      all: try (intros ? ? ? ? []; fail).
      all: try (intros; apply OutOk_nil; fail).
      intros Hc. destruct HK as [Kl [_ [_ KC]]]. destruct (KC Hc) as [[Hoc Hot]|Hlt].
      * intros e He. rewrite Kl in He. rewrite Hot. apply (c_cand _ _ _ HC0 dst Hdst Hoc e He).
      * apply (T1_cand s gl a0 dst); auto.
  - (* GRestart *)
    unfold valid_id. destruct (N.ltb_spec i (n_nodes cfg)) as [Hi|]; cbn [fst]; [|exact Stay].
    exists gl. split; [|apply gl_ext_refl]. eapply (fi_frame s gl (GRestart i)); eauto.
    all: try (intros ? ? ? ? []; fail).
    all: try (intros; apply OutOk_nil; fail).
    all: try (apply K1_follower; cbn; auto; lia).
    all: try (cbn; discriminate).
    all: try (cbn [gstep]; unfold valid_id; destruct (N.ltb_spec i (n_nodes cfg)); [reflexivity|lia]).
  - (* GTimeoutNow *)
    unfold valid_id. destruct (N.ltb_spec i (n_nodes cfg)) as [Hi|]; cbn [fst]; [|exact Stay].
    destruct ok; cbn [fst]; [|exact Stay].
    exists gl. split; [|apply gl_ext_refl]. eapply (fi_frame s gl (GTimeoutNow i true)); eauto.
    all: try (intros ? ? ? ? []; fail).
    all: try (intros; apply OutOk_nil; fail).
    + cbn [gstep]. unfold valid_id. destruct (N.ltb_spec i (n_nodes cfg)); [reflexivity|lia].
    + apply (K1_elect cfg quorum_ok).
    + intros _. apply (T1_cand s gl a0 i); auto. cbn. lia.
  - (* GFinalize *)
    unfold valid_id. destruct (N.ltb_spec i (n_nodes cfg)) as [Hi|]; cbn [fst]; [|exact Stay].
    exists gl. split; [|apply gl_ext_refl]. eapply (fi_frame s gl (GFinalize i h)); eauto.
    all: try (intros ? ? ? ? []; fail).
    all: try (intros; apply OutOk_nil; fail).
    + cbn [gstep]. unfold valid_id. destruct (N.ltb_spec i (n_nodes cfg)); [reflexivity|lia].
    + unfold finalize. match goal with |- context [if ?c then _ else _] => destruct c end; [apply (K1_same cfg quorum_ok); reflexivity|apply (K1_refl cfg quorum_ok)].
    + unfold finalize. match goal with |- context [if ?c then _ else _] => destruct c end; cbn [rl log term]; apply (c_cand _ _ _ HC0 i Hi).
  - (* GCompact *)
    unfold valid_id. destruct (N.ltb_spec i (n_nodes cfg)) as [Hi|]; cbn [fst]; [|exact Stay].
    exists gl. split; [|apply gl_ext_refl]. eapply (fi_frame s gl (GCompact i)); eauto.
    all: try (intros ? ? ? ? []; fail).
    all: try (intros; apply OutOk_nil; fail).
    + cbn [gstep]. unfold valid_id. destruct (N.ltb_spec i (n_nodes cfg)); [reflexivity|lia].
    + unfold compact. match goal with |- context [if ?c then _ else _] => destruct c end;
        [apply (K1_same cfg quorum_ok); reflexivity|apply (K1_refl cfg quorum_ok)].
    + unfold compact. match goal with |- context [if ?c then _ else _] => destruct c end; cbn [rl log term]; apply (c_cand _ _ _ HC0 i Hi).
Qed.
End WithBase.

Definition FI := FIB [].

Lemma LCI_init : LCI (init_sys cfg) (fun _ => []) Vote.init.
Proof.
  constructor; unfold init_sys; cbn [pool].
  - intros ? ? ? ? ? [].
  - intros v t m Hv [Ho _]. unfold own in Ho. pose proof (term_at_some_len _ _ _ Ho) as [A B]. cbn in B. lia.
  - intros t c [].
  - intros ? ? ? ? ? ? [].
  - intros c Hc Hr. fold (init_sys cfg) in Hr. rewrite (init_node_of cfg) in Hr. discriminate.
  - intros ? ? ? ? [].
  - intros u c [].
  - intros ? ? ? ? ? ? ? ? [].
Qed.

Lemma FI_init : FI (init_sys cfg) (fun _ => []).
Proof.
  exists Vote.init. split; [apply (R_init cfg)|]. split; [apply Vote.inv_init|]. split; [apply Vote.inv8_init|].
  split; [|split; [apply LCI_init|intros ? []]].
  constructor; intros; try rewrite (init_node_of cfg) in *; cbn in *;
    try apply WI_nil; try apply LM_nil; try contradiction; try discriminate; try congruence.
Qed.

End Commit.
