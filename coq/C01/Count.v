(* C01/Count.v -- counting lemmas for try_advance_commit_index: the element the leader picks from
   the sorted match_index list is reached by at least `quorum` of the values. *)
From NV.Common Require Import Base.
From NV.C01 Require Import Model.
From Coq Require Import Sorting.Sorted.
Open Scope N_scope.

Definition cge (c : N) (l : list N) : nat := length (filter (N.leb c) l).

Lemma cge_app c l1 l2 : cge c (l1 ++ l2) = (cge c l1 + cge c l2)%nat.
Proof. unfold cge. rewrite filter_app, app_length. reflexivity. Qed.

Lemma cge_insert c x l : cge c (insert_sorted x l) = cge c (x :: l).
Proof.
  induction l as [|y r IH]; [reflexivity|]. cbn [insert_sorted].
  destruct (N.leb x y); [reflexivity|].
  unfold cge in *. cbn [filter] in *.
  destruct (N.leb c y); destruct (N.leb c x); cbn [length] in *; lia.
Qed.
Lemma cge_sort c l : cge c (sort_asc l) = cge c l.
Proof.
  induction l as [|x r IH]; [reflexivity|]. cbn [sort_asc fold_right].
  fold (sort_asc r). rewrite cge_insert. unfold cge in *. cbn [filter]. destruct (N.leb c x); cbn [length]; lia.
Qed.
Lemma len_insert x l : length (insert_sorted x l) = S (length l).
Proof. induction l as [|y r IH]; [reflexivity|]. cbn [insert_sorted]. destruct (N.leb x y); cbn [length]; lia. Qed.
Lemma len_sort l : length (sort_asc l) = length l.
Proof. induction l as [|x r IH]; [reflexivity|]. cbn [sort_asc fold_right]. fold (sort_asc r). rewrite len_insert. cbn. lia. Qed.

Lemma insert_in x l y : In y (insert_sorted x l) -> y = x \/ In y l.
Proof.
  induction l as [|z r IH]; cbn [insert_sorted]; [intros [<-|[]]; auto|].
  destruct (N.leb x z); cbn [In]; intros H.
  - destruct H as [<-|H]; auto.
  - destruct H as [<-|H]; auto. destruct (IH H); auto.
Qed.
Lemma insert_ss x l : StronglySorted N.le l -> StronglySorted N.le (insert_sorted x l).
Proof.
  induction l as [|z r IH]; intros H; cbn [insert_sorted].
  - constructor; constructor.
  - inversion H as [|? ? Hs Hf]; subst. destruct (N.leb_spec x z) as [Hle|Hgt].
    + constructor; [exact H|]. constructor; [exact Hle|].
      rewrite Forall_forall in *. intros y Hy. specialize (Hf y Hy). lia.
    + constructor; [apply IH; exact Hs|].
      rewrite Forall_forall in *. intros y Hy. apply insert_in in Hy. destruct Hy as [->|Hy]; [lia|apply Hf; exact Hy].
Qed.
Lemma sort_ss l : StronglySorted N.le (sort_asc l).
Proof. induction l as [|x r IH]; [constructor|]. cbn [sort_asc fold_right]. fold (sort_asc r). apply insert_ss. exact IH. Qed.

(* in a sorted list every element from position k on is at least the element at k *)
Lemma ss_skip : forall (S : list N) k, StronglySorted N.le S -> (k < length S)%nat -> Forall (N.le (nth k S 0%N)) (skipn k S).
Proof.
  induction S as [|x r IH]; intros k H Hk; [cbn in Hk; lia|].
  inversion H as [|? ? Hs Hf]; subst. destruct k as [|k]; cbn [nth skipn].
  - constructor; [lia|exact Hf].
  - apply IH; [exact Hs|cbn in Hk; lia].
Qed.
Lemma cge_all c l : Forall (N.le c) l -> cge c l = length l.
Proof.
  unfold cge. induction l as [|x r IH]; intros H; [reflexivity|]. inversion H; subst. cbn [filter].
  destruct (N.leb_spec c x); [cbn; rewrite IH; auto|lia].
Qed.
Lemma cge_nth (S : list N) k : StronglySorted N.le S -> (k < length S)%nat -> (length S - k <= cge (nth k S 0%N) S)%nat.
Proof.
  intros H Hk. rewrite <- (firstn_skipn k S) at 3. rewrite cge_app.
  rewrite (cge_all _ _ (ss_skip S k H Hk)). rewrite skipn_length. lia.
Qed.

(* the commit candidate: at least qn of the values (match_index of the peers, own log length) reach the
   element at any position k <= |vals| - qn of the ascending list *)
Lemma quorum_reached (vals : list N) (qn k : N) :
  1 <= qn -> qn <= llen vals -> k <= llen vals - qn ->
  (N.to_nat qn <= cge (nth (N.to_nat k) (sort_asc vals) 0%N) vals)%nat.
Proof.
  intros H1 H2 H3. unfold llen in *. rewrite <- (cge_sort _ vals).
  assert (Hl : length (sort_asc vals) = length vals) by apply len_sort.
  pose proof (cge_nth (sort_asc vals) (N.to_nat k) (sort_ss vals)) as G.
  rewrite Hl in G. lia.
Qed.

(* association lists with distinct keys: the keys whose value reaches c are as many as the values *)
Lemma filter_keys_len (L : list (N * N)) c :
  length (filter (fun pm => N.leb c (snd pm)) L) = cge c (map snd L).
Proof.
  unfold cge. induction L as [|[p m] r IH]; [reflexivity|]. cbn [map filter snd].
  destruct (N.leb c m); cbn [length]; rewrite IH; reflexivity.
Qed.
Lemma NoDup_filter_keys (L : list (N * N)) f : NoDup (map fst L) -> NoDup (map fst (filter f L)).
Proof.
  induction L as [|[p m] r IH]; intros H; [constructor|]. cbn [map fst] in H. inversion H as [|? ? Hn Hr]; subst.
  cbn [filter]. destruct (f (p, m)); [|apply IH; exact Hr].
  cbn [map fst]. constructor; [|apply IH; exact Hr].
  intros Hin. apply Hn. apply in_map_iff in Hin. destruct Hin as [[p' m'] [E Hin]]. cbn in E. subst p'.
  apply filter_In in Hin. apply in_map_iff. exists (p, m'). split; [reflexivity|apply Hin].
Qed.
Lemma NoDup_map_to_nat (l : list N) : NoDup l -> NoDup (map N.to_nat l).
Proof.
  induction l as [|x r IH]; intros H; [constructor|]. inversion H as [|? ? Hn Hr]; subst. cbn [map].
  constructor; [|apply IH; exact Hr]. intros Hin. apply in_map_iff in Hin. destruct Hin as [y [E Hy]].
  assert (y = x) by lia. subst y. contradiction.
Qed.

(* aset on an existing key keeps the key list *)
Lemma aset_keys (L : list (N * N)) k v : In k (map fst L) -> map fst (aset L k v) = map fst L.
Proof.
  induction L as [|[p m] r IH]; intros H; [contradiction|]. cbn [aset].
  destruct (N.eqb_spec p k) as [->|Hne]; [reflexivity|]. cbn [map fst]. f_equal. apply IH.
  destruct H as [H|H]; [cbn in H; congruence|exact H].
Qed.
Lemma aset_in (L : list (N * N)) k v p m : In (p, m) (aset L k v) -> (p = k /\ m = v) \/ In (p, m) L.
Proof.
  induction L as [|[p0 m0] r IH]; cbn [aset].
  - intros [E|[]]. injection E as <- <-. auto.
  - destruct (N.eqb_spec p0 k) as [->|Hne]; cbn [In]; intros [E|H].
    + injection E as <- <-. auto.
    + auto.
    + auto.
    + destruct (IH H); auto.
Qed.

(* N_seq *)
Lemma N_seq_from_in c : forall st x, In x (N_seq_from st c) <-> st <= x < st + N.of_nat c.
Proof.
  induction c as [|c IH]; intros st x; cbn [N_seq_from In]; [lia|].
  rewrite IH. lia.
Qed.
Lemma N_seq_from_nodup c : forall st, NoDup (N_seq_from st c).
Proof.
  induction c as [|c IH]; intros st; cbn [N_seq_from]; constructor; [|apply IH].
  rewrite N_seq_from_in. lia.
Qed.
Lemma N_seq_in n x : In x (N_seq n) <-> x < n.
Proof. unfold N_seq. rewrite N_seq_from_in. lia. Qed.
Lemma N_seq_len n : length (N_seq n) = N.to_nat n.
Proof. unfold N_seq. generalize 0. induction (N.to_nat n) as [|c IH]; intros st; cbn; [reflexivity|]. rewrite IH. reflexivity. Qed.

Lemma filter_ne_len (l : list N) x : NoDup l -> In x l ->
  S (length (filter (fun j => negb (N.eqb j x)) l)) = length l.
Proof.
  induction l as [|y r IH]; intros H Hin; [contradiction|]. inversion H as [|? ? Hn Hr]; subst. cbn [filter length].
  destruct (N.eqb_spec y x) as [->|Hne]; cbn [negb length].
  - f_equal. clear IH H Hin Hr. induction r as [|z r IH]; [reflexivity|]. cbn [filter].
    destruct (N.eqb_spec z x) as [->|]; [exfalso; apply Hn; left; reflexivity|].
    cbn [negb length]. f_equal. apply IH. intros Hx. apply Hn. right. exact Hx.
  - f_equal. apply IH; [exact Hr|]. destruct Hin; [congruence|assumption].
Qed.

Section Peers.
Variable cfg : config.
Lemma peers_in self p : In p (peers_of cfg self) <-> p < n_nodes cfg /\ p <> self.
Proof.
  unfold peers_of. rewrite filter_In, N_seq_in, negb_true_iff, N.eqb_neq. tauto.
Qed.
Lemma peers_nodup self : NoDup (peers_of cfg self).
Proof. unfold peers_of. apply NoDup_filter. unfold N_seq. apply N_seq_from_nodup. Qed.
Lemma peers_len self : self < n_nodes cfg -> S (length (peers_of cfg self)) = N.to_nat (n_nodes cfg).
Proof.
  intros H. unfold peers_of. rewrite filter_ne_len; [apply N_seq_len|unfold N_seq; apply N_seq_from_nodup|apply N_seq_in; exact H].
Qed.
End Peers.
