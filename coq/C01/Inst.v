(* C01/Inst.v -- PER-RUN OBLIGATIONS over the rules regenerated from raft.rs / lib.rs (gen/Gen_C01.v). *)
From NV.Common Require Import Base.
From NV.C01 Require Import Model.
From NV.gen Require Import Gen_C01.
Open Scope N_scope.
Ltac Zify.zify_post_hook ::= Z.div_mod_to_equations.

(* any two quorums of the size the code computes intersect *)
Lemma gen_quorum_majority : forall total, total < gen_quorum total + gen_quorum total.
Proof. intros total. unfold gen_quorum. lia. Qed.

(* a quorum never needs more voters than there are *)
Lemma gen_quorum_within : forall total, 1 <= total -> gen_quorum total <= total.
Proof. intros total H. unfold gen_quorum. lia. Qed.

(* the follower never acknowledges beyond what the request verified, nor beyond its own log *)
Lemma gen_ack_verified : forall prev_i lastnew len,
  gen_follower_ack prev_i lastnew len <= lastnew /\ gen_follower_ack prev_i lastnew len <= len.
Proof. intros. unfold gen_follower_ack. lia. Qed.

(* the follower's commit index never moves backwards and never passes the verified prefix or the
   leader's commit index *)
Lemma gen_commit_verified : forall lc commit prev_i lastnew len,
  commit < lc ->
  commit <= gen_follower_commit lc commit prev_i lastnew len /\
  gen_follower_commit lc commit prev_i lastnew len <= N.max commit (N.min lc (N.min lastnew len)).
Proof. intros. unfold gen_follower_commit. lia. Qed.

(* responses from an earlier term are dropped *)
Lemma gen_stale_ok : gen_stale_ack_ignored = true.
Proof. reflexivity. Qed.
