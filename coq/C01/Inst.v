(* C01/Inst.v -- PER-RUN OBLIGATIONS over the rules regenerated from raft.rs / lib.rs (gen/Gen_C01.v). *)
From NV.Common Require Import Base.
From NV.C01 Require Import Model.
From NV.gen Require Import Gen_C01.
Open Scope N_scope.
Ltac Zify.zify_post_hook ::= Z.div_mod_to_equations.

(* any two quorums of the size the code computes intersect *)
Lemma gen_quorum_majority : forall total, total < gen_quorum total + gen_quorum total.
Proof. intros total. unfold gen_quorum. lia. Qed.

(* a quorum never needs more voters than there are *)
Lemma gen_quorum_within : forall total, 1 <= total -> gen_quorum total <= total.
Proof. intros total H. unfold gen_quorum. lia. Qed.

(* the follower never acknowledges beyond what the request verified, nor beyond its own log *)
Lemma gen_ack_verified : forall prev_i lastnew len,
  gen_follower_ack prev_i lastnew len <= lastnew /\ gen_follower_ack prev_i lastnew len <= len.
Proof. intros. unfold gen_follower_ack. lia. Qed.

(* the follower's commit index never moves backwards and never passes the verified prefix or the
   leader's commit index *)
Lemma gen_commit_verified : forall lc commit prev_i lastnew len,
  commit < lc ->
  commit <= gen_follower_commit lc commit prev_i lastnew len /\
  gen_follower_commit lc commit prev_i lastnew len <= N.max commit (N.min lc (N.min lastnew len)).
Proof. intros. unfold gen_follower_commit. lia. Qed.

(* responses from an earlier term are dropped *)
Lemma gen_stale_ok : gen_stale_ack_ignored = true.
Proof. reflexivity. Qed.

(* handle_request_vote grants only to a candidate whose log is at least as up to date as the voter's
   (higher last term, or equal last term and at least the same last index), whatever the tie-break says *)
Lemma gen_vote_up_to_date : forall lli llt mli mlt g, gen_vote_log_ok lli llt mli mlt g = true ->
  N.ltb mlt llt || (N.eqb llt mlt && N.ltb mli lli) || (N.eqb llt mlt && N.eqb lli mli) = true.
Proof.
  intros lli llt mli mlt g. unfold gen_vote_log_ok.
  destruct (N.ltb mlt llt), (N.eqb llt mlt), (N.ltb mli lli), (N.eqb lli mli), g; cbn; intros H; congruence.
Qed.

(* handle_append_entries accepts the request only if its own entry at prev_log_index has prev_log_term *)
Lemma gen_prev_sound : forall xt pt, gen_prev_ok xt pt = true -> xt = pt.
Proof. intros xt pt. unfold gen_prev_ok. intros H. apply N.eqb_eq. exact H. Qed.

(* try_advance_commit_index picks a position that at least a quorum of the sorted values reach *)
Lemma gen_pick_quorum : forall len qn, gen_commit_pick len qn <= len - qn.
Proof. intros. unfold gen_commit_pick. lia. Qed.

(* ... and only commits an entry of the leader's current term *)
Lemma gen_commit_current_term : forall et cur, gen_commit_term_ok et cur = true -> et = cur.
Proof. intros et cur. unfold gen_commit_term_ok. intros H. apply N.eqb_eq. exact H. Qed.

(* the leader sends log entries only together with a prev entry it can still name (never prev 0 with entries that
   do not start the log): what LogMatch.entries_for_ok and the whole replication argument rest on *)
Lemma gen_entries_with_known_prev : gen_entries_need_prev = true.
Proof. reflexivity. Qed.

(* finalize_to accepts a height only if the node has committed it (compaction then only drops committed entries) *)
Lemma gen_finalize_within_commit : forall h c len, gen_finalize_ok h c len = true -> h <= c.
Proof. intros h c len. unfold gen_finalize_ok. intros H. lia. Qed.
