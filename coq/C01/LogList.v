(* C01/LogList.v -- list-level facts behind Log Matching: well-indexed logs, the ledger invariant LM,
   and the follower's entry loop (Model.append_entries), for all logs and all entry segments.
   Ported from the design-phase prototype (DESIGN.md A.6) to entries that carry their own index. *)
From NV.Common Require Import Base.
From NV.C01 Require Import Model.
From Coq Require Import Arith.
Open Scope N_scope.

(* ---------- generic list lemmas ---------- *)
Lemma nth_error_firstn_lt {A} : forall (L : list A) j k, (k < j)%nat -> nth_error (firstn j L) k = nth_error L k.
Proof.
  induction L as [|a L IH]; intros j k H.
  - rewrite firstn_nil. reflexivity.
  - destruct j; [lia|]. destruct k; [reflexivity|]. cbn. apply IH. lia.
Qed.
Lemma nth_error_len {A} : forall (L : list A) k x, nth_error L k = Some x -> (k < length L)%nat.
Proof. intros L k x H. apply nth_error_Some. congruence. Qed.
Lemma firstn_succ_nth {A} : forall (L : list A) k x, nth_error L k = Some x -> firstn (S k) L = firstn k L ++ [x].
Proof.
  induction L as [|a L IH]; intros [|k] x H; cbn in *; try discriminate.
  - injection H as ->. reflexivity.
  - f_equal. apply IH. exact H.
Qed.
Lemma skipn_S_tl {A} : forall (L : list A) p x R, skipn p L = x :: R -> skipn (S p) L = R.
Proof.
  induction L as [|a L IH]; intros [|p] x R H; cbn in *; try discriminate.
  - injection H as _ ->. reflexivity.
  - apply (IH p x R H).
Qed.
Lemma firstn_eq_len {A} : forall (L M : list A) k, (k <= length L)%nat -> firstn k L = firstn k M -> (k <= length M)%nat.
Proof.
  intros L M k HL E. assert (length (firstn k L) = length (firstn k M)) by (rewrite E; reflexivity).
  rewrite !firstn_length in H. lia.
Qed.
Lemma firstn_app_le {A} : forall (L X : list A) k, (k <= length L)%nat -> firstn k (L ++ X) = firstn k L.
Proof. intros. rewrite firstn_app. replace (k - length L)%nat with 0%nat by lia. cbn. apply app_nil_r. Qed.

(* ---------- positions ---------- *)
(* entry / term at 1-based position k (as a nat) *)
Definition ent_at (l : list entry) (k : nat) : option entry :=
  match k with O => None | S j => nth_error l j end.
Definition term_at (l : list entry) (k : nat) : option N := option_map eterm (ent_at l k).

Lemma nth_entry_ent_at l i : nth_entry l i = ent_at l (N.to_nat i).
Proof.
  unfold nth_entry, ent_at. destruct (N.eqb_spec i 0) as [->|Hne]; [reflexivity|].
  destruct (N.to_nat i) as [|j] eqn:E; [lia|]. f_equal. lia.
Qed.

Lemma ent_at_some_len l k e : ent_at l k = Some e -> (1 <= k <= length l)%nat.
Proof. destruct k as [|k]; [discriminate|]. cbn. intros H. apply nth_error_len in H. lia. Qed.
Lemma term_at_some_len l k t : term_at l k = Some t -> (1 <= k <= length l)%nat.
Proof.
  unfold term_at. destruct (ent_at l k) as [e|] eqn:E; [|discriminate]. intros _. eapply ent_at_some_len; eauto.
Qed.
Lemma ent_at_firstn l k j : (k <= j)%nat -> ent_at (firstn j l) k = ent_at l k.
Proof. intros H. destruct k; [reflexivity|]. cbn. apply nth_error_firstn_lt. lia. Qed.
Lemma term_at_firstn l k j : (k <= j)%nat -> term_at (firstn j l) k = term_at l k.
Proof. intros H. unfold term_at. rewrite ent_at_firstn by exact H. reflexivity. Qed.
Lemma ent_at_app_l l x k : (k <= length l)%nat -> ent_at (l ++ x) k = ent_at l k.
Proof. intros H. destruct k; [reflexivity|]. cbn. apply nth_error_app1. lia. Qed.
Lemma ent_at_app_last l e : ent_at (l ++ [e]) (S (length l)) = Some e.
Proof. cbn. rewrite nth_error_app2 by lia. rewrite Nat.sub_diag. reflexivity. Qed.

(* ---------- well-indexed logs: the entry at position k carries index k ---------- *)
Definition WI (l : list entry) : Prop := forall k e, ent_at l k = Some e -> eidx e = N.of_nat k.

Lemma WI_nil : WI []. Proof. intros [|k] e H; cbn in H; [discriminate|destruct k; discriminate]. Qed.
Lemma WI_firstn l j : WI l -> WI (firstn j l).
Proof.
  intros H k e Hk. pose proof (ent_at_some_len _ _ _ Hk) as [_ L]. rewrite firstn_length in L.
  rewrite ent_at_firstn in Hk by lia. apply H. exact Hk.
Qed.
Lemma WI_snoc l e : WI l -> eidx e = N.of_nat (S (length l)) -> WI (l ++ [e]).
Proof.
  intros H He k x Hk. destruct (le_lt_dec k (length l)) as [Hle|Hgt].
  - rewrite ent_at_app_l in Hk by exact Hle. apply H. exact Hk.
  - pose proof (ent_at_some_len _ _ _ Hk) as [_ L]. rewrite app_length in L. cbn in L.
    assert (k = S (length l)) by lia. subst k. rewrite ent_at_app_last in Hk. injection Hk as <-. exact He.
Qed.

(* ---------- the ledger invariant ---------- *)
Section LM.
Variable ledger : N -> list entry.       (* ghost: the log of the leader of each term *)

(* every position agrees with the ledger of that position's term, on the whole prefix *)
Definition LM (L : list entry) : Prop :=
  forall k t, term_at L k = Some t -> firstn k L = firstn k (ledger t).

Lemma LM_nil : LM []. Proof. intros [|k] t H; cbn in H; [discriminate|destruct k; discriminate]. Qed.

Lemma LM_firstn L j : LM L -> LM (firstn j L).
Proof.
  intros H k t Hk. pose proof (term_at_some_len _ _ _ Hk) as [_ Hlen]. rewrite firstn_length in Hlen.
  rewrite term_at_firstn in Hk by lia. rewrite firstn_firstn. replace (Nat.min k j) with k by lia. apply H. exact Hk.
Qed.

(* Log Matching for two LM logs *)
Lemma LM_agree A B k t : LM A -> LM B -> term_at A k = Some t -> term_at B k = Some t -> firstn k A = firstn k B.
Proof. intros HA HB Ha Hb. rewrite (HA _ _ Ha), (HB _ _ Hb). reflexivity. Qed.

Lemma seg_head : forall (Lg : list entry) p e es,
  e :: es = firstn (S (length es)) (skipn p Lg) ->
  nth_error Lg p = Some e /\ es = firstn (length es) (skipn (S p) Lg) /\ firstn (S p) Lg = firstn p Lg ++ [e].
Proof.
  intros Lg p e es H.
  destruct (skipn p Lg) as [|x R] eqn:S; [discriminate|]. cbn [firstn] in H. injection H as -> Hes.
  assert (Hp : (p < length Lg)%nat).
  { destruct (le_lt_dec (length Lg) p); auto. rewrite skipn_all2 in S by lia. discriminate. }
  assert (Nx : nth_error Lg p = Some x).
  { rewrite <- (firstn_skipn p Lg), S. rewrite nth_error_app2 by (rewrite firstn_length; lia).
    rewrite firstn_length. replace (p - Nat.min p (length Lg))%nat with 0%nat by lia. reflexivity. }
  repeat split; auto.
  - rewrite (skipn_S_tl _ _ _ _ S). exact Hes.
  - apply firstn_succ_nth. exact Nx.
Qed.

(* The follower loop.  A = follower log, Lg = leader's ledger, p = prev_log_index (A and Lg agree on
   the first p entries), es = the segment of Lg after p.  The result is LM and well-indexed again,
   agrees with Lg on the first p + |es| entries, and is either A itself or a prefix of Lg. *)
Lemma append_entries_LM : forall g b es A p Lg,
  WI A -> WI Lg -> LM A -> LM Lg -> (p <= length A)%nat ->
  firstn p A = firstn p Lg ->
  es = firstn (length es) (skipn p Lg) ->
  firstn (N.to_nat b) A = firstn (N.to_nat b) Lg ->      (* the compacted prefix agrees with the leader's ledger *)
  let A' := append_entries g b es A in
  WI A' /\ LM A' /\ firstn (p + length es) A' = firstn (p + length es) Lg /\
  (p + length es <= length A')%nat /\
  (A' = A \/ exists m, A' = firstn m Lg).
Proof.
  induction es as [|e es IH]; intros A p Lg WA WL HA HL Hlen Hag Hes Hb; cbn [append_entries length].
  - rewrite Nat.add_0_r. repeat split; auto.
  - destruct (seg_head _ _ _ _ Hes) as [He [Hes' Hstep]].
    replace (p + S (length es))%nat with (S p + length es)%nat by lia.
    assert (Hidx : eidx e = N.of_nat (S p)) by (apply (WL (S p) e); exact He).
    unfold llen. rewrite Hidx.
    destruct (N.ltb_spec (N.of_nat (length A)) (N.of_nat (S p))) as [Hlt|Hge].
    + (* follower log ends at p: the entry is its direct successor, push *)
      assert (N.eqb (N.of_nat (S p)) (N.of_nat (length A) + 1) = true) as -> by (apply N.eqb_eq; lia). cbn [orb].
      assert (EA : A ++ [e] = firstn (S p) Lg).
      { rewrite Hstep, <- Hag. f_equal. symmetry. apply firstn_all2. lia. }
      destruct (IH (A ++ [e]) (S p) Lg) as [W' [L' [F' [Len' Sh']]]]; auto.
      * rewrite EA. apply WI_firstn. exact WL.
      * rewrite EA. apply LM_firstn. exact HL.
      * rewrite app_length. cbn. lia.
      * rewrite EA. rewrite firstn_firstn. f_equal. lia.
      * rewrite EA. rewrite firstn_firstn.
        replace (firstn (N.to_nat b) Lg) with (firstn (Nat.min (N.to_nat b) (S p)) Lg).
        -- reflexivity.
        -- destruct (le_lt_dec (N.to_nat b) (S p)); [f_equal; lia|].
           (* b > S p = |A|+1: then firstn b A = A and firstn b Lg = A forces |Lg| = p, but entry p+1 of Lg exists *)
           exfalso. assert (length (firstn (N.to_nat b) A) = length (firstn (N.to_nat b) Lg)) by (rewrite Hb; reflexivity).
           rewrite !firstn_length in H. apply nth_error_len in He. lia.
      * repeat split; auto. right. destruct Sh' as [->|[m ->]]; [exists (S p); exact EA|eauto].
    + (* follower has an entry at index p+1 *)
      unfold lookup. destruct (N.leb_spec (N.of_nat (S p)) b) as [Hcb|Hnb].
      * (* ... which it has compacted away: skipped; the compacted prefix agrees with the ledger *)
        destruct (IH A (S p) Lg) as [W' [L' [F' [Len' Sh']]]]; auto; try lia.
        replace (firstn (S p) A) with (firstn (S p) (firstn (N.to_nat b) A)) by (rewrite firstn_firstn; f_equal; lia).
        rewrite Hb, firstn_firstn. f_equal. lia.
      * rewrite nth_entry_ent_at. rewrite Nat2N.id.
        destruct (ent_at A (S p)) as [x|] eqn:T.
        2:{ exfalso. cbn in T. apply nth_error_None in T. lia. }
        destruct (N.eqb_spec (eterm x) (eterm e)) as [Et|Ne].
        -- (* same term: by LM both prefixes are the ledger's, keep A *)
           destruct (IH A (S p) Lg) as [W' [L' [F' [Len' Sh']]]]; auto; try lia.
           assert (TA : term_at A (S p) = Some (eterm e)) by (unfold term_at; rewrite T; cbn; congruence).
           assert (TL : term_at Lg (S p) = Some (eterm e)) by (unfold term_at; cbn; rewrite He; reflexivity).
           eapply LM_agree; eauto.
        -- (* conflict: truncate to p entries and push *)
           assert (EA : firstn (N.to_nat (N.of_nat (S p) - 1)) A ++ [e] = firstn (S p) Lg).
           { replace (N.to_nat (N.of_nat (S p) - 1)) with p by lia. rewrite Hstep, <- Hag. reflexivity. }
           destruct (IH (firstn (N.to_nat (N.of_nat (S p) - 1)) A ++ [e]) (S p) Lg) as [W' [L' [F' [Len' Sh']]]]; auto.
           ++ rewrite EA. apply WI_firstn. exact WL.
           ++ rewrite EA. apply LM_firstn. exact HL.
           ++ rewrite EA. rewrite firstn_length. apply nth_error_len in He. lia.
           ++ rewrite EA. rewrite firstn_firstn. f_equal. lia.
           ++ rewrite EA. rewrite firstn_firstn.
              replace (firstn (N.to_nat b) Lg) with (firstn (Nat.min (N.to_nat b) (S p)) Lg); [reflexivity|].
              f_equal. lia.
           ++ repeat split; auto. right. destruct Sh' as [->|[m ->]]; [exists (S p); exact EA|eauto].
Qed.

End LM.

(* ---------- more on the follower loop: an agreeing prefix survives ---------- *)
Section Keep.
Variable ledger : N -> list entry.

(* If A and Lg agree on the first m entries (m within A), then after processing a segment of Lg they
   still agree on the first m entries: a conflict can only occur where A and Lg differ. *)
Lemma append_entries_keep : forall g b es A p Lg m,
  WI A -> WI Lg -> LM ledger A -> LM ledger Lg -> (p <= length A)%nat ->
  firstn p A = firstn p Lg ->
  es = firstn (length es) (skipn p Lg) ->
  firstn (N.to_nat b) A = firstn (N.to_nat b) Lg ->
  (m <= length A)%nat -> firstn m A = firstn m Lg ->
  let A' := append_entries g b es A in
  (m <= length A')%nat /\ firstn m A' = firstn m Lg.
Proof.
  induction es as [|e es IH]; intros A p Lg m WA WL HA HL Hlen Hag Hes Hb Hm Hmag; cbn [append_entries length].
  - split; assumption.
  - destruct (seg_head _ _ _ _ Hes) as [He [Hes' Hstep]].
    assert (Hidx : eidx e = N.of_nat (S p)) by (apply (WL (S p) e); exact He).
    unfold llen. rewrite Hidx.
    destruct (N.ltb_spec (N.of_nat (length A)) (N.of_nat (S p))) as [Hlt|Hge].
    + (* push at the end *)
      assert (N.eqb (N.of_nat (S p)) (N.of_nat (length A) + 1) = true) as -> by (apply N.eqb_eq; lia). cbn [orb].
      assert (EA : A ++ [e] = firstn (S p) Lg).
      { rewrite Hstep, <- Hag. f_equal. symmetry. apply firstn_all2. lia. }
      apply (IH (A ++ [e]) (S p) Lg m); auto.
      * rewrite EA. apply WI_firstn. exact WL.
      * rewrite EA. apply LM_firstn. exact HL.
      * rewrite app_length. cbn. lia.
      * rewrite EA. rewrite firstn_firstn. f_equal. lia.
      * rewrite EA. rewrite firstn_firstn.
        destruct (le_lt_dec (N.to_nat b) (S p)); [f_equal; lia|].
        exfalso. assert (length (firstn (N.to_nat b) A) = length (firstn (N.to_nat b) Lg)) by (rewrite Hb; reflexivity).
        rewrite !firstn_length in H. apply nth_error_len in He. lia.
      * rewrite app_length. cbn. lia.
      * rewrite firstn_app_le by exact Hm. exact Hmag.
    + unfold lookup. destruct (N.leb_spec (N.of_nat (S p)) b) as [Hcb|Hnb].
      * (* compacted away: skipped *)
        apply (IH A (S p) Lg m); auto; try lia.
        replace (firstn (S p) A) with (firstn (S p) (firstn (N.to_nat b) A)) by (rewrite firstn_firstn; f_equal; lia).
        rewrite Hb, firstn_firstn. f_equal. lia.
      * rewrite nth_entry_ent_at. rewrite Nat2N.id.
        destruct (ent_at A (S p)) as [x|] eqn:T.
        2:{ exfalso. cbn in T. apply nth_error_None in T. lia. }
        destruct (N.eqb_spec (eterm x) (eterm e)) as [Et|Ne].
        -- (* same term: keep A; agreement extends to p+1 by Log Matching *)
           apply (IH A (S p) Lg m); auto; try lia.
           assert (TA : term_at A (S p) = Some (eterm e)) by (unfold term_at; rewrite T; cbn; congruence).
           assert (TL : term_at Lg (S p) = Some (eterm e)) by (unfold term_at; cbn; rewrite He; reflexivity).
           eapply LM_agree; eauto.
        -- (* conflict at p+1: that position lies beyond the agreeing prefix *)
           assert (Hmp : (m <= p)%nat).
           { destruct (le_lt_dec m p); [assumption|exfalso].
             assert (nth_error (firstn m A) p = nth_error (firstn m Lg) p) by (rewrite Hmag; reflexivity).
             rewrite !nth_error_firstn_lt in H by lia. cbn in T. rewrite T, He in H. injection H as ->. congruence. }
           assert (EA : firstn (N.to_nat (N.of_nat (S p) - 1)) A ++ [e] = firstn (S p) Lg).
           { replace (N.to_nat (N.of_nat (S p) - 1)) with p by lia. rewrite Hstep, <- Hag. reflexivity. }
           apply (IH (firstn (N.to_nat (N.of_nat (S p) - 1)) A ++ [e]) (S p) Lg m); auto.
           ++ rewrite EA. apply WI_firstn. exact WL.
           ++ rewrite EA. apply LM_firstn. exact HL.
           ++ rewrite EA. rewrite firstn_length. apply nth_error_len in He. lia.
           ++ rewrite EA. rewrite firstn_firstn. f_equal. lia.
           ++ rewrite EA. rewrite firstn_firstn. f_equal. lia.
           ++ rewrite EA. rewrite firstn_length. apply nth_error_len in He. lia.
           ++ rewrite EA. rewrite firstn_firstn. replace (Nat.min m (S p)) with m by lia. reflexivity.
Qed.

End Keep.

(* a segment of the ledger sent with a prev the follower holds never leaves a gap: the loop does not stop *)
Lemma append_ok_seg : forall g b es A p Lg,
  WI Lg -> (p <= length A)%nat -> es = firstn (length es) (skipn p Lg) ->
  append_ok g b es A = true.
Proof.
  induction es as [|e es IH]; intros A p Lg WL Hlen Hes; cbn [append_ok]; [reflexivity|].
  destruct (seg_head _ _ _ _ Hes) as [He [Hes' Hstep]].
  assert (Hidx : eidx e = N.of_nat (S p)) by (apply (WL (S p) e); exact He).
  unfold llen. rewrite Hidx.
  destruct (N.ltb_spec (N.of_nat (length A)) (N.of_nat (S p))) as [Hlt|Hge].
  - assert (N.eqb (N.of_nat (S p)) (N.of_nat (length A) + 1) = true) as -> by (apply N.eqb_eq; lia). cbn [orb].
    apply (IH (A ++ [e]) (S p) Lg); auto. rewrite app_length. cbn. lia.
  - destruct (lookup b A (N.of_nat (S p))) as [x|].
    + destruct (N.eqb (eterm x) (eterm e)).
      * apply (IH A (S p) Lg); auto. lia.
      * apply (IH _ (S p) Lg); auto. replace (N.to_nat (N.of_nat (S p) - 1)) with p by lia.
        rewrite app_length, firstn_length. cbn [length]. lia.
    + apply (IH A (S p) Lg); auto. lia.
Qed.

(* compaction keeps at least one entry, and the follower loop never cuts into the compacted prefix: a log
   longer than its base stays longer than its base *)
Lemma append_entries_len_base : forall g b es l, b < llen l -> b < llen (append_entries g b es l).
Proof.
  induction es as [|e es IH]; intros l H; cbn [append_entries]; [exact H|].
  destruct (N.ltb_spec (llen l) (eidx e)) as [Hlt|Hge].
  - destruct (N.eqb (eidx e) (llen l + 1) || negb g); [|exact H].
    apply IH. unfold llen in *. rewrite app_length. cbn [length]. lia.
  - unfold lookup. destruct (N.leb_spec (eidx e) b) as [Hc|Hnc]; [apply IH; exact H|].
    destruct (nth_entry l (eidx e)) as [x|]; [|apply IH; exact H].
    destruct (N.eqb (eterm x) (eterm e)); [apply IH; exact H|].
    apply IH. unfold llen in *. rewrite app_length, firstn_length. cbn [length]. lia.
Qed.

Lemma last_info_skipn (l : list entry) k : (k < length l)%nat -> last_info (skipn k l) = last_info l.
Proof.
  intros H. unfold last_info. rewrite <- (firstn_skipn k l) at 2. rewrite rev_app_distr.
  destruct (rev (skipn k l)) as [|e r] eqn:E; [|reflexivity].
  exfalso. assert (length (rev (skipn k l)) = 0%nat) by (rewrite E; reflexivity).
  rewrite rev_length, skipn_length in H0. lia.
Qed.

