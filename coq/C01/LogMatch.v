(* C01/LogMatch.v -- LOG MATCHING for every run of the executable cluster model.
   Ghost state: ledger t = the log of the leader of term t (as of its last append).  The invariant
   LMI (on top of the voting invariants obtained through the refinement of VoteSim.v) says that every
   node log and every ledger agrees, at every position, with the ledger of that position's term on the
   whole prefix; every AppendEntries in flight is a segment of its term's ledger.  *)
From NV.Common Require Import Base.
From NV.C01 Require Import Model LogList VoteSim.
From NV.C01 Require Vote.
From Coq Require Import Arith.
Open Scope N_scope.

Section LMatch.
Variable cfg : config.
Variable ru : rules.
Let n : nat := N.to_nat (n_nodes cfg).
Let q : nat := N.to_nat (quorum cfg).
Hypothesis quorum_ok : (n < q + q)%nat.

Definition ledger := N -> list entry.
Definition gl_set (gl : ledger) (t : N) (l : list entry) : ledger := fun t' => if N.eqb t' t then l else gl t'.

Notation nd_of s i := (nth_node (nodes s) i).

Record LMI (s : sys) (gl : ledger) (a : Vote.sys) : Prop := {
  lm_wi_log : forall i, WI (log (nd_of s i));
  lm_wi_gl : forall t, WI (gl t);
  lm_L1 : forall i, LM gl (log (nd_of s i));
  lm_L2 : forall t, LM gl (gl t);
  lm_L3 : forall i, i < n_nodes cfg -> rl (nd_of s i) = Leader -> log (nd_of s i) = gl (term (nd_of s i));
  lm_T1 : forall i e, In e (log (nd_of s i)) -> eterm e <= term (nd_of s i);
  lm_T2 : forall t e, In e (gl t) -> eterm e <= t;
  lm_G1 : forall t, gl t <> [] -> exists j, In (N.to_nat t, N.to_nat j) (Vote.leaders a);
  lm_G2 : forall t j, In (N.to_nat t, N.to_nat j) (Vote.leaders a) -> j < n_nodes cfg /\ t <= term (nd_of s j);
  lm_G3 : forall t j, In (N.to_nat t, N.to_nat j) (Vote.leaders a) -> term (nd_of s j) = t -> rl (nd_of s j) <> Candidate;
  lm_M1 : forall src dst t ldr pi pt es lc, In (src, dst, AE t ldr pi pt es lc) (pool s) ->
            In (N.to_nat t, N.to_nat src) (Vote.leaders a) /\
            es = firstn (length es) (skipn (N.to_nat pi) (gl t)) /\
            (pi = 0 \/ term_at (gl t) (N.to_nat pi) = Some pt) /\
            (N.to_nat pi <= length (gl t))%nat
}.


(* ---------------- plumbing ---------------- *)
Lemma nth_upd_node s i x out j :
  (N.to_nat i < length (nodes s))%nat ->
  nd_of (upd_node s i x out) j = if N.eqb j i then x else nd_of s j.
Proof.
  intros Hl. unfold upd_node, nth_node. cbn [nodes]. destruct (N.eqb_spec j i) as [->|Hne].
  - apply (nth_set_same cfg quorum_ok). exact Hl.
  - apply nth_set_other. lia.
Qed.

Lemma LM_ext (g g' : ledger) L : (forall t, g t = g' t) -> LM g L -> LM g' L.
Proof. intros E H k t Hk. rewrite <- E. apply H. exact Hk. Qed.

Lemma LMI_ext s g g' a : (forall t, g t = g' t) -> LMI s g a -> LMI s g' a.
Proof.
  intros E [H1 H2 H3 H4 H5 H6 H7 H8 H9 H10 H11]. constructor.
  - exact H1.
  - intros t. rewrite <- E. apply H2.
  - intros i. eapply LM_ext; eauto.
  - intros t. rewrite <- E. eapply LM_ext; eauto.
  - intros i Hi Hl. rewrite <- E. apply H5; assumption.
  - exact H6.
  - intros t e He. rewrite <- E in He. eapply H7; eauto.
  - intros t Hne. apply H8. rewrite E. exact Hne.
  - exact H9.
  - exact H10.
  - intros src dst t ldr pi pt es lc Hin. destruct (H11 _ _ _ _ _ _ _ _ Hin) as [A [B [C D]]]. rewrite <- E. auto.
Qed.

Lemma of_to j : N.of_nat (N.to_nat j) = j. Proof. lia. Qed.

(* the leader history does not change in a step in which no node goes from Candidate to Leader *)
Lemma leaders_same s a s' a' :
  R cfg s a -> R cfg s' a' -> step01 cfg a a' ->
  (forall j, j < n_nodes cfg -> rl (nd_of s' j) = Leader -> rl (nd_of s j) = Candidate -> False) ->
  forall p, In p (Vote.leaders a') <-> In p (Vote.leaders a).
Proof.
  intros HR HR' [->|St] Hno p; [tauto|]. split.
  - destruct p as [t j]. intros Hin. destruct (Vote.step_leaders_new _ _ _ _ St _ _ Hin) as [H|[Hj [L' [_ [L _]]]]]; [exact H|].
    exfalso. assert (Hjn : N.of_nat j < n_nodes cfg) by (fold n in Hj; lia).
    pose proof (R_nodes _ _ _ HR' (N.of_nat j) Hjn) as E'. pose proof (R_nodes _ _ _ HR (N.of_nat j) Hjn) as E.
    rewrite Nat2N.id in E, E'. rewrite E' in L'. rewrite E in L. cbn in L, L'.
    apply (Hno (N.of_nat j) Hjn).
    + destruct (rl (nd_of s' (N.of_nat j))); cbn in L'; congruence.
    + destruct (rl (nd_of s (N.of_nat j))); cbn in L; congruence.
  - apply (Vote.step_leaders_mono _ _ _ _ St).
Qed.

Lemma leaders_mono a a' : step01 cfg a a' -> forall p, In p (Vote.leaders a) -> In p (Vote.leaders a').
Proof. intros [->|St] p H; [exact H|eapply Vote.step_leaders_mono; eauto]. Qed.


Lemma R_len' s a : R cfg s a -> forall i, i < n_nodes cfg -> (N.to_nat i < length (nodes s))%nat.
Proof. intros HR i Hi. rewrite (R_len _ _ _ HR). lia. Qed.

Lemma pool_upd s i x out e : In e (pool (upd_node s i x out)) <-> In e (pool s) \/ exists d m, In (d, m) out /\ e = (i, d, m).
Proof.
  unfold upd_node. cbn [pool]. rewrite in_app_iff, in_map_iff. split.
  - intros [H|[[d m] [E H]]]; [left; exact H|right; exists d, m; split; [exact H|symmetry; exact E]].
  - intros [H|[d [m [H E]]]]; [left; exact H|right; exists (d, m); split; [symmetry; exact E|exact H]].
Qed.

(* ---------------- K1/K2: the node changes but its log does not ---------------- *)
Lemma lmi_frame s gl a a' i x out :
  R cfg s a -> LMI s gl a -> i < n_nodes cfg ->
  (forall p, In p (Vote.leaders a') <-> In p (Vote.leaders a)) ->
  log x = log (nd_of s i) -> term (nd_of s i) <= term x ->
  (rl x = Leader -> rl (nd_of s i) = Leader /\ term x = term (nd_of s i)) ->
  (rl x = Candidate -> (rl (nd_of s i) = Candidate /\ term x = term (nd_of s i)) \/ term (nd_of s i) < term x) ->
  (forall d t ldr pi pt es lc, In (d, AE t ldr pi pt es lc) out ->
     In (N.to_nat t, N.to_nat i) (Vote.leaders a) /\
     es = firstn (length es) (skipn (N.to_nat pi) (gl t)) /\
     (pi = 0 \/ term_at (gl t) (N.to_nat pi) = Some pt) /\ (N.to_nat pi <= length (gl t))%nat) ->
  LMI (upd_node s i x out) gl a'.
Proof.
  intros HR [H1 H2 H3 H4 H5 H6 H7 H8 H9 H10 H11] Hi HL Hlog Hterm HrlL HrlC Hout.
  pose proof (R_len' s a HR i Hi) as Hlen.
  constructor.
  - intros j. rewrite nth_upd_node by exact Hlen. destruct (N.eqb j i); [rewrite Hlog|]; apply H1.
  - exact H2.
  - intros j. rewrite nth_upd_node by exact Hlen. destruct (N.eqb j i); [rewrite Hlog|]; apply H3.
  - exact H4.
  - intros j Hj. rewrite nth_upd_node by exact Hlen. destruct (N.eqb_spec j i) as [->|]; [|apply H5; exact Hj].
    intros Hl. destruct (HrlL Hl) as [Ho Et]. rewrite Hlog, Et. apply H5; assumption.
  - intros j e. rewrite nth_upd_node by exact Hlen. destruct (N.eqb_spec j i) as [->|]; [|apply H6].
    rewrite Hlog. intros He. specialize (H6 _ _ He). lia.
  - exact H7.
  - intros t Hne. destruct (H8 t Hne) as [j Hj]. exists j. apply HL. exact Hj.
  - intros t j Hin. apply HL in Hin. destruct (H9 _ _ Hin) as [Hj Ht]. split; [exact Hj|].
    rewrite nth_upd_node by exact Hlen. destruct (N.eqb_spec j i) as [->|]; [lia|exact Ht].
  - intros t j Hin. apply HL in Hin. rewrite nth_upd_node by exact Hlen.
    destruct (N.eqb_spec j i) as [->|]; [|apply H10; exact Hin].
    intros Et Hc. destruct (HrlC Hc) as [[Hoc Ett]|Hlt].
    + apply (H10 _ _ Hin); [lia|exact Hoc].
    + destruct (H9 _ _ Hin) as [_ Hle]. lia.
  - intros src dst t ldr pi pt es lc Hin. apply pool_upd in Hin. destruct Hin as [Hin|[d [m [Ho E]]]].
    + destruct (H11 _ _ _ _ _ _ _ _ Hin) as [A B]. split; [apply HL; exact A|exact B].
    + injection E as E1 E2 E3. subst. destruct (Hout _ _ _ _ _ _ _ Ho) as [A B]. split; [apply HL; exact A|exact B].
Qed.


(* an LM log holds no entry of a term whose ledger is empty *)
Lemma LM_no_term gl L t k : LM gl L -> gl t = [] -> term_at L k = Some t -> False.
Proof.
  intros H E Hk. pose proof (term_at_some_len _ _ _ Hk) as [K1 K2]. specialize (H _ _ Hk).
  rewrite E, firstn_nil in H. assert (length (firstn k L) = 0%nat) by (rewrite H; reflexivity).
  rewrite firstn_length in H0. lia.
Qed.

Lemma LM_set_fresh gl t l L : LM gl L -> gl t = [] -> LM (gl_set gl t l) L.
Proof.
  intros H E k t0 Hk. unfold gl_set. destruct (N.eqb_spec t0 t) as [->|Hne]; [|apply H; exact Hk].
  exfalso. eapply LM_no_term; eauto.
Qed.

Lemma to_nat_inj_pair t j t' j' : (N.to_nat t, N.to_nat j) = (N.to_nat t', N.to_nat j') -> t = t' /\ j = j'.
Proof. intros E. injection E as E1 E2. split; lia. Qed.

(* ---------------- K3: a candidate wins its election ---------------- *)
Lemma lmi_leader s gl a s' a' i x :
  R cfg s a -> R cfg s' a' -> Vote.Inv n q a' -> LMI s gl a -> i < n_nodes cfg ->
  s' = upd_node s i x [] ->
  rl (nd_of s i) = Candidate -> rl x = Leader -> log x = log (nd_of s i) -> term x = term (nd_of s i) ->
  (forall p, In p (Vote.leaders a) -> In p (Vote.leaders a')) ->
  (forall p, In p (Vote.leaders a') -> p = (N.to_nat (term x), N.to_nat i) \/ In p (Vote.leaders a)) ->
  LMI s' (gl_set gl (term x) (log x)) a'.
Proof.
  intros HR HR' HI' [H1 H2 H3 H4 H5 H6 H7 H8 H9 H10 H11] Hi -> Hc Hl Hlog Hterm Hmono Hnew.
  pose proof (R_len' s a HR i Hi) as Hlen.
  set (t := term x) in *.
  assert (Hme : In (N.to_nat t, N.to_nat i) (Vote.leaders a')).
  { pose proof (Vote.I7 _ _ _ HI' (N.to_nat i)) as G. rewrite (R_nodes _ _ _ HR' i Hi) in G.
    rewrite nth_upd_node in G by exact Hlen. rewrite N.eqb_refl in G. cbn in G. rewrite Hl in G. apply G. reflexivity. }
  assert (Uniq : forall j, In (N.to_nat t, N.to_nat j) (Vote.leaders a') -> j = i).
  { intros j Hj. pose proof (Vote.election_safety n q quorum_ok a' HI' _ _ _ Hj Hme). lia. }
  assert (Hempty : gl t = []).
  { destruct (gl t) as [|e0 l0] eqn:E; [reflexivity|]. exfalso.
    destruct (H8 t) as [j Hj]; [rewrite E; discriminate|].
    assert (j = i) by (apply Uniq; apply Hmono; exact Hj). subst j.
    apply (H10 _ _ Hj); [unfold t; lia|exact Hc]. }
  constructor.
  - intros j. rewrite nth_upd_node by exact Hlen. destruct (N.eqb j i); [rewrite Hlog|]; apply H1.
  - intros t0. unfold gl_set. destruct (N.eqb t0 t); [rewrite Hlog; apply H1|apply H2].
  - intros j. apply LM_set_fresh; [|exact Hempty]. rewrite nth_upd_node by exact Hlen.
    destruct (N.eqb j i); [rewrite Hlog|]; apply H3.
  - intros t0. apply LM_set_fresh; [|exact Hempty]. unfold gl_set.
    destruct (N.eqb t0 t); [rewrite Hlog; apply H3|apply H4].
  - intros j Hj. rewrite nth_upd_node by exact Hlen. destruct (N.eqb_spec j i) as [->|Hne].
    + intros _. unfold gl_set. fold t. rewrite N.eqb_refl. reflexivity.
    + intros Hlj. unfold gl_set. destruct (N.eqb_spec (term (nd_of s j)) t) as [Et|]; [|apply H5; assumption].
      exfalso. apply Hne. apply Uniq.
      pose proof (Vote.I7 _ _ _ HI' (N.to_nat j)) as G. rewrite (R_nodes _ _ _ HR' j Hj) in G.
      rewrite nth_upd_node in G by exact Hlen. destruct (N.eqb_spec j i); [contradiction|]. cbn in G.
      rewrite Hlj, Et in G. apply G. reflexivity.
  - intros j e. rewrite nth_upd_node by exact Hlen. destruct (N.eqb_spec j i) as [->|]; [|apply H6].
    rewrite Hlog. intros He. specialize (H6 _ _ He). lia.
  - intros t0 e. unfold gl_set. destruct (N.eqb_spec t0 t) as [->|]; [|apply H7].
    rewrite Hlog. intros He. specialize (H6 _ _ He). unfold t. lia.
  - intros t0. unfold gl_set. destruct (N.eqb_spec t0 t) as [->|]; [intros _; exists i; exact Hme|].
    intros Hne. destruct (H8 t0 Hne) as [j Hj]. exists j. apply Hmono. exact Hj.
  - intros t0 j Hin. rewrite nth_upd_node by exact Hlen. destruct (Hnew _ Hin) as [E|Hold].
    + apply to_nat_inj_pair in E. destruct E as [-> ->]. rewrite N.eqb_refl. split; [exact Hi|unfold t; lia].
    + destruct (H9 _ _ Hold) as [Hj Ht]. split; [exact Hj|]. destruct (N.eqb_spec j i) as [->|]; [lia|exact Ht].
  - intros t0 j Hin. rewrite nth_upd_node by exact Hlen. destruct (N.eqb_spec j i) as [->|Hne].
    + intros _. rewrite Hl. discriminate.
    + destruct (Hnew _ Hin) as [E|Hold]; [apply to_nat_inj_pair in E; destruct E; contradiction|].
      apply H10. exact Hold.
  - intros src dst t0 ldr pi pt es lc Hin. apply pool_upd in Hin. destruct Hin as [Hin|[d [m [[] _]]]].
    destruct (H11 _ _ _ _ _ _ _ _ Hin) as [A [B [C D]]]. split; [apply Hmono; exact A|].
    unfold gl_set. destruct (N.eqb_spec t0 t) as [->|]; [|auto].
    rewrite Hempty in *. cbn in D. assert (pi = 0) by lia. subst pi.
    rewrite skipn_nil, firstn_nil in B. subst es. cbn. repeat split; auto. lia.
Qed.

(* ---------------- K4: the leader appends a proposal ---------------- *)
Lemma lmi_propose s gl a a' i p :
  R cfg s a -> Vote.Inv n q a -> LMI s gl a -> i < n_nodes cfg ->
  rl (nd_of s i) = Leader ->
  (forall pp, In pp (Vote.leaders a') <-> In pp (Vote.leaders a)) ->
  let nd := nd_of s i in
  let x := Node (term nd) (voted nd) (rl nd) (votes nd) (log nd ++ [E (term nd) (llen (log nd) + 1) p])
                (commit nd) (in_prevote nd) (prevotes nd) (lvs nd) (fin nd) (base nd) in
  LMI (upd_node s i x []) (gl_set gl (term nd) (log x)) a'.
Proof.
  intros HR HI [H1 H2 H3 H4 H5 H6 H7 H8 H9 H10 H11] Hi Hl HL nd x. subst x. subst nd.
  pose proof (R_len' s a HR i Hi) as Hlen.
  set (nd := nd_of s i) in *. set (t := term nd) in *. set (e := E t (llen (log nd) + 1) p) in *.
  assert (EL : log nd = gl t) by (apply H5; assumption).
  assert (Hme : In (N.to_nat t, N.to_nat i) (Vote.leaders a)).
  { pose proof (Vote.I7 _ _ _ HI (N.to_nat i)) as G. rewrite (R_nodes _ _ _ HR i Hi) in G. cbn in G.
    fold nd in G. rewrite Hl in G. apply G. reflexivity. }
  assert (Wx : WI (log nd ++ [e])).
  { apply WI_snoc; [apply H1|]. unfold e, llen. cbn. lia. }
  (* a prefix that lies within the old ledger is unchanged *)
  assert (Pre : forall k, (k <= length (gl t))%nat -> firstn k (log nd ++ [e]) = firstn k (gl t)).
  { intros k Hk. rewrite EL. apply firstn_app_le. exact Hk. }
  assert (LMold : forall L, LM gl L -> LM (gl_set gl t (log nd ++ [e])) L).
  { intros L HLm k t0 Hk. unfold gl_set. destruct (N.eqb_spec t0 t) as [->|]; [|apply HLm; exact Hk].
    rewrite (HLm _ _ Hk). symmetry. apply Pre.
    pose proof (term_at_some_len _ _ _ Hk) as [_ K]. eapply firstn_eq_len; [exact K|apply HLm; exact Hk]. }
  assert (LMx : LM (gl_set gl t (log nd ++ [e])) (log nd ++ [e])).
  { intros k t0 Hk. destruct (le_lt_dec k (length (log nd))) as [Hle|Hgt].
    - assert (Hk' : term_at (log nd) k = Some t0).
      { unfold term_at in *. rewrite ent_at_app_l in Hk by exact Hle. exact Hk. }
      rewrite firstn_app_le by exact Hle. exact (LMold _ (H3 i) _ _ Hk').
    - pose proof (term_at_some_len _ _ _ Hk) as [_ K]. rewrite app_length in K. cbn in K.
      assert (k = S (length (log nd))) by lia. subst k.
      unfold term_at in Hk. rewrite ent_at_app_last in Hk. cbn in Hk. injection Hk as <-.
      unfold gl_set. rewrite N.eqb_refl. reflexivity. }
  constructor.
  - intros j. rewrite nth_upd_node by exact Hlen. destruct (N.eqb j i); [exact Wx|apply H1].
  - intros t0. unfold gl_set. destruct (N.eqb t0 t); [exact Wx|apply H2].
  - intros j. rewrite nth_upd_node by exact Hlen. destruct (N.eqb j i); [exact LMx|apply LMold; apply H3].
  - intros t0. unfold gl_set at 2. destruct (N.eqb t0 t); [exact LMx|apply LMold; apply H4].
  - intros j Hj. rewrite nth_upd_node by exact Hlen. destruct (N.eqb_spec j i) as [->|Hne].
    + intros _. unfold gl_set. cbn [term]. fold t. rewrite N.eqb_refl. reflexivity.
    + intros Hlj. unfold gl_set. destruct (N.eqb_spec (term (nd_of s j)) t) as [Et|]; [|apply H5; assumption].
      exfalso. apply Hne.
      assert (Hj' : In (N.to_nat t, N.to_nat j) (Vote.leaders a)).
      { pose proof (Vote.I7 _ _ _ HI (N.to_nat j)) as G. rewrite (R_nodes _ _ _ HR j Hj) in G. cbn in G.
        rewrite Hlj, Et in G. apply G. reflexivity. }
      pose proof (Vote.election_safety n q quorum_ok a HI _ _ _ Hj' Hme). lia.
  - intros j e0. rewrite nth_upd_node by exact Hlen. destruct (N.eqb_spec j i) as [->|]; [|apply H6].
    cbn [log term]. intros He. apply in_app_or in He. destruct He as [He|[<-|[]]]; [apply (H6 i); exact He|cbn; lia].
  - intros t0 e0. unfold gl_set. destruct (N.eqb_spec t0 t) as [->|]; [|apply H7].
    intros He. apply in_app_or in He. destruct He as [He|[<-|[]]]; [|cbn; lia].
    specialize (H6 i _ He). fold nd in H6. fold t in H6. exact H6.
  - intros t0. unfold gl_set. destruct (N.eqb_spec t0 t) as [->|]; [intros _; exists i; apply HL; exact Hme|].
    intros Hne. destruct (H8 t0 Hne) as [j Hj]. exists j. apply HL. exact Hj.
  - intros t0 j Hin. apply HL in Hin. destruct (H9 _ _ Hin) as [Hj Ht]. split; [exact Hj|].
    rewrite nth_upd_node by exact Hlen. destruct (N.eqb_spec j i) as [->|]; [exact Ht|exact Ht].
  - intros t0 j Hin. apply HL in Hin. rewrite nth_upd_node by exact Hlen.
    destruct (N.eqb_spec j i) as [->|]; [|apply H10; exact Hin].
    intros _. cbn [rl]. fold nd. rewrite Hl. discriminate.
  - intros src dst t0 ldr pi pt es lc Hin. apply pool_upd in Hin. destruct Hin as [Hin|[d [m [[] _]]]].
    destruct (H11 _ _ _ _ _ _ _ _ Hin) as [A [B [C D]]]. split; [apply HL; exact A|].
    unfold gl_set. destruct (N.eqb_spec t0 t) as [->|]; [|auto].
    rewrite <- EL in *. cbn [log]. repeat split.
    + rewrite skipn_app. replace (N.to_nat pi - length (log nd))%nat with 0%nat by lia. cbn [skipn].
      rewrite firstn_app_le; [exact B|].
      assert (length es = length (firstn (length es) (skipn (N.to_nat pi) (log nd)))) by (rewrite <- B; reflexivity).
      rewrite firstn_length in H. lia.
    + destruct C as [C|C]; [left; exact C|right]. unfold term_at in *. rewrite ent_at_app_l by exact D. exact C.
    + rewrite app_length. lia.
Qed.


Lemma In_firstn {A} (l : list A) m x : In x (firstn m l) -> In x l.
Proof. intros H. rewrite <- (firstn_skipn m l). apply in_or_app. left. exact H. Qed.

(* ---------------- K5: a follower processes AppendEntries ---------------- *)
Lemma lmi_ae s gl a a' i x out t pi pt es :
  R cfg s a -> LMI s gl a -> i < n_nodes cfg ->
  (forall p, In p (Vote.leaders a') <-> In p (Vote.leaders a)) ->
  es = firstn (length es) (skipn (N.to_nat pi) (gl t)) ->
  (pi = 0 \/ term_at (gl t) (N.to_nat pi) = Some pt) ->
  (N.to_nat pi <= length (gl t))%nat ->
  (pi = 0 \/ (pi <= llen (log (nd_of s i)) /\ (term_at (log (nd_of s i)) (N.to_nat pi) = Some pt \/ pi <= base (nd_of s i)))) ->
  rl x = Follower -> term x = t -> term (nd_of s i) <= t ->
  log x = append_entries (gap_refused ru) (base (nd_of s i)) es (log (nd_of s i)) ->
  firstn (N.to_nat (base (nd_of s i))) (log (nd_of s i)) = firstn (N.to_nat (base (nd_of s i))) (gl t) ->
  (forall d t0 ldr pi0 pt0 es0 lc, ~ In (d, AE t0 ldr pi0 pt0 es0 lc) out) ->
  LMI (upd_node s i x out) gl a'.
Proof.
  intros HR [H1 H2 H3 H4 H5 H6 H7 H8 H9 H10 H11] Hi HL Hseg Hprev Hplen Hok Hrl Hterm Hge Hlog Hcomp Hout.
  pose proof (R_len' s a HR i Hi) as Hlen.
  set (A := log (nd_of s i)) in *.
  assert (Hp : (N.to_nat pi <= length A)%nat).
  { destruct Hok as [->|[Hle _]]; [cbn; lia|unfold llen in Hle; lia]. }
  assert (Hag : firstn (N.to_nat pi) A = firstn (N.to_nat pi) (gl t)).
  { destruct Hok as [->|[_ [Ht|Hb]]]; [reflexivity| |].
    - destruct Hprev as [->|Ht']; [reflexivity|]. eapply LM_agree; [apply H3|apply H4|exact Ht|exact Ht'].
    - (* prev entry compacted away: the compacted prefix agrees with the leader's ledger *)
      replace (firstn (N.to_nat pi) A) with (firstn (N.to_nat pi) (firstn (N.to_nat (base (nd_of s i))) A))
        by (rewrite firstn_firstn; f_equal; lia).
      rewrite Hcomp, firstn_firstn. f_equal. lia. }
  destruct (append_entries_LM gl (gap_refused ru) (base (nd_of s i)) es A (N.to_nat pi) (gl t) (H1 i) (H2 t) (H3 i) (H4 t) Hp Hag Hseg Hcomp)
    as [WA' [LA' [_ [_ Shape]]]].
  rewrite <- Hlog in *.
  constructor.
  - intros j. rewrite nth_upd_node by exact Hlen. destruct (N.eqb j i); [exact WA'|apply H1].
  - exact H2.
  - intros j. rewrite nth_upd_node by exact Hlen. destruct (N.eqb j i); [exact LA'|apply H3].
  - exact H4.
  - intros j Hj. rewrite nth_upd_node by exact Hlen. destruct (N.eqb_spec j i) as [->|]; [|apply H5; exact Hj].
    rewrite Hrl. discriminate.
  - intros j e. rewrite nth_upd_node by exact Hlen. destruct (N.eqb_spec j i) as [->|]; [|apply H6].
    intros He. rewrite Hterm. destruct Shape as [E|[m E]]; rewrite E in He.
    + specialize (H6 i _ He). lia.
    + apply In_firstn in He. apply (H7 _ _ He).
  - exact H7.
  - intros t0 Hne. destruct (H8 t0 Hne) as [j Hj]. exists j. apply HL. exact Hj.
  - intros t0 j Hin. apply HL in Hin. destruct (H9 _ _ Hin) as [Hj Ht]. split; [exact Hj|].
    rewrite nth_upd_node by exact Hlen. destruct (N.eqb_spec j i) as [->|]; [lia|exact Ht].
  - intros t0 j Hin. apply HL in Hin. rewrite nth_upd_node by exact Hlen.
    destruct (N.eqb_spec j i) as [->|]; [|apply H10; exact Hin]. intros _. rewrite Hrl. discriminate.
  - intros src dst t0 ldr pi0 pt0 es0 lc Hin. apply pool_upd in Hin. destruct Hin as [Hin|[d [m [Ho E]]]].
    + destruct (H11 _ _ _ _ _ _ _ _ Hin) as [A0 B]. split; [apply HL; exact A0|exact B].
    + injection E as E1 E2 E3. subst. exfalso. eapply Hout; eauto.
Qed.

(* a ledger may always be re-pointed at the current log of a node that is leader *)
Lemma lmi_reset s gl a i : LMI s gl a -> i < n_nodes cfg -> rl (nd_of s i) = Leader ->
  LMI s (gl_set gl (term (nd_of s i)) (log (nd_of s i))) a.
Proof.
  intros H Hi Hl. eapply LMI_ext; [|exact H]. intros t. unfold gl_set.
  destruct (N.eqb_spec t (term (nd_of s i))) as [->|]; [|reflexivity]. symmetry. apply (lm_L3 _ _ _ H); assumption.
Qed.


(* ---------------- shapes of the node changes the handlers make ---------------- *)
Definition K1 (nd x : node) : Prop :=
  log x = log nd /\ term nd <= term x /\
  (rl x = Leader -> rl nd = Leader /\ term x = term nd) /\
  (rl x = Candidate -> (rl nd = Candidate /\ term x = term nd) \/ term nd < term x).

Lemma K1_refl nd : K1 nd nd.
Proof. unfold K1. repeat split; auto; lia. Qed.
Lemma K1_same nd x : log x = log nd -> term x = term nd -> rl x = rl nd -> K1 nd x.
Proof. intros L T Rl. unfold K1. rewrite L, T, Rl. repeat split; auto; lia. Qed.
Lemma K1_follower nd x : log x = log nd -> term nd <= term x -> rl x = Follower -> K1 nd x.
Proof. intros L T Rl. unfold K1. rewrite L, Rl. repeat split; auto; discriminate. Qed.
Lemma K1_elect self nd : K1 nd (start_election self nd).
Proof. unfold K1, start_election. cbn. repeat split; auto; try lia; try discriminate. Qed.

Lemma h_rv_K1 self nd t c lli llt ok : K1 nd (fst (h_rv ru self nd t c lli llt ok)).
Proof.
  unfold h_rv. destruct (N.ltb_spec (term nd) t) as [Hlt|Hge].
  - cbn [step_down set_term_vote term]. rewrite N.eqb_refl.
    destruct (last_info _) as [mli mlt]. match goal with |- context [if ?c then _ else _] => destruct c end;
      apply K1_follower; cbn; auto; lia.
  - destruct (N.eqb t (term nd)); [|apply K1_refl].
    destruct (last_info _) as [mli mlt]. match goal with |- context [if ?c then _ else _] => destruct c end;
      [apply K1_same; reflexivity|apply K1_refl].
Qed.

Lemma h_pvr_K1 self nd from t g : K1 nd (h_pvr cfg self nd from t g).
Proof.
  unfold h_pvr. destruct (in_prevote nd); cbn [negb]; [|apply K1_refl].
  destruct (N.ltb_spec (term nd) t).
  - apply K1_follower; cbn; auto; lia.
  - destruct (g && N.eqb t (term nd) && negb (memb from (prevotes nd))); [|apply K1_refl].
    destruct (N.leb (quorum cfg) (llen (prevotes nd ++ [from]))).
    + unfold K1, start_election. cbn. repeat split; auto; try lia; try discriminate.
    + apply K1_same; reflexivity.
Qed.

Lemma try_advance_K1 nd : log (try_advance cfg ru nd) = log nd /\ term (try_advance cfg ru nd) = term nd /\ rl (try_advance cfg ru nd) = rl nd.
Proof.
  unfold try_advance. destruct (rl nd) eqn:Er; auto. destruct (lvs nd); auto.
  match goal with |- context [if ?c then _ else _] => destruct c end; auto.
  match goal with |- context [match ?c with Some _ => _ | None => _ end] => destruct c end; auto.
  match goal with |- context [if ?c then _ else _] => destruct c end; cbn; auto.
Qed.

Lemma h_aer_K1 self nd from t succ mi : K1 nd (h_aer cfg ru self nd from t succ mi).
Proof.
  unfold h_aer. destruct (rl nd) eqn:Er; try apply K1_refl.
  destruct (N.ltb_spec (term nd) t); [apply K1_follower; cbn; auto; lia|].
  destruct (stale_ack_ignored ru && N.ltb t (term nd)); [apply K1_refl|].
  destruct (lvs nd) as [ls|]; [|apply K1_refl].
  destruct succ.
  - match goal with |- K1 _ (try_advance _ _ ?y) => destruct (try_advance_K1 y) as [A [B C]] end.
    apply K1_same; [rewrite A|rewrite B|rewrite C]; cbn; first [reflexivity | symmetry; exact Er | exact Er].
  - apply K1_same; cbn; first [reflexivity | symmetry; exact Er | exact Er].
Qed.


Lemma inv_step01 a a' : Vote.Inv n q a -> step01 cfg a a' -> Vote.Inv n q a'.
Proof. intros HI [->|St]; [exact HI|eapply Vote.step_inv; eauto]. Qed.

(* the leader sends entries only together with a prev entry that is still in its log *)
Hypothesis need_prev : entries_need_prev ru = true.

(* what a leader sends to a peer is a segment of its own log *)
Lemma entries_for_ok nd p : WI (log nd) ->
  let '(pi, pt, es) := entries_for ru nd p in
  es = firstn (length es) (skipn (N.to_nat pi) (log nd)) /\
  (pi = 0 \/ term_at (log nd) (N.to_nat pi) = Some pt) /\ (N.to_nat pi <= length (log nd))%nat.
Proof.
  intros W. unfold entries_for.
  set (next := match lvs nd with Some ls => match aget (next_index ls) p with Some x => x | None => 1 end | None => 1 end).
  clearbody next. set (L := log nd) in *. set (b := base nd) in *. clearbody b.
  assert (Lk : forall i e, lookup b L i = Some e -> nth_entry L i = Some e).
  { intros i e. unfold lookup. destruct (N.leb i b); [discriminate|auto]. }
  destruct (N.leb_spec next 1) as [Hle|Hgt].
  - cbn [N.to_nat]. split; [|split; [left; reflexivity|lia]].
    destruct (lookup b L next) as [e|] eqn:En; [|reflexivity].
    apply Lk in En.
    assert (next = 1). { unfold nth_entry in En. destruct (N.eqb_spec next 0); [discriminate|lia]. }
    subst next. cbn. symmetry. apply firstn_all.
  - destruct (lookup b L (next - 1)) as [e|] eqn:Ep.
    + apply Lk in Ep.
      rewrite nth_entry_ent_at in Ep. pose proof (W _ _ Ep) as Hidx. pose proof (ent_at_some_len _ _ _ Ep) as [_ Hl].
      assert (Epi : N.to_nat (eidx e) = N.to_nat (next - 1)) by lia.
      split; [|split].
      * rewrite Epi. destruct (lookup b L next); [|reflexivity]. symmetry. apply firstn_all.
      * right. unfold term_at. rewrite Epi, Ep. reflexivity.
      * lia.
    + rewrite need_prev. cbn [N.to_nat]. split; [reflexivity|split; [left; reflexivity|lia]].
Qed.

Lemma init_nodes_len : length (nodes (init_sys cfg)) = n.
Proof. unfold init_sys. cbn. rewrite map_length. unfold N_seq. apply N_seq_from_len. Qed.

Lemma init_node_of i : nd_of (init_sys cfg) i = init_node.
Proof. unfold init_sys, nth_node. cbn [nodes]. apply nth_const_map. Qed.

End LMatch.
