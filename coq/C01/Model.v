(* C01/Model.v -- executable model of the Raft core of tensor_chain/src/raft.rs (definitions only).
   One node = the fields the safety argument needs; handlers mirror
     handle_request_vote / handle_request_vote_response / start_election / become_leader /
     start_pre_vote / handle_pre_vote / handle_pre_vote_response /
     handle_append_entries (+ append_leader_entries) / handle_append_entries_response /
     try_advance_commit_index / propose / get_entries_for_follower + send_heartbeats /
     restart from the WAL (persistent part kept, volatile part reset).
   handle_timeout_now (leadership transfer, receiving side).
   Fixed membership, no log compaction / snapshot install (log_base_index = 0).  Guards that depend on wall-clock or float state (candidate health, geometric
   tie-break, pre-vote timeout_elapsed, is_write_safe) are refusal oracles: an extra Boolean that
   can only turn a grant into a refusal.
   The follower's acknowledgement rule (match_index, commit clamp), the stale-response rule and the
   quorum size come from the translator (gen/Gen_C01.v) and are parameters here. *)
From NV.Common Require Import Base.
Open Scope N_scope.

Record entry := E { eterm : N; eidx : N; epay : N }.
Definition entry_eqb (a b : entry) : bool :=
  N.eqb (eterm a) (eterm b) && N.eqb (eidx a) (eidx b) && N.eqb (epay a) (epay b).

Inductive role := Follower | Candidate | Leader.
Definition role_eqb (a b : role) : bool :=
  match a, b with Follower, Follower | Candidate, Candidate | Leader, Leader => true | _, _ => false end.

(* leader_volatile: next_index, match_index, backoff_failures (association lists by peer id) *)
Record lvol := LV { next_index : list (N * N); match_index : list (N * N); backoff : list (N * N) }.

Record node := Node {
  term : N;
  voted : option N;
  rl : role;
  votes : list N;            (* votes_received *)
  log : list entry;
  commit : N;
  in_prevote : bool;
  prevotes : list N;
  lvs : option lvol;
  fin : N;                   (* finalized_height (set by the application through finalize_to) *)
  base : N                   (* log_base_index: how many entries compaction has dropped from the front of the log.
                                The model keeps the whole log; the implementation's array is skipn base log. *)
}.

Definition init_node : node := Node 0 None Follower [] [] 0 false [] None 0 0.

Inductive msg :=
| RV (t cand lli llt : N)
| RVR (t : N) (g : bool) (voter : N)
| PV (t cand lli llt : N)
| PVR (t : N) (g : bool) (voter : N)
| AE (t ldr prev_i prev_t : N) (es : list entry) (lc : N)
| AER (t : N) (succ : bool) (fol mi : N).

(* static configuration of a run *)
Record config := Cfg {
  n_nodes : N;              (* node ids 0 .. n-1; every node's peers = all the others, ascending *)
  quorum : N;
  adaptive_backoff : bool;
  max_backoff_power : N;
  trailing : N              (* snapshot_trailing_logs *)
}.

(* the rules regenerated from the source *)
Record rules := Rules {
  follower_ack : N -> N -> N -> N;                (* prev_i lastnew len -> match_index *)
  follower_commit : N -> N -> N -> N -> N -> N;   (* lc commit prev_i lastnew len -> value assigned when lc > commit *)
  stale_ack_ignored : bool;                       (* a response with term < current_term is dropped *)
  vote_log_ok : N -> N -> N -> N -> bool -> bool; (* cand last idx, cand last term, my last idx, my last term, tie-break -> log_ok *)
  prev_ok : N -> N -> bool;                       (* term of my entry at prev_log_index, prev_log_term *)
  commit_pick : N -> N -> N;                      (* |sorted match list|, quorum -> position picked *)
  commit_term_ok : N -> N -> bool;                (* term of the entry at the new commit index, current term *)
  entries_need_prev : bool;                       (* get_entries_for_follower sends entries only with a prev entry still in the log *)
  gap_refused : bool;                             (* append_leader_entries refuses an entry that is not the direct successor of the log *)
  finalize_ok : N -> N -> N -> bool               (* finalize_to: requested height, commit_index, last log index -> accepted *)
}.

Definition last_info (l : list entry) : N * N :=
  match rev l with [] => (0, 0) | e :: _ => (eidx e, eterm e) end.
Definition llen {A} (l : list A) : N := N.of_nat (length l).
Definition nth_entry (l : list entry) (i : N) : option entry :=    (* log index i >= 1 *)
  if N.eqb i 0 then None else nth_error l (N.to_nat (i - 1)).
Definition memb (x : N) (l : list N) : bool := existsb (N.eqb x) l.

Fixpoint insert_sorted (x : N) (l : list N) : list N :=
  match l with [] => [x] | y :: r => if N.leb x y then x :: l else y :: insert_sorted x r end.
Definition sort_asc (l : list N) : list N := fold_right insert_sorted [] l.

Section Handlers.
Variable cfg : config.
Variable ru : rules.

Definition peers_of (self : N) : list N := filter (fun j => negb (N.eqb j self)) (N_seq (n_nodes cfg)).

Definition set_term_vote (nd : node) (t : N) (v : option N) (r : role) : node :=
  Node t v r (votes nd) (log nd) (commit nd) (in_prevote nd) (prevotes nd) (lvs nd) (fin nd) (base nd).
Definition step_down (nd : node) (t : N) : node := set_term_vote nd t None Follower.

(* ---------------- elections ---------------- *)
(* start_election: term+1, vote for self, Candidate, votes = [self] *)
Definition start_election (self : N) (nd : node) : node :=
  Node (term nd + 1) (Some self) Candidate [self] (log nd) (commit nd) (in_prevote nd) (prevotes nd) (lvs nd) (fin nd) (base nd).
(* the RequestVote a candidate broadcasts (start_election_async) *)
Definition rv_msgs (self : N) (nd : node) : list (N * msg) :=
  let '(lli, llt) := last_info (log nd) in
  map (fun p => (p, RV (term nd) self lli llt)) (peers_of self).

(* start_pre_vote: in_pre_vote := true, pre_votes := [self]; PreVote carries the CURRENT term *)
Definition start_pre_vote (self : N) (nd : node) : node :=
  Node (term nd) (voted nd) (rl nd) (votes nd) (log nd) (commit nd) true [self] (lvs nd) (fin nd) (base nd).
Definition pv_msgs (self : N) (nd : node) : list (N * msg) :=
  let '(lli, llt) := last_info (log nd) in
  map (fun p => (p, PV (term nd) self lli llt)) (peers_of self).

(* become_leader: role Leader, next_index = last+1, match_index = 0 for every peer *)
Definition become_leader (self : N) (nd : node) : node :=
  let lli := fst (last_info (log nd)) in
  let ps := peers_of self in
  Node (term nd) (voted nd) Leader (votes nd) (log nd) (commit nd) (in_prevote nd) (prevotes nd)
       (Some (LV (map (fun p => (p, lli + 1)) ps) (map (fun p => (p, 0)) ps) [])) (fin nd) (base nd).

(* handle_request_vote; `ok` = candidate_healthy && geometric_ok (can only refuse) *)
Definition h_rv (self : N) (nd : node) (t cand lli llt : N) (ok : bool) : node * msg :=
  let nd1 := if N.ltb (term nd) t then step_down nd t else nd in
  if N.eqb t (term nd1) then
    let can_vote := match voted nd1 with None => true | Some c => N.eqb c cand end in
    let '(mli, mlt) := last_info (log nd1) in
    if can_vote && vote_log_ok ru lli llt mli mlt ok && ok then
      (set_term_vote nd1 (term nd1) (Some cand) (rl nd1), RVR (term nd1) true self)
    else (nd1, RVR (term nd1) false self)
  else (nd1, RVR (term nd1) false self).

(* handle_request_vote_response *)
Definition h_rvr (self : N) (nd : node) (from t : N) (g : bool) : node :=
  match rl nd with
  | Candidate =>
      if N.ltb (term nd) t then step_down nd t
      else if g && N.eqb t (term nd) && negb (memb from (votes nd)) then
        let vs := votes nd ++ [from] in
        let nd' := Node (term nd) (voted nd) (rl nd) vs (log nd) (commit nd) (in_prevote nd) (prevotes nd) (lvs nd) (fin nd) (base nd) in
        if N.leb (quorum cfg) (llen vs) then become_leader self nd' else nd'
      else nd
  | _ => nd
  end.

(* handle_pre_vote: no state change; `ok` = timeout_elapsed && candidate_healthy *)
Definition h_pv (self : N) (nd : node) (t cand lli llt : N) (ok : bool) : node * msg :=
  let '(mli, mlt) := last_info (log nd) in
  let log_ok := N.ltb mlt llt || (N.eqb llt mlt && N.leb mli lli) in
  (nd, PVR (term nd) (N.leb (term nd) t && ok && log_ok) self).

(* handle_pre_vote_response *)
Definition h_pvr (self : N) (nd : node) (from t : N) (g : bool) : node :=
  if negb (in_prevote nd) then nd
  else if N.ltb (term nd) t then
    let nd1 := step_down nd t in
    Node (term nd1) (voted nd1) (rl nd1) (votes nd1) (log nd1) (commit nd1) false (prevotes nd1) (lvs nd1) (fin nd1) (base nd1)
  else if g && N.eqb t (term nd) && negb (memb from (prevotes nd)) then
    let pvs := prevotes nd ++ [from] in
    if N.leb (quorum cfg) (llen pvs) then
      start_election self (Node (term nd) (voted nd) (rl nd) (votes nd) (log nd) (commit nd) false pvs (lvs nd) (fin nd) (base nd))
    else Node (term nd) (voted nd) (rl nd) (votes nd) (log nd) (commit nd) true pvs (lvs nd) (fin nd) (base nd)
  else nd.

(* ---------------- replication ---------------- *)
(* log_index_to_array_index + bounds check: the entry at log index i, unless it was compacted away *)
Definition lookup (b : N) (l : list entry) (i : N) : option entry :=
  if N.leb i b then None else nth_entry l i.

(* append_leader_entries (b = log_base_index).  An entry beyond the end is pushed only if it is the direct
   successor of the log (otherwise the loop stops and reports failure); an entry inside the log that was
   compacted away is skipped; a conflicting entry truncates the log from there. *)
Fixpoint append_entries (g : bool) (b : N) (es : list entry) (l : list entry) : list entry :=
  match es with
  | [] => l
  | e :: r =>
      if N.ltb (llen l) (eidx e) then
        (if N.eqb (eidx e) (llen l + 1) || negb g then append_entries g b r (l ++ [e]) else l)
      else match lookup b l (eidx e) with
           | Some x => if N.eqb (eterm x) (eterm e) then append_entries g b r l
                       else append_entries g b r (firstn (N.to_nat (eidx e - 1)) l ++ [e])
           | None => append_entries g b r l
           end
  end.
(* its Boolean result (WAL failures are outside the model) *)
Fixpoint append_ok (g : bool) (b : N) (es : list entry) (l : list entry) : bool :=
  match es with
  | [] => true
  | e :: r =>
      if N.ltb (llen l) (eidx e) then
        (if N.eqb (eidx e) (llen l + 1) || negb g then append_ok g b r (l ++ [e]) else false)
      else match lookup b l (eidx e) with
           | Some x => if N.eqb (eterm x) (eterm e) then append_ok g b r l
                       else append_ok g b r (firstn (N.to_nat (eidx e - 1)) l ++ [e])
           | None => append_ok g b r l
           end
  end.

Definition last_new (prev_i : N) (es : list entry) : N :=
  match rev es with e :: _ => eidx e | [] => prev_i end.

(* handle_append_entries *)
Definition h_ae (self : N) (nd : node) (t ldr prev_i prev_t : N) (es : list entry) (lc : N) : node * msg :=
  let nd1 := if N.ltb (term nd) t then step_down nd t else nd in
  if N.eqb t (term nd1) then
    let log_ok :=
      if N.eqb prev_i 0 then true
      else if N.leb prev_i (llen (log nd1)) then
        (* an entry compacted away is treated as consistent *)
        match lookup (base nd1) (log nd1) prev_i with Some x => prev_ok ru (eterm x) prev_t | None => true end
      else false in
    if log_ok then
      let l' := append_entries (gap_refused ru) (base nd1) es (log nd1) in
      let succ := append_ok (gap_refused ru) (base nd1) es (log nd1) in
      let ln := last_new prev_i es in
      let mi := follower_ack ru prev_i ln (llen l') in
      let c' := if N.ltb (commit nd1) lc then follower_commit ru lc (commit nd1) prev_i ln (llen l') else commit nd1 in
      (Node (term nd1) (voted nd1) Follower (votes nd1) l' c' (in_prevote nd1) (prevotes nd1) (lvs nd1) (fin nd1) (base nd1),
       AER (term nd1) succ self mi)
    else
      (Node (term nd1) (voted nd1) Follower (votes nd1) (log nd1) (commit nd1) (in_prevote nd1) (prevotes nd1) (lvs nd1) (fin nd1) (base nd1),
       AER (term nd1) false self 0)
  else (nd1, AER (term nd1) false self 0).

(* try_advance_commit_index *)
Definition try_advance (nd : node) : node :=
  match rl nd, lvs nd with
  | Leader, Some ls =>
      let ms := sort_asc (map snd (match_index ls) ++ [llen (log nd)]) in
      let qi := N.to_nat (commit_pick ru (llen ms) (quorum cfg)) in
      let nc := nth qi ms 0 in
      if N.ltb (commit nd) nc then
        match lookup (base nd) (log nd) nc with
        | Some x => if commit_term_ok ru (eterm x) (term nd)
                    then Node (term nd) (voted nd) (rl nd) (votes nd) (log nd) nc (in_prevote nd) (prevotes nd) (lvs nd) (fin nd) (base nd)
                    else nd
        | None => nd
        end
      else nd
  | _, _ => nd
  end.

Definition pow2 (k : N) : N := 2 ^ k.

(* handle_append_entries_response *)
Definition h_aer (self : N) (nd : node) (from t : N) (succ : bool) (mi : N) : node :=
  match rl nd with
  | Leader =>
      if N.ltb (term nd) t then
        let nd1 := step_down nd t in
        Node (term nd1) (voted nd1) (rl nd1) (votes nd1) (log nd1) (commit nd1) (in_prevote nd1) (prevotes nd1) None (fin nd1) (base nd1)
      else if stale_ack_ignored ru && N.ltb t (term nd) then nd
      else match lvs nd with
           | Some ls =>
               if succ then
                 let ls' := LV (aset (next_index ls) from (mi + 1)) (aset (match_index ls) from mi) (adel (backoff ls) from) in
                 try_advance (Node (term nd) (voted nd) (rl nd) (votes nd) (log nd) (commit nd) (in_prevote nd) (prevotes nd) (Some ls') (fin nd) (base nd))
               else
                 let next := match aget (next_index ls) from with Some x => x | None => 1 end in
                 let fails := match aget (backoff ls) from with Some x => x | None => 0 end in
                 let dec := if adaptive_backoff cfg
                            then N.min (pow2 (N.min fails (max_backoff_power cfg))) (next - 1)
                            else 1 in
                 let next' := if N.ltb 0 dec then (if N.ltb (next - dec) 1 then 1 else next - dec) else next in
                 let ls' := LV (aset (next_index ls) from next') (match_index ls) (aset (backoff ls) from (fails + 1)) in
                 Node (term nd) (voted nd) (rl nd) (votes nd) (log nd) (commit nd) (in_prevote nd) (prevotes nd) (Some ls') (fin nd) (base nd)
           | None => nd
           end
  | _ => nd
  end.

(* get_entries_for_follower + send_heartbeats.  Entries travel only with a prev entry the leader can still
   name: when the entry before next_index was compacted away, nothing is sent (prev 0, no entries). *)
Definition entries_for (nd : node) (peer : N) : N * N * list entry :=
  let next := match lvs nd with
              | Some ls => match aget (next_index ls) peer with Some x => x | None => 1 end
              | None => 1 end in
  let prev := if N.leb next 1 then Some (0, 0)
              else match lookup (base nd) (log nd) (next - 1) with
                   | Some e => Some (eidx e, eterm e) | None => None end in
  let es := match prev with
            | Some _ => match lookup (base nd) (log nd) next with
                        | Some _ => skipn (N.to_nat (next - 1)) (log nd) | None => [] end
            | None => if entries_need_prev ru then []
                      else match lookup (base nd) (log nd) next with
                           | Some _ => skipn (N.to_nat (next - 1)) (log nd) | None => [] end
            end in
  let '(pi, pt) := match prev with Some p => p | None => (0, 0) end in
  (pi, pt, es).
Definition heartbeat_msgs (self : N) (nd : node) : list (N * msg) :=
  match rl nd with
  | Leader => map (fun p => let '(pi, pt, es) := entries_for nd p in (p, AE (term nd) self pi pt es (commit nd)))
                  (peers_of self)
  | _ => []
  end.

(* propose; `ok` = is_write_safe && no transfer in progress (can only refuse) *)
Definition propose (nd : node) (payload : N) (ok : bool) : node :=
  match rl nd with
  | Leader => if ok then Node (term nd) (voted nd) (rl nd) (votes nd)
                              (log nd ++ [E (term nd) (llen (log nd) + 1) payload])
                              (commit nd) (in_prevote nd) (prevotes nd) (lvs nd) (fin nd) (base nd)
              else nd
  | _ => nd
  end.

(* crash + restart from the WAL: term, vote and the WHOLE log survive (the WAL is not compacted); everything
   else, finalized height and log base included, is reset *)
Definition restart (nd : node) : node := Node (term nd) (voted nd) Follower [] (log nd) 0 false [] None 0 0.

(* finalize_to: the application marks committed entries as finalized *)
Definition finalize (nd : node) (h : N) : node :=
  if finalize_ok ru h (commit nd) (llen (log nd))
  then Node (term nd) (voted nd) (rl nd) (votes nd) (log nd) (commit nd) (in_prevote nd) (prevotes nd) (lvs nd) h (base nd)
  else nd.
(* create_snapshot + truncate_log (perform_compaction): drop the log up to finalized - trailing, provided the
   snapshot can be taken (finalized entry still in the array) and at least one entry stays *)
Definition compact (nd : node) : node :=
  let cut := fin nd - trailing cfg in
  if N.ltb (base nd) (fin nd) && N.leb (fin nd) (llen (log nd)) && N.ltb (base nd) cut && N.ltb cut (llen (log nd))
  then Node (term nd) (voted nd) (rl nd) (votes nd) (log nd) (commit nd) (in_prevote nd) (prevotes nd) (lvs nd) (fin nd) cut
  else nd.

(* ---------------- the cluster ---------------- *)
(* envelopes: (src, dst, message); the pool only grows: delivering a message does not remove it
   (so duplication = delivering twice, loss = never delivering, reordering = any index order) *)
Record sys := Sys { nodes : list node; pool : list (N * N * msg) }.

Inductive gop :=
| GElect (i : N)                 (* election timeout, pre-vote disabled: start_election + broadcast *)
| GPreVote (i : N)               (* election timeout, pre-vote enabled: start_pre_vote + broadcast *)
| GRequestVotes (i : N)          (* a candidate (re)broadcasts RequestVote for its current term *)
| GHeartbeat (i : N)             (* send_heartbeats *)
| GPropose (i payload : N) (ok : bool)
| GDeliver (k : N) (ok : bool)   (* deliver pool message k to its destination; ok = refusal oracle *)
| GRestart (i : N)
| GTimeoutNow (i : N) (ok : bool) (* node i accepts a TimeoutNow (leadership transfer): start_election at once,
                                     no pre-vote, no broadcast; ok = sender is the believed leader and terms match *)
| GFinalize (i h : N)            (* finalize_to(h) *)
| GCompact (i : N).              (* create_snapshot + truncate_log *)

Definition nth_node (ns : list node) (i : N) : node := nth (N.to_nat i) ns init_node.
Fixpoint set_nth_node (ns : list node) (i : nat) (x : node) : list node :=
  match ns, i with
  | [], _ => []
  | _ :: t, O => x :: t
  | h :: t, S k => h :: set_nth_node t k x
  end.
Definition upd_node (s : sys) (i : N) (x : node) (out : list (N * msg)) : sys :=
  Sys (set_nth_node (nodes s) (N.to_nat i) x) (pool s ++ map (fun dm => (i, fst dm, snd dm)) out).

Definition valid_id (i : N) : bool := N.ltb i (n_nodes cfg).

Definition deliver (s : sys) (src dst : N) (m : msg) (ok : bool) : sys :=
  let nd := nth_node (nodes s) dst in
  match m with
  | RV t cand lli llt => let '(nd', r) := h_rv dst nd t cand lli llt ok in upd_node s dst nd' [(src, r)]
  | RVR t g voter => upd_node s dst (h_rvr dst nd src t g) []
  | PV t cand lli llt => let '(nd', r) := h_pv dst nd t cand lli llt ok in upd_node s dst nd' [(src, r)]
  | PVR t g voter => upd_node s dst (h_pvr dst nd src t g) []
  | AE t ldr pi pt es lc => let '(nd', r) := h_ae dst nd t ldr pi pt es lc in upd_node s dst nd' [(src, r)]
  | AER t succ fol mi => upd_node s dst (h_aer dst nd src t succ mi) []
  end.

(* one global step; returns the new system and the id of the node it touched *)
Definition gstep (s : sys) (o : gop) : sys * N :=
  match o with
  | GElect i =>
      if valid_id i then let nd' := start_election i (nth_node (nodes s) i) in (upd_node s i nd' (rv_msgs i nd'), i)
      else (s, i)
  | GPreVote i =>
      if valid_id i then let nd' := start_pre_vote i (nth_node (nodes s) i) in (upd_node s i nd' (pv_msgs i nd'), i)
      else (s, i)
  | GRequestVotes i =>
      if valid_id i then
        let nd := nth_node (nodes s) i in
        (match rl nd with Candidate => upd_node s i nd (rv_msgs i nd) | _ => s end, i)
      else (s, i)
  | GHeartbeat i =>
      if valid_id i then let nd := nth_node (nodes s) i in (upd_node s i nd (heartbeat_msgs i nd), i) else (s, i)
  | GPropose i p ok =>
      if valid_id i then (upd_node s i (propose (nth_node (nodes s) i) p ok) [], i) else (s, i)
  | GDeliver k ok =>
      match nth_error (pool s) (N.to_nat k) with
      | Some (src, dst, m) => if valid_id dst then (deliver s src dst m ok, dst) else (s, dst)
      | None => (s, 0)
      end
  | GRestart i =>
      if valid_id i then (upd_node s i (restart (nth_node (nodes s) i)) [], i) else (s, i)
  | GTimeoutNow i ok =>
      if valid_id i then (if ok then (upd_node s i (start_election i (nth_node (nodes s) i)) [], i) else (s, i))
      else (s, i)
  | GFinalize i h =>
      if valid_id i then (upd_node s i (finalize (nth_node (nodes s) i) h) [], i) else (s, i)
  | GCompact i =>
      if valid_id i then (upd_node s i (compact (nth_node (nodes s) i)) [], i) else (s, i)
  end.

Definition init_sys : sys := Sys (map (fun _ => init_node) (N_seq (n_nodes cfg))) [].
Definition grun (ops : list gop) : sys := fold_left (fun s o => fst (gstep s o)) ops init_sys.

End Handlers.

(* the textbook up-to-date rule (the geometric tie-break can only refuse an equal log) *)
Definition std_vote_log_ok (lli llt mli mlt : N) (gok : bool) : bool :=
  N.ltb mlt llt || (N.eqb llt mlt && N.ltb mli lli) || (N.eqb llt mlt && N.eqb lli mli && gok).

(* the two acknowledgement rules that have existed in the source *)
Definition rules_whole_log : rules :=       (* before the repair: whole local length *)
  Rules (fun _ _ len => len) (fun lc _ _ _ len => N.min lc len) false std_vote_log_ok N.eqb N.sub N.eqb false false
        (fun h c _ => N.leb h c).
Definition rules_verified : rules :=        (* after: only the prefix this request verified *)
  Rules (fun _ ln len => N.min ln len) (fun lc c _ ln len => N.max c (N.min lc (N.min ln len))) true
        std_vote_log_ok N.eqb N.sub N.eqb true true (fun h c _ => N.leb h c).
