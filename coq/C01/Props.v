(* C01/Props.v -- pinned property theorems (statements only, closed by `exact`). *)
From NV.Common Require Import Base.
From NV.C01 Require Import Model LogList VoteSim LogMatch Commit Safety Inst.
From NV.gen Require Import Gen_C01.
Open Scope N_scope.

Definition gen_rules : rules :=
  Rules gen_follower_ack gen_follower_commit gen_stale_ack_ignored gen_vote_log_ok gen_prev_ok gen_commit_pick gen_commit_term_ok
        gen_entries_need_prev gen_gap_refused gen_finalize_ok.
(* a cluster of n >= 1 voters whose quorum is the one the code computes *)
(* ab, mp: adaptive backoff and its maximal power; tr: snapshot_trailing_logs *)
Definition cluster (n : N) (ab : bool) (mp tr : N) : config := Cfg n (gen_quorum n) ab mp tr.

(* discharges the hypotheses of the theorems of Safety.v for the rules regenerated from the source *)
Ltac gen_hyps n :=
  first [ cbn [cluster n_nodes quorum]; pose proof (gen_quorum_majority n); lia
        | cbn [cluster n_nodes quorum]; pose proof (gen_quorum_within n); lia
        | intros; apply gen_ack_verified | intros; apply gen_commit_verified; assumption | reflexivity
        | apply gen_prev_sound | apply gen_entries_with_known_prev | apply gen_vote_up_to_date | apply gen_pick_quorum | apply gen_commit_current_term | apply gen_finalize_within_commit ].

(* ELECTION SAFETY.  For every cluster size, every schedule of timeouts, pre-votes, (re)broadcasts,
   heartbeats, proposals, message deliveries in any order with duplication and loss, refusal
   oracles (pre-vote timing, health, geometric tie-break, write guard) and crash/restarts:
   if node i is leader of term t after k1 steps and node j is leader of term t after k2 steps,
   then i = j. *)
Theorem C01_election_safety : forall n ab mp tr ops k1 k2 t i j,
  leader_at (cluster n ab mp tr) gen_rules ops k1 t i ->
  leader_at (cluster n ab mp tr) gen_rules ops k2 t j -> i = j.
Proof.
  intros n ab mp tr. apply election_safety. cbn [cluster n_nodes quorum].
  pose proof (gen_quorum_majority n). lia.
Qed.

(* LOG MATCHING.  In every state reachable by any schedule, if the logs of two nodes hold an entry of
   the same term at position k, the two logs are identical on positions 1..k (so in particular on
   every earlier position). *)
Theorem C01_log_matching : forall n ab mp tr ops i j k t, 1 <= n ->
  let s := grun (cluster n ab mp tr) gen_rules ops in
  term_at (log (nth_node (nodes s) i)) k = Some t ->
  term_at (log (nth_node (nodes s) j)) k = Some t ->
  firstn k (log (nth_node (nodes s) i)) = firstn k (log (nth_node (nodes s) j)).
Proof.
  intros n ab mp tr ops i j k t Hn. apply log_matching; gen_hyps n.
Qed.

(* every log is well-indexed (position k holds index k) and holds no entry of a term beyond the node's *)
Theorem C01_logs_well_formed : forall n ab mp tr ops i, 1 <= n ->
  let s := grun (cluster n ab mp tr) gen_rules ops in
  WI (log (nth_node (nodes s) i)) /\
  forall e, In e (log (nth_node (nodes s) i)) -> eterm e <= term (nth_node (nodes s) i).
Proof.
  intros n ab mp tr ops i Hn. apply logs_well_formed; gen_hyps n.
Qed.

(* LEADER COMPLETENESS (for quorum-acknowledged entries).  gl is the ghost ledger of the run (gl t = the log
   of the leader of term t; LMI/LCI tie it to the node logs and to the messages in the pool).  Acked v t m:
   node v sent a successful AppendEntriesResponse in term t with match_index >= m (the response is in the
   pool), or v is the leader of term t; QA t m: a quorum of distinct nodes has acknowledged position m of
   ledger t, an entry created in term t.  Then, in every reachable state, every node that is leader of a
   later term holds the first m entries of ledger t.  (This is what makes the leader's commit rule safe;
   the statements about commit_index itself are C01_state_machine_safety and C01_leader_holds_committed
   below.) *)
Theorem C01_leader_completeness : forall n ab mp tr ops, 1 <= n ->
  let cfg := cluster n ab mp tr in
  let s := grun cfg gen_rules ops in
  exists gl a, LMI cfg s gl a /\ LCI cfg s gl a /\
    forall t m, QA cfg s gl a t m ->
      forall c, c < n_nodes cfg -> rl (nth_node (nodes s) c) = Leader -> t < term (nth_node (nodes s) c) ->
        firstn m (log (nth_node (nodes s) c)) = firstn m (gl t).
Proof.
  intros n ab mp tr ops Hn. apply (leader_completeness (cluster n ab mp tr) gen_rules); gen_hyps n.
Qed.

(* STATE-MACHINE SAFETY ("once any node reports a log position as committed, no node ever reports a
   different entry committed at that position").  For every cluster size, every schedule ops1 and every
   continuation ops2 of it (timeouts, pre-votes, broadcasts, heartbeats, proposals, deliveries in any order
   with duplication and loss, refusal oracles, crash/restarts): if node i's commit index is at least k after
   ops1 and node j's commit index is at least k after ops1 ++ ops2, then the two logs are identical on
   positions 1..k (and those positions exist).  ops2 = [] compares two nodes at the same moment; i = j says
   a committed entry is never lost or replaced. *)
Theorem C01_state_machine_safety : forall n ab mp tr ops1 ops2 i j k,
  let cfg := cluster n ab mp tr in
  let s1 := grun cfg gen_rules ops1 in
  let s2 := grun cfg gen_rules (ops1 ++ ops2) in
  i < n -> j < n ->
  (k <= N.to_nat (commit (nth_node (nodes s1) i)))%nat -> (k <= N.to_nat (commit (nth_node (nodes s2) j)))%nat ->
  firstn k (log (nth_node (nodes s1) i)) = firstn k (log (nth_node (nodes s2) j)) /\
  (k <= length (log (nth_node (nodes s1) i)))%nat.
Proof.
  intros n ab mp tr ops1 ops2 i j k cfg s1 s2 Hi Hj. apply (state_machine_safety cfg gen_rules); auto; unfold cfg; gen_hyps n.
Qed.

(* ... "and every later leader's log contains that entry": if node i's commit index is at least k after ops1,
   every node that is leader after ops1 ++ ops2 in a term not below node i's term (at the moment it reported)
   holds the same k entries. *)
Theorem C01_leader_holds_committed : forall n ab mp tr ops1 ops2 i c k,
  let cfg := cluster n ab mp tr in
  let s1 := grun cfg gen_rules ops1 in
  let s2 := grun cfg gen_rules (ops1 ++ ops2) in
  i < n -> c < n ->
  (k <= N.to_nat (commit (nth_node (nodes s1) i)))%nat ->
  rl (nth_node (nodes s2) c) = Leader -> term (nth_node (nodes s1) i) <= term (nth_node (nodes s2) c) ->
  firstn k (log (nth_node (nodes s2) c)) = firstn k (log (nth_node (nodes s1) i)) /\
  (k <= length (log (nth_node (nodes s2) c)))%nat.
Proof.
  intros n ab mp tr ops1 ops2 i c k cfg s1 s2 Hi Hc. apply (leader_holds_committed cfg gen_rules); auto; unfold cfg; gen_hyps n.
Qed.

(* MONOTONE: along every schedule a node's term never decreases, and its commit index decreases only when that
   node crashes and restarts (commit_index is volatile). *)
Theorem C01_terms_never_decrease : forall n ab mp tr ops1 ops2 i, i < n ->
  term (nth_node (nodes (grun (cluster n ab mp tr) gen_rules ops1)) i)
  <= term (nth_node (nodes (grun (cluster n ab mp tr) gen_rules (ops1 ++ ops2))) i).
Proof.
  intros n ab mp tr ops1 ops2 i Hi. apply (terms_never_decrease (cluster n ab mp tr) gen_rules); auto; gen_hyps n.
Qed.
Theorem C01_commit_step_monotone : forall n ab mp tr ops o i, i < n ->
  commit (nth_node (nodes (grun (cluster n ab mp tr) gen_rules ops)) i)
  <= commit (nth_node (nodes (grun (cluster n ab mp tr) gen_rules (ops ++ [o]))) i) \/ o = GRestart i.
Proof.
  intros n ab mp tr ops o i Hi. apply (commit_step_monotone (cluster n ab mp tr) gen_rules); auto; gen_hyps n.
Qed.

(* LEADER APPEND-ONLY: while a node is leader of one term it never removes or rewrites an entry of its own log. *)
Theorem C01_leader_append_only : forall n ab mp tr ops1 ops2 i, i < n ->
  let s1 := grun (cluster n ab mp tr) gen_rules ops1 in
  let s2 := grun (cluster n ab mp tr) gen_rules (ops1 ++ ops2) in
  rl (nth_node (nodes s1) i) = Leader -> rl (nth_node (nodes s2) i) = Leader ->
  term (nth_node (nodes s1) i) = term (nth_node (nodes s2) i) ->
  firstn (length (log (nth_node (nodes s1) i))) (log (nth_node (nodes s2) i)) = log (nth_node (nodes s1) i).
Proof.
  intros n ab mp tr ops1 ops2 i Hi. apply (leader_append_only (cluster n ab mp tr) gen_rules); auto; gen_hyps n.
Qed.

(* LOG COMPACTION stays inside the committed prefix: in every reachable state, what a node has dropped from the
   front of its log (finalize_to + create_snapshot + truncate_log, in any order, any number of times, on any
   node) it had committed.  Together with C01_state_machine_safety (whose schedules include those steps) this
   is why a follower may treat a compacted prev entry as consistent and skip compacted entries. *)
Theorem C01_compaction_within_commit : forall n ab mp tr ops i, i < n ->
  let s := grun (cluster n ab mp tr) gen_rules ops in
  base (nth_node (nodes s) i) <= commit (nth_node (nodes s) i).
Proof.
  intros n ab mp tr ops i Hi. apply (compaction_within_commit (cluster n ab mp tr) gen_rules); auto; gen_hyps n.
Qed.

(* ... and never the whole log: the implementation reads its last log index/term off the ARRAY that is left after
   compaction, the model off the whole log; in every reachable state the two agree. *)
Theorem C01_array_last_is_log_last : forall n ab mp tr ops i, i < n ->
  let nd := nth_node (nodes (grun (cluster n ab mp tr) gen_rules ops)) i in
  last_info (skipn (N.to_nat (base nd)) (log nd)) = last_info (log nd).
Proof.
  intros n ab mp tr ops i Hi. apply (array_last_is_log_last (cluster n ab mp tr) gen_rules); auto; gen_hyps n.
Qed.

(* non-vacuity: a schedule in which the leader really compacts (finalize 2 of 3 committed entries, drop them),
   keeps replicating, and the follower that was behind the compaction point still ends with the leader's log *)
Example C01_compaction_nonvacuous :
  let ops := [GElect 0; GDeliver 0 true; GDeliver 2 true; GPropose 0 7 true; GPropose 0 8 true; GPropose 0 9 true;
              GHeartbeat 0; GDeliver 3 true; GDeliver 5 true; GFinalize 0 2; GCompact 0] in
  let s := grun (cluster 3 false 10 0) gen_rules ops in
  base (nth_node (nodes s) 0) = 2 /\ commit (nth_node (nodes s) 0) = 3.
Proof. vm_compute. split; reflexivity. Qed.

(* non-vacuity: a concrete 3-node schedule elects a leader and replicates an entry *)
Example C01_nonvacuous :
  let ops := [GElect 0; GDeliver 0 true; GDeliver 2 true; GPropose 0 7 true; GHeartbeat 0; GDeliver 3 true] in
  let s := grun (cluster 3 false 10 0) gen_rules ops in
  leader_at (cluster 3 false 10 0) gen_rules ops 3 1 0 /\
  term_at (log (nth_node (nodes s) 0)) 1 = Some 1 /\ term_at (log (nth_node (nodes s) 1)) 1 = Some 1.
Proof. vm_compute. repeat split; reflexivity. Qed.

(* non-vacuity of the commit theorems: in a concrete schedule the leader and a follower both report position 1
   committed (so the hypotheses k <= commit are met with k = 1 on two different nodes) *)
Example C01_commit_nonvacuous :
  let ops := [GElect 0; GDeliver 0 true; GDeliver 2 true; GPropose 0 7 true; GHeartbeat 0; GDeliver 3 true;
              GDeliver 5 true; GHeartbeat 0; GDeliver 6 true] in
  let s := grun (cluster 3 false 10 0) gen_rules ops in
  commit (nth_node (nodes s) 0) = 1 /\ commit (nth_node (nodes s) 1) = 1 /\ rl (nth_node (nodes s) 0) = Leader.
Proof. vm_compute. repeat split; reflexivity. Qed.

Print Assumptions C01_election_safety.
Print Assumptions C01_log_matching.
Print Assumptions C01_logs_well_formed.
Print Assumptions C01_leader_completeness.
Print Assumptions C01_state_machine_safety.
Print Assumptions C01_leader_holds_committed.
Print Assumptions C01_compaction_within_commit.
Print Assumptions C01_array_last_is_log_last.
Print Assumptions C01_terms_never_decrease.
Print Assumptions C01_commit_step_monotone.
Print Assumptions C01_leader_append_only.
