(* C01/Props.v -- pinned property theorems (statements only, closed by `exact`). *)
From NV.Common Require Import Base.
From NV.C01 Require Import Model VoteSim Inst.
From NV.gen Require Import Gen_C01.
Open Scope N_scope.

Definition gen_rules : rules := Rules gen_follower_ack gen_follower_commit gen_stale_ack_ignored.
(* a cluster of n >= 1 voters whose quorum is the one the code computes *)
Definition cluster (n : N) (ab : bool) (mp : N) : config := Cfg n (gen_quorum n) ab mp.

(* ELECTION SAFETY.  For every cluster size, every schedule of timeouts, pre-votes, (re)broadcasts,
   heartbeats, proposals, message deliveries in any order with duplication and loss, refusal
   oracles (pre-vote timing, health, geometric tie-break, write guard) and crash/restarts:
   if node i is leader of term t after k1 steps and node j is leader of term t after k2 steps,
   then i = j. *)
Theorem C01_election_safety : forall n ab mp ops k1 k2 t i j,
  leader_at (cluster n ab mp) gen_rules ops k1 t i ->
  leader_at (cluster n ab mp) gen_rules ops k2 t j -> i = j.
Proof.
  intros n ab mp. apply election_safety. cbn [cluster n_nodes quorum].
  pose proof (gen_quorum_majority n). lia.
Qed.

Print Assumptions C01_election_safety.
