(* C01/Props.v -- pinned property theorems (statements only, closed by `exact`). *)
From NV.Common Require Import Base.
From NV.C01 Require Import Model LogList VoteSim LogMatch Inst.
From NV.gen Require Import Gen_C01.
Open Scope N_scope.

Definition gen_rules : rules := Rules gen_follower_ack gen_follower_commit gen_stale_ack_ignored.
(* a cluster of n >= 1 voters whose quorum is the one the code computes *)
Definition cluster (n : N) (ab : bool) (mp : N) : config := Cfg n (gen_quorum n) ab mp.

(* ELECTION SAFETY.  For every cluster size, every schedule of timeouts, pre-votes, (re)broadcasts,
   heartbeats, proposals, message deliveries in any order with duplication and loss, refusal
   oracles (pre-vote timing, health, geometric tie-break, write guard) and crash/restarts:
   if node i is leader of term t after k1 steps and node j is leader of term t after k2 steps,
   then i = j. *)
Theorem C01_election_safety : forall n ab mp ops k1 k2 t i j,
  leader_at (cluster n ab mp) gen_rules ops k1 t i ->
  leader_at (cluster n ab mp) gen_rules ops k2 t j -> i = j.
Proof.
  intros n ab mp. apply election_safety. cbn [cluster n_nodes quorum].
  pose proof (gen_quorum_majority n). lia.
Qed.

(* LOG MATCHING.  In every state reachable by any schedule, if the logs of two nodes hold an entry of
   the same term at position k, the two logs are identical on positions 1..k (so in particular on
   every earlier position). *)
Theorem C01_log_matching : forall n ab mp ops i j k t,
  let s := grun (cluster n ab mp) gen_rules ops in
  term_at (log (nth_node (nodes s) i)) k = Some t ->
  term_at (log (nth_node (nodes s) j)) k = Some t ->
  firstn k (log (nth_node (nodes s) i)) = firstn k (log (nth_node (nodes s) j)).
Proof.
  intros n ab mp. apply log_matching. cbn [cluster n_nodes quorum].
  pose proof (gen_quorum_majority n). lia.
Qed.

(* every log is well-indexed (position k holds index k) and holds no entry of a term beyond the node's *)
Theorem C01_logs_well_formed : forall n ab mp ops i,
  let s := grun (cluster n ab mp) gen_rules ops in
  WI (log (nth_node (nodes s) i)) /\
  forall e, In e (log (nth_node (nodes s) i)) -> eterm e <= term (nth_node (nodes s) i).
Proof.
  intros n ab mp. apply logs_well_formed. cbn [cluster n_nodes quorum].
  pose proof (gen_quorum_majority n). lia.
Qed.

(* non-vacuity: a concrete 3-node schedule elects a leader and replicates an entry *)
Example C01_nonvacuous :
  let ops := [GElect 0; GDeliver 0 true; GDeliver 2 true; GPropose 0 7 true; GHeartbeat 0; GDeliver 3 true] in
  let s := grun (cluster 3 false 10) gen_rules ops in
  leader_at (cluster 3 false 10) gen_rules ops 3 1 0 /\
  term_at (log (nth_node (nodes s) 0)) 1 = Some 1 /\ term_at (log (nth_node (nodes s) 1)) 1 = Some 1.
Proof. vm_compute. repeat split; reflexivity. Qed.

Print Assumptions C01_election_safety.
Print Assumptions C01_log_matching.
Print Assumptions C01_logs_well_formed.
