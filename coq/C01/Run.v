(* C01/Run.v -- executable entry points: schedule replay against the model and the four safety
   oracles evaluated on the IMPLEMENTATION's observations. Depends on Model + Gen only. *)
From NV.Common Require Import Base.
From NV.C01 Require Import Model.
From NV.gen Require Import Gen_C01.
Open Scope N_scope.

Definition gen_rules : rules :=
  Rules gen_follower_ack gen_follower_commit gen_stale_ack_ignored gen_vote_log_ok gen_prev_ok gen_commit_pick gen_commit_term_ok
        gen_entries_need_prev gen_gap_refused gen_finalize_ok.

(* what the harness observes of one real node: term, voted_for, role code (0 F, 1 C, 2 L),
   commit_index, log image *)
Definition nobs := (N * option N * N * N * list entry)%type.
Definition role_code (r : role) : N := match r with Follower => 0 | Candidate => 1 | Leader => 2 end.
(* the implementation's log array is what is left after compaction: the model's log without its first `base` entries *)
Definition obs_of (nd : node) : nobs := (term nd, voted nd, role_code (rl nd), commit nd, skipn (N.to_nat (base nd)) (log nd)).

Definition log_eqb := list_eqb entry_eqb.
Definition nobs_eqb (a b : nobs) : bool :=
  let '(t, v, r, c, l) := a in let '(t', v', r', c', l') := b in
  N.eqb t t' && option_eqb N.eqb v v' && N.eqb r r' && N.eqb c c' && log_eqb l l'.

Definition msg_eqb (a b : msg) : bool :=
  match a, b with
  | RV t c i j, RV t' c' i' j' => N.eqb t t' && N.eqb c c' && N.eqb i i' && N.eqb j j'
  | RVR t g v, RVR t' g' v' => N.eqb t t' && Bool.eqb g g' && N.eqb v v'
  | PV t c i j, PV t' c' i' j' => N.eqb t t' && N.eqb c c' && N.eqb i i' && N.eqb j j'
  | PVR t g v, PVR t' g' v' => N.eqb t t' && Bool.eqb g g' && N.eqb v v'
  | AE t l pi pt es lc, AE t' l' pi' pt' es' lc' =>
      N.eqb t t' && N.eqb l l' && N.eqb pi pi' && N.eqb pt pt' && log_eqb es es' && N.eqb lc lc'
  | AER t s f m, AER t' s' f' m' => N.eqb t t' && Bool.eqb s s' && N.eqb f f' && N.eqb m m'
  | _, _ => false
  end.
Definition env_eqb (a b : N * N * msg) : bool :=
  let '(s, d, m) := a in let '(s', d', m') := b in N.eqb s s' && N.eqb d d' && msg_eqb m m'.

(* ---------------- safety oracles over implementation observations ---------------- *)
Fixpoint set_nth_obs (l : list nobs) (i : nat) (x : nobs) : list nobs :=
  match l, i with [], _ => [] | _ :: t, O => x :: t | h :: t, S k => h :: set_nth_obs t k x end.

(* election safety: no two different nodes are leader in one term *)
Definition election_ok (ls : list (N * N)) (t i : N) : bool :=
  forallb (fun tj => negb (N.eqb (fst tj) t) || N.eqb (snd tj) i) ls.

(* ---------------- index-aware oracles: log images that start after a compaction point ----------------
   A compacted node shows only the suffix of its log; entries carry their own index, so every clause is
   evaluated by index. *)
Fixpoint consecutive (l : list entry) : bool :=
  match l with
  | a :: ((b :: _) as r) => N.eqb (eidx b) (eidx a + 1) && consecutive r
  | _ => true
  end.
Definition first_idx (l : list entry) : N := match l with e :: _ => eidx e | [] => 0 end.
Definition entry_at (l : list entry) (k : N) : option entry := find (fun e => N.eqb (eidx e) k) l.

Definition log_match_ix (a b : list entry) : bool :=
  forallb (fun x =>
    match entry_at b (eidx x) with
    | Some y =>
        if N.eqb (eterm x) (eterm y)
        then forallb (fun x' => if N.leb (eidx x') (eidx x)
                                then match entry_at b (eidx x') with Some y' => entry_eqb x' y' | None => true end
                                else true) a
        else true
    | None => true
    end) a.

Record ghost_ix := GhI {
  seen_ix : list nobs;
  leaders_ix : list (N * N);
  cmap : list (N * (entry * N))      (* index -> entry first reported committed there, term of the reporter *)
}.

Fixpoint commit_merge_ix (mine : list entry) (c t : N) (m : list (N * (entry * N))) : option (list (N * (entry * N))) :=
  match mine with
  | [] => Some m
  | x :: r =>
      if N.leb (eidx x) c then
        match aget m (eidx x) with
        | Some (y, _) => if entry_eqb x y then commit_merge_ix r c t m else None
        | None => commit_merge_ix r c t (m ++ [(eidx x, (x, t))])
        end
      else commit_merge_ix r c t m
  end.

Definition leader_complete_ix (lg : list entry) (m : list (N * (entry * N))) (t : N) : bool :=
  forallb (fun kv => let '(k, (y, ty)) := kv in
                     if N.ltb ty t && N.leb (first_idx lg) k
                     then match entry_at lg k with Some x => entry_eqb x y | None => false end
                     else true) m.

(* leader append-only: a node seen as leader of term t and now again leader of term t still holds every entry
   it held (positions it has compacted away since are not visible any more and are skipped) *)
Definition leader_kept (old new : nobs) : bool :=
  let '(t0, _, r0, _, l0) := old in
  let '(t, _, r, _, l) := new in
  if N.eqb r0 2 && N.eqb r 2 && N.eqb t0 t then
    match l with
    | [] => match l0 with [] => true | _ => false end
    | _ => forallb (fun x => if N.leb (first_idx l) (eidx x)
                             then match entry_at l (eidx x) with Some y => entry_eqb x y | None => false end
                             else true) l0
    end
  else true.

Definition oracle_step_ix (g : ghost_ix) (i : N) (o : nobs) : option ghost_ix :=
  let '(t, v, r, c, l) := o in
  let seen' := set_nth_obs (seen_ix g) (N.to_nat i) o in
  let ls' := if N.eqb r 2 then (t, i) :: leaders_ix g else leaders_ix g in
  if negb (if N.eqb r 2 then election_ok (leaders_ix g) t i else true) then None
  else if negb (leader_kept (nth (N.to_nat i) (seen_ix g) (0, None, 0, 0, [])) o) then None   (* leader append-only *)
  else if negb (consecutive l) then None                                   (* position k+1 follows position k *)
  else if negb (match l with [] => N.eqb c 0 | _ => N.leb (first_idx l - 1) c && N.leb c (fst (last_info l)) end) then None
       (* only committed entries are ever compacted away; nothing beyond the log is reported committed *)
  else if negb (forallb (fun o' => let '(_, _, _, _, l') := o' in log_match_ix l l' && log_match_ix l' l) seen') then None
  else match commit_merge_ix l c t (cmap g) with
       | None => None
       | Some m =>
           if negb (if N.eqb r 2 then leader_complete_ix l m t else true) then None
           else Some (GhI seen' ls' m)
       end.

(* ---------------- schedule case ---------------- *)
(* per step: the observation of the touched node after the step and the envelopes the step
   added to the pool *)
Definition step_obs := (nobs * list (N * N * msg))%type.
Definition sched_case := (config * list gop * list step_obs)%type.


(* walk the schedule: verdict *)
Fixpoint walk (cfg : config) (s : sys) (g : ghost_ix) (ipool : list (N * N * msg))
              (ops : list gop) (os : list step_obs) (mismatch : bool) : N :=
  match ops, os with
  | [], [] => if mismatch then V_MISMATCH else V_OK
  | o :: ops', (ob, out) :: os' =>
      (* touched node according to the implementation's own pool *)
      let touched :=
        match o with
        | GElect i | GPreVote i | GRequestVotes i | GHeartbeat i | GRestart i | GCompact i => i
        | GPropose i _ _ | GTimeoutNow i _ | GFinalize i _ => i
        | GDeliver k _ => match nth_error ipool (N.to_nat k) with Some (_, dst, _) => dst | None => 0 end
        end in
      match oracle_step_ix g touched ob with
      | None => V_VIOLATION
      | Some g' =>
          let '(s', mi) := gstep cfg gen_rules s o in
          let added := skipn (length (pool s)) (pool s') in
          let agree := N.eqb mi touched && nobs_eqb (obs_of (nth_node (nodes s') mi)) ob
                       && list_eqb env_eqb added out in
          walk cfg s' g' (ipool ++ out) ops' os' (mismatch || negb agree)
      end
  | _, _ => 9
  end.

Definition check_sched (c : sched_case) : N :=
  let '(cfg, ops, os) := c in
  let s0 := init_sys cfg in
  walk cfg s0 (GhI (map obs_of (nodes s0)) [] []) [] ops os false.

(* a schedule with compaction steps: per step the touched node and its observation *)
Definition compact_case := (N * list (N * nobs))%type.
Fixpoint cwalk (g : ghost_ix) (os : list (N * nobs)) : N :=
  match os with
  | [] => V_OK
  | (i, ob) :: r => match oracle_step_ix g i ob with None => V_VIOLATION | Some g' => cwalk g' r end
  end.
Definition check_compact (c : compact_case) : N :=
  let '(n, os) := c in
  cwalk (GhI (map (fun _ => (0, None, 0, 0, [])) (N_seq n)) [] []) os.
