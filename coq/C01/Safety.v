(* C01/Safety.v -- STATE-MACHINE SAFETY for every run of the executable cluster model.
   A commit point (t, m) is a position m of the ledger of term t, holding an entry created in term t, that a
   quorum has acknowledged (Commit.QA).  The invariant SI says that every node's commit index, and every
   leader_commit an AppendEntries request carries, is covered by a commit point whose prefix the node's
   log (the leader's ledger) holds; and that every match_index entry of a leader is backed by a
   successful AppendEntriesResponse of the leader's own term in the pool.  Leader completeness
   (Commit.leader_completeness_inv) makes all commit points mutually consistent, which gives:
   two nodes never report different entries committed at the same position, at the same or at
   different moments of a run. *)
From NV.Common Require Import Base.
From NV.C01 Require Import Model LogList VoteSim LogMatch Commit Count.
From NV.C01 Require Vote.
From Coq Require Import Arith.
Open Scope N_scope.

Section Safety.
Variable cfg : config.
Variable ru : rules.
Let n : nat := N.to_nat (n_nodes cfg).
Let q : nat := N.to_nat (quorum cfg).
Hypothesis quorum_ok : (n < q + q)%nat.
Hypothesis quorum_le : (q <= n)%nat.
Hypothesis ack_ok : forall p ln len, follower_ack ru p ln len <= ln /\ follower_ack ru p ln len <= len.
(* the follower's commit index is monotone and stays within the verified prefix and the leader's commit *)
Hypothesis commit_ok : forall lc c p ln len, c < lc ->
  c <= follower_commit ru lc c p ln len /\ follower_commit ru lc c p ln len <= N.max c (N.min lc (N.min ln len)).
(* a response from an earlier term is dropped *)
Hypothesis stale_ok : stale_ack_ignored ru = true.
(* the follower's prev-entry test accepts only a matching term *)
Hypothesis prev_sound : forall xt pt, prev_ok ru xt pt = true -> xt = pt.
(* the leader sends entries only together with a prev entry that is still in its log *)
Hypothesis need_prev : entries_need_prev ru = true.
(* a vote is granted only to a candidate whose log is at least as up to date *)
Hypothesis vote_sound : forall lli llt mli mlt g, vote_log_ok ru lli llt mli mlt g = true ->
  N.ltb mlt llt || (N.eqb llt mlt && N.ltb mli lli) || (N.eqb llt mlt && N.eqb lli mli) = true.
(* the application may finalize only what the node has committed *)
Hypothesis fin_sound : forall h c len, finalize_ok ru h c len = true -> h <= c.
(* the leader picks a position of the ascending match list that at least a quorum of the values reach *)
Hypothesis pick_ok : forall len qn, commit_pick ru len qn <= len - qn.
(* ... and commits it only if the entry there is of its own term *)
Hypothesis cterm_sound : forall et cur, commit_term_ok ru et cur = true -> et = cur.

Notation nd_of s i := (nth_node (nodes s) i).
Notation Ld a w c := (In (N.to_nat w, N.to_nat c) (Vote.leaders a)).
Notation QA := (Commit.QA cfg).
Notation LCI := (Commit.LCI cfg).
Notation LMI := (LogMatch.LMI cfg).

Definition FIa (s : sys) (gl : ledger) (a : Vote.sys) : Prop :=
  R cfg s a /\ Vote.Inv n q a /\ Vote.Inv8 a /\ LMI s gl a /\ LCI s gl a.

(* index c (a commit index or a leader_commit), read against the list L, is covered by a commit point of a term <= T *)
Definition Cov (s : sys) (gl : ledger) (a : Vote.sys) (L : list entry) (c : nat) (T : N) : Prop :=
  c = 0%nat \/ exists t m, QA s gl a t m /\ own gl t m /\ (c <= m)%nat /\ t <= T /\ HasPrefix gl L t c.

Record SI (s : sys) (gl : ledger) (a : Vote.sys) : Prop := {
  s_commit : forall i, i < n_nodes cfg ->
     Cov s gl a (log (nd_of s i)) (N.to_nat (commit (nd_of s i))) (term (nd_of s i));
  s_ae : forall src dst t ldr pi pt es lc, In (src, dst, AE t ldr pi pt es lc) (pool s) ->
     Cov s gl a (gl t) (N.to_nat lc) t;
  s_match : forall i ls, i < n_nodes cfg -> rl (nd_of s i) = Leader -> lvs (nd_of s i) = Some ls ->
     map fst (match_index ls) = peers_of cfg i /\
     forall p mi, In (p, mi) (match_index ls) ->
       mi = 0 \/ exists fol, In (p, i, AER (term (nd_of s i)) true fol mi) (pool s);
  s_aer : forall v dst t b fol mi, In (v, dst, AER t b fol mi) (pool s) -> v <> dst;
  (* compaction only ever drops committed entries *)
  s_base : forall i, i < n_nodes cfg -> base (nd_of s i) <= commit (nd_of s i) /\ fin (nd_of s i) <= commit (nd_of s i);
  (* ... and never the whole log: the implementation's array (the log without its first `base` entries) is
     empty only when the log is *)
  s_arr : forall i, i < n_nodes cfg -> base (nd_of s i) < llen (log (nd_of s i)) \/ base (nd_of s i) = 0
}.

(* ---------------- monotonicity ---------------- *)
Lemma own_len gl t m : own gl t m -> (1 <= m <= length (gl t))%nat.
Proof. apply term_at_some_len. Qed.

Lemma own_ext gl gl' t m : gl_ext gl gl' -> own gl t m -> own gl' t m.
Proof.
  intros He Ho. pose proof (own_len _ _ _ Ho) as [_ Hl]. unfold own in *.
  rewrite <- (He t) in Ho. rewrite term_at_firstn in Ho by exact Hl. exact Ho.
Qed.

Lemma firstn_ext gl gl' t c : gl_ext gl gl' -> (c <= length (gl t))%nat -> firstn c (gl' t) = firstn c (gl t).
Proof.
  intros He Hc. replace (firstn c (gl t)) with (firstn c (firstn (length (gl t)) (gl' t))) by (rewrite He; reflexivity).
  rewrite firstn_firstn. f_equal. lia.
Qed.

Lemma acked_mono s gl a s' gl' a' v t m :
  (forall e, In e (pool s) -> In e (pool s')) -> incl (Vote.leaders a) (Vote.leaders a') -> gl_ext gl gl' ->
  Acked s gl a v t m -> Acked s' gl' a' v t m.
Proof.
  intros Hp Hl He [Ho H]. split; [eapply own_ext; eauto|].
  destruct H as [[dst [fol [mi [Hin Hm]]]]|H]; [left|right; apply Hl; exact H].
  exists dst, fol, mi. split; [apply Hp; exact Hin|exact Hm].
Qed.

Lemma qa_mono s gl a s' gl' a' t m :
  (forall e, In e (pool s) -> In e (pool s')) -> incl (Vote.leaders a) (Vote.leaders a') -> gl_ext gl gl' ->
  QA s gl a t m -> QA s' gl' a' t m.
Proof.
  intros Hp Hl He [Q [ND [LQ HQ]]]. exists Q. split; [exact ND|]. split; [exact LQ|].
  intros v Hv. destruct (HQ v Hv) as [A B]. split; [exact A|]. eapply acked_mono; eauto.
Qed.

Lemma cov_mono s gl a s' gl' a' L L' c T T' :
  (forall e, In e (pool s) -> In e (pool s')) -> incl (Vote.leaders a) (Vote.leaders a') -> gl_ext gl gl' ->
  firstn (length L) L' = L -> T <= T' ->
  Cov s gl a L c T -> Cov s' gl' a' L' c T'.
Proof.
  intros Hp Hl He HL HT [->|[t [m [Hq [Ho [Hc [Ht [Hpre Hlen]]]]]]]]; [left; reflexivity|right].
  exists t, m. split; [eapply qa_mono; eauto|]. split; [eapply own_ext; eauto|]. split; [exact Hc|]. split; [lia|].
  pose proof (own_len _ _ _ Ho) as [_ Hm].
  assert (HLL : (length L <= length L')%nat).
  { rewrite <- HL at 1. rewrite firstn_length. lia. }
  split; [|lia].
  rewrite (firstn_ext gl gl' t c He) by lia. rewrite <- Hpre.
  replace (firstn c L) with (firstn c (firstn (length L) L')) by (rewrite HL; reflexivity).
  rewrite firstn_firstn. f_equal. lia.
Qed.

Lemma cov_same s gl a L L' c T T' :
  firstn (length L) L' = L -> T <= T' -> Cov s gl a L c T -> Cov s gl a L' c T'.
Proof. intros. eapply cov_mono; eauto. - intros p Hp; exact Hp. - apply gl_ext_refl. Qed.

(* ---------------- all commit points are consistent ---------------- *)
Lemma cp_consistent s gl a t1 m1 t2 m2 c :
  FIa s gl a -> QA s gl a t1 m1 -> own gl t1 m1 -> QA s gl a t2 m2 -> own gl t2 m2 ->
  (c <= m1)%nat -> (c <= m2)%nat -> firstn c (gl t1) = firstn c (gl t2).
Proof.
  intros [HR [HI [H8 [HM HC]]]].
  assert (G : forall t1 m1 t2 m2, QA s gl a t1 m1 -> own gl t2 m2 -> t1 < t2 -> (c <= m1)%nat ->
            firstn c (gl t1) = firstn c (gl t2)).
  { intros u1 k1 u2 k2 Hq Ho Hlt Hc.
    assert (Hne : gl u2 <> []).
    { intros E. pose proof (own_len _ _ _ Ho) as [A B]. rewrite E in B. cbn in B. lia. }
    destruct (lm_G1 _ _ _ _ HM u2 Hne) as [j Hj].
    pose proof (leader_completeness_inv cfg ru quorum_ok ack_ok s gl a HC u1 k1 Hq u2 j Hj Hlt) as HP.
    unfold P in HP.
    replace (firstn c (gl u1)) with (firstn c (firstn k1 (gl u1))) by (rewrite firstn_firstn; f_equal; lia).
    replace (firstn c (gl u2)) with (firstn c (firstn k1 (gl u2))) by (rewrite firstn_firstn; f_equal; lia).
    rewrite HP. reflexivity. }
  intros Hq1 Ho1 Hq2 Ho2 Hc1 Hc2.
  destruct (N.lt_trichotomy t1 t2) as [Hlt|[->|Hgt]].
  - eapply G; eauto.
  - reflexivity.
  - symmetry. eapply G; eauto.
Qed.

(* two covered indices, read against two lists, agree on the common prefix *)
Lemma cov_agree s gl a L1 c1 T1 L2 c2 T2 k :
  FIa s gl a -> Cov s gl a L1 c1 T1 -> Cov s gl a L2 c2 T2 -> (k <= c1)%nat -> (k <= c2)%nat ->
  firstn k L1 = firstn k L2.
Proof.
  intros HF [->|[t1 [m1 [Hq1 [Ho1 [Hc1 [_ [Hp1 _]]]]]]]] H2 Hk1 Hk2.
  { assert (k = 0)%nat by lia. subst k. reflexivity. }
  destruct H2 as [->|[t2 [m2 [Hq2 [Ho2 [Hc2 [_ [Hp2 _]]]]]]]].
  { assert (k = 0)%nat by lia. subst k. reflexivity. }
  replace (firstn k L1) with (firstn k (firstn c1 L1)) by (rewrite firstn_firstn; f_equal; lia).
  replace (firstn k L2) with (firstn k (firstn c2 L2)) by (rewrite firstn_firstn; f_equal; lia).
  rewrite Hp1, Hp2, !firstn_firstn.
  replace (Nat.min k c1) with k by lia. replace (Nat.min k c2) with k by lia.
  eapply cp_consistent; eauto; lia.
Qed.

(* ---------------- compaction only drops what every acceptable leader holds ---------------- *)
Lemma comp_ok s gl a : FIa s gl a -> SI s gl a -> CompOK cfg s gl.
Proof.
  intros [HR [HI [H8 [HM HC]]]] HS src dst t ldr pi pt es lc Hin Hdst Hge.
  destruct (lm_M1 _ _ _ _ HM _ _ _ _ _ _ _ _ Hin) as [Hld _].
  destruct (s_base _ _ _ HS dst Hdst) as [Hb _].
  set (nd := nd_of s dst) in *.
  destruct (s_commit _ _ _ HS dst Hdst) as [E0|[t0 [m0 [Hq [Ho [Hc [Ht0 [Hpre Hlen]]]]]]]]; fold nd in E0 || fold nd in Hpre, Hlen, Ht0, Hc.
  - assert (base nd = 0) by lia. rewrite H. reflexivity.
  - assert (HP : firstn (N.to_nat (commit nd)) (gl t) = firstn (N.to_nat (commit nd)) (gl t0)).
    { destruct (N.eq_dec t0 t) as [->|Hne]; [reflexivity|].
      assert (Hlt : t0 < t) by lia.
      pose proof (leader_completeness_inv cfg ru quorum_ok ack_ok s gl a HC t0 m0 Hq t src Hld Hlt) as HP0. unfold P in HP0.
      replace (firstn (N.to_nat (commit nd)) (gl t)) with (firstn (N.to_nat (commit nd)) (firstn m0 (gl t)))
        by (rewrite firstn_firstn; f_equal; lia).
      rewrite HP0. rewrite firstn_firstn. f_equal. lia. }
    replace (firstn (N.to_nat (base nd)) (log nd)) with (firstn (N.to_nat (base nd)) (firstn (N.to_nat (commit nd)) (log nd)))
      by (rewrite firstn_firstn; f_equal; lia).
    rewrite Hpre, <- HP, firstn_firstn. f_equal. lia.
Qed.

(* ---------------- one node changes: what has to be shown ---------------- *)
Lemma nth_upd' s a i x out j : R cfg s a -> i < n_nodes cfg ->
  nd_of (upd_node s i x out) j = if N.eqb j i then x else nd_of s j.
Proof. apply (nth_upd cfg ru quorum_ok ack_ok). Qed.

Lemma si_upd s gl a gl' a' i x out :
  FIa s gl a -> SI s gl a -> i < n_nodes cfg ->
  incl (Vote.leaders a) (Vote.leaders a') -> gl_ext gl gl' ->
  Cov s gl a (log x) (N.to_nat (commit x)) (term x) ->
  (forall d t ldr pi pt es lc, In (d, AE t ldr pi pt es lc) out -> Cov s gl a (gl t) (N.to_nat lc) t) ->
  (forall ls, rl x = Leader -> lvs x = Some ls ->
     map fst (match_index ls) = peers_of cfg i /\
     forall p mi, In (p, mi) (match_index ls) -> mi = 0 \/ exists fol, In (p, i, AER (term x) true fol mi) (pool s)) ->
  (forall d t b fol mi, In (d, AER t b fol mi) out -> i <> d) ->
  base x <= commit x /\ fin x <= commit x ->
  (base x < llen (log x) \/ base x = 0) ->
  SI (upd_node s i x out) gl' a'.
Proof.
  intros [HR [HI [H8 [HM HC]]]] [S1 S2 S3 S4 S5 S6] Hi Hl He H1 H2 H3 H4 H5 H6.
  assert (Hp : forall e, In e (pool s) -> In e (pool (upd_node s i x out))).
  { intros e Hin. apply pool_upd. left. exact Hin. }
  constructor.
  - intros j Hj. rewrite (nth_upd' s a) by assumption. destruct (N.eqb_spec j i) as [->|Hne].
    + apply (cov_mono s gl a _ gl' a' (log x) (log x) _ (term x) (term x)); auto; [apply firstn_all|lia].
    + apply (cov_mono s gl a _ gl' a' (log (nd_of s j)) (log (nd_of s j)) _ (term (nd_of s j)) (term (nd_of s j))); auto;
        [apply firstn_all|lia].
  - intros src dst t ldr pi pt es lc Hin. apply pool_upd in Hin.
    destruct Hin as [Hin|[d [m0 [Ho E]]]].
    + apply (cov_mono s gl a _ gl' a' (gl t) (gl' t) _ t t); auto; [lia|eapply S2; eauto].
    + inversion E; subst. apply (cov_mono s gl a _ gl' a' (gl t) (gl' t) _ t t); auto; [lia|eapply H2; eauto].
  - intros j ls Hj. rewrite (nth_upd' s a) by assumption. destruct (N.eqb_spec j i) as [->|Hne].
    + intros Hr Hls. destruct (H3 ls Hr Hls) as [A B]. split; [exact A|].
      intros p mi Hin. destruct (B p mi Hin) as [->|[fol Hf]]; [left; reflexivity|right]. exists fol. apply Hp. exact Hf.
    + intros Hr Hls. destruct (S3 j ls Hj Hr Hls) as [A B]. split; [exact A|].
      intros p mi Hin. destruct (B p mi Hin) as [->|[fol Hf]]; [left; reflexivity|right]. exists fol. apply Hp. exact Hf.
  - intros v dst t b fol mi Hin. apply pool_upd in Hin.
    destruct Hin as [Hin|[d [m0 [Ho E]]]]; [eapply S4; eauto|].
    inversion E; subst. eapply H4; eauto.
  - intros j Hj. rewrite (nth_upd' s a) by assumption. destruct (N.eqb_spec j i) as [->|Hne]; [exact H5|apply S5; exact Hj].
  - intros j Hj. rewrite (nth_upd' s a) by assumption. destruct (N.eqb_spec j i) as [->|Hne]; [exact H6|apply S6; exact Hj].
Qed.

Lemma si_stay s gl a gl' a' :
  SI s gl a -> incl (Vote.leaders a) (Vote.leaders a') -> gl_ext gl gl' -> SI s gl' a'.
Proof.
  intros [S1 S2 S3 S4 S5 S6] Hl He. constructor; auto.
  - intros i Hi. apply (cov_mono s gl a s gl' a' (log (nd_of s i)) (log (nd_of s i)) _ (term (nd_of s i)) (term (nd_of s i))); auto;
      [apply firstn_all|lia].
  - intros src dst t ldr pi pt es lc Hin.
    apply (cov_mono s gl a s gl' a' (gl t) (gl' t) _ t t); auto; [lia|eapply S2; eauto].
Qed.

(* ---------------- shapes of the node changes, as far as commit / match_index go ---------------- *)
Definition K2 (nd x : node) : Prop :=
  (commit x = commit nd \/ commit x = 0) /\ firstn (length (log nd)) (log x) = log nd /\ term nd <= term x /\
  (rl x = Leader -> rl nd = Leader /\ term x = term nd /\
     forall ls', lvs x = Some ls' -> exists ls, lvs nd = Some ls /\ match_index ls' = match_index ls) /\
  ((base x = base nd /\ fin x = fin nd /\ commit x = commit nd) \/ (base x = 0 /\ fin x = 0)).

Lemma K2_refl nd : K2 nd nd.
Proof. unfold K2. repeat split; auto; try apply firstn_all; try lia. intros ls' Hls. exists ls'. auto. Qed.
(* same log, commit kept or reset, term not smaller, not a leader afterwards *)
Lemma K2_nl nd x : (commit x = commit nd \/ commit x = 0) -> log x = log nd -> term nd <= term x -> rl x <> Leader ->
  ((base x = base nd /\ fin x = fin nd /\ commit x = commit nd) \/ (base x = 0 /\ fin x = 0)) -> K2 nd x.
Proof. intros A B C D F. unfold K2. rewrite B. repeat split; auto; try apply firstn_all; contradiction. Qed.
(* same log, commit, term, role and leader state *)
Lemma K2_same nd x : commit x = commit nd -> log x = log nd -> term x = term nd -> rl x = rl nd -> lvs x = lvs nd ->
  base x = base nd -> fin x = fin nd -> K2 nd x.
Proof.
  intros A B C D E F G. unfold K2. rewrite B, C, D, E. repeat split; auto; try apply firstn_all; try lia.
  intros ls' Hls. exists ls'. auto.
Qed.

Lemma h_rv_K2 self nd t c lli llt ok : K2 nd (fst (h_rv ru self nd t c lli llt ok)).
Proof.
  unfold h_rv. destruct (N.ltb_spec (term nd) t) as [Hlt|Hge].
  - cbn [step_down set_term_vote term]. rewrite N.eqb_refl.
    destruct (last_info _) as [mli mlt]. match goal with |- context [if ?c then _ else _] => destruct c end;
      apply K2_nl; cbn; auto; try lia; discriminate.
  - destruct (N.eqb t (term nd)); [|apply K2_refl].
    destruct (last_info _) as [mli mlt]. match goal with |- context [if ?c then _ else _] => destruct c end;
      [apply K2_same; reflexivity|apply K2_refl].
Qed.

Lemma h_pvr_K2 self nd from t g : K2 nd (h_pvr cfg self nd from t g).
Proof.
  unfold h_pvr. destruct (in_prevote nd); cbn [negb]; [|apply K2_refl].
  destruct (N.ltb_spec (term nd) t).
  - apply K2_nl; cbn; auto; try lia; discriminate.
  - destruct (g && N.eqb t (term nd) && negb (memb from (prevotes nd))); [|apply K2_refl].
    destruct (N.leb (quorum cfg) (llen (prevotes nd ++ [from]))).
    + apply K2_nl; cbn; auto; try lia; discriminate.
    + apply K2_same; reflexivity.
Qed.

Lemma propose_K2 nd p ok : K2 nd (propose nd p ok).
Proof.
  unfold propose. destruct (rl nd) eqn:Er; try apply K2_refl. destruct ok; [|apply K2_refl].
  unfold K2. cbn. repeat split; auto; try lia.
  - rewrite firstn_app, Nat.sub_diag, firstn_all. cbn. apply app_nil_r.
  - intros ls' Hls. exists ls'. auto.
Qed.

(* handle_request_vote_response: either nothing that matters changes, or the candidate becomes leader *)
Lemma h_rvr_shape self nd from t g :
  let x := h_rvr cfg self nd from t g in
  K2 nd x \/ (exists y, x = become_leader cfg self y /\ log y = log nd /\ commit y = commit nd /\ term y = term nd /\
                        base y = base nd /\ fin y = fin nd).
Proof.
  unfold h_rvr. destruct (rl nd) eqn:Er; try (left; apply K2_refl).
  destruct (N.ltb_spec (term nd) t); [left; apply K2_nl; cbn; auto; try lia; discriminate|].
  destruct (g && N.eqb t (term nd) && negb (memb from (votes nd))); [|left; apply K2_refl].
  destruct (N.leb (quorum cfg) (llen (votes nd ++ [from]))).
  - right. eexists. split; [reflexivity|]. cbn. auto.
  - left. apply K2_nl; cbn; auto; try lia. discriminate.
Qed.

(* try_advance_commit_index *)
Lemma try_advance_shape y :
  let x := try_advance cfg ru y in
  log x = log y /\ term x = term y /\ rl x = rl y /\ lvs x = lvs y /\ base x = base y /\ fin x = fin y /\
  (commit x = commit y \/
   exists ls e, rl y = Leader /\ lvs y = Some ls /\ commit y < commit x /\
     commit x = (let ms := sort_asc (map snd (match_index ls) ++ [llen (log y)]) in
                 nth (N.to_nat (commit_pick ru (llen ms) (quorum cfg))) ms 0) /\
     nth_entry (log y) (commit x) = Some e /\ eterm e = term y).
Proof.
  unfold try_advance. destruct (rl y) eqn:Er; try (repeat split; auto; fail).
  destruct (lvs y) as [ls|] eqn:El; try (repeat split; auto; fail).
  match goal with |- context [if N.ltb ?c ?nc then _ else _] => destruct (N.ltb_spec c nc) as [Hlt|Hge] end;
    try (repeat split; auto; fail).
  match goal with |- context [match lookup ?b ?l ?nc with Some _ => _ | None => _ end] => destruct (lookup b l nc) as [e|] eqn:Ee end;
    try (repeat split; auto; fail).
  destruct (commit_term_ok ru (eterm e) (term y)) eqn:Et; try (repeat split; auto; fail).
  apply cterm_sound in Et.
  assert (Ee' : nth_entry (log y) (nth (N.to_nat (commit_pick ru (llen (sort_asc (map snd (match_index ls) ++ [llen (log y)]))) (quorum cfg)))
                                       (sort_asc (map snd (match_index ls) ++ [llen (log y)])) 0) = Some e).
  { unfold lookup in Ee. match type of Ee with (if ?c then _ else _) = _ => destruct c end; [discriminate|exact Ee]. }
  cbn [log term rl lvs commit base fin]. repeat split; auto. right. exists ls, e. repeat split; auto.
Qed.

(* handle_append_entries_response: nothing that matters changes, or a success in the leader's own term is recorded *)
Lemma h_aer_shape self nd from t succ mi :
  let x := h_aer cfg ru self nd from t succ mi in
  K2 nd x \/
  (exists ls, rl nd = Leader /\ t = term nd /\ succ = true /\ lvs nd = Some ls /\
     x = try_advance cfg ru (Node (term nd) (voted nd) (rl nd) (votes nd) (log nd) (commit nd) (in_prevote nd) (prevotes nd)
                            (Some (LV (aset (next_index ls) from (mi + 1)) (aset (match_index ls) from mi) (adel (backoff ls) from)))
                            (fin nd) (base nd))).
Proof.
  unfold h_aer. destruct (rl nd) eqn:Er; try (left; apply K2_refl).
  destruct (N.ltb_spec (term nd) t); [left; apply K2_nl; cbn; auto; try lia; discriminate|].
  rewrite stale_ok. cbn [andb]. destruct (N.ltb_spec t (term nd)); [left; apply K2_refl|].
  destruct (lvs nd) as [ls|] eqn:El; [|left; apply K2_refl].
  destruct succ.
  - right. exists ls. repeat split; auto. lia.
  - left. unfold K2. cbn. rewrite Er. repeat split; auto; try apply firstn_all; try lia.
    intros ls' Hls. injection Hls as <-. exists ls. cbn. auto.
Qed.

(* ---------------- frame ---------------- *)
Lemma si_frame s gl a gl' a' i x out :
  FIa s gl a -> SI s gl a -> i < n_nodes cfg ->
  incl (Vote.leaders a) (Vote.leaders a') -> gl_ext gl gl' ->
  K2 (nd_of s i) x ->
  (forall d t ldr pi pt es lc, ~ In (d, AE t ldr pi pt es lc) out) ->
  (forall d t b fol mi, In (d, AER t b fol mi) out -> i <> d) ->
  SI (upd_node s i x out) gl' a'.
Proof.
  intros HF HS Hi Hl He [Kc [Kl [Kt [Kr Kb]]]] Hnoae Haer.
  pose proof HS as [S1 S2 S3 S4 S5 S6].
  assert (HB : base x <= commit x /\ fin x <= commit x).
  { destruct (S5 i Hi) as [B1 B2]. destruct Kb as [[Eb [Ef Ec]]|[Eb Ef]]; rewrite Eb, Ef; [rewrite Ec; auto|split; lia]. }
  assert (HA : base x < llen (log x) \/ base x = 0).
  { destruct Kb as [[Eb _]|[Eb _]]; [|right; exact Eb]. rewrite Eb.
    assert (length (log (nd_of s i)) <= length (log x))%nat by (rewrite <- Kl at 1; rewrite firstn_length; lia).
    destruct (S6 i Hi) as [B|B]; [left; unfold llen in *; lia|right; exact B]. }
  apply (si_upd s gl a gl' a' i x out); auto.
  - destruct Kc as [Kc|Kc]; rewrite Kc; [|left; reflexivity].
    apply (cov_same s gl a (log (nd_of s i)) (log x) _ (term (nd_of s i)) (term x)); auto.
  - intros d t ldr pi pt es lc Hin. exfalso. eapply Hnoae; eauto.
  - intros ls' Hr Hls. destruct (Kr Hr) as [Kr1 [Kr2 Kr3]]. destruct (Kr3 ls' Hls) as [ls [El Em]].
    rewrite Em, Kr2. apply (S3 i ls Hi Kr1 El).
Qed.

(* ---------------- a candidate becomes leader ---------------- *)
Lemma si_leader s gl a gl' a' i y :
  FIa s gl a -> SI s gl a -> i < n_nodes cfg ->
  incl (Vote.leaders a) (Vote.leaders a') -> gl_ext gl gl' ->
  log y = log (nd_of s i) -> commit y = commit (nd_of s i) -> term y = term (nd_of s i) ->
  base y = base (nd_of s i) -> fin y = fin (nd_of s i) ->
  SI (upd_node s i (become_leader cfg i y) []) gl' a'.
Proof.
  intros HF HS Hi Hl He El Ec Et Eb Ef. pose proof HS as [S1 S2 S3 S4 S5 S6].
  assert (HB : base (become_leader cfg i y) <= commit (become_leader cfg i y) /\ fin (become_leader cfg i y) <= commit (become_leader cfg i y)).
  { unfold become_leader. cbn [base fin commit]. rewrite Eb, Ef, Ec. apply S5. exact Hi. }
  assert (HA : base (become_leader cfg i y) < llen (log (become_leader cfg i y)) \/ base (become_leader cfg i y) = 0).
  { unfold become_leader. cbn [base log]. rewrite Eb, El. apply S6. exact Hi. }
  apply (si_upd s gl a gl' a' i _ []); auto.
  all: try (intros ? ? ? ? ? ? ? []; fail).
  all: try (intros ? ? ? ? ? []; fail).
  - unfold become_leader. cbn [log commit term]. rewrite El, Ec, Et. apply S1. exact Hi.
  - intros ls Hr Hls. unfold become_leader in Hls. cbn [lvs] in Hls. injection Hls as <-. cbn [match_index]. split.
    + rewrite map_map. cbn [fst]. apply map_id.
    + intros p mi Hin. apply in_map_iff in Hin. destruct Hin as [p0 [E _]]. injection E as _ <-. left. reflexivity.
Qed.

(* ---------------- heartbeat: the leader_commit a request carries ---------------- *)
Lemma si_hb s gl a gl' a' i :
  FIa s gl a -> SI s gl a -> i < n_nodes cfg ->
  incl (Vote.leaders a) (Vote.leaders a') -> gl_ext gl gl' ->
  SI (upd_node s i (nd_of s i) (heartbeat_msgs cfg ru i (nd_of s i))) gl' a'.
Proof.
  intros HF HS Hi Hl He. pose proof HS as [S1 S2 S3 S4 S5 S6]. pose proof HF as [HR [HI [H8 [HM HC]]]].
  assert (Hhb : forall d m0, In (d, m0) (heartbeat_msgs cfg ru i (nd_of s i)) ->
            rl (nd_of s i) = Leader /\
            exists pi pt es, m0 = AE (term (nd_of s i)) i pi pt es (commit (nd_of s i))).
  { intros d m0 Hin. unfold heartbeat_msgs in Hin. destruct (rl (nd_of s i)) eqn:Er; try contradiction.
    apply in_map_iff in Hin. destruct Hin as [pp [E Hp]]. destruct (entries_for ru (nd_of s i) pp) as [[pi0 pt0] es0] eqn:Ee.
    injection E as <- <-. split; [reflexivity|]. eauto. }
  apply (si_upd s gl a gl' a' i _ _); auto.
  - intros d t ldr pi pt es lc Hin. destruct (Hhb _ _ Hin) as [Er [pi0 [pt0 [es0 E]]]].
    injection E as -> -> -> -> -> ->. rewrite <- (lm_L3 _ _ _ _ HM i Hi Er). apply S1. exact Hi.
  - intros d t b fol mi Hin. destruct (Hhb _ _ Hin) as [_ [? [? [? E]]]]. discriminate.
Qed.

(* ---------------- a follower appends, advances its commit index and acknowledges ---------------- *)
Lemma si_ae s gl a gl' a' i src t ldr pi pt es lc x mi :
  FIa s gl a -> SI s gl a -> i < n_nodes cfg ->
  incl (Vote.leaders a) (Vote.leaders a') -> gl_ext gl gl' ->
  In (src, i, AE t ldr pi pt es lc) (pool s) ->
  (pi = 0 \/ (pi <= llen (log (nd_of s i)) /\ (term_at (log (nd_of s i)) (N.to_nat pi) = Some pt \/ pi <= base (nd_of s i)))) ->
  rl x = Follower -> term x = t -> term (nd_of s i) <= t ->
  log x = append_entries (gap_refused ru) (base (nd_of s i)) es (log (nd_of s i)) ->
  base x = base (nd_of s i) -> fin x = fin (nd_of s i) ->
  commit x = (if N.ltb (commit (nd_of s i)) lc
              then follower_commit ru lc (commit (nd_of s i)) pi (last_new pi es) (llen (log x))
              else commit (nd_of s i)) ->
  SI (upd_node s i x [(src, AER t true i mi)]) gl' a'.
Proof.
  intros HF HS Hi Hl He Hin Hok Hrl Hterm Hge Hlog Hbx Hfx Hcom.
  pose proof HS as [S1 S2 S3 S4 S5 S6]. pose proof HF as [HR [HI [H8 [HM HC]]]].
  pose proof (comp_ok s gl a HF HS _ _ _ _ _ _ _ _ Hin Hi Hge) as Hcomp.
  destruct (lm_M1 _ _ _ _ HM _ _ _ _ _ _ _ _ Hin) as [Hld [Hseg [Hprev Hplen]]].
  pose proof (c_ae_src _ _ _ _ HC _ _ _ _ _ _ _ _ Hin) as Hsd.
  set (A := log (nd_of s i)) in *.
  assert (Hp : (N.to_nat pi <= length A)%nat).
  { destruct Hok as [->|[Hle _]]; [cbn; lia|unfold llen in Hle; lia]. }
  assert (Hag : firstn (N.to_nat pi) A = firstn (N.to_nat pi) (gl t)).
  { destruct Hok as [->|[_ [Ht|Hb]]]; [reflexivity| |].
    - destruct Hprev as [->|Ht']; [reflexivity|].
      eapply LM_agree; [apply (lm_L1 _ _ _ _ HM i)|apply (lm_L2 _ _ _ _ HM t)|exact Ht|exact Ht'].
    - replace (firstn (N.to_nat pi) A) with (firstn (N.to_nat pi) (firstn (N.to_nat (base (nd_of s i))) A))
        by (rewrite firstn_firstn; f_equal; lia).
      rewrite Hcomp, firstn_firstn. f_equal. lia. }
  destruct (append_entries_LM gl (gap_refused ru) (base (nd_of s i)) es A (N.to_nat pi) (gl t) (lm_wi_log _ _ _ _ HM i) (lm_wi_gl _ _ _ _ HM t)
              (lm_L1 _ _ _ _ HM i) (lm_L2 _ _ _ _ HM t) Hp Hag Hseg Hcomp) as [_ [_ [Fv [Lv _]]]].
  rewrite <- Hlog in Fv, Lv.
  destruct (last_new_seg cfg ru quorum_ok ack_ok (gl t) pi es (lm_wi_gl _ _ _ _ HM t) Hplen Hseg) as [Hsl Hln].
  (* the old commit index stays covered *)
  assert (Old : Cov s gl a (log x) (N.to_nat (commit (nd_of s i))) t).
  { destruct (S1 i Hi) as [E0|[t0 [m0 [Hq [Ho [Hc [Ht0 [Hpre Hlen]]]]]]]]; [left; exact E0|right].
    fold A in Hpre, Hlen.
    exists t0, m0. split; [exact Hq|]. split; [exact Ho|]. split; [exact Hc|]. split; [lia|].
    assert (HP : firstn (N.to_nat (commit (nd_of s i))) (gl t) = firstn (N.to_nat (commit (nd_of s i))) (gl t0)).
    { destruct (N.eq_dec t0 t) as [->|Hne]; [reflexivity|].
      assert (Hlt : t0 < t) by lia.
      pose proof (leader_completeness_inv cfg ru quorum_ok ack_ok s gl a HC t0 m0 Hq t src Hld Hlt) as HP0. unfold P in HP0.
      replace (firstn (N.to_nat (commit (nd_of s i))) (gl t))
        with (firstn (N.to_nat (commit (nd_of s i))) (firstn m0 (gl t))) by (rewrite firstn_firstn; f_equal; lia).
      rewrite HP0. rewrite firstn_firstn. f_equal. lia. }
    assert (Hpre' : firstn (N.to_nat (commit (nd_of s i))) A = firstn (N.to_nat (commit (nd_of s i))) (gl t))
      by (rewrite HP; exact Hpre).
    destruct (append_entries_keep gl (gap_refused ru) (base (nd_of s i)) es A (N.to_nat pi) (gl t) (N.to_nat (commit (nd_of s i))) (lm_wi_log _ _ _ _ HM i)
                (lm_wi_gl _ _ _ _ HM t) (lm_L1 _ _ _ _ HM i) (lm_L2 _ _ _ _ HM t) Hp Hag Hseg Hcomp Hlen Hpre') as [K1' K2'].
    rewrite <- Hlog in K1', K2'. split; [rewrite K2'; exact HP|exact K1']. }
  assert (HB : base x <= commit x /\ fin x <= commit x).
  { destruct (S5 i Hi) as [B1 B2]. rewrite Hbx, Hfx, Hcom.
    destruct (N.ltb_spec (commit (nd_of s i)) lc) as [Hlt|]; [|auto].
    destruct (commit_ok lc (commit (nd_of s i)) pi (last_new pi es) (llen (log x)) Hlt) as [C1 _]. split; lia. }
  assert (HA : base x < llen (log x) \/ base x = 0).
  { rewrite Hbx, Hlog. destruct (S6 i Hi) as [B|B]; [left; apply append_entries_len_base; exact B|right; exact B]. }
  apply (si_upd s gl a gl' a' i x _); auto.
  - rewrite Hterm, Hcom. destruct (N.ltb_spec (commit (nd_of s i)) lc) as [Hlt|Hge0]; [|exact Old].
    destruct (commit_ok lc (commit (nd_of s i)) pi (last_new pi es) (llen (log x)) Hlt) as [C1 C2].
    set (c' := follower_commit ru lc (commit (nd_of s i)) pi (last_new pi es) (llen (log x))) in *.
    destruct (N.eq_dec c' (commit (nd_of s i))) as [->|Hne]; [exact Old|].
    assert (C3 : c' <= lc /\ c' <= last_new pi es /\ c' <= llen (log x)) by lia.
    destruct C3 as [C3 [C4 C5]].
    destruct (S2 _ _ _ _ _ _ _ _ Hin) as [E0|[t0 [m0 [Hq [Ho [Hc [Ht0 [Hpre Hlen]]]]]]]]; [lia|right].
    exists t0, m0. split; [exact Hq|]. split; [exact Ho|]. split; [lia|]. split; [exact Ht0|].
    unfold llen in C5. split; [|lia].
    replace (firstn (N.to_nat c') (log x)) with (firstn (N.to_nat c') (firstn (N.to_nat pi + length es) (log x)))
      by (rewrite firstn_firstn; f_equal; lia).
    rewrite Fv. rewrite firstn_firstn. replace (Nat.min (N.to_nat c') (N.to_nat pi + length es)) with (N.to_nat c') by lia.
    replace (firstn (N.to_nat c') (gl t)) with (firstn (N.to_nat c') (firstn (N.to_nat lc) (gl t)))
      by (rewrite firstn_firstn; f_equal; lia).
    rewrite Hpre. rewrite firstn_firstn. f_equal. lia.
  - intros d t0 ldr0 pi0 pt0 es0 lc0 [E|[]]. discriminate.
  - intros ls Hr. rewrite Hrl in Hr. discriminate.
  - intros d t0 b fol mi0 [E|[]]. injection E as <- _ _ _ _. congruence.
Qed.

(* ---------------- the leader records a success and may advance its commit index ---------------- *)
Lemma si_aer s gl a gl' a' i src t fol mi ls :
  FIa s gl a -> SI s gl a -> i < n_nodes cfg ->
  incl (Vote.leaders a) (Vote.leaders a') -> gl_ext gl gl' ->
  In (src, i, AER t true fol mi) (pool s) ->
  rl (nd_of s i) = Leader -> t = term (nd_of s i) -> lvs (nd_of s i) = Some ls ->
  let nd := nd_of s i in
  let y := Node (term nd) (voted nd) (rl nd) (votes nd) (log nd) (commit nd) (in_prevote nd) (prevotes nd)
             (Some (LV (aset (next_index ls) src (mi + 1)) (aset (match_index ls) src mi) (adel (backoff ls) src)))
             (fin nd) (base nd) in
  SI (upd_node s i (try_advance cfg ru y) []) gl' a'.
Proof.
  intros HF HS Hi Hl He Hin Hr Ht Hls nd y.
  pose proof HS as [S1 S2 S3 S4 S5 S6]. pose proof HF as [HR [HI [H8 [HM HC]]]].
  destruct (S3 i ls Hi Hr Hls) as [Keys Back].
  destruct (R_ids _ _ _ HR _ _ _ Hin) as [Hsrc _].
  pose proof (S4 _ _ _ _ _ _ Hin) as Hne.
  set (L' := aset (match_index ls) src mi) in *.
  assert (Keys' : map fst L' = peers_of cfg i).
  { unfold L'. rewrite aset_keys; [exact Keys|]. rewrite Keys. apply peers_in. split; assumption. }
  assert (Back' : forall p m, In (p, m) L' -> m = 0 \/ exists fol0, In (p, i, AER (term nd) true fol0 m) (pool s)).
  { intros p m Hpm. apply aset_in in Hpm. destruct Hpm as [[-> ->]|Hpm].
    - right. exists fol. unfold nd. rewrite <- Ht. exact Hin.
    - apply (Back p m Hpm). }
  destruct (try_advance_shape y) as [Xl [Xt [Xr [Xv [Xb [Xf Xc]]]]]].
  cbn [y log term rl lvs commit base fin] in Xl, Xt, Xr, Xv, Xb, Xf.
  assert (HB : base (try_advance cfg ru y) <= commit (try_advance cfg ru y) /\ fin (try_advance cfg ru y) <= commit (try_advance cfg ru y)).
  { destruct (S5 i Hi) as [B1 B2]. fold nd in B1, B2. rewrite Xb, Xf.
    destruct Xc as [Xc|[ls0 [e0 [_ [_ [Hlt0 _]]]]]]; [rewrite Xc; cbn [y commit]; auto|cbn [y commit] in Hlt0; split; lia]. }
  assert (HA : base (try_advance cfg ru y) < llen (log (try_advance cfg ru y)) \/ base (try_advance cfg ru y) = 0).
  { rewrite Xb, Xl. cbn [y log]. apply S6. exact Hi. }
  apply (si_upd s gl a gl' a' i _ []); auto.
  all: try (intros ? ? ? ? ? ? ? []; fail).
  all: try (intros ? ? ? ? ? []; fail).
  - (* the commit index *)
    rewrite Xl, Xt. destruct Xc as [Xc|[ls0 [e [_ [Els [Hlt [Hnc [Hent Het]]]]]]]].
    + rewrite Xc. cbn [y commit]. apply S1. exact Hi.
    + cbn [y lvs log term commit] in Els, Hlt, Hnc, Hent, Het. injection Els as <-. cbn [match_index] in Hnc. fold L' in Hnc.
      set (nc := commit (try_advance cfg ru y)) in *.
      rewrite nth_entry_ent_at in Hent.
      pose proof (ent_at_some_len _ _ _ Hent) as [Hn1 Hn2].
      assert (Eg : log nd = gl (term nd)) by (apply (lm_L3 _ _ _ _ HM i Hi Hr)).
      assert (Hown : own gl (term nd) (N.to_nat nc)).
      { unfold own, term_at. rewrite <- Eg, Hent. cbn. f_equal. exact Het. }
      right. exists (term nd), (N.to_nat nc). split; [|split; [exact Hown|split; [lia|split; [lia|split; [rewrite Eg; reflexivity|exact Hn2]]]]].
      (* the quorum *)
      set (vals := map snd L' ++ [llen (log nd)]) in *.
      assert (Lv : llen vals = n_nodes cfg).
      { unfold vals, llen. rewrite app_length, map_length. cbn [length].
        rewrite <- (map_length fst L'), Keys'. pose proof (peers_len cfg i Hi). lia. }
      assert (Hq : (N.to_nat (quorum cfg) <= cge nc vals)%nat).
      { rewrite Hnc. apply quorum_reached.
        - fold q; fold n in quorum_ok; lia.
        - rewrite Lv. fold q n in quorum_le |- *. lia.
        - pose proof (pick_ok (llen (sort_asc vals)) (quorum cfg)) as Hpk.
          unfold llen in Hpk |- *. rewrite len_sort in Hpk at 2. exact Hpk. }
      unfold vals in Hq. rewrite cge_app in Hq.
      assert (Hself : cge nc [llen (log nd)] = 1%nat).
      { unfold cge. cbn [filter]. destruct (N.leb_spec nc (llen (log nd))); [reflexivity|unfold llen in *; lia]. }
      rewrite Hself, <- filter_keys_len in Hq.
      set (F := filter (fun pm => N.leb nc (snd pm)) L') in *.
      exists (N.to_nat i :: map N.to_nat (map fst F)). split; [|split].
      * constructor.
        -- intros Hi'. apply in_map_iff in Hi'. destruct Hi' as [p [Ep Hp']]. assert (p = i) by lia. subst p.
           apply in_map_iff in Hp'. destruct Hp' as [[p m] [Ep' Hpm]]. cbn in Ep'. subst p.
           apply filter_In in Hpm. destruct Hpm as [Hpm _].
           assert (Hk : In i (map fst L')) by (apply in_map_iff; exists (i, m); auto).
           rewrite Keys' in Hk. apply peers_in in Hk. destruct Hk as [_ Hk]. congruence.
        -- apply NoDup_map_to_nat. apply NoDup_filter_keys. rewrite Keys'. apply peers_nodup.
      * cbn [length]. rewrite !map_length. fold q. lia.
      * intros v [<-|Hv].
        -- split; [fold n; lia|]. rewrite N2Nat.id. split; [exact Hown|right].
           apply (leader_in_ghost cfg s a i HR HI Hi Hr).
        -- apply in_map_iff in Hv. destruct Hv as [p [<- Hp']].
           apply in_map_iff in Hp'. destruct Hp' as [[p0 m] [Ep' Hpm]]. cbn in Ep'. subst p0.
           apply filter_In in Hpm. destruct Hpm as [Hpm Hge]. cbn [snd] in Hge. apply N.leb_le in Hge.
           assert (Hk : In p (map fst L')) by (apply in_map_iff; exists (p, m); auto).
           rewrite Keys' in Hk. apply peers_in in Hk. destruct Hk as [Hpn _].
           split; [fold n; lia|]. rewrite N2Nat.id. split; [exact Hown|left].
           destruct (Back' p m Hpm) as [->|[fol0 Hf]]; [lia|].
           exists i, fol0, m. split; [exact Hf|lia].
  - (* match_index *)
    intros ls0 _ Hls0. rewrite Xv in Hls0. injection Hls0 as <-. cbn [match_index]. fold L'.
    split; [exact Keys'|]. rewrite Xt. exact Back'.
Qed.

(* ---------------- one global step ---------------- *)
Theorem si_step s gl a o gl' a' :
  FIa s gl a -> SI s gl a -> incl (Vote.leaders a) (Vote.leaders a') -> gl_ext gl gl' ->
  SI (fst (gstep cfg ru s o)) gl' a'.
Proof.
  intros HF HS Hl He.
  assert (Stay : SI s gl' a') by (eapply si_stay; eauto).
  pose proof HF as [HR [HI [H8 [HM HC]]]]. pose proof HS as [S1 S2 S3 S4 S5 S6].
  destruct o as [i|i|i|i|i p ok|k ok|i|i ok|i h|i]; cbn [gstep].
  - (* GElect *)
    unfold valid_id. destruct (N.ltb_spec i (n_nodes cfg)) as [Hi|]; cbn [fst]; [|exact Stay].
    apply (si_frame s gl a gl' a' i); auto.
    + apply K2_nl; cbn; auto; try lia; discriminate.
    + intros d t ldr pi pt es lc Hin. destruct (rv_msgs_ok cfg quorum_ok _ _ _ _ Hin) as [_ [? [? E]]]. discriminate.
    + intros d t b fol mi Hin. destruct (rv_msgs_ok cfg quorum_ok _ _ _ _ Hin) as [_ [? [? E]]]. discriminate.
  - (* GPreVote *)
    unfold valid_id. destruct (N.ltb_spec i (n_nodes cfg)) as [Hi|]; cbn [fst]; [|exact Stay].
    assert (Hpv : forall d m0, In (d, m0) (pv_msgs cfg i (start_pre_vote i (nd_of s i))) -> exists a1 b1 c1 d1, m0 = PV a1 b1 c1 d1).
    { intros d m0 Hin. unfold pv_msgs in Hin. destruct (last_info _) as [a1 b1].
      apply in_map_iff in Hin. destruct Hin as [pp [E _]]. injection E as <- <-. eauto. }
    apply (si_frame s gl a gl' a' i); auto.
    + apply K2_same; reflexivity.
    + intros d t ldr pi pt es lc Hin. destruct (Hpv _ _ Hin) as [? [? [? [? E]]]]. discriminate.
    + intros d t b fol mi Hin. destruct (Hpv _ _ Hin) as [? [? [? [? E]]]]. discriminate.
  - (* GRequestVotes *)
    unfold valid_id. destruct (N.ltb_spec i (n_nodes cfg)) as [Hi|]; cbn [fst]; [|exact Stay].
    destruct (rl (nd_of s i)) eqn:Er; try exact Stay.
    apply (si_frame s gl a gl' a' i); auto.
    + apply K2_refl.
    + intros d t ldr pi pt es lc Hin. destruct (rv_msgs_ok cfg quorum_ok _ _ _ _ Hin) as [_ [? [? E]]]. discriminate.
    + intros d t b fol mi Hin. destruct (rv_msgs_ok cfg quorum_ok _ _ _ _ Hin) as [_ [? [? E]]]. discriminate.
  - (* GHeartbeat *)
    unfold valid_id. destruct (N.ltb_spec i (n_nodes cfg)) as [Hi|]; cbn [fst]; [|exact Stay].
    apply (si_hb s gl a gl' a' i); auto.
  - (* GPropose *)
    unfold valid_id. destruct (N.ltb_spec i (n_nodes cfg)) as [Hi|]; cbn [fst]; [|exact Stay].
    apply (si_frame s gl a gl' a' i); auto.
    all: try (intros ? ? ? ? ? ? ? []; fail).
    all: try (intros ? ? ? ? ? ? []; fail).
    apply propose_K2.
  - (* GDeliver *)
    destruct (nth_error (pool s) (N.to_nat k)) as [[[src dst] m]|] eqn:Ek; cbn [fst]; [|exact Stay].
    pose proof (nth_error_In _ _ Ek) as Hin.
    destruct (R_ids _ _ _ HR _ _ _ Hin) as [Hsrc Hdst].
    unfold valid_id. destruct (N.ltb_spec dst (n_nodes cfg)) as [_|]; [|lia]. cbn [fst].
    destruct m as [t cand lli llt|t g voter|t cand lli llt|t g voter|t ldr pi pt es lc|t succ fol mi]; cbn [deliver] in *; cbv zeta in *.
    + (* RV *)
      destruct (h_rv ru dst (nd_of s dst) t cand lli llt ok) as [nd' r] eqn:Eh.
      destruct (h_rv_resp cfg ru quorum_ok ack_ok prev_sound need_prev vote_sound _ _ _ _ _ _ _ _ _ Eh) as [tt [g [Er _]]]. subst r.
      pose proof (h_rv_K2 dst (nd_of s dst) t cand lli llt ok) as HK. rewrite Eh in HK. cbn [fst] in HK.
      apply (si_frame s gl a gl' a' dst); auto.
      * intros d t0 ldr pi pt es lc [E|[]]. discriminate.
      * intros d t0 b fol mi [E|[]]. discriminate.
    + (* RVR *)
      destruct (h_rvr_shape dst (nd_of s dst) src t g) as [HK|[y [Ex [Yl [Yc [Yt [Yb Yf]]]]]]].
      * apply (si_frame s gl a gl' a' dst); auto.
        all: try (intros ? ? ? ? ? ? ? []; fail).
        all: try (intros ? ? ? ? ? ? []; fail).
      * rewrite Ex. apply (si_leader s gl a gl' a' dst y); auto.
    + (* PV *)
      unfold h_pv in *. destruct (last_info (log (nd_of s dst))) as [mli mlt].
      apply (si_frame s gl a gl' a' dst); auto.
      * apply K2_refl.
      * intros d t0 ldr pi pt es lc [E|[]]. discriminate.
      * intros d t0 b fol mi [E|[]]. discriminate.
    + (* PVR *)
      apply (si_frame s gl a gl' a' dst); auto.
      all: try (intros ? ? ? ? ? ? ? []; fail).
      all: try (intros ? ? ? ? ? ? []; fail).
      apply h_pvr_K2.
    + (* AE *)
      unfold h_ae in *.
      set (nd := nd_of s dst) in *.
      set (nd1 := if N.ltb (term nd) t then step_down nd t else nd) in *.
      assert (Hl1 : log nd1 = log nd) by (unfold nd1; destruct (N.ltb (term nd) t); reflexivity).
      assert (Hc1 : commit nd1 = commit nd) by (unfold nd1; destruct (N.ltb (term nd) t); reflexivity).
      assert (Hb1 : base nd1 = base nd) by (unfold nd1; destruct (N.ltb (term nd) t); reflexivity).
      assert (Hf1 : fin nd1 = fin nd) by (unfold nd1; destruct (N.ltb (term nd) t); reflexivity).
      assert (Ht1 : term nd <= term nd1) by (unfold nd1; destruct (N.ltb_spec (term nd) t); cbn; lia).
      pose proof (c_ae_src _ _ _ _ HC _ _ _ _ _ _ _ _ Hin) as Hsd.
      destruct (N.eqb_spec t (term nd1)) as [Et|Hne].
      * match goal with |- context [if (if N.eqb pi 0 then true else ?rest) then _ else _] =>
          destruct (if N.eqb pi 0 then true else rest) eqn:Elok end.
        -- rewrite <- Et in *.
           assert (Hok : pi = 0 \/ (pi <= llen (log (nd_of s dst)) /\
                           (term_at (log (nd_of s dst)) (N.to_nat pi) = Some pt \/ pi <= base (nd_of s dst)))).
           { rewrite Hl1, Hb1 in Elok. unfold nd in *. destruct (N.eqb_spec pi 0) as [->|Hpi]; [left; reflexivity|right].
             destruct (N.leb_spec pi (llen (log (nd_of s dst)))) as [Hle|]; [|discriminate]. split; [exact Hle|].
             unfold lookup in Elok. destruct (N.leb_spec pi (base (nd_of s dst))) as [Hcb|Hncb]; [right; exact Hcb|left].
             rewrite nth_entry_ent_at in Elok. unfold term_at.
             destruct (ent_at (log (nd_of s dst)) (N.to_nat pi)) as [x0|] eqn:Ex.
             - apply prev_sound in Elok. cbn. congruence.
             - exfalso. unfold ent_at in Ex. destruct (N.to_nat pi) as [|kk] eqn:Ekk; [lia|].
               apply nth_error_None in Ex. unfold llen in Hle. lia. }
           destruct (lm_M1 _ _ _ _ HM _ _ _ _ _ _ _ _ Hin) as [_ [Hseg0 [_ Hplen0]]].
           assert (Hsucc : append_ok (gap_refused ru) (base nd1) es (log nd1) = true).
           { rewrite Hl1. apply (append_ok_seg (gap_refused ru) (base nd1) es (log nd) (N.to_nat pi) (gl t)); [apply (lm_wi_gl _ _ _ _ HM)| |exact Hseg0].
             unfold nd in *. destruct Hok as [->|[Hle _]]; [cbn; lia|unfold llen in Hle; lia]. }
           rewrite Hsucc.
           eapply (si_ae s gl a gl' a' dst src t ldr pi pt es lc _ _); eauto.
           all: try (cbn [log commit base fin]; rewrite ?Hl1, ?Hc1, ?Hb1, ?Hf1; reflexivity).
           all: try (unfold nd in *; exact Ht1).
        -- apply (si_frame s gl a gl' a' dst); auto.
           ++ apply K2_nl; cbn; auto; try discriminate.
           ++ intros d t0 ldr0 pi0 pt0 es0 lc0 [E|[]]. discriminate.
           ++ intros d t0 b fol mi [E|[]]. injection E as <- _ _ _ _. congruence.
      * apply (si_frame s gl a gl' a' dst); auto.
        -- unfold nd1 in *. destruct (N.ltb_spec (term nd) t); [cbn in Hne; congruence|apply K2_refl].
        -- intros d t0 ldr0 pi0 pt0 es0 lc0 [E|[]]. discriminate.
        -- intros d t0 b fol mi [E|[]]. injection E as <- _ _ _ _. congruence.
    + (* AER *)
      destruct (h_aer_shape dst (nd_of s dst) src t succ mi) as [HK|[ls [Er [Et [Es [Els Ex]]]]]].
      * apply (si_frame s gl a gl' a' dst); auto.
        all: try (intros ? ? ? ? ? ? ? []; fail).
        all: try (intros ? ? ? ? ? ? []; fail).
      * rewrite Ex. subst succ. apply (si_aer s gl a gl' a' dst src t fol mi ls); auto.
  - (* GRestart *)
    unfold valid_id. destruct (N.ltb_spec i (n_nodes cfg)) as [Hi|]; cbn [fst]; [|exact Stay].
    apply (si_frame s gl a gl' a' i); auto.
    all: try (intros ? ? ? ? ? ? ? []; fail).
    all: try (intros ? ? ? ? ? ? []; fail).
    apply K2_nl; cbn; auto; try lia; discriminate.
  - (* GTimeoutNow *)
    unfold valid_id. destruct (N.ltb_spec i (n_nodes cfg)) as [Hi|]; cbn [fst]; [|exact Stay].
    destruct ok; cbn [fst]; [|exact Stay].
    apply (si_frame s gl a gl' a' i); auto.
    all: try (intros ? ? ? ? ? ? ? []; fail).
    all: try (intros ? ? ? ? ? ? []; fail).
    apply K2_nl; cbn; auto; try lia; discriminate.
  - (* GFinalize *)
    unfold valid_id. destruct (N.ltb_spec i (n_nodes cfg)) as [Hi|]; cbn [fst]; [|exact Stay].
    unfold finalize. destruct (finalize_ok ru h (commit (nd_of s i)) (llen (log (nd_of s i)))) eqn:Hfo; [apply fin_sound in Hfo; rename Hfo into Hh|].
    2:{ apply (si_frame s gl a gl' a' i); auto.
        all: try (intros ? ? ? ? ? ? ? []; fail).
        all: try (intros ? ? ? ? ? ? []; fail).
        apply K2_refl. }
    apply (si_upd s gl a gl' a' i _ []); auto; cbn [log commit term rl lvs base fin].
    all: try (intros ? ? ? ? ? ? ? []; fail).
    all: try (intros ? ? ? ? ? []; fail).
    + apply S1. exact Hi.
    + intros ls Hr Hls. apply (S3 i ls Hi Hr Hls).
    + destruct (S5 i Hi) as [B1 B2]. split; [exact B1|exact Hh].
    + apply S6. exact Hi.
  - (* GCompact *)
    unfold valid_id. destruct (N.ltb_spec i (n_nodes cfg)) as [Hi|]; cbn [fst]; [|exact Stay].
    unfold compact. match goal with |- context [if ?c then _ else _] => destruct c eqn:Ec end.
    2:{ apply (si_frame s gl a gl' a' i); auto.
        all: try (intros ? ? ? ? ? ? ? []; fail).
        all: try (intros ? ? ? ? ? ? []; fail).
        apply K2_refl. }
    apply (si_upd s gl a gl' a' i _ []); auto; cbn [log commit term rl lvs base fin].
    all: try (intros ? ? ? ? ? ? ? []; fail).
    all: try (intros ? ? ? ? ? []; fail).
    + apply S1. exact Hi.
    + intros ls Hr Hls. apply (S3 i ls Hi Hr Hls).
    + destruct (S5 i Hi) as [B1 B2]. split; [lia|exact B2].
    + left. rewrite !andb_true_iff in Ec. destruct Ec as [_ Ec]. apply N.ltb_lt. exact Ec.
Qed.

(* ---------------- monotonicity: terms never decrease; commit indexes only a crash resets ---------------- *)
Definition K3 (nd x : node) : Prop := term nd <= term x /\ commit nd <= commit x.

Lemma K3_refl nd : K3 nd nd. Proof. split; lia. Qed.

Lemma h_rv_K3 self nd t c lli llt ok : K3 nd (fst (h_rv ru self nd t c lli llt ok)).
Proof.
  unfold h_rv, K3. destruct (N.ltb_spec (term nd) t) as [Hlt|Hge].
  - cbn [step_down set_term_vote term]. rewrite N.eqb_refl.
    destruct (last_info _) as [mli mlt]. match goal with |- context [if ?c then _ else _] => destruct c end; cbn; lia.
  - destruct (N.eqb t (term nd)); [|cbn; lia].
    destruct (last_info _) as [mli mlt]. match goal with |- context [if ?c then _ else _] => destruct c end; cbn; lia.
Qed.
Lemma h_rvr_K3 self nd from t g : K3 nd (h_rvr cfg self nd from t g).
Proof.
  unfold h_rvr, K3. destruct (rl nd); try lia.
  destruct (N.ltb_spec (term nd) t); [cbn; lia|].
  destruct (g && N.eqb t (term nd) && negb (memb from (votes nd))); [|lia].
  destruct (N.leb (quorum cfg) (llen (votes nd ++ [from]))); cbn; lia.
Qed.
Lemma h_pvr_K3 self nd from t g : K3 nd (h_pvr cfg self nd from t g).
Proof.
  unfold h_pvr, K3. destruct (in_prevote nd); cbn [negb]; [|lia].
  destruct (N.ltb_spec (term nd) t); [cbn; lia|].
  destruct (g && N.eqb t (term nd) && negb (memb from (prevotes nd))); [|lia].
  destruct (N.leb (quorum cfg) (llen (prevotes nd ++ [from]))); cbn; lia.
Qed.
Lemma try_advance_K3 y : K3 y (try_advance cfg ru y).
Proof.
  destruct (try_advance_shape y) as [_ [Xt [_ [_ [_ [_ Xc]]]]]]. unfold K3. rewrite Xt. split; [lia|].
  destruct Xc as [->|[ls [e [_ [_ [Hlt _]]]]]]; lia.
Qed.
Lemma h_aer_K3 self nd from t succ mi : K3 nd (h_aer cfg ru self nd from t succ mi).
Proof.
  unfold h_aer. destruct (rl nd) eqn:Er; try apply K3_refl.
  destruct (N.ltb_spec (term nd) t); [unfold K3; cbn; lia|].
  destruct (stale_ack_ignored ru && N.ltb t (term nd)); [apply K3_refl|].
  destruct (lvs nd) as [ls|]; [|apply K3_refl].
  destruct succ; [|unfold K3; cbn; lia].
  match goal with |- K3 _ (try_advance _ _ ?y) => pose proof (try_advance_K3 y) as [A B] end.
  cbn [term commit] in A, B. split; assumption.
Qed.
Lemma h_ae_K3 self nd t ldr pi pt es lc : K3 nd (fst (h_ae ru self nd t ldr pi pt es lc)).
Proof.
  unfold h_ae, K3.
  set (nd1 := if N.ltb (term nd) t then step_down nd t else nd).
  assert (T1 : term nd <= term nd1) by (unfold nd1; destruct (N.ltb_spec (term nd) t); cbn; lia).
  assert (C1 : commit nd1 = commit nd) by (unfold nd1; destruct (N.ltb (term nd) t); reflexivity).
  destruct (N.eqb t (term nd1)); [|cbn [fst]; lia].
  match goal with |- context [if ?c then _ else _] => destruct c end; cbn [fst term commit]; [|lia].
  split; [lia|]. destruct (N.ltb_spec (commit nd1) lc) as [Hlt|]; [|lia].
  destruct (commit_ok lc (commit nd1) pi (last_new pi es) (llen (append_entries (gap_refused ru) (base nd1) es (log nd1))) Hlt) as [A _]. lia.
Qed.

Theorem mono_step : forall s a o i, R cfg s a -> i < n_nodes cfg ->
  let s' := fst (gstep cfg ru s o) in
  term (nd_of s i) <= term (nd_of s' i) /\ (commit (nd_of s i) <= commit (nd_of s' i) \/ o = GRestart i).
Proof.
  intros s a o i HR Hi s'. subst s'.
  assert (Stay : term (nd_of s i) <= term (nd_of s i) /\ (commit (nd_of s i) <= commit (nd_of s i) \/ o = GRestart i)) by (split; [lia|left; lia]).
  assert (U : forall j x out, j < n_nodes cfg -> K3 (nd_of s j) x ->
            term (nd_of s i) <= term (nd_of (upd_node s j x out) i) /\
            (commit (nd_of s i) <= commit (nd_of (upd_node s j x out) i) \/ o = GRestart i)).
  { intros j x out Hj [A B]. rewrite (nth_upd' s a) by assumption. destruct (N.eqb_spec i j) as [->|]; [split; [exact A|left; exact B]|exact Stay]. }
  destruct o as [j|j|j|j|j p ok|k ok|j|j ok|j h|j]; cbn [gstep]; unfold valid_id.
  - destruct (N.ltb_spec j (n_nodes cfg)); cbn [fst]; [|exact Stay]. apply U; auto. unfold K3, start_election; cbn; lia.
  - destruct (N.ltb_spec j (n_nodes cfg)); cbn [fst]; [|exact Stay]. apply U; auto. unfold K3, start_pre_vote; cbn; lia.
  - destruct (N.ltb_spec j (n_nodes cfg)); cbn [fst]; [|exact Stay]. destruct (rl (nd_of s j)); try exact Stay. apply U; auto. apply K3_refl.
  - destruct (N.ltb_spec j (n_nodes cfg)); cbn [fst]; [|exact Stay]. apply U; auto. apply K3_refl.
  - destruct (N.ltb_spec j (n_nodes cfg)); cbn [fst]; [|exact Stay]. apply U; auto.
    unfold propose, K3. destruct (rl (nd_of s j)); try lia. destruct ok; cbn; lia.
  - destruct (nth_error (pool s) (N.to_nat k)) as [[[src dst] m]|] eqn:Ek; cbn [fst]; [|exact Stay].
    destruct (R_ids _ _ _ HR _ _ _ (nth_error_In _ _ Ek)) as [_ Hdst].
    destruct (N.ltb_spec dst (n_nodes cfg)); cbn [fst]; [|exact Stay].
    destruct m; cbn [deliver]; cbv zeta.
    + pose proof (h_rv_K3 dst (nd_of s dst) t cand lli llt ok) as HK. destruct (h_rv _ _ _ _ _ _ _ _) as [nd' r]. apply U; auto.
    + apply U; auto. apply h_rvr_K3.
    + unfold h_pv. destruct (last_info _). apply U; auto. apply K3_refl.
    + apply U; auto. apply h_pvr_K3.
    + pose proof (h_ae_K3 dst (nd_of s dst) t ldr prev_i prev_t es lc) as HK. destruct (h_ae _ _ _ _ _ _ _ _ _) as [nd' r]. apply U; auto.
    + apply U; auto. apply h_aer_K3.
  - (* GRestart *)
    destruct (N.ltb_spec j (n_nodes cfg)); cbn [fst]; [|exact Stay].
    rewrite (nth_upd' s a) by assumption. destruct (N.eqb_spec i j) as [->|]; [|exact Stay].
    split; [cbn; lia|right; reflexivity].
  - destruct (N.ltb_spec j (n_nodes cfg)); cbn [fst]; [|exact Stay]. destruct ok; [|exact Stay]. apply U; auto. unfold K3, start_election; cbn; lia.
  - destruct (N.ltb_spec j (n_nodes cfg)); cbn [fst]; [|exact Stay]. apply U; auto.
    unfold finalize, K3. match goal with |- context [if ?c then _ else _] => destruct c end; cbn; lia.
  - destruct (N.ltb_spec j (n_nodes cfg)); cbn [fst]; [|exact Stay]. apply U; auto.
    unfold compact, K3. match goal with |- context [if ?c then _ else _] => destruct c end; cbn; lia.
Qed.

(* ---------------- runs ---------------- *)
Definition SFI (s : sys) (gl : ledger) (a : Vote.sys) : Prop := FIa s gl a /\ SI s gl a.

Lemma pool_step s o e : In e (pool s) -> In e (pool (fst (gstep cfg ru s o))).
Proof.
  intros H. assert (U : forall i x out, In e (pool (upd_node s i x out))) by (intros; apply pool_upd; left; exact H).
  destruct o as [i|i|i|i|i p ok|k ok|i|i ok|i h|i]; cbn [gstep]; unfold valid_id;
    try (destruct (N.ltb i (n_nodes cfg)); cbn [fst]; auto; fail);
    try (destruct (N.ltb i (n_nodes cfg)); cbn [fst]; auto; destruct ok; cbn [fst]; auto; fail).
  - destruct (N.ltb i (n_nodes cfg)); cbn [fst]; auto. destruct (rl (nd_of s i)); auto.
  - destruct (nth_error (pool s) (N.to_nat k)) as [[[src dst] m]|]; cbn [fst]; auto.
    destruct (N.ltb dst (n_nodes cfg)); cbn [fst]; auto.
    destruct m; cbn [deliver]; cbv zeta; auto.
    + destruct (h_rv _ _ _ _ _ _ _ _); auto.
    + destruct (h_pv _ _ _ _ _ _ _); auto.
    + destruct (h_ae _ _ _ _ _ _ _ _ _); auto.
Qed.

Lemma sfi_step s gl a o : SFI s gl a ->
  exists gl' a', SFI (fst (gstep cfg ru s o)) gl' a' /\ gl_ext gl gl' /\ incl (Vote.leaders a) (Vote.leaders a').
Proof.
  intros [HF HS]. pose proof HF as [HR [HI [H8 [HM HC]]]].
  assert (HB : FIB cfg (Vote.leaders a) s gl).
  { exists a. split; [exact HR|]. split; [exact HI|]. split; [exact H8|]. split; [exact HM|]. split; [exact HC|apply incl_refl]. }
  destruct (fi_step cfg ru quorum_ok ack_ok prev_sound need_prev vote_sound (Vote.leaders a) s gl o HB (comp_ok s gl a HF HS)) as [gl' [[a' [HR' [HI' [H8' [HM' [HC' Hl]]]]]] He]].
  exists gl', a'. split; [split|split]; auto.
  - split; [exact HR'|]. split; [exact HI'|]. split; [exact H8'|]. split; [exact HM'|exact HC'].
  - eapply si_step; eauto.
Qed.

Lemma sfi_run_from : forall ops s gl a, SFI s gl a ->
  exists gl' a', SFI (run_from cfg ru s ops) gl' a' /\ gl_ext gl gl' /\ incl (Vote.leaders a) (Vote.leaders a') /\
    (forall e, In e (pool s) -> In e (pool (run_from cfg ru s ops))).
Proof.
  induction ops as [|o ops IH]; intros s gl a H.
  - exists gl, a. split; [exact H|]. split; [apply gl_ext_refl|]. split; [apply incl_refl|]. intros e He. exact He.
  - destruct (sfi_step s gl a o H) as [gl1 [a1 [H1 [E1 L1]]]].
    destruct (IH _ _ _ H1) as [gl2 [a2 [H2 [E2 [L2 P2]]]]].
    exists gl2, a2. split; [exact H2|]. split; [eapply gl_ext_trans; eauto|]. split; [eapply incl_tran; eauto|].
    intros e He. apply P2. apply pool_step. exact He.
Qed.

Lemma SI_init a : SI (init_sys cfg) (fun _ => []) a.
Proof.
  constructor.
  - intros i Hi. rewrite (init_node_of cfg). left. reflexivity.
  - intros ? ? ? ? ? ? ? ? [].
  - intros i ls Hi Hr. rewrite (init_node_of cfg) in Hr. discriminate.
  - intros ? ? ? ? ? ? [].
  - intros i Hi. rewrite (init_node_of cfg). cbn. split; lia.
  - intros i Hi. rewrite (init_node_of cfg). right. reflexivity.
Qed.

Lemma sfi_init : exists a, SFI (init_sys cfg) (fun _ => []) a.
Proof.
  destruct (FI_init cfg ru quorum_ok ack_ok prev_sound need_prev vote_sound) as [a [HR [HI [H8 [HM [HC _]]]]]].
  exists a. split; [|apply SI_init]. split; [exact HR|]. split; [exact HI|]. split; [exact H8|]. split; [exact HM|exact HC].
Qed.

(* STATE-MACHINE SAFETY.  After any schedule ops1, and after any continuation ops2 of it: whatever node i
   reported as committed up to position k after ops1 is exactly what node j holds, and reports, up to
   position k after ops1 ++ ops2.  (ops2 = [] gives agreement of two nodes in one state; i = j gives
   "a committed entry is never lost or replaced".) *)
Theorem state_machine_safety : forall ops1 ops2 i j k,
  let s1 := grun cfg ru ops1 in
  let s2 := grun cfg ru (ops1 ++ ops2) in
  i < n_nodes cfg -> j < n_nodes cfg ->
  (k <= N.to_nat (commit (nd_of s1 i)))%nat -> (k <= N.to_nat (commit (nd_of s2 j)))%nat ->
  firstn k (log (nd_of s1 i)) = firstn k (log (nd_of s2 j)) /\ (k <= length (log (nd_of s1 i)))%nat.
Proof.
  intros ops1 ops2 i j k s1 s2 Hi Hj Hk1 Hk2.
  destruct sfi_init as [a0 H0].
  destruct (sfi_run_from ops1 _ _ _ H0) as [gl1 [a1 [[HF1 HS1] _]]].
  destruct (sfi_run_from ops2 _ _ _ (conj HF1 HS1)) as [gl2 [a2 [[HF2 HS2] [E2 [L2 P2]]]]].
  assert (Es2 : run_from cfg ru (run_from cfg ru (init_sys cfg) ops1) ops2 = s2)
    by (unfold s2; rewrite (grun_run_from cfg ru), (run_from_app cfg ru); reflexivity).
  assert (Es1 : run_from cfg ru (init_sys cfg) ops1 = s1) by reflexivity.
  rewrite Es2 in *. rewrite Es1 in *.
  pose proof (s_commit _ _ _ HS1 i Hi) as C1. pose proof (s_commit _ _ _ HS2 j Hj) as C2.
  assert (C1' : Cov s2 gl2 a2 (log (nd_of s1 i)) (N.to_nat (commit (nd_of s1 i))) (term (nd_of s1 i))).
  { apply (cov_mono s1 gl1 a1 s2 gl2 a2 (log (nd_of s1 i)) (log (nd_of s1 i)) _ (term (nd_of s1 i)) (term (nd_of s1 i))); auto;
      [apply firstn_all|lia]. }
  split; [eapply (cov_agree s2 gl2 a2); eauto|].
  destruct C1 as [E|[t [m [_ [_ [_ [_ [_ Hlen]]]]]]]]; lia.
Qed.

(* LEADER COMPLETENESS for committed entries: whatever node i reported as committed up to position k after
   ops1, every node that is leader after ops1 ++ ops2 in a term not below i's term holds in its log. *)
Theorem leader_holds_committed : forall ops1 ops2 i c k,
  let s1 := grun cfg ru ops1 in
  let s2 := grun cfg ru (ops1 ++ ops2) in
  i < n_nodes cfg -> c < n_nodes cfg ->
  (k <= N.to_nat (commit (nd_of s1 i)))%nat ->
  rl (nd_of s2 c) = Leader -> term (nd_of s1 i) <= term (nd_of s2 c) ->
  firstn k (log (nd_of s2 c)) = firstn k (log (nd_of s1 i)) /\ (k <= length (log (nd_of s2 c)))%nat.
Proof.
  intros ops1 ops2 i c k s1 s2 Hi Hc Hk Hr Ht.
  destruct sfi_init as [a0 H0].
  destruct (sfi_run_from ops1 _ _ _ H0) as [gl1 [a1 [[HF1 HS1] _]]].
  destruct (sfi_run_from ops2 _ _ _ (conj HF1 HS1)) as [gl2 [a2 [[HF2 HS2] [E2 [L2 P2]]]]].
  assert (Es2 : run_from cfg ru (run_from cfg ru (init_sys cfg) ops1) ops2 = s2)
    by (unfold s2; rewrite (grun_run_from cfg ru), (run_from_app cfg ru); reflexivity).
  assert (Es1 : run_from cfg ru (init_sys cfg) ops1 = s1) by reflexivity.
  rewrite Es2 in *. rewrite Es1 in *.
  pose proof (s_commit _ _ _ HS1 i Hi) as C1.
  assert (C1' : Cov s2 gl2 a2 (log (nd_of s1 i)) (N.to_nat (commit (nd_of s1 i))) (term (nd_of s1 i))).
  { apply (cov_mono s1 gl1 a1 s2 gl2 a2 (log (nd_of s1 i)) (log (nd_of s1 i)) _ (term (nd_of s1 i)) (term (nd_of s1 i))); auto;
      [apply firstn_all|lia]. }
  destruct C1' as [E|[t [m [Hq [Ho [Hcm [Htt [Hpre Hlen]]]]]]]].
  { assert (k = 0)%nat by lia. subst k. split; [reflexivity|lia]. }
  pose proof HF2 as [HR [HI [H8 [HM HC]]]].
  pose proof (leader_in_ghost cfg s2 a2 c HR HI Hc Hr) as Hld.
  pose proof (lm_L3 _ _ _ _ HM c Hc Hr) as Eg.
  pose proof (own_len _ _ _ Ho) as [_ Hm].
  assert (HP : firstn m (gl2 (term (nd_of s2 c))) = firstn m (gl2 t)).
  { destruct (N.eq_dec t (term (nd_of s2 c))) as [->|Hne]; [reflexivity|].
    apply (leader_completeness_inv cfg ru quorum_ok ack_ok s2 gl2 a2 HC t m Hq _ c Hld). lia. }
  rewrite Eg. split.
  - replace (firstn k (log (nd_of s1 i))) with (firstn k (firstn (N.to_nat (commit (nd_of s1 i))) (log (nd_of s1 i))))
      by (rewrite firstn_firstn; f_equal; lia).
    rewrite Hpre, firstn_firstn.
    replace (firstn k (gl2 (term (nd_of s2 c)))) with (firstn k (firstn m (gl2 (term (nd_of s2 c)))))
      by (rewrite firstn_firstn; f_equal; lia).
    rewrite HP, firstn_firstn. f_equal. lia.
  - assert (length (firstn m (gl2 (term (nd_of s2 c)))) = length (firstn m (gl2 t))) by (rewrite HP; reflexivity).
    rewrite !firstn_length in H. lia.
Qed.

(* ---------------- the invariants of every reachable state, and what follows from them ---------------- *)
Lemma sfi_run : forall ops, exists gl a, SFI (grun cfg ru ops) gl a.
Proof.
  intros ops. destruct sfi_init as [a0 H0].
  destruct (sfi_run_from ops _ _ _ H0) as [gl [a [H _]]]. rewrite (grun_run_from cfg ru). eauto.
Qed.

(* LOG MATCHING for every reachable state (with compaction this needs the commit invariant: a follower that
   has compacted an entry no longer checks it against the leader's) *)
Theorem log_matching : forall ops i j k t,
  let s := grun cfg ru ops in
  term_at (log (nd_of s i)) k = Some t -> term_at (log (nd_of s j)) k = Some t ->
  firstn k (log (nd_of s i)) = firstn k (log (nd_of s j)).
Proof.
  intros ops i j k t s Hi Hj. destruct (sfi_run ops) as [gl [a [[_ [_ [_ [HM _]]]] _]]]. fold s in HM.
  eapply LM_agree; [apply (lm_L1 _ _ _ _ HM i)|apply (lm_L1 _ _ _ _ HM j)|exact Hi|exact Hj].
Qed.

Theorem logs_well_formed : forall ops i,
  let s := grun cfg ru ops in
  WI (log (nd_of s i)) /\ forall e, In e (log (nd_of s i)) -> eterm e <= term (nd_of s i).
Proof.
  intros ops i s. destruct (sfi_run ops) as [gl [a [[_ [_ [_ [HM _]]]] _]]]. fold s in HM.
  split; [apply (lm_wi_log _ _ _ _ HM)|apply (lm_T1 _ _ _ _ HM)].
Qed.

(* LEADER COMPLETENESS for every reachable state: whenever a quorum has acknowledged position m of the
   ledger of term t (an entry created in term t), every node that is leader of a later term holds the
   first m entries of that ledger. *)
Theorem leader_completeness : forall ops,
  let s := grun cfg ru ops in
  exists gl a, LMI s gl a /\ LCI s gl a /\
    forall t m, QA s gl a t m ->
      forall c, c < n_nodes cfg -> rl (nd_of s c) = Leader -> t < term (nd_of s c) ->
        firstn m (log (nd_of s c)) = firstn m (gl t).
Proof.
  intros ops s. destruct (sfi_run ops) as [gl [a [[HR [HI [H8 [HM HC]]]] _]]]. fold s in HR, HM, HC.
  exists gl, a. split; [exact HM|]. split; [exact HC|].
  intros t m HQ c Hc Hl Ht.
  pose proof (leader_in_ghost cfg s a c HR HI Hc Hl) as Hld.
  rewrite (lm_L3 _ _ _ _ HM c Hc Hl).
  apply (leader_completeness_inv cfg ru quorum_ok ack_ok s gl a HC t m HQ _ c Hld Ht).
Qed.

(* terms never decrease along a run; a commit index decreases only at a crash of that node *)
Theorem terms_never_decrease : forall ops1 ops2 i, i < n_nodes cfg ->
  term (nd_of (grun cfg ru ops1) i) <= term (nd_of (grun cfg ru (ops1 ++ ops2)) i).
Proof.
  intros ops1 ops2 i Hi. induction ops2 as [|o ops2 IH] using rev_ind; [rewrite app_nil_r; lia|].
  rewrite app_assoc. destruct (sfi_run (ops1 ++ ops2)) as [gl [a [[HR _] _]]].
  pose proof (mono_step _ a o i HR Hi) as [A _].
  unfold grun in *. rewrite fold_left_app. cbn [fold_left]. unfold grun in IH. lia.
Qed.

Theorem commit_step_monotone : forall ops o i, i < n_nodes cfg ->
  commit (nd_of (grun cfg ru ops) i) <= commit (nd_of (grun cfg ru (ops ++ [o])) i) \/ o = GRestart i.
Proof.
  intros ops o i Hi. destruct (sfi_run ops) as [gl [a [[HR _] _]]].
  pose proof (mono_step _ a o i HR Hi) as [_ B].
  unfold grun in *. rewrite fold_left_app. cbn [fold_left]. exact B.
Qed.

(* the implementation's log array (the log without its first `base` entries) is empty only when the log is, so
   reading the last index/term off the array (handle_request_vote, start_election) is reading it off the log *)
Theorem array_last_is_log_last : forall ops i, i < n_nodes cfg ->
  let nd := nd_of (grun cfg ru ops) i in
  last_info (skipn (N.to_nat (base nd)) (log nd)) = last_info (log nd).
Proof.
  intros ops i Hi nd. destruct (sfi_run ops) as [gl [a [_ HS]]].
  destruct (s_arr _ _ _ HS i Hi) as [B|B]; fold nd in B.
  - apply last_info_skipn. unfold llen in B. lia.
  - rewrite B. reflexivity.
Qed.

(* what a node has compacted away it had committed, and it still holds at least one entry *)
(* LEADER APPEND-ONLY: a node that is leader of term t after ops1 and again (still, or anew) leader of the same
   term after ops1 ++ ops2 has only appended in between: its earlier log is a prefix of its later log.  (The log
   of the leader of a term is the ledger of that term, and ledgers only grow.) *)
Theorem leader_append_only : forall ops1 ops2 i,
  let s1 := grun cfg ru ops1 in
  let s2 := grun cfg ru (ops1 ++ ops2) in
  i < n_nodes cfg ->
  rl (nd_of s1 i) = Leader -> rl (nd_of s2 i) = Leader -> term (nd_of s1 i) = term (nd_of s2 i) ->
  firstn (length (log (nd_of s1 i))) (log (nd_of s2 i)) = log (nd_of s1 i).
Proof.
  intros ops1 ops2 i s1 s2 Hi Hr1 Hr2 Ht.
  destruct sfi_init as [a0 H0].
  destruct (sfi_run_from ops1 _ _ _ H0) as [gl1 [a1 [[HF1 HS1] _]]].
  destruct (sfi_run_from ops2 _ _ _ (conj HF1 HS1)) as [gl2 [a2 [[HF2 HS2] [E2 [L2 P2]]]]].
  assert (Es2 : run_from cfg ru (run_from cfg ru (init_sys cfg) ops1) ops2 = s2)
    by (unfold s2; rewrite (grun_run_from cfg ru), (run_from_app cfg ru); reflexivity).
  assert (Es1 : run_from cfg ru (init_sys cfg) ops1 = s1) by reflexivity.
  rewrite Es2 in *. rewrite Es1 in *.
  destruct HF1 as [_ [_ [_ [HM1 _]]]]. destruct HF2 as [_ [_ [_ [HM2 _]]]].
  rewrite (LogMatch.lm_L3 _ _ _ _ HM1 i Hi Hr1), (LogMatch.lm_L3 _ _ _ _ HM2 i Hi Hr2), <- Ht.
  apply E2.
Qed.

Theorem compaction_within_commit : forall ops i, i < n_nodes cfg ->
  let s := grun cfg ru ops in base (nd_of s i) <= commit (nd_of s i).
Proof.
  intros ops i Hi s. destruct (sfi_run ops) as [gl [a [_ HS]]]. fold s in HS. apply (s_base _ _ _ HS i Hi).
Qed.

End Safety.
