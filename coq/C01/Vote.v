(* C01/Vote.v -- the abstract voting protocol of Raft and its election-safety proof, for every
   reachable state, any cluster size n and any quorum q with n < 2q (ported verbatim from the design-
   phase prototype, DESIGN.md A.3).  C01/VoteSim.v shows that the executable cluster model refines it. *)
From Coq Require Import List Arith Lia Bool.
Import ListNotations.

(* ---- pigeonhole: two duplicate-free quorums over {0..n-1} intersect ---- *)
Lemma NoDup_incl_length' : forall (l l' : list nat), NoDup l -> incl l l' -> length l <= length l'.
Proof. intros; now apply NoDup_incl_length. Qed.

Lemma NoDup_app_disj : forall (a b : list nat), NoDup a -> NoDup b ->
  (forall x, In x a -> ~ In x b) -> NoDup (a ++ b).
Proof.
  induction a as [|x a IH]; intros b Ha Hb D; cbn; auto.
  inversion Ha; subst. constructor.
  - intro H. apply in_app_or in H. destruct H; [contradiction|]. apply (D x); [left; reflexivity|assumption].
  - apply IH; auto. intros y Hy. apply D. right; assumption.
Qed.

Lemma quorums_intersect : forall n (a b : list nat),
  NoDup a -> NoDup b ->
  (forall x, In x a -> x < n) -> (forall x, In x b -> x < n) ->
  n < length a + length b -> exists x, In x a /\ In x b.
Proof.
  intros n a b Ha Hb Ia Ib Hlen.
  destruct (existsb (fun x => existsb (Nat.eqb x) b) a) eqn:E.
  - apply existsb_exists in E. destruct E as [x [Hx E]]. apply existsb_exists in E.
    destruct E as [y [Hy E]]. apply Nat.eqb_eq in E. subst. eauto.
  - exfalso.
    assert (D: forall x, In x a -> ~ In x b).
    { intros x Hx Hxb.
      assert (existsb (fun x => existsb (Nat.eqb x) b) a = true).
      { apply existsb_exists. exists x. split; auto. apply existsb_exists. exists x. split; auto. apply Nat.eqb_refl. }
      congruence. }
    assert (N: NoDup (a ++ b)).
    { apply NoDup_app_disj; auto. }
    assert (L: length (a ++ b) <= length (seq 0 n)).
    { apply NoDup_incl_length; auto. intros x Hx. apply in_seq. apply in_app_or in Hx. destruct Hx; [specialize (Ia x H)|specialize (Ib x H)]; lia. }
    rewrite app_length, seq_length in L. lia.
Qed.

(* ================= voting model (faithful to handle_request_vote & co) ================= *)
Inductive role := Follower | Candidate | Leader.
Record node := mk { term : nat; voted : option nat; rl : role; votes : list nat }.
Inductive msg :=
 | RV  (t cand dst : nat)
 | RVR (t : nat) (granted : bool) (voter dst : nat).
Record sys := mkS { nodes : nat -> node; msgs : list msg;
                    cast : list (nat*nat*nat);      (* ghost: voter, term, candidate *)
                    leaders : list (nat*nat) }.     (* ghost: term, node *)

Definition upd (f: nat -> node) i x := fun j => if Nat.eqb j i then x else f j.
Lemma upd_same f i x : upd f i x i = x. Proof. unfold upd. now rewrite Nat.eqb_refl. Qed.
Lemma upd_other f i x j : j <> i -> upd f i x j = f j.
Proof. unfold upd. intros. destruct (Nat.eqb_spec j i); congruence. Qed.

Section Cluster.
Variables n q : nat.
Hypothesis quorum_ok : n < q + q.

Definition can_vote (nd:node) (c:nat) : bool :=
  match voted nd with None => true | Some c' => Nat.eqb c' c end.

Definition bump (nd:node) (t:nat) : node :=
  if term nd <? t then mk t None Follower (votes nd) else nd.

Inductive step : sys -> sys -> Prop :=
| s_timeout : forall s i extra, i < n ->
    (forall m, In m extra -> exists d, m = RV (S (term (nodes s i))) i d) ->
    step s (mkS (upd (nodes s) i (mk (S (term (nodes s i))) (Some i) Candidate [i]))
                (extra ++ msgs s)
                ((i, S (term (nodes s i)), i) :: cast s) (leaders s))
| s_recv_rv : forall s i t c (ok:bool), i < n -> In (RV t c i) (msgs s) ->
    let nd := bump (nodes s i) t in
    let grant := Nat.eqb t (term nd) && can_vote nd c && ok in
    step s (mkS (upd (nodes s) i (if grant then mk (term nd) (Some c) (rl nd) (votes nd) else nd))
                (RVR (term nd) grant i c :: msgs s)
                (if grant then (i, t, c) :: cast s else cast s) (leaders s))
| s_recv_rvr : forall s i t g v, i < n -> v < n -> In (RVR t g v i) (msgs s) ->
    let nd := nodes s i in
    step s
      (match rl nd with
       | Candidate =>
         if term nd <? t then mkS (upd (nodes s) i (mk t None Follower (votes nd))) (msgs s) (cast s) (leaders s)
         else if g && Nat.eqb t (term nd) && negb (existsb (Nat.eqb v) (votes nd)) then
           let vs := votes nd ++ [v] in
           if q <=? length vs
           then mkS (upd (nodes s) i (mk (term nd) (voted nd) Leader vs)) (msgs s) (cast s) ((term nd, i) :: leaders s)
           else mkS (upd (nodes s) i (mk (term nd) (voted nd) Candidate vs)) (msgs s) (cast s) (leaders s)
         else s
       | _ => s
       end)
| s_demote : forall s i t' vd vs, i < n ->          (* any move to Follower that keeps the vote of an unchanged term:
                                                         higher term observed, AppendEntries of the same term, crash/restart *)
    term (nodes s i) <= t' -> (t' = term (nodes s i) -> vd = voted (nodes s i)) ->
    step s (mkS (upd (nodes s) i (mk t' vd Follower vs)) (msgs s) (cast s) (leaders s))
| s_more_rv : forall s extra,            (* RequestVote messages carry no authority: any may appear *)
    (forall m, In m extra -> exists t c d, m = RV t c d) ->
    step s (mkS (nodes s) (extra ++ msgs s) (cast s) (leaders s)).

Record Inv (s:sys) : Prop := {
  I1 : forall v t c c', In (v,t,c) (cast s) -> In (v,t,c') (cast s) -> c = c';
  I2 : forall v t c, In (v,t,c) (cast s) -> v < n /\ t <= term (nodes s v) /\ (t = term (nodes s v) -> voted (nodes s v) = Some c);
  I3 : forall t v d, In (RVR t true v d) (msgs s) -> In (v,t,d) (cast s);
  I4 : forall i, rl (nodes s i) <> Follower ->
        NoDup (votes (nodes s i)) /\ forall v, In v (votes (nodes s i)) -> In (v, term (nodes s i), i) (cast s);
  I6 : forall t i, In (t,i) (leaders s) ->
        exists Q, NoDup Q /\ q <= length Q /\ forall v, In v Q -> In (v,t,i) (cast s);
  I7 : forall i, rl (nodes s i) = Leader -> In (term (nodes s i), i) (leaders s)
}.

Definition init : sys := mkS (fun _ => mk 0 None Follower []) [] [] [].

Lemma inv_init : Inv init.
Proof. constructor; cbn; intros; try contradiction; try discriminate; try congruence. Qed.

Theorem election_safety : forall s, Inv s -> forall t i j, In (t,i) (leaders s) -> In (t,j) (leaders s) -> i = j.
Proof.
  intros s H t i j Hi Hj.
  destruct (I6 s H _ _ Hi) as [Q1 [N1 [L1 C1]]].
  destruct (I6 s H _ _ Hj) as [Q2 [N2 [L2 C2]]].
  destruct (quorums_intersect n Q1 Q2 N1 N2) as [x [X1 X2]].
  - intros x Hx. apply C1 in Hx. now apply (I2 s H) in Hx.
  - intros x Hx. apply C2 in Hx. now apply (I2 s H) in Hx.
  - lia.
  - eapply (I1 s H); eauto.
Qed.

Corollary one_leader_per_term : forall s, Inv s -> forall i j,
  rl (nodes s i) = Leader -> rl (nodes s j) = Leader -> term (nodes s i) = term (nodes s j) -> i = j.
Proof.
  intros s H i j Li Lj E. apply (election_safety s H (term (nodes s i))).
  - now apply (I7 s H).
  - rewrite E. now apply (I7 s H).
Qed.

Ltac node_cases j i := destruct (Nat.eq_dec j i) as [->|?]; [rewrite ?upd_same in *|rewrite ?upd_other in * by assumption].

Lemma inv_timeout : forall s i extra, Inv s -> i < n ->
    (forall m, In m extra -> exists d, m = RV (S (term (nodes s i))) i d) ->
    Inv (mkS (upd (nodes s) i (mk (S (term (nodes s i))) (Some i) Candidate [i]))
                (extra ++ msgs s)
                ((i, S (term (nodes s i)), i) :: cast s) (leaders s)).
Proof.
  intros s i extra H Hi Hex. destruct H as [H1 H2 H3 H4 H6 H7].
  constructor; cbn [nodes msgs cast leaders].
  - intros v t c c' [E|E] [E'|E']; try (inversion E; subst); try (inversion E'; subst); auto.
    + apply H2 in E'. lia.
    + apply H2 in E. lia.
    + eapply H1; eauto.
  - intros v t c [E|E].
    + inversion E; subst. rewrite upd_same. cbn. repeat split; auto.
    + pose proof (H2 _ _ _ E) as [A [B C]]. node_cases v i; cbn; auto. repeat split; auto; lia.
  - intros t v d Hin. apply in_app_or in Hin. destruct Hin as [Hin|Hin].
    + apply Hex in Hin. destruct Hin; discriminate.
    + right. auto.
  - intros j Hr. node_cases j i; cbn in *.
    + split; [repeat constructor; auto|]. intros v [<-|[]]. left; reflexivity.
    + destruct (H4 j Hr) as [A B]. split; [auto | intros v Hv; right; auto].
  - intros t j Hin. destruct (H6 _ _ Hin) as [Q [A [B C]]]. exists Q; repeat split; auto. intros; right; auto.
  - intros j Hr. node_cases j i; cbn in *; [discriminate|auto].
Qed.

Lemma bump_term_ge nd t : term nd <= term (bump nd t).
Proof. unfold bump. destruct (Nat.ltb_spec (term nd) t); cbn; lia. Qed.
Lemma bump_role nd t : rl (bump nd t) <> Follower -> bump nd t = nd.
Proof. unfold bump. destruct (Nat.ltb_spec (term nd) t); cbn; congruence. Qed.
Lemma bump_same_term nd t : term (bump nd t) = term nd -> bump nd t = nd.
Proof. unfold bump. destruct (Nat.ltb_spec (term nd) t); cbn; auto. lia. Qed.

Lemma inv_recv_rv : forall s i t c (ok:bool), Inv s -> i < n -> In (RV t c i) (msgs s) ->
    let nd := bump (nodes s i) t in
    let grant := Nat.eqb t (term nd) && can_vote nd c && ok in
    Inv (mkS (upd (nodes s) i (if grant then mk (term nd) (Some c) (rl nd) (votes nd) else nd))
                (RVR (term nd) grant i c :: msgs s)
                (if grant then (i, t, c) :: cast s else cast s) (leaders s)).
Proof.
  intros s i t c ok H Hi Hin nd grant. destruct H as [H1 H2 H3 H4 H6 H7].
  assert (Hge := bump_term_ge (nodes s i) t). fold nd in Hge.
  destruct grant eqn:G.
  - (* vote granted *)
    unfold grant in G. apply andb_prop in G. destruct G as [G Gok]. apply andb_prop in G. destruct G as [Gt Gc].
    apply Nat.eqb_eq in Gt.
    assert (Old: forall c0, In (i, t, c0) (cast s) -> c0 = c).
    { intros c0 Hc0. pose proof (H2 _ _ _ Hc0) as [_ [B C]].
      assert (bump (nodes s i) t = nodes s i) as Eb by (apply bump_same_term; fold nd; lia).
      assert (t = term (nodes s i)) as Et by (fold nd in Eb; rewrite <- Eb; exact Gt).
      specialize (C Et). unfold can_vote in Gc. fold nd in Eb. rewrite Eb in Gc. rewrite C in Gc.
      apply Nat.eqb_eq in Gc. exact Gc. }
    constructor; cbn [nodes msgs cast leaders].
    + intros v t0 c0 c0' [E|E] [E'|E'].
      * congruence.
      * injection E as <- <- <-. symmetry. apply Old. exact E'.
      * injection E' as <- <- <-. apply Old. exact E.
      * eapply H1; eauto.
    + intros v t0 c0 [E|E].
      * injection E as <- <- <-. rewrite upd_same. cbn. repeat split; auto; lia.
      * pose proof (H2 _ _ _ E) as [A [B C]]. node_cases v i; cbn; auto.
        repeat split; auto; try lia. intros Et. f_equal. symmetry. apply Old. rewrite Gt. rewrite <- Et. exact E.
    + intros t0 v d [E|E].
      * injection E as E1 E2 E3. left. rewrite <- E1, <- E2, <- E3, Gt. reflexivity.
      * right. auto.
    + intros j Hr. node_cases j i; cbn in *.
      * assert (bump (nodes s i) t = nodes s i) as Eb by (apply bump_role; exact Hr).
        fold nd in Eb. rewrite Eb in *. destruct (H4 i Hr) as [A B]. split; [auto|intros v Hv; right; auto].
      * destruct (H4 j Hr) as [A B]. split; [auto|intros v Hv; right; auto].
    + intros t0 j Hl. destruct (H6 _ _ Hl) as [Q [A [B C]]]. exists Q; repeat split; auto. intros; right; auto.
    + intros j Hr. node_cases j i; cbn in *; auto.
      assert (bump (nodes s i) t = nodes s i) as Eb by (apply bump_role; fold nd; congruence).
      fold nd in Eb. rewrite Eb in *. auto.
  - (* vote denied: only a possible term bump *)
    constructor; cbn [nodes msgs cast leaders].
    + exact H1.
    + intros v t0 c0 E. pose proof (H2 _ _ _ E) as [A [B C]]. node_cases v i; auto.
      repeat split; auto; try lia. intros Et. assert (bump (nodes s i) t = nodes s i) as Eb by (apply bump_same_term; fold nd; lia).
      fold nd in Eb. rewrite Eb. apply C. rewrite Eb in Et. exact Et.
    + intros t0 v d [E|E]; [discriminate|auto].
    + intros j Hr. node_cases j i; auto.
      assert (bump (nodes s i) t = nodes s i) as Eb by (apply bump_role; exact Hr).
      fold nd in Eb. rewrite Eb in *. auto.
    + exact H6.
    + intros j Hr. node_cases j i; auto.
      assert (bump (nodes s i) t = nodes s i) as Eb by (apply bump_role; fold nd; congruence).
      fold nd in Eb. rewrite Eb in *. auto.
Qed.

(* generic: changing node i to a Follower with term >= old term, voted kept or (None when term grows) *)
Lemma inv_demote : forall s i t' vd vs, Inv s -> i < n ->
   term (nodes s i) <= t' ->
   (t' = term (nodes s i) -> vd = voted (nodes s i)) ->
   Inv (mkS (upd (nodes s) i (mk t' vd Follower vs)) (msgs s) (cast s) (leaders s)).
Proof.
  intros s i t' vd vs H Hi Hle Hvd. destruct H as [H1 H2 H3 H4 H6 H7].
  constructor; cbn [nodes msgs cast leaders]; auto.
  - intros v t c E. pose proof (H2 _ _ _ E) as [A [B C]]. node_cases v i; cbn; auto.
    repeat split; auto; try lia. intros Et. subst t. assert (t' = term (nodes s i)) by lia. rewrite Hvd by assumption. apply C. lia.
  - intros j Hr. node_cases j i; cbn in *; [congruence|auto].
  - intros j Hr. node_cases j i; cbn in *; [discriminate|auto].
Qed.

Lemma existsb_eqb_false v l : existsb (Nat.eqb v) l = false -> ~ In v l.
Proof.
  intros E Hin. assert (existsb (Nat.eqb v) l = true) by (apply existsb_exists; exists v; split; auto; apply Nat.eqb_refl). congruence.
Qed.

Lemma NoDup_snoc (l:list nat) v : NoDup l -> ~ In v l -> NoDup (l ++ [v]).
Proof. intros. apply NoDup_app_disj; auto; [repeat constructor; auto|]. intros x Hx [<-|[]]. contradiction. Qed.

Lemma inv_recv_rvr : forall s i t g v, Inv s -> i < n -> v < n -> In (RVR t g v i) (msgs s) ->
    let nd := nodes s i in
    Inv (match rl nd with
       | Candidate =>
         if term nd <? t then mkS (upd (nodes s) i (mk t None Follower (votes nd))) (msgs s) (cast s) (leaders s)
         else if g && Nat.eqb t (term nd) && negb (existsb (Nat.eqb v) (votes nd)) then
           let vs := votes nd ++ [v] in
           if q <=? length vs
           then mkS (upd (nodes s) i (mk (term nd) (voted nd) Leader vs)) (msgs s) (cast s) ((term nd, i) :: leaders s)
           else mkS (upd (nodes s) i (mk (term nd) (voted nd) Candidate vs)) (msgs s) (cast s) (leaders s)
         else s
       | _ => s
       end).
Proof.
  intros s i t g v H Hi Hv Hin nd. destruct (rl nd) eqn:R; auto.
  destruct (Nat.ltb_spec (term nd) t) as [Hlt|Hge].
  - apply inv_demote; auto; unfold nd in *; lia.
  - destruct (g && (t =? term nd) && negb (existsb (Nat.eqb v) (votes nd))) eqn:G; auto.
    apply andb_prop in G. destruct G as [G Gn]. apply andb_prop in G. destruct G as [Gg Gt].
    apply Nat.eqb_eq in Gt. subst g. apply negb_true_iff in Gn. apply existsb_eqb_false in Gn.
    pose proof H as H'. destruct H as [H1 H2 H3 H4 H6 H7].
    assert (Rn: rl (nodes s i) <> Follower) by (fold nd; congruence).
    destruct (H4 i Rn) as [ND VC]. fold nd in ND, VC.
    assert (NDs: NoDup (votes nd ++ [v])) by (apply NoDup_snoc; auto).
    assert (VCs: forall x, In x (votes nd ++ [v]) -> In (x, term nd, i) (cast s)).
    { intros x Hx. apply in_app_or in Hx. destruct Hx as [Hx|[<-|[]]]; auto. apply H3. rewrite <- Gt. exact Hin. }
    cbv zeta. destruct (Nat.leb_spec q (length (votes nd ++ [v]))) as [Hq|Hq].
    + constructor; cbn [nodes msgs cast leaders]; auto.
      * intros x t0 c E. pose proof (H2 _ _ _ E) as [A [B C]]. node_cases x i; cbn; auto.
      * intros j Hr. node_cases j i; cbn in *; auto.
      * intros t0 j [E|E].
        -- injection E as <- <-. exists (votes nd ++ [v]). auto.
        -- auto.
      * intros j Hr. node_cases j i; cbn in *; [left; reflexivity|right; auto].
    + constructor; cbn [nodes msgs cast leaders]; auto.
      * intros x t0 c E. pose proof (H2 _ _ _ E) as [A [B C]]. node_cases x i; cbn; auto.
      * intros j Hr. node_cases j i; cbn in *; auto.
      * intros j Hr. node_cases j i; cbn in *; [discriminate|auto].
Qed.

Theorem step_inv : forall s s', step s s' -> Inv s -> Inv s'.
Proof.
  intros s s' St H. destruct St.
  - apply inv_timeout; auto.
  - apply inv_recv_rv; auto.
  - apply inv_recv_rvr; auto.
  - apply inv_demote; auto.
  - destruct H as [H1 H2 H3 H4 H6 H7]. constructor; cbn [nodes msgs cast leaders]; auto.
    intros t v d Hin. apply in_app_or in Hin. destruct Hin as [Hin|Hin]; [|auto].
    apply H0 in Hin. destruct Hin as [? [? [? ?]]]; discriminate.
Qed.

(* the ghost leader history only grows *)
Lemma step_leaders_mono : forall s s', step s s' -> forall x, In x (leaders s) -> In x (leaders s').
Proof.
  intros s s' St x Hx. destruct St; try (cbn [leaders]; auto; fail).
  - subst nd. cbv zeta. destruct (rl (nodes s i)); auto.
    destruct (term (nodes s i) <? t); auto.
    destruct (g && (t =? term (nodes s i)) && negb (existsb (Nat.eqb v) (votes (nodes s i)))); auto.
    destruct (q <=? length (votes (nodes s i) ++ [v])); cbn [leaders]; auto. apply in_cons; exact Hx.
Qed.

(* a leader-history entry that appears in one step is the node that just won its election *)
Lemma step_leaders_new : forall s s', step s s' -> forall t i, In (t, i) (leaders s') ->
  In (t, i) (leaders s) \/
  (i < n /\ rl (nodes s' i) = Leader /\ term (nodes s' i) = t /\
   rl (nodes s i) = Candidate /\ term (nodes s i) = t).
Proof.
  intros s s' St t0 i0 Hx. destruct St; cbn [leaders] in Hx; try (left; exact Hx).
  subst nd. cbv zeta in *. destruct (rl (nodes s i)) eqn:Er; try (left; exact Hx).
    destruct (term (nodes s i) <? t); [left; exact Hx|].
    destruct (g && (t =? term (nodes s i)) && negb (existsb (Nat.eqb v) (votes (nodes s i)))); [|left; exact Hx].
    destruct (q <=? length (votes (nodes s i) ++ [v])); cbn [leaders] in Hx; [|left; exact Hx].
    destruct Hx as [E|Hx]; [|left; exact Hx]. injection E as <- <-. right.
    cbn [nodes]. rewrite upd_same. cbn. auto.
Qed.

Inductive star : sys -> sys -> Prop :=
| star_refl : forall s, star s s
| star_step : forall s s' s'', step s s' -> star s' s'' -> star s s''.

Lemma star_trans : forall a b c, star a b -> star b c -> star a c.
Proof. induction 1; intros; auto. econstructor; eauto. Qed.
Lemma star_one : forall a b, step a b -> star a b.
Proof. intros. econstructor; [eassumption|constructor]. Qed.
Lemma star_inv : forall s s', star s s' -> Inv s -> Inv s'.
Proof. induction 1; intros; auto. apply IHstar. eapply step_inv; eauto. Qed.
Lemma star_leaders_mono : forall s s', star s s' -> forall x, In x (leaders s) -> In x (leaders s').
Proof. induction 1; intros; auto. apply IHstar. eapply step_leaders_mono; eauto. Qed.

(* every recorded vote is a self-vote or is backed by a granted response in flight *)
Definition Inv8 (s : sys) : Prop :=
  forall v t c, In (v, t, c) (cast s) -> v = c \/ In (RVR t true v c) (msgs s).

Lemma inv8_init : Inv8 init.
Proof. intros v t c []. Qed.

Lemma step_inv8 : forall s s', step s s' -> Inv8 s -> Inv8 s'.
Proof.
  intros s s' St H. destruct St; intros v0 t0 c0 Hin; cbn [cast msgs] in *.
  - destruct Hin as [E|Hin]; [injection E as <- <- <-; left; reflexivity|].
    destruct (H _ _ _ Hin) as [->|Hm]; [left; reflexivity|right; apply in_or_app; right; exact Hm].
  - subst nd. cbv zeta in *. destruct grant eqn:G.
    + destruct Hin as [E|Hin].
      * injection E as <- <- <-. right. left.
        unfold grant in G. apply andb_prop in G. destruct G as [G _]. apply andb_prop in G. destruct G as [Gt _].
        apply Nat.eqb_eq in Gt. rewrite <- Gt. reflexivity.
      * destruct (H _ _ _ Hin) as [->|Hm]; [left; reflexivity|right; right; exact Hm].
    + destruct (H _ _ _ Hin) as [->|Hm]; [left; reflexivity|right; right; exact Hm].
  - subst nd. cbv zeta in *. destruct (rl (nodes s i)); try (apply H; exact Hin).
    destruct (term (nodes s i) <? t); [apply H; exact Hin|].
    destruct (g && (t =? term (nodes s i)) && negb (existsb (Nat.eqb v) (votes (nodes s i)))); [|apply H; exact Hin].
    destruct (q <=? length (votes (nodes s i) ++ [v])); cbn [cast msgs] in *; apply H; exact Hin.
  - apply H. exact Hin.
  - destruct (H _ _ _ Hin) as [->|Hm]; [left; reflexivity|right; apply in_or_app; right; exact Hm].
Qed.

Lemma star_inv8 : forall s s', star s s' -> Inv8 s -> Inv8 s'.
Proof. induction 1; intros; auto. apply IHstar. eapply step_inv8; eauto. Qed.

(* abstract responses in flight only ever come from RequestVote handling *)
Lemma step_rvr_new : forall s s', step s s' -> forall t g v d, In (RVR t g v d) (msgs s') ->
  In (RVR t g v d) (msgs s) \/
  (exists t0 (ok : bool), In (RV t0 d v) (msgs s) /\
     let nd := bump (nodes s v) t0 in
     t = term nd /\ g = (Nat.eqb t0 (term nd) && can_vote nd d && ok) /\
     msgs s' = RVR t g v d :: msgs s).
Proof.
  intros s s' St t0 g0 v0 d0 Hin. destruct St; cbn [msgs] in *; try (left; exact Hin).
  - apply in_app_or in Hin. destruct Hin as [Hin|Hin]; [|left; exact Hin].
    apply H0 in Hin. destruct Hin; discriminate.
  - destruct Hin as [E|Hin]; [|left; exact Hin]. right. injection E as <- <- <- <-.
    exists t, ok. split; [exact H0|]. cbv zeta. repeat split; reflexivity.
  - subst nd. cbv zeta in *. destruct (rl (nodes s i)); try (left; exact Hin).
    destruct (term (nodes s i) <? t); [left; exact Hin|].
    destruct (g && (t =? term (nodes s i)) && negb (existsb (Nat.eqb v) (votes (nodes s i)))); [|left; exact Hin].
    destruct (q <=? length (votes (nodes s i) ++ [v])); cbn [msgs] in *; left; exact Hin.
  - apply in_app_or in Hin. destruct Hin as [Hin|Hin]; [|left; exact Hin].
    apply H in Hin. destruct Hin as [? [? [? ?]]]; discriminate.
Qed.

Inductive reachable : sys -> Prop :=
| r_init : reachable init
| r_step : forall s s', reachable s -> step s s' -> reachable s'.

Theorem reachable_inv : forall s, reachable s -> Inv s.
Proof. induction 1; [apply inv_init | eapply step_inv; eauto]. Qed.

Theorem at_most_one_leader_per_term : forall s, reachable s ->
  (forall t i j, In (t,i) (leaders s) -> In (t,j) (leaders s) -> i = j) /\
  (forall i j, rl (nodes s i) = Leader -> rl (nodes s j) = Leader ->
               term (nodes s i) = term (nodes s j) -> i = j).
Proof.
  intros s R. pose proof (reachable_inv s R) as H. split.
  - apply election_safety; auto.
  - apply one_leader_per_term; auto.
Qed.
End Cluster.
