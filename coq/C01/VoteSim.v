(* C01/VoteSim.v -- the executable cluster model (Model.gstep) refines the abstract voting protocol
   (Vote.step): every global step of the model is matched by zero or more abstract steps, for any
   acknowledgement rules and any configuration.  Election safety of every model run follows. *)
From NV.Common Require Import Base.
From NV.C01 Require Import Model.
From NV.C01 Require Vote.
From Coq Require Import Arith.
Open Scope N_scope.

Section Sim.
Variable cfg : config.
Variable ru : rules.
Let n : nat := N.to_nat (n_nodes cfg).
Let q : nat := N.to_nat (quorum cfg).
Hypothesis quorum_ok : (n < q + q)%nat.

Definition absr (r : role) : Vote.role :=
  match r with Follower => Vote.Follower | Candidate => Vote.Candidate | Leader => Vote.Leader end.
Definition absn (nd : node) : Vote.node :=
  Vote.mk (N.to_nat (term nd)) (option_map N.to_nat (voted nd)) (absr (rl nd)) (map N.to_nat (votes nd)).
Definition absm (e : N * N * msg) : list Vote.msg :=
  match e with
  | (_, dst, RV t c _ _) => [Vote.RV (N.to_nat t) (N.to_nat c) (N.to_nat dst)]
  | (src, dst, RVR t g _) => [Vote.RVR (N.to_nat t) g (N.to_nat src) (N.to_nat dst)]
  | _ => []
  end.

Record R (s : sys) (a : Vote.sys) : Prop := {
  R_len : length (nodes s) = n;
  R_nodes : forall i, i < n_nodes cfg -> Vote.nodes a (N.to_nat i) = absn (nth_node (nodes s) i);
  R_msgs : forall e m, In e (pool s) -> In m (absm e) -> In m (Vote.msgs a);
  R_ids : forall src dst m, In (src, dst, m) (pool s) -> src < n_nodes cfg /\ dst < n_nodes cfg;
  R_rv : forall src dst t c x y, In (src, dst, RV t c x y) (pool s) -> src = c;
  R_back : forall t g v d, In (Vote.RVR t g v d) (Vote.msgs a) ->
             exists tt voter src dst, In (src, dst, RVR tt g voter) (pool s) /\
               N.to_nat tt = t /\ N.to_nat src = v /\ N.to_nat dst = d
}.

(* ---------- list plumbing ---------- *)
Lemma nth_set_same : forall (ns : list node) i x, (i < length ns)%nat -> nth i (set_nth_node ns i x) init_node = x.
Proof. induction ns as [|h t IH]; intros [|i] x H; cbn in *; try lia; auto. apply IH. lia. Qed.
Lemma nth_set_other : forall (ns : list node) i j x, i <> j -> nth j (set_nth_node ns i x) init_node = nth j ns init_node.
Proof.
  induction ns as [|h t IH]; intros [|i] [|j] x H; cbn in *; try congruence; auto.
Qed.
Lemma set_nth_len : forall (ns : list node) i x, length (set_nth_node ns i x) = length ns.
Proof. induction ns as [|h t IH]; intros [|i] x; cbn; auto. Qed.

Lemma peers_valid self p : In p (peers_of cfg self) -> p < n_nodes cfg /\ p <> self.
Proof.
  unfold peers_of. intros H. apply filter_In in H. destruct H as [H1 H2]. split.
  - unfold N_seq in H1. assert (G : forall c st x, In x (N_seq_from st c) -> x < st + N.of_nat c).
    { induction c as [|c IH]; intros st x Hx; cbn in Hx; [contradiction|].
      destruct Hx as [<-|Hx]; [lia|]. apply IH in Hx. lia. }
    apply G in H1. lia.
  - apply negb_true_iff in H2. apply N.eqb_neq in H2. exact H2.
Qed.

Lemma R_upd s a i x out a' :
  R s a -> i < n_nodes cfg ->
  (forall j, Vote.nodes a' j = Vote.upd (Vote.nodes a) (N.to_nat i) (absn x) j) ->
  (forall m, In m (Vote.msgs a) -> In m (Vote.msgs a')) ->
  (forall d m0 m, In (d, m0) out -> In m (absm (i, d, m0)) -> In m (Vote.msgs a')) ->
  (forall d m0, In (d, m0) out -> d < n_nodes cfg) ->
  (forall d t c x0 y, In (d, RV t c x0 y) out -> i = c) ->
  (forall t g v d, In (Vote.RVR t g v d) (Vote.msgs a') -> In (Vote.RVR t g v d) (Vote.msgs a) \/
     exists tt voter dd, In (dd, RVR tt g voter) out /\ N.to_nat tt = t /\ N.to_nat i = v /\ N.to_nat dd = d) ->
  R (upd_node s i x out) a'.
Proof.
  intros [RL RN RM RI RRV RB] Hi Hn Hm Ho Hd Hrv Hback.
  assert (Hlen : (N.to_nat i < length (nodes s))%nat) by (rewrite RL; unfold n; lia).
  constructor; unfold upd_node; cbn [nodes pool].
  - rewrite set_nth_len. exact RL.
  - intros j Hj. rewrite Hn. unfold nth_node. destruct (N.eq_dec j i) as [->|Hne].
    + rewrite Vote.upd_same, nth_set_same by exact Hlen. reflexivity.
    + rewrite Vote.upd_other by lia. rewrite nth_set_other by lia. apply RN. exact Hj.
  - intros e m He Hin. apply in_app_or in He. destruct He as [He|He].
    + apply Hm. eapply RM; eauto.
    + apply in_map_iff in He. destruct He as [[d m0] [<- Hd0]]. cbn [fst snd] in Hin. eapply Ho; eauto.
  - intros src dst m He. apply in_app_or in He. destruct He as [He|He]; [eapply RI; eauto|].
    apply in_map_iff in He. destruct He as [[d m0] [E Hd0]]. cbn [fst snd] in E. injection E as E1 E2 E3. subst.
    split; [exact Hi|eapply Hd; eauto].
  - intros src dst t c x0 y He. apply in_app_or in He. destruct He as [He|He]; [eapply RRV; eauto|].
    apply in_map_iff in He. destruct He as [[d m0] [E Hd0]]. cbn [fst snd] in E. injection E as E1 E2 E3. subst.
    eapply Hrv; eauto.
  - intros t g v d Hin. destruct (Hback _ _ _ _ Hin) as [Hold|[tt [voter [dd [Ho' [E1 [E2 E3]]]]]]].
    + destruct (RB _ _ _ _ Hold) as [tt [voter [src [dst [Hp E]]]]]. exists tt, voter, src, dst.
      split; [apply in_or_app; left; exact Hp|exact E].
    + exists tt, voter, i, dd. split; [|auto]. apply in_or_app. right. apply in_map_iff.
      exists (dd, RVR tt g voter). split; [reflexivity|exact Ho'].
Qed.

Lemma R_upd0 s a i x a' :
  R s a -> i < n_nodes cfg ->
  (forall j, Vote.nodes a' j = Vote.upd (Vote.nodes a) (N.to_nat i) (absn x) j) ->
  (forall m, In m (Vote.msgs a) -> In m (Vote.msgs a')) ->
  (forall m, In m (Vote.msgs a') -> In m (Vote.msgs a)) ->
  R (upd_node s i x []) a'.
Proof.
  intros HR Hi Hn Hm Hm'. eapply R_upd; eauto.
  - intros d m0 m [].
  - intros d m0 [].
  - intros d t c x0 y [].
Qed.

(* a step that changes nothing the abstraction sees *)
Lemma R_stutter s a i x out :
  R s a -> i < n_nodes cfg -> absn x = absn (nth_node (nodes s) i) ->
  (forall d m0, In (d, m0) out -> absm (i, d, m0) = [] /\ d < n_nodes cfg) ->
  R (upd_node s i x out) a.
Proof.
  intros HR Hi Hx Ho. eapply R_upd; eauto.
  - intros j. unfold Vote.upd. destruct (Nat.eqb_spec j (N.to_nat i)) as [->|]; [|reflexivity].
    rewrite Hx. apply (R_nodes _ _ HR). exact Hi.
  - intros d m0 m Hin Hm. destruct (Ho _ _ Hin) as [E _]. rewrite E in Hm. contradiction.
  - intros d m0 Hin. apply (Ho _ _ Hin).
  - intros d t c x0 y Hin. destruct (Ho _ _ Hin) as [E _]. cbn in E. discriminate.
Qed.


Notation star := (Vote.star n q).
(* every model step is matched by at most ONE abstract step *)
Definition step01 (a a' : Vote.sys) : Prop := a' = a \/ Vote.step n q a a'.
Lemma step01_star a a' : step01 a a' -> star a a'.
Proof. intros [->|H]; [constructor|apply Vote.star_one; exact H]. Qed.
Definition old (a : Vote.sys) (i : N) := Vote.nodes a (N.to_nat i).

Lemma id_lt i : i < n_nodes cfg -> (N.to_nat i < n)%nat.
Proof. unfold n. lia. Qed.

(* demotion: one abstract step *)
Lemma sim_demote s a i x out :
  R s a -> i < n_nodes cfg ->
  Vote.rl (absn x) = Vote.Follower ->
  (Vote.term (old a i) <= Vote.term (absn x))%nat ->
  (Vote.term (absn x) = Vote.term (old a i) -> Vote.voted (absn x) = Vote.voted (old a i)) ->
  (forall d m0, In (d, m0) out -> absm (i, d, m0) = [] /\ d < n_nodes cfg) ->
  exists a', step01 a a' /\ R (upd_node s i x out) a'.
Proof.
  intros HR Hi Hrl Ht Hv Ho.
  exists (Vote.mkS (Vote.upd (Vote.nodes a) (N.to_nat i) (absn x)) (Vote.msgs a) (Vote.cast a) (Vote.leaders a)).
  split.
  - right. destruct (absn x) as [t' vd r vs] eqn:E. cbn in Hrl. subst r.
    apply Vote.s_demote; [apply id_lt; exact Hi|exact Ht|exact Hv].
  - eapply R_upd; eauto; cbn [Vote.nodes Vote.msgs]; auto.
    + intros d m0 m Hin Hm. destruct (Ho _ _ Hin) as [E _]. rewrite E in Hm. contradiction.
    + intros d m0 Hin. apply (Ho _ _ Hin).
    + intros d t c x0 y Hin. destruct (Ho _ _ Hin) as [E _]. cbn in E. discriminate.
Qed.

(* election timeout: one abstract step *)
Lemma sim_timeout s a i x out :
  R s a -> i < n_nodes cfg ->
  absn x = Vote.mk (S (Vote.term (old a i))) (Some (N.to_nat i)) Vote.Candidate [N.to_nat i] ->
  (forall d m0, In (d, m0) out -> d < n_nodes cfg /\
       exists lli llt, m0 = RV (term x) i lli llt) ->
  exists a', step01 a a' /\ R (upd_node s i x out) a'.
Proof.
  intros HR Hi Hx Ho.
  set (extra := map (fun dm => Vote.RV (S (Vote.term (old a i))) (N.to_nat i) (N.to_nat (fst dm))) out).
  exists (Vote.mkS (Vote.upd (Vote.nodes a) (N.to_nat i) (Vote.mk (S (Vote.term (old a i))) (Some (N.to_nat i)) Vote.Candidate [N.to_nat i]))
                   (extra ++ Vote.msgs a)
                   ((N.to_nat i, S (Vote.term (old a i)), N.to_nat i) :: Vote.cast a) (Vote.leaders a)).
  split.
  - right. apply Vote.s_timeout; [apply id_lt; exact Hi|].
    intros m Hm. unfold extra in Hm. apply in_map_iff in Hm. destruct Hm as [dm [<- _]]. eexists. reflexivity.
  - eapply R_upd; eauto; cbn [Vote.nodes Vote.msgs].
    + intros j. rewrite Hx. reflexivity.
    + intros m Hm. apply in_or_app. right. exact Hm.
    + intros d m0 m Hin Hm. destruct (Ho _ _ Hin) as [_ [lli [llt ->]]]. cbn in Hm. destruct Hm as [<-|[]].
      apply in_or_app. left. unfold extra. apply in_map_iff. exists (d, RV (term x) i lli llt). split; [|exact Hin].
      cbn [fst]. f_equal. assert (E : Vote.term (absn x) = N.to_nat (term x)) by reflexivity.
      rewrite Hx in E. cbn in E. lia.
    + intros d m0 Hin. apply (Ho _ _ Hin).
    + intros d t c x0 y Hin. destruct (Ho _ _ Hin) as [_ [lli [llt E]]]. injection E as _ <- _ _. reflexivity.
    + intros t g v d Hin. left. apply in_app_or in Hin. destruct Hin as [Hin|Hin]; [|exact Hin].
      unfold extra in Hin. apply in_map_iff in Hin. destruct Hin as [? [E _]]. discriminate.
Qed.

Lemma absn_old s a i : R s a -> i < n_nodes cfg -> old a i = absn (nth_node (nodes s) i).
Proof. intros HR Hi. apply (R_nodes _ _ HR). exact Hi. Qed.

Lemma map_to_nat_mem x l : existsb (Nat.eqb (N.to_nat x)) (map N.to_nat l) = memb x l.
Proof.
  unfold memb. induction l as [|y l IH]; cbn; [reflexivity|]. rewrite IH. f_equal.
  destruct (N.eqb_spec x y) as [->|Hne]; [apply Nat.eqb_refl|]. apply Nat.eqb_neq. lia.
Qed.

Lemma rv_msgs_ok self nd : forall d m0, In (d, m0) (rv_msgs cfg self nd) ->
  d < n_nodes cfg /\ exists lli llt, m0 = RV (term nd) self lli llt.
Proof.
  intros d m0 H. unfold rv_msgs in H. destruct (last_info (log nd)) as [lli llt].
  apply in_map_iff in H. destruct H as [p [E Hp]]. injection E as <- <-.
  split; [apply (peers_valid self p Hp)|eauto].
Qed.


Lemma to_nat_eqb x y : (N.to_nat x =? N.to_nat y)%nat = N.eqb x y.
Proof. destruct (N.eqb_spec x y) as [->|]; [apply Nat.eqb_refl|apply Nat.eqb_neq; lia]. Qed.
Lemma to_nat_ltb x y : (N.to_nat x <? N.to_nat y)%nat = N.ltb x y.
Proof. destruct (N.ltb_spec x y); [apply Nat.ltb_lt|apply Nat.ltb_ge]; lia. Qed.

Lemma bump_abs nd t :
  Vote.bump (absn nd) (N.to_nat t) = absn (if N.ltb (term nd) t then step_down nd t else nd).
Proof.
  unfold Vote.bump. change (Vote.term (absn nd)) with (N.to_nat (term nd)). rewrite to_nat_ltb.
  destruct (N.ltb (term nd) t); reflexivity.
Qed.

Lemma h_rv_abs dst nd t src lli llt ok nd' r :
  h_rv ru dst nd t src lli llt ok = (nd', r) ->
  exists okA,
    let b := Vote.bump (absn nd) (N.to_nat t) in
    let grant := (N.to_nat t =? Vote.term b)%nat && Vote.can_vote b (N.to_nat src) && okA in
    absn nd' = (if grant then Vote.mk (Vote.term b) (Some (N.to_nat src)) (Vote.rl b) (Vote.votes b) else b) /\
    exists tt, r = RVR tt grant dst /\ N.to_nat tt = Vote.term b.
Proof.
  unfold h_rv. rewrite bump_abs. generalize (if N.ltb (term nd) t then step_down nd t else nd). intros nd1 H.
  change (Vote.term (absn nd1)) with (N.to_nat (term nd1)). rewrite to_nat_eqb.
  assert (Ecv : Vote.can_vote (absn nd1) (N.to_nat src) = match voted nd1 with None => true | Some c => N.eqb c src end).
  { unfold Vote.can_vote. cbn. destruct (voted nd1) as [c|]; cbn; [apply to_nat_eqb|reflexivity]. }
  rewrite Ecv. clear Ecv.
  destruct (N.eqb t (term nd1)).
  - destruct (last_info (log nd1)) as [mli mlt].
    exists (vote_log_ok ru lli llt mli mlt ok && ok).
    cbv zeta. cbn [andb].
    set (cv := match voted nd1 with None => true | Some c => N.eqb c src end) in *.
    set (lg := vote_log_ok ru lli llt mli mlt ok) in *.
    replace (cv && (lg && ok)) with (cv && lg && ok) by (destruct cv, lg, ok; reflexivity).
    destruct (cv && lg && ok); injection H as <- <-; (split; [reflexivity|eexists; split; reflexivity]).
  - exists false. cbv zeta. cbn [andb]. injection H as <- <-. split; [reflexivity|eexists; split; reflexivity].
Qed.


Lemma leb_llen (vs : list N) : (q <=? length (map N.to_nat vs))%nat = N.leb (quorum cfg) (llen vs).
Proof.
  rewrite map_length. unfold q, llen.
  destruct (N.leb_spec (quorum cfg) (N.of_nat (length vs))); [apply Nat.leb_le|apply Nat.leb_gt]; lia.
Qed.

Lemma sim_rvr s a src dst t g :
  R s a -> src < n_nodes cfg -> dst < n_nodes cfg ->
  In (Vote.RVR (N.to_nat t) g (N.to_nat src) (N.to_nat dst)) (Vote.msgs a) ->
  exists a', step01 a a' /\ R (upd_node s dst (h_rvr cfg dst (nth_node (nodes s) dst) src t g) []) a'.
Proof.
  intros HR Hsrc Hdst Hm.
  pose proof (Vote.s_recv_rvr n q a (N.to_nat dst) (N.to_nat t) g (N.to_nat src) (id_lt _ Hdst) (id_lt _ Hsrc) Hm) as St.
  cbv zeta in St. eexists. split; [right; exact St|].
  pose proof (absn_old s a dst HR Hdst) as Hold. unfold old in Hold. rewrite Hold.
  set (nd := nth_node (nodes s) dst) in *.
  unfold h_rvr. change (Vote.rl (absn nd)) with (absr (rl nd)).
  destruct (rl nd) eqn:Er; cbn [absr];
    try (apply R_stutter; auto; intros ? ? []).
  change (Vote.term (absn nd)) with (N.to_nat (term nd)). rewrite to_nat_ltb, to_nat_eqb.
  change (Vote.votes (absn nd)) with (map N.to_nat (votes nd)). rewrite map_to_nat_mem.
  destruct (N.ltb (term nd) t).
  - apply (R_upd0 s a); auto; cbn [Vote.nodes Vote.msgs]; auto.
  - destruct (g && N.eqb t (term nd) && negb (memb src (votes nd))).
    + replace (map N.to_nat (votes nd) ++ [N.to_nat src]) with (map N.to_nat (votes nd ++ [src])) by (rewrite map_app; reflexivity).
      rewrite leb_llen. destruct (N.leb (quorum cfg) (llen (votes nd ++ [src]))).
      * apply (R_upd0 s a); auto; cbn [Vote.nodes Vote.msgs]; auto.
        all: try (intros j; unfold become_leader, absn; cbn; rewrite Er; reflexivity).
      * apply (R_upd0 s a); auto; cbn [Vote.nodes Vote.msgs]; auto.
        all: try (intros j; unfold absn; cbn; rewrite Er; reflexivity).
    + apply R_stutter; auto. intros ? ? [].
Qed.

Lemma absn_eq x y : term x = term y -> voted x = voted y -> rl x = rl y -> votes x = votes y -> absn x = absn y.
Proof. unfold absn. intros -> -> -> ->. reflexivity. Qed.
Ltac absn_same Er := apply absn_eq; first [reflexivity | symmetry; exact Er | exact Er].

(* ---------------- the simulation, one global op at a time ---------------- *)
Theorem sim_step : forall s a o, R s a -> exists a', step01 a a' /\ R (fst (gstep cfg ru s o)) a'.
Proof.
  intros s a o HR.
  assert (Stay : exists a', step01 a a' /\ R s a') by (exists a; split; [left; reflexivity|exact HR]).
  destruct o as [i|i|i|i|i p ok|k ok|i|i ok|i h|i]; cbn [gstep].
  - (* GElect *)
    unfold valid_id. destruct (N.ltb_spec i (n_nodes cfg)) as [Hi|]; cbn [fst]; [|exact Stay].
    apply sim_timeout; auto.
    + unfold start_election, absn. cbn. rewrite (absn_old s a i HR Hi). cbn. f_equal. lia.
    + intros d m0 H. apply (rv_msgs_ok _ _ _ _ H).
  - (* GPreVote: invisible to the voting abstraction *)
    unfold valid_id. destruct (N.ltb_spec i (n_nodes cfg)) as [Hi|]; cbn [fst]; [|exact Stay].
    exists a. split; [left; reflexivity|]. apply R_stutter; auto.
    intros d m0 H. unfold pv_msgs in H. destruct (last_info _) as [lli llt].
    apply in_map_iff in H. destruct H as [p [E Hp]]. injection E as <- <-. split; [reflexivity|apply (peers_valid i p Hp)].
  - (* GRequestVotes *)
    unfold valid_id. destruct (N.ltb_spec i (n_nodes cfg)) as [Hi|]; cbn [fst]; [|exact Stay].
    destruct (rl (nth_node (nodes s) i)) eqn:Er; try exact Stay.
    set (nd := nth_node (nodes s) i) in *.
    set (extra := map (fun dm => Vote.RV (N.to_nat (term nd)) (N.to_nat i) (N.to_nat (fst dm))) (rv_msgs cfg i nd)).
    exists (Vote.mkS (Vote.nodes a) (extra ++ Vote.msgs a) (Vote.cast a) (Vote.leaders a)). split.
    + right. apply Vote.s_more_rv. intros m Hm. unfold extra in Hm.
      apply in_map_iff in Hm. destruct Hm as [dm [<- _]]. eauto.
    + eapply R_upd; eauto; cbn [Vote.nodes Vote.msgs].
      * intros j. unfold Vote.upd. destruct (Nat.eqb_spec j (N.to_nat i)) as [->|]; [|reflexivity].
        apply (R_nodes _ _ HR). exact Hi.
      * intros m Hm. apply in_or_app. right. exact Hm.
      * intros d m0 m Hin Hm. destruct (rv_msgs_ok _ _ _ _ Hin) as [_ [lli [llt ->]]]. cbn in Hm. destruct Hm as [<-|[]].
        apply in_or_app. left. unfold extra. apply in_map_iff. exists (d, RV (term nd) i lli llt). split; [reflexivity|exact Hin].
      * intros d m0 Hin. apply (rv_msgs_ok _ _ _ _ Hin).
      * intros d t c x0 y Hin. destruct (rv_msgs_ok _ _ _ _ Hin) as [_ [lli [llt E]]]. injection E as _ <- _ _. reflexivity.
      * intros t g v d Hin. left. apply in_app_or in Hin. destruct Hin as [Hin|Hin]; [|exact Hin].
        unfold extra in Hin. apply in_map_iff in Hin. destruct Hin as [? [E _]]. discriminate.
  - (* GHeartbeat: AppendEntries are invisible *)
    unfold valid_id. destruct (N.ltb_spec i (n_nodes cfg)) as [Hi|]; cbn [fst]; [|exact Stay].
    exists a. split; [left; reflexivity|]. apply R_stutter; auto.
    intros d m0 H. unfold heartbeat_msgs in H. destruct (rl _); try contradiction.
    apply in_map_iff in H. destruct H as [p [E Hp]]. destruct (entries_for _ _ p) as [[pi pt] es].
    injection E as <- <-. split; [reflexivity|apply (peers_valid i p Hp)].
  - (* GPropose *)
    unfold valid_id. destruct (N.ltb_spec i (n_nodes cfg)) as [Hi|]; cbn [fst]; [|exact Stay].
    exists a. split; [left; reflexivity|]. apply R_stutter; auto; [|intros ? ? []].
    unfold propose. destruct (rl (nth_node (nodes s) i)) eqn:Er; try reflexivity.
    destruct ok; [|reflexivity]. unfold absn. cbn. rewrite Er. reflexivity.
  - (* GDeliver *)
    destruct (nth_error (pool s) (N.to_nat k)) as [[[src dst] m]|] eqn:Ek; cbn [fst]; [|exact Stay].
    apply nth_error_In in Ek.
    destruct (R_ids _ _ HR _ _ _ Ek) as [Hsrc Hdst].
    unfold valid_id. destruct (N.ltb_spec dst (n_nodes cfg)) as [_|]; [|lia]. cbn [fst].
    pose proof (absn_old s a dst HR Hdst) as Hold.
    set (nd := nth_node (nodes s) dst) in *.
    destruct m as [t cand lli llt|t g voter|t cand lli llt|t g voter|t ldr pi pt es lc|t succ fol mi]; cbn [deliver]; cbv zeta; fold nd.
    + (* RequestVote *)
      assert (Ec : src = cand) by (eapply (R_rv _ _ HR); eauto). subst cand.
      assert (Hm : In (Vote.RV (N.to_nat t) (N.to_nat src) (N.to_nat dst)) (Vote.msgs a)).
      { eapply (R_msgs _ _ HR); [exact Ek|]. cbn. left. reflexivity. }
      destruct (h_rv ru dst nd t src lli llt ok) as [nd' r] eqn:Eh.
      destruct (h_rv_abs _ _ _ _ _ _ _ _ _ Eh) as [okA [Hn' [tt [Hr Htt]]]]. cbv zeta in Hn'.
      pose proof (Vote.s_recv_rv n q a (N.to_nat dst) (N.to_nat t) (N.to_nat src) okA (id_lt _ Hdst) Hm) as St.
      cbv zeta in St. eexists. split; [right; exact St|].
      unfold old in Hold. rewrite Hold in *.
      eapply R_upd; eauto; cbn [Vote.nodes Vote.msgs].
      * intros j. rewrite Hn'. reflexivity.
      * intros m Hm'. right. exact Hm'.
      * intros d m0 m [E|[]] Hin. injection E as <- <-. subst r. cbn in Hin. destruct Hin as [<-|[]]. left.
        rewrite Htt. reflexivity.
      * intros d m0 [E|[]]. injection E as <- _. exact Hsrc.
      * intros d t0 c x0 y [E|[]]. injection E as _ E. subst r. discriminate.
      * intros t0 g0 v0 d0 [E|Hin]; [|left; exact Hin]. right. injection E as E1 E2 E3 E4.
        exists tt, dst, src. split; [left; subst r; rewrite E2; reflexivity|]. repeat split; congruence.
    + (* RequestVoteResponse *)
      apply sim_rvr; auto. eapply (R_msgs _ _ HR); [exact Ek|]. cbn. left. reflexivity.
    + (* PreVote: no state change *)
      unfold h_pv. destruct (last_info (log nd)) as [mli mlt].
      exists a. split; [left; reflexivity|]. apply R_stutter; auto.
      intros d m0 [E|[]]. injection E as <- <-. split; [reflexivity|exact Hsrc].
    + (* PreVoteResponse *)
      unfold h_pvr. destruct (in_prevote nd); cbn [negb].
      2:{ exists a. split; [left; reflexivity|]. apply R_stutter; auto. intros ? ? []. }
      destruct (N.ltb_spec (term nd) t) as [Hlt|Hge].
      * apply sim_demote; auto; try (intros ? ? []).
        -- rewrite Hold. cbn. lia.
        -- rewrite Hold. cbn. lia.
      * destruct (g && N.eqb t (term nd) && negb (memb src (prevotes nd))).
        -- destruct (N.leb (quorum cfg) (llen (prevotes nd ++ [src]))).
           ++ apply sim_timeout; auto; [|intros ? ? []].
              rewrite Hold. unfold start_election, absn. cbn. f_equal. lia.
           ++ exists a. split; [left; reflexivity|]. apply R_stutter; auto. intros ? ? [].
        -- exists a. split; [left; reflexivity|]. apply R_stutter; auto. intros ? ? [].
    + (* AppendEntries *)
      unfold h_ae.
      assert (Ho : forall (tt : N) (sc : bool) (mi : N) d m0, In (d, m0) [(src, AER tt sc dst mi)] ->
                   absm (dst, d, m0) = [] /\ d < n_nodes cfg).
      { intros tt sc mi d m0 [E|[]]. injection E as <- <-. split; [reflexivity|exact Hsrc]. }
      destruct (N.ltb_spec (term nd) t) as [Hlt|Hge].
      * (* higher term: step down, then follow *)
        change (term (step_down nd t)) with t. rewrite N.eqb_refl.
        match goal with |- context [if ?c then _ else _] => destruct c end.
        -- apply sim_demote; auto; [rewrite Hold; cbn; lia|rewrite Hold; cbn; lia|apply Ho].
        -- apply sim_demote; auto; [rewrite Hold; cbn; lia|rewrite Hold; cbn; lia|apply Ho].
      * destruct (N.eqb_spec t (term nd)) as [->|Hne].
        -- match goal with |- context [if ?c then _ else _] => destruct c end.
           ++ apply sim_demote; auto; [rewrite Hold; cbn; lia|rewrite Hold; cbn; reflexivity|apply Ho].
           ++ apply sim_demote; auto; [rewrite Hold; cbn; lia|rewrite Hold; cbn; reflexivity|apply Ho].
        -- exists a. split; [left; reflexivity|]. apply R_stutter; auto. apply Ho.
    + (* AppendEntriesResponse *)
      unfold nd in *. clear nd. set (nd := nth_node (nodes s) dst) in *.
      unfold h_aer. destruct (rl nd) eqn:Er;
        try (exists a; split; [left; reflexivity|]; apply R_stutter; auto; intros ? ? []).
      destruct (N.ltb_spec (term nd) t) as [Hlt|Hge].
      * apply sim_demote; auto; try (intros ? ? []); try rewrite Hold; cbn; try rewrite Er; auto; lia.
      * exists a. split; [left; reflexivity|]. apply R_stutter; auto; [|intros ? ? []].
        destruct (stale_ack_ignored ru && N.ltb t (term nd)); [reflexivity|].
        destruct (lvs nd) as [ls|]; [|reflexivity].
        destruct succ; [|absn_same Er].
        unfold try_advance. cbn [rl lvs]. try rewrite Er.
        match goal with |- context [if ?c then _ else _] => destruct c end; [|absn_same Er].
        match goal with |- context [match ?c with Some _ => _ | None => _ end] => destruct c end; [|absn_same Er].
        match goal with |- context [if ?c then _ else _] => destruct c end; absn_same Er.
  - (* GRestart *)
    unfold valid_id. destruct (N.ltb_spec i (n_nodes cfg)) as [Hi|]; cbn [fst]; [|exact Stay].
    pose proof (absn_old s a i HR Hi) as Hold. unfold old in Hold.
    apply sim_demote; auto; try (intros ? ? []); unfold old; rewrite Hold; cbn; auto.
  - (* GTimeoutNow *)
    unfold valid_id. destruct (N.ltb_spec i (n_nodes cfg)) as [Hi|]; cbn [fst]; [|exact Stay].
    destruct ok; cbn [fst]; [|exact Stay].
    apply sim_timeout; auto.
    + unfold start_election, absn. cbn. rewrite (absn_old s a i HR Hi). cbn. f_equal. lia.
    + intros d m0 [].
  - (* GFinalize: invisible to the voting abstraction *)
    unfold valid_id. destruct (N.ltb_spec i (n_nodes cfg)) as [Hi|]; cbn [fst]; [|exact Stay].
    exists a. split; [left; reflexivity|]. apply R_stutter; auto.
    + unfold finalize. match goal with |- context [if ?c then _ else _] => destruct c end; reflexivity.
    + intros d m0 [].
  - (* GCompact: invisible to the voting abstraction *)
    unfold valid_id. destruct (N.ltb_spec i (n_nodes cfg)) as [Hi|]; cbn [fst]; [|exact Stay].
    exists a. split; [left; reflexivity|]. apply R_stutter; auto.
    + unfold compact. match goal with |- context [if ?c then _ else _] => destruct c end; reflexivity.
    + intros d m0 [].
Qed.


(* ---------------- runs ---------------- *)
Definition run_from (s : sys) (ops : list gop) : sys := fold_left (fun s o => fst (gstep cfg ru s o)) ops s.

Lemma sim_run_from : forall ops s a, R s a -> exists a', star a a' /\ R (run_from s ops) a'.
Proof.
  induction ops as [|o ops IH]; intros s a HR.
  - exists a. split; [constructor|exact HR].
  - cbn [run_from fold_left]. destruct (sim_step s a o HR) as [a1 [S1 R1]]. apply step01_star in S1.
    destruct (IH _ _ R1) as [a2 [S2 R2]]. exists a2. split; [eapply Vote.star_trans; eauto|exact R2].
Qed.

Lemma N_seq_from_len c st : length (N_seq_from st c) = c.
Proof. revert st. induction c; intros; cbn; auto. Qed.

Lemma nth_const_map {A} (l : list A) i : nth i (map (fun _ => init_node) l) init_node = init_node.
Proof. revert i. induction l as [|x l IH]; intros [|i]; cbn; auto. Qed.

Lemma R_init : R (init_sys cfg) Vote.init.
Proof.
  constructor; unfold init_sys; cbn [nodes pool].
  - rewrite map_length. unfold N_seq. apply N_seq_from_len.
  - intros i Hi. unfold nth_node. rewrite nth_const_map. reflexivity.
  - intros e m [].
  - intros ? ? ? [].
  - intros ? ? ? ? ? ? [].
  - intros ? ? ? ? [].
Qed.

Lemma run_from_app s o1 o2 : run_from s (o1 ++ o2) = run_from (run_from s o1) o2.
Proof. unfold run_from. apply fold_left_app. Qed.

Lemma grun_run_from ops : grun cfg ru ops = run_from (init_sys cfg) ops.
Proof. reflexivity. Qed.

Lemma leader_in_ghost s a i :
  R s a -> Vote.Inv n q a -> i < n_nodes cfg -> rl (nth_node (nodes s) i) = Leader ->
  In (N.to_nat (term (nth_node (nodes s) i)), N.to_nat i) (Vote.leaders a).
Proof.
  intros HR HI Hi Hl. pose proof (Vote.I7 _ _ _ HI (N.to_nat i)) as H7.
  rewrite (R_nodes _ _ HR i Hi) in H7. cbn in H7. rewrite Hl in H7. apply H7. reflexivity.
Qed.

(* node i is leader of term t after the first k steps of the schedule *)
Definition leader_at (ops : list gop) (k : nat) (t i : N) : Prop :=
  let s := grun cfg ru (firstn k ops) in
  i < n_nodes cfg /\ rl (nth_node (nodes s) i) = Leader /\ term (nth_node (nodes s) i) = t.

(* ELECTION SAFETY over the whole history of any schedule: if i is leader of term t at one moment
   and j is leader of the same term at any (other) moment, then i = j. *)
Theorem election_safety : forall ops k1 k2 t i j,
  leader_at ops k1 t i -> leader_at ops k2 t j -> i = j.
Proof.
  assert (W : forall ops k1 k2 t i j, (k1 <= k2)%nat ->
            leader_at ops k1 t i -> leader_at ops k2 t j -> i = j).
  { intros ops k1 k2 t i j Hk [Hi [Li Ti]] [Hj [Lj Tj]]. cbv zeta in *.
    rewrite grun_run_from in *.
    destruct (sim_run_from (firstn k1 ops) _ _ R_init) as [a1 [S1 R1]].
    assert (I1 : Vote.Inv n q a1) by (eapply (Vote.star_inv n q quorum_ok); [exact S1|apply Vote.inv_init]).
    pose proof (leader_in_ghost _ _ _ R1 I1 Hi Li) as G1. rewrite Ti in G1.
    assert (E : firstn k2 ops = firstn k1 ops ++ firstn (k2 - k1) (skipn k1 ops)).
    { rewrite <- (firstn_skipn k1 ops) at 1. rewrite firstn_app, firstn_firstn.
      replace (Nat.min k2 k1) with k1 by lia. f_equal.
      rewrite firstn_length. destruct (le_lt_dec k1 (length ops)).
      - replace (Nat.min k1 (length ops)) with k1 by lia. reflexivity.
      - rewrite !skipn_all2 by lia. rewrite !firstn_nil. reflexivity. }
    rewrite E, run_from_app in Lj, Tj.
    destruct (sim_run_from (firstn (k2 - k1) (skipn k1 ops)) _ _ R1) as [a2 [S2 R2]].
    assert (I2 : Vote.Inv n q a2) by (eapply (Vote.star_inv n q quorum_ok); eauto).
    pose proof (leader_in_ghost _ _ _ R2 I2 Hj Lj) as G2. rewrite Tj in G2.
    pose proof (Vote.star_leaders_mono _ _ _ _ S2 _ G1) as G1'.
    pose proof (Vote.election_safety n q quorum_ok a2 I2 _ _ _ G1' G2). lia. }
  intros ops k1 k2 t i j H1 H2. destruct (le_lt_dec k1 k2).
  - eapply W; eauto.
  - symmetry. eapply (W ops k2 k1); eauto. lia.
Qed.

End Sim.
