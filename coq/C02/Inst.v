(* C02/Inst.v -- per-run obligations over coq/gen/Gen_C02.v (regenerated from wal.rs /
   slab_router.rs on every run): the configuration read from the source is the repaired one the
   theorems are proved for, and the step orders the model assumes are the ones in the source. *)
From NV.Common Require Import Base WalFormat.
From NV.C02 Require Import Model Proofs Run.
From NV.gen Require Import Gen_C02.
Open Scope N_scope.

Lemma gen_cfg_fixed :
  the_cfg = cF /\ gen_put_order_ok = true /\ gen_ckpt_order_ok = true.
Proof. repeat split; reflexivity. Qed.

(* the tail repair done by open must follow EVERY record length the writer can produce (the writer
   and replay have no bound below u32::MAX): the model's [repair] / [scan_end] has no bound, and the
   theorems are about that model.  A length cap in complete_prefix_len would cut a valid large record
   -- and everything after it -- off the log on the next open. *)
Lemma scan_follows_every_length : gen_scan_cap = None.
Proof. reflexivity. Qed.
