(* C02/Inst.v -- per-run obligations over coq/gen/Gen_C02.v (regenerated from wal.rs /
   slab_router.rs on every run): the configuration read from the source is the repaired one the
   theorems are proved for, and the step orders the model assumes are the ones in the source. *)
From NV.Common Require Import Base WalFormat.
From NV.C02 Require Import Model Proofs Run.
From NV.gen Require Import Gen_C02.
Open Scope N_scope.

Lemma gen_cfg_fixed :
  the_cfg = cF /\ gen_put_order_ok = true /\ gen_ckpt_order_ok = true.
Proof. repeat split; reflexivity. Qed.
