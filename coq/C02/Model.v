(* C02/Model.v -- executable model of the durable store:
     tensor_store/src/slab_router.rs  put / get / delete / exists / scan, put_durable,
                                      delete_durable, checkpoint, recover, apply_wal_entry
     tensor_store/src/entity_index.rs get / get_or_create / remove  (append-only vocabulary,
                                      tombstones, ids never reused)
     tensor_store/src/embedding_slab.rs set (dimension check) / get / delete
     tensor_store/src/wal.rs          append (Common/WalFormat.frame), WalRecovery::from_entries,
                                      open = tail repair, replay (Common/WalFormat)
   Definitions only.  Keys are small ids; the key class is a function of the id (the harness
   names key k  emb:k / user:k / node:k / table:k / _cache:k  for k mod 5 = 0..4).  A value is
   (base id, embedding) where the base id names the TensorData without its `_embedding` field
   (0 = the empty TensorData) and the embedding is a vector id (ids >= 100 are vectors of the
   slab's dimension 384, smaller ids are short vectors that the slab rejects). *)
From NV.Common Require Import Base WalFormat.
Open Scope N_scope.

Record value := V { vbase : N; vemb : option N }.
Definition value_eqb (a b : value) : bool :=
  N.eqb (vbase a) (vbase b) && option_eqb N.eqb (vemb a) (vemb b).

Inductive wentry :=
| MetaSet (k : N) (v : value)
| MetaDel (k : N)
| EmbSet (id : N) (vec : N)
| EmbDel (id : N)
| EntCreate (k : N) (id : N)
| EntRemove (k : N)
| TxBegin (t : N)
| TxCommit (t : N)
| TxAbort (t : N)
| Checkpoint (id : N).

Definition wentry_eqb (a b : wentry) : bool :=
  match a, b with
  | MetaSet k v, MetaSet k' v' => N.eqb k k' && value_eqb v v'
  | MetaDel k, MetaDel k' => N.eqb k k'
  | EmbSet i v, EmbSet i' v' => N.eqb i i' && N.eqb v v'
  | EmbDel i, EmbDel i' => N.eqb i i'
  | EntCreate k i, EntCreate k' i' => N.eqb k k' && N.eqb i i'
  | EntRemove k, EntRemove k' => N.eqb k k'
  | TxBegin t, TxBegin t' => N.eqb t t'
  | TxCommit t, TxCommit t' => N.eqb t t'
  | TxAbort t, TxAbort t' => N.eqb t t'
  | Checkpoint i, Checkpoint i' => N.eqb i i'
  | _, _ => false
  end.

(* ---------------------------------------------------------------- key classes *)
Definition kclass (k : N) : N := k mod 5.
Definition is_emb (k : N) : bool := kclass k =? 0.
Definition is_cache (k : N) : bool := kclass k =? 4.
Definition dimok (vec : N) : bool := 100 <=? vec.

(* ---------------------------------------------------------------- in-memory slabs *)
Record store := St {
  meta : list (N * value);      (* MetadataSlab: key -> TensorData *)
  vocab : list N;               (* EntityIndex vocabulary: position = entity id *)
  tomb : list N;                (* tombstoned entity ids *)
  embs : list (N * N);          (* EmbeddingSlab: entity id -> vector *)
  cache : list N                (* CacheRing: keys present (values are not observed; volatile) *)
}.
Definition empty_store : store := St [] [] [] [] [].

Fixpoint index_find (voc : list N) (tb : list N) (k : N) (pos : N) : option N :=
  match voc with
  | [] => None
  | x :: r => if (x =? k) && negb (existsb (N.eqb pos) tb) then Some pos
              else index_find r tb k (N.succ pos)
  end.
Definition index_get (s : store) (k : N) : option N := index_find (vocab s) (tomb s) k 0.
Definition index_goc (s : store) (k : N) : store * N :=
  match index_get s k with
  | Some id => (s, id)
  | None => (St (meta s) (vocab s ++ [k]) (tomb s) (embs s) (cache s), N.of_nat (length (vocab s)))
  end.
Definition index_remove (s : store) (k : N) : store :=
  match index_get s k with
  | Some id => St (meta s) (vocab s) (id :: tomb s) (embs s) (cache s)
  | None => s
  end.
Definition emb_set (s : store) (id vec : N) : store :=
  if dimok vec then St (meta s) (vocab s) (tomb s) (aset (embs s) id vec) (cache s) else s.
Definition emb_del (s : store) (id : N) : store :=
  St (meta s) (vocab s) (tomb s) (adel (embs s) id) (cache s).
Definition meta_set (s : store) (k : N) (v : value) : store :=
  St (aset (meta s) k v) (vocab s) (tomb s) (embs s) (cache s).
Definition meta_del (s : store) (k : N) : store :=
  St (adel (meta s) k) (vocab s) (tomb s) (embs s) (cache s).

(* SlabRouter::put (of a cache-class key only its presence is tracked: values are not observed) *)
(* [slab_mirror]: for an embedding-class key the slab entry always mirrors the value just
   written -- a value without (usable) embedding drops the vector of an earlier write (true after
   the fix; before it the old vector stayed and `get` returned it as part of the new value) *)
Definition emb_store (slab_mirror : bool) (s : store) (id : N) (ov : option N) : store :=
  match ov with
  | Some vec => if dimok vec then emb_set s id vec else if slab_mirror then emb_del s id else s
  | None => if slab_mirror then emb_del s id else s
  end.
Definition put (slab_mirror : bool) (s : store) (k : N) (v : value) : store :=
  if is_cache k then
    St (meta s) (vocab s) (tomb s) (embs s) (if existsb (N.eqb k) (cache s) then cache s else k :: cache s)
  else if is_emb k then
    let '(s1, id) := index_goc s k in
    meta_set (emb_store slab_mirror s1 id (vemb v)) k v
  else meta_set s k v.

Definition has_meta (s : store) (k : N) : bool :=
  match aget (meta s) k with Some _ => true | None => false end.
Definition exists_key (s : store) (k : N) : bool :=
  if is_cache k then existsb (N.eqb k) (cache s)
  else if is_emb k then (match index_get s k with Some _ => true | None => false end) || has_meta s k
  else has_meta s k.

(* SlabRouter::delete : (state, succeeded).  [ghost_fixed] = the entity-index entry is dropped
   for every key class (true after the fix; the translator reads it from the source). *)
Definition delete (ghost_fixed : bool) (s : store) (k : N) : store * bool :=
  if negb (exists_key s k) then (s, false)
  else if is_cache k then
    (St (meta s) (vocab s) (tomb s) (embs s) (filter (fun x => negb (N.eqb x k)) (cache s)), true)
  else if is_emb k then
    let s1 := match index_get s k with Some id => emb_del s id | None => s end in
    (meta_del (index_remove s1 k) k, true)
  else ((if ghost_fixed then meta_del (index_remove s k) k else meta_del s k), true).

(* SlabRouter::get *)
Definition get (s : store) (k : N) : option value :=
  if is_cache k then None
  else if is_emb k then
    match index_get s k with
    | Some id =>
        match aget (embs s) id with
        | Some vec => Some (V (match aget (meta s) k with Some v => vbase v | None => 0 end) (Some vec))
        | None => aget (meta s) k
        end
    | None => aget (meta s) k
    end
  else aget (meta s) k.

(* SlabRouter::scan("") membership of key k (metadata ∪ entity index), cache keys excluded *)
Definition in_scan (s : store) (k : N) : bool :=
  if is_cache k then false
  else has_meta s k || (match index_get s k with Some _ => true | None => false end).

(* what a caller can see of keys 0..K-1 *)
Definition obs := list (option value * bool).
Definition observe (K : N) (s : store) : obs := map (fun k => (get s k, in_scan s k)) (N_seq K).
Definition obs_eqb : obs -> obs -> bool :=
  list_eqb (pair_eqb (option_eqb value_eqb) Bool.eqb).

(* ---------------------------------------------------------------- what the durable calls log *)
(* put_durable: entries written (in order) and the state after the index side effect *)
Definition log_put (meta_first : bool) (s : store) (k : N) (v : value) : list wentry * store :=
  match vemb v with
  | Some vec =>
      let '(s1, id) := index_goc s k in
      ((if meta_first then [MetaSet k v; EmbSet id vec] else [EmbSet id vec; MetaSet k v]), s1)
  | None => ([MetaSet k v], s)
  end.
Definition log_del (s : store) (k : N) : list wentry :=
  match index_get s k with
  | Some id => [EmbDel id; EntRemove k; MetaDel k]
  | None => [MetaDel k]
  end.

(* apply_wal_entry.  [replay_index_fixed]: MetadataSet of an embedding-class key re-creates the
   entity-index entry exactly as the live `put` does (true after the fix). *)
Definition apply_entry (replay_index_fixed slab_mirror : bool) (s : store) (e : wentry) : store :=
  match e with
  | MetaSet k v =>
      let s1 := meta_set s k v in
      let s1' := if replay_index_fixed && is_emb k then fst (index_goc s1 k) else s1 in
      match vemb v with
      | Some vec =>
          let '(s2, id) := index_goc s1' k in
          if is_emb k then emb_store slab_mirror s2 id (Some vec) else emb_set s2 id vec
      | None =>
          if slab_mirror && is_emb k then
            match index_get s1' k with Some id => emb_del s1' id | None => s1' end
          else s1'
      end
  | MetaDel k => meta_del s k
  | EmbSet id vec => emb_set s id vec
  | EmbDel id => emb_del s id
  | EntCreate k _ => fst (index_goc s k)
  | EntRemove k => index_remove s k
  | TxBegin _ | TxCommit _ | TxAbort _ | Checkpoint _ => s
  end.

(* WalRecovery::from_entries + all_operations *)
Record rec_state := RS {
  r_ops : list wentry; r_committed : list wentry;
  r_active : option N; r_bufs : list (N * list wentry) }.
Definition rs0 : rec_state := RS [] [] None [].
Definition rec_step (r : rec_state) (e : wentry) : rec_state :=
  match e with
  | TxBegin t => RS (r_ops r) (r_committed r) (Some t) (aset (r_bufs r) t [])
  | TxCommit t =>
      let com := match aget (r_bufs r) t with Some b => r_committed r ++ b | None => r_committed r end in
      RS (r_ops r) com (if option_eqb N.eqb (r_active r) (Some t) then None else r_active r)
         (adel (r_bufs r) t)
  | TxAbort t =>
      RS (r_ops r) (r_committed r) (if option_eqb N.eqb (r_active r) (Some t) then None else r_active r)
         (adel (r_bufs r) t)
  | Checkpoint _ => rs0
  | _ =>
      match r_active r with
      | Some t =>
          match aget (r_bufs r) t with
          | Some b => RS (r_ops r) (r_committed r) (r_active r) (aset (r_bufs r) t (b ++ [e]))
          | None => r
          end
      | None => RS (r_ops r ++ [e]) (r_committed r) None (r_bufs r)
      end
  end.
Definition all_operations (es : list wentry) : list wentry :=
  let r := fold_left rec_step es rs0 in r_ops r ++ r_committed r.

(* ---------------------------------------------------------------- the durable store *)
Record cfg := Cfg { ghost_fixed : bool; replay_index_fixed : bool; tail_repair : bool;
                    meta_first : bool (* put_durable logs MetadataSet before EmbeddingSet *);
                    slab_mirror : bool }.

Section Durable.
Variable ser : wentry -> list byte.
Variable deser : list byte -> option wentry.
Variable crc : list byte -> N.
Variable c : cfg.

Record dstore := D {
  st : store;                 (* in-memory slabs *)
  file : list byte;           (* the live WAL file *)
  snap : option store;        (* the snapshot file, if a checkpoint was taken *)
  ctr : N                     (* checkpoint counter *)
}.
Definition d0 : dstore := D empty_store [] None 0.

Definition append (f : list byte) (es : list wentry) : list byte :=
  f ++ log_bytes ser crc true es.

Inductive op := Put (k : N) (v : value) | Del (k : N) | Ckpt.

(* one call; second component: did the call return Ok *)
Definition step (d : dstore) (o : op) : dstore * bool :=
  match o with
  | Put k v =>
      if is_cache k then (D (put (slab_mirror c) (st d) k v) (file d) (snap d) (ctr d), true)
      else let '(es, s1) := log_put (meta_first c) (st d) k v in
           (D (put (slab_mirror c) s1 k v) (append (file d) es) (snap d) (ctr d), true)
  | Del k =>
      if is_cache k then
        let '(s1, ok) := delete (ghost_fixed c) (st d) k in (D s1 (file d) (snap d) (ctr d), ok)
      else let es := log_del (st d) k in
           let '(s1, ok) := delete (ghost_fixed c) (st d) k in
           (D s1 (append (file d) es) (snap d) (ctr d), ok)
  | Ckpt =>
      (* snapshot written; marker appended; log truncated *)
      (D (st d) [] (Some (st d)) (N.succ (ctr d)), true)
  end.

Fixpoint run (d : dstore) (ops : list op) : dstore :=
  match ops with [] => d | o :: r => run (fst (step d o)) r end.

(* the three boundaries inside checkpoint(), as crash states (snapshot, log bytes) *)
Definition ckpt_stages (d : dstore) : list (option store * list byte) :=
  [ (Some (st d), file d);                                   (* snapshot written *)
    (Some (st d), append (file d) [Checkpoint (ctr d)]);     (* marker logged *)
    (Some (st d), []) ].                                     (* log truncated *)

(* TensorStore::recover(wal_path, cfg, snapshot_path) on a (snapshot, log) pair *)
Definition recover (f : list byte) (sn : option store) : option dstore :=
  let f' := if tail_repair c then repair f else f in
  match replay_file deser crc true f' with
  | ErrChecksum _ => None
  | Ok es =>
      Some (D (fold_left (apply_entry (replay_index_fixed c) (slab_mirror c)) (all_operations es)
                         (match sn with Some s => s | None => empty_store end))
              f' sn 0)
  end.
End Durable.
