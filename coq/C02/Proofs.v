(* C02/Proofs.v -- lemmas and main theorems for the durable store.
   1. entity-index facts (ids are vocabulary positions, get_or_create is idempotent);
   2. THE simulation (op_replay_eq): for every call of the proved class, replaying the records it
      logged gives exactly the in-memory state the live call produced (volatile cache aside);
   3. every prefix of one call's records leaves a well-formed store; put_durable with a vector is
      already complete after its first record;
   4. recovery from ANY byte prefix of the log = replay of the records completely inside it over
      the snapshot; the result is a good store again, so the argument repeats for every later crash.
   Proved class ([plain]): put_durable / delete_durable where only embedding-class keys carry an
   `_embedding`; checkpoint steps are not part of these theorems (see Props.v for what is partial). *)
From NV.Common Require Import Base WalFormat.
From NV.C02 Require Import Model.
Open Scope N_scope.
Arguments N.add : simpl never. Arguments N.sub : simpl never. Arguments N.mul : simpl never.
Arguments N.eqb : simpl never. Arguments N.ltb : simpl never. Arguments N.leb : simpl never.

(* ======================================================================== *)
(* ------------------------------------------------------------ association lists *)
Lemma adel_absent {V} (l : list (N * V)) k : aget l k = None -> adel l k = l.
Proof.
  induction l as [|[k0 v0] l IH]; cbn; intros H; [reflexivity|].
  destruct (N.eqb_spec k0 k) as [->|Hne]; [discriminate|]. f_equal. apply IH. exact H.
Qed.
Lemma aset_same {V} (l : list (N * V)) k v : aget l k = Some v -> aset l k v = l.
Proof.
  induction l as [|[k0 v0] l IH]; cbn; intros H; [discriminate|].
  destruct (N.eqb_spec k0 k) as [->|Hne]; [inversion H; reflexivity|]. f_equal. apply IH. exact H.
Qed.
Lemma aset_idem {V} (l : list (N * V)) k v : aset (aset l k v) k v = aset l k v.
Proof. apply aset_same. rewrite aget_aset, N.eqb_refl. reflexivity. Qed.

(* ------------------------------------------------------------ entity index *)
Lemma index_find_spec : forall voc tb k p id, index_find voc tb k p = Some id ->
  exists j, id = p + N.of_nat j /\ nth_error voc j = Some k /\ existsb (N.eqb id) tb = false.
Proof.
  induction voc as [|x voc IH]; intros tb k p id H; cbn [index_find] in H; [discriminate|].
  destruct ((x =? k) && negb (existsb (N.eqb p) tb)) eqn:E.
  - inversion H; subst. apply andb_true_iff in E as [E1 E2]. apply N.eqb_eq in E1. subst x.
    exists 0%nat. split; [lia|]. split; [reflexivity|]. destruct (existsb (N.eqb id) tb); [discriminate|reflexivity].
  - destruct (IH tb k (N.succ p) id H) as (j & Hj & Hn & Ht).
    exists (S j). split; [lia|]. split; [exact Hn|exact Ht].
Qed.
Lemma index_find_in voc tb k p id : index_find voc tb k p = Some id -> In k voc.
Proof.
  intros H. destruct (index_find_spec _ _ _ _ _ H) as (j & _ & Hn & _). eapply nth_error_In. exact Hn.
Qed.
Lemma index_find_notin voc tb k p : ~ In k voc -> index_find voc tb k p = None.
Proof.
  revert p. induction voc as [|x voc IH]; intros p H; cbn [index_find]; [reflexivity|].
  destruct (N.eqb_spec x k) as [->|Hne]; [exfalso; apply H; left; reflexivity|]. cbn [andb].
  apply IH. intros Hin. apply H. right. exact Hin.
Qed.
Lemma index_find_app voc tb k p x : index_find voc tb k p = None ->
  index_find (voc ++ [x]) tb k p =
    if (x =? k) && negb (existsb (N.eqb (p + N.of_nat (length voc))) tb) then Some (p + N.of_nat (length voc)) else None.
Proof.
  revert p. induction voc as [|y voc IH]; intros p H; cbn [index_find app length] in *.
  - replace (p + N.of_nat 0) with p by lia. destruct ((x =? k) && negb (existsb (N.eqb p) tb)); reflexivity.
  - destruct ((y =? k) && negb (existsb (N.eqb p) tb)); [discriminate|].
    rewrite (IH _ H). replace (N.succ p + N.of_nat (length voc)) with (p + N.of_nat (S (length voc))) by lia. reflexivity.
Qed.
Lemma index_find_app_some voc tb k p x id : index_find voc tb k p = Some id -> index_find (voc ++ [x]) tb k p = Some id.
Proof.
  revert p. induction voc as [|y voc IH]; intros p H; cbn [index_find app] in *; [discriminate|].
  destruct ((y =? k) && negb (existsb (N.eqb p) tb)); [exact H|]. apply IH. exact H.
Qed.
(* ids point into the vocabulary, so a fresh id (= its length) is never tombstoned nor used *)
Definition ids_bounded (s : store) : Prop :=
  (forall id, In id (tomb s) -> id < N.of_nat (length (vocab s))) /\
  (forall id vec, aget (embs s) id = Some vec -> id < N.of_nat (length (vocab s))).

Lemma index_get_bound s k id : index_get s k = Some id -> id < N.of_nat (length (vocab s)).
Proof.
  unfold index_get. intros H. destruct (index_find_spec _ _ _ _ _ H) as (j & -> & Hn & _).
  assert (j < length (vocab s))%nat by (apply nth_error_Some; congruence). lia.
Qed.

(* ======================================================================== *)
(* the repaired code (all configuration flags as read from the source after the fixes) *)
Definition cF : cfg := Cfg true true true true true.
Definition nocache (s : store) : store := St (meta s) (vocab s) (tomb s) (embs s) [].

(* records one call appends, and the in-memory effect of the call *)
Definition op_recs (s : store) (o : op) : list wentry :=
  match o with
  | Put k v => if is_cache k then [] else fst (log_put true s k v)
  | Del k => if is_cache k then [] else log_del s k
  | Ckpt => []
  end.
Definition op_live (s : store) (o : op) : store :=
  match o with
  | Put k v => if is_cache k then put true s k v else put true (snd (log_put true s k v)) k v
  | Del k => fst (delete true s k)
  | Ckpt => s
  end.
Definition replay_all (es : list wentry) (s : store) : store := fold_left (apply_entry true true) es s.

(* in the proved class a value carries an `_embedding` only under an embedding-class key *)
Definition plain (o : op) : Prop :=
  match o with Put k v => is_cache k = false -> is_emb k = false -> vemb v = None | Del _ => True | Ckpt => False end.

Record Good (s : store) : Prop := {
  g_emb_only : forall k, In k (vocab s) -> is_emb k = true;   (* only embedding-class keys are indexed *)
  g_bounded : ids_bounded s
}.

Lemma emb_not_cache k : is_emb k = true -> is_cache k = false.
Proof.
  unfold is_emb, is_cache. intros H. apply N.eqb_eq in H. rewrite H. reflexivity.
Qed.

Lemma goc_fresh s k : ids_bounded s -> index_get s k = None ->
  index_get (St (meta s) (vocab s ++ [k]) (tomb s) (embs s) (cache s)) k = Some (N.of_nat (length (vocab s))).
Proof.
  intros [B _] H. unfold index_get in *. cbn [vocab tomb]. rewrite (index_find_app _ _ _ _ k H).
  rewrite N.eqb_refl. cbn [andb]. replace (0 + N.of_nat (length (vocab s))) with (N.of_nat (length (vocab s))) by lia.
  destruct (existsb (N.eqb (N.of_nat (length (vocab s)))) (tomb s)) eqn:E; [|reflexivity].
  apply existsb_exists in E as (x & Hx & Ex). apply N.eqb_eq in Ex. subst x. specialize (B _ Hx). lia.
Qed.

Lemma goc_idem s k : ids_bounded s -> index_goc (fst (index_goc s k)) k = index_goc s k.
Proof.
  intros B. unfold index_goc at 2 3. destruct (index_get s k) as [id|] eqn:E; cbn [fst].
  - unfold index_goc. rewrite E. reflexivity.
  - unfold index_goc. rewrite (goc_fresh s k B E). reflexivity.
Qed.
Lemma goc_get s k : ids_bounded s -> index_get (fst (index_goc s k)) k = Some (snd (index_goc s k)).
Proof.
  intros B. unfold index_goc. destruct (index_get s k) as [id|] eqn:E; cbn [fst snd]; [exact E|].
  apply goc_fresh; assumption.
Qed.

(* ======================================================================== *)
(* index lookups ignore the fields other than vocabulary and tombstones *)
Lemma index_get_fields m v t e c m' e' c' k :
  index_get (St m v t e c) k = index_get (St m' v t e' c') k.
Proof. reflexivity. Qed.

Ltac unf := unfold replay_all, op_recs, op_live, put, delete, log_put, log_del, apply_entry, emb_store,
  emb_set, emb_del, meta_set, meta_del, index_remove, index_goc, nocache, exists_key, has_meta in *.

(* THE simulation: for a call of the proved class, replaying the records it logged gives exactly
   the state the live call produced (the volatile cache aside) *)
Lemma op_replay_eq s o : Good s -> plain o ->
  nocache (op_live s o) = replay_all (op_recs s o) (nocache s).
Proof.
  intros G P. destruct G as [G1 G2]. destruct o as [k v|k|]; [| |destruct P].
  - (* Put *)
    cbn [op_live op_recs]. destruct (is_cache k) eqn:Ec.
    { unfold put. rewrite Ec. reflexivity. }
    cbn [plain] in P. specialize (P Ec).
    destruct (is_emb k) eqn:Ee.
    + (* embedding-class key *)
      destruct (vemb v) as [vec|] eqn:Ev.
      * (* with a vector: MetaSet, EmbSet *)
        unfold log_put. rewrite Ev.
        destruct (index_goc s k) as [s1 id] eqn:Eg. cbn [fst snd replay_all fold_left].
        assert (B1: ids_bounded s) by exact G2.
        pose proof (goc_idem s k B1) as Hid. rewrite Eg in Hid. cbn [fst] in Hid.
        unfold put. rewrite Ec, Ee, Hid.
        (* replay side *)
        unfold apply_entry at 2. rewrite Ev, Ee. cbn [andb].
        assert (Hn: index_goc (meta_set (nocache s) k v) k =
                    (St (aset (meta s) k v) (vocab s1) (tomb s1) (embs s) [], id)).
        { unfold index_goc in *. unfold meta_set, nocache. cbn [meta vocab tomb embs cache].
          rewrite (index_get_fields _ _ _ _ _ (meta s) (embs s) (cache s)).
          destruct s as [m vo tb em ca]. cbn [meta vocab tomb embs cache] in *.
          destruct (index_get (St m vo tb em ca) k); inversion Eg; subst; reflexivity. }
        rewrite Hn. cbn [fst].
        pose proof (goc_get s k G2) as Hg. rewrite Eg in Hg. cbn [fst snd] in Hg.
        assert (Hn2: index_goc (St (aset (meta s) k v) (vocab s1) (tomb s1) (embs s) []) k =
                     (St (aset (meta s) k v) (vocab s1) (tomb s1) (embs s) [], id)).
        { unfold index_goc.
          rewrite (index_get_fields _ _ _ _ _ (meta s1) (embs s1) (cache s1)).
          replace (St (meta s1) (vocab s1) (tomb s1) (embs s1) (cache s1)) with s1 by (destruct s1; reflexivity).
          rewrite Hg. reflexivity. }
        rewrite Hn2.
        assert (Es1: meta s1 = meta s /\ embs s1 = embs s).
        { unfold index_goc in Eg. destruct (index_get s k); inversion Eg; subst; split; reflexivity. }
        destruct Es1 as [Em1 Ee1].
        unfold emb_store, apply_entry, emb_set, emb_del, meta_set, nocache.
        destruct (dimok vec) eqn:Ed; cbn [meta vocab tomb embs cache]; rewrite ?Ed, ?Em1, ?Ee1; cbn [meta vocab tomb embs cache].
        { rewrite aset_idem. reflexivity. }
        { reflexivity. }
      * (* without a vector: MetaSet only *)
        unfold log_put. rewrite Ev. cbn [fst snd replay_all fold_left].
        unfold put. rewrite Ec, Ee. unfold apply_entry. rewrite Ev, Ee. cbn [andb].
        destruct (index_goc s k) as [s1 id] eqn:Eg.
        assert (Hn: index_goc (meta_set (nocache s) k v) k =
                    (St (aset (meta s) k v) (vocab s1) (tomb s1) (embs s) [], id)).
        { unfold index_goc in *. unfold meta_set, nocache. cbn [meta vocab tomb embs cache].
          rewrite (index_get_fields _ _ _ _ _ (meta s) (embs s) (cache s)).
          destruct s as [m vo tb em ca]. cbn [meta vocab tomb embs cache] in *.
          destruct (index_get (St m vo tb em ca) k); inversion Eg; subst; reflexivity. }
        rewrite Hn. cbn [fst].
        pose proof (goc_get s k G2) as Hg. rewrite Eg in Hg. cbn [fst snd] in Hg.
        rewrite (index_get_fields _ _ _ _ _ (meta s1) (embs s1) (cache s1)).
        replace (St (meta s1) (vocab s1) (tomb s1) (embs s1) (cache s1)) with s1 by (destruct s1; reflexivity).
        rewrite Hg.
        assert (Es1: meta s1 = meta s /\ embs s1 = embs s).
        { unfold index_goc in Eg. destruct (index_get s k); inversion Eg; subst; split; reflexivity. }
        destruct Es1 as [Em1 Ee1].
        unfold emb_store, emb_del, meta_set, nocache. cbn [meta vocab tomb embs cache]. rewrite Em1, Ee1. reflexivity.
    + (* other key classes: by the class hypothesis the value has no embedding *)
      specialize (P eq_refl). unfold log_put. rewrite P. cbn [fst snd replay_all fold_left].
      unfold put. rewrite Ec, Ee. unfold apply_entry. rewrite P, Ee. rewrite andb_false_r. cbn [andb].
      reflexivity.
  - (* Del *)
    cbn [op_live op_recs]. destruct (is_cache k) eqn:Ec.
    { unfold delete, exists_key. rewrite Ec.
      destruct (existsb (N.eqb k) (cache s)); cbn [negb fst]; reflexivity. }
    unfold delete, exists_key, log_del. rewrite Ec.
    destruct (index_get s k) as [id|] eqn:Ei.
    + (* in the index: an embedding-class key; EmbDel, EntRemove, MetaDel *)
      assert (Ee: is_emb k = true).
      { apply G1. unfold index_get in Ei. eapply index_find_in. exact Ei. }
      rewrite Ee. cbn [orb negb fst].
      cbn [replay_all fold_left apply_entry].
      unfold index_remove, emb_del, meta_del, nocache. cbn [meta vocab tomb embs cache].
      rewrite (index_get_fields _ _ _ (adel (embs s) id) (cache s) (meta s) (embs s) (cache s)).
      rewrite (index_get_fields _ _ _ (adel (embs s) id) [] (meta s) (embs s) (cache s)).
      replace (St (meta s) (vocab s) (tomb s) (embs s) (cache s)) with s by (destruct s; reflexivity).
      rewrite Ei. reflexivity.
    + (* not in the index: MetaDel only *)
      cbn [replay_all fold_left apply_entry]. unfold meta_del, nocache, has_meta. cbn [meta vocab tomb embs cache].
      destruct (is_emb k) eqn:Ee; cbn [orb].
      * destruct (aget (meta s) k) eqn:Em; cbn [negb fst].
        { unfold index_remove, meta_del. rewrite Ei. reflexivity. }
        { rewrite adel_absent by exact Em. reflexivity. }
      * destruct (aget (meta s) k) eqn:Em; cbn [negb fst].
        { unfold index_remove, meta_del. rewrite Ei. reflexivity. }
        { rewrite adel_absent by exact Em. reflexivity. }
Qed.

(* ======================================================================== *)
Lemma in_keys_aset_N (l : list (N * N)) k v id vec : aget (aset l k v) id = Some vec -> id = k \/ aget l id = Some vec.
Proof.
  rewrite aget_aset. destruct (N.eqb_spec k id) as [->|]; intros H; [left; reflexivity|right; exact H].
Qed.

Lemma goc_good s k : Good s -> is_emb k = true -> Good (fst (index_goc s k)).
Proof.
  intros [G1 [B1 B2]] Ee. unfold index_goc. destruct (index_get s k) as [id|] eqn:E; cbn [fst]; [split; [exact G1|split; assumption]|].
  split; [|split]; cbn [vocab tomb embs].
  - intros x Hx. apply in_app_or in Hx as [Hx|[<-|[]]]; [apply G1; exact Hx|exact Ee].
  - intros id Hid. rewrite app_length. cbn. specialize (B1 id Hid). lia.
  - intros id vec Hid. rewrite app_length. cbn. specialize (B2 id vec Hid). lia.
Qed.
Lemma goc_bound s k : snd (index_goc s k) < N.of_nat (length (vocab (fst (index_goc s k)))).
Proof.
  unfold index_goc. destruct (index_get s k) as [id|] eqn:E; cbn [fst snd vocab].
  - apply (index_get_bound s k id E).
  - rewrite app_length. cbn. lia.
Qed.

Lemma good_meta_set s k v : Good s -> Good (meta_set s k v).
Proof. intros [G1 [B1 B2]]. split; [exact G1|split; assumption]. Qed.
Lemma good_meta_del s k : Good s -> Good (meta_del s k).
Proof. intros [G1 [B1 B2]]. split; [exact G1|split; assumption]. Qed.
Lemma good_emb_del s id : Good s -> Good (emb_del s id).
Proof.
  intros [G1 [B1 B2]]. split; [exact G1|split; [exact B1|]]. cbn [embs vocab emb_del].
  intros i vec H. rewrite aget_adel in H. destruct (id =? i); [discriminate|]. apply (B2 i vec H).
Qed.
Lemma good_emb_set s id vec : Good s -> id < N.of_nat (length (vocab s)) -> Good (emb_set s id vec).
Proof.
  intros [G1 [B1 B2]] Hid. unfold emb_set. destruct (dimok vec); [|split; [exact G1|split; assumption]].
  split; [exact G1|split; [exact B1|]]. cbn [embs vocab].
  intros i v H. apply in_keys_aset_N in H as [->|H]; [exact Hid|apply (B2 i v H)].
Qed.
Lemma good_emb_store s id ov : Good s -> id < N.of_nat (length (vocab s)) -> Good (emb_store true s id ov).
Proof.
  intros G Hid. unfold emb_store. destruct ov as [vec|]; [|apply good_emb_del; exact G].
  destruct (dimok vec) eqn:Ed; [apply good_emb_set; assumption|apply good_emb_del; exact G].
Qed.
Lemma good_index_remove s k : Good s -> Good (index_remove s k).
Proof.
  intros G. unfold index_remove. destruct (index_get s k) as [id|] eqn:E; [|exact G].
  destruct G as [G1 [B1 B2]]. split; [exact G1|split; [|exact B2]]. cbn [tomb vocab].
  intros i [Hi|Hi]; [subst i; apply (index_get_bound s k id E)|apply B1; exact Hi].
Qed.

(* every call of the proved class keeps the store good *)
Lemma op_live_good s o : Good s -> plain o -> Good (op_live s o).
Proof.
  intros G P. destruct o as [k v|k|]; [| |destruct P]; cbn [op_live].
  - destruct (is_cache k) eqn:Ec.
    { unfold put. rewrite Ec. destruct G as [G1 [B1 B2]]. split; [exact G1|split; assumption]. }
    cbn [plain] in P. specialize (P Ec). unfold log_put.
    destruct (is_emb k) eqn:Ee.
    + assert (Gg: Good (fst (index_goc s k))) by (apply goc_good; assumption).
      assert (Hput: forall s0, Good s0 -> Good (put true s0 k v)).
      { intros s0 G0. unfold put. rewrite Ec, Ee.
        pose proof (goc_good s0 k G0 Ee) as Gg0. pose proof (goc_bound s0 k) as Hb.
        destruct (index_goc s0 k) as [s1 id]. cbn [fst snd] in *.
        apply good_meta_set. apply good_emb_store; assumption. }
      destruct (vemb v) as [vec|]; [|apply Hput; exact G].
      destruct (index_goc s k) as [s1 id]. cbn [fst snd] in *. apply Hput. exact Gg.
    + specialize (P eq_refl). rewrite P. cbn [snd]. unfold put. rewrite Ec, Ee. apply good_meta_set. exact G.
  - unfold delete. destruct (negb (exists_key s k)); cbn [fst]; [exact G|].
    destruct (is_cache k).
    { cbn [fst]. destruct G as [G1 [B1 B2]]. split; [exact G1|split; assumption]. }
    destruct (is_emb k); cbn [fst].
    + refine (good_meta_del (index_remove _ k) k (good_index_remove _ k _)).
      destruct (index_get s k); [apply good_emb_del|]; exact G.
    + exact (good_meta_del (index_remove s k) k (good_index_remove s k G)).
Qed.

(* replaying records does not look at the cache *)
Lemma apply_nocache e s : nocache (apply_entry true true s e) = apply_entry true true (nocache s) e.
Proof.
  destruct e; cbn [apply_entry]; try reflexivity.
  - (* MetaSet *)
    unfold meta_set, index_goc, emb_store, emb_set, emb_del, nocache, index_get.
    cbn [meta vocab tomb embs cache].
    destruct (true && is_emb k) eqn:E1; cbn [fst meta vocab tomb embs cache];
    destruct (vemb v) as [vec|];
    destruct (index_find (vocab s) (tomb s) k 0) eqn:E0; cbn [fst snd meta vocab tomb embs cache];
    rewrite ?E0; cbn [fst snd meta vocab tomb embs cache];
    repeat match goal with |- context [if ?b then _ else _] => destruct b eqn:? end;
    cbn [fst snd meta vocab tomb embs cache]; rewrite ?E0; try reflexivity; try congruence;
    repeat match goal with |- context [index_find ?a ?b ?c ?d] => destruct (index_find a b c d) eqn:? end;
    cbn [fst snd meta vocab tomb embs cache]; try reflexivity; try congruence.
  - unfold emb_set. destruct (dimok vec); reflexivity.
  - unfold index_goc, index_get, nocache. cbn [meta vocab tomb embs cache].
    destruct (index_find (vocab s) (tomb s) k 0); reflexivity.
  - unfold index_remove, index_get, nocache. cbn [meta vocab tomb embs cache].
    destruct (index_find (vocab s) (tomb s) k 0); reflexivity.
Qed.
Lemma replay_nocache es : forall s, nocache (replay_all es s) = replay_all es (nocache s).
Proof.
  unfold replay_all. induction es as [|e es IH]; intros s; cbn [fold_left]; [reflexivity|].
  rewrite IH, apply_nocache. reflexivity.
Qed.
Lemma nocache_idem s : nocache (nocache s) = nocache s.
Proof. reflexivity. Qed.

(* ======================================================================== *)
Definition plain_rec (e : wentry) : bool :=
  match e with TxBegin _ | TxCommit _ | TxAbort _ | Checkpoint _ => false | _ => true end.

Lemma all_operations_plain es : forallb plain_rec es = true -> all_operations es = es.
Proof.
  unfold all_operations.
  assert (G: forall es ops, forallb plain_rec es = true ->
             fold_left rec_step es (RS ops [] None []) = RS (ops ++ es) [] None []).
  { induction es0 as [|e es0 IH]; intros ops H; cbn [fold_left]; [rewrite app_nil_r; reflexivity|].
    cbn [forallb] in H. apply andb_true_iff in H as [H1 H2].
    assert (E: rec_step (RS ops [] None []) e = RS (ops ++ [e]) [] None []) by (destruct e; try discriminate; reflexivity).
    rewrite E, IH by exact H2. rewrite <- app_assoc. reflexivity. }
  intros H. unfold rs0. rewrite (G es [] H). cbn. rewrite app_nil_r. reflexivity.
Qed.

Lemma op_recs_plain s o : forallb plain_rec (op_recs s o) = true.
Proof.
  destruct o as [k v|k|]; cbn [op_recs]; [| |reflexivity].
  - destruct (is_cache k); [reflexivity|]. unfold log_put. destruct (vemb v); [|reflexivity].
    destruct (index_goc s k). reflexivity.
  - destruct (is_cache k); [reflexivity|]. unfold log_del. destruct (index_get s k); reflexivity.
Qed.

Fixpoint recs (s : store) (ops : list op) : list wentry :=
  match ops with [] => [] | o :: r => op_recs s o ++ recs (op_live s o) r end.
Fixpoint after (s : store) (ops : list op) : store :=
  match ops with [] => s | o :: r => after (op_live s o) r end.
Lemma recs_plain : forall ops s, forallb plain_rec (recs s ops) = true.
Proof.
  induction ops as [|o ops IH]; intros s; cbn [recs]; [reflexivity|].
  rewrite forallb_app, op_recs_plain, IH. reflexivity.
Qed.
Lemma after_app : forall a s b, after s (a ++ b) = after (after s a) b.
Proof. induction a as [|o a IH]; intros s b; cbn [after app]; [reflexivity|apply IH]. Qed.
Lemma recs_app : forall a s b, recs s (a ++ b) = recs s a ++ recs (after s a) b.
Proof.
  induction a as [|o a IH]; intros s b; cbn [recs after app]; [reflexivity|].
  rewrite IH, app_assoc. reflexivity.
Qed.
Lemma after_good : forall ops s, Good s -> Forall plain ops -> Good (after s ops).
Proof.
  induction ops as [|o ops IH]; intros s G P; cbn [after]; [exact G|].
  inversion P; subst. apply IH; [apply op_live_good; assumption|assumption].
Qed.
Lemma replay_all_app a b s : replay_all (a ++ b) s = replay_all b (replay_all a s).
Proof. unfold replay_all. apply fold_left_app. Qed.

(* replaying the records of a whole sequence of calls = the live state (cache aside) *)
Lemma run_replay_eq : forall ops s, Good s -> Forall plain ops ->
  nocache (after s ops) = replay_all (recs s ops) (nocache s).
Proof.
  induction ops as [|o ops IH]; intros s G P; cbn [after recs]; [reflexivity|].
  inversion P; subst. rewrite replay_all_app, <- op_replay_eq by assumption.
  apply IH; [apply op_live_good; assumption|assumption].
Qed.

Lemma good_nocache s : Good s -> Good (nocache s).
Proof. intros [G1 [B1 B2]]. split; [exact G1|split; assumption]. Qed.

(* put_durable of a value with a vector logs [MetaSet; EmbSet]: the first record alone already
   gives the final state (the EmbSet that follows rewrites the same slot with the same vector) *)
Lemma put_vec_prefix_same s k v vec s1 id : Good s -> vemb v = Some vec -> index_goc s k = (s1, id) ->
  replay_all [MetaSet k v] (nocache s) = replay_all [MetaSet k v; EmbSet id vec] (nocache s).
Proof.
  intros G Ev Eg.
  cbn [replay_all fold_left]. set (X := apply_entry true true (nocache s) (MetaSet k v)).
  cbn [apply_entry]. unfold emb_set. destruct (dimok vec) eqn:Ed; [|reflexivity].
  assert (HX: aget (embs X) id = Some vec).
  { unfold X, apply_entry. rewrite Ev.
    destruct (is_emb k) eqn:Ee.
    - cbn [andb].
      assert (B0: ids_bounded (meta_set (nocache s) k v)) by (destruct G as [_ [B1 B2]]; split; assumption).
      pose proof (goc_idem _ k B0) as Hid.
      assert (Hsnd: snd (index_goc (meta_set (nocache s) k v) k) = id).
      { unfold index_goc, index_get, meta_set, nocache in *. cbn [meta vocab tomb embs cache] in *.
        destruct (index_find (vocab s) (tomb s) k 0); inversion Eg; reflexivity. }
      destruct (index_goc (meta_set (nocache s) k v) k) as [y idy] eqn:Ey. cbn [fst snd] in *. subst idy.
      rewrite Hid. unfold emb_store. rewrite Ed. unfold emb_set. rewrite Ed. cbn [embs].
      rewrite aget_aset, N.eqb_refl. reflexivity.
    - rewrite andb_false_r.
      assert (Hsnd: snd (index_goc (meta_set (nocache s) k v) k) = id).
      { unfold index_goc, index_get, meta_set, nocache in *. cbn [meta vocab tomb embs cache] in *.
        destruct (index_find (vocab s) (tomb s) k 0); inversion Eg; reflexivity. }
      destruct (index_goc (meta_set (nocache s) k v) k) as [y idy] eqn:Ey. cbn [snd] in Hsnd. subst idy.
      unfold emb_set. rewrite Ed. cbn [embs]. rewrite aget_aset, N.eqb_refl. reflexivity. }
  rewrite (aset_same _ _ _ HX). destruct X; reflexivity.
Qed.

(* the shapes a strict, non-empty prefix of one call's records can have *)
Lemma prefix_cases s o q q' : Good s -> plain o -> op_recs s o = q ++ q' -> q' <> [] ->
  q = [] \/ replay_all q (nocache s) = replay_all (op_recs s o) (nocache s)
  \/ (exists k id, o = Del k /\ index_get s k = Some id /\ (q = [EmbDel id] \/ q = [EmbDel id; EntRemove k])).
Proof.
  intros G P E Hne. destruct q as [|e1 q]; [left; reflexivity|right].
  destruct q' as [|e' q']; [congruence|].
  destruct o as [k v|k|]; cbn [op_recs] in E |- *; [| |discriminate].
  - left. destruct (is_cache k) eqn:Ec; [discriminate|]. unfold log_put in E |- *.
    destruct (vemb v) as [vec|] eqn:Ev; [|destruct q; destruct q'; discriminate].
    destruct (index_goc s k) as [s1 id] eqn:Eg. cbn [fst] in E |- *.
    destruct q as [|e2 q]; [|destruct q; destruct q'; discriminate].
    inversion E; subst e1 e' q'. apply (put_vec_prefix_same s k v vec s1 id G Ev Eg).
  - right. destruct (is_cache k); [discriminate|]. unfold log_del in E.
    destruct (index_get s k) as [id|] eqn:Ei; [|destruct q; destruct q'; discriminate].
    exists k, id. split; [reflexivity|]. split; [exact Ei|].
    destruct q as [|e2 q]; [inversion E; subst; left; reflexivity|].
    destruct q as [|e3 q]; [inversion E; subst; right; reflexivity|destruct q; destruct q'; discriminate].
Qed.

(* a crash inside one call: every prefix of its records leaves a good store *)
Lemma prefix_good s o q q' : Good s -> plain o -> op_recs s o = q ++ q' -> Good (replay_all q (nocache s)).
Proof.
  intros G P E.
  assert (Full: Good (replay_all (op_recs s o) (nocache s))).
  { rewrite <- op_replay_eq by assumption. apply good_nocache, op_live_good; assumption. }
  destruct q as [|e1 q]; [apply good_nocache; exact G|].
  destruct q' as [|e' q']; [rewrite app_nil_r in E; rewrite <- E; exact Full|].
  (* a strict, non-empty prefix: only multi-record calls *)
  destruct o as [k v|k|]; cbn [op_recs] in E, Full; [| |discriminate].
  - destruct (is_cache k) eqn:Ec; [discriminate|]. unfold log_put in E, Full.
    destruct (vemb v) as [vec|] eqn:Ev.
    + destruct (index_goc s k) as [s1 id] eqn:Eg. cbn [fst] in E, Full.
      destruct q as [|e2 q]; [|destruct q; destruct q'; discriminate].
      inversion E; subst e1 e' q'. clear E.
      (* [MetaSet] alone already gives the final state: the EmbSet that follows rewrites the same slot *)
      assert (Same: replay_all [MetaSet k v] (nocache s) = replay_all [MetaSet k v; EmbSet id vec] (nocache s)).
      { cbn [replay_all fold_left]. set (X := apply_entry true true (nocache s) (MetaSet k v)).
        cbn [apply_entry]. unfold emb_set. destruct (dimok vec) eqn:Ed; [|reflexivity].
        (* X already holds vec at id *)
        assert (HX: aget (embs X) id = Some vec).
        { unfold X, apply_entry. rewrite Ev.
          destruct (is_emb k) eqn:Ee.
          - cbn [andb].
            assert (B0: ids_bounded (meta_set (nocache s) k v)) by (destruct G as [_ [B1 B2]]; split; assumption).
            pose proof (goc_idem _ k B0) as Hid.
            assert (Hsnd: snd (index_goc (meta_set (nocache s) k v) k) = id).
            { unfold index_goc, index_get, meta_set, nocache in *. cbn [meta vocab tomb embs cache] in *.
              destruct (index_find (vocab s) (tomb s) k 0); inversion Eg; reflexivity. }
            destruct (index_goc (meta_set (nocache s) k v) k) as [y idy] eqn:Ey. cbn [fst snd] in *. subst idy.
            rewrite Hid. unfold emb_store. rewrite Ed. unfold emb_set. rewrite Ed. cbn [embs].
            rewrite aget_aset, N.eqb_refl. reflexivity.
          - rewrite andb_false_r.
            assert (Hsnd: snd (index_goc (meta_set (nocache s) k v) k) = id).
            { unfold index_goc, index_get, meta_set, nocache in *. cbn [meta vocab tomb embs cache] in *.
              destruct (index_find (vocab s) (tomb s) k 0); inversion Eg; reflexivity. }
            destruct (index_goc (meta_set (nocache s) k v) k) as [y idy] eqn:Ey. cbn [snd] in Hsnd. subst idy.
            unfold emb_set. rewrite Ed. cbn [embs]. rewrite aget_aset, N.eqb_refl. reflexivity. }
        rewrite (aset_same _ _ _ HX). destruct X; reflexivity. }
      rewrite Same. exact Full.
    + destruct q; destruct q'; discriminate.
  - destruct (is_cache k); [discriminate|]. unfold log_del in E.
    destruct (index_get s k) as [id|] eqn:Ei; [|destruct q; destruct q'; discriminate].
    pose proof (good_nocache s G) as Gn.
    destruct q as [|e2 q].
    + inversion E; subst. cbn [replay_all fold_left apply_entry]. apply good_emb_del. exact Gn.
    + destruct q as [|e3 q]; [|destruct q; destruct q'; discriminate].
      inversion E; subst. cbn [replay_all fold_left apply_entry].
      apply good_index_remove, good_emb_del. exact Gn.
Qed.

(* ======================================================================== *)
Lemma exists_last (P : nat -> Prop) (dec : forall a, {P a} + {~ P a}) : forall n, P 0%nat ->
  exists a, (a <= n)%nat /\ P a /\ (a = n \/ ~ P (S a)).
Proof.
  induction n as [|n IH]; intros H0.
  - exists 0%nat. repeat split; [lia|exact H0|left; reflexivity].
  - destruct (IH H0) as (a & Ha & Pa & Hl).
    destruct Hl as [->|Hn].
    + destruct (dec (S n)) as [Ps|Ns].
      * exists (S n). repeat split; [lia|exact Ps|left; reflexivity].
      * exists n. repeat split; [lia|exact Pa|right; exact Ns].
    + exists a. repeat split; [lia|exact Pa|right; exact Hn].
Qed.

Definition snap_state (sn : option store) : store := match sn with Some s => s | None => empty_store end.

Section D.
Variable ser : wentry -> list byte.
Variable deser : list byte -> option wentry.
Variable crc : list byte -> N.
Hypothesis deser_ser : forall e, deser (ser e) = Some e.
Hypothesis crc_bound : forall d, crc d < 4294967296.
Hypothesis ser_small : forall e, wf ser e.

Notation lb := (log_bytes ser crc true).
Notation drun := (run ser crc cF).
Notation drecover := (recover deser crc cF).

Lemma all_wf (es : list wentry) : Forall (wf ser) es.
Proof. apply Forall_forall. intros e _. apply ser_small. Qed.

(* the durable store is good: its log file is a clean sequence of put/delete records whose replay
   over the snapshot gives the in-memory state (cache aside), and the index is well-formed *)
Definition good (d : dstore) : Prop :=
  exists es, file d = lb es /\ forallb plain_rec es = true /\
             nocache (replay_all es (snap_state (snap d))) = nocache (st d) /\ Good (st d).

Lemma good_d0 : good (d0).
Proof.
  exists []. repeat split; try reflexivity.
  - intros k [].
  - intros id [].
  - intros id vec H. discriminate.
Qed.

Lemma step_shape d o : plain o ->
  fst (step ser crc cF d o) = D (op_live (st d) o) (file d ++ lb (op_recs (st d) o)) (snap d) (ctr d).
Proof.
  intros P. destruct o as [k v|k|]; [| |destruct P]; cbn [step op_live op_recs cF slab_mirror meta_first ghost_fixed].
  - destruct (is_cache k); cbn [fst].
    + cbn. rewrite app_nil_r. reflexivity.
    + destruct (log_put true (st d) k v) as [es s1]. reflexivity.
  - destruct (is_cache k).
    + destruct (delete true (st d) k) as [s1 ok]. cbn. rewrite app_nil_r. reflexivity.
    + destruct (delete true (st d) k) as [s1 ok]. reflexivity.
Qed.
Lemma run_shape : forall ops d, Forall plain ops ->
  st (drun d ops) = after (st d) ops /\ file (drun d ops) = file d ++ lb (recs (st d) ops) /\
  snap (drun d ops) = snap d.
Proof.
  induction ops as [|o ops IH]; intros d P; cbn [run after recs].
  - repeat split. cbn. rewrite app_nil_r. reflexivity.
  - inversion P; subst. rewrite step_shape by assumption.
    destruct (IH (D (op_live (st d) o) (file d ++ lb (op_recs (st d) o)) (snap d) (ctr d)) H2) as (I1 & I2 & I3).
    cbn [st file snap] in *. split; [exact I1|]. split; [|exact I3].
    rewrite I2, <- app_assoc. f_equal. symmetry. apply log_bytes_app.
Qed.

(* THE recovery theorem: crash at ANY byte offset k (bytes in the file at open time are durable)
   after ANY sequence of calls of the proved class. *)
Theorem recover_any_byte : forall d ops k, good d -> Forall plain ops -> (length (file d) <= k)%nat ->
  exists d2, drecover (firstn k (file (drun d ops))) (snap d) = Some d2 /\ good d2 /\ snap d2 = snap d /\
    exists a q q',
      (a <= length ops)%nat /\
      (* a = the number of acknowledged calls: their bytes are all inside k, the next one's are not *)
      (length (file (drun d (firstn a ops))) <= k)%nat /\
      (a = length ops \/ (k < length (file (drun d (firstn (S a) ops))))%nat) /\
      (* q = the records of the call in progress that are completely inside k *)
      recs (st (drun d (firstn a ops))) (firstn 1 (skipn a ops)) = q ++ q' /\
      ((a < length ops)%nat -> q' <> []) /\
      nocache (st d2) = replay_all q (nocache (st (drun d (firstn a ops)))).
Proof.
  intros d ops k (es0 & Hf & Hp0 & Hr0 & G0) P Hk0.
  destruct (run_shape ops d P) as (Hst & Hfile & Hsn). rewrite Hf, <- log_bytes_app in Hfile.
  set (ES := es0 ++ recs (st d) ops) in *.
  set (c := complete ser crc true ES k).
  assert (Hrep: repair (firstn k (lb ES)) = lb (firstn c ES))
    by (apply (repair_prefix _ ser deser crc true deser_ser crc_bound ES k (all_wf ES))).
  assert (Hrpl: replay_file deser crc true (lb (firstn c ES)) = Ok (firstn c ES))
    by (apply (replay_file_clean _ ser deser crc true true deser_ser crc_bound _ (all_wf _))).
  assert (HpES: forallb plain_rec ES = true) by (unfold ES; rewrite forallb_app, Hp0, recs_plain; reflexivity).
  assert (Hpc: forallb plain_rec (firstn c ES) = true).
  { assert (Gf: forall (l : list wentry) m, forallb plain_rec l = true -> forallb plain_rec (firstn m l) = true).
    { induction l as [|e l IH]; intros m Hl; destruct m; cbn in *; try reflexivity.
      apply andb_true_iff in Hl as [H1 H2]. rewrite H1. cbn. apply IH. exact H2. }
    apply Gf. exact HpES. }
  set (s2 := replay_all (firstn c ES) (snap_state (snap d))).
  exists (D s2 (lb (firstn c ES)) (snap d) 0).
  split.
  { unfold recover. cbn [tail_repair cF replay_index_fixed slab_mirror]. rewrite Hfile, Hrep, Hrpl.
    rewrite all_operations_plain by exact Hpc. reflexivity. }
  (* the last acknowledged call boundary *)
  assert (P0: (length (file (drun d (firstn 0 ops))) <= k)%nat) by (cbn; exact Hk0).
  destruct (exists_last (fun a => (length (file (drun d (firstn a ops))) <= k)%nat)
              (fun a => le_dec _ _) (length ops) P0) as (a & Ha & Pa & Hl).
  assert (Pa_ops: Forall plain (firstn a ops)).
  { apply Forall_forall. intros x Hx. rewrite Forall_forall in P. apply P.
    rewrite <- (firstn_skipn a ops). apply in_or_app. left. exact Hx. }
  destruct (run_shape (firstn a ops) d Pa_ops) as (Hsta & Hfa & _). rewrite Hf, <- log_bytes_app in Hfa.
  set (Ea := es0 ++ recs (st d) (firstn a ops)) in *.
  set (sa := after (st d) (firstn a ops)) in *.
  assert (Hsp: ES = Ea ++ recs sa (skipn a ops)).
  { unfold ES, Ea, sa. rewrite <- app_assoc. f_equal. rewrite <- recs_app, firstn_skipn. reflexivity. }
  assert (Hc: (length Ea <= c)%nat).
  { unfold c. apply (complete_ge _ ser deser crc true deser_ser).
    - rewrite Hsp, app_length. lia.
    - rewrite bytes_upto_log. rewrite Hsp. rewrite firstn_app_exact by reflexivity. rewrite <- Hfa. exact Pa. }
  set (w1 := recs sa (firstn 1 (skipn a ops))).
  assert (Hw: recs sa (skipn a ops) = w1 ++ recs (after sa (firstn 1 (skipn a ops))) (skipn 1 (skipn a ops))).
  { rewrite <- (firstn_skipn 1 (skipn a ops)) at 1. apply recs_app. }
  (* the surviving records: those of the acknowledged calls plus a prefix q of the next call's *)
  assert (Hq: exists q q', w1 = q ++ q' /\ firstn c ES = Ea ++ q /\ ((a < length ops)%nat -> q' <> [])).
  { destruct Hl as [->|Hn].
    - exists [], w1. split; [reflexivity|]. split; [|intros; lia].
      rewrite Hsp. rewrite skipn_all. cbn [recs]. rewrite !app_nil_r. apply firstn_all2. lia.
    - assert (Hk2: (k < length (file (drun d (firstn (S a) ops))))%nat) by lia.
      assert (Ha2: (a < length ops)%nat).
      { destruct (Nat.eq_dec a (length ops)) as [->|]; [|lia]. exfalso. apply Hn.
        rewrite firstn_all2 by lia. rewrite firstn_all in Pa. exact Pa. }
      assert (Hs: firstn (S a) ops = firstn a ops ++ firstn 1 (skipn a ops)).
      { rewrite <- (firstn_skipn a ops) at 1. rewrite firstn_app, firstn_firstn, firstn_length.
        replace (Nat.min (S a) a) with a by lia. replace (S a - Nat.min a (length ops))%nat with 1%nat by lia.
        reflexivity. }
      assert (Pb_ops: Forall plain (firstn (S a) ops)).
      { apply Forall_forall. intros x Hx. rewrite Forall_forall in P. apply P.
        rewrite <- (firstn_skipn (S a) ops). apply in_or_app. left. exact Hx. }
      destruct (run_shape (firstn (S a) ops) d Pb_ops) as (_ & Hfb & _). rewrite Hf, <- log_bytes_app in Hfb.
      rewrite Hs, recs_app, app_assoc in Hfb. fold Ea sa w1 in Hfb.
      assert (Hlt: (c < length (Ea ++ w1))%nat).
      { unfold c. apply (complete_lt _ ser deser crc true deser_ser). rewrite bytes_upto_log.
        assert (Hpre: firstn (length (Ea ++ w1)) ES = Ea ++ w1).
        { rewrite Hsp, Hw, app_assoc. apply firstn_app_exact. reflexivity. }
        rewrite Hpre, <- Hfb, <- Hs. exact Hk2. }
      rewrite app_length in Hlt.
      exists (firstn (c - length Ea) w1), (skipn (c - length Ea) w1).
      split; [symmetry; apply firstn_skipn|]. split.
      + rewrite Hsp, Hw. rewrite firstn_app_ge by exact Hc. f_equal. rewrite firstn_app_le by lia. reflexivity.
      + intros _ Hnil. assert (L: length (skipn (c - length Ea) w1) = 0%nat) by (rewrite Hnil; reflexivity).
        rewrite skipn_length in L. lia. }
  destruct Hq as (q & q' & Hw1 & Hsurv & Hne).
  assert (Ga: Good sa) by (apply after_good; assumption).
  (* the recovered state *)
  assert (Hs2: nocache s2 = replay_all q (nocache sa)).
  { unfold s2. rewrite Hsurv, replay_all_app. rewrite replay_nocache.
    unfold Ea. rewrite replay_all_app. rewrite replay_nocache, Hr0.
    rewrite <- (run_replay_eq (firstn a ops) (st d) G0 Pa_ops). fold sa. reflexivity. }
  (* the call in progress (if any) *)
  assert (Gs2: Good s2).
  { assert (Gn: Good (nocache s2)).
    { rewrite Hs2. destruct (skipn a ops) as [|o rest] eqn:Es.
      - cbn in w1. destruct q; [|discriminate]. apply good_nocache. exact Ga.
      - cbn [firstn recs] in w1. unfold w1 in Hw1. rewrite app_nil_r in Hw1.
        apply (prefix_good sa o q q' Ga); [|exact Hw1].
        rewrite Forall_forall in P. apply P. rewrite <- (firstn_skipn a ops), Es. apply in_or_app. right. left. reflexivity. }
    destruct Gn as [G1 [B1 B2]]. split; [exact G1|split; assumption]. }
  split.
  { exists (firstn c ES). repeat split; try reflexivity; try exact Hpc; try apply Gs2. }
  split; [reflexivity|].
  exists a, q, q'. split; [exact Ha|]. split; [exact Pa|]. split.
  { destruct Hl as [->|Hn]; [left; reflexivity|right; lia]. }
  rewrite Hsta. fold sa. split; [exact Hw1|]. split; [exact Hne|]. exact Hs2.
Qed.
End D.

(* ======================================================================== *)
Lemma observe_nocache K s : observe K (nocache s) = observe K s.
Proof. reflexivity. Qed.
Lemma observe_of_nocache K s1 s2 : nocache s1 = nocache s2 -> observe K s1 = observe K s2.
Proof. intros H. rewrite <- (observe_nocache K s1), <- (observe_nocache K s2), H. reflexivity. Qed.

(* the one call shape whose torn states are not covered by the observation theorem below *)
Definition torn_indexed_delete (s : store) (o : op) : Prop :=
  exists k id, o = Del k /\ index_get s k = Some id.

Section D.
Variable ser : wentry -> list byte.
Variable deser : list byte -> option wentry.
Variable crc : list byte -> N.
Hypothesis deser_ser : forall e, deser (ser e) = Some e.
Hypothesis crc_bound : forall d, crc d < 4294967296.
Hypothesis ser_small : forall e, wf ser e.

Notation drun := (run ser crc cF).
Notation drecover := (recover deser crc cF).

(* "exactly the state produced by some prefix of the writes, which includes every acknowledged
   write": the recovered store shows, for every key, what the live store showed after p calls,
   with p >= the number a of acknowledged calls. *)
Theorem recovered_is_a_prefix_state : forall d ops k,
  good ser crc d -> Forall plain ops -> (length (file d) <= k)%nat ->
  exists d2 a,
    drecover (firstn k (file (drun d ops))) (snap d) = Some d2 /\ good ser crc d2 /\
    (a <= length ops)%nat /\
    (length (file (drun d (firstn a ops))) <= k)%nat /\
    (a = length ops \/ (k < length (file (drun d (firstn (S a) ops))))%nat) /\
    ((forall o, nth_error ops a = Some o -> ~ torn_indexed_delete (st (drun d (firstn a ops))) o) ->
     exists p, (a <= p <= S a)%nat /\ (p <= length ops)%nat /\
       forall K, observe K (st d2) = observe K (st (drun d (firstn p ops)))).
Proof.
  intros d ops k G P Hk0.
  destruct (recover_any_byte ser deser crc deser_ser crc_bound ser_small d ops k G P Hk0)
    as (d2 & Hrec & G2 & _ & a & q & q' & Ha & Pa & Hl & Hw & Hne & Hs2).
  exists d2, a. split; [exact Hrec|]. split; [exact G2|]. split; [exact Ha|]. split; [exact Pa|]. split; [exact Hl|].
  intros Hnt.
  assert (Pa_ops: Forall plain (firstn a ops)).
  { apply Forall_forall. intros x Hx. rewrite Forall_forall in P. apply P.
    rewrite <- (firstn_skipn a ops). apply in_or_app. left. exact Hx. }
  destruct G as (es0 & _ & _ & _ & G0).
  destruct (run_shape ser crc (firstn a ops) d Pa_ops) as (Hsta & _ & _).
  assert (Ga: Good (st (drun d (firstn a ops)))) by (rewrite Hsta; apply after_good; assumption).
  destruct (skipn a ops) as [|o rest] eqn:Es.
  - (* no call in progress *)
    cbn in Hw. destruct q; [|discriminate].
    exists a. split; [lia|]. split; [exact Ha|]. intros K. apply observe_of_nocache. exact Hs2.
  - cbn [firstn recs] in Hw. rewrite app_nil_r in Hw.
    assert (Ha2: (a < length ops)%nat).
    { assert (length (skipn a ops) = S (length rest)) by (rewrite Es; reflexivity). rewrite skipn_length in H. lia. }
    assert (Hnth: nth_error ops a = Some o).
    { rewrite <- (firstn_skipn a ops), Es. rewrite nth_error_app2 by (rewrite firstn_length; lia).
      rewrite firstn_length. replace (a - Nat.min a (length ops))%nat with 0%nat by lia. reflexivity. }
    assert (Po: plain o) by (rewrite Forall_forall in P; apply P; eapply nth_error_In; exact Hnth).
    destruct (prefix_cases _ o q q' Ga Po Hw (Hne Ha2)) as [->|[Hfull|(kk & id & -> & Hi & _)]].
    + exists a. split; [lia|]. split; [exact Ha|]. intros K. apply observe_of_nocache. exact Hs2.
    + (* the whole effect of the call is already there *)
      exists (S a). split; [lia|]. split; [lia|]. intros K. apply observe_of_nocache.
      rewrite Hs2, Hfull, <- op_replay_eq by assumption.
      assert (Hs: firstn (S a) ops = firstn a ops ++ [o]).
      { rewrite <- (firstn_skipn a ops) at 1. rewrite firstn_app, firstn_firstn, firstn_length.
        replace (Nat.min (S a) a) with a by lia. replace (S a - Nat.min a (length ops))%nat with 1%nat by lia.
        rewrite Es. reflexivity. }
      assert (Pb_ops: Forall plain (firstn (S a) ops)).
      { apply Forall_forall. intros x Hx. rewrite Forall_forall in P. apply P.
        rewrite <- (firstn_skipn (S a) ops). apply in_or_app. left. exact Hx. }
      destruct (run_shape ser crc (firstn (S a) ops) d Pb_ops) as (Hstb & _ & _).
      rewrite Hstb, Hs, after_app, <- Hsta. reflexivity.
    + exfalso. apply (Hnt _ Hnth). exists kk, id. split; [reflexivity|exact Hi].
Qed.

(* several generations: calls, crash with `extra` bytes of the appended region on disk, recover *)
Fixpoint run_gens (d : dstore) (gens : list (list op * nat)) : option dstore :=
  match gens with
  | [] => Some d
  | (ops, extra) :: r =>
      match drecover (firstn (length (file d) + extra) (file (drun d ops))) (snap d) with
      | Some d2 => run_gens d2 r
      | None => None
      end
  end.
Theorem generations_good : forall gens d, good ser crc d ->
  Forall (fun g => Forall plain (fst g)) gens ->
  exists d', run_gens d gens = Some d' /\ good ser crc d'.
Proof.
  induction gens as [|[ops extra] gens IH]; intros d G Wf; cbn [run_gens].
  - exists d. split; [reflexivity|exact G].
  - inversion Wf; subst. cbn [fst] in *.
    destruct (recover_any_byte ser deser crc deser_ser crc_bound ser_small d ops
                (length (file d) + extra) G H1 ltac:(lia)) as (d2 & E & G2 & _).
    rewrite E. apply IH; assumption.
Qed.
End D.

