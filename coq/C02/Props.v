(* C02/Props.v -- pinned property theorems; nothing but statements closed by `exact`.
   Reading guide.  [ser]/[deser]/[crc]: the external payload serializer (bitcode) and CRC-32; the
   theorems hold for ANY functions with the three visible premises.  [good d]: the log file is a
   clean sequence of put/delete records whose replay over the snapshot gives the in-memory state
   (cache aside) and the entity index is well-formed -- true of a fresh store, kept by every call,
   re-established by every recovery.  [run .. d ops]: the store after the calls ops.  A crash
   leaves the first k bytes of the log (k >= its length at open time).  Call number a is
   acknowledged when all its bytes are inside k.  [the_cfg] is the configuration regenerated from
   the source on every run (tail repair, record order, index handling). *)
From NV.Common Require Import Base WalFormat.
From NV.C02 Require Import Model Proofs Tight Run Inst.
Open Scope N_scope.

(* Recovery after a crash at ANY byte: it never fails; the recovered store is good again; its
   state is EXACTLY the replay, over the state after the a acknowledged calls, of those records q
   of the call in progress that were completely written (q' <> [] : never all of them). *)
Theorem C02_recover_any_byte :
  forall (ser : wentry -> list byte) (deser : list byte -> option wentry) (crc : list byte -> N),
  (forall e, deser (ser e) = Some e) -> (forall d, crc d < 4294967296) -> (forall e, wf ser e) ->
  forall d ops k, good ser crc d -> Forall plain ops -> (length (file d) <= k)%nat ->
  exists d2, recover deser crc the_cfg (firstn k (file (run ser crc the_cfg d ops))) (snap d) = Some d2
    /\ good ser crc d2 /\ snap d2 = snap d /\
    exists a q q',
      (a <= length ops)%nat /\
      (length (file (run ser crc the_cfg d (firstn a ops))) <= k)%nat /\
      (a = length ops \/ (k < length (file (run ser crc the_cfg d (firstn (S a) ops))))%nat) /\
      recs (st (run ser crc the_cfg d (firstn a ops))) (firstn 1 (skipn a ops)) = q ++ q' /\
      ((a < length ops)%nat -> q' <> []) /\
      nocache (st d2) = replay_all q (nocache (st (run ser crc the_cfg d (firstn a ops)))).
Proof. exact recover_any_byte. Qed.

(* "exactly the state produced by some prefix of the writes, and that prefix includes every write
   whose call had returned": for EVERY crash byte, for every key, the recovered store shows what the
   live store showed after p calls, where a <= p <= a+1 and a is the number of acknowledged calls.
   [good2] = [good] + [Tight] (indexed keys have metadata, the slab holds no vector other than the
   one inside the metadata, one live index entry per key); it holds for a fresh store and is
   re-established by every recovery.
   Scope of the theorems (the rest is covered by the correspondence check + oracle only): calls of
   class [plain] (only embedding-class keys carry an `_embedding`), SyncMode::Immediate semantics
   (every record on disk before the call returns), no checkpoint / rotation steps. *)
Theorem C02_recovered_is_a_prefix_state :
  forall (ser : wentry -> list byte) (deser : list byte -> option wentry) (crc : list byte -> N),
  (forall e, deser (ser e) = Some e) -> (forall d, crc d < 4294967296) -> (forall e, wf ser e) ->
  forall d ops k, good2 ser crc d -> Forall plain ops -> (length (file d) <= k)%nat ->
  exists d2 a p,
    recover deser crc the_cfg (firstn k (file (run ser crc the_cfg d ops))) (snap d) = Some d2 /\
    good2 ser crc d2 /\ (a <= length ops)%nat /\
    (length (file (run ser crc the_cfg d (firstn a ops))) <= k)%nat /\
    (a = length ops \/ (k < length (file (run ser crc the_cfg d (firstn (S a) ops))))%nat) /\
    (a <= p <= S a)%nat /\ (p <= length ops)%nat /\
    forall K, observe K (st d2) = observe K (st (run ser crc the_cfg d (firstn p ops))).
Proof. exact recovered_is_a_prefix_state_full. Qed.

(* "A store recovered once keeps this guarantee for everything written after the recovery,
   including when the first crash left a partially written record": any number of
   crash / recover / write rounds; every recovery succeeds and ends in a good store, so the two
   theorems above apply to every round. *)
Theorem C02_any_number_of_crashes :
  forall (ser : wentry -> list byte) (deser : list byte -> option wentry) (crc : list byte -> N),
  (forall e, deser (ser e) = Some e) -> (forall d, crc d < 4294967296) -> (forall e, wf ser e) ->
  forall gens d, good2 ser crc d -> Forall (fun g => Forall plain (fst g)) gens ->
  exists d', run_gens ser deser crc d gens = Some d' /\ good2 ser crc d'.
Proof. exact generations_good2. Qed.

(* the simulation at the heart of it: the records a call logs replay to exactly its live effect *)
Theorem C02_log_replays_to_live_state : forall s o, Good s -> plain o ->
  nocache (op_live s o) = replay_all (op_recs s o) (nocache s).
Proof. exact op_replay_eq. Qed.

(* non-vacuity: a fresh store is good; the call list is in the proved class and logs records *)
Example C02_hypotheses_satisfiable :
  (forall ser crc, good2 ser crc d0) /\
  Forall plain [Put 0 (V 1 (Some 100)); Put 1 (V 2 None); Del 0; Put 5 (V 3 (Some 1)); Del 7; Put 4 (V 1 None)] /\
  recs empty_store [Put 0 (V 1 (Some 100)); Del 0] =
    [MetaSet 0 (V 1 (Some 100)); EmbSet 0 100; EmbDel 0; EntRemove 0; MetaDel 0].
Proof.
  split; [exact good2_d0|]. split; [|vm_compute; reflexivity].
  repeat constructor; cbn; intros; try reflexivity; try discriminate.
Qed.

Print Assumptions C02_recover_any_byte.
Print Assumptions C02_recovered_is_a_prefix_state.
Print Assumptions C02_any_number_of_crashes.
Print Assumptions C02_log_replays_to_live_state.
