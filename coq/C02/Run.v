(* C02/Run.v -- executable entry points for the correspondence check and the property oracle.
   Depends on Model (+ WalFormat, Gen_C02) only. *)
From NV.Common Require Import Base WalFormat Crc32Fast.
From NV.C02 Require Import Model.
From NV.gen Require Import Gen_C02.
Open Scope N_scope.

(* payload bytes come from the real serializer (bitcode), as a table built by the harness *)
Definition tab := list (wentry * list byte).
Definition ser_of (t : tab) (e : wentry) : list byte :=
  match find (fun p => wentry_eqb (fst p) e) t with Some p => snd p | None => [] end.
Definition deser_of (t : tab) (b : list byte) : option wentry :=
  match find (fun p => list_eqb N.eqb (snd p) b) t with Some p => Some (fst p) | None => None end.

Definition the_cfg : cfg := Cfg gen_ghost_fixed gen_replay_index_fixed gen_tail_repair gen_put_meta_first gen_slab_mirror.

(* ---------------------------------------------------------------- the property oracle *)
(* number of calls whose last byte is at or before offset k (= acknowledged before the crash) *)
Definition acked (ends : list N) (k : N) : nat := length (filter (fun e => e <=? k) ends).
(* "recovery succeeds and yields exactly the state produced by some prefix of the writes that
   contains every acknowledged write": the candidate states are the states the live store
   itself showed after 0,1,..,n calls *)
Definition oracle_at (lives : list obs) (ends : list N) (k : N) (ro : option obs) : bool :=
  match ro with
  | None => false
  | Some o => existsb (obs_eqb o) (skipn (acked ends k) lives)
  end.

(* one generation as seen on the implementation:
   ops, per-call success, live observations after 0..n calls, file length after each call,
   file length right after open (= after tail repair), the log file bytes after the last call,
   recovery observations for crash offsets, and the offset the next generation continues from *)
Definition gen_rec :=
  (list op * list bool * list obs * list N * list N * N * list byte * list (N * N * N * option obs) * N)%type.
  (* ops, results, live observations, LOGICAL end offset of each call's records (WalStatus.size_bytes),
     ACK offset of each call (= the length the log had on disk when the fsync that covered the call
     completed: its own end under SyncMode::Immediate, the end of the batch / of everything logged
     so far at the next batch / explicit sync under Batched / Manual; never = 10^18),
     length after open, file bytes, crash observations, continuing offset *)
(* crash observations are run-length encoded by the harness: (from, to, step, observation) means
   that recovery was run at the offsets from, from+step, .., to and showed this observation each
   time (step = 1: every byte) *)
Definition range (a z step : N) : list N :=
  map (fun i => a + i * step) (N_seq (N.succ ((z - a) / (N.max 1 step)))).
Definition gens_case := (tab * N * list gen_rec)%type.

Definition gen_oracle (g : gen_rec) : bool :=
  let '(ops, results, lives, ends, acks, base, fbytes, crashes, chosen) := g in
  forallb (fun r => let '(a, z, stp, ro) := r in forallb (fun k => oracle_at lives acks k ro) (range a z stp)) crashes.

(* ---------------------------------------------------------------- the model side *)
Section M.
Variable t : tab.
Variable K : N.
Notation mstep := (step (ser_of t) crc32u the_cfg).
Notation mrecover := (recover (deser_of t) crc32u the_cfg).

Fixpoint run_obs (d : dstore) (ops : list op) : dstore * list bool * list obs * list N :=
  match ops with
  | [] => (d, [], [], [])
  | o :: r =>
      let '(d1, ok) := mstep d o in
      let '(d2, oks, os, es) := run_obs d1 r in
      (d2, ok :: oks, observe K (st d1) :: os, N.of_nat (length (file d1)) :: es)
  end.

Definition rec_obs (sn : option store) (f : list byte) (k : N) : option obs :=
  match mrecover (firstn (N.to_nat k) f) sn with
  | Some d => Some (observe K (st d))
  | None => None
  end.

(* walks the generations; returns V_OK / V_MISMATCH / 9 *)
Fixpoint gens_model (d : dstore) (gs : list gen_rec) : N :=
  match gs with
  | [] => V_OK
  | g :: rest =>
      let '(ops, results, lives, ends, acks, base, fbytes, crashes, chosen) := g in
      let '(d1, oks, os, es) := run_obs d ops in
      if negb (N.eqb base (N.of_nat (length (file d)))) then V_MISMATCH
      else if negb (list_eqb Bool.eqb oks results) then V_MISMATCH
      else if negb (list_eqb obs_eqb (observe K (st d) :: os) lives) then V_MISMATCH
      else if negb (list_eqb N.eqb es ends) then V_MISMATCH
      else if negb (list_eqb N.eqb (file d1) fbytes) then V_MISMATCH
      else if negb (forallb (fun r => let '(a, z, stp, ro) := r in
                                forallb (fun k => option_eqb obs_eqb (rec_obs (snap d) fbytes k) ro) (range a z stp)) crashes)
           then V_MISMATCH
      else match rest with
           | [] => V_OK
           | _ => match mrecover (firstn (N.to_nat chosen) fbytes) (snap d) with
                  | Some d2 => gens_model d2 rest
                  | None => V_MISMATCH
                  end
           end
  end.
End M.

Definition check_gens (c : gens_case) : N :=
  let '(t, K, gs) := c in
  if negb (forallb gen_oracle gs) then V_VIOLATION
  else gens_model t K (d0) gs.

(* ---------------------------------------------------------------- crashes inside checkpoint() *)
(* A crash IMAGE is what was on disk at some instant: the log file bytes and which snapshot file
   was in place (0 = none, 1 = the one of the previous complete checkpoint, 2 = the one this
   checkpoint() writes).  The harness takes an image when checkpoint() is called, at every hook
   point reached inside it (whatever their order), and when it returns; between two images whose
   log grew it also takes every byte in between.  Each image is recovered.
   (payload table, K,
    calls before a previous COMPLETE checkpoint (None = there was none),
    calls since then: results, live observations after 0..n of them, logical end offset and ack
    offset of each, the log as it was ON DISK when checkpoint() was called, what was appended to
    it on disk up to and including the marker record ([] if the marker never reached the disk),
    images: (log bytes, snapshot code, recovery observations per offset range),
    then one generation of calls after the checkpoint, crashed at every byte, recovered WITH the
    new snapshot) *)
Definition image := (list byte * N * list (N * N * N * option obs))%type.
Definition ckpt_case :=
  (tab * N * option (list op) * list op * list bool * list obs * list N * list N * list byte * list byte
   * list image * gen_rec)%type.

(* "taking a checkpoint never loses or resurrects data, wherever a crash falls inside it", and
   the general clause: a recovery from any crash image shows a state the live store went through
   since the previous checkpoint (i.e. the state after some prefix of the calls) that includes
   every acknowledged call -- under immediate sync that is exactly what the live store showed
   when checkpoint() was called: nothing lost, nothing resurrected *)
Definition NEVER : N := 1000000000000000000.
Definition image_oracle (lives : list obs) (acks : list N) (im : image) : bool :=
  let '(w, sc, crashes) := im in
  forallb (fun r => let '(a, z, stp, ro) := r in
     forallb (fun k =>
       match ro with
       | None => false
       | Some o =>
           (* acknowledged = fsynced: inside the surviving log prefix, or -- once the new snapshot
              is in place -- every call that had been fsynced when checkpoint() was called *)
           let n_acked := if sc =? 2 then length (filter (fun x => x <? NEVER) acks) else acked acks k in
           existsb (obs_eqb o) (skipn n_acked lives)
       end) (range a z stp)) crashes.
Definition ckpt_oracle (c : ckpt_case) : bool :=
  let '(t, K, pre, ops1, res1, lives, ends, acks, wdisk, m, images, g2) := c in
  forallb (image_oracle lives acks) images && gen_oracle g2.

Fixpoint is_prefix (a b : list byte) : bool :=
  match a, b with
  | [], _ => true
  | x :: a', y :: b' => N.eqb x y && is_prefix a' b'
  | _, [] => false
  end.

Definition check_ckpt (c : ckpt_case) : N :=
  let '(t, K, pre, ops1, res1, lives, ends, acks, wdisk, m, images, g2) := c in
  if negb (ckpt_oracle c) then V_VIOLATION
  else
    (* the state the previous complete checkpoint left (or a fresh store) *)
    let da := match pre with
              | Some ops0 => fst (step (ser_of t) crc32u the_cfg (run (ser_of t) crc32u the_cfg d0 ops0) Ckpt)
              | None => d0
              end in
    let '(d1, oks, os, es) := run_obs t K da ops1 in
    if negb (list_eqb Bool.eqb oks res1) then V_MISMATCH
    else if negb (list_eqb obs_eqb (observe K (st da) :: os) lives) then V_MISMATCH
    else if negb (list_eqb N.eqb es ends) then V_MISMATCH
    else if negb (is_prefix wdisk (file d1)) then V_MISMATCH
    else if negb (match m with [] => true
                  | _ => list_eqb N.eqb (file d1 ++ log_bytes (ser_of t) crc32u true [Checkpoint (ctr d1)]) (wdisk ++ m) end)
         then V_MISMATCH
    else if negb (gen_ckpt_order_ok) then V_MISMATCH
    else if negb (forallb (fun im : image =>
                    let '(w, sc, crashes) := im in
                    let sn := if sc =? 0 then None else if sc =? 1 then snap da else Some (st d1) in
                    (sc <? 3) &&
                    forallb (fun r => let '(a, z, stp, ro) := r in
                       forallb (fun k => option_eqb obs_eqb (rec_obs t K sn w k) ro) (range a z stp)) crashes)
                    images) then V_MISMATCH
    else gens_model t K (fst (step (ser_of t) crc32u the_cfg d1 Ckpt)) [g2].

(* ---------------------------------------------------------------- rotation, then checkpoint, then writes *)
(* The log rotates when a record would push it past max_size_bytes: the live file is renamed
   away and an empty one is started (what was in it is gone for recovery: known class
   wal-rotation).  A COMPLETED checkpoint afterwards puts everything into the snapshot, so from
   then on the guarantee must hold again, whatever rotations happened before it.
   (payload table, K, max_size_bytes, calls before the checkpoint (at least one rotation among
    them), their results, what the live store showed at the checkpoint, the log length on disk at
    that moment, then one generation of calls after the checkpoint, crashed at every byte and
    recovered with the snapshot) *)
Definition rot_case := (tab * N * N * list op * list bool * obs * N * gen_rec)%type.

Fixpoint split_frames (fuel : nat) (bs : list byte) : list (list byte) :=
  match fuel with
  | O => []
  | S f =>
      if (length bs <? 8)%nat then [] else
      let len := (8 + N.to_nat (de32 (firstn 4 bs)))%nat in
      firstn len bs :: split_frames f (skipn len bs)
  end.
(* write_entry_no_sync: `if current_size + write_size > max_size_bytes { rotate() }` per record *)
Definition rot_append (maxsz : N) (f : list byte) (frames : list (list byte)) : list byte :=
  fold_left (fun f fr => if maxsz <? N.of_nat (length f + length fr) then fr else f ++ fr) frames f.
Definition step_rot (t : tab) (maxsz : N) (d : dstore) (o : op) : dstore * bool :=
  let '(d', ok) := step (ser_of t) crc32u the_cfg (D (st d) [] (snap d) (ctr d)) o in
  (D (st d') (rot_append maxsz (file d) (split_frames (S (length (file d'))) (file d'))) (snap d') (ctr d'), ok).
Fixpoint run_rot (t : tab) (maxsz : N) (d : dstore) (ops : list op) : dstore * list bool :=
  match ops with
  | [] => (d, [])
  | o :: r => let '(d1, ok) := step_rot t maxsz d o in
              let '(d2, oks) := run_rot t maxsz d1 r in (d2, ok :: oks)
  end.

Definition check_rot (c : rot_case) : N :=
  let '(t, K, maxsz, ops1, res1, live, wlen, g2) := c in
  (* the oracle: everything acknowledged after the completed checkpoint survives *)
  if negb (gen_oracle g2) then V_VIOLATION
  else
    let '(d1, oks) := run_rot t maxsz d0 ops1 in
    if negb (list_eqb Bool.eqb oks res1) then V_MISMATCH
    else if negb (obs_eqb (observe K (st d1)) live) then V_MISMATCH
    else if negb (N.eqb (N.of_nat (length (file d1))) wlen) then V_MISMATCH
    else gens_model t K (fst (step (ser_of t) crc32u the_cfg d1 Ckpt)) [g2].
