(* C02/Run.v -- executable entry points for the correspondence check and the property oracle.
   Depends on Model (+ WalFormat, Gen_C02) only. *)
From NV.Common Require Import Base WalFormat Crc32Fast.
From NV.C02 Require Import Model.
From NV.gen Require Import Gen_C02.
Open Scope N_scope.

(* payload bytes come from the real serializer (bitcode), as a table built by the harness *)
Definition tab := list (wentry * list byte).
Definition ser_of (t : tab) (e : wentry) : list byte :=
  match find (fun p => wentry_eqb (fst p) e) t with Some p => snd p | None => [] end.
Definition deser_of (t : tab) (b : list byte) : option wentry :=
  match find (fun p => list_eqb N.eqb (snd p) b) t with Some p => Some (fst p) | None => None end.

Definition the_cfg : cfg := Cfg gen_ghost_fixed gen_replay_index_fixed gen_tail_repair gen_put_meta_first gen_slab_mirror.

(* ---------------------------------------------------------------- the property oracle *)
(* number of calls whose last byte is at or before offset k (= acknowledged before the crash) *)
Definition acked (ends : list N) (k : N) : nat := length (filter (fun e => e <=? k) ends).
(* "recovery succeeds and yields exactly the state produced by some prefix of the writes that
   contains every acknowledged write": the candidate states are the states the live store
   itself showed after 0,1,..,n calls *)
Definition oracle_at (lives : list obs) (ends : list N) (k : N) (ro : option obs) : bool :=
  match ro with
  | None => false
  | Some o => existsb (obs_eqb o) (skipn (acked ends k) lives)
  end.

(* one generation as seen on the implementation:
   ops, per-call success, live observations after 0..n calls, file length after each call,
   file length right after open (= after tail repair), the log file bytes after the last call,
   recovery observations for crash offsets, and the offset the next generation continues from *)
Definition gen_rec :=
  (list op * list bool * list obs * list N * list N * N * list byte * list (N * N * N * option obs) * N)%type.
  (* ops, results, live observations, LOGICAL end offset of each call's records (WalStatus.size_bytes),
     ACK offset of each call (= its end offset once an fsync covered it: immediately under
     SyncMode::Immediate, at the next batch / explicit sync under Batched / Manual, never = 10^18),
     length after open, file bytes, crash observations, continuing offset *)
(* crash observations are run-length encoded by the harness: (from, to, step, observation) means
   that recovery was run at the offsets from, from+step, .., to and showed this observation each
   time (step = 1: every byte) *)
Definition range (a z step : N) : list N :=
  map (fun i => a + i * step) (N_seq (N.succ ((z - a) / (N.max 1 step)))).
Definition gens_case := (tab * N * list gen_rec)%type.

Definition gen_oracle (g : gen_rec) : bool :=
  let '(ops, results, lives, ends, acks, base, fbytes, crashes, chosen) := g in
  forallb (fun r => let '(a, z, stp, ro) := r in forallb (fun k => oracle_at lives acks k ro) (range a z stp)) crashes.

(* ---------------------------------------------------------------- the model side *)
Section M.
Variable t : tab.
Variable K : N.
Notation mstep := (step (ser_of t) crc32u the_cfg).
Notation mrecover := (recover (deser_of t) crc32u the_cfg).

Fixpoint run_obs (d : dstore) (ops : list op) : dstore * list bool * list obs * list N :=
  match ops with
  | [] => (d, [], [], [])
  | o :: r =>
      let '(d1, ok) := mstep d o in
      let '(d2, oks, os, es) := run_obs d1 r in
      (d2, ok :: oks, observe K (st d1) :: os, N.of_nat (length (file d1)) :: es)
  end.

Definition rec_obs (sn : option store) (f : list byte) (k : N) : option obs :=
  match mrecover (firstn (N.to_nat k) f) sn with
  | Some d => Some (observe K (st d))
  | None => None
  end.

(* walks the generations; returns V_OK / V_MISMATCH / 9 *)
Fixpoint gens_model (d : dstore) (gs : list gen_rec) : N :=
  match gs with
  | [] => V_OK
  | g :: rest =>
      let '(ops, results, lives, ends, acks, base, fbytes, crashes, chosen) := g in
      let '(d1, oks, os, es) := run_obs d ops in
      if negb (N.eqb base (N.of_nat (length (file d)))) then V_MISMATCH
      else if negb (list_eqb Bool.eqb oks results) then V_MISMATCH
      else if negb (list_eqb obs_eqb (observe K (st d) :: os) lives) then V_MISMATCH
      else if negb (list_eqb N.eqb es ends) then V_MISMATCH
      else if negb (list_eqb N.eqb (file d1) fbytes) then V_MISMATCH
      else if negb (forallb (fun r => let '(a, z, stp, ro) := r in
                                forallb (fun k => option_eqb obs_eqb (rec_obs (snap d) fbytes k) ro) (range a z stp)) crashes)
           then V_MISMATCH
      else match rest with
           | [] => V_OK
           | _ => match mrecover (firstn (N.to_nat chosen) fbytes) (snap d) with
                  | Some d2 => gens_model d2 rest
                  | None => V_MISMATCH
                  end
           end
  end.
End M.

Definition check_gens (c : gens_case) : N :=
  let '(t, K, gs) := c in
  if negb (forallb gen_oracle gs) then V_VIOLATION
  else gens_model t K (d0) gs.

(* ---------------------------------------------------------------- crashes inside checkpoint() *)
(* (payload table, K, calls before the checkpoint, their results, what the live store showed when
    checkpoint() was called, the log file at that time, the marker record checkpoint() appended,
    recovery observations per (stage, offset):
      stage 0 = snapshot not yet written          (no/old snapshot, whole log)
      stage 1 = snapshot written                  (new snapshot, whole log)
      stage 2 = marker record being appended      (new snapshot, log + `offset` bytes of the marker)
      stage 3 = log truncated                     (new snapshot, empty log)
    then one generation of calls after the checkpoint, crashed at every byte, recovered WITH the snapshot) *)
Definition ckpt_case :=
  (tab * N * list op * list bool * obs * list byte * list byte * list (N * N * option obs) * gen_rec)%type.

(* "taking a checkpoint never loses or resurrects data, wherever a crash falls inside it":
   every recovery from a crash state inside checkpoint() shows exactly what the live store showed *)
Definition ckpt_oracle (c : ckpt_case) : bool :=
  let '(t, K, ops1, res1, live, w, m, stages, g2) := c in
  forallb (fun x => let '(_, _, ro) := x in option_eqb obs_eqb ro (Some live)) stages && gen_oracle g2.

Definition check_ckpt (c : ckpt_case) : N :=
  let '(t, K, ops1, res1, live, w, m, stages, g2) := c in
  if negb (ckpt_oracle c) then V_VIOLATION
  else
    let '(d1, oks, os, es) := run_obs t K d0 ops1 in
    if negb (list_eqb Bool.eqb oks res1) then V_MISMATCH
    else if negb (obs_eqb (observe K (st d1)) live) then V_MISMATCH
    else if negb (list_eqb N.eqb (file d1) w) then V_MISMATCH
    else if negb (list_eqb N.eqb (log_bytes (ser_of t) crc32u true [Checkpoint (ctr d1)]) m) then V_MISMATCH
    else if negb (gen_ckpt_order_ok) then V_MISMATCH
    else if negb (forallb (fun x =>
                    let '(stage, off, ro) := x in
                    let sn := Some (st d1) in
                    let mo :=
                      if stage =? 0 then rec_obs t K (snap d1) w (N.of_nat (length w))
                      else if stage =? 1 then rec_obs t K sn w (N.of_nat (length w))
                      else if stage =? 2 then rec_obs t K sn (w ++ m) (N.of_nat (length w) + off)
                      else rec_obs t K sn [] 0 in
                    option_eqb obs_eqb mo ro) stages) then V_MISMATCH
    else gens_model t K (fst (step (ser_of t) crc32u the_cfg d1 Ckpt)) [g2].
