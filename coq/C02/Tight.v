(* C02/Tight.v -- the invariant that makes torn multi-record calls invisible, and the full
   observation theorem.
   [Tight s]: every indexed key has metadata; the slab never holds, for an indexed key, a vector
   other than the one inside its metadata; a key has at most one live index entry.  Under it,
   what a caller sees of a key is its metadata, so a delete_durable torn after EmbeddingDelete
   or after EntityRemove still shows the state before the delete.  Every call of the proved class
   keeps the store tight, and so does every prefix of one call's records. *)
From NV.Common Require Import Base WalFormat.
From NV.C02 Require Import Model Proofs.
Open Scope N_scope.
Arguments N.add : simpl never. Arguments N.sub : simpl never. Arguments N.mul : simpl never.
Arguments N.eqb : simpl never. Arguments N.ltb : simpl never. Arguments N.leb : simpl never.

(* ======================================================================== *)
(* ------------------------------------------------------------ more entity-index facts *)
Lemma index_find_other_app voc tb k p x : x <> k -> index_find (voc ++ [x]) tb k p = index_find voc tb k p.
Proof.
  intros Hne. revert p. induction voc as [|y voc IH]; intros p; cbn [index_find app].
  - destruct (N.eqb_spec x k); [contradiction|reflexivity].
  - destruct ((y =? k) && negb (existsb (N.eqb p) tb)); [reflexivity|apply IH].
Qed.
(* more tombstones can only hide entries *)
Lemma index_find_more_tomb : forall voc tb tb' k p, index_find voc tb k p = None ->
  (forall x, In x tb -> In x tb') -> index_find voc tb' k p = None.
Proof.
  induction voc as [|y voc IH]; intros tb tb' k p H Hsub; cbn [index_find] in *; [reflexivity|].
  destruct (N.eqb_spec y k) as [->|Hne]; cbn [andb] in *; [|apply (IH tb tb' k _ H Hsub)].
  destruct (existsb (N.eqb p) tb) eqn:E; cbn [negb] in H; [|discriminate].
  apply existsb_exists in E as (x & Hx & Ex). apply N.eqb_eq in Ex. subst x.
  assert (E': existsb (N.eqb p) tb' = true) by (apply existsb_exists; exists p; split; [apply Hsub; exact Hx|apply N.eqb_refl]).
  rewrite E'. cbn [negb]. apply (IH tb tb' k _ H Hsub).
Qed.
(* tombstoning position id (which holds another key) does not change the lookup of k *)
Lemma index_find_other_tomb : forall voc tb k p id j, id = p + N.of_nat j ->
  (forall x, nth_error voc j = Some x -> x <> k) ->
  index_find voc (id :: tb) k p = index_find voc tb k p.
Proof.
  induction voc as [|y voc IH]; intros tb k p id j Hid Hj; cbn [index_find]; [reflexivity|].
  cbn [existsb].
  destruct (N.eqb_spec y k) as [->|Hne]; cbn [andb].
  - destruct (N.eqb_spec p id) as [E|Hn].
    + destruct j; [exfalso; apply (Hj k eq_refl); reflexivity|lia].
    + cbn [orb]. destruct (negb (existsb (N.eqb p) tb)); [reflexivity|].
      destruct j; [lia|]. apply (IH tb k (N.succ p) id j); [lia|]. intros x Hx. apply Hj. exact Hx.
  - destruct j.
    + assert (G: forall voc' q, p < q -> index_find voc' (id :: tb) k q = index_find voc' tb k q).
      { clear -Hid. induction voc' as [|z voc' IH']; intros q Hq; cbn [index_find existsb]; [reflexivity|].
        destruct (N.eqb_spec q id); [lia|]. cbn [orb]. rewrite IH' by lia. reflexivity. }
      apply G. lia.
    + apply (IH tb k (N.succ p) id j); [lia|]. intros x Hx. apply Hj. exact Hx.
Qed.
Lemma index_get_key s k id : index_get s k = Some id -> nth_error (vocab s) (N.to_nat id) = Some k.
Proof.
  unfold index_get. intros H. destruct (index_find_spec _ _ _ _ _ H) as (j & -> & Hn & _).
  replace (N.to_nat (0 + N.of_nat j)) with j by lia. exact Hn.
Qed.
Lemma index_get_inj s k k' id : index_get s k = Some id -> index_get s k' = Some id -> k = k'.
Proof. intros H1 H2. apply index_get_key in H1, H2. congruence. Qed.

(* ======================================================================== *)
(* the slab never holds, for an indexed key, a vector that is not the one inside its metadata;
   every indexed key has metadata; a key has at most one live index entry *)
Record Tight (s : store) : Prop := {
  t_idx_meta : forall k id, index_get s k = Some id -> has_meta s k = true;
  t_slab_sub : forall k id vec, index_get s k = Some id -> aget (embs s) id = Some vec ->
                 exists v, aget (meta s) k = Some v /\ vemb v = Some vec;
  t_one_live : forall k id, index_get s k = Some id -> index_find (vocab s) (id :: tomb s) k 0 = None
}.

Lemma value_eta v : V (vbase v) (vemb v) = v.
Proof. destruct v; reflexivity. Qed.

(* under Tight, what a caller sees of a key is its metadata *)
Lemma get_is_meta s k : Tight s -> is_cache k = false -> get s k = aget (meta s) k.
Proof.
  intros T Hc. unfold get. rewrite Hc. destruct (is_emb k); [|reflexivity].
  destruct (index_get s k) as [id|] eqn:Ei; [|reflexivity].
  destruct (aget (embs s) id) as [vec|] eqn:Ee; [|reflexivity].
  destruct (t_slab_sub s T k id vec Ei Ee) as (v & Hm & Hv). rewrite Hm, <- Hv, value_eta. reflexivity.
Qed.

Lemma observe_ext K s1 s2 :
  (forall k, get s1 k = get s2 k) -> (forall k, in_scan s1 k = in_scan s2 k) -> observe K s1 = observe K s2.
Proof.
  intros Hg Hs. unfold observe. apply map_ext. intros k. rewrite Hg, Hs. reflexivity.
Qed.

(* torn delete, first record only: the vector is gone from the slab, nothing visible changed *)
Lemma obs_emb_del K s k id : Tight s -> index_get s k = Some id ->
  observe K (emb_del s id) = observe K s /\ Tight (emb_del s id).
Proof.
  intros T Ei.
  assert (T': Tight (emb_del s id)).
  { destruct T as [T1 T2 T3]. split; cbn [emb_del meta vocab tomb embs].
    - exact T1.
    - intros k' id' vec Hi He. rewrite aget_adel in He. destruct (id =? id'); [discriminate|]. apply (T2 k' id' vec Hi He).
    - exact T3. }
  split; [|exact T'].
  apply observe_ext; intros k'.
  - destruct (is_cache k') eqn:Ec; [unfold get; rewrite Ec; reflexivity|].
    rewrite (get_is_meta _ k' T' Ec), (get_is_meta _ k' T Ec). reflexivity.
  - reflexivity.
Qed.

(* torn delete, first two records: the index entry is gone too; still nothing visible changed *)
Lemma obs_emb_del_idx K s k id : Tight s -> index_get s k = Some id ->
  observe K (index_remove (emb_del s id) k) = observe K s /\ Tight (index_remove (emb_del s id) k).
Proof.
  intros T Ei. destruct (obs_emb_del K s k id T Ei) as [O1 T1]. rewrite <- O1.
  set (s1 := emb_del s id) in *.
  assert (Ei1: index_get s1 k = Some id) by exact Ei.
  unfold index_remove. rewrite Ei1.
  set (s2 := St (meta s1) (vocab s1) (id :: tomb s1) (embs s1) (cache s1)).
  assert (Hk: index_get s2 k = None) by (apply (t_one_live s1 T1 k id Ei1)).
  assert (Hother: forall k', k' <> k -> index_get s2 k' = index_get s1 k').
  { intros k' Hne. unfold index_get, s2. cbn [vocab tomb].
    apply (index_find_other_tomb _ _ _ 0 id (N.to_nat id)); [lia|].
    intros x Hx. rewrite (index_get_key s1 k id Ei1) in Hx. inversion Hx; subst. congruence. }
  assert (T2: Tight s2).
  { destruct T1 as [A1 A2 A3]. split.
    - intros k' id' Hi. destruct (N.eq_dec k' k) as [->|Hne]; [congruence|].
      rewrite (Hother k' Hne) in Hi. apply (A1 k' id' Hi).
    - intros k' id' vec Hi He. destruct (N.eq_dec k' k) as [->|Hne]; [congruence|].
      rewrite (Hother k' Hne) in Hi. apply (A2 k' id' vec Hi He).
    - intros k' id' Hi. destruct (N.eq_dec k' k) as [->|Hne]; [congruence|].
      rewrite (Hother k' Hne) in Hi. unfold s2. cbn [vocab tomb].
      apply (index_find_more_tomb _ (id' :: tomb s1)); [apply (A3 k' id' Hi)|].
      intros x [<-|Hx]; [left; reflexivity|right; right; exact Hx]. }
  split; [|exact T2].
  apply observe_ext; intros k'.
  - destruct (is_cache k') eqn:Ec; [unfold get; rewrite Ec; reflexivity|].
    rewrite (get_is_meta _ k' T2 Ec), (get_is_meta _ k' T1 Ec). reflexivity.
  - unfold in_scan. destruct (is_cache k'); [reflexivity|].
    change (has_meta s2 k') with (has_meta s1 k').
    destruct (N.eq_dec k' k) as [->|Hne].
    + rewrite Hk, Ei1. rewrite (t_idx_meta s1 T1 k id Ei1). reflexivity.
    + rewrite (Hother k' Hne). reflexivity.
Qed.

(* ======================================================================== *)
Lemma tight_nocache s : Tight s -> Tight (nocache s).
Proof. intros [A1 A2 A3]. split; assumption. Qed.
Lemma tight_of_nocache s : Tight (nocache s) -> Tight s.
Proof. intros [A1 A2 A3]. split; assumption. Qed.

Lemma has_meta_set s k v k' : has_meta (meta_set s k v) k' = if k =? k' then true else has_meta s k'.
Proof. unfold has_meta, meta_set. cbn [meta]. rewrite aget_aset. destruct (k =? k'); reflexivity. Qed.
Lemma has_meta_del s k k' : has_meta (meta_del s k) k' = if k =? k' then false else has_meta s k'.
Proof. unfold has_meta, meta_del. cbn [meta]. rewrite aget_adel. destruct (k =? k'); reflexivity. Qed.

(* writing / deleting the metadata of a key that is not indexed keeps the store tight *)
Lemma tight_meta_set_unindexed s k v : Tight s -> index_get s k = None -> Tight (meta_set s k v).
Proof.
  intros [A1 A2 A3] Hn. split.
  - intros k' id Hi. change (index_get (meta_set s k v) k') with (index_get s k') in Hi.
    rewrite has_meta_set. destruct (N.eqb_spec k k'); [reflexivity|apply (A1 k' id Hi)].
  - intros k' id vec Hi He. change (index_get (meta_set s k v) k') with (index_get s k') in Hi.
    change (embs (meta_set s k v)) with (embs s) in He.
    destruct (A2 k' id vec Hi He) as (v0 & Hm & Hv). exists v0. split; [|exact Hv].
    unfold meta_set. cbn [meta]. rewrite aget_aset. destruct (N.eqb_spec k k') as [->|]; [congruence|exact Hm].
  - exact A3.
Qed.
Lemma tight_meta_del_unindexed s k : Tight s -> index_get s k = None -> Tight (meta_del s k).
Proof.
  intros [A1 A2 A3] Hn. split.
  - intros k' id Hi. change (index_get (meta_del s k) k') with (index_get s k') in Hi.
    rewrite has_meta_del. destruct (N.eqb_spec k k') as [->|]; [congruence|apply (A1 k' id Hi)].
  - intros k' id vec Hi He. change (index_get (meta_del s k) k') with (index_get s k') in Hi.
    change (embs (meta_del s k)) with (embs s) in He.
    destruct (A2 k' id vec Hi He) as (v0 & Hm & Hv). exists v0. split; [|exact Hv].
    unfold meta_del. cbn [meta]. rewrite aget_adel. destruct (N.eqb_spec k k') as [->|]; [congruence|exact Hm].
  - exact A3.
Qed.

(* get_or_create: the lookup of k afterwards, and of every other key *)
Lemma goc_other s k k' : k' <> k -> index_get (fst (index_goc s k)) k' = index_get s k'.
Proof.
  intros Hne. unfold index_goc. destruct (index_get s k); cbn [fst]; [reflexivity|].
  unfold index_get. cbn [vocab tomb]. apply index_find_other_app. congruence.
Qed.
Lemma goc_fields s k : meta (fst (index_goc s k)) = meta s /\ embs (fst (index_goc s k)) = embs s
  /\ tomb (fst (index_goc s k)) = tomb s.
Proof. unfold index_goc. destruct (index_get s k); cbn [fst]; repeat split. Qed.

(* put of an embedding-class key *)
Lemma tight_put_emb s k v : Good s -> Tight s ->
  Tight (meta_set (emb_store true (fst (index_goc s k)) (snd (index_goc s k)) (vemb v)) k v).
Proof.
  intros [G1 G2] [A1 A2 A3].
  set (s1 := fst (index_goc s k)). set (id := snd (index_goc s k)).
  pose proof (goc_get s k G2) as Hk. fold s1 id in Hk.
  destruct (goc_fields s k) as (Fm & Fe & Ft). fold s1 in Fm, Fe, Ft.
  assert (Hoth: forall k', k' <> k -> index_get s1 k' = index_get s k') by (intros k' Hne; apply goc_other; exact Hne).
  set (f := meta_set (emb_store true s1 id (vemb v)) k v).
  assert (Hidx: forall k', index_get f k' = index_get s1 k').
  { intros k'. unfold f, meta_set, emb_store, emb_set, emb_del.
    destruct (vemb v) as [vec|]; [destruct (dimok vec)|]; reflexivity. }
  assert (Hembs: forall i, i <> id -> aget (embs f) i = aget (embs s) i).
  { intros i Hi. unfold f, meta_set, emb_store, emb_set, emb_del. cbn [embs].
    destruct (vemb v) as [vec|]; [destruct (dimok vec)|]; cbn [embs]; rewrite ?aget_aset, ?aget_adel, ?Fe;
      destruct (N.eqb_spec id i); try congruence; reflexivity. }
  assert (Hembk: forall vec', aget (embs f) id = Some vec' -> vemb v = Some vec').
  { intros vec'. unfold f, meta_set, emb_store, emb_set, emb_del. cbn [embs].
    destruct (vemb v) as [vec|]; [destruct (dimok vec)|]; cbn [embs]; rewrite ?aget_aset, ?aget_adel, N.eqb_refl;
      intros H; congruence. }
  assert (Hmeta: forall k', aget (meta f) k' = if k =? k' then Some v else aget (meta s) k').
  { intros k'. unfold f, meta_set. cbn [meta]. rewrite aget_aset.
    destruct (k =? k'); [reflexivity|].
    unfold emb_store, emb_set, emb_del. destruct (vemb v) as [vec|]; [destruct (dimok vec)|]; cbn [meta]; exact (f_equal (fun m => aget m k') Fm). }
  split.
  - intros k' id' Hi. unfold has_meta. rewrite Hmeta. destruct (N.eqb_spec k k') as [->|Hne]; [reflexivity|].
    rewrite Hidx, Hoth in Hi by congruence. apply (A1 k' id' Hi).
  - intros k' id' vec Hi He. rewrite Hidx in Hi. rewrite Hmeta.
    destruct (N.eqb_spec k k') as [<-|Hne].
    + rewrite Hk in Hi. inversion Hi; subst id'. exists v. split; [reflexivity|apply Hembk; exact He].
    + assert (Hid: id' <> id).
      { intros ->. apply Hne. apply (index_get_inj s1 k k' id Hk Hi). }
      rewrite Hembs in He by exact Hid. rewrite Hoth in Hi by congruence. apply (A2 k' id' vec Hi He).
  - intros k' id' Hi. rewrite Hidx in Hi.
    assert (Hvt: vocab f = vocab s1 /\ tomb f = tomb s).
    { unfold f, meta_set, emb_store, emb_set, emb_del.
      destruct (vemb v) as [vec|]; [destruct (dimok vec)|]; cbn [vocab tomb]; split; try reflexivity; exact Ft. }
    destruct Hvt as [Hv Htb]. rewrite Hv, Htb.
    unfold s1, index_goc in *. destruct (index_get s k) as [id0|] eqn:E0; cbn [fst snd vocab] in *.
    + apply (A3 k' id' Hi).
    + destruct (N.eq_dec k' k) as [->|Hne].
      * (* the fresh entry itself *)
        inversion Hk as [Hk']. clear Hk. rewrite Hi in Hk'. inversion Hk'; subst id'.
        unfold index_get in E0.
        rewrite (index_find_app _ _ _ _ k (index_find_more_tomb _ _ (id :: tomb s) _ _ E0 (fun x Hx => or_intror Hx))).
        rewrite N.eqb_refl. cbn [andb existsb]. unfold id. cbn [snd].
        replace (0 + N.of_nat (length (vocab s)) =? N.of_nat (length (vocab s))) with true by (symmetry; apply N.eqb_eq; lia).
        reflexivity.
      * unfold index_get in Hi. cbn [vocab tomb] in Hi. rewrite index_find_other_app in Hi by congruence.
        rewrite index_find_other_app by congruence. apply (A3 k' id' Hi).
Qed.

(* ======================================================================== *)
Lemma unindexed_non_emb s k : Good s -> is_emb k = false -> index_get s k = None.
Proof.
  intros [G1 _] He. unfold index_get. apply index_find_notin. intros Hin. rewrite (G1 k Hin) in He. discriminate.
Qed.

(* every call of the proved class keeps the store tight *)
Lemma op_live_tight s o : Good s -> Tight s -> plain o -> Tight (op_live s o).
Proof.
  intros G T P. destruct o as [k v|k|]; [| |destruct P]; cbn [op_live].
  - destruct (is_cache k) eqn:Ec.
    { unfold put. rewrite Ec. destruct T as [A1 A2 A3]. split; assumption. }
    cbn [plain] in P. specialize (P Ec). unfold log_put.
    destruct (is_emb k) eqn:Ee.
    + assert (Hput: forall s0, Good s0 -> Tight s0 -> Tight (put true s0 k v)).
      { intros s0 G0 T0. unfold put. rewrite Ec, Ee.
        pose proof (tight_put_emb s0 k v G0 T0) as H.
        destruct (index_goc s0 k) as [s1 id]. exact H. }
      destruct (vemb v) as [vec|] eqn:Ev; [|apply Hput; assumption].
      (* the index entry was created while logging; put finds it again *)
      pose proof (goc_idem s k (g_bounded s G)) as Hid.
      destruct (index_goc s k) as [s1 id] eqn:Eg. cbn [fst snd] in *.
      unfold put. rewrite Ec, Ee, Hid.
      pose proof (tight_put_emb s k v G T) as H. rewrite Eg in H. cbn [fst snd] in H. exact H.
    + specialize (P eq_refl). rewrite P. cbn [snd]. unfold put. rewrite Ec, Ee.
      apply tight_meta_set_unindexed; [exact T|apply unindexed_non_emb; assumption].
  - unfold delete. destruct (negb (exists_key s k)); cbn [fst]; [exact T|].
    destruct (is_cache k).
    { cbn [fst]. destruct T as [A1 A2 A3]. split; assumption. }
    destruct (is_emb k) eqn:Ee; cbn [fst].
    + destruct (index_get s k) as [id|] eqn:Ei.
      * destruct (obs_emb_del_idx 0 s k id T Ei) as [_ T2].
        apply tight_meta_del_unindexed; [exact T2|].
        (* the entry of k is gone *)
        unfold index_remove. change (index_get (emb_del s id) k) with (index_get s k). rewrite Ei.
        apply (t_one_live s T k id Ei).
      * unfold index_remove. rewrite Ei. apply tight_meta_del_unindexed; assumption.
    + pose proof (unindexed_non_emb s k G Ee) as Hn. unfold index_remove. rewrite Hn.
      apply tight_meta_del_unindexed; assumption.
Qed.

Lemma after_tight : forall ops s, Good s -> Tight s -> Forall plain ops -> Tight (after s ops).
Proof.
  induction ops as [|o ops IH]; intros s G T P; cbn [after]; [exact T|].
  inversion P; subst. apply IH; [apply op_live_good|apply op_live_tight|]; assumption.
Qed.

(* a crash inside one call: every prefix of its records shows the state before or after the call,
   and leaves a tight store *)
Lemma prefix_obs s o q q' : Good s -> Tight s -> plain o -> op_recs s o = q ++ q' ->
  Tight (replay_all q (nocache s)) /\
  ((forall K, observe K (replay_all q (nocache s)) = observe K s)
   \/ (forall K, observe K (replay_all q (nocache s)) = observe K (op_live s o))).
Proof.
  intros G T P E.
  assert (Full: nocache (op_live s o) = replay_all (op_recs s o) (nocache s)) by (apply op_replay_eq; assumption).
  assert (TF: Tight (replay_all (op_recs s o) (nocache s))).
  { rewrite <- Full. apply tight_nocache, op_live_tight; assumption. }
  destruct q' as [|e' q'].
  { rewrite app_nil_r in E. subst q. split; [exact TF|]. right. intros K. rewrite <- Full. reflexivity. }
  destruct (prefix_cases s o q (e' :: q') G P E ltac:(discriminate)) as [->|[Hfull|(kk & id & -> & Hi & Hq)]].
  - split; [apply tight_nocache; exact T|]. left. intros K. reflexivity.
  - rewrite Hfull. split; [exact TF|]. right. intros K. rewrite <- Full. reflexivity.
  - assert (Tn: Tight (nocache s)) by (apply tight_nocache; exact T).
    assert (Hin: index_get (nocache s) kk = Some id) by exact Hi.
    destruct Hq as [->| ->]; cbn [replay_all fold_left apply_entry].
    + destruct (obs_emb_del 0 (nocache s) kk id Tn Hin) as [_ T1]. split; [exact T1|].
      left. intros K. apply (proj1 (obs_emb_del K (nocache s) kk id Tn Hin)).
    + destruct (obs_emb_del_idx 0 (nocache s) kk id Tn Hin) as [_ T2]. split; [exact T2|].
      left. intros K. apply (proj1 (obs_emb_del_idx K (nocache s) kk id Tn Hin)).
Qed.

Section D2.
Variable ser : wentry -> list byte.
Variable deser : list byte -> option wentry.
Variable crc : list byte -> N.
Hypothesis deser_ser : forall e, deser (ser e) = Some e.
Hypothesis crc_bound : forall d, crc d < 4294967296.
Hypothesis ser_small : forall e, wf ser e.

Notation drun := (run ser crc cF).
Notation drecover := (recover deser crc cF).

Definition good2 (d : dstore) : Prop := good ser crc d /\ Tight (st d).

Lemma good2_d0 : good2 d0.
Proof.
  split; [apply good_d0|]. split.
  - intros k id H. discriminate.
  - intros k id vec H. discriminate.
  - intros k id H. discriminate.
Qed.

(* THE observation theorem, for EVERY crash point: the recovered store shows, for every key, what
   the live store showed after p calls, where p is the number a of acknowledged calls or a+1 *)
Theorem recovered_is_a_prefix_state_full : forall d ops k,
  good2 d -> Forall plain ops -> (length (file d) <= k)%nat ->
  exists d2 a p,
    drecover (firstn k (file (drun d ops))) (snap d) = Some d2 /\ good2 d2 /\
    (a <= length ops)%nat /\
    (length (file (drun d (firstn a ops))) <= k)%nat /\
    (a = length ops \/ (k < length (file (drun d (firstn (S a) ops))))%nat) /\
    (a <= p <= S a)%nat /\ (p <= length ops)%nat /\
    forall K, observe K (st d2) = observe K (st (drun d (firstn p ops))).
Proof.
  intros d ops k [G T] P Hk0.
  destruct (recover_any_byte ser deser crc deser_ser crc_bound ser_small d ops k G P Hk0)
    as (d2 & Hrec & G2 & _ & a & q & q' & Ha & Pa & Hl & Hw & Hne & Hs2).
  assert (Pa_ops: Forall plain (firstn a ops)).
  { apply Forall_forall. intros x Hx. rewrite Forall_forall in P. apply P.
    rewrite <- (firstn_skipn a ops). apply in_or_app. left. exact Hx. }
  pose proof G as (es0 & _ & _ & _ & G0).
  destruct (run_shape ser crc (firstn a ops) d Pa_ops) as (Hsta & _ & _).
  assert (Ga: Good (st (drun d (firstn a ops)))) by (rewrite Hsta; apply after_good; assumption).
  assert (Ta: Tight (st (drun d (firstn a ops)))) by (rewrite Hsta; apply after_tight; assumption).
  assert (Hobs: forall K, observe K (st d2) = observe K (replay_all q (nocache (st (drun d (firstn a ops)))))).
  { intros K. rewrite <- Hs2. reflexivity. }
  destruct (skipn a ops) as [|o rest] eqn:Es.
  - cbn in Hw. destruct q; [|discriminate].
    exists d2, a, a. split; [exact Hrec|]. split.
    { split; [exact G2|]. apply tight_of_nocache. rewrite Hs2. apply tight_nocache. exact Ta. }
    split; [exact Ha|]. split; [exact Pa|]. split; [exact Hl|]. split; [lia|]. split; [exact Ha|].
    intros K. rewrite Hobs. reflexivity.
  - cbn [firstn recs] in Hw. rewrite app_nil_r in Hw.
    assert (Ha2: (a < length ops)%nat).
    { assert (length (skipn a ops) = S (length rest)) by (rewrite Es; reflexivity). rewrite skipn_length in H. lia. }
    assert (Hnth: nth_error ops a = Some o).
    { rewrite <- (firstn_skipn a ops), Es. rewrite nth_error_app2 by (rewrite firstn_length; lia).
      rewrite firstn_length. replace (a - Nat.min a (length ops))%nat with 0%nat by lia. reflexivity. }
    assert (Po: plain o) by (rewrite Forall_forall in P; apply P; eapply nth_error_In; exact Hnth).
    destruct (prefix_obs _ o q q' Ga Ta Po Hw) as [Tq [Hb|Haf]].
    + exists d2, a, a. split; [exact Hrec|]. split.
      { split; [exact G2|]. apply tight_of_nocache. rewrite Hs2. exact Tq. }
      split; [exact Ha|]. split; [exact Pa|]. split; [exact Hl|]. split; [lia|]. split; [exact Ha|].
      intros K. rewrite Hobs. apply Hb.
    + exists d2, a, (S a). split; [exact Hrec|]. split.
      { split; [exact G2|]. apply tight_of_nocache. rewrite Hs2. exact Tq. }
      split; [exact Ha|]. split; [exact Pa|]. split; [exact Hl|]. split; [lia|]. split; [lia|].
      intros K. rewrite Hobs, Haf.
      assert (Hs: firstn (S a) ops = firstn a ops ++ [o]).
      { rewrite <- (firstn_skipn a ops) at 1. rewrite firstn_app, firstn_firstn, firstn_length.
        replace (Nat.min (S a) a) with a by lia. replace (S a - Nat.min a (length ops))%nat with 1%nat by lia.
        rewrite Es. reflexivity. }
      assert (Pb_ops: Forall plain (firstn (S a) ops)).
      { apply Forall_forall. intros x Hx. rewrite Forall_forall in P. apply P.
        rewrite <- (firstn_skipn (S a) ops). apply in_or_app. left. exact Hx. }
      destruct (run_shape ser crc (firstn (S a) ops) d Pb_ops) as (Hstb & _ & _).
      rewrite Hstb, Hs, after_app, <- Hsta. reflexivity.
Qed.

(* any number of crashes *)
Theorem generations_good2 : forall gens d, good2 d ->
  Forall (fun g => Forall plain (fst g)) gens ->
  exists d', run_gens ser deser crc d gens = Some d' /\ good2 d'.
Proof.
  induction gens as [|[ops extra] gens IH]; intros d G Wf; cbn [run_gens].
  - exists d. split; [reflexivity|exact G].
  - inversion Wf; subst. cbn [fst] in *.
    destruct (recovered_is_a_prefix_state_full d ops (length (file d) + extra) G H1 ltac:(lia))
      as (d2 & a & p & E & G2 & _).
    rewrite E. apply IH; assumption.
Qed.
End D2.

