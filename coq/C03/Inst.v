(* C03/Inst.v -- PER-RUN OBLIGATION over gen/Gen_C03.v: the structural facts of distributed_tx.rs that the
   model's coordinator / participant steps encode still hold in the source. *)
From NV.Common Require Import Base.
From NV.gen Require Import Gen_C03.

Lemma gen_c03_spec :
  gen_commit_needs_prepared = true /\ gen_vote_needs_preparing = true /\ gen_prepare_writes_store = false /\
  gen_abort_applies_undo = true /\ gen_timeouts_spare_committing = true /\ gen_participant_remembers = true /\
  gen_abort_refuses_committing = true /\ gen_recover_shape = true /\ gen_sweeps_keep_decided = true /\
  gen_abort_always_remembers = true /\ gen_apply_whole_batch = true.
Proof. repeat split; reflexivity. Qed.
