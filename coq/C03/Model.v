(* C03/Model.v -- executable model of two-phase commit as implemented in
   tensor_chain/src/distributed_tx.rs: DistributedTxCoordinator::{begin, record_vote, commit, abort,
   cleanup_timeouts, take_pending_aborts, recover, get_pending_decisions, complete_commit, complete_abort} and
   TxParticipant::{prepare, commit, abort, cleanup_stale, recover}, plus a message bag
   with loss / duplication / reordering driven by an explicit event list.  DEFINITIONS ONLY.
   Ghost fields (dec, applied, discarded, cast, parts_of, dirty) record history for the theorems; no step reads them. *)
From NV.Common Require Import Base LockTable.
Open Scope N_scope.

(* ------------------------------------------------------------------ participant *)
(* Transaction::Put / Transaction::Delete (affected_key = storage_key = key) *)
(* ... and Transaction::CompareAndSwap: write v only if the current value is e; a non-matching CAS is skipped, the
   rest of the batch still runs *)
Inductive pop := Put (k v : N) | Del (k : N) | Cas (k e v : N).
Definition pop_key (o : pop) : N := match o with Put k _ => k | Del k => k | Cas k _ _ => k end.

(* PrepareVote: Yes{lock_handle} | Conflict{conflicting_tx}  (participants never answer No) *)
Inductive vote := VYes (h : N) | VConflict (o : N).
Definition is_yes (v : vote) : bool := match v with VYes _ => true | _ => false end.

(* PreparedTx: lock handle, operations, undo log (storage key, captured pre-image; None = key was absent) *)
Record prep := Prep { p_handle : N; p_ops : list pop; p_undo : list (N * option N); p_at : N (* prepared_at_ms *) }.

Record part := Part {
  prepared : list (N * prep);
  ptbl : table;                  (* TxParticipant.locks *)
  store : list (N * N);          (* TensorStore: key -> value *)
  ptmo : N;                      (* locks.default_timeout in ms *)
  dirty : list N;                (* GHOST: prepared txs one of whose keys was written by another tx's commit since their prepare *)
  decidedp : list N              (* TxParticipant.decided: transactions already committed or aborted on this shard *)
}.
Definition part_init (st0 : list (N * N)) (tmo0 : N) : part := Part [] empty st0 tmo0 [] [].

Definition capture (st : list (N * N)) (o : pop) : N * option N := (pop_key o, aget st (pop_key o)).

(* TxParticipant::prepare: a transaction already decided here is refused (PrepareVote::No, written VConflict 0: no
   transaction has id 0); otherwise lock, capture undo images; the store is NOT touched *)
Definition p_prepare (now h : N) (p : part) (tx : N) (ops : list pop) : part * vote :=
  if mem tx (decidedp p) then (p, VConflict 0) else
  match try_lock now tx h (ptmo p) (map pop_key ops) (ptbl p) with
  | (t', inl _) =>
      (Part (aset (prepared p) tx (Prep h ops (map (capture (store p)) ops) now)) t' (store p) (ptmo p)
            (set_remove tx (dirty p)) (decidedp p),
       VYes h)
  | (_, inr o) => (p, VConflict o)
  end.

Definition apply_op (st : list (N * N)) (o : pop) : list (N * N) :=
  match o with
  | Put k v => aset st k v
  | Del k => adel st k
  | Cas k e v => match aget st k with Some x => if N.eqb x e then aset st k v else st | None => st end
  end.
Definition undo_one (st : list (N * N)) (e : N * option N) : list (N * N) :=
  match snd e with Some v => aset st (fst e) v | None => adel st (fst e) end.

Definition touches (ops : list pop) (e : prep) : bool :=
  existsb (fun o => existsb (fun o' => N.eqb (pop_key o) (pop_key o')) (p_ops e)) ops.
(* GHOST bookkeeping: every other prepared tx with a key in common with `ops` becomes dirty *)
Definition mark (ops : list pop) (rest : list (N * prep)) (d : list N) : list N :=
  fold_left (fun d te => if touches ops (snd te) then set_add (fst te) d else d) rest d.

(* TxParticipant::commit: apply the operations, release by handle *)
Definition p_commit (p : part) (tx : N) : part * bool :=
  match aget (prepared p) tx with
  | Some e =>
      let rest := adel (prepared p) tx in
      (Part rest (release_by_handle (p_handle e) (ptbl p)) (fold_left apply_op (p_ops e) (store p)) (ptmo p)
            (mark (p_ops e) rest (set_remove tx (dirty p))) (set_add tx (decidedp p)),
       true)
  | None => (p, false)
  end.

(* TxParticipant::abort: re-apply the undo images in reverse order, release by handle *)
Definition p_abort (p : part) (tx : N) : part :=
  match aget (prepared p) tx with
  | Some e =>
      Part (adel (prepared p) tx) (release_by_handle (p_handle e) (ptbl p))
           (fold_left undo_one (List.rev (p_undo e)) (store p)) (ptmo p)
           (* an abort of a dirty tx may rewrite its keys: whoever shares them becomes dirty too *)
           (if mem tx (dirty p) then mark (p_ops e) (adel (prepared p) tx) (set_remove tx (dirty p))
            else set_remove tx (dirty p))
           (set_add tx (decidedp p))
  (* remembered even if nothing was prepared: the abort may have overtaken the Prepare *)
  | None => Part (prepared p) (ptbl p) (store p) (ptmo p) (dirty p) (set_add tx (decidedp p))
  end.

(* a housekeeping sweep drops a prepared transaction exactly like an abort message does (undo images re-applied in
   reverse, locks released by handle) but does NOT enter it into `decided` *)
Definition p_drop (p : part) (tx : N) : part :=
  let q := p_abort p tx in Part (prepared q) (ptbl q) (store q) (ptmo q) (dirty q) (decidedp p).

Fixpoint insert_sorted (x : N) (l : list N) : list N :=
  match l with [] => [x] | y :: r => if N.leb x y then x :: l else y :: insert_sorted x r end.
Definition sortN (l : list N) : list N := fold_right insert_sorted [] l.

(* TxParticipant::cleanup_stale(timeout)  (strict = false: age >= timeout; returns the dropped ids) and
   TxParticipant::recover(timeout)        (strict = true:  age >  timeout; then locks.cleanup_expired(); returns the
   ids still awaiting a decision).  HashMap order canonicalised: ascending tx id (the harness never sweeps a shard
   on which two prepared transactions share a key, the only case in which the order matters) *)
Definition stale (now tmo : N) (strict : bool) (e : prep) : bool :=
  if strict then N.ltb tmo (now - p_at e) else N.leb tmo (now - p_at e).
Definition p_sweep (now tmo : N) (strict : bool) (p : part) : part * list N :=
  let ids := sortN (map fst (filter (fun te => stale now tmo strict (snd te)) (prepared p))) in
  let p1 := fold_left p_drop ids p in
  if strict then
    let p2 := Part (prepared p1) (fst (cleanup_expired now (ptbl p1))) (store p1) (ptmo p1) (dirty p1) (decidedp p1) in
    (p2, sortN (map fst (prepared p2)))
  else (p1, ids).

(* ------------------------------------------------------------------ coordinator *)
(* phase: 0 Preparing, 1 Prepared, 2 Aborting, 3 Committing (Committed/Aborted are transient inside commit/abort).
   `pending` of the implementation = `pending` (phases 0-2) + `committing` (phase 3, entered only through recover():
   inside commit() the phase is transient) *)
Record ctx := Ctx { c_phase : N; c_parts : list N; c_votes : list (N * vote); c_started : N; c_tmo : N; c_xconf : bool }.
Record coord := Co { pending : list (N * ctx); aborts : list (N * list N); nextid : N; prep_tmo : N; committing : list (N * ctx) }.
Definition coord_init (tmo0 : N) : coord := Co [] [] 1 tmo0 [].

Definition all_voted (c : ctx) : bool := forallb (fun sh => match aget (c_votes c) sh with Some _ => true | None => false end) (c_parts c).
Definition all_yes (c : ctx) : bool := forallb (fun sv => is_yes (snd sv)) (c_votes c).

Definition set_pending (c : coord) (pd : list (N * ctx)) : coord := Co pd (aborts c) (nextid c) (prep_tmo c) (committing c).
Definition is_committing (c : coord) (tx : N) : bool := match aget (committing c) tx with Some _ => true | None => false end.

Definition c_begin (now : N) (c : coord) (parts : list N) (xconf : bool) : coord * N :=
  (Co (aset (pending c) (nextid c) (Ctx 0 parts [] now (prep_tmo c) xconf)) (aborts c) (nextid c + 1) (prep_tmo c) (committing c), nextid c).

(* record_vote: 0 Ok(None), 1 Ok(Some(Prepared)), 2 Ok(Some(Aborting)), 3 TxNotFound, 4 WrongPhase, 5 DuplicateVote *)
Definition c_vote (c : coord) (tx sh : N) (v : vote) : coord * N :=
  match aget (pending c) tx with
  | None => (c, if is_committing c tx then 4 else 3)
  | Some t =>
      if negb (N.eqb (c_phase t) 0) then (c, 4)
      else match aget (c_votes t) sh with
           | Some _ => (c, 5)
           | None =>
               let t1 := Ctx 0 (c_parts t) (aset (c_votes t) sh v) (c_started t) (c_tmo t) (c_xconf t) in
               if all_voted t1 then
                 if all_yes t1 && negb (c_xconf t1) then
                   (set_pending c (aset (pending c) tx (Ctx 1 (c_parts t1) (c_votes t1) (c_started t1) (c_tmo t1) (c_xconf t1))), 1)
                 else
                   (Co (aset (pending c) tx (Ctx 2 (c_parts t1) (c_votes t1) (c_started t1) (c_tmo t1) (c_xconf t1)))
                       (aborts c ++ [(tx, c_parts t1)]) (nextid c) (prep_tmo c) (committing c), 2)
               else (set_pending c (aset (pending c) tx t1), 0)
           end
  end.

(* commit: 0 Ok, 1 not found, 2 not in prepared phase; returns the participants on success *)
Definition c_commit (c : coord) (tx : N) : coord * N * list N :=
  match aget (pending c) tx with
  | None => (c, if is_committing c tx then 2 else 1, [])
  | Some t => if N.eqb (c_phase t) 1 then (set_pending c (adel (pending c) tx), 0, c_parts t) else (c, 2, [])
  end.

(* abort: 0 Ok, 1 not found, 2 refused: the transaction is Committing (its decision is commit); every other phase
   can be aborted *)
Definition c_abort (c : coord) (tx : N) : coord * N * list N :=
  match aget (pending c) tx with
  | None => (c, if is_committing c tx then 2 else 1, [])
  | Some t => (set_pending c (adel (pending c) tx), 0, c_parts t)
  end.

(* is_timed_out: now - started_at > timeout_ms *)
Definition timed_out (now : N) (t : ctx) : bool := N.ltb (c_tmo t) (now - c_started t).

Fixpoint insert_by_fst {A} (x : N * A) (l : list (N * A)) : list (N * A) :=
  match l with [] => [x] | y :: r => if N.leb (fst x) (fst y) then x :: l else y :: insert_by_fst x r end.
Definition sort_by_fst {A} (l : list (N * A)) : list (N * A) := fold_right insert_by_fst [] l.

(* cleanup_timeouts: every timed-out tx (any phase but Committing) is removed and an abort broadcast queued.
   HashMap order is canonicalised: ascending tx id *)
Definition c_timeouts (now : N) (c : coord) : coord * list (N * list N) :=
  let out := sort_by_fst (map (fun kt => (fst kt, c_parts (snd kt))) (filter (fun kt => timed_out now (snd kt)) (pending c))) in
  (Co (filter (fun kt => negb (timed_out now (snd kt))) (pending c)) (aborts c ++ out) (nextid c) (prep_tmo c) (committing c), out).

Definition c_take (c : coord) : coord * list (N * list N) :=
  (Co (pending c) [] (nextid c) (prep_tmo c) (committing c), aborts c).

(* recover(): a timed-out Preparing / Prepared transaction becomes Aborting; a Prepared one whose votes are all Yes
   becomes Committing (THE COMMIT DECISION), one with a No becomes Aborting; Committing / Aborting stay.
   category: 0 timed_out, 1 pending_prepare, 2 pending_commit, 3 pending_abort *)
Definition any_no (c : ctx) : bool := existsb (fun sv => negb (is_yes (snd sv))) (c_votes c).
Definition set_phase (t : ctx) (ph : N) : ctx := Ctx ph (c_parts t) (c_votes t) (c_started t) (c_tmo t) (c_xconf t).
Definition recover_cat (now : N) (t : ctx) : N * N :=      (* (new phase, category) *)
  if N.eqb (c_phase t) 0 then (if timed_out now t then (2, 0) else (0, 1))
  else if N.eqb (c_phase t) 1 then
    (if timed_out now t then (2, 0) else if all_yes t then (3, 2) else if any_no t then (2, 3) else (1, 1))
  else (2, 3).
Definition to_commit (now : N) (kt : N * ctx) : bool := N.eqb (fst (recover_cat now (snd kt))) 3.
Definition c_recover (now : N) (c : coord) : coord :=
  Co (map (fun kt => (fst kt, set_phase (snd kt) (fst (recover_cat now (snd kt))))) (filter (fun kt => negb (to_commit now kt)) (pending c)))
     (aborts c) (nextid c) (prep_tmo c)
     (committing c ++ map (fun kt => (fst kt, set_phase (snd kt) 3)) (filter (to_commit now) (pending c))).
Definition count_cat (now : N) (c : coord) (k : N) : N :=
  N.of_nat (length (filter (fun kt => N.eqb (snd (recover_cat now (snd kt))) k) (pending c)))
  + (if N.eqb k 2 then N.of_nat (length (committing c)) else 0).
(* get_pending_decisions(): (tx, phase) of every Committing / Aborting transaction, ascending tx id *)
Definition c_decisions (c : coord) : list (N * (N * list N)) :=
  sort_by_fst (map (fun kt => (fst kt, (3, c_parts (snd kt)))) (committing c)
               ++ map (fun kt => (fst kt, (2, c_parts (snd kt)))) (filter (fun kt => N.eqb (c_phase (snd kt)) 2) (pending c))).

(* complete_commit: 0 Ok, 1 not found, 2 not in committing phase *)
Definition c_complete_commit (c : coord) (tx : N) : coord * N :=
  match aget (committing c) tx with
  | Some _ => (Co (pending c) (aborts c) (nextid c) (prep_tmo c) (adel (committing c) tx), 0)
  | None => (c, match aget (pending c) tx with Some _ => 2 | None => 1 end)
  end.
(* complete_abort: 0 Ok, 1 not found, 2 not in aborting phase *)
Definition c_complete_abort (c : coord) (tx : N) : coord * N :=
  match aget (pending c) tx with
  | Some t => if N.eqb (c_phase t) 2 then (set_pending c (adel (pending c) tx), 0) else (c, 2)
  | None => (c, if is_committing c tx then 2 else 1)
  end.

(* ------------------------------------------------------------------ network + driver *)
Inductive msg :=
| MPrepare (tx sh : N) (ops : list pop)
| MVote (tx sh : N) (v : vote)
| MCommit (tx sh : N)
| MAbort (tx sh : N).

Inductive ev :=
| EBegin (parts : list N) (ops : list (N * list pop)) (xconf : bool)  (* begin + a prepare message per participant *)
| EDeliver (i : N) (keep : bool)       (* deliver the i-th message in flight; keep = it stays in flight (duplication) *)
| EDrop (i : N)                        (* loss *)
| ECommit (tx : N)                     (* the driver calls coordinator.commit and broadcasts on success *)
| EAbort (tx : N)                      (* ... coordinator.abort *)
| ETimeouts                            (* cleanup_timeouts *)
| ETakeAborts                          (* take_pending_aborts, broadcast *)
| EAdvance (d : N)
| ERecover                             (* coordinator.recover(), then get_pending_decisions() and a Commit / Abort message to
                                          every participant of each listed transaction *)
| ECompleteCommit (tx : N)             (* coordinator.complete_commit *)
| ECompleteAbort (tx : N)              (* coordinator.complete_abort *)
| ESweep (sh : N) (strict : bool) (tmo : N)   (* participant housekeeping: cleanup_stale(tmo) / recover(tmo) on shard sh *)
| EStray (tx sh : N) (yes : bool).   (* a misrouted / stale vote carrying tx's id: from a shard that is NOT one of its participants,
                                        or a duplicate (possibly with different content) for a participant that already voted *)

Record gst := G {
  co : coord; ps : list part; net : list msg; gnow : N; gh : N;
  dec : list (N * bool);            (* GHOST: decisions in order: (tx, true = commit) *)
  applied : list (N * N);           (* GHOST: (tx, shard) whose writes were applied *)
  discarded : list (N * N);         (* GHOST: (tx, shard) whose prepared entry was dropped by an abort *)
  cast : list (N * N);              (* GHOST: (tx, shard) for which the participant answered Yes *)
  parts_of : list (N * list N)      (* GHOST: participants of every tx ever begun *)
}.

Definition ginit (ctmo : N) (parts0 : list part) : gst := G (coord_init ctmo) parts0 [] 1000 1 [] [] [] [] [].

Definition nth_part (l : list part) (sh : N) : option part := nth_error l (N.to_nat sh).
Fixpoint set_nth {A} (l : list A) (i : nat) (x : A) : list A :=
  match l, i with
  | [], _ => []
  | _ :: t, O => x :: t
  | h :: t, Datatypes.S j => h :: set_nth t j x
  end.
Fixpoint remove_nth {A} (l : list A) (i : nat) : list A :=
  match l, i with
  | [], _ => []
  | _ :: t, O => t
  | h :: t, Datatypes.S j => h :: remove_nth t j
  end.

Definition ops_for (ops : list (N * list pop)) (sh : N) : list pop := match aget ops sh with Some l => l | None => [] end.
Definition bcast (mk : N -> msg) (shs : list N) : list msg := map mk shs.
Definition has_prepared (p : part) (tx : N) : bool := match aget (prepared p) tx with Some _ => true | None => false end.

(* deliver one message; returns the new state (message bag untouched here) and the call's return value *)
Definition deliver (g : gst) (m : msg) : gst * list N :=
  match m with
  | MPrepare tx sh ops =>
      match nth_part (ps g) sh with
      | None => (g, [9])
      | Some p =>
          let '(p', v) := p_prepare (gnow g) (gh g) p tx ops in
          let g1 := G (co g) (set_nth (ps g) (N.to_nat sh) p') (net g ++ [MVote tx sh v]) (gnow g)
                      (if is_yes v then gh g + 1 else gh g) (dec g) (applied g) (discarded g)
                      (if is_yes v then (tx, sh) :: cast g else cast g) (parts_of g) in
          (g1, match v with VYes h => [0; h] | VConflict o => [1; o] end)
      end
  | MVote tx sh v =>
      let '(c', r) := c_vote (co g) tx sh v in
      (G c' (ps g) (net g) (gnow g) (gh g) (dec g) (applied g) (discarded g) (cast g) (parts_of g), [r])
  | MCommit tx sh =>
      match nth_part (ps g) sh with
      | None => (g, [9])
      | Some p =>
          let '(p', ok) := p_commit p tx in
          (G (co g) (set_nth (ps g) (N.to_nat sh) p') (net g) (gnow g) (gh g) (dec g)
             (if ok then (tx, sh) :: applied g else applied g) (discarded g) (cast g) (parts_of g),
           [if ok then 1 else 0])
      end
  | MAbort tx sh =>
      match nth_part (ps g) sh with
      | None => (g, [9])
      | Some p =>
          (G (co g) (set_nth (ps g) (N.to_nat sh) (p_abort p tx)) (net g) (gnow g) (gh g) (dec g) (applied g)
             (if has_prepared p tx then (tx, sh) :: discarded g else discarded g) (cast g) (parts_of g),
           [1])
      end
  end.

Definition flat_aborts (l : list (N * list N)) : list N :=
  flat_map (fun ts => fst ts :: N.of_nat (length (snd ts)) :: snd ts) l.
Definition abort_msgs (l : list (N * list N)) : list msg := flat_map (fun ts => bcast (MAbort (fst ts)) (snd ts)) l.

Definition gstep (g : gst) (e : ev) : gst * list N :=
  match e with
  | EBegin parts ops xconf =>
      let '(c', tx) := c_begin (gnow g) (co g) parts xconf in
      (G c' (ps g) (net g ++ map (fun sh => MPrepare tx sh (ops_for ops sh)) parts) (gnow g) (gh g) (dec g)
         (applied g) (discarded g) (cast g) ((tx, parts) :: parts_of g), [tx])
  | EDeliver i keep =>
      match nth_error (net g) (N.to_nat i) with
      | None => (g, [9])
      | Some m =>
          let g0 := if keep then g else
                      G (co g) (ps g) (remove_nth (net g) (N.to_nat i)) (gnow g) (gh g) (dec g) (applied g) (discarded g) (cast g) (parts_of g) in
          deliver g0 m
      end
  | EDrop i =>
      (G (co g) (ps g) (remove_nth (net g) (N.to_nat i)) (gnow g) (gh g) (dec g) (applied g) (discarded g) (cast g) (parts_of g), [])
  | ECommit tx =>
      let '(c', r, shs) := c_commit (co g) tx in
      (G c' (ps g) (net g ++ bcast (MCommit tx) shs) (gnow g) (gh g)
         (if N.eqb r 0 then dec g ++ [(tx, true)] else dec g) (applied g) (discarded g) (cast g) (parts_of g), [r])
  | EAbort tx =>
      let '(c', r, shs) := c_abort (co g) tx in
      (G c' (ps g) (net g ++ bcast (MAbort tx) shs) (gnow g) (gh g)
         (if N.eqb r 0 then dec g ++ [(tx, false)] else dec g) (applied g) (discarded g) (cast g) (parts_of g), [r])
  | ETimeouts =>
      let '(c', out) := c_timeouts (gnow g) (co g) in
      (G c' (ps g) (net g) (gnow g) (gh g) (dec g ++ map (fun ts => (fst ts, false)) out)
         (applied g) (discarded g) (cast g) (parts_of g), map fst out)
  | ETakeAborts =>
      let '(c', q) := c_take (co g) in
      let q' := sort_by_fst q in
      (G c' (ps g) (net g ++ abort_msgs q') (gnow g) (gh g) (dec g) (applied g) (discarded g) (cast g) (parts_of g),
       flat_aborts q')
  | EAdvance d =>
      (G (co g) (ps g) (net g) (gnow g + d) (gh g) (dec g) (applied g) (discarded g) (cast g) (parts_of g), [])
  | ERecover =>
      let c' := c_recover (gnow g) (co g) in
      let ds := c_decisions c' in
      let newly := map (fun kt => (fst kt, true)) (filter (to_commit (gnow g)) (pending (co g))) in
      (G c' (ps g)
         (net g ++ flat_map (fun d => bcast (if N.eqb (fst (snd d)) 3 then MCommit (fst d) else MAbort (fst d)) (snd (snd d))) ds)
         (gnow g) (gh g) (dec g ++ newly) (applied g) (discarded g) (cast g) (parts_of g),
       [count_cat (gnow g) (co g) 0; count_cat (gnow g) (co g) 1; count_cat (gnow g) (co g) 2; count_cat (gnow g) (co g) 3]
       ++ flat_map (fun d => [fst d; fst (snd d)]) ds)
  | ECompleteCommit tx =>
      let '(c', r) := c_complete_commit (co g) tx in
      (G c' (ps g) (net g) (gnow g) (gh g) (dec g) (applied g) (discarded g) (cast g) (parts_of g), [r])
  | ECompleteAbort tx =>
      let '(c', r) := c_complete_abort (co g) tx in
      (G c' (ps g) (net g) (gnow g) (gh g) (if N.eqb r 0 then dec g ++ [(tx, false)] else dec g)
         (applied g) (discarded g) (cast g) (parts_of g), [r])
  | ESweep sh strict tmo =>
      match nth_part (ps g) sh with
      | None => (g, [9])
      | Some p =>
          let '(p', out) := p_sweep (gnow g) tmo strict p in
          (G (co g) (set_nth (ps g) (N.to_nat sh) p') (net g) (gnow g) (gh g) (dec g) (applied g) (discarded g) (cast g) (parts_of g),
           out)
      end
  | EStray tx sh yes =>
      match aget (pending (co g)) tx with
      | Some t =>
          (* a forged FIRST vote of a participant is outside the fault model; a stale / re-sent vote with different
             content for a participant that has already voted is a duplicate and is inside *)
          if mem sh (c_parts t) && negb (match aget (c_votes t) sh with Some _ => true | None => false end) then (g, [9])
          else let '(c', r) := c_vote (co g) tx sh (if yes then VYes 0 else VConflict 0) in
               (G c' (ps g) (net g) (gnow g) (gh g) (dec g) (applied g) (discarded g) (cast g) (parts_of g), [r])
      | None => (g, [if is_committing (co g) tx then 4 else 3])
      end
  end.

Definition grun (g : gst) (es : list ev) : gst := fold_left (fun g e => fst (gstep g e)) es g.
