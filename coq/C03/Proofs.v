(* C03/Proofs.v -- invariants of the 2PC model over ALL event schedules, and the participant-level undo theorem. *)
From Coq Require Import Permutation.
From NV.Common Require Import Base LockTable LockTableFacts.
From NV.C03 Require Import Model.
Open Scope N_scope.
Arguments N.add : simpl never.
Arguments N.sub : simpl never.
Arguments N.eqb : simpl never.
Arguments N.ltb : simpl never.
Arguments N.leb : simpl never.

(* ================================================================== 0. list / association-list helpers *)
Lemma insert_by_fst_perm {A} (x : N * A) l : Permutation (insert_by_fst x l) (x :: l).
Proof.
  induction l as [|y r IH]; cbn; [apply Permutation_refl|].
  destruct (N.leb (fst x) (fst y)); [apply Permutation_refl|].
  eapply Permutation_trans; [apply perm_skip; exact IH|apply perm_swap].
Qed.
Lemma sort_by_fst_perm {A} (l : list (N * A)) : Permutation (sort_by_fst l) l.
Proof.
  induction l as [|x r IH]; cbn; [constructor|].
  eapply Permutation_trans; [apply insert_by_fst_perm|]. now apply perm_skip.
Qed.
Lemma sort_by_fst_In {A} (l : list (N * A)) x : In x (sort_by_fst l) <-> In x l.
Proof. split; apply Permutation_in; [apply sort_by_fst_perm|apply Permutation_sym, sort_by_fst_perm]. Qed.

Lemma aget_key_in {V} (l : list (N * V)) k v : aget l k = Some v -> In k (map fst l).
Proof. intros H. apply aget_In in H. change k with (fst (k, v)). now apply in_map. Qed.

Lemma aget_filter {V} (f : N * V -> bool) (l : list (N * V)) k :
  NoDup (map fst l) ->
  aget (filter f l) k = match aget l k with Some v => if f (k, v) then Some v else None | None => None end.
Proof.
  induction l as [|[k0 v0] r IH]; cbn; intros ND; [reflexivity|].
  inversion ND as [|? ? Hn ND']; subst.
  destruct (N.eqb_spec k0 k) as [->|Hne].
  - destruct (f (k, v0)) eqn:F; cbn; [now rewrite N.eqb_refl|].
    rewrite IH by exact ND'. destruct (aget r k) as [v|] eqn:G; [|reflexivity].
    exfalso. apply Hn. eapply aget_key_in; eauto.
  - destruct (f (k0, v0)); cbn; [|now apply IH].
    destruct (N.eqb_spec k0 k); [contradiction|now apply IH].
Qed.

(* ================================================================== 1. participant: abort and the data *)
Definition keys_of_ops (ops : list pop) : list N := map pop_key ops.

(* undo images agree with the store for every prepared tx that is not dirty *)
Definition PInv (p : part) : Prop :=
  forall tx e, aget (prepared p) tx = Some e ->
    map fst (p_undo e) = keys_of_ops (p_ops e) /\
    (~ In tx (dirty p) -> forall k pre, In (k, pre) (p_undo e) -> aget (store p) k = pre).

Lemma part_init_PInv st0 tmo0 : PInv (part_init st0 tmo0).
Proof. intros tx e H. discriminate. Qed.

Lemma fold_undo_noop u : forall st0 st,
  (forall k, aget st k = aget st0 k) ->
  (forall k pre, In (k, pre) u -> aget st0 k = pre) ->
  forall k, aget (fold_left undo_one u st) k = aget st0 k.
Proof.
  induction u as [|[k0 pre0] r IH]; intros st0 st E C k; cbn [fold_left]; [apply E|].
  apply IH; [|intros; apply C; now right].
  intros k'. unfold undo_one; cbn [fst snd]. pose proof (C k0 pre0 (or_introl eq_refl)) as C0.
  destruct pre0 as [v|].
  - rewrite aget_aset. destruct (N.eqb_spec k0 k') as [->|]; [now rewrite C0|apply E].
  - rewrite aget_adel. destruct (N.eqb_spec k0 k') as [->|]; [now rewrite C0|apply E].
Qed.

Lemma fold_undo_other u : forall st k, ~ In k (map fst u) -> aget (fold_left undo_one u st) k = aget st k.
Proof.
  induction u as [|[k0 pre0] r IH]; intros st k Hn; cbn [fold_left]; [reflexivity|].
  cbn in Hn. rewrite IH by tauto. unfold undo_one; cbn [fst snd]. destruct pre0.
  - rewrite aget_aset. destruct (N.eqb_spec k0 k); [tauto|reflexivity].
  - rewrite aget_adel. destruct (N.eqb_spec k0 k); [tauto|reflexivity].
Qed.

Lemma fold_apply_other ops : forall st k, ~ In k (keys_of_ops ops) -> aget (fold_left apply_op ops st) k = aget st k.
Proof.
  induction ops as [|o r IH]; intros st k Hn; cbn [fold_left]; [reflexivity|].
  cbn in Hn. rewrite IH by tauto. destruct o; cbn in *.
  - rewrite aget_aset. destruct (N.eqb_spec k0 k); [tauto|reflexivity].
  - rewrite aget_adel. destruct (N.eqb_spec k0 k); [tauto|reflexivity].
  - destruct (aget st k0) as [x|]; [|reflexivity]. destruct (N.eqb x e); [|reflexivity].
    rewrite aget_aset. destruct (N.eqb_spec k0 k); [tauto|reflexivity].
Qed.

Lemma touches_false ops e k : touches ops e = false -> In k (keys_of_ops (p_ops e)) -> ~ In k (keys_of_ops ops).
Proof.
  unfold touches. intros T Hk Hin. unfold keys_of_ops in *. apply in_map_iff in Hin. destruct Hin as [o [<- Ho]].
  apply in_map_iff in Hk. destruct Hk as [o' [E Ho']].
  assert (existsb (fun o0 => existsb (fun o'0 => N.eqb (pop_key o0) (pop_key o'0)) (p_ops e)) ops = true); [|congruence].
  apply existsb_exists. exists o. split; [exact Ho|]. apply existsb_exists. exists o'. split; [exact Ho'|].
  apply N.eqb_eq. congruence.
Qed.

Lemma mark_In ops rest : forall d x,
  In x (mark ops rest d) <-> In x d \/ exists e, In (x, e) rest /\ touches ops e = true.
Proof.
  unfold mark. induction rest as [|[t e0] r IH]; intros d x; cbn [fold_left fst snd].
  - split; [auto|intros [H|[e [[] _]]]; exact H].
  - rewrite IH. destruct (touches ops e0) eqn:T.
    + rewrite set_add_In. split.
      * intros [[->|H]|[e [H1 H2]]]; [right; exists e0; cbn; auto|auto|right; exists e; cbn; auto].
      * intros [H|[e [[[= <- <-]|H1] H2]]]; [auto|auto|right; eauto].
    + split.
      * intros [H|[e [H1 H2]]]; [auto|right; exists e; cbn; auto].
      * intros [H|[e [[[= <- <-]|H1] H2]]]; [auto|congruence|right; eauto].
Qed.

Lemma undo_keys_in e k pre : map fst (p_undo e) = keys_of_ops (p_ops e) -> In (k, pre) (p_undo e) -> In k (keys_of_ops (p_ops e)).
Proof. intros <- H. change k with (fst (k, pre)). now apply in_map. Qed.

Lemma p_prepare_PInv now h p tx ops : PInv p -> PInv (fst (p_prepare now h p tx ops)).
Proof.
  intros I. unfold p_prepare. destruct (mem tx (decidedp p)); [exact I|].
  destruct (try_lock now tx h (ptmo p) (map pop_key ops) (ptbl p)) as [t' [h'|o]]; cbn [fst]; [|exact I].
  intros tx' e. cbn [prepared store dirty]. rewrite aget_aset. destruct (N.eqb_spec tx tx') as [<-|Hne].
  - intros [= <-]. cbn [p_undo p_ops]. split.
    + rewrite map_map. reflexivity.
    + intros _ k pre Hin. apply in_map_iff in Hin. destruct Hin as [o [[= <- <-] _]]. reflexivity.
  - intros G. destruct (I tx' e G) as [K C]. split; [exact K|]. intros Hd. apply C. intros Hin. apply Hd.
    apply set_remove_In. split; [exact Hin|congruence].
Qed.

Lemma p_prepare_store now h p tx ops : store (fst (p_prepare now h p tx ops)) = store p.
Proof. unfold p_prepare. destruct (mem tx (decidedp p)); [reflexivity|]. destruct (try_lock _ _ _ _ _ _) as [t' [h'|o]]; reflexivity. Qed.

Lemma p_commit_PInv p tx : PInv p -> PInv (fst (p_commit p tx)).
Proof.
  intros I. unfold p_commit. destruct (aget (prepared p) tx) as [e|] eqn:G; cbn [fst]; [|exact I].
  intros tx' e'. cbn [prepared store dirty]. rewrite aget_adel. destruct (N.eqb_spec tx tx') as [<-|Hne]; [discriminate|].
  intros G'. destruct (I tx' e' G') as [K C]. split; [exact K|]. intros Hd k pre Hin.
  assert (Hin' : In (tx', e') (adel (prepared p) tx)) by (apply aget_In; rewrite aget_adel; destruct (N.eqb_spec tx tx'); [contradiction|exact G']).
  assert (T : touches (p_ops e) e' = false).
  { destruct (touches (p_ops e) e') eqn:T; [|reflexivity]. exfalso. apply Hd. apply mark_In. right. eauto. }
  rewrite fold_apply_other.
  - apply C; [|exact Hin]. intros Hx. apply Hd. apply mark_In. left. apply set_remove_In. split; [exact Hx|congruence].
  - eapply touches_false; [exact T|]. eapply undo_keys_in; eauto.
Qed.

(* the theorem about abort: if no other tx committed on tx's keys since its prepare (tx is not dirty),
   abort leaves every key of the store exactly as it was *)
Theorem p_abort_keeps_data p tx : PInv p -> ~ In tx (dirty p) -> forall k, aget (store (p_abort p tx)) k = aget (store p) k.
Proof.
  intros I Hd k. unfold p_abort. destruct (aget (prepared p) tx) as [e|] eqn:G; [|reflexivity]. cbn [store].
  destruct (I tx e G) as [_ C]. apply fold_undo_noop; [reflexivity|].
  intros k' pre Hin. apply in_rev in Hin. now apply C.
Qed.

Lemma p_abort_PInv p tx : PInv p -> PInv (p_abort p tx).
Proof.
  intros I. unfold p_abort. destruct (aget (prepared p) tx) as [e|] eqn:G; [|exact I].
  intros tx' e'. cbn [prepared store dirty]. rewrite aget_adel. destruct (N.eqb_spec tx tx') as [<-|Hne]; [discriminate|].
  intros G'. destruct (I tx' e' G') as [K C]. split; [exact K|]. intros Hd k pre Hin.
  destruct (I tx e G) as [Ke Ce].
  destruct (mem tx (dirty p)) eqn:M.
  - assert (Hin' : In (tx', e') (adel (prepared p) tx)) by (apply aget_In; rewrite aget_adel; destruct (N.eqb_spec tx tx'); [contradiction|exact G']).
    assert (T : touches (p_ops e) e' = false).
    { destruct (touches (p_ops e) e') eqn:T; [|reflexivity]. exfalso. apply Hd. apply mark_In. right. eauto. }
    rewrite fold_undo_other.
    + apply C; [|exact Hin]. intros Hx. apply Hd. apply mark_In. left. apply set_remove_In. split; [exact Hx|congruence].
    + rewrite map_rev, <- in_rev, Ke. eapply touches_false; [exact T|]. eapply undo_keys_in; eauto.
  - apply mem_nIn in M. rewrite fold_undo_noop with (st0 := store p).
    + apply C; [|exact Hin]. intros Hx. apply Hd. apply set_remove_In. split; [exact Hx|congruence].
    + reflexivity.
    + intros k' pre' Hin'. apply in_rev in Hin'. now apply Ce.
Qed.

(* ================================================================== 2. coordinator steps *)
Lemma all_voted_yes t : all_voted t = true -> all_yes t = true ->
  forall sh, In sh (c_parts t) -> exists h, aget (c_votes t) sh = Some (VYes h).
Proof.
  unfold all_voted, all_yes. rewrite !forallb_forall. intros V Y sh Hsh.
  specialize (V sh Hsh). destruct (aget (c_votes t) sh) as [v|] eqn:G; [|discriminate].
  specialize (Y (sh, v) (aget_In _ _ _ G)). cbn in Y. destruct v; [eauto|discriminate].
Qed.

(* record_vote either rejects and changes nothing, or records the vote and moves to phase ph *)
Lemma c_vote_cases c tx sh v :
  let c' := fst (c_vote c tx sh v) in let r := snd (c_vote c tx sh v) in
  nextid c' = nextid c /\ committing c' = committing c /\
  ((c' = c /\ (r = 3 \/ r = 4 \/ r = 5)) \/
   exists t ph, aget (pending c) tx = Some t /\ c_phase t = 0 /\ aget (c_votes t) sh = None /\
     let t' := Ctx ph (c_parts t) (aset (c_votes t) sh v) (c_started t) (c_tmo t) (c_xconf t) in
     pending c' = aset (pending c) tx t' /\
     ((ph = 0 /\ r = 0 /\ aborts c' = aborts c) \/
      (ph = 1 /\ r = 1 /\ aborts c' = aborts c /\ all_voted t' = true /\ all_yes t' = true) \/
      (ph = 2 /\ r = 2 /\ aborts c' = aborts c ++ [(tx, c_parts t)]))).
Proof.
  unfold c_vote. destruct (aget (pending c) tx) as [t|] eqn:G; cbn zeta;
    [|split; [reflexivity|split; [reflexivity|left; destruct (is_committing c tx); auto]]].
  destruct (N.eqb_spec (c_phase t) 0) as [P0|P0]; cbn [negb]; [|split; [reflexivity|split; [reflexivity|left; auto]]].
  destruct (aget (c_votes t) sh) eqn:Gv; [split; [reflexivity|split; [reflexivity|left; auto]]|].
  set (t1 := Ctx 0 (c_parts t) (aset (c_votes t) sh v) (c_started t) (c_tmo t) (c_xconf t)).
  destruct (all_voted t1) eqn:AV.
  - destruct (all_yes t1) eqn:AY; cbn [andb].
    + destruct (negb (c_xconf t1)) eqn:X; cbn; (split; [reflexivity|split; [reflexivity|]]); right; exists t.
      * exists 1. repeat split; auto. right; left. repeat split; auto.
      * exists 2. repeat split; auto.
    + cbn. split; [reflexivity|split; [reflexivity|]]. right. exists t, 2. repeat split; auto.
  - cbn. split; [reflexivity|split; [reflexivity|]]. right. exists t, 0. repeat split; auto.
Qed.

Lemma c_commit_cases c tx :
  let '(c', r, shs) := c_commit c tx in
  (c' = c /\ r <> 0 /\ shs = []) \/
  (exists t, aget (pending c) tx = Some t /\ c_phase t = 1 /\ r = 0 /\ shs = c_parts t /\
             c' = Co (adel (pending c) tx) (aborts c) (nextid c) (prep_tmo c) (committing c)).
Proof.
  unfold c_commit. destruct (aget (pending c) tx) as [t|] eqn:G; [|destruct (is_committing c tx); left; repeat split; discriminate].
  destruct (N.eqb_spec (c_phase t) 1); [right; exists t; repeat split; auto|left; repeat split; discriminate].
Qed.

Lemma c_abort_cases c tx :
  let '(c', r, shs) := c_abort c tx in
  (c' = c /\ r <> 0 /\ shs = []) \/
  (exists t, aget (pending c) tx = Some t /\ r = 0 /\ shs = c_parts t /\
             c' = Co (adel (pending c) tx) (aborts c) (nextid c) (prep_tmo c) (committing c)).
Proof.
  unfold c_abort. destruct (aget (pending c) tx) as [t|] eqn:G; [|destruct (is_committing c tx); left; repeat split; discriminate].
  right; exists t; repeat split; auto.
Qed.

(* ================================================================== 3. the global invariant *)
Definition NoCommit (g : gst) (tx : N) : Prop :=
  In (tx, false) (dec g) \/ exists t, aget (pending (co g)) tx = Some t /\ c_phase t = 2.

Record Inv (g : gst) : Prop := {
  iO : NoDup (map fst (pending (co g)));
  iA : forall tx t, aget (pending (co g)) tx = Some t -> tx < nextid (co g);
  iB : forall tx b, In (tx, b) (dec g) -> tx < nextid (co g) /\ aget (pending (co g)) tx = None;
  iC : NoDup (map fst (dec g));
  iD : forall tx t, aget (pending (co g)) tx = Some t -> c_phase t = 1 ->
         forall sh, In sh (c_parts t) -> exists h, aget (c_votes t) sh = Some (VYes h);
  iE : forall tx t sh h, aget (pending (co g)) tx = Some t -> aget (c_votes t) sh = Some (VYes h) -> In sh (c_parts t) -> In (tx, sh) (cast g);
  iF : forall tx sh h, In (MVote tx sh (VYes h)) (net g) -> In (tx, sh) (cast g);
  iG : forall tx sh, In (MCommit tx sh) (net g) -> In (tx, true) (dec g);
  iH : forall tx sh, In (MAbort tx sh) (net g) -> NoCommit g tx;
  iI : forall tx shs, In (tx, shs) (aborts (co g)) -> NoCommit g tx;
  iJ : forall tx sh, In (tx, sh) (applied g) -> In (tx, true) (dec g);
  iK : forall tx sh, In (tx, sh) (discarded g) -> NoCommit g tx;
  iL : forall tx t parts, aget (pending (co g)) tx = Some t -> In (tx, parts) (parts_of g) -> parts = c_parts t;
  iN : forall tx parts, In (tx, parts) (parts_of g) -> tx < nextid (co g);
  iM : forall tx parts sh, In (tx, true) (dec g) -> In (tx, parts) (parts_of g) -> In sh parts -> In (tx, sh) (cast g);
  iP : forall p, In p (ps g) -> PInv p;
  iR : forall tx t, In (tx, t) (committing (co g)) -> In (tx, true) (dec g)
}.

Lemma NoCommit_not_committed g tx : Inv g -> NoCommit g tx -> ~ In (tx, true) (dec g).
Proof.
  intros I [Hf|[t [G P]]] Ht.
  - pose proof (iC g I) as ND. clear -ND Hf Ht. induction (dec g) as [|[a b] r IH]; [destruct Hf|].
    cbn in ND. inversion ND as [|? ? Hn ND']; subst.
    destruct Hf as [[= -> ->]|Hf], Ht as [E|Ht]; try discriminate.
    + apply Hn. change tx with (fst (tx, true)). now apply in_map.
    + injection E as -> ->. apply Hn. change tx with (fst (tx, false)). now apply in_map.
    + auto.
  - destruct (iB g I tx true Ht) as [_ Gn]. congruence.
Qed.

Lemma ginit_Inv ctmo parts0 : (forall p, In p parts0 -> PInv p) -> Inv (ginit ctmo parts0).
Proof.
  intros HP. constructor; cbn.
  - constructor.
  - intros; discriminate.
  - intros tx b [].
  - constructor.
  - intros; discriminate.
  - intros; discriminate.
  - intros tx sh h [].
  - intros tx sh [].
  - intros tx sh [].
  - intros tx shs [].
  - intros tx sh [].
  - intros tx sh [].
  - intros; discriminate.
  - intros tx parts [].
  - intros tx parts sh [].
  - exact HP.
  - intros tx t [].
Qed.

Lemma remove_nth_In {A} (l : list A) i x : In x (remove_nth l i) -> In x l.
Proof.
  revert i. induction l as [|a r IH]; intros i H; [destruct i; exact H|].
  destruct i; cbn in H; [now right|]. destruct H; [now left|right; eauto].
Qed.
Lemma set_nth_In {A} (l : list A) i x y : In y (set_nth l i x) -> y = x \/ In y l.
Proof.
  revert i. induction l as [|a r IH]; intros i H; [destruct i; destruct H|].
  destruct i; cbn in H.
  - destruct H; [left; auto|right; now right].
  - destruct H; [right; now left|]. destruct (IH _ H); [left; auto|right; now right].
Qed.
Lemma nth_part_In l sh p : nth_part l sh = Some p -> In p l.
Proof. unfold nth_part. apply nth_error_In. Qed.

(* what the invariant guarantees about a message in flight *)
Definition msg_ok (g : gst) (m : msg) : Prop :=
  match m with
  | MVote tx sh (VYes _) => In (tx, sh) (cast g)
  | MCommit tx sh => In (tx, true) (dec g)
  | MAbort tx sh => NoCommit g tx
  | _ => True
  end.

Lemma net_msg_ok g m : Inv g -> In m (net g) -> msg_ok g m.
Proof.
  intros I H. destruct m as [tx sh ops|tx sh v|tx sh|tx sh]; cbn; auto.
  - destruct v; auto. eapply iF; eauto.
  - eapply iG; eauto.
  - eapply iH; eauto.
Qed.

(* shrinking the bag keeps the invariant *)
Lemma shrink_Inv g net' : Inv g -> (forall m, In m net' -> In m (net g)) ->
  Inv (G (co g) (ps g) net' (gnow g) (gh g) (dec g) (applied g) (discarded g) (cast g) (parts_of g)).
Proof.
  intros I Hs. destruct I. constructor; cbn; auto.
  - intros tx sh h H. eapply iF0; eauto.
  - intros tx sh H. eapply iG0; eauto.
  - intros tx sh H. apply (iH0 tx sh). auto.
Qed.

Lemma advance_Inv g d : Inv g ->
  Inv (G (co g) (ps g) (net g) (gnow g + d) (gh g) (dec g) (applied g) (discarded g) (cast g) (parts_of g)).
Proof. intros I. destruct I. constructor; cbn; auto. Qed.

Lemma in_app_single {A} (l : list A) x y : In y (l ++ [x]) -> In y l \/ y = x.
Proof. rewrite in_app_iff. cbn. intuition. Qed.

(* ---------------------------------------------------------------- deliver *)
Lemma deliver_prepare_Inv g tx sh ops : Inv g -> Inv (fst (deliver g (MPrepare tx sh ops))).
Proof.
  intros I. cbn [deliver]. destruct (nth_part (ps g) sh) as [p|] eqn:Np; [|exact I].
  pose proof (p_prepare_PInv (gnow g) (gh g) p tx ops (iP g I p (nth_part_In _ _ _ Np))) as HP.
  destruct (p_prepare (gnow g) (gh g) p tx ops) as [p' v]. cbn [fst] in *.
  destruct I. constructor; cbn; auto.
  - intros tx0 t sh0 h G0 Gv. destruct (is_yes v); [right|]; eauto.
  - intros tx0 sh0 h H. apply in_app_single in H. destruct H as [H|[= -> -> <-]].
    + destruct (is_yes v); [right|]; eauto.
    + cbn. now left.
  - intros tx0 sh0 H. apply in_app_single in H. destruct H as [H|H]; [eauto|discriminate].
  - intros tx0 sh0 H. apply in_app_single in H. destruct H as [H|H]; [|discriminate]. apply (iH0 tx0 sh0 H).
  - intros tx0 parts sh0 H1 H2 H3. destruct (is_yes v); [right|]; eauto.
  - intros q Hq. apply set_nth_In in Hq. destruct Hq as [->|Hq]; auto.
Qed.

Lemma deliver_commit_Inv g tx sh : Inv g -> In (tx, true) (dec g) -> Inv (fst (deliver g (MCommit tx sh))).
Proof.
  intros I Hd. cbn [deliver]. destruct (nth_part (ps g) sh) as [p|] eqn:Np; [|exact I].
  pose proof (p_commit_PInv p tx (iP g I p (nth_part_In _ _ _ Np))) as HP.
  destruct (p_commit p tx) as [p' ok]. cbn [fst] in *.
  destruct I. constructor; cbn; auto.
  - intros tx0 sh0 H. destruct ok; [destruct H as [[= <- <-]|H]|]; eauto.
  - intros q Hq. apply set_nth_In in Hq. destruct Hq as [->|Hq]; auto.
Qed.

Lemma deliver_abort_Inv g tx sh : Inv g -> NoCommit g tx -> Inv (fst (deliver g (MAbort tx sh))).
Proof.
  intros I Hn. cbn [deliver]. destruct (nth_part (ps g) sh) as [p|] eqn:Np; [|exact I].
  pose proof (p_abort_PInv p tx (iP g I p (nth_part_In _ _ _ Np))) as HP. cbn [fst].
  destruct I. constructor; cbn; auto.
  - intros tx0 sh0 H. destruct (has_prepared p tx); [destruct H as [[= <- <-]|H]|]; [exact Hn| |]; apply (iK0 tx0 sh0 H).
  - intros q Hq. apply set_nth_In in Hq. destruct Hq as [->|Hq]; auto.
Qed.

Lemma NoCommit_aset g g' tx t t' :
  dec g' = dec g -> pending (co g') = aset (pending (co g)) tx t' ->
  aget (pending (co g)) tx = Some t -> (c_phase t = 2 -> c_phase t' = 2) ->
  forall tx0, NoCommit g tx0 -> NoCommit g' tx0.
Proof.
  intros Ed Ep G P tx0 [H|[t0 [G0 P0]]]; unfold NoCommit; rewrite Ed, Ep.
  - now left.
  - right. rewrite aget_aset. destruct (N.eqb_spec tx tx0) as [<-|Hne].
    + exists t'. split; [reflexivity|]. apply P. congruence.
    + eauto.
Qed.

Lemma vote_Inv g tx sh v : Inv g ->
  (forall t h, aget (pending (co g)) tx = Some t -> In sh (c_parts t) -> v = VYes h -> In (tx, sh) (cast g)) ->
  Inv (G (fst (c_vote (co g) tx sh v)) (ps g) (net g) (gnow g) (gh g) (dec g) (applied g) (discarded g) (cast g) (parts_of g)).
Proof.
  intros I Hok.
  pose proof (c_vote_cases (co g) tx sh v) as Hc. cbn zeta in Hc.
  destruct (c_vote (co g) tx sh v) as [c' r]. cbn [fst snd] in *.
  destruct Hc as [Hn [Hcm [[-> _]|[t [ph [Gp [P0 [Gv [Ep Hph]]]]]]]]].
  - destruct I. constructor; cbn; auto.
  - set (t' := Ctx ph (c_parts t) (aset (c_votes t) sh v) (c_started t) (c_tmo t) (c_xconf t)) in *.
    set (g' := G c' (ps g) (net g) (gnow g) (gh g) (dec g) (applied g) (discarded g) (cast g) (parts_of g)).
    assert (NC : forall tx0, NoCommit g tx0 -> NoCommit g' tx0).
    { apply (NoCommit_aset g g' tx t t'); auto. intros P2. rewrite P0 in P2. discriminate. }
    destruct I as [iO0 iA0 iB0 iC0 iD0 iE0 iF0 iG0 iH0 iI0 iJ0 iK0 iL0 iN0 iM0 iP0 iR0]. constructor.
    + (* iO *) cbn. rewrite Ep. now apply aset_NoDup.
    + (* iA *) cbn. intros tx0 t0. rewrite Ep, Hn, aget_aset. destruct (N.eqb_spec tx tx0) as [<-|]; [intros _; eauto|eauto].
    + (* iB *) cbn. intros tx0 b Hd. destruct (iB0 tx0 b Hd) as [Hlt Gn]. rewrite Hn. split; [exact Hlt|].
      rewrite Ep, aget_aset. destruct (N.eqb_spec tx tx0) as [<-|]; [congruence|exact Gn].
    + (* iC *) exact iC0.
    + (* iD *) cbn. intros tx0 t0. rewrite Ep, aget_aset. destruct (N.eqb_spec tx tx0) as [<-|]; [|eauto].
      intros [= <-] P1 sh0 Hsh. cbn in P1. subst ph.
      destruct Hph as [[? _]|[[_ [_ [_ [AV AY]]]]|[? _]]]; try discriminate.
      exact (all_voted_yes t' AV AY sh0 Hsh).
    + (* iE *) cbn. intros tx0 t0 sh0 h. rewrite Ep, aget_aset. destruct (N.eqb_spec tx tx0) as [<-|]; [|eauto].
      intros [= <-]. cbn [c_votes t']. rewrite aget_aset. destruct (N.eqb_spec sh sh0) as [<-|]; [|eauto].
      intros [= ->] Hp. cbn [c_parts t'] in Hp. exact (Hok t h Gp Hp eq_refl).
    + (* iF *) exact iF0.
    + (* iG *) exact iG0.
    + (* iH *) intros tx0 sh0 H. apply NC. exact (iH0 tx0 sh0 H).
    + (* iI *) intros tx0 shs H. cbn [co g'] in H.
      assert (Hq : In (tx0, shs) (aborts (co g)) \/ (ph = 2 /\ tx0 = tx)).
      { destruct Hph as [[_ [_ Ea]]|[[_ [_ [Ea _]]]|[-> [_ Ea]]]]; rewrite Ea in H; auto.
        apply in_app_single in H. destruct H as [H|[= -> ->]]; auto. }
      destruct Hq as [Hq|[-> ->]]; [apply NC; exact (iI0 tx0 shs Hq)|].
      right. exists t'. split; [cbn; rewrite Ep, aget_aset, N.eqb_refl; reflexivity|reflexivity].
    + (* iJ *) exact iJ0.
    + (* iK *) intros tx0 sh0 H. apply NC. exact (iK0 tx0 sh0 H).
    + (* iL *) cbn. intros tx0 t0 parts. rewrite Ep, aget_aset. destruct (N.eqb_spec tx tx0) as [<-|]; [|eauto].
      intros [= <-] Hp. cbn. eauto.
    + (* iN *) cbn. intros tx0 parts Hp. rewrite Hn. eauto.
    + (* iM *) exact iM0.
    + (* iP *) exact iP0.
    + (* iR *) cbn. rewrite Hcm. exact iR0.
Qed.


Lemma deliver_vote_Inv g tx sh v : Inv g -> msg_ok g (MVote tx sh v) -> Inv (fst (deliver g (MVote tx sh v))).
Proof.
  intros I Hok. cbn [deliver]. pose proof (vote_Inv g tx sh v I) as H.
  destruct (c_vote (co g) tx sh v) as [c' r]. cbn [fst] in *. apply H.
  intros t h _ _ ->. exact Hok.
Qed.

Lemma stray_Inv g tx sh yes : Inv g -> Inv (fst (gstep g (EStray tx sh yes))).
Proof.
  intros I. cbn [gstep]. destruct (aget (pending (co g)) tx) as [t|] eqn:Gt; [|exact I].
  destruct (mem sh (c_parts t)) eqn:M; cbn [andb].
  - (* a participant: only as a duplicate, which record_vote rejects without touching anything *)
    destruct (aget (c_votes t) sh) as [v0|] eqn:Gv; cbn [negb]; [|exact I].
    pose proof (c_vote_cases (co g) tx sh (if yes then VYes 0 else VConflict 0)) as Hc. cbn zeta in Hc.
    destruct (c_vote (co g) tx sh (if yes then VYes 0 else VConflict 0)) as [c' r]. cbn [fst snd] in *.
    destruct Hc as [_ [_ [[-> _]|[t' [ph [Gp [_ [Gn _]]]]]]]].
    + destruct I. constructor; cbn; auto.
    + rewrite Gt in Gp. injection Gp as <-. congruence.
  - pose proof (vote_Inv g tx sh (if yes then VYes 0 else VConflict 0) I) as H.
    destruct (c_vote (co g) tx sh (if yes then VYes 0 else VConflict 0)) as [c' r]. cbn [fst] in *. apply H.
    intros t' h Gt' Hp _. rewrite Gt in Gt'. injection Gt' as <-. apply mem_In in Hp. congruence.
Qed.

(* ---------------------------------------------------------------- begin *)
Lemma in_prepares m tx ops parts : In m (map (fun sh => MPrepare tx sh (ops_for ops sh)) parts) -> exists sh o, m = MPrepare tx sh o.
Proof. intros H. apply in_map_iff in H. destruct H as [sh [<- _]]. eauto. Qed.

Lemma begin_Inv g parts ops xconf : Inv g -> Inv (fst (gstep g (EBegin parts ops xconf))).
Proof.
  intros I. cbn [gstep c_begin fst].
  set (n := nextid (co g)).
  set (t0 := Ctx 0 parts [] (gnow g) (prep_tmo (co g)) xconf).
  assert (NC : forall g' tx0, dec g' = dec g -> pending (co g') = aset (pending (co g)) n t0 -> NoCommit g tx0 -> NoCommit g' tx0).
  { intros g' tx0 Ed Ep [H|[t [Gt P]]]; unfold NoCommit; rewrite Ed, Ep; [now left|right].
    rewrite aget_aset. destruct (N.eqb_spec n tx0) as [E|]; [|eauto].
    exfalso. pose proof (iA g I tx0 t Gt). unfold n in E. lia. }
  destruct I as [iO0 iA0 iB0 iC0 iD0 iE0 iF0 iG0 iH0 iI0 iJ0 iK0 iL0 iN0 iM0 iP0 iR0]. constructor.
  - cbn. now apply aset_NoDup.
  - cbn. intros tx t. rewrite aget_aset. destruct (N.eqb_spec n tx) as [<-|]; [intros _; unfold n; lia|].
    intros Gt. pose proof (iA0 tx t Gt). fold n in H. lia.
  - cbn. intros tx b Hd. destruct (iB0 tx b Hd) as [Hlt Gn]. fold n in Hlt. split; [lia|].
    rewrite aget_aset. destruct (N.eqb_spec n tx); [lia|exact Gn].
  - exact iC0.
  - cbn. intros tx t. rewrite aget_aset. destruct (N.eqb_spec n tx) as [<-|]; [intros [= <-]; cbn; discriminate|eauto].
  - cbn. intros tx t sh h. rewrite aget_aset. destruct (N.eqb_spec n tx) as [<-|]; [intros [= <-]; cbn; discriminate|eauto].
  - cbn. intros tx sh h H. apply in_app_iff in H. destruct H as [H|H]; [eauto|]. apply in_prepares in H. destruct H as [? [? ?]]. discriminate.
  - cbn. intros tx sh H. apply in_app_iff in H. destruct H as [H|H]; [eauto|]. apply in_prepares in H. destruct H as [? [? ?]]. discriminate.
  - intros tx sh H. cbn [net] in H. apply in_app_iff in H. destruct H as [H|H].
    + eapply NC; [reflexivity|reflexivity|]. exact (iH0 tx sh H).
    + apply in_prepares in H. destruct H as [? [? ?]]. discriminate.
  - intros tx shs H. eapply NC; [reflexivity|reflexivity|]. exact (iI0 tx shs H).
  - exact iJ0.
  - intros tx sh H. eapply NC; [reflexivity|reflexivity|]. exact (iK0 tx sh H).
  - cbn. intros tx t parts0. rewrite aget_aset. destruct (N.eqb_spec n tx) as [<-|Hne].
    + intros [= <-] [[= <-]|Hp]; [reflexivity|]. pose proof (iN0 n parts0 Hp). unfold n in H. lia.
    + intros Gt [[= E _]|Hp]; [congruence|eauto].
  - cbn. intros tx parts0 [[= <- _]|Hp]; [unfold n; lia|]. pose proof (iN0 tx parts0 Hp). lia.
  - cbn. intros tx parts0 sh Hd [[= <- _]|Hp] Hs; [|eauto]. destruct (iB0 n true Hd) as [Hlt _]. unfold n in Hlt. lia.
  - exact iP0.
  - cbn. exact iR0.
Qed.

(* ---------------------------------------------------------------- commit / abort decisions *)
Lemma NoCommit_adel g g' tx b :
  (forall x, In x (dec g) -> In x (dec g')) -> pending (co g') = adel (pending (co g)) tx ->
  In (tx, b) (dec g') -> (b = true -> forall t, aget (pending (co g)) tx = Some t -> c_phase t <> 2) ->
  forall tx0, NoCommit g tx0 -> NoCommit g' tx0.
Proof.
  intros Hd Ep Hin Hb tx0 [H|[t [Gt P]]]; unfold NoCommit; [left; auto|].
  destruct (N.eq_dec tx tx0) as [<-|Hne].
  - destruct b; [exfalso; eapply Hb; eauto|left; exact Hin].
  - right. rewrite Ep, aget_adel. destruct (N.eqb_spec tx tx0); [contradiction|eauto].
Qed.

Lemma dec_snoc_NoDup g tx b t : Inv g -> aget (pending (co g)) tx = Some t -> NoDup (map fst (dec g ++ [(tx, b)])).
Proof.
  intros I Gt. rewrite map_app. apply NoDup_app_intro; [exact (iC g I)|cbn; constructor; [tauto|constructor]|].
  intros x Hx [<-|[]]. apply in_map_iff in Hx. destruct Hx as [[x' b'] [E Hin]]. cbn in E. subst x'.
  destruct (iB g I _ _ Hin) as [_ Gn]. congruence.
Qed.

Lemma in_bcast mk shs m : In m (bcast mk shs) -> exists sh, m = mk sh.
Proof. unfold bcast. intros H. apply in_map_iff in H. destruct H as [sh [<- _]]. eauto. Qed.

Lemma commit_Inv g tx : Inv g -> Inv (fst (gstep g (ECommit tx))).
Proof.
  intros I. cbn [gstep]. pose proof (c_commit_cases (co g) tx) as Hc.
  destruct (c_commit (co g) tx) as [[c' r] shs]. cbn [fst].
  destruct Hc as [[-> [Hr ->]]|[t [Gt [P1 [-> [-> ->]]]]]].
  - destruct (N.eqb_spec r 0); [contradiction|]. cbn [bcast map]. rewrite app_nil_r.
    destruct I. constructor; cbn; assumption.
  - cbn [N.eqb]. change (N.eqb 0 0) with true. cbv iota.
    set (g' := G _ _ _ _ _ _ _ _ _ _).
    assert (NC : forall tx0, NoCommit g tx0 -> NoCommit g' tx0).
    { apply (NoCommit_adel g g' tx true); cbn.
      - intros x Hx. apply in_or_app. now left.
      - reflexivity.
      - apply in_or_app. right. now left.
      - intros _ t' Gt'. rewrite Gt in Gt'. injection Gt' as <-. rewrite P1. discriminate. }
    pose proof (dec_snoc_NoDup g tx true t I Gt) as NDd.
    destruct I as [iO0 iA0 iB0 iC0 iD0 iE0 iF0 iG0 iH0 iI0 iJ0 iK0 iL0 iN0 iM0 iP0 iR0]. constructor.
    + cbn. now apply adel_NoDup.
    + cbn. intros tx0 t0. rewrite aget_adel. destruct (N.eqb tx tx0); [discriminate|eauto].
    + cbn. intros tx0 b Hd. apply in_app_single in Hd. destruct Hd as [Hd|[= -> ->]].
      * destruct (iB0 tx0 b Hd) as [Hlt Gn]. split; [exact Hlt|]. rewrite aget_adel. destruct (N.eqb tx tx0); [reflexivity|exact Gn].
      * split; [eauto|]. rewrite aget_adel, N.eqb_refl. reflexivity.
    + exact NDd.
    + cbn. intros tx0 t0. rewrite aget_adel. destruct (N.eqb tx tx0); [discriminate|eauto].
    + cbn. intros tx0 t0 sh h. rewrite aget_adel. destruct (N.eqb tx tx0); [discriminate|eauto].
    + cbn. intros tx0 sh h H. apply in_app_iff in H. destruct H as [H|H]; [eauto|]. apply in_bcast in H. destruct H; discriminate.
    + cbn. intros tx0 sh H. apply in_app_iff in H. apply in_or_app. destruct H as [H|H]; [left; eauto|].
      apply in_bcast in H. destruct H as [sh' [= -> ->]]. right. now left.
    + intros tx0 sh H. cbn [net g'] in H. apply in_app_iff in H. destruct H as [H|H]; [apply NC; eauto|].
      apply in_bcast in H. destruct H; discriminate.
    + intros tx0 shs H. apply NC. exact (iI0 tx0 shs H).
    + cbn. intros tx0 sh H. apply in_or_app. left. eauto.
    + intros tx0 sh H. apply NC. exact (iK0 tx0 sh H).
    + cbn. intros tx0 t0 parts. rewrite aget_adel. destruct (N.eqb tx tx0); [discriminate|eauto].
    + exact iN0.
    + cbn. intros tx0 parts sh Hd Hp Hs. apply in_app_single in Hd. destruct Hd as [Hd|[= ->]]; [eauto|].
      rewrite (iL0 tx t parts Gt Hp) in Hs. destruct (iD0 tx t Gt P1 sh Hs) as [h Gv]. eauto.
    + exact iP0.
    + cbn. intros tx0 t0 H. apply in_or_app. left. eauto.
Qed.

Lemma abort_Inv g tx : Inv g -> Inv (fst (gstep g (EAbort tx))).
Proof.
  intros I. cbn [gstep]. pose proof (c_abort_cases (co g) tx) as Hc.
  destruct (c_abort (co g) tx) as [[c' r] shs]. cbn [fst].
  destruct Hc as [[-> [Hr ->]]|[t [Gt [-> [-> ->]]]]].
  - destruct (N.eqb_spec r 0); [contradiction|]. cbn [bcast map]. rewrite app_nil_r.
    destruct I. constructor; cbn; assumption.
  - change (N.eqb 0 0) with true. cbv iota.
    set (g' := G _ _ _ _ _ _ _ _ _ _).
    assert (NC : forall tx0, NoCommit g tx0 -> NoCommit g' tx0).
    { apply (NoCommit_adel g g' tx false); cbn.
      - intros x Hx. apply in_or_app. now left.
      - reflexivity.
      - apply in_or_app. right. now left.
      - discriminate. }
    pose proof (dec_snoc_NoDup g tx false t I Gt) as NDd.
    destruct I as [iO0 iA0 iB0 iC0 iD0 iE0 iF0 iG0 iH0 iI0 iJ0 iK0 iL0 iN0 iM0 iP0 iR0]. constructor.
    + cbn. now apply adel_NoDup.
    + cbn. intros tx0 t0. rewrite aget_adel. destruct (N.eqb tx tx0); [discriminate|eauto].
    + cbn. intros tx0 b Hd. apply in_app_single in Hd. destruct Hd as [Hd|[= -> ->]].
      * destruct (iB0 tx0 b Hd) as [Hlt Gn]. split; [exact Hlt|]. rewrite aget_adel. destruct (N.eqb tx tx0); [reflexivity|exact Gn].
      * split; [eauto|]. rewrite aget_adel, N.eqb_refl. reflexivity.
    + exact NDd.
    + cbn. intros tx0 t0. rewrite aget_adel. destruct (N.eqb tx tx0); [discriminate|eauto].
    + cbn. intros tx0 t0 sh h. rewrite aget_adel. destruct (N.eqb tx tx0); [discriminate|eauto].
    + cbn. intros tx0 sh h H. apply in_app_iff in H. destruct H as [H|H]; [eauto|]. apply in_bcast in H. destruct H; discriminate.
    + cbn. intros tx0 sh H. apply in_app_iff in H. apply in_or_app. destruct H as [H|H]; [left; eauto|].
      apply in_bcast in H. destruct H; discriminate.
    + intros tx0 sh H. cbn [net g'] in H. apply in_app_iff in H. destruct H as [H|H]; [apply NC; eauto|].
      apply in_bcast in H. destruct H as [sh' [= -> ->]]. left. cbn. apply in_or_app. right. now left.
    + intros tx0 shs H. apply NC. exact (iI0 tx0 shs H).
    + cbn. intros tx0 sh H. apply in_or_app. left. eauto.
    + intros tx0 sh H. apply NC. exact (iK0 tx0 sh H).
    + cbn. intros tx0 t0 parts. rewrite aget_adel. destruct (N.eqb tx tx0); [discriminate|eauto].
    + exact iN0.
    + cbn. intros tx0 parts sh Hd Hp Hs. apply in_app_single in Hd. destruct Hd as [Hd|Hd]; [eauto|discriminate].
    + exact iP0.
    + cbn. intros tx0 t0 H. apply in_or_app. left. eauto.
Qed.

(* ---------------------------------------------------------------- timeouts / abort broadcast *)
Lemma filter_keys_NoDup {V} (f : N * V -> bool) (l : list (N * V)) : NoDup (map fst l) -> NoDup (map fst (filter f l)).
Proof.
  induction l as [|[k v] r IH]; cbn; intros ND; [constructor|]. inversion ND as [|? ? Hn ND']; subst.
  destruct (f (k, v)); cbn; [|auto]. constructor; [|auto].
  intros H. apply Hn. apply in_map_iff in H. destruct H as [[k' v'] [E Hin]]. cbn in E. subst k'.
  apply filter_In in Hin. destruct Hin as [Hin _]. change k with (fst (k, v')). now apply in_map.
Qed.

Definition timed_list (now : N) (pd : list (N * ctx)) : list (N * list N) :=
  map (fun kt => (fst kt, c_parts (snd kt))) (filter (fun kt => timed_out now (snd kt)) pd).

Lemma timed_list_In now pd tx shs : NoDup (map fst pd) ->
  (In (tx, shs) (timed_list now pd) <-> exists t, aget pd tx = Some t /\ timed_out now t = true /\ shs = c_parts t).
Proof.
  intros ND. unfold timed_list. rewrite in_map_iff. split.
  - intros [[k t] [[= <- <-] Hin]]. apply filter_In in Hin. destruct Hin as [Hin T]. cbn in *.
    exists t. split; [now apply In_aget|auto].
  - intros [t [Gt [T ->]]]. exists (tx, t). split; [reflexivity|]. apply filter_In. split; [now apply aget_In|exact T].
Qed.

Lemma timed_list_keys now pd : map fst (timed_list now pd) = map fst (filter (fun kt => timed_out now (snd kt)) pd).
Proof. unfold timed_list. rewrite map_map. reflexivity. Qed.

Lemma timeouts_Inv g : Inv g -> Inv (fst (gstep g ETimeouts)).
Proof.
  intros I. cbn [gstep c_timeouts fst].
  fold (timed_list (gnow g) (pending (co g))).
  set (out := sort_by_fst (timed_list (gnow g) (pending (co g)))).
  set (pd' := filter (fun kt => negb (timed_out (gnow g) (snd kt))) (pending (co g))).
  set (g' := G _ _ _ _ _ _ _ _ _ _).
  pose proof (iO g I) as ND.
  assert (Hout : forall tx shs, In (tx, shs) out <-> exists t, aget (pending (co g)) tx = Some t /\ timed_out (gnow g) t = true /\ shs = c_parts t).
  { intros tx shs. unfold out. rewrite sort_by_fst_In. now apply timed_list_In. }
  assert (Hpd : forall tx, aget pd' tx = match aget (pending (co g)) tx with
                                        | Some t => if negb (timed_out (gnow g) t) then Some t else None | None => None end).
  { intros tx. unfold pd'. now rewrite aget_filter. }
  assert (Hsub : forall tx t, aget pd' tx = Some t -> aget (pending (co g)) tx = Some t).
  { intros tx t. rewrite Hpd. destruct (aget (pending (co g)) tx) as [t0|]; [|discriminate]. destruct (negb _); [auto|discriminate]. }
  assert (Hdec : forall tx shs, In (tx, shs) out -> In (tx, false) (dec g')).
  { intros tx shs H. cbn. apply in_or_app. right. apply in_map_iff. exists (tx, shs). auto. }
  assert (NC : forall tx0, NoCommit g tx0 -> NoCommit g' tx0).
  { intros tx0 [H|[t [Gt P]]]; [left; cbn; apply in_or_app; now left|].
    destruct (timed_out (gnow g) t) eqn:T.
    - left. apply (Hdec tx0 (c_parts t)). apply Hout. eauto.
    - right. exists t. split; [|exact P]. cbn. fold pd'. rewrite Hpd, Gt, T. reflexivity. }
  destruct I as [iO0 iA0 iB0 iC0 iD0 iE0 iF0 iG0 iH0 iI0 iJ0 iK0 iL0 iN0 iM0 iP0 iR0]. constructor.
  - cbn. now apply filter_keys_NoDup.
  - cbn. fold pd'. intros tx t H. eauto.
  - cbn. fold pd'. intros tx b Hd. apply in_app_iff in Hd. destruct Hd as [Hd|Hd].
    + destruct (iB0 tx b Hd) as [Hlt Gn]. split; [exact Hlt|]. rewrite Hpd, Gn. reflexivity.
    + apply in_map_iff in Hd. destruct Hd as [[tx' shs] [[= <- <-] Hin]]. apply Hout in Hin. destruct Hin as [t [Gt [T _]]].
      split; [eauto|]. rewrite Hpd, Gt, T. reflexivity.
  - cbn. rewrite map_app, map_map. cbn [fst]. apply NoDup_app_intro; [exact iC0| |].
    + unfold out. eapply Permutation_NoDup; [apply Permutation_map, Permutation_sym, sort_by_fst_perm|].
      rewrite timed_list_keys. now apply filter_keys_NoDup.
    + intros x Hx Hy. apply in_map_iff in Hx. destruct Hx as [[x' b] [E Hin]]. cbn in E. subst x'.
      destruct (iB0 _ _ Hin) as [_ Gn].
      apply in_map_iff in Hy. destruct Hy as [[x' shs] [E Hin']]. cbn in E. subst x'.
      apply Hout in Hin'. destruct Hin' as [t [Gt _]]. congruence.
  - cbn. fold pd'. intros tx t H. eauto.
  - cbn. fold pd'. intros tx t sh h H. eauto.
  - exact iF0.
  - cbn. intros tx sh H. apply in_or_app. left. eauto.
  - intros tx sh H. apply NC. exact (iH0 tx sh H).
  - intros tx shs H. cbn [co aborts g'] in H. apply in_app_iff in H. destruct H as [H|H]; [apply NC; exact (iI0 tx shs H)|].
    left. eapply Hdec; eauto.
  - cbn. intros tx sh H. apply in_or_app. left. eauto.
  - intros tx sh H. apply NC. exact (iK0 tx sh H).
  - cbn. fold pd'. intros tx t parts H. eauto.
  - exact iN0.
  - cbn. intros tx parts sh Hd Hp Hs. apply in_app_iff in Hd. destruct Hd as [Hd|Hd]; [eauto|].
    apply in_map_iff in Hd. destruct Hd as [? [? _]]. discriminate.
  - exact iP0.
  - cbn. intros tx t H. apply in_or_app. left. eauto.
Qed.

Lemma in_abort_msgs q m : In m (abort_msgs q) -> exists tx sh shs, m = MAbort tx sh /\ In (tx, shs) q.
Proof.
  unfold abort_msgs. rewrite in_flat_map. intros [[tx shs] [Hin H]]. cbn in H. apply in_bcast in H. destruct H as [sh ->]. eauto.
Qed.

Lemma take_Inv g : Inv g -> Inv (fst (gstep g ETakeAborts)).
Proof.
  intros I. cbn [gstep c_take fst].
  destruct I as [iO0 iA0 iB0 iC0 iD0 iE0 iF0 iG0 iH0 iI0 iJ0 iK0 iL0 iN0 iM0 iP0 iR0]. constructor; try assumption.
  - cbn. intros tx sh h H. apply in_app_iff in H. destruct H as [H|H]; [eauto|]. apply in_abort_msgs in H. destruct H as [? [? [? [? _]]]]. discriminate.
  - cbn. intros tx sh H. apply in_app_iff in H. destruct H as [H|H]; [eauto|]. apply in_abort_msgs in H. destruct H as [? [? [? [? _]]]]. discriminate.
  - intros tx sh H. cbn [net] in H. apply in_app_iff in H. destruct H as [H|H]; [exact (iH0 tx sh H)|].
    apply in_abort_msgs in H. destruct H as [tx' [sh' [shs [[= -> ->] Hin]]]]. apply (proj1 (sort_by_fst_In _ _)) in Hin. exact (iI0 _ _ Hin).
  - cbn. intros tx shs [].
Qed.

(* ---------------------------------------------------------------- participant housekeeping sweeps *)
Lemma PInv_ext p q : prepared p = prepared q -> store p = store q -> dirty p = dirty q -> PInv q -> PInv p.
Proof. unfold PInv. intros -> -> -> H. exact H. Qed.

Lemma p_drop_PInv p tx : PInv p -> PInv (p_drop p tx).
Proof. intros I. eapply PInv_ext; [| | |apply (p_abort_PInv p tx I)]; reflexivity. Qed.

Lemma fold_p_drop_PInv ids : forall p, PInv p -> PInv (fold_left p_drop ids p).
Proof. induction ids as [|x r IH]; intros p I; [exact I|]. cbn [fold_left]. apply IH. now apply p_drop_PInv. Qed.

Lemma p_sweep_PInv now tmo strict p : PInv p -> PInv (fst (p_sweep now tmo strict p)).
Proof.
  intros I. unfold p_sweep. set (ids := sortN _). pose proof (fold_p_drop_PInv ids p I) as H.
  destruct strict; cbn [fst]; [|exact H]. eapply PInv_ext; [| | |exact H]; reflexivity.
Qed.

Lemma sweep_Inv g sh strict tmo : Inv g -> Inv (fst (gstep g (ESweep sh strict tmo))).
Proof.
  intros I. cbn [gstep]. destruct (nth_part (ps g) sh) as [p|] eqn:Np; [|exact I].
  pose proof (p_sweep_PInv (gnow g) tmo strict p (iP g I p (nth_part_In _ _ _ Np))) as HP.
  destruct (p_sweep (gnow g) tmo strict p) as [p' out]. cbn [fst] in *.
  destruct I. constructor; cbn; auto.
  intros q Hq. apply set_nth_In in Hq. destruct Hq as [->|Hq]; auto.
Qed.

(* ---------------------------------------------------------------- coordinator recovery *)
Lemma aget_map_snd {V W} (h : V -> W) (l : list (N * V)) k :
  aget (map (fun kt => (fst kt, h (snd kt))) l) k = option_map h (aget l k).
Proof. induction l as [|[k0 v0] r IH]; cbn; [reflexivity|]. destruct (N.eqb k0 k); [reflexivity|exact IH]. Qed.

Lemma adel_In_sub {V} (l : list (N * V)) k x : In x (adel l k) -> In x l.
Proof.
  induction l as [|[k0 v0] r IH]; cbn; [auto|]. destruct (N.eqb k0 k); [intros H; right; auto|].
  intros [H|H]; [now left|right; auto].
Qed.

Lemma recover_cat_1 now t : fst (recover_cat now t) = 1 -> c_phase t = 1.
Proof.
  unfold recover_cat. destruct (N.eqb_spec (c_phase t) 0); [destruct (timed_out now t); discriminate|].
  destruct (N.eqb_spec (c_phase t) 1); [auto|discriminate].
Qed.
Lemma recover_cat_3 now t : fst (recover_cat now t) = 3 -> c_phase t = 1.
Proof.
  unfold recover_cat. destruct (N.eqb_spec (c_phase t) 0); [destruct (timed_out now t); discriminate|].
  destruct (N.eqb_spec (c_phase t) 1); [auto|discriminate].
Qed.
Lemma recover_cat_2 now t : c_phase t = 2 -> fst (recover_cat now t) = 2.
Proof. unfold recover_cat. intros ->. reflexivity. Qed.

Lemma to_commit_phase now k t : to_commit now (k, t) = true -> c_phase t = 1.
Proof. unfold to_commit. cbn [snd]. intros H. apply N.eqb_eq in H. eapply recover_cat_3; eauto. Qed.

Lemma in_decision_msgs ds m :
  In m (flat_map (fun d : N * (N * list N) => bcast (if N.eqb (fst (snd d)) 3 then MCommit (fst d) else MAbort (fst d)) (snd (snd d))) ds) ->
  exists tx ph parts sh, In (tx, (ph, parts)) ds /\ m = (if N.eqb ph 3 then MCommit tx sh else MAbort tx sh).
Proof.
  rewrite in_flat_map. intros [[tx [ph parts]] [Hin H]]. cbn [fst snd] in H. apply in_bcast in H. destruct H as [sh ->].
  exists tx, ph, parts, sh. split; [exact Hin|]. destruct (N.eqb ph 3); reflexivity.
Qed.

Lemma in_decisions c tx ph parts : In (tx, (ph, parts)) (c_decisions c) ->
  (ph = 3 /\ exists t, In (tx, t) (committing c)) \/ (ph = 2 /\ exists t, In (tx, t) (pending c) /\ c_phase t = 2).
Proof.
  unfold c_decisions. rewrite sort_by_fst_In, in_app_iff. intros [H|H]; apply in_map_iff in H; destruct H as [[k t] [[= <- <- <-] Hin]].
  - left. split; [reflexivity|]. eauto.
  - right. split; [reflexivity|]. apply filter_In in Hin. destruct Hin as [Hin P]. cbn in P. apply N.eqb_eq in P. eauto.
Qed.

Lemma recover_Inv g : Inv g -> Inv (fst (gstep g ERecover)).
Proof.
  intros I. cbn [gstep fst].
  set (now := gnow g). set (pd := pending (co g)).
  set (F := fun kt : N * ctx => (fst kt, set_phase (snd kt) (fst (recover_cat now (snd kt))))).
  set (pd' := map F (filter (fun kt => negb (to_commit now kt)) pd)).
  set (new := filter (to_commit now) pd).
  set (g' := G _ _ _ _ _ _ _ _ _ _).
  pose proof (iO g I) as ND. fold pd in ND.
  assert (Hpd : forall tx, aget pd' tx = match aget pd tx with
                                        | Some t => if to_commit now (tx, t) then None else Some (set_phase t (fst (recover_cat now t)))
                                        | None => None end).
  { intros tx. unfold pd'. unfold F. rewrite (aget_map_snd (fun t => set_phase t (fst (recover_cat now t)))).
    rewrite aget_filter by exact ND. destruct (aget pd tx) as [t|]; [|reflexivity]. destruct (to_commit now (tx, t)); reflexivity. }
  assert (Hsub : forall tx t', aget pd' tx = Some t' -> exists t, aget pd tx = Some t /\ to_commit now (tx, t) = false /\ t' = set_phase t (fst (recover_cat now t))).
  { intros tx t'. rewrite Hpd. destruct (aget pd tx) as [t|]; [|discriminate]. destruct (to_commit now (tx, t)) eqn:T; [discriminate|].
    intros [= <-]. eauto. }
  assert (Hnew : forall tx t, In (tx, t) new -> aget pd tx = Some t /\ to_commit now (tx, t) = true).
  { intros tx t H. apply filter_In in H. destruct H as [Hin T]. split; [now apply In_aget|exact T]. }
  assert (Hdec : forall x, In x (dec g) -> In x (dec g')) by (intros x Hx; cbn; apply in_or_app; now left).
  assert (Hnd : forall tx t, In (tx, t) new -> In (tx, true) (dec g')).
  { intros tx t H. cbn. apply in_or_app. right. apply in_map_iff. exists (tx, t). split; [reflexivity|exact H]. }
  assert (NC : forall tx0, NoCommit g tx0 -> NoCommit g' tx0).
  { intros tx0 [H|[t [Gt P]]]; [left; auto|]. right. fold pd in Gt.
    exists (set_phase t (fst (recover_cat now t))). split.
    - cbn. fold now pd pd'. rewrite Hpd, Gt. destruct (to_commit now (tx0, t)) eqn:T; [|reflexivity].
      apply to_commit_phase in T. congruence.
    - cbn. now apply recover_cat_2. }
  destruct I as [iO0 iA0 iB0 iC0 iD0 iE0 iF0 iG0 iH0 iI0 iJ0 iK0 iL0 iN0 iM0 iP0 iR0]. constructor.
  - (* iO *) cbn. fold now pd pd'. unfold pd'. rewrite map_map. cbn [F fst]. now apply filter_keys_NoDup.
  - (* iA *) cbn. fold now pd pd'. intros tx t' H. destruct (Hsub tx t' H) as [t [Gt _]]. eauto.
  - (* iB *) cbn. fold now pd pd' new. intros tx b Hd. apply in_app_iff in Hd. destruct Hd as [Hd|Hd].
    + destruct (iB0 tx b Hd) as [Hlt Gn]. split; [exact Hlt|]. fold pd in Gn. now rewrite Hpd, Gn.
    + apply in_map_iff in Hd. destruct Hd as [[tx' t] [[= <- <-] Hin]]. destruct (Hnew _ _ Hin) as [Gt T].
      split; [eauto|]. now rewrite Hpd, Gt, T.
  - (* iC *) cbn. fold now pd new. rewrite map_app, map_map. cbn [fst]. apply NoDup_app_intro; [exact iC0| |].
    + unfold new. now apply filter_keys_NoDup.
    + intros x Hx Hy. apply in_map_iff in Hx. destruct Hx as [[x' b] [E Hin]]. cbn in E. subst x'.
      destruct (iB0 _ _ Hin) as [_ Gn]. fold pd in Gn.
      apply in_map_iff in Hy. destruct Hy as [[x' t] [E Hin']]. cbn in E. subst x'.
      destruct (Hnew _ _ Hin') as [Gt _]. congruence.
  - (* iD *) cbn. fold now pd pd'. intros tx t' H P1 sh Hsh. destruct (Hsub tx t' H) as [t [Gt [_ ->]]]. cbn in P1, Hsh |- *.
    apply recover_cat_1 in P1. exact (iD0 tx t Gt P1 sh Hsh).
  - (* iE *) cbn. fold now pd pd'. intros tx t' sh h H Gv Hp. destruct (Hsub tx t' H) as [t [Gt [_ ->]]]. cbn in Gv, Hp. eauto.
  - (* iF *) cbn. intros tx sh h H. apply in_app_iff in H. destruct H as [H|H]; [eauto|].
    apply in_decision_msgs in H. destruct H as [tx' [ph [parts [sh' [_ E]]]]]. destruct (N.eqb ph 3); discriminate.
  - (* iG *) intros tx sh H. cbn [net g'] in H. apply in_app_iff in H. destruct H as [H|H]; [apply Hdec; eauto|].
    apply in_decision_msgs in H. destruct H as [tx' [ph [parts [sh' [Hin E]]]]].
    apply in_decisions in Hin. destruct Hin as [[-> [t Hin]]|[-> _]]; [|discriminate]. cbn in E. injection E as -> ->.
    cbn [committing c_recover] in Hin. apply in_app_iff in Hin. destruct Hin as [Hin|Hin]; [apply Hdec; eauto|].
    apply in_map_iff in Hin. destruct Hin as [[k t0] [[= <- _] Hin]]. eapply Hnd; eauto.
  - (* iH *) intros tx sh H. cbn [net g'] in H. apply in_app_iff in H. destruct H as [H|H]; [apply NC; exact (iH0 tx sh H)|].
    apply in_decision_msgs in H. destruct H as [tx' [ph [parts [sh' [Hin E]]]]].
    apply in_decisions in Hin. destruct Hin as [[-> _]|[-> [t [Hin P]]]]; [discriminate|]. cbn in E. injection E as -> ->.
    right. exists t. split; [|exact P]. cbn [co pending c_recover g'] in *. fold now pd pd' in Hin |- *.
    apply In_aget; [|exact Hin]. unfold pd'. rewrite map_map. cbn [F fst]. now apply filter_keys_NoDup.
  - (* iI *) intros tx shs H. apply NC. exact (iI0 tx shs H).
  - (* iJ *) intros tx sh H. apply Hdec. eauto.
  - (* iK *) intros tx sh H. apply NC. exact (iK0 tx sh H).
  - (* iL *) cbn. fold now pd pd'. intros tx t' parts H Hp. destruct (Hsub tx t' H) as [t [Gt [_ ->]]]. cbn. eauto.
  - (* iN *) exact iN0.
  - (* iM *) cbn. fold now pd new. intros tx parts sh Hd Hp Hs. apply in_app_iff in Hd. destruct Hd as [Hd|Hd]; [eauto|].
    apply in_map_iff in Hd. destruct Hd as [[tx' t] [[= <-] Hin]]. destruct (Hnew _ _ Hin) as [Gt T].
    apply to_commit_phase in T. rewrite (iL0 tx' t parts Gt Hp) in Hs. destruct (iD0 tx' t Gt T sh Hs) as [h Gv]. eauto.
  - (* iP *) exact iP0.
  - (* iR *) cbn. fold now pd new. intros tx t H. apply in_app_iff in H. destruct H as [H|H]; [apply in_or_app; left; eauto|].
    apply in_map_iff in H. destruct H as [[k t0] [[= <- _] Hin]]. apply in_or_app. right. apply in_map_iff. exists (k, t0). auto.
Qed.

Lemma complete_commit_Inv g tx : Inv g -> Inv (fst (gstep g (ECompleteCommit tx))).
Proof.
  intros I. cbn [gstep]. unfold c_complete_commit. destruct (aget (committing (co g)) tx) as [t|]; cbn [fst];
    [|apply shrink_Inv; auto].
  destruct I. constructor; cbn; auto.
  intros tx0 t0 H. apply adel_In_sub in H. eauto.
Qed.

Lemma complete_abort_Inv g tx : Inv g -> Inv (fst (gstep g (ECompleteAbort tx))).
Proof.
  intros I. cbn [gstep]. unfold c_complete_abort. destruct (aget (pending (co g)) tx) as [t|] eqn:Gt;
    [|destruct (is_committing (co g) tx); apply shrink_Inv; auto].
  destruct (N.eqb_spec (c_phase t) 2) as [P2|P2]; [|apply shrink_Inv; auto]. cbn [fst snd]. change (N.eqb 0 0) with true. cbv iota.
  set (g' := G _ _ _ _ _ _ _ _ _ _).
  assert (NC : forall tx0, NoCommit g tx0 -> NoCommit g' tx0).
  { apply (NoCommit_adel g g' tx false); cbn.
    - intros x Hx. apply in_or_app. now left.
    - reflexivity.
    - apply in_or_app. right. now left.
    - discriminate. }
  pose proof (dec_snoc_NoDup g tx false t I Gt) as NDd.
  destruct I as [iO0 iA0 iB0 iC0 iD0 iE0 iF0 iG0 iH0 iI0 iJ0 iK0 iL0 iN0 iM0 iP0 iR0]. constructor.
  + cbn. now apply adel_NoDup.
  + cbn. intros tx0 t0. rewrite aget_adel. destruct (N.eqb tx tx0); [discriminate|eauto].
  + cbn. intros tx0 b Hd. apply in_app_single in Hd. destruct Hd as [Hd|[= -> ->]].
    * destruct (iB0 tx0 b Hd) as [Hlt Gn]. split; [exact Hlt|]. rewrite aget_adel. destruct (N.eqb tx tx0); [reflexivity|exact Gn].
    * split; [eauto|]. rewrite aget_adel, N.eqb_refl. reflexivity.
  + exact NDd.
  + cbn. intros tx0 t0. rewrite aget_adel. destruct (N.eqb tx tx0); [discriminate|eauto].
  + cbn. intros tx0 t0 sh h. rewrite aget_adel. destruct (N.eqb tx tx0); [discriminate|eauto].
  + exact iF0.
  + cbn. intros tx0 sh H. apply in_or_app. left. eauto.
  + intros tx0 sh H. apply NC. exact (iH0 tx0 sh H).
  + intros tx0 shs H. apply NC. exact (iI0 tx0 shs H).
  + cbn. intros tx0 sh H. apply in_or_app. left. eauto.
  + intros tx0 sh H. apply NC. exact (iK0 tx0 sh H).
  + cbn. intros tx0 t0 parts. rewrite aget_adel. destruct (N.eqb tx tx0); [discriminate|eauto].
  + exact iN0.
  + cbn. intros tx0 parts sh Hd Hp Hs. apply in_app_single in Hd. destruct Hd as [Hd|Hd]; [eauto|discriminate].
  + exact iP0.
  + cbn. intros tx0 t0 H. apply in_or_app. left. eauto.
Qed.

(* ---------------------------------------------------------------- every event keeps the invariant *)
Theorem gstep_Inv g e : Inv g -> Inv (fst (gstep g e)).
Proof.
  intros I. destruct e.
  - now apply begin_Inv.
  - cbn [gstep]. destruct (nth_error (net g) (N.to_nat i)) as [m|] eqn:Nm; [|exact I].
    assert (Hin : In m (net g)) by (eapply nth_error_In; eauto).
    pose proof (net_msg_ok g m I Hin) as Hok.
    set (g0 := if keep then g else G (co g) (ps g) (remove_nth (net g) (N.to_nat i)) (gnow g) (gh g) (dec g) (applied g) (discarded g) (cast g) (parts_of g)).
    assert (I0 : Inv g0) by (unfold g0; destruct keep; [exact I|apply shrink_Inv; [exact I|intros m'; apply remove_nth_In]]).
    assert (Hok0 : msg_ok g0 m) by (unfold g0; destruct keep; exact Hok).
    destruct m as [tx sh ops|tx sh v|tx sh|tx sh].
    + now apply deliver_prepare_Inv.
    + now apply deliver_vote_Inv.
    + now apply deliver_commit_Inv.
    + now apply deliver_abort_Inv.
  - cbn [gstep fst]. apply shrink_Inv; [exact I|intros m; apply remove_nth_In].
  - now apply commit_Inv.
  - now apply abort_Inv.
  - now apply timeouts_Inv.
  - now apply take_Inv.
  - cbn [gstep fst]. now apply advance_Inv.
  - now apply recover_Inv.
  - now apply complete_commit_Inv.
  - now apply complete_abort_Inv.
  - now apply sweep_Inv.
  - now apply stray_Inv.
Qed.

Theorem grun_Inv es : forall g, Inv g -> Inv (grun g es).
Proof. induction es as [|e r IH]; intros g I; [exact I|]. change (grun g (e :: r)) with (grun (fst (gstep g e)) r). apply IH. now apply gstep_Inv. Qed.

(* ================================================================== 4. the theorems *)
Definition parts_init (parts0 : list (list (N * N) * N)) : list part := map (fun st => part_init (fst st) (snd st)) parts0.
Definition start (ctmo : N) (parts0 : list (list (N * N) * N)) : gst := ginit ctmo (parts_init parts0).

Lemma start_Inv ctmo parts0 : Inv (start ctmo parts0).
Proof.
  apply ginit_Inv. intros p Hp. unfold parts_init in Hp. apply in_map_iff in Hp. destruct Hp as [st [<- _]]. apply part_init_PInv.
Qed.

Theorem reachable_Inv ctmo parts0 es : Inv (grun (start ctmo parts0) es).
Proof. apply grun_Inv, start_Inv. Qed.

(* decisions are only ever appended *)
Lemma gstep_dec_ext g e : exists l, dec (fst (gstep g e)) = dec g ++ l.
Proof.
  destruct e; cbn [gstep].
  - exists []. cbn. now rewrite app_nil_r.
  - destruct (nth_error (net g) (N.to_nat i)) as [m|]; [|exists []; now rewrite app_nil_r].
    exists []. rewrite app_nil_r.
    destruct keep, m; cbn [deliver];
      repeat match goal with
             | |- context [nth_part ?a ?b] => destruct (nth_part a b)
             | |- context [p_prepare ?a ?b ?c ?d ?e] => destruct (p_prepare a b c d e)
             | |- context [c_vote ?a ?b ?c ?d] => destruct (c_vote a b c d)
             | |- context [p_commit ?a ?b] => destruct (p_commit a b)
             end; reflexivity.
  - exists []. cbn. now rewrite app_nil_r.
  - destruct (c_commit (co g) tx) as [[c' r] shs]. cbn. destruct (N.eqb r 0); [eauto|exists []; now rewrite app_nil_r].
  - destruct (c_abort (co g) tx) as [[c' r] shs]. cbn. destruct (N.eqb r 0); [eauto|exists []; now rewrite app_nil_r].
  - cbn. eauto.
  - exists []. cbn. now rewrite app_nil_r.
  - exists []. cbn. now rewrite app_nil_r.
  - cbn. eauto.
  - destruct (c_complete_commit (co g) tx) as [c' r]. exists []. cbn. now rewrite app_nil_r.
  - destruct (c_complete_abort (co g) tx) as [c' r]. cbn. destruct (N.eqb r 0); [eauto|exists []; now rewrite app_nil_r].
  - exists []. rewrite app_nil_r. destruct (nth_part (ps g) sh); [|reflexivity]. destruct (p_sweep _ _ _ _). reflexivity.
  - exists []. rewrite app_nil_r. destruct (aget (pending (co g)) tx) as [t|]; [|reflexivity].
    destruct (mem sh (c_parts t) && _); [reflexivity|]. destruct (c_vote _ _ _ _). reflexivity.
Qed.

Lemma grun_dec_ext es : forall g, exists l, dec (grun g es) = dec g ++ l.
Proof.
  induction es as [|e r IH]; intros g; [exists []; cbn; now rewrite app_nil_r|].
  change (grun g (e :: r)) with (grun (fst (gstep g e)) r).
  destruct (IH (fst (gstep g e))) as [l2 E2]. destruct (gstep_dec_ext g e) as [l1 E1].
  exists (l1 ++ l2). rewrite E2, E1. now rewrite app_assoc.
Qed.

Lemma NoDup_fst_fun {A B} (l : list (A * B)) k a b : NoDup (map fst l) -> In (k, a) l -> In (k, b) l -> a = b.
Proof.
  induction l as [|[k0 v0] r IH]; cbn; intros ND Ha Hb; [destruct Ha|]. inversion ND as [|? ? Hn ND']; subst.
  destruct Ha as [Ea|Ha], Hb as [Eb|Hb].
  - congruence.
  - exfalso. injection Ea as -> ->. apply Hn. change k with (fst (k, b)). now apply in_map.
  - exfalso. injection Eb as -> ->. apply Hn. change k with (fst (k, a)). now apply in_map.
  - auto.
Qed.

(* one decision per transaction, and it never changes afterwards *)
Theorem one_decision ctmo parts0 es es' tx b b' :
  let g := grun (start ctmo parts0) es in
  In (tx, b) (dec g) -> In (tx, b') (dec (grun g es')) -> b = b'.
Proof.
  intros g Hb Hb'. destruct (grun_dec_ext es' g) as [l E].
  assert (I' : Inv (grun g es')) by (apply grun_Inv, reachable_Inv).
  eapply NoDup_fst_fun; [exact (iC _ I')| |exact Hb']. rewrite E. apply in_or_app. now left.
Qed.

(* commit is decided only if every participant answered Yes *)
Theorem commit_all_yes ctmo parts0 es tx parts sh :
  let g := grun (start ctmo parts0) es in
  In (tx, true) (dec g) -> In (tx, parts) (parts_of g) -> In sh parts -> In (tx, sh) (cast g).
Proof. intros g. exact (iM g (reachable_Inv ctmo parts0 es) tx parts sh). Qed.

(* writes are applied only under a commit decision *)
Theorem applied_only_committed ctmo parts0 es tx sh :
  let g := grun (start ctmo parts0) es in In (tx, sh) (applied g) -> In (tx, true) (dec g).
Proof. intros g. exact (iJ g (reachable_Inv ctmo parts0 es) tx sh). Qed.

(* the shards never end up split: applied somewhere and discarded elsewhere is impossible *)
Theorem no_split ctmo parts0 es tx sh sh' :
  let g := grun (start ctmo parts0) es in In (tx, sh) (applied g) -> In (tx, sh') (discarded g) -> False.
Proof.
  intros g Ha Hd. pose proof (reachable_Inv ctmo parts0 es) as I. fold g in I.
  apply (NoCommit_not_committed g tx I (iK g I tx sh' Hd)). exact (iJ g I tx sh Ha).
Qed.

(* an aborted transaction is never applied anywhere *)
Theorem aborted_never_applied ctmo parts0 es tx sh :
  let g := grun (start ctmo parts0) es in In (tx, false) (dec g) -> ~ In (tx, sh) (applied g).
Proof.
  intros g Hf Ha. pose proof (reachable_Inv ctmo parts0 es) as I. fold g in I.
  apply (NoCommit_not_committed g tx I (or_introl Hf)). exact (iJ g I tx sh Ha).
Qed.

(* abort leaves the shard's data exactly as it was, unless another tx committed on one of its keys since its prepare *)
Theorem abort_leaves_data ctmo parts0 es sh p tx :
  let g := grun (start ctmo parts0) es in
  nth_part (ps g) sh = Some p -> ~ In tx (dirty p) ->
  forall k, aget (store (p_abort p tx)) k = aget (store p) k.
Proof.
  intros g Np Hd. apply p_abort_keeps_data; [|exact Hd].
  exact (iP g (reachable_Inv ctmo parts0 es) p (nth_part_In _ _ _ Np)).
Qed.

(* without the guard the statement is false: F-C03-undo *)
Definition undo_witness : list ev :=
  [EBegin [0] [(0, [Put 0 7])] false; EDeliver 0 false; EAdvance 30;
   EBegin [0] [(0, [Put 0 9])] false; EDeliver 1 false; EDeliver 1 false; ECommit 2; EDeliver 1 false].
Theorem abort_leaves_data_refuted :
  exists ctmo parts0 es sh p tx k,
    nth_part (ps (grun (start ctmo parts0) es)) sh = Some p /\
    aget (store (p_abort p tx)) k <> aget (store p) k.
Proof.
  exists 100000, [([(0, 5)], 5)], undo_witness, 0.
  eexists. exists 1, 0. split; [vm_compute; reflexivity|]. vm_compute. discriminate.
Qed.

(* ================================================================== 5. a decision is applied at most once per shard *)
(* the participant remembers what it has decided, and never holds a decided transaction as prepared *)
Definition PD (p : part) : Prop := forall tx, In tx (decidedp p) -> aget (prepared p) tx = None.

Lemma p_prepare_PD now h p tx ops : PD p -> PD (fst (p_prepare now h p tx ops)) /\ decidedp (fst (p_prepare now h p tx ops)) = decidedp p.
Proof.
  intros D. unfold p_prepare. destruct (mem tx (decidedp p)) eqn:M; [split; [exact D|reflexivity]|].
  destruct (try_lock now tx h (ptmo p) (map pop_key ops) (ptbl p)) as [t' [h'|o]]; cbn [fst]; [|split; [exact D|reflexivity]].
  split; [|reflexivity]. intros tx' Hin. cbn [prepared decidedp] in *. rewrite aget_aset.
  destruct (N.eqb_spec tx tx') as [<-|]; [apply mem_nIn in M; contradiction|now apply D].
Qed.

Lemma p_commit_PD p tx : PD p -> PD (fst (p_commit p tx)) /\ incl (decidedp p) (decidedp (fst (p_commit p tx))) /\
  (snd (p_commit p tx) = true -> aget (prepared p) tx <> None /\ In tx (decidedp (fst (p_commit p tx)))).
Proof.
  intros D. unfold p_commit. destruct (aget (prepared p) tx) as [e|] eqn:G; cbn [fst snd].
  - split; [|split].
    + intros tx' Hin. cbn [prepared decidedp] in *. rewrite aget_adel. destruct (N.eqb_spec tx tx'); [reflexivity|].
      apply set_add_In in Hin. destruct Hin as [->|Hin]; [congruence|now apply D].
    + intros z Hz. cbn. apply set_add_In. now right.
    + intros _. split; [discriminate|]. cbn. apply set_add_In. now left.
  - split; [exact D|]. split; [apply incl_refl|discriminate].
Qed.

Lemma p_abort_PD p tx : PD p -> PD (p_abort p tx) /\ incl (decidedp p) (decidedp (p_abort p tx)).
Proof.
  intros D. unfold p_abort. destruct (aget (prepared p) tx) as [e|] eqn:G.
  - split.
    + intros tx' Hin. cbn [prepared decidedp] in *. rewrite aget_adel. destruct (N.eqb_spec tx tx'); [reflexivity|].
      apply set_add_In in Hin. destruct Hin as [->|Hin]; [congruence|now apply D].
    + intros z Hz. cbn. apply set_add_In. now right.
  - split.
    + intros tx' Hin. cbn [prepared decidedp] in *. apply set_add_In in Hin. destruct Hin as [->|Hin]; [exact G|now apply D].
    + intros z Hz. cbn. apply set_add_In. now right.
Qed.

Lemma nth_error_set_nth_eq {A} (l : list A) i x y : nth_error l i = Some y -> nth_error (set_nth l i x) i = Some x.
Proof. revert i. induction l as [|a r IH]; intros i H; destruct i; cbn in *; try discriminate; auto. Qed.
Lemma nth_error_set_nth_neq {A} (l : list A) i j x : i <> j -> nth_error (set_nth l i x) j = nth_error l j.
Proof.
  revert i j. induction l as [|a r IH]; intros i j Hne; [destruct i; reflexivity|].
  destruct i, j; cbn; try reflexivity; try congruence. apply IH. congruence.
Qed.

Definition Inv2 (g : gst) : Prop :=
  (forall p, In p (ps g) -> PD p) /\
  (forall tx sh, In (tx, sh) (applied g) -> exists p, nth_part (ps g) sh = Some p /\ In tx (decidedp p)) /\
  NoDup (applied g).

Lemma Inv2_replace g sh p p' : Inv2 g -> nth_part (ps g) sh = Some p -> PD p' -> incl (decidedp p) (decidedp p') ->
  (forall q, In q (set_nth (ps g) (N.to_nat sh) p') -> PD q) /\
  (forall tx sh0, In (tx, sh0) (applied g) -> exists q, nth_part (set_nth (ps g) (N.to_nat sh) p') sh0 = Some q /\ In tx (decidedp q)).
Proof.
  intros [D [Q _]] Np D' Hi. split.
  - intros q Hq. apply set_nth_In in Hq. destruct Hq as [->|Hq]; auto.
  - intros tx sh0 Hin. destruct (Q tx sh0 Hin) as [q [Nq Hd]]. unfold nth_part in *.
    destruct (Nat.eq_dec (N.to_nat sh) (N.to_nat sh0)) as [E|Hne].
    + rewrite <- E in *. rewrite Np in Nq. injection Nq as <-. exists p'. split; [eapply nth_error_set_nth_eq; eauto|auto].
    + exists q. split; [now rewrite nth_error_set_nth_neq|exact Hd].
Qed.

Lemma deliver_Inv2 g m : Inv2 g -> Inv2 (fst (deliver g m)).
Proof.
  intros I. pose proof I as [D [Q ND]]. destruct m as [tx sh ops|tx sh v|tx sh|tx sh]; cbn [deliver].
  - destruct (nth_part (ps g) sh) as [p|] eqn:Np; [|exact I].
    destruct (p_prepare_PD (gnow g) (gh g) p tx ops (D p (nth_part_In _ _ _ Np))) as [D' Ed].
    destruct (p_prepare (gnow g) (gh g) p tx ops) as [p' v]. cbn [fst] in *.
    destruct (Inv2_replace g sh p p' I Np D') as [A B]; [rewrite Ed; apply incl_refl|].
    split; [exact A|]. split; [exact B|exact ND].
  - destruct (c_vote (co g) tx sh v) as [c' r]. exact I.
  - destruct (nth_part (ps g) sh) as [p|] eqn:Np; [|exact I].
    destruct (p_commit_PD p tx (D p (nth_part_In _ _ _ Np))) as [D' [Hi Hok]].
    destruct (p_commit p tx) as [p' ok]. cbn [fst snd] in *.
    destruct (Inv2_replace g sh p p' I Np D' Hi) as [A B].
    split; [exact A|]. cbn [ps applied]. destruct ok.
    + destruct (Hok eq_refl) as [Hprep Hdec]. split.
      * intros tx0 sh0 [[= <- <-]|Hin]; [|now apply B]. exists p'. split; [|exact Hdec].
        unfold nth_part in *. eapply nth_error_set_nth_eq; eauto.
      * constructor; [|exact ND]. intros Hin. destruct (Q tx sh Hin) as [q [Nq Hd]]. rewrite Np in Nq. injection Nq as <-.
        apply Hprep. now apply (D p (nth_part_In _ _ _ Np)).
    + split; [exact B|exact ND].
  - destruct (nth_part (ps g) sh) as [p|] eqn:Np; [|exact I].
    destruct (p_abort_PD p tx (D p (nth_part_In _ _ _ Np))) as [D' Hi].
    destruct (Inv2_replace g sh p (p_abort p tx) I Np D' Hi) as [A B].
    split; [exact A|]. split; [exact B|exact ND].
Qed.

Lemma p_abort_prepared_None p tx k : aget (prepared p) k = None -> aget (prepared (p_abort p tx)) k = None.
Proof.
  intros H. unfold p_abort. destruct (aget (prepared p) tx); cbn [prepared]; [|exact H].
  rewrite aget_adel. destruct (N.eqb tx k); [reflexivity|exact H].
Qed.
Lemma fold_p_drop_PD ids : forall p, PD p -> PD (fold_left p_drop ids p) /\ decidedp (fold_left p_drop ids p) = decidedp p.
Proof.
  induction ids as [|x r IH]; intros p D; [split; [exact D|reflexivity]|]. cbn [fold_left].
  assert (D' : PD (p_drop p x)).
  { intros k Hk. cbn [p_drop prepared decidedp] in *. apply p_abort_prepared_None. now apply D. }
  destruct (IH (p_drop p x) D') as [A B]. split; [exact A|]. rewrite B. reflexivity.
Qed.
Lemma p_sweep_PD now tmo strict p : PD p -> PD (fst (p_sweep now tmo strict p)) /\ decidedp (fst (p_sweep now tmo strict p)) = decidedp p.
Proof.
  intros D. unfold p_sweep. set (ids := sortN _). destruct (fold_p_drop_PD ids p D) as [A B].
  destruct strict; cbn [fst]; [|split; assumption]. split; [|exact B]. intros k Hk. cbn [prepared decidedp] in *. apply A. exact Hk.
Qed.

Lemma gstep_Inv2 g e : Inv2 g -> Inv2 (fst (gstep g e)).
Proof.
  intros I. destruct e; cbn [gstep]; try exact I.
  - destruct (nth_error (net g) (N.to_nat i)) as [m|]; [|exact I]. destruct keep; apply deliver_Inv2; exact I.
  - destruct (c_commit (co g) tx) as [[c' r] shs]. exact I.
  - destruct (c_abort (co g) tx) as [[c' r] shs]. exact I.
  - destruct (c_complete_commit (co g) tx) as [c' r]. exact I.
  - destruct (c_complete_abort (co g) tx) as [c' r]. exact I.
  - destruct (nth_part (ps g) sh) as [p|] eqn:Np; [|exact I]. pose proof I as [D [Q ND]].
    destruct (p_sweep_PD (gnow g) tmo strict p (D p (nth_part_In _ _ _ Np))) as [D' Ed].
    destruct (p_sweep (gnow g) tmo strict p) as [p' out]. cbn [fst] in *.
    destruct (Inv2_replace g sh p p' I Np D') as [A B]; [rewrite Ed; apply incl_refl|].
    split; [exact A|]. split; [exact B|exact ND].
  - destruct (aget (pending (co g)) tx) as [t|]; [|exact I]. destruct (mem sh (c_parts t) && _); [exact I|].
    destruct (c_vote _ _ _ _). exact I.
Qed.

(* a transaction's writes are applied at most once on each shard, whatever is duplicated or delayed *)
Theorem applied_once ctmo parts0 es : NoDup (applied (grun (start ctmo parts0) es)).
Proof.
  assert (G : forall es g, Inv2 g -> Inv2 (grun g es)).
  { clear. induction es as [|e r IH]; intros g I; [exact I|].
    change (grun g (e :: r)) with (grun (fst (gstep g e)) r). apply IH. now apply gstep_Inv2. }
  apply G. split; [|split; [intros tx sh []|constructor]].
  intros p Hp. unfold start, ginit, parts_init in Hp. cbn in Hp. apply in_map_iff in Hp. destruct Hp as [st [<- _]].
  intros tx [].
Qed.

(* ================================================================== 6. participant housekeeping and agreement *)
(* `no_split` speaks of transactions discarded on an ABORT MESSAGE.  A housekeeping sweep (cleanup_stale / recover) drops
   a prepared transaction on the participant's own authority: "every participant that voted Yes for a committed
   transaction applies it once all messages are delivered" is false of the model (known finding F-C03-presumed-abort) *)
Definition sweep_witness : list ev :=
  [EBegin [0; 1] [(0, [Put 0 1]); (1, [Put 1 1])] false; EDeliver 0 false; EDeliver 0 false; EDeliver 0 false; EDeliver 0 false;
   ESweep 1 false 0; ECommit 1; EDeliver 0 false; EDeliver 0 false].
Theorem yes_voter_applies_refuted :
  exists ctmo parts0 es tx sh sh',
    let g := grun (start ctmo parts0) es in
    In (tx, true) (dec g) /\ In (tx, sh) (applied g) /\ In (tx, sh') (cast g) /\ net g = [] /\ ~ In (tx, sh') (applied g).
Proof.
  exists 100000, [([], 30000); ([], 30000)], sweep_witness, 1, 0, 1. vm_compute.
  repeat split; auto. intros [H|[]]. discriminate.
Qed.

(* a transaction that recover() moved to Committing carries the decision commit (so, by one_decision, no later
   abort(), cleanup_timeouts, recover() or complete_abort can turn it into an abort) *)
Theorem committing_is_decided ctmo parts0 es tx t :
  let g := grun (start ctmo parts0) es in In (tx, t) (committing (co g)) -> In (tx, true) (dec g).
Proof. intros g. exact (iR g (reachable_Inv ctmo parts0 es) tx t). Qed.
