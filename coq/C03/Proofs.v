(* C03/Proofs.v -- invariants of the 2PC model over ALL event schedules, and the participant-level undo theorem. *)
From Coq Require Import Permutation.
From NV.Common Require Import Base LockTable LockTableFacts.
From NV.C03 Require Import Model.
Open Scope N_scope.
Arguments N.add : simpl never.
Arguments N.sub : simpl never.
Arguments N.eqb : simpl never.
Arguments N.ltb : simpl never.
Arguments N.leb : simpl never.

(* ================================================================== 0. list / association-list helpers *)
Lemma insert_by_fst_perm {A} (x : N * A) l : Permutation (insert_by_fst x l) (x :: l).
Proof.
  induction l as [|y r IH]; cbn; [apply Permutation_refl|].
  destruct (N.leb (fst x) (fst y)); [apply Permutation_refl|].
  eapply Permutation_trans; [apply perm_skip; exact IH|apply perm_swap].
Qed.
Lemma sort_by_fst_perm {A} (l : list (N * A)) : Permutation (sort_by_fst l) l.
Proof.
  induction l as [|x r IH]; cbn; [constructor|].
  eapply Permutation_trans; [apply insert_by_fst_perm|]. now apply perm_skip.
Qed.
Lemma sort_by_fst_In {A} (l : list (N * A)) x : In x (sort_by_fst l) <-> In x l.
Proof. split; apply Permutation_in; [apply sort_by_fst_perm|apply Permutation_sym, sort_by_fst_perm]. Qed.

Lemma aget_key_in {V} (l : list (N * V)) k v : aget l k = Some v -> In k (map fst l).
Proof. intros H. apply aget_In in H. change k with (fst (k, v)). now apply in_map. Qed.

Lemma aget_filter {V} (f : N * V -> bool) (l : list (N * V)) k :
  NoDup (map fst l) ->
  aget (filter f l) k = match aget l k with Some v => if f (k, v) then Some v else None | None => None end.
Proof.
  induction l as [|[k0 v0] r IH]; cbn; intros ND; [reflexivity|].
  inversion ND as [|? ? Hn ND']; subst.
  destruct (N.eqb_spec k0 k) as [->|Hne].
  - destruct (f (k, v0)) eqn:F; cbn; [now rewrite N.eqb_refl|].
    rewrite IH by exact ND'. destruct (aget r k) as [v|] eqn:G; [|reflexivity].
    exfalso. apply Hn. eapply aget_key_in; eauto.
  - destruct (f (k0, v0)); cbn; [|now apply IH].
    destruct (N.eqb_spec k0 k); [contradiction|now apply IH].
Qed.

(* ================================================================== 1. participant: abort and the data *)
Definition keys_of_ops (ops : list pop) : list N := map pop_key ops.

(* undo images agree with the store for every prepared tx that is not dirty *)
Definition PInv (p : part) : Prop :=
  forall tx e, aget (prepared p) tx = Some e ->
    map fst (p_undo e) = keys_of_ops (p_ops e) /\
    (~ In tx (dirty p) -> forall k pre, In (k, pre) (p_undo e) -> aget (store p) k = pre).

Lemma part_init_PInv st0 tmo0 : PInv (part_init st0 tmo0).
Proof. intros tx e H. discriminate. Qed.

Lemma fold_undo_noop u : forall st0 st,
  (forall k, aget st k = aget st0 k) ->
  (forall k pre, In (k, pre) u -> aget st0 k = pre) ->
  forall k, aget (fold_left undo_one u st) k = aget st0 k.
Proof.
  induction u as [|[k0 pre0] r IH]; intros st0 st E C k; cbn [fold_left]; [apply E|].
  apply IH; [|intros; apply C; now right].
  intros k'. unfold undo_one; cbn [fst snd]. pose proof (C k0 pre0 (or_introl eq_refl)) as C0.
  destruct pre0 as [v|].
  - rewrite aget_aset. destruct (N.eqb_spec k0 k') as [->|]; [now rewrite C0|apply E].
  - rewrite aget_adel. destruct (N.eqb_spec k0 k') as [->|]; [now rewrite C0|apply E].
Qed.

Lemma fold_undo_other u : forall st k, ~ In k (map fst u) -> aget (fold_left undo_one u st) k = aget st k.
Proof.
  induction u as [|[k0 pre0] r IH]; intros st k Hn; cbn [fold_left]; [reflexivity|].
  cbn in Hn. rewrite IH by tauto. unfold undo_one; cbn [fst snd]. destruct pre0.
  - rewrite aget_aset. destruct (N.eqb_spec k0 k); [tauto|reflexivity].
  - rewrite aget_adel. destruct (N.eqb_spec k0 k); [tauto|reflexivity].
Qed.

Lemma fold_apply_other ops : forall st k, ~ In k (keys_of_ops ops) -> aget (fold_left apply_op ops st) k = aget st k.
Proof.
  induction ops as [|o r IH]; intros st k Hn; cbn [fold_left]; [reflexivity|].
  cbn in Hn. rewrite IH by tauto. destruct o; cbn in *.
  - rewrite aget_aset. destruct (N.eqb_spec k0 k); [tauto|reflexivity].
  - rewrite aget_adel. destruct (N.eqb_spec k0 k); [tauto|reflexivity].
Qed.

Lemma touches_false ops e k : touches ops e = false -> In k (keys_of_ops (p_ops e)) -> ~ In k (keys_of_ops ops).
Proof.
  unfold touches. intros T Hk Hin. unfold keys_of_ops in *. apply in_map_iff in Hin. destruct Hin as [o [<- Ho]].
  apply in_map_iff in Hk. destruct Hk as [o' [E Ho']].
  assert (existsb (fun o0 => existsb (fun o'0 => N.eqb (pop_key o0) (pop_key o'0)) (p_ops e)) ops = true); [|congruence].
  apply existsb_exists. exists o. split; [exact Ho|]. apply existsb_exists. exists o'. split; [exact Ho'|].
  apply N.eqb_eq. congruence.
Qed.

Lemma mark_In ops rest : forall d x,
  In x (mark ops rest d) <-> In x d \/ exists e, In (x, e) rest /\ touches ops e = true.
Proof.
  unfold mark. induction rest as [|[t e0] r IH]; intros d x; cbn [fold_left fst snd].
  - split; [auto|intros [H|[e [[] _]]]; exact H].
  - rewrite IH. destruct (touches ops e0) eqn:T.
    + rewrite set_add_In. split.
      * intros [[->|H]|[e [H1 H2]]]; [right; exists e0; cbn; auto|auto|right; exists e; cbn; auto].
      * intros [H|[e [[[= <- <-]|H1] H2]]]; [auto|auto|right; eauto].
    + split.
      * intros [H|[e [H1 H2]]]; [auto|right; exists e; cbn; auto].
      * intros [H|[e [[[= <- <-]|H1] H2]]]; [auto|congruence|right; eauto].
Qed.

Lemma undo_keys_in e k pre : map fst (p_undo e) = keys_of_ops (p_ops e) -> In (k, pre) (p_undo e) -> In k (keys_of_ops (p_ops e)).
Proof. intros <- H. change k with (fst (k, pre)). now apply in_map. Qed.

Lemma p_prepare_PInv now h p tx ops : PInv p -> PInv (fst (p_prepare now h p tx ops)).
Proof.
  intros I. unfold p_prepare. destruct (try_lock now tx h (ptmo p) (map pop_key ops) (ptbl p)) as [t' [h'|o]]; cbn [fst]; [|exact I].
  intros tx' e. cbn [prepared store dirty]. rewrite aget_aset. destruct (N.eqb_spec tx tx') as [<-|Hne].
  - intros [= <-]. cbn [p_undo p_ops]. split.
    + rewrite map_map. reflexivity.
    + intros _ k pre Hin. apply in_map_iff in Hin. destruct Hin as [o [[= <- <-] _]]. reflexivity.
  - intros G. destruct (I tx' e G) as [K C]. split; [exact K|]. intros Hd. apply C. intros Hin. apply Hd.
    apply set_remove_In. split; [exact Hin|congruence].
Qed.

Lemma p_prepare_store now h p tx ops : store (fst (p_prepare now h p tx ops)) = store p.
Proof. unfold p_prepare. destruct (try_lock _ _ _ _ _ _) as [t' [h'|o]]; reflexivity. Qed.

Lemma p_commit_PInv p tx : PInv p -> PInv (fst (p_commit p tx)).
Proof.
  intros I. unfold p_commit. destruct (aget (prepared p) tx) as [e|] eqn:G; cbn [fst]; [|exact I].
  intros tx' e'. cbn [prepared store dirty]. rewrite aget_adel. destruct (N.eqb_spec tx tx') as [<-|Hne]; [discriminate|].
  intros G'. destruct (I tx' e' G') as [K C]. split; [exact K|]. intros Hd k pre Hin.
  assert (Hin' : In (tx', e') (adel (prepared p) tx)) by (apply aget_In; rewrite aget_adel; destruct (N.eqb_spec tx tx'); [contradiction|exact G']).
  assert (T : touches (p_ops e) e' = false).
  { destruct (touches (p_ops e) e') eqn:T; [|reflexivity]. exfalso. apply Hd. apply mark_In. right. eauto. }
  rewrite fold_apply_other.
  - apply C; [|exact Hin]. intros Hx. apply Hd. apply mark_In. left. apply set_remove_In. split; [exact Hx|congruence].
  - eapply touches_false; [exact T|]. eapply undo_keys_in; eauto.
Qed.

(* the theorem about abort: if no other tx committed on tx's keys since its prepare (tx is not dirty),
   abort leaves every key of the store exactly as it was *)
Theorem p_abort_keeps_data p tx : PInv p -> ~ In tx (dirty p) -> forall k, aget (store (p_abort p tx)) k = aget (store p) k.
Proof.
  intros I Hd k. unfold p_abort. destruct (aget (prepared p) tx) as [e|] eqn:G; [|reflexivity]. cbn [store].
  destruct (I tx e G) as [_ C]. apply fold_undo_noop; [reflexivity|].
  intros k' pre Hin. apply in_rev in Hin. now apply C.
Qed.

Lemma p_abort_PInv p tx : PInv p -> PInv (p_abort p tx).
Proof.
  intros I. unfold p_abort. destruct (aget (prepared p) tx) as [e|] eqn:G; [|exact I].
  intros tx' e'. cbn [prepared store dirty]. rewrite aget_adel. destruct (N.eqb_spec tx tx') as [<-|Hne]; [discriminate|].
  intros G'. destruct (I tx' e' G') as [K C]. split; [exact K|]. intros Hd k pre Hin.
  destruct (I tx e G) as [Ke Ce].
  destruct (mem tx (dirty p)) eqn:M.
  - assert (Hin' : In (tx', e') (adel (prepared p) tx)) by (apply aget_In; rewrite aget_adel; destruct (N.eqb_spec tx tx'); [contradiction|exact G']).
    assert (T : touches (p_ops e) e' = false).
    { destruct (touches (p_ops e) e') eqn:T; [|reflexivity]. exfalso. apply Hd. apply mark_In. right. eauto. }
    rewrite fold_undo_other.
    + apply C; [|exact Hin]. intros Hx. apply Hd. apply mark_In. left. apply set_remove_In. split; [exact Hx|congruence].
    + rewrite map_rev, <- in_rev, Ke. eapply touches_false; [exact T|]. eapply undo_keys_in; eauto.
  - apply mem_nIn in M. rewrite fold_undo_noop with (st0 := store p).
    + apply C; [|exact Hin]. intros Hx. apply Hd. apply set_remove_In. split; [exact Hx|congruence].
    + reflexivity.
    + intros k' pre' Hin'. apply in_rev in Hin'. now apply Ce.
Qed.

(* ================================================================== 2. coordinator steps *)
Lemma all_voted_yes t : all_voted t = true -> all_yes t = true ->
  forall sh, In sh (c_parts t) -> exists h, aget (c_votes t) sh = Some (VYes h).
Proof.
  unfold all_voted, all_yes. rewrite !forallb_forall. intros V Y sh Hsh.
  specialize (V sh Hsh). destruct (aget (c_votes t) sh) as [v|] eqn:G; [|discriminate].
  specialize (Y (sh, v) (aget_In _ _ _ G)). cbn in Y. destruct v; [eauto|discriminate].
Qed.

(* record_vote either rejects and changes nothing, or records the vote and moves to phase ph *)
Lemma c_vote_cases c tx sh v :
  let c' := fst (c_vote c tx sh v) in let r := snd (c_vote c tx sh v) in
  nextid c' = nextid c /\
  ((c' = c /\ (r = 3 \/ r = 4 \/ r = 5)) \/
   exists t ph, aget (pending c) tx = Some t /\ c_phase t = 0 /\ aget (c_votes t) sh = None /\
     let t' := Ctx ph (c_parts t) (aset (c_votes t) sh v) (c_started t) (c_tmo t) (c_xconf t) in
     pending c' = aset (pending c) tx t' /\
     ((ph = 0 /\ r = 0 /\ aborts c' = aborts c) \/
      (ph = 1 /\ r = 1 /\ aborts c' = aborts c /\ all_voted t' = true /\ all_yes t' = true) \/
      (ph = 2 /\ r = 2 /\ aborts c' = aborts c ++ [(tx, c_parts t)]))).
Proof.
  unfold c_vote. destruct (aget (pending c) tx) as [t|] eqn:G; cbn zeta; [|split; [reflexivity|left; auto]].
  destruct (N.eqb_spec (c_phase t) 0) as [P0|P0]; cbn [negb]; [|split; [reflexivity|left; auto]].
  destruct (aget (c_votes t) sh) eqn:Gv; [split; [reflexivity|left; auto]|].
  set (t1 := Ctx 0 (c_parts t) (aset (c_votes t) sh v) (c_started t) (c_tmo t) (c_xconf t)).
  destruct (all_voted t1) eqn:AV.
  - destruct (all_yes t1) eqn:AY; cbn [andb].
    + destruct (negb (c_xconf t1)) eqn:X; cbn; (split; [reflexivity|]); right; exists t.
      * exists 1. repeat split; auto. right; left. repeat split; auto.
      * exists 2. repeat split; auto.
    + cbn. split; [reflexivity|]. right. exists t, 2. repeat split; auto.
  - cbn. split; [reflexivity|]. right. exists t, 0. repeat split; auto.
Qed.

Lemma c_commit_cases c tx :
  let '(c', r, shs) := c_commit c tx in
  (c' = c /\ r <> 0 /\ shs = []) \/
  (exists t, aget (pending c) tx = Some t /\ c_phase t = 1 /\ r = 0 /\ shs = c_parts t /\
             c' = Co (adel (pending c) tx) (aborts c) (nextid c) (prep_tmo c)).
Proof.
  unfold c_commit. destruct (aget (pending c) tx) as [t|] eqn:G; [|left; repeat split; discriminate].
  destruct (N.eqb_spec (c_phase t) 1); [right; exists t; repeat split; auto|left; repeat split; discriminate].
Qed.

Lemma c_abort_cases c tx :
  let '(c', r, shs) := c_abort c tx in
  (c' = c /\ r <> 0 /\ shs = []) \/
  (exists t, aget (pending c) tx = Some t /\ r = 0 /\ shs = c_parts t /\
             c' = Co (adel (pending c) tx) (aborts c) (nextid c) (prep_tmo c)).
Proof.
  unfold c_abort. destruct (aget (pending c) tx) as [t|] eqn:G; [|left; repeat split; discriminate].
  right; exists t; repeat split; auto.
Qed.

(* ================================================================== 3. the global invariant *)
Definition NoCommit (g : gst) (tx : N) : Prop :=
  In (tx, false) (dec g) \/ exists t, aget (pending (co g)) tx = Some t /\ c_phase t = 2.

Record Inv (g : gst) : Prop := {
  iO : NoDup (map fst (pending (co g)));
  iA : forall tx t, aget (pending (co g)) tx = Some t -> tx < nextid (co g);
  iB : forall tx b, In (tx, b) (dec g) -> tx < nextid (co g) /\ aget (pending (co g)) tx = None;
  iC : NoDup (map fst (dec g));
  iD : forall tx t, aget (pending (co g)) tx = Some t -> c_phase t = 1 ->
         forall sh, In sh (c_parts t) -> exists h, aget (c_votes t) sh = Some (VYes h);
  iE : forall tx t sh h, aget (pending (co g)) tx = Some t -> aget (c_votes t) sh = Some (VYes h) -> In (tx, sh) (cast g);
  iF : forall tx sh h, In (MVote tx sh (VYes h)) (net g) -> In (tx, sh) (cast g);
  iG : forall tx sh, In (MCommit tx sh) (net g) -> In (tx, true) (dec g);
  iH : forall tx sh, In (MAbort tx sh) (net g) -> NoCommit g tx;
  iI : forall tx shs, In (tx, shs) (aborts (co g)) -> NoCommit g tx;
  iJ : forall tx sh, In (tx, sh) (applied g) -> In (tx, true) (dec g);
  iK : forall tx sh, In (tx, sh) (discarded g) -> NoCommit g tx;
  iL : forall tx t parts, aget (pending (co g)) tx = Some t -> In (tx, parts) (parts_of g) -> parts = c_parts t;
  iN : forall tx parts, In (tx, parts) (parts_of g) -> tx < nextid (co g);
  iM : forall tx parts sh, In (tx, true) (dec g) -> In (tx, parts) (parts_of g) -> In sh parts -> In (tx, sh) (cast g);
  iP : forall p, In p (ps g) -> PInv p
}.

Lemma NoCommit_not_committed g tx : Inv g -> NoCommit g tx -> ~ In (tx, true) (dec g).
Proof.
  intros I [Hf|[t [G P]]] Ht.
  - pose proof (iC g I) as ND. clear -ND Hf Ht. induction (dec g) as [|[a b] r IH]; [destruct Hf|].
    cbn in ND. inversion ND as [|? ? Hn ND']; subst.
    destruct Hf as [[= -> ->]|Hf], Ht as [E|Ht]; try discriminate.
    + apply Hn. change tx with (fst (tx, true)). now apply in_map.
    + injection E as -> ->. apply Hn. change tx with (fst (tx, false)). now apply in_map.
    + auto.
  - destruct (iB g I tx true Ht) as [_ Gn]. congruence.
Qed.

Lemma ginit_Inv ctmo parts0 : (forall p, In p parts0 -> PInv p) -> Inv (ginit ctmo parts0).
Proof.
  intros HP. constructor; cbn.
  - constructor.
  - intros; discriminate.
  - intros tx b [].
  - constructor.
  - intros; discriminate.
  - intros; discriminate.
  - intros tx sh h [].
  - intros tx sh [].
  - intros tx sh [].
  - intros tx shs [].
  - intros tx sh [].
  - intros tx sh [].
  - intros; discriminate.
  - intros tx parts [].
  - intros tx parts sh [].
  - exact HP.
Qed.

Lemma remove_nth_In {A} (l : list A) i x : In x (remove_nth l i) -> In x l.
Proof.
  revert i. induction l as [|a r IH]; intros i H; [destruct i; exact H|].
  destruct i; cbn in H; [now right|]. destruct H; [now left|right; eauto].
Qed.
Lemma set_nth_In {A} (l : list A) i x y : In y (set_nth l i x) -> y = x \/ In y l.
Proof.
  revert i. induction l as [|a r IH]; intros i H; [destruct i; destruct H|].
  destruct i; cbn in H.
  - destruct H; [left; auto|right; now right].
  - destruct H; [right; now left|]. destruct (IH _ H); [left; auto|right; now right].
Qed.
Lemma nth_part_In l sh p : nth_part l sh = Some p -> In p l.
Proof. unfold nth_part. apply nth_error_In. Qed.

(* what the invariant guarantees about a message in flight *)
Definition msg_ok (g : gst) (m : msg) : Prop :=
  match m with
  | MVote tx sh (VYes _) => In (tx, sh) (cast g)
  | MCommit tx sh => In (tx, true) (dec g)
  | MAbort tx sh => NoCommit g tx
  | _ => True
  end.

Lemma net_msg_ok g m : Inv g -> In m (net g) -> msg_ok g m.
Proof.
  intros I H. destruct m as [tx sh ops|tx sh v|tx sh|tx sh]; cbn; auto.
  - destruct v; auto. eapply iF; eauto.
  - eapply iG; eauto.
  - eapply iH; eauto.
Qed.

(* shrinking the bag keeps the invariant *)
Lemma shrink_Inv g net' : Inv g -> (forall m, In m net' -> In m (net g)) ->
  Inv (G (co g) (ps g) net' (gnow g) (gh g) (dec g) (applied g) (discarded g) (cast g) (parts_of g)).
Proof.
  intros I Hs. destruct I. constructor; cbn; auto.
  - intros tx sh h H. eapply iF0; eauto.
  - intros tx sh H. eapply iG0; eauto.
  - intros tx sh H. apply (iH0 tx sh). auto.
Qed.

Lemma advance_Inv g d : Inv g ->
  Inv (G (co g) (ps g) (net g) (gnow g + d) (gh g) (dec g) (applied g) (discarded g) (cast g) (parts_of g)).
Proof. intros I. destruct I. constructor; cbn; auto. Qed.

Lemma in_app_single {A} (l : list A) x y : In y (l ++ [x]) -> In y l \/ y = x.
Proof. rewrite in_app_iff. cbn. intuition. Qed.

(* ---------------------------------------------------------------- deliver *)
Lemma deliver_prepare_Inv g tx sh ops : Inv g -> Inv (fst (deliver g (MPrepare tx sh ops))).
Proof.
  intros I. cbn [deliver]. destruct (nth_part (ps g) sh) as [p|] eqn:Np; [|exact I].
  pose proof (p_prepare_PInv (gnow g) (gh g) p tx ops (iP g I p (nth_part_In _ _ _ Np))) as HP.
  destruct (p_prepare (gnow g) (gh g) p tx ops) as [p' v]. cbn [fst] in *.
  destruct I. constructor; cbn; auto.
  - intros tx0 t sh0 h G0 Gv. destruct (is_yes v); [right|]; eauto.
  - intros tx0 sh0 h H. apply in_app_single in H. destruct H as [H|[= -> -> <-]].
    + destruct (is_yes v); [right|]; eauto.
    + cbn. now left.
  - intros tx0 sh0 H. apply in_app_single in H. destruct H as [H|H]; [eauto|discriminate].
  - intros tx0 sh0 H. apply in_app_single in H. destruct H as [H|H]; [|discriminate]. apply (iH0 tx0 sh0 H).
  - intros tx0 parts sh0 H1 H2 H3. destruct (is_yes v); [right|]; eauto.
  - intros q Hq. apply set_nth_In in Hq. destruct Hq as [->|Hq]; auto.
Qed.

Lemma deliver_commit_Inv g tx sh : Inv g -> In (tx, true) (dec g) -> Inv (fst (deliver g (MCommit tx sh))).
Proof.
  intros I Hd. cbn [deliver]. destruct (nth_part (ps g) sh) as [p|] eqn:Np; [|exact I].
  pose proof (p_commit_PInv p tx (iP g I p (nth_part_In _ _ _ Np))) as HP.
  destruct (p_commit p tx) as [p' ok]. cbn [fst] in *.
  destruct I. constructor; cbn; auto.
  - intros tx0 sh0 H. destruct ok; [destruct H as [[= <- <-]|H]|]; eauto.
  - intros q Hq. apply set_nth_In in Hq. destruct Hq as [->|Hq]; auto.
Qed.

Lemma deliver_abort_Inv g tx sh : Inv g -> NoCommit g tx -> Inv (fst (deliver g (MAbort tx sh))).
Proof.
  intros I Hn. cbn [deliver]. destruct (nth_part (ps g) sh) as [p|] eqn:Np; [|exact I].
  pose proof (p_abort_PInv p tx (iP g I p (nth_part_In _ _ _ Np))) as HP. cbn [fst].
  destruct I. constructor; cbn; auto.
  - intros tx0 sh0 H. destruct (has_prepared p tx); [destruct H as [[= <- <-]|H]|]; [exact Hn| |]; apply (iK0 tx0 sh0 H).
  - intros q Hq. apply set_nth_In in Hq. destruct Hq as [->|Hq]; auto.
Qed.

Lemma NoCommit_aset g g' tx t t' :
  dec g' = dec g -> pending (co g') = aset (pending (co g)) tx t' ->
  aget (pending (co g)) tx = Some t -> (c_phase t = 2 -> c_phase t' = 2) ->
  forall tx0, NoCommit g tx0 -> NoCommit g' tx0.
Proof.
  intros Ed Ep G P tx0 [H|[t0 [G0 P0]]]; unfold NoCommit; rewrite Ed, Ep.
  - now left.
  - right. rewrite aget_aset. destruct (N.eqb_spec tx tx0) as [<-|Hne].
    + exists t'. split; [reflexivity|]. apply P. congruence.
    + eauto.
Qed.

Lemma deliver_vote_Inv g tx sh v : Inv g -> msg_ok g (MVote tx sh v) -> Inv (fst (deliver g (MVote tx sh v))).
Proof.
  intros I Hok. cbn [deliver].
  pose proof (c_vote_cases (co g) tx sh v) as Hc. cbn zeta in Hc.
  destruct (c_vote (co g) tx sh v) as [c' r]. cbn [fst snd] in *.
  destruct Hc as [Hn [[-> _]|[t [ph [Gp [P0 [Gv [Ep Hph]]]]]]]].
  - destruct I. constructor; cbn; auto.
  - set (t' := Ctx ph (c_parts t) (aset (c_votes t) sh v) (c_started t) (c_tmo t) (c_xconf t)) in *.
    set (g' := G c' (ps g) (net g) (gnow g) (gh g) (dec g) (applied g) (discarded g) (cast g) (parts_of g)).
    assert (NC : forall tx0, NoCommit g tx0 -> NoCommit g' tx0).
    { apply (NoCommit_aset g g' tx t t'); auto. intros P2. rewrite P0 in P2. discriminate. }
    pose proof I as I0. destruct I. constructor; cbn [co ps net dec applied discarded cast parts_of g']; auto.
    + rewrite Ep. now apply aset_NoDup.
    + intros tx0 t0. rewrite Ep, Hn, aget_aset. destruct (N.eqb_spec tx tx0) as [<-|]; [intros _; eauto|eauto].
    + intros tx0 b Hd. destruct (iB0 tx0 b Hd) as [Hlt Gn]. rewrite Hn. split; [exact Hlt|].
      rewrite Ep, aget_aset. destruct (N.eqb_spec tx tx0) as [<-|]; [congruence|exact Gn].
    + intros tx0 t0. rewrite Ep, aget_aset. destruct (N.eqb_spec tx tx0) as [<-|]; [|eauto].
      intros [= <-] P1 sh0 Hsh. cbn in P1. subst ph.
      destruct Hph as [[? _]|[[_ [_ [_ [AV AY]]]]|[? _]]]; try discriminate.
      exact (all_voted_yes t' AV AY sh0 Hsh).
    + intros tx0 t0 sh0 h. rewrite Ep, aget_aset. destruct (N.eqb_spec tx tx0) as [<-|]; [|eauto].
      intros [= <-]. cbn [c_votes t']. rewrite aget_aset. destruct (N.eqb_spec sh sh0) as [<-|]; [|eauto].
      intros [= ->]. exact Hok.
    + intros tx0 sh0 H. apply NC. eauto.
    + intros tx0 shs H.
      destruct Hph as [[_ [_ Ea]]|[[_ [_ [Ea _]]]|[-> [_ Ea]]]]; rewrite Ea in H; try (apply NC; eauto).
      apply in_app_single in H. destruct H as [H|[= -> ->]]; [apply NC; eauto|].
      right. exists t'. split; [cbn; rewrite Ep, aget_aset, N.eqb_refl; reflexivity|reflexivity].
    + intros tx0 sh0 H. apply NC. eauto.
    + intros tx0 t0 parts. rewrite Ep, aget_aset. destruct (N.eqb_spec tx tx0) as [<-|]; [|eauto].
      intros [= <-] Hp. cbn. eauto.
    + intros tx0 parts Hp. rewrite Hn. eauto.
Qed.
