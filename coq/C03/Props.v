(* C03/Props.v -- pinned property theorems for C03 (two-phase commit agreement); statements in full.
   `start ctmo parts0` is one coordinator (prepare timeout ctmo) + participants with the given initial stores and
   lock timeouts; `grun` folds an arbitrary event list: begin, delivery of ANY in-flight message with or without
   removing it (reordering, duplication, late and duplicate votes), loss, driver commit/abort at any time,
   cleanup_timeouts at any time, abort broadcast, time passing.  dec / cast / applied / discarded / parts_of are
   the ghost history fields of the model (Model.v); no step reads them. *)
From NV.Common Require Import Base LockTable LockTableFacts.
From NV.C03 Require Import Model Proofs Inst.
Open Scope N_scope.

(* "the coordinator decides at most once ... and the decision never changes afterwards":
   any two decisions recorded for one transaction, at any two points of any run, are the same. *)
Theorem C03_one_decision : forall ctmo parts0 es es' tx b b',
  let g := grun (start ctmo parts0) es in
  In (tx, b) (dec g) -> In (tx, b') (dec (grun g es')) -> b = b'.
Proof. exact one_decision. Qed.

(* "it decides commit only if every participant voted yes": for every participant shard of a committed
   transaction, that participant answered Yes to a prepare of it. *)
Theorem C03_commit_only_if_all_yes : forall ctmo parts0 es tx parts sh,
  let g := grun (start ctmo parts0) es in
  In (tx, true) (dec g) -> In (tx, parts) (parts_of g) -> In sh parts -> In (tx, sh) (cast g).
Proof. exact commit_all_yes. Qed.

(* "no participant applies a transaction's writes unless the decision was commit"
   (and a prepare by itself never changes the store). *)
Theorem C03_apply_only_after_commit : forall ctmo parts0 es tx sh,
  let g := grun (start ctmo parts0) es in
  (In (tx, sh) (applied g) -> In (tx, true) (dec g)) /\
  (In (tx, false) (dec g) -> ~ In (tx, sh) (applied g)) /\
  (forall now h p ops, store (fst (p_prepare now h p tx ops)) = store p).
Proof.
  intros ctmo parts0 es tx sh g. split; [exact (applied_only_committed ctmo parts0 es tx sh)|].
  split; [exact (aborted_never_applied ctmo parts0 es tx sh)|]. intros. apply p_prepare_store.
Qed.

(* "if one participant applied them no participant that voted yes discards them, so the shards never end up
   split between applied and rolled back". *)
Theorem C03_no_split : forall ctmo parts0 es tx sh sh',
  let g := grun (start ctmo parts0) es in
  In (tx, sh) (applied g) -> In (tx, sh') (discarded g) -> False.
Proof. exact no_split. Qed.

(* "a transaction's writes are applied at most once on each shard": however Prepare / Commit messages are
   duplicated, delayed or reordered, no (transaction, shard) pair is applied twice (the participant remembers the
   transactions it has decided and refuses to prepare them again). *)
Theorem C03_applied_at_most_once : forall ctmo parts0 es,
  NoDup (applied (grun (start ctmo parts0) es)).
Proof. exact applied_once. Qed.

(* "the decision never changes afterwards", recovery included: a transaction that coordinator.recover() moved to
   Committing carries the decision commit; with C03_one_decision no later abort(), cleanup_timeouts, recover() or
   complete_abort turns it into an abort. *)
Theorem C03_committing_is_decided : forall ctmo parts0 es tx t,
  let g := grun (start ctmo parts0) es in In (tx, t) (committing (co g)) -> In (tx, true) (dec g).
Proof. exact committing_is_decided. Qed.

(* C03_no_split speaks of transactions discarded on an abort MESSAGE.  Participant housekeeping (cleanup_stale /
   recover) drops a prepared transaction on the participant's own authority, so "every participant that voted Yes
   for a committed transaction applies it once all messages are delivered" is FALSE of the faithful model (known
   finding F-C03-presumed-abort; the witness is replayed on the implementation by the harness corpus): both shards
   vote Yes, cleanup_stale(0) on shard 1, commit, shard 0 applies, shard 1 answers the Commit with not-found. *)
Theorem C03_yes_voter_applies_refuted :
  exists ctmo parts0 es tx sh sh',
    let g := grun (start ctmo parts0) es in
    In (tx, true) (dec g) /\ In (tx, sh) (applied g) /\ In (tx, sh') (cast g) /\ net g = [] /\ ~ In (tx, sh') (applied g).
Proof. exact yes_voter_applies_refuted. Qed.

(* "aborted and timed-out transactions leave every shard's data exactly as it was" -- outside the known class:
   in every reachable state, aborting tx at a shard where no OTHER transaction committed a write to one of tx's
   keys since tx's prepare (tx is not `dirty`) leaves every key of that shard's store unchanged. *)
Theorem C03_abort_leaves_data : forall ctmo parts0 es sh p tx,
  let g := grun (start ctmo parts0) es in
  nth_part (ps g) sh = Some p -> ~ In tx (dirty p) ->
  forall k, aget (store (p_abort p tx)) k = aget (store p) k.
Proof. exact abort_leaves_data. Qed.

(* the unguarded statement is false of the faithful model (known finding F-C03-undo; the witness is replayed on the
   implementation by the harness corpus): lock timeout 5 ms, k0 = 5, T1 prepare(Put k0 7), 30 ms, T2 prepare +
   commit (Put k0 9), then abort(T1) rewrites k0. *)
Theorem C03_abort_leaves_data_refuted :
  exists ctmo parts0 es sh p tx k,
    nth_part (ps (grun (start ctmo parts0) es)) sh = Some p /\
    aget (store (p_abort p tx)) k <> aget (store p) k.
Proof. exact abort_leaves_data_refuted. Qed.

(* ---------------------------------------------------------------- non-vacuity *)
(* a run with a commit decision applied on two shards, a duplicate vote, and an aborted second transaction *)
Example ex_commit :
  let g := grun (start 5000 [([(0, 1)], 30000); ([], 30000)])
             [EBegin [0; 1] [(0, [Put 0 2]); (1, [Put 1 3])] false;
              EDeliver 0 false; EDeliver 0 false; EDeliver 0 true; EDeliver 0 false; EDeliver 0 false;
              ECommit 1; EDeliver 0 false; EDeliver 0 false;
              EBegin [1] [(1, [Put 0 4])] false; EDeliver 0 false; EDeliver 0 false; EAbort 2; EDeliver 0 false] in
  dec g = [(1, true); (2, false)] /\ applied g = [(1, 1); (1, 0)] /\ discarded g = [(2, 1)] /\
  cast g = [(2, 1); (1, 1); (1, 0)] /\ map store (ps g) = [[(0, 2)]; [(1, 3)]].
Proof. vm_compute. repeat split. Qed.

(* a stray Yes from a non-participant shard does not stand in for the participant whose prepare was lost *)
Example ex_stray :
  let g := grun (start 5000 [([(0, 1)], 30000); ([], 30000)])
             [EBegin [0; 1] [(0, [Put 0 2]); (1, [Put 1 3])] false; EDeliver 0 false; EDrop 0; EDeliver 0 false;
              EStray 1 2 true; ECommit 1] in
  dec g = [] /\ cast g = [(1, 0)] /\ option_map c_phase (aget (pending (co g)) 1) = Some 0.
Proof. vm_compute. repeat split. Qed.

(* the guard of C03_abort_leaves_data is satisfiable with a prepared, non-dirty transaction *)
Example ex_clean_abort :
  let g := grun (start 5000 [([(0, 1)], 30000)]) [EBegin [0] [(0, [Put 0 2])] false; EDeliver 0 false] in
  exists p, nth_part (ps g) 0 = Some p /\ has_prepared p 1 = true /\ ~ In 1 (dirty p).
Proof. eexists. split; [vm_compute; reflexivity|]. split; [vm_compute; reflexivity|]. vm_compute. tauto. Qed.

Print Assumptions C03_one_decision.
Print Assumptions C03_commit_only_if_all_yes.
Print Assumptions C03_apply_only_after_commit.
Print Assumptions C03_no_split.
Print Assumptions C03_applied_at_most_once.
Print Assumptions C03_committing_is_decided.
Print Assumptions C03_yes_voter_applies_refuted.
Print Assumptions C03_abort_leaves_data.
Print Assumptions C03_abort_leaves_data_refuted.
