From NV.Common Require Import Base LockTable LockTableFacts.
From NV.C03 Require Import Model Proofs Inst.
Open Scope N_scope.
Theorem C03_placeholder : True. Proof. exact I. Qed.
Print Assumptions C03_placeholder.
