(* C03/Run.v -- executable entry points: model trace + the property oracle evaluated on the
   IMPLEMENTATION's observations.  Depends on Model only. *)
From NV.Common Require Import Base LockTable.
From NV.C03 Require Import Model.
Open Scope N_scope.

Definition lN_eqb := list_eqb N.eqb.
Definition oN_eqb := option_eqb N.eqb.
Definition loN_eqb := list_eqb oN_eqb.
Definition txs (n : N) : list N := map N.succ (N_seq n).

(* what the harness reads from one participant after every event *)
Record pdump := PD { pd_store : list (option N); pd_prepared : list N; pd_holders : list (option N) }.
Definition pdump_eqb (a b : pdump) : bool :=
  loN_eqb (pd_store a) (pd_store b) && lN_eqb (pd_prepared a) (pd_prepared b) && loN_eqb (pd_holders a) (pd_holders b).

(* (return value, coordinator phase of tx 1..n (get(tx).phase), participants) *)
Definition obs := (list N * list (option N) * list pdump)%type.
Definition obs_eqb (a b : obs) : bool :=
  let '(r1, c1, p1) := a in let '(r2, c2, p2) := b in
  lN_eqb r1 r2 && loN_eqb c1 c2 && list_eqb pdump_eqb p1 p2.

Definition model_pdump (K now : N) (p : part) : pdump :=
  PD (map (aget (store p)) (N_seq K)) (sortN (map fst (prepared p))) (map (holder now (ptbl p)) (N_seq K)).
Definition model_obs (K Tn : N) (g : gst) (ret : list N) : obs :=
  (ret, map (fun tx => match aget (committing (co g)) tx with Some _ => Some 3 | None => option_map c_phase (aget (pending (co g)) tx) end) (txs Tn),
   map (model_pdump K (gnow g)) (ps g)).

Fixpoint model_trace (K Tn : N) (g : gst) (es : list ev) : list obs :=
  match es with
  | [] => []
  | e :: r => let '(g', ret) := gstep g e in model_obs K Tn g' ret :: model_trace K Tn g' r
  end.

(* ------------------------------------------------------------------ oracle on the implementation's observations *)
Definition pair_mem (x : N * N) (l : list (N * N)) : bool := existsb (fun y => N.eqb (fst x) (fst y) && N.eqb (snd x) (snd y)) l.
Definition pair_del (x : N * N) (l : list (N * N)) : list (N * N) :=
  filter (fun y => negb (N.eqb (fst x) (fst y) && N.eqb (snd x) (snd y))) l.
Definition decided (tx : N) (d : list (N * bool)) : bool := existsb (fun y => N.eqb tx (fst y)) d.
Definition committed (tx : N) (d : list (N * bool)) : bool := existsb (fun y => N.eqb tx (fst y) && snd y) d.
Definition aborted (tx : N) (d : list (N * bool)) : bool := existsb (fun y => N.eqb tx (fst y) && negb (snd y)) d.
(* a decision ANNOUNCED by the coordinator: the return of commit / abort / cleanup_timeouts / complete_abort, a
   transaction listed by take_pending_aborts (abort broadcast) or by get_pending_decisions after recover() *)
Definition add_dec (d : list (N * bool)) (tx : N) (b : bool) : list (N * bool) :=
  if existsb (fun y => N.eqb tx (fst y) && Bool.eqb b (snd y)) d then d else d ++ [(tx, b)].

(* bookkeeping rebuilt from the events and the implementation's return values only *)
Record ost := OS {
  o_net : list msg;
  o_reg : list (N * (list N * list (N * list pop)));  (* tx -> participants, ops per shard *)
  o_dec : list (N * bool);
  o_cast : list (N * N);
  o_applied : list (N * N);
  o_discarded : list (N * N);
  o_dirty : list (N * N);      (* (tx, shard): another tx committed on one of tx's keys at shard since tx's last Yes there *)
  o_known : list N;            (* known classes hit: 0 undo-after-foreign-commit, 1 presumed-abort-after-yes *)
  o_now : N;                   (* time, rebuilt from the EAdvance events *)
  o_yes : list (N * N * N);    (* (tx, shard, time of tx's latest Yes at shard) = when its key locks there were (re)acquired *)
  o_illegit : list (N * N);    (* dirty marks whose two overlapping prepares were NOT separated by a lock expiry: on correct
                                  code the second prepare would have been refused, so this is not the known class *)
  o_swept : list (N * N)       (* (tx, shard): a housekeeping sweep dropped tx's prepared entry on shard (since its last Yes there) *)
}.
Definition yes_time (o : ost) (tx sh : N) : N :=
  match find (fun y => N.eqb (fst (fst y)) tx && N.eqb (snd (fst y)) sh) (o_yes o) with Some y => snd y | None => 0 end.
Definition gap_gt (a b lim : N) : bool := N.ltb lim (N.max a b - N.min a b).

Definition reg_parts (o : ost) (tx : N) : list N := match aget (o_reg o) tx with Some r => fst r | None => [] end.
Definition reg_ops (o : ost) (tx sh : N) : list pop := match aget (o_reg o) tx with Some r => ops_for (snd r) sh | None => [] end.
Definition keys_meet (a b : list pop) : bool := existsb (fun x => existsb (fun y => N.eqb (pop_key x) (pop_key y)) b) a.
Definition nth_pd (l : list pdump) (sh : N) : pdump := nth (N.to_nat sh) l (PD [] [] []).
Fixpoint unflat (l : list N) (fuel : nat) : list (N * list N) :=
  match fuel with
  | O => []
  | Datatypes.S f => match l with
           | tx :: n :: r => (tx, firstn (N.to_nat n) r) :: unflat (skipn (N.to_nat n) r) f
           | _ => []
           end
  end.

(* the store dump (keys 0..K-1) after applying the operations in order *)
Fixpoint set_nth_o (l : list (option N)) (i : nat) (x : option N) : list (option N) :=
  match l, i with
  | [], _ => []
  | _ :: t, O => x :: t
  | h :: t, Datatypes.S j => h :: set_nth_o t j x
  end.
Definition expect_store (ops : list pop) (st : list (option N)) : list (option N) :=
  fold_left (fun st o => match o with
                         | Put k v => set_nth_o st (N.to_nat k) (Some v)
                         | Del k => set_nth_o st (N.to_nat k) None
                         | Cas k e v => match nth (N.to_nat k) st None with
                                        | Some x => if N.eqb x e then set_nth_o st (N.to_nat k) (Some v) else st
                                        | None => st end
                         end) ops st.

Definition upd (o : ost) net' dec' cast' app' disc' dirty' known' : ost := OS net' (o_reg o) dec' cast' app' disc' dirty' known' (o_now o) (o_yes o) (o_illegit o) (o_swept o).
Definition with_dec (o : ost) net' dec' : ost := upd o net' dec' (o_cast o) (o_applied o) (o_discarded o) (o_dirty o) (o_known o).
Definition add_known (o : ost) (k : N) : ost :=
  OS (o_net o) (o_reg o) (o_dec o) (o_cast o) (o_applied o) (o_discarded o) (o_dirty o) (set_add k (o_known o)) (o_now o) (o_yes o) (o_illegit o) (o_swept o).
(* decisions listed by get_pending_decisions: flat (tx, phase) pairs, phase 3 = Committing, 2 = Aborting *)
Fixpoint pairs_of (l : list N) : list (N * N) :=
  match l with tx :: ph :: r => (tx, ph) :: pairs_of r | _ => [] end.

(* returns None on a property violation *)
Definition ostep (ptmos : list N) (o : ost) (e : ev) (ret : list N) (pre post : list pdump) : option ost :=
  match e with
  | EBegin parts ops _ =>
      match ret with
      | [tx] => Some (OS (o_net o ++ map (fun sh => MPrepare tx sh (ops_for ops sh)) parts) (aset (o_reg o) tx (parts, ops))
                         (o_dec o) (o_cast o) (o_applied o) (o_discarded o) (o_dirty o) (o_known o) (o_now o) (o_yes o) (o_illegit o) (o_swept o))
      | _ => None
      end
  | EDrop i => Some (upd o (remove_nth (o_net o) (N.to_nat i)) (o_dec o) (o_cast o) (o_applied o) (o_discarded o) (o_dirty o) (o_known o))
  | EAdvance d => Some (OS (o_net o) (o_reg o) (o_dec o) (o_cast o) (o_applied o) (o_discarded o) (o_dirty o) (o_known o) (o_now o + d) (o_yes o) (o_illegit o) (o_swept o))
  | EStray _ _ _ => Some o      (* a stray vote is no participant's answer: nothing to book *)
  | ECommit tx =>
      match ret with
      | [0] =>
          (* one decision per transaction; commit only if every participant answered Yes *)
          if decided tx (o_dec o) then None
          else if negb (forallb (fun sh => pair_mem (tx, sh) (o_cast o)) (reg_parts o tx)) then None
          else Some (with_dec o (o_net o ++ bcast (MCommit tx) (reg_parts o tx)) (o_dec o ++ [(tx, true)]))
      | _ => Some o
      end
  | EAbort tx =>
      match ret with
      | [0] =>
          (* the decision never changes: no abort after a commit decision was announced *)
          if committed tx (o_dec o) then None
          else Some (with_dec o (o_net o ++ bcast (MAbort tx) (reg_parts o tx)) (add_dec (o_dec o) tx false))
      | _ => Some o
      end
  | ETimeouts =>
      if existsb (fun tx => committed tx (o_dec o)) ret then None
      else Some (with_dec o (o_net o) (fold_left (fun d tx => add_dec d tx false) ret (o_dec o)))
  | ETakeAborts =>
      let q := unflat ret (length ret) in
      if existsb (fun ts => committed (fst ts) (o_dec o)) q then None
      else Some (with_dec o (o_net o ++ abort_msgs q) (fold_left (fun d ts => add_dec d (fst ts) false) q (o_dec o)))
  | ERecover =>
      (* what get_pending_decisions lists after recover() is what the driver broadcasts: a transaction whose abort was
         announced must not come back as Committing, one whose commit was announced must not come back as Aborting;
         a NEW commit decision needs every participant's Yes *)
      let ds := pairs_of (skipn 4 ret) in
      if existsb (fun d => if N.eqb (snd d) 3 then aborted (fst d) (o_dec o) else committed (fst d) (o_dec o)) ds then None
      else if existsb (fun d => N.eqb (snd d) 3 && negb (committed (fst d) (o_dec o))
                                && negb (forallb (fun sh => pair_mem (fst d, sh) (o_cast o)) (reg_parts o (fst d)))) ds then None
      else Some (with_dec o
                   (o_net o ++ flat_map (fun d => bcast (if N.eqb (snd d) 3 then MCommit (fst d) else MAbort (fst d)) (reg_parts o (fst d))) ds)
                   (fold_left (fun dd d => add_dec dd (fst d) (N.eqb (snd d) 3)) ds (o_dec o)))
  | ECompleteCommit tx =>
      match ret with
      | [0] => if committed tx (o_dec o) && negb (aborted tx (o_dec o)) then Some o else None
      | _ => Some o
      end
  | ECompleteAbort tx =>
      match ret with
      | [0] => if committed tx (o_dec o) then None else Some (with_dec o (o_net o) (add_dec (o_dec o) tx false))
      | _ => Some o
      end
  | ESweep sh _ _ =>
      (* a housekeeping sweep drops prepared transactions like an abort: the shard's data must stay as it was (known
         class 0: another transaction committed on the key in between); a dropped transaction whose decision is
         commit is the known class 1 (the participant had voted Yes) *)
      let dropped := filter (fun t => negb (mem t (pd_prepared (nth_pd post sh)))) (pd_prepared (nth_pd pre sh)) in
      let same := loN_eqb (pd_store (nth_pd pre sh)) (pd_store (nth_pd post sh)) in
      if existsb (fun t => negb (mem t (pd_prepared (nth_pd pre sh)))) (pd_prepared (nth_pd post sh)) then None
      else if negb same && negb (existsb (fun t => pair_mem (t, sh) (o_dirty o) && negb (pair_mem (t, sh) (o_illegit o))) dropped) then None
      else
        let o1 := OS (o_net o) (o_reg o) (o_dec o) (o_cast o) (o_applied o) (o_discarded o)
                     (filter (fun y => negb (N.eqb (snd y) sh && mem (fst y) dropped)) (o_dirty o))
                     (o_known o) (o_now o) (o_yes o) (o_illegit o) (map (fun t => (t, sh)) dropped ++ o_swept o) in
        let o2 := if same then o1 else add_known o1 0 in
        Some (if existsb (fun t => committed t (o_dec o)) dropped then add_known o2 1 else o2)
  | EDeliver i keep =>
      match nth_error (o_net o) (N.to_nat i) with
      | None => None
      | Some m =>
          let net0 := if keep then o_net o else remove_nth (o_net o) (N.to_nat i) in
          match m with
          | MPrepare tx sh ops =>
              (* prepare never touches the data *)
              if negb (loN_eqb (pd_store (nth_pd pre sh)) (pd_store (nth_pd post sh))) then None
              else match ret with
                   | [0; h] =>
                       (* a shard that has applied the transaction, or has been told to abort it, is finished with it: a
                          (late or duplicated) Prepare must not prepare it again *)
                       if pair_mem (tx, sh) (o_applied o) || pair_mem (tx, sh) (o_discarded o) then None else
                       (* a participant answers Yes only if no OTHER transaction holds a live lock on one of the keys *)
                       if existsb (fun k => match nth (N.to_nat k) (pd_holders (nth_pd pre sh)) None with
                                            | Some t => negb (N.eqb t tx) | None => false end) (map pop_key ops) then None else
                       Some (OS (net0 ++ [MVote tx sh (VYes h)]) (o_reg o) (o_dec o) ((tx, sh) :: o_cast o) (o_applied o) (o_discarded o)
                                        (pair_del (tx, sh) (o_dirty o)) (o_known o) (o_now o)
                                        ((tx, sh, o_now o) :: filter (fun y => negb (N.eqb (fst (fst y)) tx && N.eqb (snd (fst y)) sh)) (o_yes o))
                                        (pair_del (tx, sh) (o_illegit o)) (pair_del (tx, sh) (o_swept o)))
                   | [1; b] => Some (upd o (net0 ++ [MVote tx sh (VConflict b)]) (o_dec o) (o_cast o) (o_applied o) (o_discarded o) (o_dirty o) (o_known o))
                   | _ => None
                   end
          | MVote _ _ _ => Some (upd o net0 (o_dec o) (o_cast o) (o_applied o) (o_discarded o) (o_dirty o) (o_known o))
          | MCommit tx sh =>
              match ret with
              | [1] =>
                  (* writes are applied only for a commit decision, and never when some participant discarded them *)
                  if negb (committed tx (o_dec o)) then None
                  else if existsb (fun y => N.eqb tx (fst y)) (o_discarded o) then None
                  (* the acknowledged commit must have WRITTEN the transaction's operations on this shard *)
                  else if negb (loN_eqb (pd_store (nth_pd post sh)) (expect_store (reg_ops o tx sh) (pd_store (nth_pd pre sh)))) then None
                  (* a transaction already applied on this shard is finished there: a duplicated commit must not
                     change the shard's data again (it would overwrite whatever committed in between) *)
                  else if pair_mem (tx, sh) (o_applied o) && negb (loN_eqb (pd_store (nth_pd pre sh)) (pd_store (nth_pd post sh))) then None
                  else
                    let others := filter (fun t => negb (N.eqb t tx) && keys_meet (reg_ops o tx sh) (reg_ops o t sh))
                                         (pd_prepared (nth_pd pre sh)) in
                    let lim := nth (N.to_nat sh) ptmos 0 in
                    let bad := filter (fun t => negb (gap_gt (yes_time o t sh) (yes_time o tx sh) lim)) others in
                    Some (OS net0 (o_reg o) (o_dec o) (o_cast o) ((tx, sh) :: o_applied o) (o_discarded o)
                             (map (fun t => (t, sh)) others ++ o_dirty o) (o_known o) (o_now o) (o_yes o)
                             (map (fun t => (t, sh)) bad ++ o_illegit o) (o_swept o))
              | _ =>
                  (* the commit was not applied.  If this participant still held the prepared transaction (it voted yes)
                     and dropped it now, it has discarded a transaction whose decision is commit *)
                  let had := mem tx (pd_prepared (nth_pd pre sh)) in
                  let has := mem tx (pd_prepared (nth_pd post sh)) in
                  if negb (loN_eqb (pd_store (nth_pd pre sh)) (pd_store (nth_pd post sh))) then None
                  else if had && negb has && committed tx (o_dec o) then None
                  (* the shard voted Yes, a sweep dropped the transaction, the decision is commit: known class 1 *)
                  else if pair_mem (tx, sh) (o_swept o) && committed tx (o_dec o) && negb (pair_mem (tx, sh) (o_applied o))
                  then Some (add_known (upd o net0 (o_dec o) (o_cast o) (o_applied o) (o_discarded o) (o_dirty o) (o_known o)) 1)
                  else Some (upd o net0 (o_dec o) (o_cast o) (o_applied o) (o_discarded o) (o_dirty o) (o_known o))
              end
          | MAbort tx sh =>
              let had := mem tx (pd_prepared (nth_pd pre sh)) in
              let same := loN_eqb (pd_store (nth_pd pre sh)) (pd_store (nth_pd post sh)) in
              (* a discarded transaction must not have been applied anywhere *)
              if had && existsb (fun y => N.eqb tx (fst y)) (o_applied o) then None
              else if same then
                (* booked whether or not the shard held the transaction: it has been told to abort *)
                Some (upd o net0 (o_dec o) (o_cast o) (o_applied o) ((tx, sh) :: o_discarded o)
                          (pair_del (tx, sh) (o_dirty o)) (o_known o))
              (* an abort must leave the shard's data exactly as it was; known class: another tx committed on the key in between *)
              else if had && pair_mem (tx, sh) (o_dirty o) && negb (pair_mem (tx, sh) (o_illegit o)) then
                let others := filter (fun t => negb (N.eqb t tx) && keys_meet (reg_ops o tx sh) (reg_ops o t sh))
                                     (pd_prepared (nth_pd pre sh)) in
                Some (upd o net0 (o_dec o) (o_cast o) (o_applied o) ((tx, sh) :: o_discarded o)
                          (map (fun t => (t, sh)) others ++ pair_del (tx, sh) (o_dirty o)) (set_add 0 (o_known o)))
              else None
          end
      end
  end.

Fixpoint owalk (ptmos : list N) (o : ost) (es : list ev) (os : list obs) (pre : list pdump) : option ost :=
  match es, os with
  | e :: es', (ret, _, post) :: os' =>
      match ostep ptmos o e ret pre post with
      | Some o' => owalk ptmos o' es' os' post
      | None => None
      end
  | _, _ => Some o
  end.

(* (K keys, n transactions, prepare timeout ms, participants (initial store, lock timeout ms), events, observations) *)
Definition c03_case := (N * N * N * list (list (N * N) * N) * list ev * list obs)%type.

Definition check_2pc (c : c03_case) : N :=
  let '(K, Tn, ctmo, parts0, es, os) := c in
  let g0 := ginit ctmo (map (fun st => part_init (fst st) (snd st)) parts0) in
  if negb (Nat.eqb (length es) (length os)) then 9
  else match owalk (map snd parts0) (OS [] [] [] [] [] [] [] [] 1000 [] [] []) es os (map (model_pdump K (gnow g0)) (ps g0)) with
       | None => V_VIOLATION
       | Some o =>
           (* the model mirrors the code, defect included: a known-class case must still correspond *)
           if negb (list_eqb obs_eqb (model_trace K Tn g0 es) os) then V_MISMATCH
           else match o_known o with [] => V_OK | k :: _ => V_KNOWN (fold_left N.min (o_known o) k) end
       end.
