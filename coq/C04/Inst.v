(* C04/Inst.v -- PER-RUN OBLIGATIONS over gen/Gen_C04.v (regenerated from relational_engine/src/
   {lib,simd}.rs on every run): the source still has the shapes the model and the theorems assume. *)
From NV.Common Require Import Base.
From NV.C04 Require Import Types Model.
From NV.gen Require Import Gen_C04.

(* the hash key of a float normalises the sign of zero (needed for: veq x v -> hash_key x = hash_key v) *)
Lemma gen_norm : gen_float_key_normalises_zero = true.
Proof. reflexivity. Qed.
(* index dispatch, re-check, offset/limit after re-check: the shape Model.select / select_with_limit mirror *)
Lemma gen_index_path :
  gen_index_dispatch_recognised = true /\ gen_recheck_present = true /\ gen_limit_after_recheck = true /\
  gen_insert_indexes_omitted_null = true.
Proof. repeat split; reflexivity. Qed.
(* vectorised path: NULL cells cleared (kept by Ne), alive mask applied, True not vectorised,
   float equality exact in the scalar tail: the shape Model.vfilter / kernel_bit mirror *)
Lemma gen_vector_path :
  gen_vector_null_masked = true /\ gen_vector_ne_keeps_null = true /\ gen_vector_alive_masked = true /\
  gen_vector_true_falls_back = true /\ gen_feq_tail_exact = true.
Proof. repeat split; reflexivity. Qed.

(* the ordered index key identifies -0.0 with +0.0 and all NaNs (Model.okey_cmp: compare f_key),
   and no index path returns anything but its re-checked result (Model.select / count /
   count_column go through filter (evaluate c) on the fetched candidates) *)
Lemma gen_ordered_key : gen_ordered_key_identifies_zeros = true.
Proof. reflexivity. Qed.
Lemma gen_no_shortcut : gen_index_path_returns_only_rechecked = true.
Proof. reflexivity. Qed.
