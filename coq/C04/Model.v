(* C04/Model.v -- executable model of the relational engine's query paths
   (relational_engine/src/lib.rs, simd.rs; tensor_store/src/relational_slab.rs).  Definitions only.

   What is mirrored:
   * Condition::evaluate / Row::get_with_id / Value == / Value::partial_cmp_value  (evaluate)
   * the slab table: slots (index i = row id i+1) with an alive flag; NULL is a cell value
     (the null bitmap; the raw placeholder under a NULL is masked by every reader)
   * hash index: Value::hash_key -> ids (key of a float = its bits, zero sign normalised iff
     `norm`, which the translator reads off hash_key); ordered index: BTreeMap<OrderedKey, ids>
     (variant order Null < Bool < Int < Float < String, NaNs equal and least, +-0 one key)
   * index maintenance in insert / update / delete / create_index / drop_index
   * try_index_lookup (Eq -> hash, Lt/Le/Gt/Ge -> ordered, And -> first side with an index),
     candidates -> get_rows_by_indices (alive only) -> re-check -> sort by id
   * select, select_with_limit, select_iter, count, min, max, select_columnar (vectorised
     kernels AND alive AND NOT null; Ne keeps NULLs; And/Or = intersect/union; True and every
     other shape fall back to select)
   Not modelled: word packing / SIMD lanes of the bitmaps, timeouts, result-size limits, the
   transaction manager (update/delete are applied atomically), Bytes/Json columns, sum/avg
   (float addition), string hashing (DefaultHasher is modelled as injective: collisions only add
   candidates, which the re-check removes). *)
From NV.Common Require Import Base.
From NV.C04 Require Import Types.
Open Scope N_scope.

(* ------------------------------------------------------------------ evaluate *)
Definition get_with_id (r : row) (col : N) : option value :=
  if col =? ID_COL then Some (VInt (Z.of_N (fst r))) else nth_error (snd r) (N.to_nat col).

Definition cmp_test (op : N) (o : option comparison) : bool :=
  match o with
  | None => false
  | Some c =>
      if op =? 2 then match c with Lt => true | _ => false end
      else if op =? 3 then match c with Gt => false | _ => true end
      else if op =? 4 then match c with Gt => true | _ => false end
      else match c with Lt => false | _ => true end
  end.

Definition eval_leaf (op : N) (x : option value) (v : value) : bool :=
  if op =? 0 then match x with Some y => veq y v | None => false end
  else if op =? 1 then negb (match x with Some y => veq y v | None => false end)
  else match x with Some y => cmp_test op (vcmp y v) | None => false end.

Fixpoint evaluate (c : cond) (r : row) : bool :=
  match c with
  | CTrue => true
  | CCmp op col v => eval_leaf op (get_with_id r col) v
  | CAnd a b => evaluate a r && evaluate b r
  | COr a b => evaluate a r || evaluate b r
  end.

(* ------------------------------------------------------------------ table *)
Record slot := Slot { alive : bool; cells : list value }.
Definition schema := list (N * bool).        (* (type code, nullable) *)

Fixpoint live_from (i : N) (t : list slot) : list row :=
  match t with
  | [] => []
  | s :: r => (if alive s then [(i + 1, cells s)] else []) ++ live_from (i + 1) r
  end.
(* slab.scan_all: the live rows in slot order = ascending id *)
Definition live (t : list slot) : list row := live_from 0 t.
(* the exact answer: rows satisfying the condition *)
Definition scan (t : list slot) (c : cond) : list row := filter (evaluate c) (live t).

(* slab.get_rows_by_indices on ids (1-based): alive rows only, in the order asked *)
Definition fetch1 (t : list slot) (id : N) : list row :=
  if id =? 0 then []
  else match nth_error t (N.to_nat (id - 1)) with
       | Some s => if alive s then [(id, cells s)] else []
       | None => []
       end.
Definition fetch (t : list slot) (ids : list N) : list row := flat_map (fetch1 t) ids.

(* rows.sort_by_key(|r| r.id): stable insertion sort *)
Fixpoint insert_row (r : row) (l : list row) : list row :=
  match l with
  | [] => [r]
  | x :: l' => if fst r <? fst x then r :: l else x :: insert_row r l'
  end.
Definition sort_rows (l : list row) : list row := fold_right insert_row [] l.

(* ------------------------------------------------------------------ indexes *)
(* Value::hash_key (strings: injective stand-in for the 64-bit hash) *)
Definition hash_key (norm : bool) (v : value) : value :=
  match v with
  | VFloat b => VFloat (if norm && f_is_zero b then 0 else b)
  | _ => v
  end.

(* OrderedKey's derived Ord + OrderedFloat::cmp *)
Definition orank (v : value) : N :=
  match v with VNull => 0 | VBool _ => 1 | VInt _ => 2 | VFloat _ => 3 | VStr _ => 4 end.
Definition okey_cmp (a b : value) : comparison :=
  match a, b with
  | VNull, VNull => Eq
  | VBool x, VBool y => match x, y with false, true => Lt | true, false => Gt | _, _ => Eq end
  | VInt x, VInt y => Z.compare x y
  | VFloat x, VFloat y =>
      match f_is_nan x, f_is_nan y with
      | true, true => Eq
      | true, false => Lt
      | false, true => Gt
      | false, false => Z.compare (f_key x) (f_key y)
      end
  | VStr x, VStr y => s_cmp x y
  | _, _ => N.compare (orank a) (orank b)
  end.

Definition entries := list (value * list N).   (* key -> row ids (insertion order) *)
Definition mem (id : N) (ids : list N) : bool := existsb (N.eqb id) ids.

(* index_add / btree_index_add: push the id unless present; keq = key equality of the map *)
Fixpoint ix_add (keq : value -> value -> bool) (ix : entries) (k : value) (id : N) : entries :=
  match ix with
  | [] => [(k, [id])]
  | (k', ids) :: r =>
      if keq k' k then (k', if mem id ids then ids else ids ++ [id]) :: r
      else (k', ids) :: ix_add keq r k id
  end.
(* index_remove: retain(!= id); drop the entry when empty *)
Fixpoint ix_remove (keq : value -> value -> bool) (ix : entries) (k : value) (id : N) : entries :=
  match ix with
  | [] => []
  | (k', ids) :: r =>
      if keq k' k then
        let ids' := filter (fun x => negb (x =? id)) ids in
        match ids' with [] => r | _ => (k', ids') :: r end
      else (k', ids) :: ix_remove keq r k id
  end.
Definition ix_get (keq : value -> value -> bool) (ix : entries) (k : value) : list N :=
  match find (fun e => keq (fst e) k) ix with Some e => snd e | None => [] end.

Definition hkeq : value -> value -> bool := value_eqb.
Definition okeq (a b : value) : bool := match okey_cmp a b with Eq => true | _ => false end.

Record state := St {
  sch : schema;
  tbl : list slot;
  hidx : list (N * entries);     (* hash indexes by column code (ID_COL allowed) *)
  bidx : list (N * entries)      (* ordered indexes by column code *)
}.
Definition init (s : schema) : state := St s [] [] [].

Definition cell_of (id : N) (cs : list value) (col : N) : value :=
  if col =? ID_COL then VInt (Z.of_N id) else nth (N.to_nat col) cs VNull.

Section Engine.
Variable norm : bool.     (* does hash_key normalise the sign of zero? *)

Definition hk := hash_key norm.

(* add / remove one row in every index *)
Definition add_all (keyf : value -> value) (keq : value -> value -> bool)
           (ixs : list (N * entries)) (id : N) (cs : list value) : list (N * entries) :=
  map (fun ce => (fst ce, ix_add keq (snd ce) (keyf (cell_of id cs (fst ce))) id)) ixs.
Definition remove_all (keyf : value -> value) (keq : value -> value -> bool)
           (ixs : list (N * entries)) (id : N) (cs : list value) : list (N * entries) :=
  map (fun ce => (fst ce, ix_remove keq (snd ce) (keyf (cell_of id cs (fst ce))) id)) ixs.

(* ---- DML ---- *)
Definition valid_row (s : schema) (vals : list value) : bool :=
  (length vals =? length s)%nat &&
  forallb (fun p => has_type (fst (fst p)) (snd p) &&
                    (snd (fst p) || negb (match snd p with VNull => true | _ => false end)))
          (combine s vals).

Definition insert (st : state) (vals : list value) : state * option N :=
  if valid_row (sch st) vals then
    let id := N.of_nat (length (tbl st)) + 1 in
    (St (sch st) (tbl st ++ [Slot true vals])
        (add_all hk hkeq (hidx st) id vals) (add_all (fun v => v) okeq (bidx st) id vals),
     Some id)
  else (st, None).

Definition valid_sets (s : schema) (sets : list (N * value)) : bool :=
  forallb (fun cv => match nth_error s (N.to_nat (fst cv)) with
                     | Some (ty, nullable) =>
                         has_type ty (snd cv) &&
                         (nullable || negb (match snd cv with VNull => true | _ => false end))
                     | None => false
                     end) sets.

Fixpoint set_nth {A} (l : list A) (n : nat) (x : A) : list A :=
  match l, n with
  | [], _ => []
  | _ :: t, O => x :: t
  | h :: t, S n' => h :: set_nth t n' x
  end.
Definition apply_sets (cs : list value) (sets : list (N * value)) : list value :=
  fold_left (fun acc cv => set_nth acc (N.to_nat (fst cv)) (snd cv)) sets cs.

(* the last assignment to a column wins (HashMap): the harness never repeats a column *)
Definition set_of (sets : list (N * value)) (col : N) : option value :=
  match find (fun cv => fst cv =? col) sets with Some cv => Some (snd cv) | None => None end.

(* tx_update's index maintenance for one row: for every indexed column that is assigned,
   remove under the old value and add under the new one *)
Definition upd_ix (keyf : value -> value) (keq : value -> value -> bool)
           (ixs : list (N * entries)) (id : N) (cs : list value) (sets : list (N * value)) : list (N * entries) :=
  map (fun ce => match set_of sets (fst ce) with
                 | Some nv => (fst ce, ix_add keq (ix_remove keq (snd ce) (keyf (cell_of id cs (fst ce))) id) (keyf nv) id)
                 | None => ce
                 end) ixs.

Fixpoint update_from (i : N) (t : list slot) (c : cond) (sets : list (N * value))
         (h b : list (N * entries)) : list slot * list (N * entries) * list (N * entries) * N :=
  match t with
  | [] => ([], h, b, 0)
  | s :: r =>
      let id := i + 1 in
      if alive s && evaluate c (id, cells s) then
        let h1 := upd_ix hk hkeq h id (cells s) sets in
        let b1 := upd_ix (fun v => v) okeq b id (cells s) sets in
        let '(r', h2, b2, n) := update_from id r c sets h1 b1 in
        (Slot true (apply_sets (cells s) sets) :: r', h2, b2, n + 1)
      else
        let '(r', h2, b2, n) := update_from id r c sets h b in
        (s :: r', h2, b2, n)
  end.
Definition update (st : state) (c : cond) (sets : list (N * value)) : state * option N :=
  if valid_sets (sch st) sets then
    let '(t', h', b', n) := update_from 0 (tbl st) c sets (hidx st) (bidx st) in
    (St (sch st) t' h' b', Some n)
  else (st, None).

Fixpoint delete_from (i : N) (t : list slot) (c : cond)
         (h b : list (N * entries)) : list slot * list (N * entries) * list (N * entries) * N :=
  match t with
  | [] => ([], h, b, 0)
  | s :: r =>
      let id := i + 1 in
      if alive s && evaluate c (id, cells s) then
        let h1 := remove_all hk hkeq h id (cells s) in
        let b1 := remove_all (fun v => v) okeq b id (cells s) in
        let '(r', h2, b2, n) := delete_from id r c h1 b1 in
        (Slot false (cells s) :: r', h2, b2, n + 1)
      else
        let '(r', h2, b2, n) := delete_from id r c h b in
        (s :: r', h2, b2, n)
  end.
Definition delete (st : state) (c : cond) : state * option N :=
  let '(t', h', b', n) := delete_from 0 (tbl st) c (hidx st) (bidx st) in
  (St (sch st) t' h' b', Some n).

(* ---- DDL ---- *)
Definition has_ix (ixs : list (N * entries)) (col : N) : bool := existsb (fun ce => fst ce =? col) ixs.
Definition col_ok (s : schema) (col : N) : bool := (col =? ID_COL) || (N.to_nat col <? length s)%nat.
Definition build_ix (keyf : value -> value) (keq : value -> value -> bool) (t : list slot) (col : N) : entries :=
  fold_left (fun ix r => ix_add keq ix (keyf (cell_of (fst r) (snd r) col)) (fst r)) (live t) [].
Definition drop_ix (ixs : list (N * entries)) (col : N) : list (N * entries) :=
  filter (fun ce => negb (fst ce =? col)) ixs.

(* kind: 0 create_index, 1 create_btree_index, 2 drop_index, 3 drop_btree_index *)
Definition ddl (st : state) (kind col : N) : state * bool :=
  if kind =? 0 then
    if col_ok (sch st) col && negb (has_ix (hidx st) col)
    then (St (sch st) (tbl st) (hidx st ++ [(col, build_ix hk hkeq (tbl st) col)]) (bidx st), true)
    else (st, false)
  else if kind =? 1 then
    if col_ok (sch st) col && negb (has_ix (bidx st) col)
    then (St (sch st) (tbl st) (hidx st) (bidx st ++ [(col, build_ix (fun v => v) okeq (tbl st) col)]), true)
    else (st, false)
  else if kind =? 2 then
    if has_ix (hidx st) col then (St (sch st) (tbl st) (drop_ix (hidx st) col) (bidx st), true) else (st, false)
  else
    if has_ix (bidx st) col then (St (sch st) (tbl st) (hidx st) (drop_ix (bidx st) col), true) else (st, false).

(* ---- query strategies ---- *)
Definition ix_find (ixs : list (N * entries)) (col : N) : option entries :=
  match find (fun ce => fst ce =? col) ixs with Some ce => Some (snd ce) | None => None end.

(* btree.range(..): every entry whose key is in the range *)
Definition range_ids (ix : entries) (op : N) (v : value) : list N :=
  flat_map (fun e =>
    let c := okey_cmp (fst e) v in
    let inr := if op =? 2 then match c with Lt => true | _ => false end
               else if op =? 3 then match c with Gt => false | _ => true end
               else if op =? 4 then match c with Gt => true | _ => false end
               else match c with Lt => false | _ => true end in
    if inr then snd e else []) ix.

Fixpoint try_index_lookup (st : state) (c : cond) : option (list N) :=
  match c with
  | CCmp op col v =>
      if op =? 0 then match ix_find (hidx st) col with Some ix => Some (ix_get hkeq ix (hk v)) | None => None end
      else if op =? 1 then None
      else match ix_find (bidx st) col with Some ix => Some (range_ids ix op v) | None => None end
  | CAnd a b => match try_index_lookup st a with Some x => Some x | None => try_index_lookup st b end
  | _ => None
  end.

Definition select (st : state) (c : cond) : list row :=
  match try_index_lookup st c with
  | Some ids => sort_rows (filter (evaluate c) (fetch (tbl st) ids))
  | None => scan (tbl st) c
  end.

Definition select_with_limit (st : state) (c : cond) (lim off : N) : list row :=
  firstn (N.to_nat lim) (skipn (N.to_nat off) (select st c)).

(* select_iter: lim = 0 encodes "no limit" *)
Definition select_iter (st : state) (c : cond) (lim off : N) : list row :=
  if lim =? 0 then skipn (N.to_nat off) (select st c) else select_with_limit st c lim off.

Definition count (st : state) (c : cond) : N :=
  match c with
  | CTrue => N.of_nat (length (live (tbl st)))
  | _ => N.of_nat (length (select st c))
  end.

(* count_column: matching rows whose column is not NULL (all three paths re-check / scan) *)
Definition non_null_at (col : N) (r : row) : bool :=
  match nth_error (snd r) (N.to_nat col) with Some VNull | None => false | Some _ => true end.
Definition count_column (st : state) (c : cond) (col : N) : N :=
  N.of_nat (length (filter (non_null_at col) (select st c))).

(* min / max over a column of the selected rows: first non-null, replaced when strictly better *)
Definition agg_best (want : comparison) (col : N) (rows : list row) : option value :=
  fold_left (fun best r =>
    match nth_error (snd r) (N.to_nat col) with
    | None | Some VNull => best
    | Some v =>
        match best with
        | None => Some v
        | Some cur => match vcmp v cur with
                      | Some o => if match o, want with Lt, Lt | Gt, Gt => true | _, _ => false end then Some v else best
                      | None => best
                      end
        end
    end) rows None.
Definition agg_min (st : state) (c : cond) (col : N) := agg_best Lt col (select st c).
Definition agg_max (st : state) (c : cond) (col : N) := agg_best Gt col (select st c).

(* vectorised path: one bit per slot; None = shape not supported (fall back to select) *)
Definition int_test (op : N) (x v : Z) : bool :=
  if op =? 0 then Z.eqb x v else if op =? 1 then negb (Z.eqb x v)
  else cmp_test op (Some (Z.compare x v)).
Definition kernel_bit (op : N) (v : value) (cell : value) : bool :=
  match cell with
  | VNull => op =? 1                           (* NULL cells: kept by Ne only *)
  | VInt x => match v with VInt y => int_test op x y | _ => false end
  | VFloat x => match v with
                | VFloat y => if op =? 0 then f_eq x y else cmp_test op (f_cmp x y)
                | _ => false
                end
  | _ => false
  end.
Fixpoint vfilter (s : schema) (t : list slot) (c : cond) : option (list bool) :=
  match c with
  | CTrue => None
  | CCmp op col v =>
      match nth_error s (N.to_nat col), v with
      | Some (0, _), VInt _ =>
          Some (map (fun sl => alive sl && kernel_bit op v (nth (N.to_nat col) (cells sl) VNull)) t)
      | Some (1, _), VFloat _ =>
          if (op =? 0) || (op =? 2) || (op =? 4)
          then Some (map (fun sl => alive sl && kernel_bit op v (nth (N.to_nat col) (cells sl) VNull)) t)
          else None
      | _, _ => None
      end
  | CAnd a b =>
      match vfilter s t a, vfilter s t b with
      | Some x, Some y => Some (map (fun p => fst p && snd p) (combine x y))
      | _, _ => None
      end
  | COr a b =>
      match vfilter s t a, vfilter s t b with
      | Some x, Some y => Some (map (fun p => fst p || snd p) (combine x y))
      | _, _ => None
      end
  end.

Fixpoint pick_from (i : N) (t : list slot) (bits : list bool) : list row :=
  match t, bits with
  | s :: r, b :: bs => (if b && alive s then [(i + 1, cells s)] else []) ++ pick_from (i + 1) r bs
  | _, _ => []
  end.

Fixpoint filter_cols (c : cond) : list N :=
  match c with
  | CTrue => []
  | CCmp _ col _ => [col]
  | CAnd a b | COr a b => filter_cols a ++ filter_cols b
  end.

Definition select_columnar (st : state) (c : cond) : list row :=
  let cols := filter_cols c in
  if negb (match cols with [] => true | _ => false end) &&
     forallb (fun col => (N.to_nat col <? length (sch st))%nat) cols
  then match vfilter (sch st) (tbl st) c with
       | Some bits => pick_from 0 (tbl st) bits
       | None => select st c
       end
  else select st c.

End Engine.
