(* C04/Proofs.v -- every execution strategy returns exactly `scan` = filter (evaluate c) (live rows).
   1. vectorised path (kernels AND alive AND NOT null; Ne keeps nulls) on a well-typed table
   2. candidate-then-recheck: any duplicate-free candidate list that covers the satisfying rows
   3. limit/offset, cursor, count, min/max as functions of `select`
   4. update / delete touch exactly the rows of `scan`
   5. the index invariant (exact content of every index) is preserved by DML and DDL and
      implies (2)'s premises for the candidates try_index_lookup produces. *)
From NV.Common Require Import Base.
From Coq Require Import Permutation Sorting.Sorted.
From NV.C04 Require Import Types Model.
Open Scope N_scope.

(* ------------------------------------------------------------------ live rows *)
Lemma live_from_app i t1 t2 :
  live_from i (t1 ++ t2) = live_from i t1 ++ live_from (i + N.of_nat (length t1)) t2.
Proof.
  revert i. induction t1 as [|s r IH]; intros i; cbn [live_from app length].
  - rewrite N.add_0_r. reflexivity.
  - rewrite IH, <- app_assoc. do 3 f_equal. lia.
Qed.

Lemma live_from_bounds i t r : In r (live_from i t) -> i < fst r /\ fst r <= i + N.of_nat (length t).
Proof.
  revert i. induction t as [|s t IH]; intros i H; cbn [live_from] in H; [contradiction|].
  apply in_app_or in H. destruct H as [H|H].
  - destruct (alive s); [|contradiction]. destruct H as [<-|[]]. cbn [fst length]. lia.
  - apply IH in H. cbn [length]. lia.
Qed.

Definition ids_sorted (l : list row) : Prop := StronglySorted N.lt (map fst l).

Lemma live_from_sorted i t : ids_sorted (live_from i t).
Proof.
  revert i. induction t as [|s t IH]; intros i; cbn [live_from]; [constructor|].
  destruct (alive s); cbn [app]; [|apply IH].
  unfold ids_sorted. cbn [map fst]. constructor; [apply IH|].
  apply Forall_forall. intros x Hx. apply in_map_iff in Hx. destruct Hx as (r & <- & Hr).
  apply live_from_bounds in Hr. lia.
Qed.

Lemma sorted_filter f l : ids_sorted l -> ids_sorted (filter f l).
Proof.
  unfold ids_sorted. induction l as [|x l IH]; cbn; intros H; [constructor|].
  inversion H as [|? ? Hs Hf]; subst. destruct (f x); cbn [map]; [|apply IH; exact Hs].
  constructor; [apply IH; exact Hs|].
  apply Forall_forall. intros y Hy. apply in_map_iff in Hy. destruct Hy as (r & <- & Hr).
  apply filter_In in Hr. destruct Hr as [Hr _].
  rewrite Forall_forall in Hf. apply Hf. apply in_map. exact Hr.
Qed.

Lemma scan_sorted t c : ids_sorted (scan t c).
Proof. apply sorted_filter, live_from_sorted. Qed.

(* fetch1 returns the live row with that id, if any *)
Lemma live_from_nth i t id cs :
  In (id, cs) (live_from i t) <->
  i < id /\ exists s, nth_error t (N.to_nat (id - i - 1)) = Some s /\ alive s = true /\ cells s = cs.
Proof.
  revert i. induction t as [|s t IH]; intros i; cbn [live_from].
  - split; [contradiction|]. intros (_ & s & H & _). destruct (N.to_nat (id - i - 1)); discriminate.
  - rewrite in_app_iff, IH. split.
    + intros [H|(Hlt & s' & Hn & Ha & Hc)].
      * destruct (alive s) eqn:Ea; [|contradiction]. destruct H as [H|[]]. injection H as <- <-.
        split; [lia|]. exists s. replace (i + 1 - i - 1) with 0 by lia. cbn. auto.
      * split; [lia|]. exists s'. replace (N.to_nat (id - i - 1)) with (S (N.to_nat (id - (i + 1) - 1))) by lia.
        cbn. auto.
    + intros (Hlt & s' & Hn & Ha & Hc).
      destruct (N.eq_dec id (i + 1)) as [->|Hne].
      * left. replace (i + 1 - i - 1) with 0 in Hn by lia. cbn in Hn. injection Hn as <-.
        rewrite Ha. left. rewrite Hc. reflexivity.
      * right. split; [lia|]. exists s'.
        replace (N.to_nat (id - i - 1)) with (S (N.to_nat (id - (i + 1) - 1))) in Hn by lia.
        cbn in Hn. auto.
Qed.

Lemma fetch1_spec t id r : In r (fetch1 t id) <-> (fst r = id /\ In r (live t)).
Proof.
  unfold fetch1, live. destruct r as [rid cs]. cbn [fst].
  destruct (N.eqb_spec id 0) as [->|Hne].
  - split; [contradiction|]. intros [-> H]. apply live_from_bounds in H. cbn in H. lia.
  - destruct (nth_error t (N.to_nat (id - 1))) as [s|] eqn:En.
    + destruct (alive s) eqn:Ea.
      * split.
        -- intros [H|[]]. injection H as <- <-. split; [reflexivity|].
           apply live_from_nth. split; [lia|]. exists s. replace (id - 0 - 1) with (id - 1) by lia. auto.
        -- intros [-> H]. apply live_from_nth in H. destruct H as (_ & s' & Hn & _ & Hc).
           replace (id - 0 - 1) with (id - 1) in Hn by lia. rewrite En in Hn. injection Hn as <-.
           left. rewrite Hc. reflexivity.
      * split; [contradiction|]. intros [-> H]. apply live_from_nth in H. destruct H as (_ & s' & Hn & Ha & _).
        replace (id - 0 - 1) with (id - 1) in Hn by lia. rewrite En in Hn. injection Hn as <-. congruence.
    + split; [contradiction|]. intros [-> H]. apply live_from_nth in H. destruct H as (_ & s' & Hn & _).
      replace (id - 0 - 1) with (id - 1) in Hn by lia. congruence.
Qed.

Lemma sorted_nodup_ids l : ids_sorted l -> NoDup (map fst l).
Proof.
  unfold ids_sorted. induction (map fst l) as [|x m IH]; intros H; [constructor|].
  inversion H as [|? ? Hs Hf]; subst. constructor; [|apply IH; exact Hs].
  intros Hin. rewrite Forall_forall in Hf. specialize (Hf _ Hin). lia.
Qed.

Lemma live_unique t r1 r2 : In r1 (live t) -> In r2 (live t) -> fst r1 = fst r2 -> r1 = r2.
Proof.
  unfold live. destruct r1 as [i1 c1], r2 as [i2 c2]. cbn [fst]. intros H1 H2 <-.
  apply live_from_nth in H1. apply live_from_nth in H2.
  destruct H1 as (_ & s1 & N1 & _ & <-), H2 as (_ & s2 & N2 & _ & <-). congruence.
Qed.

(* ------------------------------------------------------------------ sorting *)
Lemma insert_perm r l : Permutation (r :: l) (insert_row r l).
Proof.
  induction l as [|x l IH]; cbn; [reflexivity|].
  destruct (fst r <? fst x); [reflexivity|].
  rewrite perm_swap. constructor. exact IH.
Qed.
Lemma sort_perm l : Permutation l (sort_rows l).
Proof.
  induction l as [|x l IH]; cbn; [constructor|].
  rewrite <- insert_perm. constructor. exact IH.
Qed.

Definition le_sorted (l : list row) : Prop := StronglySorted N.le (map fst l).
Lemma insert_sorted r l : le_sorted l -> le_sorted (insert_row r l).
Proof.
  unfold le_sorted. induction l as [|x l IH]; cbn; intros H; [repeat constructor|].
  inversion H as [|? ? Hs Hf]; subst.
  destruct (fst r <? fst x) eqn:E.
  - apply N.ltb_lt in E. cbn [map]. constructor; [exact H|].
    constructor; [lia|]. rewrite Forall_forall in *. intros y Hy. specialize (Hf y Hy). lia.
  - apply N.ltb_ge in E. cbn [map]. constructor; [apply IH; exact Hs|].
    apply Forall_forall. intros y Hy. apply in_map_iff in Hy. destruct Hy as (z & <- & Hz).
    apply (Permutation_in _ (Permutation_sym (insert_perm r l))) in Hz. destruct Hz as [<-|Hz]; [exact E|].
    rewrite Forall_forall in Hf. apply Hf. apply in_map. exact Hz.
Qed.
Lemma sort_sorted l : le_sorted (sort_rows l).
Proof. induction l as [|x l IH]; cbn; [constructor|apply insert_sorted, IH]. Qed.

(* a <=-sorted list and a <-sorted list with the same elements are equal *)
Lemma sorted_perm_eq (l1 l2 : list row) :
  le_sorted l1 -> ids_sorted l2 -> Permutation l1 l2 ->
  (forall a b, In a l2 -> In b l2 -> fst a = fst b -> a = b) -> l1 = l2.
Proof.
  revert l2. induction l1 as [|x l1 IH]; intros l2 H1 H2 HP HU.
  - apply Permutation_nil in HP. subst. reflexivity.
  - destruct l2 as [|y l2]; [apply Permutation_sym, Permutation_nil in HP; discriminate|].
    unfold le_sorted, ids_sorted in *. cbn [map] in *.
    inversion H1 as [|? ? Hs1 Hf1]. inversion H2 as [|? ? Hs2 Hf2]. subst.
    assert (x = y).
    { assert (Hx : In x (y :: l2)) by (eapply Permutation_in; [exact HP|left; reflexivity]).
      assert (Hy : In y (x :: l1)) by (eapply Permutation_in; [exact (Permutation_sym HP)|left; reflexivity]).
      destruct Hx as [->|Hx]; [reflexivity|]. destruct Hy as [->|Hy]; [reflexivity|].
      rewrite Forall_forall in Hf1, Hf2.
      specialize (Hf1 (fst y) (in_map fst _ _ Hy)). specialize (Hf2 (fst x) (in_map fst _ _ Hx)). lia. }
    subst y. f_equal. apply IH; auto.
    + eapply Permutation_cons_inv. exact HP.
    + intros a b Ha Hb. apply HU; right; assumption.
Qed.

Lemma nodup_app {A} (l1 l2 : list A) :
  NoDup l1 -> NoDup l2 -> (forall x, In x l1 -> In x l2 -> False) -> NoDup (l1 ++ l2).
Proof.
  induction l1 as [|a l1 IH]; cbn; intros H1 H2 HD; [exact H2|].
  inversion H1; subst. constructor.
  - rewrite in_app_iff. intros [H|H]; [contradiction|]. apply (HD a); auto.
  - apply IH; auto. intros x Hx1 Hx2. apply (HD x); auto.
Qed.

Lemma nodup_app_inv {A} (l1 l2 : list A) :
  NoDup (l1 ++ l2) -> NoDup l1 /\ NoDup l2 /\ (forall x, In x l1 -> In x l2 -> False).
Proof.
  induction l1 as [|a l1 IH]; cbn; intros H.
  - split; [constructor|]. split; [exact H|]. intros x [].
  - inversion H as [|? ? Hni Hn]; subst. destruct (IH Hn) as (A1 & A2 & A3).
    split; [constructor; [intros Hc; apply Hni; apply in_or_app; left; exact Hc|exact A1]|].
    split; [exact A2|]. intros x [->|Hx] Hx2; [apply Hni; apply in_or_app; right; exact Hx2|eauto].
Qed.

(* ------------------------------------------------------------------ candidate-then-recheck is exact *)
Theorem recheck_exact t c (cands : list N) :
  NoDup cands ->
  (forall r, In r (live t) -> evaluate c r = true -> In (fst r) cands) ->
  sort_rows (filter (evaluate c) (fetch t cands)) = scan t c.
Proof.
  intros Hnd Hcov.
  assert (Hin : forall r, In r (filter (evaluate c) (fetch t cands)) <-> In r (scan t c)).
  { intros r. unfold scan, fetch. rewrite !filter_In, in_flat_map. split.
    - intros [(id & Hid & Hf) He]. apply fetch1_spec in Hf. tauto.
    - intros [Hl He]. split; [|exact He]. exists (fst r). split; [apply Hcov; assumption|].
      apply fetch1_spec. auto. }
  assert (Hnd2 : NoDup (filter (evaluate c) (fetch t cands))).
  { apply NoDup_filter. unfold fetch. clear Hcov Hin. induction cands as [|id cs IH]; cbn; [constructor|].
    inversion Hnd as [|? ? Hni Hnd']; subst.
    assert (HF1 : NoDup (fetch1 t id)).
    { unfold fetch1. destruct (id =? 0); [constructor|]. destruct (nth_error t _) as [s|]; [|constructor].
      destruct (alive s); [repeat constructor; auto|constructor]. }
    apply nodup_app; auto.
    intros r Hr1 Hr2. apply fetch1_spec in Hr1. apply in_flat_map in Hr2. destruct Hr2 as (id' & Hid' & Hr2).
    apply fetch1_spec in Hr2. destruct Hr1 as [E1 _], Hr2 as [E2 _]. congruence. }
  apply sorted_perm_eq.
  - apply sort_sorted.
  - apply scan_sorted.
  - rewrite <- sort_perm. apply NoDup_Permutation; auto.
    apply (NoDup_map_inv fst). apply sorted_nodup_ids, scan_sorted.
  - intros a b Ha Hb. unfold scan in *. apply filter_In in Ha, Hb. apply (live_unique t); tauto.
Qed.

(* ------------------------------------------------------------------ vectorised path *)
Definition wt_cells (s : schema) (cs : list value) : Prop :=
  length cs = length s /\
  forall i ty nl, nth_error s i = Some (ty, nl) -> has_type ty (nth i cs VNull) = true.
Definition wt_table (s : schema) (t : list slot) : Prop := Forall (fun sl => wt_cells s (cells sl)) t.

Fixpoint cols_lt (c : cond) (n : nat) : Prop :=
  match c with
  | CTrue => True
  | CCmp _ col _ => (N.to_nat col < n)%nat
  | CAnd a b | COr a b => cols_lt a n /\ cols_lt b n
  end.

Lemma evaluate_id_indep c n i j cs : (n <= 1000)%nat -> cols_lt c n -> evaluate c (i, cs) = evaluate c (j, cs).
Proof.
  intros Hn. induction c as [|op col v|a IHa b IHb|a IHa b IHb]; cbn [evaluate cols_lt]; intros H.
  - reflexivity.
  - unfold get_with_id. cbn [fst snd]. replace (col =? ID_COL) with false; [reflexivity|].
    symmetry. apply N.eqb_neq. unfold ID_COL. lia.
  - destruct H. rewrite IHa, IHb by assumption. reflexivity.
  - destruct H. rewrite IHa, IHb by assumption. reflexivity.
Qed.

Lemma kernel_bit_int op y cell :
  has_type 0 cell = true -> kernel_bit op (VInt y) cell = eval_leaf op (Some cell) (VInt y).
Proof.
  destruct cell; cbn; try discriminate; intros _; unfold eval_leaf, int_test.
  - destruct (op =? 0) eqn:E0; [apply N.eqb_eq in E0; subst; reflexivity|].
    destruct (op =? 1); reflexivity.
  - cbn. destruct (op =? 0); [reflexivity|]. destruct (op =? 1); reflexivity.
Qed.
Lemma kernel_bit_float op y cell :
  has_type 1 cell = true -> (op =? 0) || (op =? 2) || (op =? 4) = true ->
  kernel_bit op (VFloat y) cell = eval_leaf op (Some cell) (VFloat y).
Proof.
  destruct cell; cbn; try discriminate; intros _ Hop; unfold eval_leaf.
  - destruct (op =? 0) eqn:E0; [apply N.eqb_eq in E0; subst; reflexivity|].
    destruct (op =? 1); reflexivity.
  - cbn. destruct (op =? 0) eqn:E0; [reflexivity|].
    destruct (op =? 1) eqn:E1; [|reflexivity].
    apply N.eqb_eq in E1. subst. cbn in Hop. discriminate.
Qed.

Lemma combine_map2 {A} (f g : A -> bool) (h : bool * bool -> bool) l :
  map h (combine (map f l) (map g l)) = map (fun x => h (f x, g x)) l.
Proof. induction l; cbn; [reflexivity|]. rewrite IHl. reflexivity. Qed.

Lemma vfilter_spec s t c bits :
  (length s <= 1000)%nat -> wt_table s t -> vfilter s t c = Some bits ->
  cols_lt c (length s) /\ bits = map (fun sl => alive sl && evaluate c (0, cells sl)) t.
Proof.
  intros Hn Hwt. revert bits.
  induction c as [|op col v|a IHa b IHb|a IHa b IHb]; intros bits H; cbn [vfilter] in H.
  - discriminate.
  - destruct (nth_error s (N.to_nat col)) as [[ty nl]|] eqn:Es; [|discriminate].
    assert (Hlt : (N.to_nat col < length s)%nat) by (apply nth_error_Some; congruence).
    assert (Hget : forall sl, In sl t ->
              get_with_id (0, cells sl) col = Some (nth (N.to_nat col) (cells sl) VNull) /\
              has_type ty (nth (N.to_nat col) (cells sl) VNull) = true).
    { intros sl Hin. unfold wt_table in Hwt. rewrite Forall_forall in Hwt. destruct (Hwt _ Hin) as [Hl Ht].
      split; [|eapply Ht; exact Es].
      unfold get_with_id. cbn [fst snd]. replace (col =? ID_COL) with false by (symmetry; apply N.eqb_neq; unfold ID_COL; lia).
      apply nth_error_nth'. lia. }
    destruct ty as [|p]; [|destruct p as [p|p|]; try discriminate; try (destruct p; discriminate)].
    + (* Int column *)
      destruct v; try discriminate. injection H as <-. split; [exact Hlt|].
      apply map_ext_in. intros sl Hin. destruct (Hget _ Hin) as [G T].
      cbn [evaluate]. rewrite G, kernel_bit_int by exact T. reflexivity.
    + (* Float column *)
      destruct v; try discriminate.
      destruct ((op =? 0) || (op =? 2) || (op =? 4)) eqn:Hop; [|discriminate].
      injection H as <-. split; [exact Hlt|].
      apply map_ext_in. intros sl Hin. destruct (Hget _ Hin) as [G T].
      cbn [evaluate]. rewrite G, kernel_bit_float by assumption. reflexivity.
  - destruct (vfilter s t a) as [x|]; [|discriminate]. destruct (vfilter s t b) as [y|]; [|discriminate].
    injection H as <-. destruct (IHa _ eq_refl) as [Ca ->], (IHb _ eq_refl) as [Cb ->].
    split; [split; assumption|]. rewrite combine_map2. apply map_ext. intros sl. cbn [evaluate fst snd].
    destruct (alive sl); cbn; [reflexivity|reflexivity].
  - destruct (vfilter s t a) as [x|]; [|discriminate]. destruct (vfilter s t b) as [y|]; [|discriminate].
    injection H as <-. destruct (IHa _ eq_refl) as [Ca ->], (IHb _ eq_refl) as [Cb ->].
    split; [split; assumption|]. rewrite combine_map2. apply map_ext. intros sl. cbn [evaluate fst snd].
    destruct (alive sl); cbn; [reflexivity|reflexivity].
Qed.

Lemma pick_from_map i t (g : list value -> bool) :
  pick_from i t (map (fun sl => alive sl && g (cells sl)) t) = filter (fun r => g (snd r)) (live_from i t).
Proof.
  revert i. induction t as [|s t IH]; intros i; cbn [pick_from map live_from]; [reflexivity|].
  rewrite filter_app, IH. f_equal.
  destruct (alive s); cbn; [|reflexivity]. destruct (g (cells s)); reflexivity.
Qed.

Theorem vectorised_exact s t c bits :
  (length s <= 1000)%nat -> wt_table s t -> vfilter s t c = Some bits ->
  pick_from 0 t bits = scan t c.
Proof.
  intros Hn Hwt H. destruct (vfilter_spec s t c bits Hn Hwt H) as [Hc ->].
  rewrite (pick_from_map 0 t (fun cs => evaluate c (0, cs))). unfold scan, live.
  apply filter_ext. intros [i cs]. cbn [snd]. apply (evaluate_id_indep c (length s)); assumption.
Qed.

(* ------------------------------------------------------------------ index entries, generically *)
Section Entries.
Variable keq : value -> value -> bool.
Hypothesis keq_refl : forall a, keq a a = true.
Hypothesis keq_sym : forall a b, keq a b = keq b a.
Hypothesis keq_trans : forall a b c, keq a b = true -> keq b c = true -> keq a c = true.

(* id is filed under an entry whose key is equivalent to k *)
Definition holds (ix : entries) (k : value) (id : N) : Prop :=
  exists k' ids, In (k', ids) ix /\ keq k' k = true /\ In id ids.
(* keys pairwise inequivalent *)
Fixpoint distinct (ix : entries) : Prop :=
  match ix with
  | [] => True
  | (k, _) :: r => (forall k' ids, In (k', ids) r -> keq k k' = false) /\ distinct r
  end.
Definition all_ids (ix : entries) : list N := concat (map snd ix).

Lemma all_ids_in ix id : In id (all_ids ix) <-> exists k, holds ix k id.
Proof.
  unfold all_ids. rewrite in_concat. split.
  - intros (l & Hl & Hid). apply in_map_iff in Hl. destruct Hl as ([k ids] & <- & He).
    exists k, k, ids. auto.
  - intros (k & k' & ids & He & _ & Hid). exists ids. split; [|exact Hid].
    apply in_map_iff. exists (k', ids). auto.
Qed.

Lemma mem_spec id ids : mem id ids = true <-> In id ids.
Proof.
  unfold mem. rewrite existsb_exists. split.
  - intros (x & Hx & E). apply N.eqb_eq in E. subst. exact Hx.
  - intros H. exists id. split; [exact H|apply N.eqb_refl].
Qed.

Lemma ix_add_keys ix k id k' ids' :
  In (k', ids') (ix_add keq ix k id) -> (exists ids0, In (k', ids0) ix) \/ (k' = k /\ forall k0 ids0, In (k0, ids0) ix -> keq k0 k = false).
Proof.
  induction ix as [|[k0 ids0] r IH]; cbn [ix_add].
  - intros [H|[]]. injection H as <- <-. right. split; [reflexivity|]. intros ? ? [].
  - destruct (keq k0 k) eqn:E.
    + intros [H|H]; [injection H as <- <-; left; exists ids0; left; reflexivity|].
      left. exists ids'. right. exact H.
    + intros [H|H]; [injection H as <- <-; left; exists ids0; left; reflexivity|].
      destruct (IH H) as [(i0 & Hi)|[-> Hn]]; [left; exists i0; right; exact Hi|].
      right. split; [reflexivity|]. intros k1 i1 [H1|H1]; [injection H1 as <- <-; exact E|eapply Hn; exact H1].
Qed.

Lemma ix_add_distinct ix k id : distinct ix -> distinct (ix_add keq ix k id).
Proof.
  induction ix as [|[k0 ids0] r IH]; cbn [ix_add distinct].
  - intros _. split; [intros ? ? []|exact I].
  - intros [Hk Hd]. destruct (keq k0 k) eqn:E; cbn [distinct].
    + split; assumption.
    + split; [|apply IH; exact Hd].
      intros k' ids' H. destruct (ix_add_keys _ _ _ _ _ H) as [(i0 & Hi)|[-> _]]; [eapply Hk; exact Hi|exact E].
Qed.

Lemma ix_add_holds ix k id k2 id2 :
  distinct ix ->
  (holds (ix_add keq ix k id) k2 id2 <-> holds ix k2 id2 \/ (keq k k2 = true /\ id2 = id)).
Proof.
  induction ix as [|[k0 ids0] r IH]; cbn [ix_add distinct].
  - intros _. unfold holds. split.
    + intros (k' & ids & [H|[]] & Hk & Hid). injection H as <- <-. destruct Hid as [<-|[]]. right. auto.
    + intros [(k' & ids & [] & _)|[Hk ->]]. exists k, [id]. cbn. auto.
  - intros [Hk Hd]. destruct (keq k0 k) eqn:E.
    + unfold holds. split.
      * intros (k' & ids & [H|H] & Hk2 & Hid).
        -- injection H as <- <-. destruct (mem id ids0) eqn:Em.
           ++ left. exists k0, ids0. cbn. auto.
           ++ apply in_app_or in Hid. destruct Hid as [Hid|[<-|[]]].
              ** left. exists k0, ids0. cbn. auto.
              ** right. split; [|reflexivity]. apply (keq_trans k k0 k2); [rewrite keq_sym; exact E|exact Hk2].
        -- left. exists k', ids. cbn. auto.
      * intros [(k' & ids & [H|H] & Hk2 & Hid)|[Hk2 ->]].
        -- injection H as <- <-. exists k0, (if mem id ids0 then ids0 else ids0 ++ [id]). split; [left; reflexivity|].
           split; [exact Hk2|]. destruct (mem id ids0); [exact Hid|apply in_or_app; left; exact Hid].
        -- exists k', ids. split; [right; exact H|auto].
        -- exists k0, (if mem id ids0 then ids0 else ids0 ++ [id]). split; [left; reflexivity|].
           split; [apply (keq_trans k0 k k2); assumption|].
           destruct (mem id ids0) eqn:Em; [apply mem_spec; exact Em|apply in_or_app; right; left; reflexivity].
    + specialize (IH Hd). unfold holds in *. split.
      * intros (k' & ids & [H|H] & Hk2 & Hid).
        -- injection H as <- <-. left. exists k0, ids0. cbn. auto.
        -- destruct (proj1 IH) as [(k3 & i3 & H3 & K3 & I3)|R]; [exists k', ids; auto| |right; exact R].
           left. exists k3, i3. cbn. auto.
      * intros [(k' & ids & [H|H] & Hk2 & Hid)|R].
        -- injection H as <- <-. exists k0, ids0. cbn. auto.
        -- destruct (proj2 IH) as (k3 & i3 & H3 & K3 & I3); [left; exists k', ids; auto|].
           exists k3, i3. cbn. auto.
        -- destruct (proj2 IH) as (k3 & i3 & H3 & K3 & I3); [right; exact R|].
           exists k3, i3. cbn. auto.
Qed.

Lemma ix_add_nodup ix k id :
  NoDup (all_ids ix) -> ~ In id (all_ids ix) -> NoDup (all_ids (ix_add keq ix k id)).
Proof.
  unfold all_ids. induction ix as [|[k0 ids0] r IH]; cbn [ix_add map concat snd]; intros Hn Hni.
  - cbn. repeat constructor. intros [].
  - rewrite in_app_iff in Hni.
    destruct (nodup_app_inv _ _ Hn) as (Hn0 & Hnr & Hdis).
    destruct (keq k0 k); cbn [map concat snd].
    + destruct (mem id ids0) eqn:Em; [exact Hn|].
      apply nodup_app; auto.
      * apply nodup_app; auto; [repeat constructor; intros []|]. intros x H1 [<-|[]]. tauto.
      * intros x H1 H2. apply in_app_or in H1. destruct H1 as [H1|[<-|[]]]; [eauto|tauto].
    + apply nodup_app; auto.
      intros x H1 H2.
      assert (In x (concat (map snd r)) \/ x = id).
      { clear - H2. induction r as [|[k1 i1] r IHr]; cbn [ix_add map concat snd] in *.
        - cbn in H2. destruct H2 as [<-|[]]. right; reflexivity.
        - destruct (keq k1 k); cbn [map concat snd] in H2.
          + apply in_app_or in H2. destruct H2 as [H2|H2]; [|left; apply in_or_app; right; exact H2].
            destruct (mem id i1); [left; apply in_or_app; left; exact H2|].
            apply in_app_or in H2. destruct H2 as [H2|[<-|[]]]; [left; apply in_or_app; left; exact H2|right; reflexivity].
          + apply in_app_or in H2. destruct H2 as [H2|H2]; [left; apply in_or_app; left; exact H2|].
            destruct (IHr H2) as [H3| ->]; [left; apply in_or_app; right; exact H3|right; reflexivity]. }
      destruct H as [H| ->]; [eauto|tauto].
Qed.

Lemma ix_remove_sub ix k id x : In x (all_ids (ix_remove keq ix k id)) -> In x (all_ids ix).
Proof.
  unfold all_ids. induction ix as [|[k0 ids0] r IH]; cbn [ix_remove map concat snd]; [auto|].
  destruct (keq k0 k).
  - destruct (filter (fun y => negb (y =? id)) ids0) as [|a l] eqn:Ef.
    + intros H. apply in_or_app. right. exact H.
    + cbn [map concat snd]. rewrite <- Ef. intros H. apply in_app_or in H. apply in_or_app.
      destruct H as [H|H]; [left; apply filter_In in H; tauto|right; exact H].
  - cbn [map concat snd]. intros H. apply in_app_or in H. apply in_or_app. destruct H; [left|right]; auto.
Qed.

Lemma ix_remove_nodup ix k id : NoDup (all_ids ix) -> NoDup (all_ids (ix_remove keq ix k id)).
Proof.
  unfold all_ids. induction ix as [|[k0 ids0] r IH]; cbn [ix_remove map concat snd]; intros Hn; [constructor|].
  destruct (nodup_app_inv _ _ Hn) as (Hn0 & Hnr & Hdis).
  destruct (keq k0 k).
  - destruct (filter (fun y => negb (y =? id)) ids0) as [|a l] eqn:Ef; [exact Hnr|].
    cbn [map concat snd]. rewrite <- Ef. apply nodup_app; auto; [apply NoDup_filter; exact Hn0|].
    intros x H1 H2. apply filter_In in H1. destruct H1. eauto.
  - cbn [map concat snd]. apply nodup_app; auto.
    intros x H1 H2. apply (ix_remove_sub r k id) in H2. eauto.
Qed.

Lemma ix_remove_distinct ix k id : distinct ix -> distinct (ix_remove keq ix k id).
Proof.
  induction ix as [|[k0 ids0] r IH]; cbn [ix_remove distinct]; [auto|].
  intros [Hk Hd]. destruct (keq k0 k).
  - destruct (filter _ ids0); [exact Hd|]. cbn [distinct]. split; assumption.
  - cbn [distinct]. split; [|apply IH; exact Hd].
    intros k' ids' H. clear IH.
    assert (exists i0, In (k', i0) r).
    { clear - H. induction r as [|[k1 i1] r IHr]; cbn [ix_remove] in H; [contradiction|].
      destruct (keq k1 k).
      - destruct (filter _ i1).
        + exists ids'. right. exact H.
        + destruct H as [H|H]; [injection H as <- <-; exists i1; left; reflexivity|exists ids'; right; exact H].
      - destruct H as [H|H]; [injection H as <- <-; exists i1; left; reflexivity|].
        destruct (IHr H) as (i0 & Hi). exists i0. right. exact Hi. }
    destruct H0 as (i0 & Hi). eapply Hk. exact Hi.
Qed.

Lemma ix_remove_holds ix k id k2 id2 :
  distinct ix ->
  (holds (ix_remove keq ix k id) k2 id2 <-> holds ix k2 id2 /\ ~ (keq k k2 = true /\ id2 = id)).
Proof.
  induction ix as [|[k0 ids0] r IH]; cbn [ix_remove distinct].
  - intros _. unfold holds. split; [intros (? & ? & [] & _)|intros [(? & ? & [] & _) _]].
  - intros [Hk Hd]. destruct (keq k0 k) eqn:E.
    + assert (Hother : forall k' ids, In (k', ids) r -> keq k' k2 = true -> keq k k2 = false).
      { intros k' ids Hin Hk2. destruct (keq k k2) eqn:E2; [|reflexivity].
        assert (keq k0 k' = true).
        { apply (keq_trans k0 k2 k'); [apply (keq_trans k0 k k2); assumption|rewrite keq_sym; exact Hk2]. }
        rewrite (Hk _ _ Hin) in H. discriminate. }
      unfold holds. split.
      * intros (k' & ids & Hin & Hk2 & Hid).
        destruct (filter (fun y => negb (y =? id)) ids0) as [|a l] eqn:Ef.
        -- split; [exists k', ids; cbn; auto|]. intros [Hc _]. rewrite (Hother _ _ Hin Hk2) in Hc. discriminate.
        -- destruct Hin as [Hin|Hin].
           ++ injection Hin as <- <-. rewrite <- Ef in Hid. apply filter_In in Hid. destruct Hid as [Hid Hne].
              split; [exists k0, ids0; cbn; auto|]. intros [_ ->]. rewrite N.eqb_refl in Hne. discriminate.
           ++ split; [exists k', ids; cbn; auto|]. intros [Hc _]. rewrite (Hother _ _ Hin Hk2) in Hc. discriminate.
      * intros [(k' & ids & [Hin|Hin] & Hk2 & Hid) Hneg].
        -- injection Hin as <- <-.
           assert (Hne : id2 <> id).
           { intros ->. apply Hneg. split; [|reflexivity]. apply (keq_trans k k0 k2); [rewrite keq_sym; exact E|exact Hk2]. }
           assert (Hf : In id2 (filter (fun y => negb (y =? id)) ids0)).
           { apply filter_In. split; [exact Hid|]. apply negb_true_iff, N.eqb_neq. exact Hne. }
           destruct (filter (fun y => negb (y =? id)) ids0) as [|a l] eqn:Ef; [contradiction|].
           exists k0, (a :: l). cbn. auto.
        -- destruct (filter (fun y => negb (y =? id)) ids0); exists k', ids; cbn; auto.
    + specialize (IH Hd). unfold holds in *. split.
      * intros (k' & ids & [Hin|Hin] & Hk2 & Hid).
        -- injection Hin as <- <-. split; [exists k0, ids0; cbn; auto|].
           intros [Hc _]. assert (keq k0 k = true); [|congruence].
           apply (keq_trans k0 k2 k); [exact Hk2|rewrite keq_sym; exact Hc].
        -- destruct (proj1 IH) as [(k3 & i3 & H3 & K3 & I3) Hneg]; [exists k', ids; auto|].
           split; [exists k3, i3; cbn; auto|exact Hneg].
      * intros [(k' & ids & [Hin|Hin] & Hk2 & Hid) Hneg].
        -- injection Hin as <- <-. exists k0, ids0. cbn. auto.
        -- destruct (proj2 IH) as (k3 & i3 & H3 & K3 & I3); [split; [exists k', ids; auto|exact Hneg]|].
           exists k3, i3. cbn. auto.
Qed.

Lemma ix_get_spec ix k id : distinct ix -> (In id (ix_get keq ix k) <-> holds ix k id).
Proof.
  unfold ix_get, holds. induction ix as [|[k0 ids0] r IH]; cbn [find distinct fst snd].
  - intros _. split; [intros []|intros (? & ? & [] & _)].
  - intros [Hk Hd]. destruct (keq k0 k) eqn:E; cbn [snd].
    + split.
      * intros H. exists k0, ids0. cbn. auto.
      * intros (k' & ids & [Hin|Hin] & Hk2 & Hid); [injection Hin as <- <-; exact Hid|].
        assert (keq k0 k' = true) by (apply (keq_trans k0 k k'); [exact E|rewrite keq_sym; exact Hk2]).
        rewrite (Hk _ _ Hin) in H. discriminate.
    + rewrite (IH Hd). split.
      * intros (k' & ids & Hin & R). exists k', ids. cbn. auto.
      * intros (k' & ids & [Hin|Hin] & Hk2 & Hid); [injection Hin as <- <-; congruence|].
        exists k', ids. auto.
Qed.

Lemma ix_get_nodup ix k : NoDup (all_ids ix) -> NoDup (ix_get keq ix k).
Proof.
  unfold ix_get, all_ids. induction ix as [|[k0 ids0] r IH]; cbn [find map concat fst snd]; intros Hn; [constructor|].
  destruct (nodup_app_inv _ _ Hn) as (Hn0 & Hnr & _).
  destruct (keq k0 k); cbn [snd]; [exact Hn0|]. apply IH. exact Hnr.
Qed.

End Entries.

(* ------------------------------------------------------------------ the two key equivalences *)
Lemma list_eqb_N_eq (a b : list N) : list_eqb N.eqb a b = true <-> a = b.
Proof. apply list_eqb_spec. intros; apply N.eqb_eq. Qed.

Lemma value_eqb_eq a b : value_eqb a b = true <-> a = b.
Proof.
  destruct a, b; cbn; split; intros H; try discriminate; try reflexivity.
  - apply Z.eqb_eq in H. congruence.
  - injection H as ->. apply Z.eqb_refl.
  - apply N.eqb_eq in H. congruence.
  - injection H as ->. apply N.eqb_refl.
  - apply list_eqb_N_eq in H. congruence.
  - injection H as ->. apply list_eqb_N_eq. reflexivity.
  - apply eqb_prop in H. congruence.
  - injection H as ->. apply eqb_reflx.
Qed.
Lemma hkeq_refl a : hkeq a a = true.
Proof. apply value_eqb_eq. reflexivity. Qed.
Lemma hkeq_sym a b : hkeq a b = hkeq b a.
Proof.
  unfold hkeq. destruct (value_eqb a b) eqn:E.
  - apply value_eqb_eq in E. subst. symmetry. apply hkeq_refl.
  - destruct (value_eqb b a) eqn:E2; [|reflexivity]. apply value_eqb_eq in E2. subst.
    rewrite hkeq_refl in E. discriminate.
Qed.
Lemma hkeq_trans a b c : hkeq a b = true -> hkeq b c = true -> hkeq a c = true.
Proof. unfold hkeq. rewrite !value_eqb_eq. congruence. Qed.

Lemma s_cmp_eq a b : s_cmp a b = Eq <-> a = b.
Proof.
  revert b. induction a as [|x a IH]; destruct b as [|y b]; cbn; split; intros H; try discriminate; try reflexivity.
  - destruct (N.compare_spec x y); try discriminate. subst. f_equal. apply IH. exact H.
  - injection H as -> ->. rewrite N.compare_refl. apply IH. reflexivity.
Qed.

Lemma okey_cmp_eq_cases a b :
  okey_cmp a b = Eq ->
  match a, b with
  | VNull, VNull => True
  | VBool x, VBool y => x = y
  | VInt x, VInt y => x = y
  | VStr x, VStr y => x = y
  | VFloat x, VFloat y => (f_is_nan x = true /\ f_is_nan y = true) \/
                          (f_is_nan x = false /\ f_is_nan y = false /\ f_key x = f_key y)
  | _, _ => False
  end.
Proof.
  destruct a, b; cbn; try discriminate; auto.
  - intros H. apply Z.compare_eq in H. exact H.
  - destruct (f_is_nan bits), (f_is_nan bits0); try discriminate; auto.
    intros H. apply Z.compare_eq in H. auto.
  - intros H. apply s_cmp_eq in H. exact H.
  - destruct b, b0; try discriminate; auto.
Qed.

(* okey_cmp a . and okey_cmp b . coincide when a and b are equivalent keys *)
Lemma okey_cmp_congr a b v : okey_cmp a b = Eq -> okey_cmp a v = okey_cmp b v.
Proof.
  intros H. apply okey_cmp_eq_cases in H.
  destruct a, b; try contradiction; subst; try reflexivity.
  destruct H as [[Ha Hb]|(Ha & Hb & Hk)]; destruct v; cbn; try reflexivity; rewrite Ha, Hb; try reflexivity.
  rewrite Hk. reflexivity.
Qed.
Lemma okey_cmp_congr_r a b v : okey_cmp a b = Eq -> okey_cmp v a = okey_cmp v b.
Proof.
  intros H. apply okey_cmp_eq_cases in H.
  destruct a, b; try contradiction; subst; try reflexivity.
  destruct H as [[Ha Hb]|(Ha & Hb & Hk)]; destruct v; cbn; try reflexivity; rewrite Ha, Hb; try reflexivity.
  rewrite Hk. reflexivity.
Qed.
Lemma okeq_refl a : okeq a a = true.
Proof.
  unfold okeq. destruct a; cbn; try reflexivity.
  - rewrite Z.compare_refl. reflexivity.
  - destruct (f_is_nan bits); [reflexivity|]. rewrite Z.compare_refl. reflexivity.
  - replace (s_cmp s s) with Eq by (symmetry; apply s_cmp_eq; reflexivity). reflexivity.
  - destruct b; reflexivity.
Qed.
Lemma okeq_true a b : okeq a b = true <-> okey_cmp a b = Eq.
Proof. unfold okeq. destruct (okey_cmp a b); split; intros; try discriminate; reflexivity. Qed.
Lemma okeq_trans a b c : okeq a b = true -> okeq b c = true -> okeq a c = true.
Proof.
  rewrite !okeq_true. intros H1 H2. rewrite (okey_cmp_congr _ _ _ H1). exact H2.
Qed.
Lemma okeq_sym a b : okeq a b = okeq b a.
Proof.
  assert (forall x y, okeq x y = true -> okeq y x = true).
  { intros x y H. apply okeq_true in H. apply okeq_true.
    rewrite (okey_cmp_congr_r x y y H). apply okeq_true, okeq_refl. }
  destruct (okeq a b) eqn:E; [symmetry; apply H; exact E|].
  destruct (okeq b a) eqn:E2; [|reflexivity]. apply H in E2. congruence.
Qed.

(* comparable values: the ordered key order is partial_cmp_value *)
Lemma okey_vcmp x v o : vcmp x v = Some o -> okey_cmp x v = o.
Proof.
  destruct x, v; cbn; try discriminate.
  - intros [= <-]. reflexivity.
  - unfold f_cmp. destruct (f_is_nan bits), (f_is_nan bits0); cbn; try discriminate. intros [= <-]. reflexivity.
  - intros [= <-]. reflexivity.
Qed.

(* valid float bit patterns are below 2^64 *)
Definition valid_value (v : value) : Prop := match v with VFloat b => b < 2 ^ 64 | _ => True end.

Ltac Zify.zify_post_hook ::= Z.div_mod_to_equations.
Lemma f_key_inj x y :
  x < 2 ^ 64 -> y < 2 ^ 64 -> f_key x = f_key y -> x = y \/ (f_is_zero x = true /\ f_is_zero y = true).
Proof.
  unfold f_key, f_is_zero. intros Hx Hy.
  change (2 ^ 63) with 9223372036854775808 in *. change (2 ^ 64) with 18446744073709551616 in *.
  destruct (N.ltb_spec x 9223372036854775808) as [Lx|Lx], (N.ltb_spec y 9223372036854775808) as [Ly|Ly]; intros HK.
  - left. lia.
  - right. split; apply N.eqb_eq; lia.
  - right. split; apply N.eqb_eq; lia.
  - left. lia.
Qed.

(* the key function of the hash index respects == (this is where zero normalisation is needed) *)
Lemma hash_key_respects_veq x v :
  valid_value x -> valid_value v -> veq x v = true -> hash_key true x = hash_key true v.
Proof.
  destruct x, v; cbn; intros Hx Hv H; try discriminate; try reflexivity.
  - apply Z.eqb_eq in H. congruence.
  - unfold f_eq, f_cmp in H. destruct (f_is_nan bits || f_is_nan bits0); [discriminate|].
    destruct (Z.compare_spec (f_key bits) (f_key bits0)); try discriminate.
    destruct (f_key_inj _ _ Hx Hv H0) as [->|[A B]]; [reflexivity|]. rewrite A, B. reflexivity.
  - apply list_eqb_N_eq in H. congruence.
  - apply eqb_prop in H. congruence.
Qed.
(* ... and without it the lemma is false (F-C04-negzero) *)
Lemma hash_key_raw_bits_refuted :
  exists x v, valid_value x /\ valid_value v /\ veq x v = true /\ hash_key false x <> hash_key false v.
Proof.
  exists (VFloat 9223372036854775808), (VFloat 0). repeat split; try (vm_compute; congruence); discriminate.
Qed.

(* ------------------------------------------------------------------ index invariant and the index path *)
(* exact content of one index: the ids filed under (an entry equivalent to) k are precisely the live
   rows whose key is equivalent to k; keys pairwise inequivalent; no id filed twice *)
Definition ix_inv (keq : value -> value -> bool) (keyf : value -> value)
           (t : list slot) (col : N) (ix : entries) : Prop :=
  distinct keq ix /\ NoDup (all_ids ix) /\
  forall k id, holds keq ix k id <->
               exists cs, In (id, cs) (live t) /\ keq (keyf (cell_of id cs col)) k = true.

Definition st_inv (norm : bool) (st : state) : Prop :=
  Forall (fun ce => ix_inv hkeq (hash_key norm) (tbl st) (fst ce) (snd ce)) (hidx st) /\
  Forall (fun ce => ix_inv okeq (fun v => v) (tbl st) (fst ce) (snd ce)) (bidx st).

Definition valid_tbl (t : list slot) : Prop := Forall (fun sl => Forall valid_value (cells sl)) t.
Fixpoint valid_cond (c : cond) : Prop :=
  match c with
  | CTrue => True
  | CCmp _ _ v => valid_value v
  | CAnd a b | COr a b => valid_cond a /\ valid_cond b
  end.

Lemma ix_find_in ixs col ix : ix_find ixs col = Some ix -> In (col, ix) ixs.
Proof.
  unfold ix_find. destruct (find (fun ce => fst ce =? col) ixs) as [[c i]|] eqn:E; [|discriminate].
  intros [= <-]. apply find_some in E. destruct E as [Hin Hc]. cbn in Hc. apply N.eqb_eq in Hc. subst. exact Hin.
Qed.

Lemma live_valid t id cs : valid_tbl t -> In (id, cs) (live t) -> Forall valid_value cs.
Proof.
  intros Hv H. apply live_from_nth in H. destruct H as (_ & s & Hn & _ & <-).
  unfold valid_tbl in Hv. rewrite Forall_forall in Hv. apply Hv. eapply nth_error_In. exact Hn.
Qed.

Lemma get_cell id cs col y :
  get_with_id (id, cs) col = Some y -> cell_of id cs col = y /\ (Forall valid_value cs -> valid_value y).
Proof.
  unfold get_with_id, cell_of. cbn [fst snd]. destruct (col =? ID_COL).
  - intros [= <-]. split; [reflexivity|]. intros _. exact I.
  - intros H. split; [apply nth_error_nth; exact H|].
    intros Hf. rewrite Forall_forall in Hf. apply Hf. eapply nth_error_In. exact H.
Qed.

Lemma nodup_select_entries (p : value * list N -> bool) (ix : entries) :
  NoDup (all_ids ix) -> NoDup (flat_map (fun e => if p e then snd e else []) ix).
Proof.
  unfold all_ids. induction ix as [|e r IH]; cbn [flat_map map concat]; intros Hn; [constructor|].
  destruct (nodup_app_inv _ _ Hn) as (H1 & H2 & H3).
  destruct (p e); cbn [app]; [|apply IH; exact H2].
  apply nodup_app; auto. intros x Hx1 Hx2. apply (H3 x Hx1).
  apply in_flat_map in Hx2. destruct Hx2 as (e' & He' & Hx2). destruct (p e'); [|contradiction].
  apply in_concat. exists (snd e'). split; [apply in_map; exact He'|exact Hx2].
Qed.

Lemma lookup_sound st c cands :
  st_inv true st -> valid_tbl (tbl st) -> valid_cond c ->
  try_index_lookup true st c = Some cands ->
  NoDup cands /\ forall r, In r (live (tbl st)) -> evaluate c r = true -> In (fst r) cands.
Proof.
  intros [Hh Hb] Hvt. revert cands.
  induction c as [|op col v|a IHa b IHb|a IHa b IHb]; intros cands Hvc H; cbn [try_index_lookup] in H; try discriminate.
  - destruct (op =? 0) eqn:E0.
    + (* Eq through the hash index *)
      destruct (ix_find (hidx st) col) as [ix|] eqn:Ef; [|discriminate]. injection H as <-.
      apply ix_find_in in Ef. rewrite Forall_forall in Hh. specialize (Hh _ Ef). cbn [fst snd] in Hh.
      destruct Hh as (Hd & Hn & Hex). split; [apply ix_get_nodup; exact Hn|].
      intros [id cs] Hl He. cbn [fst]. cbn [evaluate] in He. unfold eval_leaf in He. rewrite E0 in He.
      destruct (get_with_id (id, cs) col) as [y|] eqn:Eg; [|discriminate].
      destruct (get_cell _ _ _ _ Eg) as [Ec Hvy].
      apply (ix_get_spec hkeq hkeq_sym hkeq_trans); [exact Hd|].
      apply Hex. exists cs. split; [exact Hl|]. rewrite Ec. unfold hk.
      rewrite (hash_key_respects_veq y v); [apply hkeq_refl|apply Hvy; eapply live_valid; eassumption|exact Hvc|exact He].
    + destruct (op =? 1) eqn:E1; [discriminate|].
      (* range through the ordered index *)
      destruct (ix_find (bidx st) col) as [ix|] eqn:Ef; [|discriminate]. injection H as <-.
      apply ix_find_in in Ef. rewrite Forall_forall in Hb. specialize (Hb _ Ef). cbn [fst snd] in Hb.
      destruct Hb as (Hd & Hn & Hex). split; [apply nodup_select_entries; exact Hn|].
      intros [id cs] Hl He. cbn [fst]. cbn [evaluate] in He. unfold eval_leaf in He. rewrite E0, E1 in He.
      destruct (get_with_id (id, cs) col) as [y|] eqn:Eg; [|discriminate].
      destruct (get_cell _ _ _ _ Eg) as [Ec _].
      destruct (vcmp y v) as [o|] eqn:Ev; [|discriminate].
      destruct (proj2 (Hex y id)) as (k' & ids & Hin & Hk & Hid).
      { exists cs. split; [exact Hl|]. rewrite Ec. apply okeq_refl. }
      unfold range_ids. apply in_flat_map. exists (k', ids). split; [exact Hin|]. cbn [fst snd].
      apply okeq_true in Hk. rewrite (okey_cmp_congr _ _ v Hk), (okey_vcmp _ _ _ Ev).
      unfold cmp_test in He. rewrite He. exact Hid.
  - destruct Hvc as [Va Vb].
    destruct (try_index_lookup true st a) as [x|] eqn:Ea.
    + injection H as <-. destruct (IHa _ Va eq_refl) as [N1 C1]. split; [exact N1|].
      intros r Hl He. cbn [evaluate] in He. apply andb_true_iff in He. apply C1; tauto.
    + destruct (IHb _ Vb H) as [N1 C1]. split; [exact N1|].
      intros r Hl He. cbn [evaluate] in He. apply andb_true_iff in He. apply C1; tauto.
Qed.

Theorem select_exact st c :
  st_inv true st -> valid_tbl (tbl st) -> valid_cond c -> select true st c = scan (tbl st) c.
Proof.
  intros Hi Hv Hc. unfold select. destruct (try_index_lookup true st c) as [cands|] eqn:E; [|reflexivity].
  destruct (lookup_sound st c cands Hi Hv Hc E) as [Hn Hcov]. apply recheck_exact; assumption.
Qed.

(* limit / offset, cursor, count, min / max: functions of `select`, hence of `scan` *)
Corollary select_with_limit_exact st c lim off :
  st_inv true st -> valid_tbl (tbl st) -> valid_cond c ->
  select_with_limit true st c lim off = firstn (N.to_nat lim) (skipn (N.to_nat off) (scan (tbl st) c)).
Proof. intros. unfold select_with_limit. rewrite select_exact by assumption. reflexivity. Qed.
Corollary select_iter_exact st c lim off :
  st_inv true st -> valid_tbl (tbl st) -> valid_cond c ->
  select_iter true st c lim off =
  if lim =? 0 then skipn (N.to_nat off) (scan (tbl st) c)
  else firstn (N.to_nat lim) (skipn (N.to_nat off) (scan (tbl st) c)).
Proof. intros. unfold select_iter, select_with_limit. rewrite select_exact by assumption. reflexivity. Qed.
Corollary count_exact st c :
  st_inv true st -> valid_tbl (tbl st) -> valid_cond c ->
  count true st c = N.of_nat (length (scan (tbl st) c)).
Proof.
  intros. unfold count. destruct c; try (rewrite select_exact by assumption; reflexivity).
  unfold scan. f_equal. clear. induction (live (tbl st)) as [|x l IH]; cbn; [reflexivity|]. f_equal. exact IH.
Qed.
Corollary agg_exact st c col :
  st_inv true st -> valid_tbl (tbl st) -> valid_cond c ->
  agg_min true st c col = agg_best Lt col (scan (tbl st) c) /\
  agg_max true st c col = agg_best Gt col (scan (tbl st) c).
Proof. intros. unfold agg_min, agg_max. rewrite select_exact by assumption. split; reflexivity. Qed.

Corollary count_column_exact st c col :
  st_inv true st -> valid_tbl (tbl st) -> valid_cond c ->
  count_column true st c col = N.of_nat (length (filter (non_null_at col) (scan (tbl st) c))).
Proof. intros. unfold count_column. rewrite select_exact by assumption. reflexivity. Qed.

Theorem select_columnar_exact st c :
  st_inv true st -> valid_tbl (tbl st) -> valid_cond c ->
  (length (sch st) <= 1000)%nat -> wt_table (sch st) (tbl st) ->
  select_columnar true st c = scan (tbl st) c.
Proof.
  intros Hi Hv Hc Hn Hwt. unfold select_columnar.
  destruct (negb _ && forallb _ _); [|apply select_exact; assumption].
  destruct (vfilter (sch st) (tbl st) c) as [bits|] eqn:E; [|apply select_exact; assumption].
  eapply vectorised_exact; eassumption.
Qed.

(* ------------------------------------------------------------------ invariant over an abstract row set *)
Section RowSets.
Variable keq : value -> value -> bool.
Hypothesis keq_refl : forall a, keq a a = true.
Hypothesis keq_sym : forall a b, keq a b = keq b a.
Hypothesis keq_trans : forall a b c, keq a b = true -> keq b c = true -> keq a c = true.
Variable keyf : value -> value.
Variable col : N.

Definition inv_R (R : N -> list value -> Prop) (ix : entries) : Prop :=
  distinct keq ix /\ NoDup (all_ids ix) /\
  forall k id, holds keq ix k id <-> exists cs, R id cs /\ keq (keyf (cell_of id cs col)) k = true.

Lemma inv_R_ext R R' ix : (forall i c, R i c <-> R' i c) -> inv_R R ix -> inv_R R' ix.
Proof.
  intros HE (A & B & C). split; [exact A|]. split; [exact B|].
  intros k id. rewrite C. split; intros (cs & H1 & H2); exists cs; (split; [apply HE; exact H1|exact H2]).
Qed.

Lemma inv_R_empty : inv_R (fun _ _ => False) [].
Proof.
  split; [exact I|]. split; [constructor|]. intros k id. split.
  - intros (? & ? & [] & _).
  - intros (? & [] & _).
Qed.

Lemma inv_R_add R ix id cs0 :
  inv_R R ix -> (forall cs, ~ R id cs) ->
  inv_R (fun i c => R i c \/ (i = id /\ c = cs0)) (ix_add keq ix (keyf (cell_of id cs0 col)) id).
Proof.
  intros (A & B & C) Hfresh. split; [apply ix_add_distinct; exact A|]. split.
  - apply ix_add_nodup; [exact B|]. intros Hin. apply (all_ids_in keq keq_refl) in Hin. destruct Hin as (k & Hk).
    apply C in Hk. destruct Hk as (cs & HR & _). exact (Hfresh cs HR).
  - intros k i. rewrite (ix_add_holds keq keq_sym keq_trans) by exact A. rewrite C. split.
    + intros [(cs & H1 & H2)|[H1 ->]]; [exists cs; auto|]. exists cs0. split; [right; auto|exact H1].
    + intros (cs & [H1|[-> ->]] & H2); [left; exists cs; auto|right; auto].
Qed.

Lemma inv_R_remove R ix id cs0 :
  inv_R R ix -> (forall c, R id c -> c = cs0) ->
  inv_R (fun i c => R i c /\ i <> id) (ix_remove keq ix (keyf (cell_of id cs0 col)) id).
Proof.
  intros (A & B & C) Hfun. split; [apply ix_remove_distinct; exact A|]. split; [apply ix_remove_nodup; exact B|].
  intros k i. rewrite (ix_remove_holds keq keq_sym keq_trans) by exact A. rewrite C. split.
  - intros [(cs & H1 & H2) Hneg]. exists cs. split; [|exact H2]. split; [exact H1|].
    intros ->. apply Hneg. split; [|reflexivity]. rewrite (Hfun _ H1) in H2. exact H2.
  - intros (cs & [H1 Hne] & H2). split; [exists cs; auto|]. intros [_ ->]. apply Hne. reflexivity.
Qed.
End RowSets.

(* ix_inv is inv_R over the live rows *)
Lemma ix_inv_R keq keyf t col ix :
  ix_inv keq keyf t col ix <-> inv_R keq keyf col (fun i c => In (i, c) (live t)) ix.
Proof. reflexivity. Qed.

(* ------------------------------------------------------------------ how table edits change the live rows *)
Lemma live_snoc t s i c :
  In (i, c) (live (t ++ [s])) <->
  In (i, c) (live t) \/ (i = N.of_nat (length t) + 1 /\ alive s = true /\ c = cells s).
Proof.
  unfold live. rewrite live_from_app, in_app_iff. cbn [live_from]. rewrite N.add_0_l, app_nil_r.
  destruct (alive s); cbn [In]; split.
  - intros [H|[H|[]]]; [left; exact H|]. injection H as <- <-. right. auto.
  - intros [H|(-> & _ & ->)]; [left; exact H|right; left; reflexivity].
  - intros [H|[]]; left; exact H.
  - intros [H|(_ & H & _)]; [left; exact H|discriminate].
Qed.

Lemma live_replace pre s s' r i c :
  In (i, c) (live (pre ++ s' :: r)) <->
  (In (i, c) (live (pre ++ s :: r)) /\ i <> N.of_nat (length pre) + 1) \/
  (i = N.of_nat (length pre) + 1 /\ alive s' = true /\ c = cells s').
Proof.
  unfold live. rewrite !live_from_app, !in_app_iff. cbn [live_from]. rewrite !N.add_0_l, !in_app_iff.
  set (n := N.of_nat (length pre)).
  assert (Hpre : In (i, c) (live_from 0 pre) -> i <> n + 1).
  { intros H. apply live_from_bounds in H. cbn [fst] in H. subst n. lia. }
  assert (Hr : In (i, c) (live_from (n + 1) r) -> i <> n + 1).
  { intros H. apply live_from_bounds in H. cbn [fst] in H. lia. }
  split.
  - intros [H|[H|H]].
    + left. split; [left; exact H|apply Hpre; exact H].
    + destruct (alive s'); [|contradiction]. destruct H as [H|[]]. injection H as <- <-. right. auto.
    + left. split; [right; right; exact H|apply Hr; exact H].
  - intros [[[H|[H|H]] Hne]|(-> & Ha & ->)].
    + left. exact H.
    + destruct (alive s); [|contradiction]. destruct H as [H|[]]. injection H as <- <-. congruence.
    + right. right. exact H.
    + right. left. rewrite Ha. left. reflexivity.
Qed.

Lemma live_mid pre s r : alive s = true -> In (N.of_nat (length pre) + 1, cells s) (live (pre ++ s :: r)).
Proof.
  intros Ha. unfold live. rewrite live_from_app, in_app_iff. right. cbn [live_from]. rewrite Ha, N.add_0_l. left. reflexivity.
Qed.

(* ------------------------------------------------------------------ assignments *)
Lemma set_nth_length {A} (l : list A) n x : length (set_nth l n x) = length l.
Proof. revert n. induction l as [|a l IH]; intros [|n]; cbn; auto. Qed.
Lemma nth_set_nth {A} (l : list A) n x i d :
  (n < length l)%nat -> nth i (set_nth l n x) d = if (i =? n)%nat then x else nth i l d.
Proof.
  revert n i. induction l as [|a l IH]; intros [|n] [|i] H; cbn in *; try lia; try reflexivity.
  apply IH. lia.
Qed.
Lemma nth_set_nth_out {A} (l : list A) n x i d : (length l <= n)%nat -> nth i (set_nth l n x) d = nth i l d.
Proof.
  revert n i. induction l as [|a l IH]; intros [|n] [|i] H; cbn in *; try lia; try reflexivity.
  apply IH. lia.
Qed.

Lemma apply_sets_length cs sets : length (apply_sets cs sets) = length cs.
Proof.
  unfold apply_sets. revert cs. induction sets as [|[c v] r IH]; intros cs; cbn [fold_left]; [reflexivity|].
  rewrite IH. apply set_nth_length.
Qed.

Lemma set_of_in sets c v : set_of sets c = Some v -> exists c', In (c', v) sets /\ c' = c.
Proof.
  unfold set_of. destruct (find (fun cv => fst cv =? c) sets) as [[c' v']|] eqn:E; [|discriminate].
  intros [= <-]. apply find_some in E. destruct E as [Hin Hc]. cbn in Hc. apply N.eqb_eq in Hc. eauto.
Qed.

Lemma nth_apply_sets cs sets (col : N) :
  NoDup (map fst sets) -> (forall c v, In (c, v) sets -> (N.to_nat c < length cs)%nat) ->
  nth (N.to_nat col) (apply_sets cs sets) VNull =
  match set_of sets col with Some nv => nv | None => nth (N.to_nat col) cs VNull end.
Proof.
  unfold apply_sets, set_of. revert cs. induction sets as [|[c v] r IH]; intros cs Hnd Hlt; cbn [fold_left find fst snd map].
  - reflexivity.
  - cbn [map fst] in Hnd. inversion Hnd as [|? ? Hni Hnd']; subst.
    rewrite IH; [|exact Hnd'|].
    + destruct (N.eqb_spec c col) as [->|Hne].
      * assert (find (fun cv => fst cv =? col) r = None) as ->.
        { destruct (find _ r) as [[c' v']|] eqn:E; [|reflexivity]. apply find_some in E. destruct E as [Hin Hc].
          cbn in Hc. apply N.eqb_eq in Hc. subst. exfalso. apply Hni. apply in_map_iff. exists (col, v'). auto. }
        rewrite nth_set_nth by (eapply Hlt; left; reflexivity). rewrite Nat.eqb_refl. reflexivity.
      * destruct (find (fun cv => fst cv =? col) r); [reflexivity|].
        rewrite nth_set_nth by (eapply Hlt; left; reflexivity).
        replace (N.to_nat col =? N.to_nat c)%nat with false; [reflexivity|].
        symmetry. apply Nat.eqb_neq. lia.
    + intros c' v' Hin. rewrite set_nth_length. eapply Hlt. right. exact Hin.
Qed.

(* ------------------------------------------------------------------ one index under the DML of one row *)
Section Preserve.
Variable keq : value -> value -> bool.
Hypothesis keq_refl : forall a, keq a a = true.
Hypothesis keq_sym : forall a b, keq a b = keq b a.
Hypothesis keq_trans : forall a b c, keq a b = true -> keq b c = true -> keq a c = true.
Variable keyf : value -> value.

Lemma inv_insert t col ix vals :
  ix_inv keq keyf t col ix ->
  ix_inv keq keyf (t ++ [Slot true vals]) col
         (ix_add keq ix (keyf (cell_of (N.of_nat (length t) + 1) vals col)) (N.of_nat (length t) + 1)).
Proof.
  intros H. apply ix_inv_R in H. apply ix_inv_R.
  eapply inv_R_ext; [|apply (inv_R_add keq keq_refl keq_sym keq_trans keyf col _ ix _ vals H)].
  - intros i c. cbn beta. rewrite live_snoc. cbn [alive cells]. tauto.
  - intros cs Hin. apply live_from_bounds in Hin. cbn [fst] in Hin. lia.
Qed.

Lemma inv_delete pre s r col ix :
  alive s = true -> ix_inv keq keyf (pre ++ s :: r) col ix ->
  ix_inv keq keyf (pre ++ Slot false (cells s) :: r) col
         (ix_remove keq ix (keyf (cell_of (N.of_nat (length pre) + 1) (cells s) col)) (N.of_nat (length pre) + 1)).
Proof.
  intros Ha H. apply ix_inv_R in H. apply ix_inv_R.
  eapply inv_R_ext; [|apply (inv_R_remove keq keq_sym keq_trans keyf col _ ix _ (cells s) H)].
  - intros i c. cbn beta. rewrite (live_replace pre s (Slot false (cells s)) r). cbn [alive]. split.
    + intros [H1 H2]. left. auto.
    + intros [H1|(_ & H1 & _)]; [exact H1|discriminate].
  - intros c Hc. pose proof (live_mid pre s r Ha) as Hm.
    pose proof (live_unique _ _ _ Hc Hm eq_refl) as E. congruence.
Qed.

Lemma inv_update pre s r col ix cs' :
  alive s = true -> ix_inv keq keyf (pre ++ s :: r) col ix ->
  ix_inv keq keyf (pre ++ Slot true cs' :: r) col
         (ix_add keq (ix_remove keq ix (keyf (cell_of (N.of_nat (length pre) + 1) (cells s) col)) (N.of_nat (length pre) + 1))
                 (keyf (cell_of (N.of_nat (length pre) + 1) cs' col)) (N.of_nat (length pre) + 1)).
Proof.
  intros Ha H. apply ix_inv_R in H. apply ix_inv_R.
  set (id := N.of_nat (length pre) + 1) in *.
  assert (Hfun : forall c, In (id, c) (live (pre ++ s :: r)) -> c = cells s).
  { intros c Hc. pose proof (live_mid pre s r Ha) as Hm. pose proof (live_unique _ _ _ Hc Hm eq_refl) as E. congruence. }
  pose proof (inv_R_remove keq keq_sym keq_trans keyf col _ ix id (cells s) H Hfun) as H1.
  eapply inv_R_ext; [|apply (inv_R_add keq keq_refl keq_sym keq_trans keyf col _ _ id cs' H1)].
  - intros i c. cbn beta. rewrite (live_replace pre s (Slot true cs') r). cbn [alive cells]. fold id. tauto.
  - intros cs [_ Hne]. apply Hne. reflexivity.
Qed.

Lemma inv_update_same pre s r col ix cs' :
  alive s = true -> cell_of (N.of_nat (length pre) + 1) cs' col = cell_of (N.of_nat (length pre) + 1) (cells s) col ->
  ix_inv keq keyf (pre ++ s :: r) col ix -> ix_inv keq keyf (pre ++ Slot true cs' :: r) col ix.
Proof.
  intros Ha Hc (A & B & C). split; [exact A|]. split; [exact B|].
  set (id := N.of_nat (length pre) + 1) in *.
  assert (Hfun : forall c, In (id, c) (live (pre ++ s :: r)) -> c = cells s).
  { intros c Hc'. pose proof (live_mid pre s r Ha) as Hm. pose proof (live_unique _ _ _ Hc' Hm eq_refl) as E. congruence. }
  intros k i. rewrite C. split.
  - intros (cs & H1 & H2). destruct (N.eq_dec i id) as [->|Hne].
    + exists cs'. split; [apply (live_replace pre s (Slot true cs') r); right; cbn; auto|].
      rewrite Hc. rewrite <- (Hfun _ H1). exact H2.
    + exists cs. split; [apply (live_replace pre s (Slot true cs') r); left; auto|exact H2].
  - intros (cs & H1 & H2). apply (live_replace pre s (Slot true cs') r) in H1. cbn [alive cells] in H1. fold id in H1.
    destruct H1 as [[H1 Hne]|(-> & _ & ->)].
    + exists cs. auto.
    + exists (cells s). split; [apply live_mid; exact Ha|]. rewrite <- Hc. exact H2.
Qed.
End Preserve.

(* ------------------------------------------------------------------ all indexes of a table *)
Definition ixs_inv keq keyf (t : list slot) (ixs : list (N * entries)) : Prop :=
  Forall (fun ce => ix_inv keq keyf t (fst ce) (snd ce)) ixs.

Definition hkf := hash_key true.
Definition idf (v : value) : value := v.

Lemma ixs_insert keq keyf t ixs vals :
  (forall a, keq a a = true) -> (forall a b, keq a b = keq b a) ->
  (forall a b c, keq a b = true -> keq b c = true -> keq a c = true) ->
  ixs_inv keq keyf t ixs ->
  ixs_inv keq keyf (t ++ [Slot true vals]) (add_all keyf keq ixs (N.of_nat (length t) + 1) vals).
Proof.
  intros R S T H. unfold ixs_inv, add_all in *. rewrite Forall_forall in *. intros ce Hin.
  apply in_map_iff in Hin. destruct Hin as (ce0 & <- & Hin0). cbn [fst snd].
  apply inv_insert; auto.
Qed.

Lemma ixs_delete keq keyf pre s r ixs :
  (forall a b, keq a b = keq b a) ->
  (forall a b c, keq a b = true -> keq b c = true -> keq a c = true) ->
  alive s = true -> ixs_inv keq keyf (pre ++ s :: r) ixs ->
  ixs_inv keq keyf (pre ++ Slot false (cells s) :: r)
          (remove_all keyf keq ixs (N.of_nat (length pre) + 1) (cells s)).
Proof.
  intros S T Ha H. unfold ixs_inv, remove_all in *. rewrite Forall_forall in *. intros ce Hin.
  apply in_map_iff in Hin. destruct Hin as (ce0 & <- & Hin0). cbn [fst snd].
  apply inv_delete; auto.
Qed.

Definition sets_ok (sets : list (N * value)) (n : nat) : Prop :=
  NoDup (map fst sets) /\ (forall c v, In (c, v) sets -> (N.to_nat c < n)%nat) /\ (n <= 1000)%nat.

Lemma cell_apply_sets id cs sets col :
  sets_ok sets (length cs) ->
  cell_of id (apply_sets cs sets) col =
  match set_of sets col with Some nv => nv | None => cell_of id cs col end.
Proof.
  intros (Hnd & Hlt & Hn). unfold cell_of. destruct (N.eqb_spec col ID_COL) as [->|Hne].
  - destruct (set_of sets ID_COL) as [nv|] eqn:E; [|reflexivity].
    apply set_of_in in E. destruct E as (c' & Hin & ->). apply Hlt in Hin. unfold ID_COL in Hin. lia.
  - apply nth_apply_sets; assumption.
Qed.

Lemma ixs_update keq keyf pre s r ixs sets :
  (forall a, keq a a = true) -> (forall a b, keq a b = keq b a) ->
  (forall a b c, keq a b = true -> keq b c = true -> keq a c = true) ->
  alive s = true -> sets_ok sets (length (cells s)) -> ixs_inv keq keyf (pre ++ s :: r) ixs ->
  ixs_inv keq keyf (pre ++ Slot true (apply_sets (cells s) sets) :: r)
          (upd_ix keyf keq ixs (N.of_nat (length pre) + 1) (cells s) sets).
Proof.
  intros R S T Ha Hok H. unfold ixs_inv, upd_ix in *. rewrite Forall_forall in *. intros ce Hin.
  apply in_map_iff in Hin. destruct Hin as (ce0 & <- & Hin0). specialize (H _ Hin0).
  pose proof (cell_apply_sets (N.of_nat (length pre) + 1) (cells s) sets (fst ce0) Hok) as Hc.
  destruct (set_of sets (fst ce0)) as [nv|] eqn:E; cbn [fst snd].
  - rewrite <- Hc. apply inv_update; auto.
  - apply (inv_update_same keq keyf pre s r); auto.
Qed.

(* ------------------------------------------------------------------ the update / delete loops *)
Lemma len_snoc {A} (pre : list A) x : N.of_nat (length pre) + 1 = N.of_nat (length (pre ++ [x])).
Proof. rewrite app_length. cbn. lia. Qed.

Lemma len_snoc' {A} (pre : list A) x i : i = N.of_nat (length pre) -> i + 1 = N.of_nat (length (pre ++ [x])).
Proof. intros ->. apply len_snoc. Qed.

Lemma delete_from_inv c r : forall i pre h b t' h' b' n,
  i = N.of_nat (length pre) ->
  delete_from true i r c h b = (t', h', b', n) ->
  ixs_inv hkeq hkf (pre ++ r) h -> ixs_inv okeq idf (pre ++ r) b ->
  ixs_inv hkeq hkf (pre ++ t') h' /\ ixs_inv okeq idf (pre ++ t') b' /\ map cells t' = map cells r.
Proof.
  induction r as [|s r IH]; intros i pre h b t' h' b' n Hi H Hh Hb; cbn [delete_from] in H.
  - injection H as <- <- <- <-. auto.
  - destruct (alive s && evaluate c (i + 1, cells s)) eqn:Em.
    + apply andb_true_iff in Em. destruct Em as [Ha _].
      destruct (delete_from true (i + 1) r c _ _) as [[[t2 h2] b2] n2] eqn:E. injection H as <- <- <- <-.
      destruct (IH (i + 1) (pre ++ [Slot false (cells s)]) _ _ _ _ _ _ (len_snoc' pre _ i Hi) E) as (A & B & C).
      * subst i. rewrite <- app_assoc. cbn [app]. apply (ixs_delete hkeq hkf); [exact hkeq_sym|exact hkeq_trans|exact Ha|exact Hh].
      * subst i. rewrite <- app_assoc. cbn [app]. apply (ixs_delete okeq idf); [exact okeq_sym|exact okeq_trans|exact Ha|exact Hb].
      * rewrite <- app_assoc in A, B. cbn [app] in A, B. cbn [map cells]. rewrite C. auto.
    + destruct (delete_from true (i + 1) r c _ _) as [[[t2 h2] b2] n2] eqn:E. injection H as <- <- <- <-.
      destruct (IH (i + 1) (pre ++ [s]) _ _ _ _ _ _ (len_snoc' pre _ i Hi) E) as (A & B & C).
      * rewrite <- app_assoc. exact Hh.
      * rewrite <- app_assoc. exact Hb.
      * rewrite <- app_assoc in A, B. cbn [app] in A, B. cbn [map]. rewrite C. auto.
Qed.

Lemma update_from_inv c sets r : forall i pre h b t' h' b' n,
  i = N.of_nat (length pre) ->
  update_from true i r c sets h b = (t', h', b', n) ->
  (forall s, In s r -> sets_ok sets (length (cells s))) ->
  ixs_inv hkeq hkf (pre ++ r) h -> ixs_inv okeq idf (pre ++ r) b ->
  ixs_inv hkeq hkf (pre ++ t') h' /\ ixs_inv okeq idf (pre ++ t') b' /\
  Forall2 (fun s s' => cells s' = cells s \/ cells s' = apply_sets (cells s) sets) r t'.
Proof.
  induction r as [|s r IH]; intros i pre h b t' h' b' n Hi H Hok Hh Hb; cbn [update_from] in H.
  - injection H as <- <- <- <-. auto.
  - destruct (alive s && evaluate c (i + 1, cells s)) eqn:Em.
    + apply andb_true_iff in Em. destruct Em as [Ha _].
      destruct (update_from true (i + 1) r c sets _ _) as [[[t2 h2] b2] n2] eqn:E. injection H as <- <- <- <-.
      destruct (IH (i + 1) (pre ++ [Slot true (apply_sets (cells s) sets)]) _ _ _ _ _ _ (len_snoc' pre _ i Hi) E) as (A & B & C).
      * intros s0 Hs0. apply Hok. right. exact Hs0.
      * subst i. rewrite <- app_assoc. cbn [app]. apply (ixs_update hkeq hkf); [exact hkeq_refl|exact hkeq_sym|exact hkeq_trans|exact Ha|apply Hok; left; reflexivity|exact Hh].
      * subst i. rewrite <- app_assoc. cbn [app]. apply (ixs_update okeq idf); [exact okeq_refl|exact okeq_sym|exact okeq_trans|exact Ha|apply Hok; left; reflexivity|exact Hb].
      * rewrite <- app_assoc in A, B. cbn [app] in A, B. split; [exact A|]. split; [exact B|].
        constructor; [right; reflexivity|exact C].
    + destruct (update_from true (i + 1) r c sets _ _) as [[[t2 h2] b2] n2] eqn:E. injection H as <- <- <- <-.
      destruct (IH (i + 1) (pre ++ [s]) _ _ _ _ _ _ (len_snoc' pre _ i Hi) E) as (A & B & C).
      * intros s0 Hs0. apply Hok. right. exact Hs0.
      * rewrite <- app_assoc. exact Hh.
      * rewrite <- app_assoc. exact Hb.
      * rewrite <- app_assoc in A, B. cbn [app] in A, B. split; [exact A|]. split; [exact B|].
        constructor; [left; reflexivity|exact C].
Qed.

(* ------------------------------------------------------------------ building an index from scratch *)
Lemma build_inv keq keyf col (todo : list row) :
  (forall a, keq a a = true) -> (forall a b, keq a b = keq b a) ->
  (forall a b c, keq a b = true -> keq b c = true -> keq a c = true) ->
  forall done ix,
  inv_R keq keyf col (fun i c => In (i, c) done) ix -> NoDup (map fst (done ++ todo)) ->
  inv_R keq keyf col (fun i c => In (i, c) (done ++ todo))
        (fold_left (fun ix r => ix_add keq ix (keyf (cell_of (fst r) (snd r) col)) (fst r)) todo ix).
Proof.
  intros R S T. induction todo as [|[i0 c0] todo IH]; intros done ix H Hnd; cbn [fold_left].
  - rewrite app_nil_r. exact H.
  - eapply inv_R_ext; [|apply (IH (done ++ [(i0, c0)]))].
    + intros i c. cbn beta. rewrite <- app_assoc. reflexivity.
    + cbn [fst snd]. eapply inv_R_ext; [|apply (inv_R_add keq R S T keyf col _ ix i0 c0 H)].
      * intros i c. cbn beta. rewrite in_app_iff. cbn [In]. split.
        -- intros [H1|[-> ->]]; [left; exact H1|right; left; reflexivity].
        -- intros [H1|[H1|[]]]; [left; exact H1|injection H1 as <- <-; right; auto].
      * intros cs Hin. rewrite map_app in Hnd. apply nodup_app_inv in Hnd. destruct Hnd as (_ & _ & Hd).
        apply (Hd i0); [apply in_map_iff; exists (i0, cs); auto|left; reflexivity].
    + rewrite <- app_assoc. exact Hnd.
Qed.

Lemma build_ix_inv keq keyf t col :
  (forall a, keq a a = true) -> (forall a b, keq a b = keq b a) ->
  (forall a b c, keq a b = true -> keq b c = true -> keq a c = true) ->
  ix_inv keq keyf t col (build_ix keyf keq t col).
Proof.
  intros R S T. apply ix_inv_R. unfold build_ix.
  apply (build_inv keq keyf col (live t) R S T [] []).
  - apply inv_R_empty.
  - cbn [app]. apply sorted_nodup_ids. apply live_from_sorted.
Qed.

(* ------------------------------------------------------------------ reachable states are good *)
Definition good (st : state) : Prop :=
  st_inv true st /\ valid_tbl (tbl st) /\ wt_table (sch st) (tbl st) /\ (length (sch st) <= 1000)%nat.

Lemma st_inv_ixs st : st_inv true st <-> ixs_inv hkeq hkf (tbl st) (hidx st) /\ ixs_inv okeq idf (tbl st) (bidx st).
Proof. reflexivity. Qed.

Lemma good_init s : (length s <= 1000)%nat -> good (init s).
Proof.
  intros H. split; [split; constructor|]. split; [constructor|]. split; [constructor|exact H].
Qed.

Lemma valid_tbl_cells t : valid_tbl t <-> Forall (Forall valid_value) (map cells t).
Proof. unfold valid_tbl. rewrite Forall_map. reflexivity. Qed.
Lemma wt_table_cells s t : wt_table s t <-> Forall (wt_cells s) (map cells t).
Proof. unfold wt_table. rewrite Forall_map. reflexivity. Qed.

Lemma valid_row_wt s vals : valid_row s vals = true -> wt_cells s vals.
Proof.
  unfold valid_row. rewrite andb_true_iff, Nat.eqb_eq. intros [Hl Hf]. split; [exact Hl|].
  intros i ty nl Hn. rewrite forallb_forall in Hf.
  assert (Hi : (i < length vals)%nat) by (rewrite Hl; apply nth_error_Some; congruence).
  specialize (Hf ((ty, nl), nth i vals VNull)).
  assert (In ((ty, nl), nth i vals VNull) (combine s vals)).
  { replace ((ty, nl), nth i vals VNull) with (nth i (combine s vals) ((ty, nl), VNull)).
    - apply nth_In. rewrite combine_length. lia.
    - rewrite combine_nth by (symmetry; exact Hl). f_equal. apply nth_error_nth. exact Hn. }
  apply Hf in H. cbn [fst snd] in H. apply andb_true_iff in H. tauto.
Qed.

Lemma good_insert st vals :
  good st -> Forall valid_value vals -> good (fst (insert true st vals)).
Proof.
  intros (Hi & Hv & Hw & Hn) Hvv. unfold insert. destruct (valid_row (sch st) vals) eqn:E; cbn [fst]; [|exact (conj Hi (conj Hv (conj Hw Hn)))].
  apply st_inv_ixs in Hi. destruct Hi as [Hh Hb]. split; [|split; [|split]]; cbn [tbl sch hidx bidx].
  - apply st_inv_ixs. cbn [tbl hidx bidx]. split.
    + apply (ixs_insert hkeq hkf); auto using hkeq_refl, hkeq_sym. exact hkeq_trans.
    + apply (ixs_insert okeq idf); auto using okeq_refl, okeq_sym. exact okeq_trans.
  - unfold valid_tbl. apply Forall_app. split; [exact Hv|]. constructor; [exact Hvv|constructor].
  - unfold wt_table. apply Forall_app. split; [exact Hw|]. constructor; [apply valid_row_wt; exact E|constructor].
  - exact Hn.
Qed.

Lemma good_delete st c : good st -> good (fst (delete true st c)).
Proof.
  intros (Hi & Hv & Hw & Hn). unfold delete.
  destruct (delete_from true 0 (tbl st) c (hidx st) (bidx st)) as [[[t' h'] b'] n] eqn:E. cbn [fst].
  apply st_inv_ixs in Hi. destruct Hi as [Hh Hb].
  destruct (delete_from_inv c (tbl st) 0 [] _ _ _ _ _ _ eq_refl E Hh Hb) as (A & B & C). cbn [app] in A, B.
  split; [|split; [|split]]; cbn [tbl sch hidx bidx].
  - apply st_inv_ixs. auto.
  - apply valid_tbl_cells. rewrite C. apply valid_tbl_cells. exact Hv.
  - apply wt_table_cells. rewrite C. apply wt_table_cells. exact Hw.
  - exact Hn.
Qed.

Lemma valid_sets_spec s sets c v :
  valid_sets s sets = true -> In (c, v) sets ->
  exists ty nl, nth_error s (N.to_nat c) = Some (ty, nl) /\ has_type ty v = true.
Proof.
  unfold valid_sets. rewrite forallb_forall. intros H Hin. specialize (H _ Hin). cbn [fst snd] in H.
  destruct (nth_error s (N.to_nat c)) as [[ty nl]|]; [|discriminate]. apply andb_true_iff in H. exists ty, nl. tauto.
Qed.

Lemma forall_set_nth {A} (P : A -> Prop) l n x : Forall P l -> P x -> Forall P (set_nth l n x).
Proof.
  revert n. induction l as [|a l IH]; intros [|n] Hl Hx; cbn; auto; inversion Hl; subst; constructor; auto.
Qed.
Lemma forall_apply_sets (P : value -> Prop) cs sets :
  Forall P cs -> Forall P (map snd sets) -> Forall P (apply_sets cs sets).
Proof.
  unfold apply_sets. revert cs. induction sets as [|[c v] r IH]; intros cs Hc Hs; cbn [fold_left]; [exact Hc|].
  cbn [map snd] in Hs. inversion Hs; subst. apply IH; [apply forall_set_nth; assumption|assumption].
Qed.

Lemma wt_apply_sets s cs sets :
  wt_cells s cs -> valid_sets s sets = true -> NoDup (map fst sets) -> wt_cells s (apply_sets cs sets).
Proof.
  intros [Hl Ht] Hvs Hnd. split; [rewrite apply_sets_length; exact Hl|].
  intros i ty nl Hn.
  assert (Hlt : forall c v, In (c, v) sets -> (N.to_nat c < length cs)%nat).
  { intros c v Hin. destruct (valid_sets_spec _ _ _ _ Hvs Hin) as (ty' & nl' & Hn' & _).
    rewrite Hl. apply nth_error_Some. congruence. }
  pose proof (nth_apply_sets cs sets (N.of_nat i) Hnd Hlt) as Hnth. rewrite Nat2N.id in Hnth. rewrite Hnth.
  destruct (set_of sets (N.of_nat i)) as [nv|] eqn:Es; [|eapply Ht; exact Hn].
  apply set_of_in in Es. destruct Es as (c' & Hin & ->).
  destruct (valid_sets_spec _ _ _ _ Hvs Hin) as (ty' & nl' & Hn' & Hty). rewrite Nat2N.id in Hn'. congruence.
Qed.

Lemma good_update st c sets :
  good st -> Forall valid_value (map snd sets) -> NoDup (map fst sets) ->
  good (fst (update true st c sets)).
Proof.
  intros (Hi & Hv & Hw & Hn) Hvs Hnd. unfold update.
  destruct (valid_sets (sch st) sets) eqn:Evs; [|cbn [fst]; exact (conj Hi (conj Hv (conj Hw Hn)))].
  destruct (update_from true 0 (tbl st) c sets (hidx st) (bidx st)) as [[[t' h'] b'] n] eqn:E. cbn [fst].
  apply st_inv_ixs in Hi. destruct Hi as [Hh Hb].
  assert (Hok : forall s, In s (tbl st) -> sets_ok sets (length (cells s))).
  { intros s Hs. unfold wt_table in Hw. rewrite Forall_forall in Hw. destruct (Hw _ Hs) as [Hl _].
    split; [exact Hnd|]. split; [|rewrite Hl; exact Hn].
    intros c0 v0 Hin. destruct (valid_sets_spec _ _ _ _ Evs Hin) as (ty & nl & Hn' & _).
    rewrite Hl. apply nth_error_Some. congruence. }
  destruct (update_from_inv c sets (tbl st) 0 [] _ _ _ _ _ _ eq_refl E Hok Hh Hb) as (A & B & C). cbn [app] in A, B.
  split; [|split; [|split]]; cbn [tbl sch hidx bidx].
  - apply st_inv_ixs. auto.
  - unfold valid_tbl in *. clear - C Hv Hvs. induction C as [|s s' r r' Hs C IH]; [constructor|].
    inversion Hv; subst. constructor; [|apply IH; assumption].
    destruct Hs as [->| ->]; [assumption|apply forall_apply_sets; assumption].
  - unfold wt_table in *. clear - C Hw Evs Hnd. induction C as [|s s' r r' Hs C IH]; [constructor|].
    inversion Hw; subst. constructor; [|apply IH; assumption].
    destruct Hs as [->| ->]; [assumption|apply wt_apply_sets; assumption].
  - exact Hn.
Qed.

Lemma ixs_drop keq keyf t ixs col : ixs_inv keq keyf t ixs -> ixs_inv keq keyf t (drop_ix ixs col).
Proof.
  unfold ixs_inv, drop_ix. rewrite !Forall_forall. intros H ce Hin. apply filter_In in Hin. apply H. tauto.
Qed.

Lemma good_ddl st kind col : good st -> good (fst (ddl true st kind col)).
Proof.
  intros (Hi & Hv & Hw & Hn). apply st_inv_ixs in Hi. destruct Hi as [Hh Hb]. unfold ddl.
  destruct (kind =? 0).
  { destruct (col_ok (sch st) col && negb (has_ix (hidx st) col)); cbn [fst]; [|exact (conj (conj Hh Hb) (conj Hv (conj Hw Hn)))].
    split; [|exact (conj Hv (conj Hw Hn))]. apply st_inv_ixs. cbn [tbl hidx bidx]. split; [|exact Hb].
    apply Forall_app. split; [exact Hh|]. constructor; [|constructor]. cbn [fst snd].
    apply (build_ix_inv hkeq hkf); [exact hkeq_refl|exact hkeq_sym|exact hkeq_trans]. }
  destruct (kind =? 1).
  { destruct (col_ok (sch st) col && negb (has_ix (bidx st) col)); cbn [fst]; [|exact (conj (conj Hh Hb) (conj Hv (conj Hw Hn)))].
    split; [|exact (conj Hv (conj Hw Hn))]. apply st_inv_ixs. cbn [tbl hidx bidx]. split; [exact Hh|].
    apply Forall_app. split; [exact Hb|]. constructor; [|constructor]. cbn [fst snd].
    apply (build_ix_inv okeq idf); [exact okeq_refl|exact okeq_sym|exact okeq_trans]. }
  destruct (kind =? 2).
  { destruct (has_ix (hidx st) col); cbn [fst]; [|exact (conj (conj Hh Hb) (conj Hv (conj Hw Hn)))].
    split; [|exact (conj Hv (conj Hw Hn))]. apply st_inv_ixs. cbn [tbl hidx bidx]. split; [apply ixs_drop; exact Hh|exact Hb]. }
  destruct (has_ix (bidx st) col); cbn [fst]; [|exact (conj (conj Hh Hb) (conj Hv (conj Hw Hn)))].
  split; [|exact (conj Hv (conj Hw Hn))]. apply st_inv_ixs. cbn [tbl hidx bidx]. split; [exact Hh|apply ixs_drop; exact Hb].
Qed.

(* ------------------------------------------------------------------ histories *)
Inductive op :=
| OInsert (vals : list value)
| OUpdate (c : cond) (sets : list (N * value))
| ODelete (c : cond)
| ODdl (kind col : N).
Definition op_ok (o : op) : Prop :=
  match o with
  | OInsert vals => Forall valid_value vals
  | OUpdate _ sets => Forall valid_value (map snd sets) /\ NoDup (map fst sets)
  | _ => True
  end.
Definition step (st : state) (o : op) : state :=
  match o with
  | OInsert vals => fst (insert true st vals)
  | OUpdate c sets => fst (update true st c sets)
  | ODelete c => fst (delete true st c)
  | ODdl kind col => fst (ddl true st kind col)
  end.
Definition run (s : schema) (ops : list op) : state := fold_left step ops (init s).

Lemma good_step st o : good st -> op_ok o -> good (step st o).
Proof.
  destruct o; cbn [step op_ok]; intros G H.
  - apply good_insert; assumption.
  - destruct H. apply good_update; assumption.
  - apply good_delete; assumption.
  - apply good_ddl; assumption.
Qed.

Theorem good_run s ops : (length s <= 1000)%nat -> Forall op_ok ops -> good (run s ops).
Proof.
  intros Hs. unfold run. generalize (good_init s Hs). generalize (init s).
  induction ops as [|o ops IH]; intros st G Hok; cbn [fold_left]; [exact G|].
  inversion Hok; subst. apply IH; [apply good_step; assumption|assumption].
Qed.

(* update and delete touch exactly the rows of `scan` *)
Lemma update_from_live c sets : forall r i h b t' h' b' n,
  update_from true i r c sets h b = (t', h', b', n) ->
  live_from i t' = map (fun x => if evaluate c x then (fst x, apply_sets (snd x) sets) else x) (live_from i r) /\
  n = N.of_nat (length (filter (evaluate c) (live_from i r))).
Proof.
  induction r as [|s r IH]; intros i h b t' h' b' n H; cbn [update_from] in H.
  - injection H as <- <- <- <-. auto.
  - destruct (alive s) eqn:Ea; cbn [andb] in H.
    + destruct (evaluate c (i + 1, cells s)) eqn:Ee.
      * destruct (update_from true (i + 1) r c sets _ _) as [[[t2 h2] b2] n2] eqn:E. injection H as <- <- <- <-.
        destruct (IH _ _ _ _ _ _ _ E) as [A B]. cbn [live_from alive cells]. rewrite Ea. cbn [app map filter].
        rewrite Ee, A, B. cbn [fst snd length]. split; [reflexivity|lia].
      * destruct (update_from true (i + 1) r c sets _ _) as [[[t2 h2] b2] n2] eqn:E. injection H as <- <- <- <-.
        destruct (IH _ _ _ _ _ _ _ E) as [A B]. cbn [live_from]. rewrite Ea. cbn [app map filter].
        rewrite Ee, A, B. split; reflexivity.
    + destruct (update_from true (i + 1) r c sets _ _) as [[[t2 h2] b2] n2] eqn:E. injection H as <- <- <- <-.
      destruct (IH _ _ _ _ _ _ _ E) as [A B]. cbn [live_from]. rewrite Ea. cbn [app]. auto.
Qed.

Lemma delete_from_live c : forall r i h b t' h' b' n,
  delete_from true i r c h b = (t', h', b', n) ->
  live_from i t' = filter (fun x => negb (evaluate c x)) (live_from i r) /\
  n = N.of_nat (length (filter (evaluate c) (live_from i r))).
Proof.
  induction r as [|s r IH]; intros i h b t' h' b' n H; cbn [delete_from] in H.
  - injection H as <- <- <- <-. auto.
  - destruct (alive s) eqn:Ea; cbn [andb] in H.
    + destruct (evaluate c (i + 1, cells s)) eqn:Ee.
      * destruct (delete_from true (i + 1) r c _ _) as [[[t2 h2] b2] n2] eqn:E. injection H as <- <- <- <-.
        destruct (IH _ _ _ _ _ _ _ E) as [A B]. cbn [live_from alive cells]. rewrite Ea. cbn [app filter].
        rewrite Ee, A, B. cbn [negb length]. split; [reflexivity|lia].
      * destruct (delete_from true (i + 1) r c _ _) as [[[t2 h2] b2] n2] eqn:E. injection H as <- <- <- <-.
        destruct (IH _ _ _ _ _ _ _ E) as [A B]. cbn [live_from]. rewrite Ea. cbn [app filter].
        rewrite Ee, A, B. cbn [negb]. split; reflexivity.
    + destruct (delete_from true (i + 1) r c _ _) as [[[t2 h2] b2] n2] eqn:E. injection H as <- <- <- <-.
      destruct (IH _ _ _ _ _ _ _ E) as [A B]. cbn [live_from]. rewrite Ea. cbn [app]. auto.
Qed.

Theorem update_exact st c sets st' n :
  update true st c sets = (st', Some n) ->
  live (tbl st') = map (fun r => if evaluate c r then (fst r, apply_sets (snd r) sets) else r) (live (tbl st)) /\
  n = N.of_nat (length (scan (tbl st) c)).
Proof.
  unfold update. destruct (valid_sets (sch st) sets); [|discriminate].
  destruct (update_from true 0 (tbl st) c sets (hidx st) (bidx st)) as [[[t' h'] b'] n'] eqn:E.
  intros [= <- <-]. cbn [tbl]. apply (update_from_live c sets _ _ _ _ _ _ _ _ E).
Qed.

Theorem delete_exact st c st' n :
  delete true st c = (st', Some n) ->
  live (tbl st') = filter (fun r => negb (evaluate c r)) (live (tbl st)) /\
  n = N.of_nat (length (scan (tbl st) c)).
Proof.
  unfold delete.
  destruct (delete_from true 0 (tbl st) c (hidx st) (bidx st)) as [[[t' h'] b'] n'] eqn:E.
  intros [= <- <-]. cbn [tbl]. apply (delete_from_live c _ _ _ _ _ _ _ _ E).
Qed.

(* every strategy on every reachable state *)
Theorem strategies_exact s ops c lim off col :
  (length s <= 1000)%nat -> Forall op_ok ops -> valid_cond c ->
  let st := run s ops in
  let exact := scan (tbl st) c in
  select true st c = exact /\
  select_columnar true st c = exact /\
  select_with_limit true st c lim off = firstn (N.to_nat lim) (skipn (N.to_nat off) exact) /\
  select_iter true st c lim off = (if lim =? 0 then skipn (N.to_nat off) exact
                                   else firstn (N.to_nat lim) (skipn (N.to_nat off) exact)) /\
  count true st c = N.of_nat (length exact) /\
  agg_min true st c col = agg_best Lt col exact /\
  agg_max true st c col = agg_best Gt col exact.
Proof.
  intros Hs Hok Hc st exact. destruct (good_run s ops Hs Hok) as (Hi & Hv & Hw & Hn). fold st in Hi, Hv, Hw, Hn.
  split; [apply select_exact; assumption|].
  split; [apply select_columnar_exact; assumption|].
  split; [apply select_with_limit_exact; assumption|].
  split; [apply select_iter_exact; assumption|].
  split; [apply count_exact; assumption|].
  apply agg_exact; assumption.
Qed.
