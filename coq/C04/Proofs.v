(* C04/Proofs.v -- every execution strategy returns exactly `scan` = filter (evaluate c) (live rows).
   1. vectorised path (kernels AND alive AND NOT null; Ne keeps nulls) on a well-typed table
   2. candidate-then-recheck: any duplicate-free candidate list that covers the satisfying rows
   3. limit/offset, cursor, count, min/max as functions of `select`
   4. update / delete touch exactly the rows of `scan`
   5. the index invariant (exact content of every index) is preserved by DML and DDL and
      implies (2)'s premises for the candidates try_index_lookup produces. *)
From NV.Common Require Import Base.
From Coq Require Import Permutation Sorting.Sorted.
From NV.C04 Require Import Types Model.
Open Scope N_scope.

(* ------------------------------------------------------------------ live rows *)
Lemma live_from_app i t1 t2 :
  live_from i (t1 ++ t2) = live_from i t1 ++ live_from (i + N.of_nat (length t1)) t2.
Proof.
  revert i. induction t1 as [|s r IH]; intros i; cbn [live_from app length].
  - rewrite N.add_0_r. reflexivity.
  - rewrite IH, <- app_assoc. do 3 f_equal. lia.
Qed.

Lemma live_from_bounds i t r : In r (live_from i t) -> i < fst r /\ fst r <= i + N.of_nat (length t).
Proof.
  revert i. induction t as [|s t IH]; intros i H; cbn [live_from] in H; [contradiction|].
  apply in_app_or in H. destruct H as [H|H].
  - destruct (alive s); [|contradiction]. destruct H as [<-|[]]. cbn [fst length]. lia.
  - apply IH in H. cbn [length]. lia.
Qed.

Definition ids_sorted (l : list row) : Prop := StronglySorted N.lt (map fst l).

Lemma live_from_sorted i t : ids_sorted (live_from i t).
Proof.
  revert i. induction t as [|s t IH]; intros i; cbn [live_from]; [constructor|].
  destruct (alive s); cbn [app]; [|apply IH].
  unfold ids_sorted. cbn [map fst]. constructor; [apply IH|].
  apply Forall_forall. intros x Hx. apply in_map_iff in Hx. destruct Hx as (r & <- & Hr).
  apply live_from_bounds in Hr. lia.
Qed.

Lemma sorted_filter f l : ids_sorted l -> ids_sorted (filter f l).
Proof.
  unfold ids_sorted. induction l as [|x l IH]; cbn; intros H; [constructor|].
  inversion H as [|? ? Hs Hf]; subst. destruct (f x); cbn [map]; [|apply IH; exact Hs].
  constructor; [apply IH; exact Hs|].
  apply Forall_forall. intros y Hy. apply in_map_iff in Hy. destruct Hy as (r & <- & Hr).
  apply filter_In in Hr. destruct Hr as [Hr _].
  rewrite Forall_forall in Hf. apply Hf. apply in_map. exact Hr.
Qed.

Lemma scan_sorted t c : ids_sorted (scan t c).
Proof. apply sorted_filter, live_from_sorted. Qed.

(* fetch1 returns the live row with that id, if any *)
Lemma live_from_nth i t id cs :
  In (id, cs) (live_from i t) <->
  i < id /\ exists s, nth_error t (N.to_nat (id - i - 1)) = Some s /\ alive s = true /\ cells s = cs.
Proof.
  revert i. induction t as [|s t IH]; intros i; cbn [live_from].
  - split; [contradiction|]. intros (_ & s & H & _). destruct (N.to_nat (id - i - 1)); discriminate.
  - rewrite in_app_iff, IH. split.
    + intros [H|(Hlt & s' & Hn & Ha & Hc)].
      * destruct (alive s) eqn:Ea; [|contradiction]. destruct H as [H|[]]. injection H as <- <-.
        split; [lia|]. exists s. replace (i + 1 - i - 1) with 0 by lia. cbn. auto.
      * split; [lia|]. exists s'. replace (N.to_nat (id - i - 1)) with (S (N.to_nat (id - (i + 1) - 1))) by lia.
        cbn. auto.
    + intros (Hlt & s' & Hn & Ha & Hc).
      destruct (N.eq_dec id (i + 1)) as [->|Hne].
      * left. replace (i + 1 - i - 1) with 0 in Hn by lia. cbn in Hn. injection Hn as <-.
        rewrite Ha. left. rewrite Hc. reflexivity.
      * right. split; [lia|]. exists s'.
        replace (N.to_nat (id - i - 1)) with (S (N.to_nat (id - (i + 1) - 1))) in Hn by lia.
        cbn in Hn. auto.
Qed.

Lemma fetch1_spec t id r : In r (fetch1 t id) <-> (fst r = id /\ In r (live t)).
Proof.
  unfold fetch1, live. destruct r as [rid cs]. cbn [fst].
  destruct (N.eqb_spec id 0) as [->|Hne].
  - split; [contradiction|]. intros [-> H]. apply live_from_bounds in H. cbn in H. lia.
  - destruct (nth_error t (N.to_nat (id - 1))) as [s|] eqn:En.
    + destruct (alive s) eqn:Ea.
      * split.
        -- intros [H|[]]. injection H as <- <-. split; [reflexivity|].
           apply live_from_nth. split; [lia|]. exists s. replace (id - 0 - 1) with (id - 1) by lia. auto.
        -- intros [-> H]. apply live_from_nth in H. destruct H as (_ & s' & Hn & _ & Hc).
           replace (id - 0 - 1) with (id - 1) in Hn by lia. rewrite En in Hn. injection Hn as <-.
           left. rewrite Hc. reflexivity.
      * split; [contradiction|]. intros [-> H]. apply live_from_nth in H. destruct H as (_ & s' & Hn & Ha & _).
        replace (id - 0 - 1) with (id - 1) in Hn by lia. rewrite En in Hn. injection Hn as <-. congruence.
    + split; [contradiction|]. intros [-> H]. apply live_from_nth in H. destruct H as (_ & s' & Hn & _).
      replace (id - 0 - 1) with (id - 1) in Hn by lia. congruence.
Qed.

Lemma sorted_nodup_ids l : ids_sorted l -> NoDup (map fst l).
Proof.
  unfold ids_sorted. induction (map fst l) as [|x m IH]; intros H; [constructor|].
  inversion H as [|? ? Hs Hf]; subst. constructor; [|apply IH; exact Hs].
  intros Hin. rewrite Forall_forall in Hf. specialize (Hf _ Hin). lia.
Qed.

Lemma live_unique t r1 r2 : In r1 (live t) -> In r2 (live t) -> fst r1 = fst r2 -> r1 = r2.
Proof.
  unfold live. destruct r1 as [i1 c1], r2 as [i2 c2]. cbn [fst]. intros H1 H2 <-.
  apply live_from_nth in H1. apply live_from_nth in H2.
  destruct H1 as (_ & s1 & N1 & _ & <-), H2 as (_ & s2 & N2 & _ & <-). congruence.
Qed.

(* ------------------------------------------------------------------ sorting *)
Lemma insert_perm r l : Permutation (r :: l) (insert_row r l).
Proof.
  induction l as [|x l IH]; cbn; [reflexivity|].
  destruct (fst r <? fst x); [reflexivity|].
  rewrite perm_swap. constructor. exact IH.
Qed.
Lemma sort_perm l : Permutation l (sort_rows l).
Proof.
  induction l as [|x l IH]; cbn; [constructor|].
  rewrite <- insert_perm. constructor. exact IH.
Qed.

Definition le_sorted (l : list row) : Prop := StronglySorted N.le (map fst l).
Lemma insert_sorted r l : le_sorted l -> le_sorted (insert_row r l).
Proof.
  unfold le_sorted. induction l as [|x l IH]; cbn; intros H; [repeat constructor|].
  inversion H as [|? ? Hs Hf]; subst.
  destruct (fst r <? fst x) eqn:E.
  - apply N.ltb_lt in E. cbn [map]. constructor; [exact H|].
    constructor; [lia|]. rewrite Forall_forall in *. intros y Hy. specialize (Hf y Hy). lia.
  - apply N.ltb_ge in E. cbn [map]. constructor; [apply IH; exact Hs|].
    apply Forall_forall. intros y Hy. apply in_map_iff in Hy. destruct Hy as (z & <- & Hz).
    apply (Permutation_in _ (Permutation_sym (insert_perm r l))) in Hz. destruct Hz as [<-|Hz]; [exact E|].
    rewrite Forall_forall in Hf. apply Hf. apply in_map. exact Hz.
Qed.
Lemma sort_sorted l : le_sorted (sort_rows l).
Proof. induction l as [|x l IH]; cbn; [constructor|apply insert_sorted, IH]. Qed.

(* a <=-sorted list and a <-sorted list with the same elements are equal *)
Lemma sorted_perm_eq (l1 l2 : list row) :
  le_sorted l1 -> ids_sorted l2 -> Permutation l1 l2 ->
  (forall a b, In a l2 -> In b l2 -> fst a = fst b -> a = b) -> l1 = l2.
Proof.
  revert l2. induction l1 as [|x l1 IH]; intros l2 H1 H2 HP HU.
  - apply Permutation_nil in HP. subst. reflexivity.
  - destruct l2 as [|y l2]; [apply Permutation_sym, Permutation_nil in HP; discriminate|].
    unfold le_sorted, ids_sorted in *. cbn [map] in *.
    inversion H1 as [|? ? Hs1 Hf1]. inversion H2 as [|? ? Hs2 Hf2]. subst.
    assert (x = y).
    { assert (Hx : In x (y :: l2)) by (eapply Permutation_in; [exact HP|left; reflexivity]).
      assert (Hy : In y (x :: l1)) by (eapply Permutation_in; [exact (Permutation_sym HP)|left; reflexivity]).
      destruct Hx as [->|Hx]; [reflexivity|]. destruct Hy as [->|Hy]; [reflexivity|].
      rewrite Forall_forall in Hf1, Hf2.
      specialize (Hf1 (fst y) (in_map fst _ _ Hy)). specialize (Hf2 (fst x) (in_map fst _ _ Hx)). lia. }
    subst y. f_equal. apply IH; auto.
    + eapply Permutation_cons_inv. exact HP.
    + intros a b Ha Hb. apply HU; right; assumption.
Qed.

Lemma nodup_app {A} (l1 l2 : list A) :
  NoDup l1 -> NoDup l2 -> (forall x, In x l1 -> In x l2 -> False) -> NoDup (l1 ++ l2).
Proof.
  induction l1 as [|a l1 IH]; cbn; intros H1 H2 HD; [exact H2|].
  inversion H1; subst. constructor.
  - rewrite in_app_iff. intros [H|H]; [contradiction|]. apply (HD a); auto.
  - apply IH; auto. intros x Hx1 Hx2. apply (HD x); auto.
Qed.

Lemma nodup_app_inv {A} (l1 l2 : list A) :
  NoDup (l1 ++ l2) -> NoDup l1 /\ NoDup l2 /\ (forall x, In x l1 -> In x l2 -> False).
Proof.
  induction l1 as [|a l1 IH]; cbn; intros H.
  - split; [constructor|]. split; [exact H|]. intros x [].
  - inversion H as [|? ? Hni Hn]; subst. destruct (IH Hn) as (A1 & A2 & A3).
    split; [constructor; [intros Hc; apply Hni; apply in_or_app; left; exact Hc|exact A1]|].
    split; [exact A2|]. intros x [->|Hx] Hx2; [apply Hni; apply in_or_app; right; exact Hx2|eauto].
Qed.

(* ------------------------------------------------------------------ candidate-then-recheck is exact *)
Theorem recheck_exact t c (cands : list N) :
  NoDup cands ->
  (forall r, In r (live t) -> evaluate c r = true -> In (fst r) cands) ->
  sort_rows (filter (evaluate c) (fetch t cands)) = scan t c.
Proof.
  intros Hnd Hcov.
  assert (Hin : forall r, In r (filter (evaluate c) (fetch t cands)) <-> In r (scan t c)).
  { intros r. unfold scan, fetch. rewrite !filter_In, in_flat_map. split.
    - intros [(id & Hid & Hf) He]. apply fetch1_spec in Hf. tauto.
    - intros [Hl He]. split; [|exact He]. exists (fst r). split; [apply Hcov; assumption|].
      apply fetch1_spec. auto. }
  assert (Hnd2 : NoDup (filter (evaluate c) (fetch t cands))).
  { apply NoDup_filter. unfold fetch. clear Hcov Hin. induction cands as [|id cs IH]; cbn; [constructor|].
    inversion Hnd as [|? ? Hni Hnd']; subst.
    assert (HF1 : NoDup (fetch1 t id)).
    { unfold fetch1. destruct (id =? 0); [constructor|]. destruct (nth_error t _) as [s|]; [|constructor].
      destruct (alive s); [repeat constructor; auto|constructor]. }
    apply nodup_app; auto.
    intros r Hr1 Hr2. apply fetch1_spec in Hr1. apply in_flat_map in Hr2. destruct Hr2 as (id' & Hid' & Hr2).
    apply fetch1_spec in Hr2. destruct Hr1 as [E1 _], Hr2 as [E2 _]. congruence. }
  apply sorted_perm_eq.
  - apply sort_sorted.
  - apply scan_sorted.
  - rewrite <- sort_perm. apply NoDup_Permutation; auto.
    apply (NoDup_map_inv fst). apply sorted_nodup_ids, scan_sorted.
  - intros a b Ha Hb. unfold scan in *. apply filter_In in Ha, Hb. apply (live_unique t); tauto.
Qed.

(* ------------------------------------------------------------------ vectorised path *)
Definition wt_cells (s : schema) (cs : list value) : Prop :=
  length cs = length s /\
  forall i ty nl, nth_error s i = Some (ty, nl) -> has_type ty (nth i cs VNull) = true.
Definition wt_table (s : schema) (t : list slot) : Prop := Forall (fun sl => wt_cells s (cells sl)) t.

Fixpoint cols_lt (c : cond) (n : nat) : Prop :=
  match c with
  | CTrue => True
  | CCmp _ col _ => (N.to_nat col < n)%nat
  | CAnd a b | COr a b => cols_lt a n /\ cols_lt b n
  end.

Lemma evaluate_id_indep c n i j cs : (n <= 1000)%nat -> cols_lt c n -> evaluate c (i, cs) = evaluate c (j, cs).
Proof.
  intros Hn. induction c as [|op col v|a IHa b IHb|a IHa b IHb]; cbn [evaluate cols_lt]; intros H.
  - reflexivity.
  - unfold get_with_id. cbn [fst snd]. replace (col =? ID_COL) with false; [reflexivity|].
    symmetry. apply N.eqb_neq. unfold ID_COL. lia.
  - destruct H. rewrite IHa, IHb by assumption. reflexivity.
  - destruct H. rewrite IHa, IHb by assumption. reflexivity.
Qed.

Lemma kernel_bit_int op y cell :
  has_type 0 cell = true -> kernel_bit op (VInt y) cell = eval_leaf op (Some cell) (VInt y).
Proof.
  destruct cell; cbn; try discriminate; intros _; unfold eval_leaf, int_test.
  - destruct (op =? 0) eqn:E0; [apply N.eqb_eq in E0; subst; reflexivity|].
    destruct (op =? 1); reflexivity.
  - cbn. destruct (op =? 0); [reflexivity|]. destruct (op =? 1); reflexivity.
Qed.
Lemma kernel_bit_float op y cell :
  has_type 1 cell = true -> (op =? 0) || (op =? 2) || (op =? 4) = true ->
  kernel_bit op (VFloat y) cell = eval_leaf op (Some cell) (VFloat y).
Proof.
  destruct cell; cbn; try discriminate; intros _ Hop; unfold eval_leaf.
  - destruct (op =? 0) eqn:E0; [apply N.eqb_eq in E0; subst; reflexivity|].
    destruct (op =? 1); reflexivity.
  - cbn. destruct (op =? 0) eqn:E0; [reflexivity|].
    destruct (op =? 1) eqn:E1; [|reflexivity].
    apply N.eqb_eq in E1. subst. cbn in Hop. discriminate.
Qed.

Lemma combine_map2 {A} (f g : A -> bool) (h : bool * bool -> bool) l :
  map h (combine (map f l) (map g l)) = map (fun x => h (f x, g x)) l.
Proof. induction l; cbn; [reflexivity|]. rewrite IHl. reflexivity. Qed.

Lemma vfilter_spec s t c bits :
  (length s <= 1000)%nat -> wt_table s t -> vfilter s t c = Some bits ->
  cols_lt c (length s) /\ bits = map (fun sl => alive sl && evaluate c (0, cells sl)) t.
Proof.
  intros Hn Hwt. revert bits.
  induction c as [|op col v|a IHa b IHb|a IHa b IHb]; intros bits H; cbn [vfilter] in H.
  - discriminate.
  - destruct (nth_error s (N.to_nat col)) as [[ty nl]|] eqn:Es; [|discriminate].
    assert (Hlt : (N.to_nat col < length s)%nat) by (apply nth_error_Some; congruence).
    assert (Hget : forall sl, In sl t ->
              get_with_id (0, cells sl) col = Some (nth (N.to_nat col) (cells sl) VNull) /\
              has_type ty (nth (N.to_nat col) (cells sl) VNull) = true).
    { intros sl Hin. unfold wt_table in Hwt. rewrite Forall_forall in Hwt. destruct (Hwt _ Hin) as [Hl Ht].
      split; [|eapply Ht; exact Es].
      unfold get_with_id. cbn [fst snd]. replace (col =? ID_COL) with false by (symmetry; apply N.eqb_neq; unfold ID_COL; lia).
      apply nth_error_nth'. lia. }
    destruct ty as [|p]; [|destruct p as [p|p|]; try discriminate; try (destruct p; discriminate)].
    + (* Int column *)
      destruct v; try discriminate. injection H as <-. split; [exact Hlt|].
      apply map_ext_in. intros sl Hin. destruct (Hget _ Hin) as [G T].
      cbn [evaluate]. rewrite G, kernel_bit_int by exact T. reflexivity.
    + (* Float column *)
      destruct v; try discriminate.
      destruct ((op =? 0) || (op =? 2) || (op =? 4)) eqn:Hop; [|discriminate].
      injection H as <-. split; [exact Hlt|].
      apply map_ext_in. intros sl Hin. destruct (Hget _ Hin) as [G T].
      cbn [evaluate]. rewrite G, kernel_bit_float by assumption. reflexivity.
  - destruct (vfilter s t a) as [x|]; [|discriminate]. destruct (vfilter s t b) as [y|]; [|discriminate].
    injection H as <-. destruct (IHa _ eq_refl) as [Ca ->], (IHb _ eq_refl) as [Cb ->].
    split; [split; assumption|]. rewrite combine_map2. apply map_ext. intros sl. cbn [evaluate fst snd].
    destruct (alive sl); cbn; [reflexivity|reflexivity].
  - destruct (vfilter s t a) as [x|]; [|discriminate]. destruct (vfilter s t b) as [y|]; [|discriminate].
    injection H as <-. destruct (IHa _ eq_refl) as [Ca ->], (IHb _ eq_refl) as [Cb ->].
    split; [split; assumption|]. rewrite combine_map2. apply map_ext. intros sl. cbn [evaluate fst snd].
    destruct (alive sl); cbn; [reflexivity|reflexivity].
Qed.

Lemma pick_from_map i t (g : list value -> bool) :
  pick_from i t (map (fun sl => alive sl && g (cells sl)) t) = filter (fun r => g (snd r)) (live_from i t).
Proof.
  revert i. induction t as [|s t IH]; intros i; cbn [pick_from map live_from]; [reflexivity|].
  rewrite filter_app, IH. f_equal.
  destruct (alive s); cbn; [|reflexivity]. destruct (g (cells s)); reflexivity.
Qed.

Theorem vectorised_exact s t c bits :
  (length s <= 1000)%nat -> wt_table s t -> vfilter s t c = Some bits ->
  pick_from 0 t bits = scan t c.
Proof.
  intros Hn Hwt H. destruct (vfilter_spec s t c bits Hn Hwt H) as [Hc ->].
  rewrite (pick_from_map 0 t (fun cs => evaluate c (0, cs))). unfold scan, live.
  apply filter_ext. intros [i cs]. cbn [snd]. apply (evaluate_id_indep c (length s)); assumption.
Qed.

(* ------------------------------------------------------------------ index entries, generically *)
Section Entries.
Variable keq : value -> value -> bool.
Hypothesis keq_refl : forall a, keq a a = true.
Hypothesis keq_sym : forall a b, keq a b = keq b a.
Hypothesis keq_trans : forall a b c, keq a b = true -> keq b c = true -> keq a c = true.

(* id is filed under an entry whose key is equivalent to k *)
Definition holds (ix : entries) (k : value) (id : N) : Prop :=
  exists k' ids, In (k', ids) ix /\ keq k' k = true /\ In id ids.
(* keys pairwise inequivalent *)
Fixpoint distinct (ix : entries) : Prop :=
  match ix with
  | [] => True
  | (k, _) :: r => (forall k' ids, In (k', ids) r -> keq k k' = false) /\ distinct r
  end.
Definition all_ids (ix : entries) : list N := concat (map snd ix).

Lemma all_ids_in ix id : In id (all_ids ix) <-> exists k, holds ix k id.
Proof.
  unfold all_ids. rewrite in_concat. split.
  - intros (l & Hl & Hid). apply in_map_iff in Hl. destruct Hl as ([k ids] & <- & He).
    exists k, k, ids. auto.
  - intros (k & k' & ids & He & _ & Hid). exists ids. split; [|exact Hid].
    apply in_map_iff. exists (k', ids). auto.
Qed.

Lemma mem_spec id ids : mem id ids = true <-> In id ids.
Proof.
  unfold mem. rewrite existsb_exists. split.
  - intros (x & Hx & E). apply N.eqb_eq in E. subst. exact Hx.
  - intros H. exists id. split; [exact H|apply N.eqb_refl].
Qed.

Lemma ix_add_keys ix k id k' ids' :
  In (k', ids') (ix_add keq ix k id) -> (exists ids0, In (k', ids0) ix) \/ (k' = k /\ forall k0 ids0, In (k0, ids0) ix -> keq k0 k = false).
Proof.
  induction ix as [|[k0 ids0] r IH]; cbn [ix_add].
  - intros [H|[]]. injection H as <- <-. right. split; [reflexivity|]. intros ? ? [].
  - destruct (keq k0 k) eqn:E.
    + intros [H|H]; [injection H as <- <-; left; exists ids0; left; reflexivity|].
      left. exists ids'. right. exact H.
    + intros [H|H]; [injection H as <- <-; left; exists ids0; left; reflexivity|].
      destruct (IH H) as [(i0 & Hi)|[-> Hn]]; [left; exists i0; right; exact Hi|].
      right. split; [reflexivity|]. intros k1 i1 [H1|H1]; [injection H1 as <- <-; exact E|eapply Hn; exact H1].
Qed.

Lemma ix_add_distinct ix k id : distinct ix -> distinct (ix_add keq ix k id).
Proof.
  induction ix as [|[k0 ids0] r IH]; cbn [ix_add distinct].
  - intros _. split; [intros ? ? []|exact I].
  - intros [Hk Hd]. destruct (keq k0 k) eqn:E; cbn [distinct].
    + split; assumption.
    + split; [|apply IH; exact Hd].
      intros k' ids' H. destruct (ix_add_keys _ _ _ _ _ H) as [(i0 & Hi)|[-> _]]; [eapply Hk; exact Hi|exact E].
Qed.

Lemma ix_add_holds ix k id k2 id2 :
  distinct ix ->
  (holds (ix_add keq ix k id) k2 id2 <-> holds ix k2 id2 \/ (keq k k2 = true /\ id2 = id)).
Proof.
  induction ix as [|[k0 ids0] r IH]; cbn [ix_add distinct].
  - intros _. unfold holds. split.
    + intros (k' & ids & [H|[]] & Hk & Hid). injection H as <- <-. destruct Hid as [<-|[]]. right. auto.
    + intros [(k' & ids & [] & _)|[Hk ->]]. exists k, [id]. cbn. auto.
  - intros [Hk Hd]. destruct (keq k0 k) eqn:E.
    + unfold holds. split.
      * intros (k' & ids & [H|H] & Hk2 & Hid).
        -- injection H as <- <-. destruct (mem id ids0) eqn:Em.
           ++ left. exists k0, ids0. cbn. auto.
           ++ apply in_app_or in Hid. destruct Hid as [Hid|[<-|[]]].
              ** left. exists k0, ids0. cbn. auto.
              ** right. split; [|reflexivity]. apply (keq_trans k k0 k2); [rewrite keq_sym; exact E|exact Hk2].
        -- left. exists k', ids. cbn. auto.
      * intros [(k' & ids & [H|H] & Hk2 & Hid)|[Hk2 ->]].
        -- injection H as <- <-. exists k0, (if mem id ids0 then ids0 else ids0 ++ [id]). split; [left; reflexivity|].
           split; [exact Hk2|]. destruct (mem id ids0); [exact Hid|apply in_or_app; left; exact Hid].
        -- exists k', ids. split; [right; exact H|auto].
        -- exists k0, (if mem id ids0 then ids0 else ids0 ++ [id]). split; [left; reflexivity|].
           split; [apply (keq_trans k0 k k2); assumption|].
           destruct (mem id ids0) eqn:Em; [apply mem_spec; exact Em|apply in_or_app; right; left; reflexivity].
    + specialize (IH Hd). unfold holds in *. split.
      * intros (k' & ids & [H|H] & Hk2 & Hid).
        -- injection H as <- <-. left. exists k0, ids0. cbn. auto.
        -- destruct (proj1 IH) as [(k3 & i3 & H3 & K3 & I3)|R]; [exists k', ids; auto| |right; exact R].
           left. exists k3, i3. cbn. auto.
      * intros [(k' & ids & [H|H] & Hk2 & Hid)|R].
        -- injection H as <- <-. exists k0, ids0. cbn. auto.
        -- destruct (proj2 IH) as (k3 & i3 & H3 & K3 & I3); [left; exists k', ids; auto|].
           exists k3, i3. cbn. auto.
        -- destruct (proj2 IH) as (k3 & i3 & H3 & K3 & I3); [right; exact R|].
           exists k3, i3. cbn. auto.
Qed.

Lemma ix_add_nodup ix k id :
  NoDup (all_ids ix) -> ~ In id (all_ids ix) -> NoDup (all_ids (ix_add keq ix k id)).
Proof.
  unfold all_ids. induction ix as [|[k0 ids0] r IH]; cbn [ix_add map concat snd]; intros Hn Hni.
  - cbn. repeat constructor. intros [].
  - rewrite in_app_iff in Hni.
    destruct (nodup_app_inv _ _ Hn) as (Hn0 & Hnr & Hdis).
    destruct (keq k0 k); cbn [map concat snd].
    + destruct (mem id ids0) eqn:Em; [exact Hn|].
      apply nodup_app; auto.
      * apply nodup_app; auto; [repeat constructor; intros []|]. intros x H1 [<-|[]]. tauto.
      * intros x H1 H2. apply in_app_or in H1. destruct H1 as [H1|[<-|[]]]; [eauto|tauto].
    + apply nodup_app; auto.
      intros x H1 H2.
      assert (In x (concat (map snd r)) \/ x = id).
      { clear - H2. induction r as [|[k1 i1] r IHr]; cbn [ix_add map concat snd] in *.
        - cbn in H2. destruct H2 as [<-|[]]. right; reflexivity.
        - destruct (keq k1 k); cbn [map concat snd] in H2.
          + apply in_app_or in H2. destruct H2 as [H2|H2]; [|left; apply in_or_app; right; exact H2].
            destruct (mem id i1); [left; apply in_or_app; left; exact H2|].
            apply in_app_or in H2. destruct H2 as [H2|[<-|[]]]; [left; apply in_or_app; left; exact H2|right; reflexivity].
          + apply in_app_or in H2. destruct H2 as [H2|H2]; [left; apply in_or_app; left; exact H2|].
            destruct (IHr H2) as [H3| ->]; [left; apply in_or_app; right; exact H3|right; reflexivity]. }
      destruct H as [H| ->]; [eauto|tauto].
Qed.

Lemma ix_remove_sub ix k id x : In x (all_ids (ix_remove keq ix k id)) -> In x (all_ids ix).
Proof.
  unfold all_ids. induction ix as [|[k0 ids0] r IH]; cbn [ix_remove map concat snd]; [auto|].
  destruct (keq k0 k).
  - destruct (filter (fun y => negb (y =? id)) ids0) as [|a l] eqn:Ef.
    + intros H. apply in_or_app. right. exact H.
    + cbn [map concat snd]. rewrite <- Ef. intros H. apply in_app_or in H. apply in_or_app.
      destruct H as [H|H]; [left; apply filter_In in H; tauto|right; exact H].
  - cbn [map concat snd]. intros H. apply in_app_or in H. apply in_or_app. destruct H; [left|right]; auto.
Qed.

Lemma ix_remove_nodup ix k id : NoDup (all_ids ix) -> NoDup (all_ids (ix_remove keq ix k id)).
Proof.
  unfold all_ids. induction ix as [|[k0 ids0] r IH]; cbn [ix_remove map concat snd]; intros Hn; [constructor|].
  destruct (nodup_app_inv _ _ Hn) as (Hn0 & Hnr & Hdis).
  destruct (keq k0 k).
  - destruct (filter (fun y => negb (y =? id)) ids0) as [|a l] eqn:Ef; [exact Hnr|].
    cbn [map concat snd]. rewrite <- Ef. apply nodup_app; auto; [apply NoDup_filter; exact Hn0|].
    intros x H1 H2. apply filter_In in H1. destruct H1. eauto.
  - cbn [map concat snd]. apply nodup_app; auto.
    intros x H1 H2. apply (ix_remove_sub r k id) in H2. eauto.
Qed.

Lemma ix_remove_distinct ix k id : distinct ix -> distinct (ix_remove keq ix k id).
Proof.
  induction ix as [|[k0 ids0] r IH]; cbn [ix_remove distinct]; [auto|].
  intros [Hk Hd]. destruct (keq k0 k).
  - destruct (filter _ ids0); [exact Hd|]. cbn [distinct]. split; assumption.
  - cbn [distinct]. split; [|apply IH; exact Hd].
    intros k' ids' H. clear IH.
    assert (exists i0, In (k', i0) r).
    { clear - H. induction r as [|[k1 i1] r IHr]; cbn [ix_remove] in H; [contradiction|].
      destruct (keq k1 k).
      - destruct (filter _ i1).
        + exists ids'. right. exact H.
        + destruct H as [H|H]; [injection H as <- <-; exists i1; left; reflexivity|exists ids'; right; exact H].
      - destruct H as [H|H]; [injection H as <- <-; exists i1; left; reflexivity|].
        destruct (IHr H) as (i0 & Hi). exists i0. right. exact Hi. }
    destruct H0 as (i0 & Hi). eapply Hk. exact Hi.
Qed.

Lemma ix_remove_holds ix k id k2 id2 :
  distinct ix ->
  (holds (ix_remove keq ix k id) k2 id2 <-> holds ix k2 id2 /\ ~ (keq k k2 = true /\ id2 = id)).
Proof.
  induction ix as [|[k0 ids0] r IH]; cbn [ix_remove distinct].
  - intros _. unfold holds. split; [intros (? & ? & [] & _)|intros [(? & ? & [] & _) _]].
  - intros [Hk Hd]. destruct (keq k0 k) eqn:E.
    + assert (Hother : forall k' ids, In (k', ids) r -> keq k' k2 = true -> keq k k2 = false).
      { intros k' ids Hin Hk2. destruct (keq k k2) eqn:E2; [|reflexivity].
        assert (keq k0 k' = true).
        { apply (keq_trans k0 k2 k'); [apply (keq_trans k0 k k2); assumption|rewrite keq_sym; exact Hk2]. }
        rewrite (Hk _ _ Hin) in H. discriminate. }
      unfold holds. split.
      * intros (k' & ids & Hin & Hk2 & Hid).
        destruct (filter (fun y => negb (y =? id)) ids0) as [|a l] eqn:Ef.
        -- split; [exists k', ids; cbn; auto|]. intros [Hc _]. rewrite (Hother _ _ Hin Hk2) in Hc. discriminate.
        -- destruct Hin as [Hin|Hin].
           ++ injection Hin as <- <-. rewrite <- Ef in Hid. apply filter_In in Hid. destruct Hid as [Hid Hne].
              split; [exists k0, ids0; cbn; auto|]. intros [_ ->]. rewrite N.eqb_refl in Hne. discriminate.
           ++ split; [exists k', ids; cbn; auto|]. intros [Hc _]. rewrite (Hother _ _ Hin Hk2) in Hc. discriminate.
      * intros [(k' & ids & [Hin|Hin] & Hk2 & Hid) Hneg].
        -- injection Hin as <- <-.
           assert (Hne : id2 <> id).
           { intros ->. apply Hneg. split; [|reflexivity]. apply (keq_trans k k0 k2); [rewrite keq_sym; exact E|exact Hk2]. }
           assert (Hf : In id2 (filter (fun y => negb (y =? id)) ids0)).
           { apply filter_In. split; [exact Hid|]. apply negb_true_iff, N.eqb_neq. exact Hne. }
           destruct (filter (fun y => negb (y =? id)) ids0) as [|a l] eqn:Ef; [contradiction|].
           exists k0, (a :: l). cbn. auto.
        -- destruct (filter (fun y => negb (y =? id)) ids0); exists k', ids; cbn; auto.
    + specialize (IH Hd). unfold holds in *. split.
      * intros (k' & ids & [Hin|Hin] & Hk2 & Hid).
        -- injection Hin as <- <-. split; [exists k0, ids0; cbn; auto|].
           intros [Hc _]. assert (keq k0 k = true); [|congruence].
           apply (keq_trans k0 k2 k); [exact Hk2|rewrite keq_sym; exact Hc].
        -- destruct (proj1 IH) as [(k3 & i3 & H3 & K3 & I3) Hneg]; [exists k', ids; auto|].
           split; [exists k3, i3; cbn; auto|exact Hneg].
      * intros [(k' & ids & [Hin|Hin] & Hk2 & Hid) Hneg].
        -- injection Hin as <- <-. exists k0, ids0. cbn. auto.
        -- destruct (proj2 IH) as (k3 & i3 & H3 & K3 & I3); [split; [exists k', ids; auto|exact Hneg]|].
           exists k3, i3. cbn. auto.
Qed.

Lemma ix_get_spec ix k id : distinct ix -> (In id (ix_get keq ix k) <-> holds ix k id).
Proof.
  unfold ix_get, holds. induction ix as [|[k0 ids0] r IH]; cbn [find distinct fst snd].
  - intros _. split; [intros []|intros (? & ? & [] & _)].
  - intros [Hk Hd]. destruct (keq k0 k) eqn:E; cbn [snd].
    + split.
      * intros H. exists k0, ids0. cbn. auto.
      * intros (k' & ids & [Hin|Hin] & Hk2 & Hid); [injection Hin as <- <-; exact Hid|].
        assert (keq k0 k' = true) by (apply (keq_trans k0 k k'); [exact E|rewrite keq_sym; exact Hk2]).
        rewrite (Hk _ _ Hin) in H. discriminate.
    + rewrite (IH Hd). split.
      * intros (k' & ids & Hin & R). exists k', ids. cbn. auto.
      * intros (k' & ids & [Hin|Hin] & Hk2 & Hid); [injection Hin as <- <-; congruence|].
        exists k', ids. auto.
Qed.

Lemma ix_get_nodup ix k : NoDup (all_ids ix) -> NoDup (ix_get keq ix k).
Proof.
  unfold ix_get, all_ids. induction ix as [|[k0 ids0] r IH]; cbn [find map concat fst snd]; intros Hn; [constructor|].
  destruct (nodup_app_inv _ _ Hn) as (Hn0 & Hnr & _).
  destruct (keq k0 k); cbn [snd]; [exact Hn0|]. apply IH. exact Hnr.
Qed.

End Entries.
