(* C04/Props.v -- pinned property theorems; nothing but statements closed by `exact`.
   `norm` is Run.norm = gen_float_key_normalises_zero, regenerated from Value::hash_key on every run:
   the statements below type-check against the lemmas (proved for a key that normalises the sign of
   zero) only while the regenerated flag is `true`. *)
From NV.Common Require Import Base.
From NV.C04 Require Import Types Model Proofs Run Inst.
From NV.gen Require Import Gen_C04.
Open Scope N_scope.

Definition gstep (st : state) (o : op) : state :=
  match o with
  | OInsert vals => fst (insert norm st vals)
  | OUpdate c sets => fst (update norm st c sets)
  | ODelete c => fst (delete norm st c)
  | ODdl kind col => fst (ddl norm st kind col)
  end.
Definition grun (s : schema) (ops : list op) : state := fold_left gstep ops (init s).

(* Every execution strategy, on every state reachable by any sequence of inserts / updates / deletes /
   index creations / drops over any schema, returns exactly the rows satisfying the condition
   (`scan` = filter (evaluate c) over the live rows): scan or hash index or ordered index with
   re-check (select), the vectorised path with fallback (select_columnar = the text path),
   limit/offset, cursor, count, min, max. *)
Theorem C04_every_strategy_exact :
  forall s ops c lim off col,
  (length s <= 1000)%nat -> Forall op_ok ops -> valid_cond c ->
  let st := grun s ops in
  let exact := filter (evaluate c) (live (tbl st)) in
  select norm st c = exact /\
  select_columnar norm st c = exact /\
  select_with_limit norm st c lim off = firstn (N.to_nat lim) (skipn (N.to_nat off) exact) /\
  select_iter norm st c lim off = (if lim =? 0 then skipn (N.to_nat off) exact
                                   else firstn (N.to_nat lim) (skipn (N.to_nat off) exact)) /\
  count norm st c = N.of_nat (length exact) /\
  agg_min norm st c col = agg_best Lt col exact /\
  agg_max norm st c col = agg_best Gt col exact.
Proof. exact strategies_exact. Qed.
Example C04_every_strategy_nonvacuous :
  let ops := [OInsert [VFloat 9223372036854775808; VNull]; ODdl 0 0; ODdl 1 1; OInsert [VFloat 0; VInt 3];
              OUpdate (CCmp 0 0 (VFloat 0)) [(1, VInt 7)]; ODelete (CCmp 2 1 (VInt 0))] in
  Forall op_ok ops /\ length (select norm (grun [(1, false); (0, true)] ops) (CCmp 0 0 (VFloat 0))) = 2%nat.
Proof.
  split; [|vm_compute; reflexivity].
  repeat constructor; cbn; try exact I; try (vm_compute; reflexivity); intros []; try discriminate; auto.
Qed.

Theorem C04_count_column_exact :
  forall s ops c col, (length s <= 1000)%nat -> Forall op_ok ops -> valid_cond c ->
  let st := grun s ops in
  count_column norm st c col =
  N.of_nat (length (filter (non_null_at col) (filter (evaluate c) (live (tbl st))))).
Proof.
  intros s ops c col Hs Hok Hc. destruct (good_run s ops Hs Hok) as (Hi & Hv & _).
  exact (count_column_exact _ c col Hi Hv Hc).
Qed.

(* Index completeness: on every reachable state every hash / ordered index holds exactly the live
   rows, each filed once under (a key equivalent to) its current key. *)
Theorem C04_index_invariant :
  forall s ops, (length s <= 1000)%nat -> Forall op_ok ops ->
  let st := grun s ops in
  Forall (fun ce => ix_inv hkeq (hash_key norm) (tbl st) (fst ce) (snd ce)) (hidx st) /\
  Forall (fun ce => ix_inv okeq (fun v => v) (tbl st) (fst ce) (snd ce)) (bidx st).
Proof. exact (fun s ops Hs Hok => proj1 (good_run s ops Hs Hok)). Qed.

(* Candidate-then-recheck is exact for ANY duplicate-free candidate list covering the satisfying rows. *)
Theorem C04_recheck_exact :
  forall t c cands, NoDup cands ->
  (forall r, In r (live t) -> evaluate c r = true -> In (fst r) cands) ->
  sort_rows (filter (evaluate c) (fetch t cands)) = filter (evaluate c) (live t).
Proof. exact recheck_exact. Qed.

(* ... and the hash key supplies such candidates because it respects ==; with raw float bits it
   does not (F-C04-negzero, fixed in 4bad7dae). *)
Theorem C04_hash_key_respects_eq :
  forall x v, valid_value x -> valid_value v -> veq x v = true -> hash_key norm x = hash_key norm v.
Proof. exact hash_key_respects_veq. Qed.
Theorem C04_hash_key_raw_bits_refuted :
  exists x v, valid_value x /\ valid_value v /\ veq x v = true /\ hash_key false x <> hash_key false v.
Proof. exact hash_key_raw_bits_refuted. Qed.

(* The vectorised path (kernel AND alive AND NOT null; Ne keeps NULLs; And/Or = intersect/union)
   on any well-typed table selects exactly the satisfying rows whenever it applies. *)
Theorem C04_vectorised_exact :
  forall s t c bits, (length s <= 1000)%nat -> wt_table s t -> vfilter s t c = Some bits ->
  pick_from 0 t bits = filter (evaluate c) (live t).
Proof. exact vectorised_exact. Qed.
Example C04_vectorised_nonvacuous :
  let t := [Slot true [VNull]; Slot true [VInt 3]; Slot false [VInt 1]; Slot true [VInt 9]] in
  vfilter [(0, true)] t (COr (CCmp 2 0 (VInt 5)) (CCmp 1 0 (VInt 9))) = Some [true; true; false; false] /\
  wt_table [(0, true)] t.
Proof.
  split; [vm_compute; reflexivity|].
  repeat constructor; cbn; intros [|[|i]] ty nl H; cbn in H; try discriminate; injection H as <- <-; reflexivity.
Qed.

(* update and delete touch exactly the rows satisfying the condition *)
Theorem C04_update_exact :
  forall st c sets st' n, update norm st c sets = (st', Some n) ->
  live (tbl st') = map (fun r => if evaluate c r then (fst r, apply_sets (snd r) sets) else r) (live (tbl st)) /\
  n = N.of_nat (length (filter (evaluate c) (live (tbl st)))).
Proof. exact update_exact. Qed.
Theorem C04_delete_exact :
  forall st c st' n, delete norm st c = (st', Some n) ->
  live (tbl st') = filter (fun r => negb (evaluate c r)) (live (tbl st)) /\
  n = N.of_nat (length (filter (evaluate c) (live (tbl st)))).
Proof. exact delete_exact. Qed.

Print Assumptions C04_every_strategy_exact.
Print Assumptions C04_count_column_exact.
Print Assumptions C04_index_invariant.
Print Assumptions C04_recheck_exact.
Print Assumptions C04_hash_key_respects_eq.
Print Assumptions C04_hash_key_raw_bits_refuted.
Print Assumptions C04_vectorised_exact.
Print Assumptions C04_update_exact.
Print Assumptions C04_delete_exact.
