(* C04/Props.v -- pinned property theorems *)
From NV.Common Require Import Base.
From NV.C04 Require Import Types Model Proofs Inst.
Open Scope N_scope.
