(* C04/Run.v -- executable entry points for the correspondence check and the property oracle.
   Depends on Model + gen/Gen_C04 only. *)
From NV.Common Require Import Base.
From NV.C04 Require Import Types Model.
From NV.gen Require Import Gen_C04.
Open Scope N_scope.

Definition dump := list row.
Inductive qres :=
| QRows (rows : list row)
| QCount (n : N)
| QVal (v : option value)
| QSum (bits : N)
| QErr.

(* strat: 0 select, 1 select_with_limit, 2 select_columnar, 3 select_iter (lim 0 = none),
          4 count, 6 min, 7 max, 8 text (QueryRouter::execute_parsed "SELECT * FROM t WHERE ..."),
          10 count_column *)
Inductive step :=
| SInsert (vals : list value) (ret : option N) (post : dump)
| SUpdate (c : cond) (sets : list (N * value)) (touched : list N) (ret : option N) (post : dump)
| SDelete (c : cond) (touched : list N) (ret : option N) (post : dump)
| SIndex (kind col : N) (ok : bool)
| SQuery (strat : N) (c : cond) (lim off col : N) (expected : list N) (got : qres)
| SSync (post : dump).   (* the real table after something the oracle does not judge (e.g. ROLLBACK) *)

Definition scen_case := (schema * list step)%type.

Definition rows_eqb (a b : list row) : bool := list_eqb row_eqb a b.
Definition qres_eqb (a b : qres) : bool :=
  match a, b with
  | QRows x, QRows y => rows_eqb x y
  | QCount x, QCount y => N.eqb x y
  | QVal x, QVal y => option_eqb value_eqb x y
  | QSum x, QSum y => N.eqb x y
  | QErr, QErr => true
  | _, _ => false
  end.
Definition memN (x : N) (l : list N) : bool := existsb (N.eqb x) l.

(* ---- the property, evaluated on the implementation's own data only ----
   `prev` is the real table (select(True)) before the step; `touched` / `expected` are the ids the
   REAL Condition::evaluate selects on it. *)
Definition demanded (prev : dump) (strat : N) (lim off col : N) (expected : list N) : qres :=
  let rows := filter (fun r => memN (fst r) expected) prev in
  if (strat =? 0) || (strat =? 2) || (strat =? 8) then QRows rows
  else if strat =? 1 then QRows (firstn (N.to_nat lim) (skipn (N.to_nat off) rows))
  else if strat =? 3 then QRows (if lim =? 0 then skipn (N.to_nat off) rows
                                 else firstn (N.to_nat lim) (skipn (N.to_nat off) rows))
  else if strat =? 4 then QCount (N.of_nat (length rows))
  else if strat =? 10 then QCount (N.of_nat (length (filter (non_null_at col) rows)))
  else if strat =? 6 then QVal (agg_best Lt col rows)
  else QVal (agg_best Gt col rows).

Definition oracle_step (prev : dump) (s : step) : bool :=
  match s with
  | SInsert vals ret post =>
      match ret with
      | Some id => rows_eqb post (prev ++ [(id, vals)])
      | None => rows_eqb post prev
      end
  | SUpdate c sets touched ret post =>
      match ret with
      | Some n =>
          (n =? N.of_nat (length touched)) &&
          rows_eqb post (map (fun r => if memN (fst r) touched then (fst r, apply_sets (snd r) sets) else r) prev)
      | None => rows_eqb post prev
      end
  | SDelete c touched ret post =>
      match ret with
      | Some n =>
          (n =? N.of_nat (length touched)) &&
          rows_eqb post (filter (fun r => negb (memN (fst r) touched)) prev)
      | None => rows_eqb post prev
      end
  | SIndex _ _ _ => true
  | SQuery strat c lim off col expected got => qres_eqb got (demanded prev strat lim off col expected)
  | SSync _ => true
  end.

(* ---- the model on the same step ---- *)
Definition norm := gen_float_key_normalises_zero.
Definition model_query (st : state) (strat : N) (c : cond) (lim off col : N) : qres :=
  if strat =? 0 then QRows (select norm st c)
  else if strat =? 1 then QRows (select_with_limit norm st c lim off)
  else if (strat =? 2) || (strat =? 8) then QRows (select_columnar norm st c)
  else if strat =? 3 then QRows (select_iter norm st c lim off)
  else if strat =? 4 then QCount (count norm st c)
  else if strat =? 10 then QCount (count_column norm st c col)
  else if strat =? 6 then QVal (agg_min norm st c col)
  else QVal (agg_max norm st c col).

(* returns (new state, model agrees with the implementation on this step) *)
Definition model_step (st : state) (s : step) : state * bool :=
  match s with
  | SInsert vals ret post =>
      let '(st', r) := insert norm st vals in
      (st', option_eqb N.eqb r ret && rows_eqb (live (tbl st')) post)
  | SUpdate c sets touched ret post =>
      let '(st', r) := update norm st c sets in
      (st', option_eqb N.eqb r ret && rows_eqb (live (tbl st')) post &&
            list_eqb N.eqb (map fst (scan (tbl st) c)) touched)
  | SDelete c touched ret post =>
      let '(st', r) := delete norm st c in
      (st', option_eqb N.eqb r ret && rows_eqb (live (tbl st')) post &&
            list_eqb N.eqb (map fst (scan (tbl st) c)) touched)
  | SIndex kind col ok =>
      let '(st', r) := ddl norm st kind col in (st', Bool.eqb r ok)
  | SQuery strat c lim off col expected got =>
      (st, qres_eqb (model_query st strat c lim off col) got &&
           list_eqb N.eqb (map fst (scan (tbl st) c)) expected)
  | SSync _ => (st, false)   (* never emitted in model-checked cases *)
  end.

Definition post_of (prev : dump) (s : step) : dump :=
  match s with
  | SInsert _ _ post | SUpdate _ _ _ _ post | SDelete _ _ _ post | SSync post => post
  | _ => prev
  end.

(* walk: oracle first (on the implementation's data), then correspondence *)
Fixpoint walk (st : state) (prev : dump) (steps : list step) (mismatch : bool) : N :=
  match steps with
  | [] => if mismatch then V_MISMATCH else V_OK
  | s :: r =>
      if negb (oracle_step prev s) then V_VIOLATION
      else let '(st', ok) := model_step st s in
           walk st' (post_of prev s) r (mismatch || negb ok)
  end.

Definition check_scen (c : scen_case) : N :=
  let '(s, steps) := c in walk (init s) [] steps false.

(* ---- budget cases: engines with a tiny B-tree entry budget (RelationalConfig::with_max_btree_entries),
   indexes created on the empty table, statements that fail half-way, outside and inside transactions.
   The model has no entry budget, so these cases are judged by the property oracle alone, on the
   implementation's own data: after EVERY statement (failed ones included) every index-served query
   must return exactly the rows the real evaluate selects on the real scan, a failed statement
   must leave the table as it was, and a successful one must touch exactly the satisfying rows. *)
Fixpoint walk_oracle (prev : dump) (steps : list step) : N :=
  match steps with
  | [] => V_OK
  | s :: r => if negb (oracle_step prev s) then V_VIOLATION else walk_oracle (post_of prev s) r
  end.
Definition check_budget (c : scen_case) : N := walk_oracle [] (snd c).
