(* C04/Types.v -- values, conditions, rows of relational_engine (lib.rs Value / Condition / Row),
   floats as IEEE-754 binary64 bit patterns, strings as UTF-8 byte lists. *)
From NV.Common Require Import Base.
Open Scope N_scope.

Inductive value :=
| VNull
| VInt (z : Z)
| VFloat (bits : N)
| VStr (s : list N)
| VBool (b : bool).

(* column type codes: 0 Int, 1 Float, 2 String, 3 Bool *)
Definition has_type (ty : N) (v : value) : bool :=
  match v with
  | VNull => true
  | VInt _ => ty =? 0
  | VFloat _ => ty =? 1
  | VStr _ => ty =? 2
  | VBool _ => ty =? 3
  end.

(* op codes: 0 Eq, 1 Ne, 2 Lt, 3 Le, 4 Gt, 5 Ge.  Column codes: index into the schema;
   ID_COL is the pseudo-column `_id`; any other code is a column the table does not have. *)
Inductive cond :=
| CTrue
| CCmp (op col : N) (v : value)
| CAnd (a b : cond)
| COr (a b : cond).
Definition ID_COL : N := 1000.

Definition row := (N * list value)%type.     (* (id, values in schema order) *)

(* ---- IEEE-754 binary64 on bit patterns ---- *)
Definition f_is_nan (b : N) : bool :=
  ((b / 2 ^ 52) mod 2 ^ 11 =? 2047) && negb (b mod 2 ^ 52 =? 0).
(* order-preserving key of a non-NaN: sign-magnitude to Z (both zeros map to 0) *)
Definition f_key (b : N) : Z :=
  let m := b mod 2 ^ 63 in if b <? 2 ^ 63 then Z.of_N m else (- Z.of_N m)%Z.
(* f64::partial_cmp *)
Definition f_cmp (a b : N) : option comparison :=
  if f_is_nan a || f_is_nan b then None else Some (Z.compare (f_key a) (f_key b)).
(* f64 == *)
Definition f_eq (a b : N) : bool := match f_cmp a b with Some Eq => true | _ => false end.
Definition f_is_zero (b : N) : bool := b mod 2 ^ 63 =? 0.

(* String::cmp = lexicographic on bytes *)
Fixpoint s_cmp (a b : list N) : comparison :=
  match a, b with
  | [], [] => Eq
  | [], _ => Lt
  | _, [] => Gt
  | x :: a', y :: b' => match N.compare x y with Eq => s_cmp a' b' | c => c end
  end.

(* derived PartialEq of Value *)
Definition veq (a b : value) : bool :=
  match a, b with
  | VNull, VNull => true
  | VInt x, VInt y => Z.eqb x y
  | VFloat x, VFloat y => f_eq x y
  | VStr x, VStr y => list_eqb N.eqb x y
  | VBool x, VBool y => Bool.eqb x y
  | _, _ => false
  end.
(* Value::partial_cmp_value: only Int/Int, Float/Float, String/String are comparable *)
Definition vcmp (a b : value) : option comparison :=
  match a, b with
  | VInt x, VInt y => Some (Z.compare x y)
  | VFloat x, VFloat y => f_cmp x y
  | VStr x, VStr y => Some (s_cmp x y)
  | _, _ => None
  end.

(* exact (bitwise) equality, for comparing outputs *)
Definition value_eqb (a b : value) : bool :=
  match a, b with
  | VNull, VNull => true
  | VInt x, VInt y => Z.eqb x y
  | VFloat x, VFloat y => N.eqb x y
  | VStr x, VStr y => list_eqb N.eqb x y
  | VBool x, VBool y => Bool.eqb x y
  | _, _ => false
  end.
Definition row_eqb (a b : row) : bool := N.eqb (fst a) (fst b) && list_eqb value_eqb (snd a) (snd b).
