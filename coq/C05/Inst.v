(* C05/Inst.v -- PER-RUN OBLIGATIONS over gen/Gen_C05.v (regenerated from graph_engine/src/lib.rs on
   every run): remove_edge_from_list removes the id from a list in ANY order (adjacency lists are
   ascending only in sequential histories: two threads can append a larger id first), and
   add_edge_to_list appends unless present -- i.e. they are the `remove_from` / `add_to` of the model. *)
From NV.Common Require Import Base.
From NV.C05 Require Import Model Proofs.
From NV.gen Require Import Gen_C05.
Open Scope N_scope.

Lemma gen_remove_spec : forall l e, gen_remove_from l e = remove_from l e.
Proof. intros l e. unfold gen_remove_from, remove_from. reflexivity. Qed.

Lemma gen_remove_any_order : forall l e, ~ In e (gen_remove_from l e).
Proof. intros l e. rewrite gen_remove_spec. rewrite In_remove_from. tauto. Qed.

Lemma gen_add_spec : forall l e, gen_add_to l e = add_to l e.
Proof. intros l e. unfold gen_add_to, add_to, mem. reflexivity. Qed.

(* ids are reserved by a single atomic fetch_add, so concurrent creations never share an id: the
   premise "distinct fresh ids" of C05_concurrent_atomic_rmw *)
Lemma gen_ids_atomic_spec : gen_ids_reserved_atomically = true.
Proof. reflexivity. Qed.
