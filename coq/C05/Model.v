(* C05/Model.v -- store-level model of the structural graph operations of graph_engine/src/lib.rs.
   Definitions only.  The store holds node keys, edge records and, per node, two adjacency lists
   stored as separate values (`node:<id>:out`, `node:<id>:in`).  Every graph operation is a sequence
   of atomic store steps; the adjacency updates are read-modify-write steps on one key. *)
From NV.Common Require Import Base.
Open Scope N_scope.

Record erec := ER { rfrom : N; rto : N; rdir : bool }.
Record store := ST {
  snodes : list N;                    (* node:<id> keys *)
  sout : list (N * list N);           (* node:<id>:out -> edge ids *)
  sinl : list (N * list N);           (* node:<id>:in  -> edge ids *)
  sedges : list (N * erec);           (* edge:<id> -> record *)
  ncount : N; ecount : N              (* id counters (atomic fetch_add) *)
}.
Definition empty : store := ST [] [] [] [] 0 0.

Definition mem (x : N) (l : list N) : bool := existsb (N.eqb x) l.
Fixpoint dedup (l : list N) : list N :=
  match l with [] => [] | x :: r => if mem x r then dedup r else x :: dedup r end.
Fixpoint insert_sorted (x : N) (l : list N) : list N :=
  match l with [] => [x] | y :: r => if N.leb x y then x :: l else y :: insert_sorted x r end.
Definition sort_N (l : list N) : list N := fold_right insert_sorted [] l.

Inductive key := KOut (n : N) | KIn (n : N).
Definition get_list (s : store) (k : key) : option (list N) :=
  match k with KOut n => aget (sout s) n | KIn n => aget (sinl s) n end.
Definition put_list (s : store) (k : key) (l : list N) : store :=
  match k with
  | KOut n => ST (snodes s) (aset (sout s) n l) (sinl s) (sedges s) (ncount s) (ecount s)
  | KIn n => ST (snodes s) (sout s) (aset (sinl s) n l) (sedges s) (ncount s) (ecount s)
  end.
Definition del_list (s : store) (k : key) : store :=
  match k with
  | KOut n => ST (snodes s) (adel (sout s) n) (sinl s) (sedges s) (ncount s) (ecount s)
  | KIn n => ST (snodes s) (sout s) (adel (sinl s) n) (sedges s) (ncount s) (ecount s)
  end.
Definition node_exists (s : store) (n : N) : bool := mem n (snodes s).
Definition get_edge (s : store) (e : N) : option erec := aget (sedges s) e.

(* ---- atomic store steps of the edge operations (with the per-key lock, one RMW = one step) *)
Inductive astep :=
| APutEdge (e : N) (r : erec)
| AAdd (k : key) (e : N)           (* add_edge_to_list: get (or empty), push unless present, put *)
| ARemove (k : key) (e : N)        (* remove_edge_from_list: if the key exists, filter, put *)
| ADelEdge (e : N).

Definition add_to (l : list N) (e : N) : list N := if mem e l then l else l ++ [e].
Definition remove_from (l : list N) (e : N) : list N := filter (fun x => negb (N.eqb x e)) l.

Definition exec (s : store) (a : astep) : store :=
  match a with
  | APutEdge e r => ST (snodes s) (sout s) (sinl s) (aset (sedges s) e r) (ncount s) (ecount s)
  | AAdd k e => put_list s k (add_to (match get_list s k with Some l => l | None => [] end) e)
  | ARemove k e => match get_list s k with Some l => put_list s k (remove_from l e) | None => s end
  | ADelEdge e => ST (snodes s) (sout s) (sinl s) (adel (sedges s) e) (ncount s) (ecount s)
  end.
Definition run_steps (s : store) (l : list astep) : store := fold_left exec l s.

Definition create_edge_steps (e f t : N) (d : bool) : list astep :=
  [APutEdge e (ER f t d); AAdd (KOut f) e; AAdd (KIn t) e]
  ++ (if d then [] else [AAdd (KOut t) e; AAdd (KIn f) e]).
Definition delete_edge_steps (e : N) (r : erec) : list astep :=
  [ARemove (KOut (rfrom r)) e; ARemove (KIn (rto r)) e]
  ++ (if rdir r then [] else [ARemove (KOut (rto r)) e; ARemove (KIn (rfrom r)) e])
  ++ [ADelEdge e].
(* delete_node's clean-up of one incident edge (the deleted node's own lists are dropped wholesale) *)
Definition detach_steps (s : store) (n e : N) : list astep :=
  match get_edge s e with
  | Some r =>
      let other := if N.eqb (rfrom r) n then rto r else rfrom r in
      (if N.eqb (rfrom r) n then [ARemove (KIn other) e] else [])
      ++ (if N.eqb (rto r) n then [ARemove (KOut other) e] else [])
      ++ (if negb (rdir r) && negb (N.eqb other n) then [ARemove (KOut other) e; ARemove (KIn other) e] else [])
      ++ [ADelEdge e]
  | None => [ADelEdge e]
  end.

(* ---- operations *)
Inductive op :=
| CreateNode
| CreateEdge (f t : N) (d : bool)
| CreateEdgeId (e f t : N) (d : bool)     (* concurrent runs: the id the engine's counter handed out *)
| DeleteEdge (e : N)
| DeleteNode (n : N)
| UpdateNode (n : N)
| UpdateEdge (e : N)
| BatchCreateEdges (l : list (N * N * bool))   (* batch_create_edges: validate all, reserve an id block, create *)
| Reopen      (* GraphEngine::with_store on the same store: both id counters are recovered as the highest id present *)
| Rejected.   (* any call the engine refused with ConstraintViolation: a failed call changes nothing *)
Inductive res := RId (i : N) | ROk | RNoNode (n : N) | RNoEdge (e : N) | RErr | RIds (l : list N) | RRejected.

Definition with_ecount (s : store) (c : N) : store := ST (snodes s) (sout s) (sinl s) (sedges s) (ncount s) c.

Definition delete_node (s : store) (n : N) : store :=
  let o := match get_list s (KOut n) with Some l => l | None => [] end in
  let i := match get_list s (KIn n) with Some l => l | None => [] end in
  let s1 := fold_left (fun s e => run_steps s (detach_steps s n e)) (dedup (o ++ i)) s in
  let s2 := ST (filter (fun x => negb (N.eqb x n)) (snodes s1)) (sout s1) (sinl s1) (sedges s1) (ncount s1) (ecount s1) in
  del_list (del_list s2 (KOut n)) (KIn n).

Definition create_edge_op (s : store) (f t : N) (d : bool) : store * res :=
  if negb (node_exists s f) then (s, RNoNode f)
  else if negb (node_exists s t) then (s, RNoNode t)
  else let id := ecount s + 1 in
       (run_steps (with_ecount s id) (create_edge_steps id f t d), RId id).
(* phase 1 of batch_create_edges: the first missing endpoint, edges in order, `from` before `to` *)
Fixpoint batch_missing (s : store) (l : list (N * N * bool)) : option N :=
  match l with
  | [] => None
  | (f, t, _) :: r => if negb (node_exists s f) then Some f
                      else if negb (node_exists s t) then Some t else batch_missing s r
  end.
Definition batch_create (s : store) (l : list (N * N * bool)) : store * res :=
  match batch_missing s l with
  | Some n => (s, RNoNode n)
  | None => (fold_left (fun s c => let '(f, t, d) := c in fst (create_edge_op s f t d)) l s,
             RIds (N_seq_from (ecount s + 1) (length l)))
  end.

Definition apply (s : store) (o : op) : store * res :=
  match o with
  | CreateNode =>
      let id := ncount s + 1 in
      (ST (snodes s ++ [id]) (aset (sout s) id []) (aset (sinl s) id []) (sedges s) id (ecount s), RId id)
  | CreateEdge f t d => create_edge_op s f t d
  | BatchCreateEdges l => batch_create s l
  | Rejected => (s, RRejected)
  | Reopen => (ST (snodes s) (sout s) (sinl s) (sedges s)
                  (fold_left N.max (snodes s) 0) (fold_left N.max (map fst (sedges s)) 0), ROk)
  | CreateEdgeId e f t d =>
      if negb (node_exists s f) then (s, RNoNode f)
      else if negb (node_exists s t) then (s, RNoNode t)
      else (run_steps (with_ecount s (N.max (ecount s) e)) (create_edge_steps e f t d), RId e)
  | DeleteEdge e =>
      match get_edge s e with
      | Some r => (run_steps s (delete_edge_steps e r), ROk)
      | None => (s, RNoEdge e)
      end
  | DeleteNode n =>
      if node_exists s n then (delete_node s n, ROk) else (s, RNoNode n)
  | UpdateNode n => if node_exists s n then (s, ROk) else (s, RNoNode n)
  | UpdateEdge e => match get_edge s e with Some _ => (s, ROk) | None => (s, RNoEdge e) end
  end.

Fixpoint run (s : store) (ops : list op) : store :=
  match ops with [] => s | o :: r => run (fst (apply s o)) r end.

(* ---- public reads *)
(* edges_of(n, Outgoing/Incoming): ids of the list that still resolve, deduplicated, sorted *)
Definition edges_of (s : store) (k : key) : list N :=
  sort_N (filter (fun e => match get_edge s e with Some _ => true | None => false end)
                 (dedup (match get_list s k with Some l => l | None => [] end))).
Definition degree_of (s : store) (k : key) : N :=
  N.of_nat (length (match get_list s k with Some l => l | None => [] end)).
(* neighbors(n, None, dir, None): other endpoints over the list(s), the node itself excluded; only
   nodes that exist are returned *)
Definition nbr_of (s : store) (n : N) (l : list N) : list N :=
  flat_map (fun e => match get_edge s e with
                     | Some r => if N.eqb (rfrom r) n && negb (N.eqb (rto r) n) then [rto r]
                                 else if N.eqb (rto r) n && negb (N.eqb (rfrom r) n) then [rfrom r]
                                 else []
                     | None => [] end) l.
Definition neighbors (s : store) (n : N) (dir : N) : list N :=
  let o := match get_list s (KOut n) with Some l => l | None => [] end in
  let i := match get_list s (KIn n) with Some l => l | None => [] end in
  sort_N (filter (node_exists s)
            (dedup ((if N.eqb dir 0 || N.eqb dir 2 then nbr_of s n o else [])
                    ++ (if N.eqb dir 1 || N.eqb dir 2 then nbr_of s n i else [])))).

(* what the harness reads through the public API at a quiescent moment *)
Record nobs := NO { o_id : N; o_out : list N; o_in : list N; o_outdeg : N; o_indeg : N;
                    o_nout : list N; o_nin : list N; o_nboth : list N }.
(* ob_ok: count_edges/count_nodes equal the sizes of all_edges/all_nodes and get_edge(id) answers for
   exactly the ids of all_edges, with the same record (checked by the harness for every id up to the
   largest handed out plus one) *)
Record obs := OB { ob_nodes : list N; ob_edges : list (N * erec); ob_per : list nobs; ob_ok : bool }.

Fixpoint insert_edge (x : N * erec) (l : list (N * erec)) : list (N * erec) :=
  match l with [] => [x] | y :: r => if N.leb (fst x) (fst y) then x :: l else y :: insert_edge x r end.
Definition observe (s : store) : obs :=
  let ns := sort_N (snodes s) in
  OB ns (fold_right insert_edge [] (sedges s))
     (map (fun n => NO n (edges_of s (KOut n)) (edges_of s (KIn n)) (degree_of s (KOut n)) (degree_of s (KIn n))
                       (neighbors s n 0) (neighbors s n 1) (neighbors s n 2)) ns)
     true.

(* ---- traverse(start, dir, max_depth, None, None): get_neighbor_ids_filtered over the lists, then a
   breadth-first walk by depth; the result is compared as a sorted set (the order depends on HashSet
   iteration) *)
Definition trav_nbrs (s : store) (dir : N) (cur : N) : list N :=
  let o := match get_list s (KOut cur) with Some l => l | None => [] end in
  let i := match get_list s (KIn cur) with Some l => l | None => [] end in
  filter (fun w => negb (N.eqb w cur))
    ((if N.eqb dir 0 || N.eqb dir 2 then
        flat_map (fun e => match get_edge s e with
                           | Some r => (if N.eqb (rfrom r) cur then [rto r] else [])
                                       ++ (if negb (rdir r) && N.eqb (rto r) cur then [rfrom r] else [])
                           | None => [] end) o
      else [])
     ++
     (if N.eqb dir 1 || N.eqb dir 2 then
        flat_map (fun e => match get_edge s e with
                           | Some r => (if N.eqb (rto r) cur then [rfrom r] else [])
                                       ++ (if negb (rdir r) && N.eqb (rfrom r) cur then [rto r] else [])
                           | None => [] end) i
      else [])).
Fixpoint add_new (seen : list N) (xs : list N) : list N * list N :=
  match xs with
  | [] => (seen, [])
  | x :: r => if mem x seen then add_new seen r
              else let '(s1, nw) := add_new (seen ++ [x]) r in (s1, x :: nw)
  end.
Fixpoint by_depth (step : N -> list N) (depth : nat) (seen frontier : list N) : list N :=
  match depth with
  | O => seen
  | S d => let '(seen', nw) := add_new seen (flat_map step frontier) in
           match nw with [] => seen' | _ => by_depth step d seen' nw end
  end.
Definition traverse (s : store) (start dir depth : N) : option (list N) :=
  if node_exists s start
  then Some (sort_N (filter (node_exists s) (by_depth (trav_nbrs s dir) (N.to_nat depth) [start] [start])))
  else None.

(* ---- interleaving semantics WITHOUT the per-key lock: the read and the write-back of an
   adjacency update are separate steps of a thread with a private register *)
Inductive nstep :=
| NAtom (a : astep)                       (* a step that is a single store operation anyway *)
| NRead (t : N) (k : key)                 (* thread t: reg := store.get(k) *)
| NWriteAdd (t : N) (k : key) (e : N).    (* thread t: store.put(k, reg + e) *)
Definition nstate := (store * list (N * list N))%type.
Definition nexec (st : nstate) (a : nstep) : nstate :=
  let '(s, regs) := st in
  match a with
  | NAtom a => (exec s a, regs)
  | NRead t k => (s, aset regs t (match get_list s k with Some l => l | None => [] end))
  | NWriteAdd t k e => (put_list s k (add_to (match aget regs t with Some l => l | None => [] end) e), regs)
  end.
Definition nrun (s : store) (l : list nstep) : store := fst (fold_left nexec l (s, [])).
Definition create_edge_nsteps (t e f to_ : N) (d : bool) : list nstep :=
  [NAtom (APutEdge e (ER f to_ d)); NRead t (KOut f); NWriteAdd t (KOut f) e; NRead t (KIn to_); NWriteAdd t (KIn to_) e]
  ++ (if d then [] else [NRead t (KOut to_); NWriteAdd t (KOut to_) e; NRead t (KIn f); NWriteAdd t (KIn f) e]).
