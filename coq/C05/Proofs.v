(* C05/Proofs.v -- structural consistency of the store-level graph model: sequential invariant for
   every operation sequence, and the concurrent theorem over arbitrary interleavings of the atomic
   steps of edge creations/deletions (adjacency read-modify-write atomic per key). *)
From NV.Common Require Import Base.
From NV.C05 Require Import Model.
Open Scope N_scope.

Arguments N.add : simpl never.
Arguments N.eqb : simpl never.
Arguments N.leb : simpl never.
Arguments N.max : simpl never.

(* ---------------------------------------------------------------- basics *)
Lemma mem_In x l : mem x l = true <-> In x l.
Proof.
  unfold mem. rewrite existsb_exists. split.
  - intros [y [Hy E]]. apply N.eqb_eq in E. subst. assumption.
  - intros H. exists x. split; [assumption|apply N.eqb_refl].
Qed.
Lemma mem_nIn x l : mem x l = false <-> ~ In x l.
Proof. rewrite <- mem_In. destruct (mem x l); split; congruence. Qed.

Definition key_eqb (a b : key) : bool :=
  match a, b with KOut x, KOut y => N.eqb x y | KIn x, KIn y => N.eqb x y | _, _ => false end.
Lemma key_eqb_spec a b : reflect (a = b) (key_eqb a b).
Proof.
  destruct a as [x|x], b as [y|y]; cbn; try (constructor; congruence);
    destruct (N.eqb_spec x y); constructor; congruence.
Qed.
Definition key_node (k : key) : N := match k with KOut n => n | KIn n => n end.

Definition lst (s : store) (k : key) : list N := match get_list s k with Some l => l | None => [] end.

Lemma get_list_put s k l k' : get_list (put_list s k l) k' = if key_eqb k k' then Some l else get_list s k'.
Proof. destruct k, k'; cbn; try reflexivity; apply aget_aset. Qed.
Lemma get_list_del s k k' : get_list (del_list s k) k' = if key_eqb k k' then None else get_list s k'.
Proof. destruct k, k'; cbn; try reflexivity; apply aget_adel. Qed.

Lemma In_add_to x l e : In x (add_to l e) <-> In x l \/ x = e.
Proof.
  unfold add_to. destruct (mem e l) eqn:Hm.
  - apply mem_In in Hm. split; [auto|]. intros [H| ->]; assumption.
  - rewrite in_app_iff. cbn. intuition.
Qed.
Lemma NoDup_add_to l e : NoDup l -> NoDup (add_to l e).
Proof.
  intros H. unfold add_to. destruct (mem e l) eqn:Hm; [assumption|]. apply mem_nIn in Hm.
  induction H as [|a l Ha Hn IH]; cbn.
  - constructor; [intros []|constructor].
  - constructor.
    + rewrite in_app_iff. cbn. intros [H|[<-|[]]]; [contradiction|]. apply Hm. left. reflexivity.
    + apply IH. intros Hin. apply Hm. right. assumption.
Qed.
Lemma In_remove_from x l e : In x (remove_from l e) <-> In x l /\ x <> e.
Proof.
  unfold remove_from. rewrite filter_In. split; intros [H1 H2]; split; try assumption.
  - intros ->. rewrite N.eqb_refl in H2. discriminate.
  - destruct (N.eqb_spec x e); [contradiction|reflexivity].
Qed.
Lemma NoDup_remove_from l e : NoDup l -> NoDup (remove_from l e).
Proof. intros H. apply NoDup_filter. assumption. Qed.

(* effect of one atomic step on the three components *)
Lemma exec_nodes s a : snodes (exec s a) = snodes s.
Proof. destruct a as [e r|k e|k e|e]; cbn; try reflexivity; [destruct k; reflexivity|]. destruct (get_list s k); [destruct k|]; reflexivity. Qed.

Lemma exec_edge s a e' :
  get_edge (exec s a) e' =
  match a with
  | APutEdge e r => if N.eqb e e' then Some r else get_edge s e'
  | ADelEdge e => if N.eqb e e' then None else get_edge s e'
  | _ => get_edge s e'
  end.
Proof.
  destruct a as [e r|k e|k e|e]; unfold get_edge; cbn.
  - apply aget_aset.
  - destruct k; reflexivity.
  - destruct (get_list s k); [destruct k|]; reflexivity.
  - apply aget_adel.
Qed.

Lemma exec_get_list s a k' :
  get_list (exec s a) k' =
  match a with
  | AAdd k e => if key_eqb k k' then Some (add_to (lst s k) e) else get_list s k'
  | ARemove k e => if key_eqb k k' then (match get_list s k with Some l => Some (remove_from l e) | None => None end) else get_list s k'
  | _ => get_list s k'
  end.
Proof.
  destruct a as [e r|k e|k e|e]; cbn [exec].
  - destruct k'; reflexivity.
  - rewrite get_list_put. reflexivity.
  - unfold lst. destruct (get_list s k) eqn:Hg.
    + rewrite get_list_put. reflexivity.
    + destruct (key_eqb_spec k k') as [<-|]; [assumption|reflexivity].
  - destruct k'; reflexivity.
Qed.

Lemma exec_lst s a k' :
  lst (exec s a) k' =
  match a with
  | AAdd k e => if key_eqb k k' then add_to (lst s k) e else lst s k'
  | ARemove k e => if key_eqb k k' then remove_from (lst s k) e else lst s k'
  | _ => lst s k'
  end.
Proof.
  unfold lst at 1. rewrite exec_get_list. destruct a as [e r|k e|k e|e]; try reflexivity.
  - destruct (key_eqb k k'); reflexivity.
  - destruct (key_eqb_spec k k') as [<-|]; [|reflexivity]. unfold lst. destruct (get_list s k); reflexivity.
Qed.

(* ---------------------------------------------------------------- the invariant *)
Definition touches_out (r : erec) (n : N) : Prop := rfrom r = n \/ (rdir r = false /\ rto r = n).
Definition touches_in (r : erec) (n : N) : Prop := rto r = n \/ (rdir r = false /\ rfrom r = n).

Record Consistent (s : store) : Prop := {
  c_edge : forall e r, get_edge s e = Some r ->
      In (rfrom r) (snodes s) /\ In (rto r) (snodes s) /\
      In e (lst s (KOut (rfrom r))) /\ In e (lst s (KIn (rto r))) /\
      (rdir r = false -> In e (lst s (KOut (rto r))) /\ In e (lst s (KIn (rfrom r))));
  c_out : forall n e, In e (lst s (KOut n)) -> exists r, get_edge s e = Some r /\ touches_out r n;
  c_in : forall n e, In e (lst s (KIn n)) -> exists r, get_edge s e = Some r /\ touches_in r n;
  c_nodup : forall k, NoDup (lst s k);
  c_keys : forall k, get_list s k <> None -> In (key_node k) (snodes s)
}.

(* ---------------------------------------------------------------- any order of atomic steps *)
(* no (key, id) is both added and removed, no id is both put and deleted, one record per put id *)
Record Compatible (tr : list astep) : Prop := {
  cp_list : forall k x, In (AAdd k x) tr -> In (ARemove k x) tr -> False;
  cp_edge : forall e r, In (APutEdge e r) tr -> In (ADelEdge e) tr -> False;
  cp_put : forall e r r', In (APutEdge e r) tr -> In (APutEdge e r') tr -> r = r'
}.
Lemma Compatible_tail a tr : Compatible (a :: tr) -> Compatible tr.
Proof.
  intros [H1 H2 H3]. constructor.
  - intros k x Ha Hr. apply (H1 k x); right; assumption.
  - intros e r Ha Hr. apply (H2 e r); right; assumption.
  - intros e r r' Ha Hr. apply (H3 e r r'); right; assumption.
Qed.

Lemma run_nodes tr : forall s, snodes (run_steps s tr) = snodes s.
Proof. induction tr as [|a tr IH]; intros s; cbn; [reflexivity|]. unfold run_steps in IH. rewrite IH. apply exec_nodes. Qed.

Lemma run_lst tr : Compatible tr -> forall s k x,
  In x (lst (run_steps s tr) k) <-> (In x (lst s k) /\ ~ In (ARemove k x) tr) \/ In (AAdd k x) tr.
Proof.
  induction tr as [|a tr IH]; intros Hc s k x.
  - cbn. tauto.
  - change (run_steps s (a :: tr)) with (run_steps (exec s a) tr).
    rewrite (IH (Compatible_tail _ _ Hc)). rewrite exec_lst. cbn [In].
    destruct a as [e r|k0 e|k0 e|e].
    + assert (Ha : APutEdge e r = AAdd k x <-> False) by (split; [discriminate|tauto]).
      assert (Hb : APutEdge e r = ARemove k x <-> False) by (split; [discriminate|tauto]).
      tauto.
    + assert (Hb : AAdd k0 e = ARemove k x <-> False) by (split; [discriminate|tauto]).
      assert (Ha : AAdd k0 e = AAdd k x <-> k0 = k /\ e = x)
        by (split; [intros H; inversion H; auto|intros [-> ->]; reflexivity]).
      destruct (key_eqb_spec k0 k) as [->|Hk].
      * rewrite In_add_to. destruct (N.eq_dec x e) as [->|Hne].
        -- assert (Hcp : ~ In (ARemove k e) tr).
           { intros Hr. apply (cp_list _ Hc k e); [left; reflexivity|right; assumption]. }
           tauto.
        -- assert (e <> x) by congruence. tauto.
      * tauto.
    + assert (Ha : ARemove k0 e = AAdd k x <-> False) by (split; [discriminate|tauto]).
      assert (Hb : ARemove k0 e = ARemove k x <-> k0 = k /\ e = x)
        by (split; [intros H; inversion H; auto|intros [-> ->]; reflexivity]).
      destruct (key_eqb_spec k0 k) as [->|Hk].
      * rewrite In_remove_from. destruct (N.eq_dec x e) as [->|Hne].
        -- assert (Hcp : ~ In (AAdd k e) tr).
           { intros Hr. apply (cp_list _ Hc k e); [right; assumption|left; reflexivity]. }
           tauto.
        -- assert (e <> x) by congruence. tauto.
      * tauto.
    + assert (Ha : ADelEdge e = AAdd k x <-> False) by (split; [discriminate|tauto]).
      assert (Hb : ADelEdge e = ARemove k x <-> False) by (split; [discriminate|tauto]).
      tauto.
Qed.

Definition put_ids (tr : list astep) : list N :=
  flat_map (fun a => match a with APutEdge e _ => [e] | _ => [] end) tr.
Lemma put_ids_In e r tr : In (APutEdge e r) tr -> In e (put_ids tr).
Proof. intros H. unfold put_ids. apply in_flat_map. exists (APutEdge e r). split; [assumption|left; reflexivity]. Qed.

Lemma run_edge tr : Compatible tr -> NoDup (put_ids tr) -> forall s,
  (forall e r, In (APutEdge e r) tr -> get_edge s e = None) ->
  forall e r, get_edge (run_steps s tr) e = Some r <->
              (get_edge s e = Some r /\ ~ In (ADelEdge e) tr) \/ In (APutEdge e r) tr.
Proof.
  induction tr as [|a tr IH]; intros Hc Hnd s Hfresh e r.
  - cbn. tauto.
  - change (run_steps s (a :: tr)) with (run_steps (exec s a) tr).
    assert (Hnd' : NoDup (put_ids tr)).
    { unfold put_ids in *. cbn [flat_map] in Hnd. destruct a; cbn in Hnd; try assumption. inversion Hnd; assumption. }
    assert (Hfresh' : forall e r, In (APutEdge e r) tr -> get_edge (exec s a) e = None).
    { intros e1 r1 Hin. rewrite exec_edge. specialize (Hfresh e1 r1 (or_intror Hin)).
      destruct a as [e0 r0|k0 e0|k0 e0|e0]; try assumption.
      - destruct (N.eqb_spec e0 e1) as [->|]; [|assumption].
        exfalso. unfold put_ids in Hnd. cbn in Hnd. inversion Hnd as [|? ? Hni _]; subst. apply Hni.
        apply (put_ids_In e1 r1). assumption.
      - destruct (N.eqb e0 e1); [reflexivity|assumption]. }
    rewrite (IH (Compatible_tail _ _ Hc) Hnd' (exec s a) Hfresh'). rewrite exec_edge. cbn [In].
    destruct a as [e0 r0|k0 e0|k0 e0|e0].
    + assert (Hb : APutEdge e0 r0 = ADelEdge e <-> False) by (split; [discriminate|tauto]).
      assert (Ha : APutEdge e0 r0 = APutEdge e r <-> e0 = e /\ r0 = r)
        by (split; [intros H; inversion H; auto|intros [-> ->]; reflexivity]).
      destruct (N.eqb_spec e0 e) as [->|Hne].
      * assert (H1 : get_edge s e = None) by (apply (Hfresh e r0); left; reflexivity).
        assert (H2 : ~ In (ADelEdge e) tr).
        { intros Hd. apply (cp_edge _ Hc e r0); [left; reflexivity|right; assumption]. }
        assert (H3 : ~ In (APutEdge e r) tr).
        { intros Hp. unfold put_ids in Hnd. cbn in Hnd. inversion Hnd as [|? ? Hni _]; subst. apply Hni. apply (put_ids_In e r). assumption. }
        rewrite H1. split.
        -- intros [[E _]|Hp]; [inversion E; subst; right; left; reflexivity|contradiction].
        -- intros [[E _]|[Heq|Hp]]; [discriminate|inversion Heq; subst; left; split; [reflexivity|assumption]|contradiction].
      * tauto.
    + assert (Ha : AAdd k0 e0 = APutEdge e r <-> False) by (split; [discriminate|tauto]).
      assert (Hb : AAdd k0 e0 = ADelEdge e <-> False) by (split; [discriminate|tauto]).
      tauto.
    + assert (Ha : ARemove k0 e0 = APutEdge e r <-> False) by (split; [discriminate|tauto]).
      assert (Hb : ARemove k0 e0 = ADelEdge e <-> False) by (split; [discriminate|tauto]).
      tauto.
    + assert (Ha : ADelEdge e0 = APutEdge e r <-> False) by (split; [discriminate|tauto]).
      assert (Hb : ADelEdge e0 = ADelEdge e <-> e0 = e) by (split; [intros H; inversion H; auto|intros ->; reflexivity]).
      destruct (N.eqb_spec e0 e) as [->|Hne].
      * assert (H3 : ~ In (APutEdge e r) tr).
        { intros Hp. apply (cp_edge _ Hc e r); [right; assumption|left; reflexivity]. }
        split; [intros [[E _]|Hp]; [discriminate|contradiction]|].
        intros [[_ Hn]|[Hp|Hp]]; [exfalso; apply Hn; left; reflexivity|discriminate|contradiction].
      * tauto.
Qed.

Lemma exec_nodup s a : (forall k, NoDup (lst s k)) -> forall k, NoDup (lst (exec s a) k).
Proof.
  intros H k. rewrite exec_lst. destruct a as [e r|k0 e|k0 e|e]; try apply H.
  - destruct (key_eqb k0 k); [apply NoDup_add_to|]; apply H.
  - destruct (key_eqb k0 k); [apply NoDup_remove_from|]; apply H.
Qed.
Lemma run_nodup tr : forall s, (forall k, NoDup (lst s k)) -> forall k, NoDup (lst (run_steps s tr) k).
Proof.
  induction tr as [|a tr IH]; intros s H k; [apply H|].
  change (run_steps s (a :: tr)) with (run_steps (exec s a) tr). apply IH. apply exec_nodup. assumption.
Qed.

Lemma run_keys tr : forall s k, get_list (run_steps s tr) k <> None ->
  get_list s k <> None \/ exists x, In (AAdd k x) tr.
Proof.
  induction tr as [|a tr IH]; intros s k H; [left; assumption|].
  change (run_steps s (a :: tr)) with (run_steps (exec s a) tr) in H.
  destruct (IH _ _ H) as [H1|[x Hx]]; [|right; exists x; right; assumption].
  rewrite exec_get_list in H1. destruct a as [e r|k0 e|k0 e|e]; try (left; assumption).
  - destruct (key_eqb_spec k0 k) as [->|]; [right; exists e; left; reflexivity|left; assumption].
  - destruct (key_eqb_spec k0 k) as [->|]; [|left; assumption].
    left. destruct (get_list s k); [discriminate|assumption].
Qed.

(* ---------------------------------------------------------------- plans: edge creations and deletions *)
From Coq Require Import Permutation.

Definition creq := (N * N * N * bool)%type.            (* (edge id, from, to, directed) *)
Definition cid (c : creq) : N := let '(e, _, _, _) := c in e.
Definition csteps (c : creq) : list astep := let '(e, f, t, d) := c in create_edge_steps e f t d.
Definition dsteps (d : N * erec) : list astep := delete_edge_steps (fst d) (snd d).
Definition plan_steps (C : list creq) (D : list (N * erec)) : list astep := flat_map csteps C ++ flat_map dsteps D.

Record Plan (s : store) (C : list creq) (D : list (N * erec)) : Prop := {
  p_cids : NoDup (map cid C);
  p_fresh : forall e f t d, In (e, f, t, d) C -> get_edge s e = None /\ In f (snodes s) /\ In t (snodes s);
  p_del : forall e r, In (e, r) D -> get_edge s e = Some r
}.

Definition add_keys (k : key) (f t : N) (d : bool) : Prop :=
  k = KOut f \/ k = KIn t \/ (d = false /\ (k = KOut t \/ k = KIn f)).

Lemma plan_put C D e r : In (APutEdge e r) (plan_steps C D) <-> exists f t d, In (e, f, t, d) C /\ r = ER f t d.
Proof.
  unfold plan_steps. rewrite in_app_iff, !in_flat_map. split.
  - intros [([[[e0 f] t] d] & Hc & Hin)|((e0 & r0) & Hd & Hin)].
    + unfold csteps, create_edge_steps in Hin. cbn in Hin. destruct d; cbn in Hin;
        repeat (destruct Hin as [Hin|Hin]; [first [discriminate Hin|inversion Hin; subst; do 3 eexists; split; [eassumption|reflexivity]]|]); destruct Hin.
    + unfold dsteps, delete_edge_steps in Hin. cbn in Hin. destruct (rdir r0); cbn in Hin;
        repeat (destruct Hin as [Hin|Hin]; [discriminate Hin|]); destruct Hin.
  - intros (f & t & d & Hc & ->). left. exists (e, f, t, d). split; [assumption|]. left. reflexivity.
Qed.

Lemma plan_add C D k x : In (AAdd k x) (plan_steps C D) <-> exists f t d, In (x, f, t, d) C /\ add_keys k f t d.
Proof.
  unfold plan_steps, add_keys. rewrite in_app_iff, !in_flat_map. split.
  - intros [([[[e0 f] t] d] & Hc & Hin)|((e0 & r0) & Hd & Hin)].
    + unfold csteps, create_edge_steps in Hin. cbn in Hin. destruct d; cbn in Hin;
        repeat (destruct Hin as [Hin|Hin]; [first [discriminate Hin|inversion Hin; subst; exists f, t; eexists; split; [eassumption|tauto]]|]); destruct Hin.
    + unfold dsteps, delete_edge_steps in Hin. cbn in Hin. destruct (rdir r0); cbn in Hin;
        repeat (destruct Hin as [Hin|Hin]; [discriminate Hin|]); destruct Hin.
  - intros (f & t & d & Hc & Hk). left. exists (x, f, t, d). split; [assumption|].
    unfold csteps, create_edge_steps. destruct Hk as [->|[->|[-> [->| ->]]]]; cbn; tauto.
Qed.

Definition rem_keys (k : key) (r : erec) : Prop :=
  k = KOut (rfrom r) \/ k = KIn (rto r) \/ (rdir r = false /\ (k = KOut (rto r) \/ k = KIn (rfrom r))).

Lemma plan_remove C D k x : In (ARemove k x) (plan_steps C D) <-> exists r, In (x, r) D /\ rem_keys k r.
Proof.
  unfold plan_steps, rem_keys. rewrite in_app_iff, !in_flat_map. split.
  - intros [([[[e0 f] t] d] & Hc & Hin)|((e0 & r0) & Hd & Hin)].
    + unfold csteps, create_edge_steps in Hin. cbn in Hin. destruct d; cbn in Hin;
        repeat (destruct Hin as [Hin|Hin]; [discriminate Hin|]); destruct Hin.
    + unfold dsteps, delete_edge_steps in Hin. cbn [fst snd] in Hin. destruct (rdir r0) eqn:Hdir; cbn in Hin;
        repeat (destruct Hin as [Hin|Hin]; [first [discriminate Hin|inversion Hin; subst; exists r0; split; [assumption|tauto]]|]); destruct Hin.
  - intros (r & Hd & Hk). right. exists (x, r). split; [assumption|].
    unfold dsteps, delete_edge_steps. cbn [fst snd]. destruct Hk as [->|[->|[Hdir [->| ->]]]]; try rewrite Hdir; cbn; tauto.
Qed.

Lemma plan_deledge C D e : In (ADelEdge e) (plan_steps C D) <-> exists r, In (e, r) D.
Proof.
  unfold plan_steps. rewrite in_app_iff, !in_flat_map. split.
  - intros [([[[e0 f] t] d] & Hc & Hin)|((e0 & r0) & Hd & Hin)].
    + unfold csteps, create_edge_steps in Hin. cbn in Hin. destruct d; cbn in Hin;
        repeat (destruct Hin as [Hin|Hin]; [discriminate Hin|]); destruct Hin.
    + unfold dsteps, delete_edge_steps in Hin. cbn [fst snd] in Hin. destruct (rdir r0); cbn in Hin;
        repeat (destruct Hin as [Hin|Hin]; [first [discriminate Hin|inversion Hin; subst; exists r0; assumption]|]); destruct Hin.
  - intros (r & Hd). right. exists (e, r). split; [assumption|].
    unfold dsteps, delete_edge_steps. cbn [fst snd]. apply in_or_app. right. apply in_or_app. right. left. reflexivity.
Qed.

Lemma put_ids_app l1 l2 : put_ids (l1 ++ l2) = put_ids l1 ++ put_ids l2.
Proof. unfold put_ids. apply flat_map_app. Qed.
Lemma put_ids_plan C D : put_ids (plan_steps C D) = map cid C.
Proof.
  unfold plan_steps. rewrite put_ids_app.
  assert (H2 : put_ids (flat_map dsteps D) = []).
  { induction D as [|[e r] D IH]; [reflexivity|]. cbn [flat_map]. rewrite put_ids_app, IH.
    unfold dsteps, delete_edge_steps. cbn [fst snd]. destruct (rdir r); reflexivity. }
  rewrite H2, app_nil_r. induction C as [|[[[e f] t] d] C IH]; [reflexivity|].
  cbn [flat_map map]. rewrite put_ids_app, IH. unfold csteps, create_edge_steps. destruct d; reflexivity.
Qed.

Lemma cid_inj C c c' : NoDup (map cid C) -> In c C -> In c' C -> cid c = cid c' -> c = c'.
Proof.
  induction C as [|a C IH]; cbn; intros Hnd Hc Hc' E; [contradiction|].
  inversion Hnd as [|? ? Hni Hnd']; subst.
  destruct Hc as [->|Hc], Hc' as [->|Hc'].
  - reflexivity.
  - exfalso. apply Hni. rewrite E. apply in_map. assumption.
  - exfalso. apply Hni. rewrite <- E. apply in_map. assumption.
  - apply IH; assumption.
Qed.

(* THE CONCURRENT THEOREM (atomic read-modify-write per adjacency key): executing the atomic steps
   of any set of edge creations (fresh distinct ids, existing endpoints) and deletions (of edges
   that exist) in ANY order -- in particular in any interleaving of any number of threads -- ends
   in a consistent state that holds exactly the old edges minus the deleted plus the created ones *)
Theorem plan_consistent s C D tr :
  Consistent s -> Plan s C D -> Permutation tr (plan_steps C D) ->
  Consistent (run_steps s tr) /\
  (forall e r, get_edge (run_steps s tr) e = Some r <->
     (get_edge s e = Some r /\ ~ (exists r', In (e, r') D)) \/ (exists f t d, In (e, f, t, d) C /\ r = ER f t d)).
Proof.
  intros Hs Hp Hperm.
  assert (Hin : forall a, In a tr <-> In a (plan_steps C D)).
  { intros a. split; apply Permutation_in; [assumption|apply Permutation_sym; assumption]. }
  assert (Hcomp : Compatible tr).
  { constructor.
    - intros k x Ha Hr. apply Hin, plan_add in Ha. apply Hin, plan_remove in Hr.
      destruct Ha as (f & t & d & Hc & _). destruct Hr as (r & Hd & _).
      destruct (p_fresh _ _ _ Hp _ _ _ _ Hc) as [E _]. rewrite (p_del _ _ _ Hp _ _ Hd) in E. discriminate.
    - intros e r Ha Hr. apply Hin, plan_put in Ha. apply Hin, plan_deledge in Hr.
      destruct Ha as (f & t & d & Hc & _). destruct Hr as (r' & Hd).
      destruct (p_fresh _ _ _ Hp _ _ _ _ Hc) as [E _]. rewrite (p_del _ _ _ Hp _ _ Hd) in E. discriminate.
    - intros e r r' Ha Hb. apply Hin, plan_put in Ha. apply Hin, plan_put in Hb.
      destruct Ha as (f & t & d & Hc & ->). destruct Hb as (f' & t' & d' & Hc' & ->).
      pose proof (cid_inj C _ _ (p_cids _ _ _ Hp) Hc Hc' eq_refl) as E. inversion E. reflexivity. }
  assert (Hnd : NoDup (put_ids tr)).
  { apply (Permutation_NoDup (l := map cid C)); [|apply (p_cids _ _ _ Hp)].
    rewrite <- (put_ids_plan C D). apply Permutation_sym. unfold put_ids. apply Permutation_flat_map. assumption. }
  assert (Hfresh : forall e r, In (APutEdge e r) tr -> get_edge s e = None).
  { intros e r Ha. apply Hin, plan_put in Ha. destruct Ha as (f & t & d & Hc & _). apply (p_fresh _ _ _ Hp _ _ _ _ Hc). }
  pose proof (run_edge tr Hcomp Hnd s Hfresh) as E.
  pose proof (run_lst tr Hcomp s) as L.
  pose proof (run_nodes tr s) as Nd.
  set (s' := run_steps s tr) in *.
  assert (Edges : forall e r, get_edge s' e = Some r <->
     (get_edge s e = Some r /\ ~ (exists r', In (e, r') D)) \/ (exists f t d, In (e, f, t, d) C /\ r = ER f t d)).
  { intros e r. rewrite E. rewrite (Hin (ADelEdge e)), (Hin (APutEdge e r)), plan_deledge, plan_put. tauto. }
  split; [|exact Edges].
  assert (Lold : forall k x, In x (lst s k) -> ~ (exists r', In (x, r') D) -> In x (lst s' k)).
  { intros k x Hx Hn. apply L. left. split; [assumption|]. intros Hr. apply Hin, plan_remove in Hr.
    destruct Hr as (r & Hd & _). apply Hn. exists r. assumption. }
  assert (Lnew : forall k x f t d, In (x, f, t, d) C -> add_keys k f t d -> In x (lst s' k)).
  { intros k x f t d Hc Hk. apply L. right. apply Hin, plan_add. exists f, t, d. split; assumption. }
  constructor.
  - (* c_edge *)
    intros e r He. apply Edges in He. destruct He as [[He Hn]|(f & t & d & Hc & ->)].
    + destruct (c_edge _ Hs e r He) as (H1 & H2 & H3 & H4 & H5). rewrite Nd.
      repeat split; try assumption; try (apply Lold; assumption).
      * apply Lold; [apply H5|]; assumption.
      * apply Lold; [apply H5|]; assumption.
    + destruct (p_fresh _ _ _ Hp _ _ _ _ Hc) as (_ & Hf & Ht). rewrite Nd. cbn [rfrom rto rdir].
      repeat split; try assumption.
      * apply (Lnew _ _ f t d Hc). left. reflexivity.
      * apply (Lnew _ _ f t d Hc). right. left. reflexivity.
      * apply (Lnew _ _ f t d Hc). right. right. split; [assumption|left; reflexivity].
      * apply (Lnew _ _ f t d Hc). right. right. split; [assumption|right; reflexivity].
  - (* c_out *)
    intros n x Hx. apply L in Hx. destruct Hx as [[Hx Hnr]|Ha].
    + destruct (c_out _ Hs n x Hx) as (r & He & Ht). exists r. split; [|assumption].
      apply Edges. left. split; [assumption|]. intros (r' & Hd).
      assert (r' = r) by (pose proof (p_del _ _ _ Hp _ _ Hd); congruence). subst r'.
      apply Hnr. apply Hin, plan_remove. exists r. split; [assumption|].
      unfold rem_keys. destruct Ht as [<-|[Hdir <-]]; [left; reflexivity|right; right; split; [assumption|left; reflexivity]].
    + apply Hin, plan_add in Ha. destruct Ha as (f & t & d & Hc & Hk). exists (ER f t d). split.
      * apply Edges. right. exists f, t, d. split; [assumption|reflexivity].
      * unfold touches_out. cbn [rfrom rto rdir].
        destruct Hk as [Hk|[Hk|[Hd [Hk|Hk]]]]; try discriminate Hk; inversion Hk; subst; [left; reflexivity|right; split; reflexivity].
  - (* c_in *)
    intros n x Hx. apply L in Hx. destruct Hx as [[Hx Hnr]|Ha].
    + destruct (c_in _ Hs n x Hx) as (r & He & Ht). exists r. split; [|assumption].
      apply Edges. left. split; [assumption|]. intros (r' & Hd).
      assert (r' = r) by (pose proof (p_del _ _ _ Hp _ _ Hd); congruence). subst r'.
      apply Hnr. apply Hin, plan_remove. exists r. split; [assumption|].
      unfold rem_keys. destruct Ht as [<-|[Hdir <-]]; [right; left; reflexivity|right; right; split; [assumption|right; reflexivity]].
    + apply Hin, plan_add in Ha. destruct Ha as (f & t & d & Hc & Hk). exists (ER f t d). split.
      * apply Edges. right. exists f, t, d. split; [assumption|reflexivity].
      * unfold touches_in. cbn [rfrom rto rdir].
        destruct Hk as [Hk|[Hk|[Hd [Hk|Hk]]]]; try discriminate Hk; inversion Hk; subst; [left; reflexivity|right; split; reflexivity].
  - intros k. apply run_nodup. apply (c_nodup _ Hs).
  - intros k Hk. rewrite Nd. destruct (run_keys tr s k Hk) as [H|[x Ha]].
    + apply (c_keys _ Hs). assumption.
    + apply Hin, plan_add in Ha. destruct Ha as (f & t & d & Hc & Hkk).
      destruct (p_fresh _ _ _ Hp _ _ _ _ Hc) as (_ & Hf & Ht).
      destruct Hkk as [->|[->|[_ [->| ->]]]]; assumption.
Qed.

Lemma flat_map_all_nil {A B} (f : A -> list B) l : (forall a, In a l -> f a = []) -> flat_map f l = [].
Proof. induction l as [|a l IH]; intros H; [reflexivity|]. cbn. rewrite (H a (or_introl eq_refl)), IH; [reflexivity|]. intros b Hb. apply H. right. assumption. Qed.

(* ---------------------------------------------------------------- delete_node *)
Section DeleteNode.
  Variable s0 : store.
  Variable n : N.
  Hypothesis H0 : Consistent s0.

  Record J (done : list N) (s : store) : Prop := {
    j_nodes : snodes s = snodes s0;
    j_sub : forall x r, get_edge s x = Some r -> get_edge s0 x = Some r;
    j_keep : forall x r, get_edge s0 x = Some r -> ~ In x done -> get_edge s x = Some r;
    j_gone : forall x, In x done -> get_edge s x = None;
    j_shrink : forall k x, In x (lst s k) -> In x (lst s0 k);
    j_stay : forall k x, In x (lst s0 k) -> ~ In x done -> In x (lst s k);
    j_clean : forall m x, m <> n -> In x done -> ~ In x (lst s (KOut m)) /\ ~ In x (lst s (KIn m));
    j_nodup : forall k, NoDup (lst s k);
    j_keys : forall k, get_list s k <> None -> get_list s0 k <> None
  }.

  Lemma detach_only_removes s e a : In a (detach_steps s n e) ->
    a = ADelEdge e \/ exists k, a = ARemove k e.
  Proof.
    unfold detach_steps. destruct (get_edge s e) as [r|]; [|intros [<-|[]]; left; reflexivity].
    intros Hin. repeat (apply in_app_or in Hin; destruct Hin as [Hin|Hin]).
    - destruct (N.eqb (rfrom r) n); [|destruct Hin]. destruct Hin as [<-|[]]. right. eexists. reflexivity.
    - destruct (N.eqb (rto r) n); [|destruct Hin]. destruct Hin as [<-|[]]. right. eexists. reflexivity.
    - destruct (negb (rdir r) && negb (N.eqb (if N.eqb (rfrom r) n then rto r else rfrom r) n)); [|destruct Hin].
      destruct Hin as [<-|[<-|[]]]; right; eexists; reflexivity.
    - destruct Hin as [<-|[]]. left. reflexivity.
  Qed.

  Lemma detach_compatible s e : Compatible (detach_steps s n e) /\ put_ids (detach_steps s n e) = []
                                /\ In (ADelEdge e) (detach_steps s n e).
  Proof.
    split; [|split].
    - constructor.
      + intros k x Ha _. apply detach_only_removes in Ha. destruct Ha as [Ha|[k' Ha]]; discriminate.
      + intros x r Ha _. apply detach_only_removes in Ha. destruct Ha as [Ha|[k' Ha]]; discriminate.
      + intros x r r' Ha _. apply detach_only_removes in Ha. destruct Ha as [Ha|[k' Ha]]; discriminate.
    - unfold put_ids. apply flat_map_all_nil. intros a Ha.
      apply detach_only_removes in Ha. destruct Ha as [->|[k' ->]]; reflexivity.
    - unfold detach_steps. destruct (get_edge s e); [|left; reflexivity].
      repeat (apply in_or_app; right). left. reflexivity.
  Qed.

  Lemma detach_removes_out s e r m : get_edge s e = Some r -> (rfrom r = n \/ rto r = n) -> m <> n ->
    touches_out r m -> In (ARemove (KOut m) e) (detach_steps s n e).
  Proof.
    intros He Htn Hm Ht. unfold detach_steps. rewrite He.
    destruct Ht as [Hf|[Hd Hto]].
    - (* rfrom r = m <> n, so rto r = n *)
      assert (Hfn : rfrom r <> n) by congruence. assert (Htn' : rto r = n) by tauto.
      destruct (N.eqb_spec (rfrom r) n) as [|_]; [contradiction|]. rewrite Htn', N.eqb_refl.
      apply in_or_app. right. apply in_or_app. left. left. congruence.
    - (* undirected, rto r = m <> n, so rfrom r = n *)
      assert (Hfn : rto r <> n) by congruence. assert (Hfn' : rfrom r = n) by tauto.
      rewrite Hfn', N.eqb_refl. rewrite Hd. cbn [negb andb].
      destruct (N.eqb_spec (rto r) n) as [|_]; [contradiction|]. cbn [negb].
      apply in_or_app. right. apply in_or_app. right. apply in_or_app. left. left. congruence.
  Qed.

  Lemma detach_removes_in s e r m : get_edge s e = Some r -> (rfrom r = n \/ rto r = n) -> m <> n ->
    touches_in r m -> In (ARemove (KIn m) e) (detach_steps s n e).
  Proof.
    intros He Htn Hm Ht. unfold detach_steps. rewrite He.
    destruct Ht as [Hto|[Hd Hf]].
    - (* rto r = m <> n, so rfrom r = n *)
      assert (Hfn : rto r <> n) by congruence. assert (Hfn' : rfrom r = n) by tauto.
      rewrite Hfn', N.eqb_refl. apply in_or_app. left. left. congruence.
    - (* undirected, rfrom r = m <> n, so rto r = n *)
      assert (Hfn : rfrom r <> n) by congruence. assert (Htn' : rto r = n) by tauto.
      destruct (N.eqb_spec (rfrom r) n) as [|_]; [contradiction|]. rewrite Hd. cbn [negb andb].
      destruct (N.eqb_spec (rfrom r) n) as [|_]; [contradiction|]. cbn [negb].
      apply in_or_app. right. apply in_or_app. right. apply in_or_app. left. right. left. congruence.
  Qed.

  Lemma J_step done s e : J done s -> ~ In e done ->
    (In e (lst s0 (KOut n)) \/ In e (lst s0 (KIn n))) ->
    J (done ++ [e]) (run_steps s (detach_steps s n e)).
  Proof.
    intros Hj Hnd Hall.
    destruct (detach_compatible s e) as (Hc & Hp & Hdel).
    assert (Hndp : NoDup (put_ids (detach_steps s n e))) by (rewrite Hp; constructor).
    assert (Hfresh : forall x r, In (APutEdge x r) (detach_steps s n e) -> get_edge s x = None).
    { intros x r Ha. apply detach_only_removes in Ha. destruct Ha as [Ha|[k Ha]]; discriminate. }
    pose proof (run_edge _ Hc Hndp s Hfresh) as E.
    pose proof (run_lst _ Hc s) as L.
    assert (Hdel_iff : forall x, In (ADelEdge x) (detach_steps s n e) <-> x = e).
    { intros x. split; [|intros ->; assumption]. intros Ha. apply detach_only_removes in Ha.
      destruct Ha as [Ha|[k Ha]]; [inversion Ha; reflexivity|discriminate]. }
    assert (Hrem_id : forall k x, In (ARemove k x) (detach_steps s n e) -> x = e).
    { intros k x Ha. apply detach_only_removes in Ha. destruct Ha as [Ha|[k' Ha]]; [discriminate|inversion Ha; reflexivity]. }
    assert (Hnoadd : forall k x, ~ In (AAdd k x) (detach_steps s n e)).
    { intros k x Ha. apply detach_only_removes in Ha. destruct Ha as [Ha|[k' Ha]]; discriminate. }
    assert (Hnoput : forall x r, ~ In (APutEdge x r) (detach_steps s n e)).
    { intros x r Ha. apply detach_only_removes in Ha. destruct Ha as [Ha|[k' Ha]]; discriminate. }
    (* the record of e, which touches n *)
    assert (Hrec : exists r, get_edge s e = Some r /\ get_edge s0 e = Some r /\ (rfrom r = n \/ rto r = n)).
    { destruct Hall as [Hin|Hin].
      - destruct (c_out _ H0 n e Hin) as (r & He & Ht). exists r. split; [apply (j_keep _ _ Hj); assumption|split; [assumption|]].
        destruct Ht as [Ht|[_ Ht]]; tauto.
      - destruct (c_in _ H0 n e Hin) as (r & He & Ht). exists r. split; [apply (j_keep _ _ Hj); assumption|split; [assumption|]].
        destruct Ht as [Ht|[_ Ht]]; tauto. }
    destruct Hrec as (r & Hes & He0 & Htn).
    set (s' := run_steps s (detach_steps s n e)) in *.
    constructor.
    - unfold s'. rewrite run_nodes. apply (j_nodes _ _ Hj).
    - intros x rx Hx. apply E in Hx. destruct Hx as [[Hx _]|Hx]; [apply (j_sub _ _ Hj); assumption|exfalso; eapply Hnoput; eassumption].
    - intros x rx Hx Hnx. apply E. left. split.
      + apply (j_keep _ _ Hj); [assumption|]. intros Hd. apply Hnx. apply in_or_app. left. assumption.
      + rewrite Hdel_iff. intros ->. apply Hnx. apply in_or_app. right. left. reflexivity.
    - intros x Hx. destruct (get_edge s' x) as [rx|] eqn:Hg; [|reflexivity]. exfalso.
      apply E in Hg. destruct Hg as [[Hg Hnd']|Hg]; [|eapply Hnoput; eassumption].
      apply in_app_or in Hx. destruct Hx as [Hx|[<-|[]]].
      + rewrite (j_gone _ _ Hj x Hx) in Hg. discriminate.
      + apply Hnd'. assumption.
    - intros k x Hx. apply L in Hx. destruct Hx as [[Hx _]|Hx]; [apply (j_shrink _ _ Hj); assumption|exfalso; eapply Hnoadd; eassumption].
    - intros k x Hx Hnx. apply L. left. split.
      + apply (j_stay _ _ Hj); [assumption|]. intros Hd. apply Hnx. apply in_or_app. left. assumption.
      + intros Hr. apply Hrem_id in Hr. subst x. apply Hnx. apply in_or_app. right. left. reflexivity.
    - intros m x Hm Hx. apply in_app_or in Hx. destruct Hx as [Hx|[<-|[]]].
      + destruct (j_clean _ _ Hj m x Hm Hx) as [C1 C2]. split; intros Hin; apply L in Hin;
          (destruct Hin as [[Hin _]|Hin]; [|eapply Hnoadd; eassumption]); [apply C1|apply C2]; assumption.
      + split; intros Hin; apply L in Hin; (destruct Hin as [[Hin Hnr]|Hin]; [|eapply Hnoadd; eassumption]); apply Hnr.
        * pose proof (j_shrink _ _ Hj _ _ Hin) as Hin0. destruct (c_out _ H0 m e Hin0) as (r' & He' & Ht).
          assert (r' = r) by congruence. subst r'. apply (detach_removes_out s e r m); assumption.
        * pose proof (j_shrink _ _ Hj _ _ Hin) as Hin0. destruct (c_in _ H0 m e Hin0) as (r' & He' & Ht).
          assert (r' = r) by congruence. subst r'. apply (detach_removes_in s e r m); assumption.
    - intros k. apply run_nodup. apply (j_nodup _ _ Hj).
    - intros k Hk. destruct (run_keys _ s k Hk) as [H|[x Ha]]; [apply (j_keys _ _ Hj); assumption|].
      exfalso. eapply Hnoadd; eassumption.
  Qed.
End DeleteNode.

Lemma dedup_In x l : In x (dedup l) <-> In x l.
Proof.
  induction l as [|a l IH]; cbn; [tauto|]. destruct (mem a l) eqn:Hm.
  - apply mem_In in Hm. rewrite IH. split; [auto|]. intros [<-|H]; assumption.
  - cbn. rewrite IH. tauto.
Qed.
Lemma dedup_NoDup l : NoDup (dedup l).
Proof.
  induction l as [|a l IH]; cbn; [constructor|]. destruct (mem a l) eqn:Hm; [assumption|].
  apply mem_nIn in Hm. constructor; [rewrite dedup_In; assumption|assumption].
Qed.

Section DeleteNode2.
  Variable s0 : store.
  Variable n : N.
  Hypothesis H0 : Consistent s0.
  Notation stepf := (fun s e => run_steps s (detach_steps s n e)).

  Lemma J_loop : forall todo done s, J s0 n done s -> NoDup (done ++ todo) ->
    (forall x, In x todo -> In x (lst s0 (KOut n)) \/ In x (lst s0 (KIn n))) ->
    J s0 n (done ++ todo) (fold_left stepf todo s).
  Proof.
    induction todo as [|e todo IH]; intros done s Hj Hnd Hall.
    - rewrite app_nil_r. assumption.
    - cbn [fold_left]. replace (done ++ e :: todo) with ((done ++ [e]) ++ todo) by (rewrite <- app_assoc; reflexivity).
      apply IH.
      + apply J_step; [assumption|assumption| |apply Hall; left; reflexivity].
        intros Hin. apply NoDup_remove_2 in Hnd. apply Hnd. apply in_or_app. left. assumption.
      + rewrite <- app_assoc. assumption.
      + intros x Hx. apply Hall. right. assumption.
  Qed.

  Lemma J_init : J s0 n [] s0.
  Proof.
    constructor.
    - reflexivity.
    - intros; assumption.
    - intros; assumption.
    - intros x [].
    - intros; assumption.
    - intros; assumption.
    - intros m x _ [].
    - intros k. apply (c_nodup _ H0).
    - intros; assumption.
  Qed.

  Definition after_loop : store :=
    fold_left stepf (dedup (lst s0 (KOut n) ++ lst s0 (KIn n))) s0.

  Lemma delete_node_unfold : delete_node s0 n =
    del_list (del_list (ST (filter (fun x => negb (N.eqb x n)) (snodes after_loop)) (sout after_loop) (sinl after_loop)
                           (sedges after_loop) (ncount after_loop) (ecount after_loop)) (KOut n)) (KIn n).
  Proof. reflexivity. Qed.

  Lemma J_final : J s0 n (dedup (lst s0 (KOut n) ++ lst s0 (KIn n))) after_loop.
  Proof.
    apply (J_loop _ [] s0 J_init).
    - apply dedup_NoDup.
    - intros x Hx. apply (proj1 (dedup_In _ _)) in Hx. apply in_app_or in Hx. assumption.
  Qed.

  Theorem delete_node_consistent :
    Consistent (delete_node s0 n)
    /\ ~ In n (snodes (delete_node s0 n))
    /\ (forall e r, get_edge (delete_node s0 n) e = Some r <->
                    get_edge s0 e = Some r /\ rfrom r <> n /\ rto r <> n).
  Proof.
    pose proof J_final as Hj. set (all := dedup (lst s0 (KOut n) ++ lst s0 (KIn n))) in *.
    set (s1 := after_loop) in *.
    rewrite delete_node_unfold. fold s1.
    set (s2 := ST (filter (fun x => negb (N.eqb x n)) (snodes s1)) (sout s1) (sinl s1) (sedges s1) (ncount s1) (ecount s1)).
    set (sf := del_list (del_list s2 (KOut n)) (KIn n)).
    assert (Hge : forall e, get_edge sf e = get_edge s1 e) by reflexivity.
    assert (Hgl : forall k, get_list sf k = if N.eqb (key_node k) n then None else get_list s1 k).
    { intros k. unfold sf. rewrite !get_list_del. destruct k as [m|m]; cbn [key_eqb key_node];
        rewrite (N.eqb_sym n m); destruct (N.eqb m n); reflexivity. }
    assert (Hl : forall k, lst sf k = if N.eqb (key_node k) n then [] else lst s1 k).
    { intros k. unfold lst at 1. rewrite Hgl. destruct (N.eqb (key_node k) n); reflexivity. }
    assert (Hn : forall x, In x (snodes sf) <-> In x (snodes s0) /\ x <> n).
    { intros x. assert (E : snodes sf = filter (fun x => negb (N.eqb x n)) (snodes s1)) by reflexivity.
      rewrite E, filter_In, (j_nodes _ _ _ _ Hj). destruct (N.eqb_spec x n); cbn; intuition congruence. }
    assert (Hall : forall x, In x all <-> In x (lst s0 (KOut n)) \/ In x (lst s0 (KIn n))).
    { intros x. unfold all. rewrite dedup_In, in_app_iff. tauto. }
    (* surviving edges do not touch n *)
    assert (Hsurv : forall e r, get_edge s1 e = Some r -> get_edge s0 e = Some r /\ rfrom r <> n /\ rto r <> n).
    { intros e r He. pose proof (j_sub _ _ _ _ Hj e r He) as He0. split; [assumption|].
      destruct (c_edge _ H0 e r He0) as (_ & _ & H3 & H4 & _).
      split; intros E.
      - rewrite E in H3. assert (Hin : In e all) by (apply Hall; left; assumption).
        rewrite (j_gone _ _ _ _ Hj e Hin) in He. discriminate.
      - rewrite E in H4. assert (Hin : In e all) by (apply Hall; right; assumption).
        rewrite (j_gone _ _ _ _ Hj e Hin) in He. discriminate. }
    assert (Hkeep : forall e r, get_edge s0 e = Some r -> rfrom r <> n -> rto r <> n -> get_edge s1 e = Some r).
    { intros e r He Hf Ht. apply (j_keep _ _ _ _ Hj); [assumption|]. intros Hin. apply Hall in Hin.
      destruct Hin as [Hin|Hin].
      - destruct (c_out _ H0 n e Hin) as (r' & He' & [Hx|[_ Hx]]); congruence.
      - destruct (c_in _ H0 n e Hin) as (r' & He' & [Hx|[_ Hx]]); congruence. }
    split; [|split].
    - constructor.
      + intros e r He. rewrite Hge in He. destruct (Hsurv e r He) as (He0 & Hf & Ht).
        destruct (c_edge _ H0 e r He0) as (H1 & H2 & H3 & H4 & H5).
        assert (Hnd : ~ In e all).
        { intros Hin. rewrite (j_gone _ _ _ _ Hj e Hin) in He. discriminate. }
        rewrite !Hn, !Hl. cbn [key_node].
        destruct (N.eqb_spec (rfrom r) n) as [|_]; [contradiction|].
        destruct (N.eqb_spec (rto r) n) as [|_]; [contradiction|].
        repeat split; try assumption; try (apply (j_stay _ _ _ _ Hj); assumption).
        * apply (j_stay _ _ _ _ Hj); [apply H5|]; assumption.
        * apply (j_stay _ _ _ _ Hj); [apply H5|]; assumption.
      + intros m e Hin. rewrite Hl in Hin. cbn [key_node] in Hin. destruct (N.eqb_spec m n) as [|Hm]; [destruct Hin|].
        pose proof (j_shrink _ _ _ _ Hj _ _ Hin) as Hin0. destruct (c_out _ H0 m e Hin0) as (r & He & Ht).
        exists r. split; [|assumption]. rewrite Hge. apply (j_keep _ _ _ _ Hj); [assumption|].
        intros Hd. apply (proj1 (j_clean _ _ _ _ Hj m e Hm Hd)). assumption.
      + intros m e Hin. rewrite Hl in Hin. cbn [key_node] in Hin. destruct (N.eqb_spec m n) as [|Hm]; [destruct Hin|].
        pose proof (j_shrink _ _ _ _ Hj _ _ Hin) as Hin0. destruct (c_in _ H0 m e Hin0) as (r & He & Ht).
        exists r. split; [|assumption]. rewrite Hge. apply (j_keep _ _ _ _ Hj); [assumption|].
        intros Hd. apply (proj2 (j_clean _ _ _ _ Hj m e Hm Hd)). assumption.
      + intros k. rewrite Hl. destruct (N.eqb (key_node k) n); [constructor|apply (j_nodup _ _ _ _ Hj)].
      + intros k Hk. rewrite Hgl in Hk. destruct (N.eqb_spec (key_node k) n) as [|Hkn]; [congruence|].
        apply Hn. split; [|assumption]. apply (c_keys _ H0). apply (j_keys _ _ _ _ Hj). assumption.
    - rewrite Hn. tauto.
    - intros e r. rewrite Hge. split; [apply Hsurv|]. intros (He & Hf & Ht). apply Hkeep; assumption.
  Qed.
End DeleteNode2.

(* ---------------------------------------------------------------- every operation sequence *)
Definition Fresh (s : store) : Prop :=
  (forall e r, get_edge s e = Some r -> e <= ecount s) /\ (forall m, In m (snodes s) -> m <= ncount s).
Definition Good (s : store) : Prop := Consistent s /\ Fresh s.

Lemma exec_counts s a : ecount (exec s a) = ecount s /\ ncount (exec s a) = ncount s.
Proof. destruct a as [e r|k e|k e|e]; cbn; try (split; reflexivity); [destruct k; split; reflexivity|]. destruct (get_list s k); [destruct k|]; split; reflexivity. Qed.
Lemma run_counts tr : forall s, ecount (run_steps s tr) = ecount s /\ ncount (run_steps s tr) = ncount s.
Proof.
  induction tr as [|a tr IH]; intros s; [split; reflexivity|].
  change (run_steps s (a :: tr)) with (run_steps (exec s a) tr). destruct (IH (exec s a)) as [E1 E2].
  destruct (exec_counts s a) as [E3 E4]. split; congruence.
Qed.

Lemma Consistent_with_ecount s c : Consistent s -> Consistent (with_ecount s c).
Proof. intros [H1 H2 H3 H4 H5]. constructor; assumption. Qed.

Lemma good_empty : Good empty.
Proof.
  split; [constructor|split].
  - intros e r He. discriminate He.
  - intros n e Hin. destruct n; destruct Hin.
  - intros n e Hin. destruct n; destruct Hin.
  - intros k. destruct k; constructor.
  - intros k Hk. destruct k; cbn in Hk; congruence.
  - intros e r He. discriminate He.
  - intros m [].
Qed.

Lemma create_node_good s : Good s -> Good (fst (apply s CreateNode)).
Proof.
  intros [Hc [Hfe Hfn]]. cbn [apply fst]. set (id := ncount s + 1).
  set (s' := ST (snodes s ++ [id]) (aset (sout s) id []) (aset (sinl s) id []) (sedges s) id (ecount s)).
  assert (Hid : ~ In id (snodes s)).
  { intros Hin. specialize (Hfn id Hin). unfold id in Hfn. lia. }
  assert (Hge : forall e, get_edge s' e = get_edge s e) by reflexivity.
  assert (Hgl : forall k, get_list s' k = if N.eqb id (key_node k) then Some [] else get_list s k).
  { intros [m|m]; cbn; apply aget_aset. }
  assert (Hl : forall k, lst s' k = if N.eqb id (key_node k) then [] else lst s k).
  { intros k. unfold lst. rewrite Hgl. destruct (N.eqb id (key_node k)); reflexivity. }
  assert (Hold : forall k, In (key_node k) (snodes s) -> lst s' k = lst s k).
  { intros k Hin. rewrite Hl. destruct (N.eqb_spec id (key_node k)) as [E|]; [|reflexivity]. rewrite <- E in Hin. contradiction. }
  split.
  - constructor.
    + intros e r He. rewrite Hge in He. destruct (c_edge _ Hc e r He) as (H1 & H2 & H3 & H4 & H5).
      cbn [snodes s']. rewrite !in_app_iff. rewrite !Hold by (cbn [key_node]; assumption). tauto.
    + intros m e Hin. rewrite Hl in Hin. cbn [key_node] in Hin. destruct (N.eqb id m); [destruct Hin|].
      rewrite Hge. apply (c_out _ Hc). assumption.
    + intros m e Hin. rewrite Hl in Hin. cbn [key_node] in Hin. destruct (N.eqb id m); [destruct Hin|].
      rewrite Hge. apply (c_in _ Hc). assumption.
    + intros k. rewrite Hl. destruct (N.eqb id (key_node k)); [constructor|apply (c_nodup _ Hc)].
    + intros k Hk. rewrite Hgl in Hk. cbn [snodes s']. rewrite in_app_iff.
      destruct (N.eqb_spec id (key_node k)) as [E|]; [right; left; assumption|left; apply (c_keys _ Hc); assumption].
  - split.
    + intros e r He. rewrite Hge in He. apply (Hfe e r He).
    + intros m Hin. cbn [snodes s'] in Hin. cbn [ncount s']. apply in_app_or in Hin.
      destruct Hin as [Hin|[<-|[]]]; [specialize (Hfn m Hin); unfold id; lia|lia].
Qed.

Lemma plan_single_create c : plan_steps [c] [] = csteps c.
Proof. unfold plan_steps. cbn. rewrite !app_nil_r. reflexivity. Qed.
Lemma plan_single_delete d : plan_steps [] [d] = dsteps d.
Proof. unfold plan_steps. cbn. rewrite app_nil_r. reflexivity. Qed.

Lemma create_edge_good s e f t d c :
  Good s -> get_edge s e = None -> In f (snodes s) -> In t (snodes s) -> e <= c -> ecount s <= c ->
  Good (run_steps (with_ecount s c) (create_edge_steps e f t d)).
Proof.
  intros [Hc [Hfe Hfn]] Hnone Hf Ht Hec Hcc.
  pose proof (plan_consistent (with_ecount s c) [(e, f, t, d)] [] (create_edge_steps e f t d)) as P.
  destruct P as [P1 P2].
  - apply Consistent_with_ecount. assumption.
  - constructor.
    + cbn. constructor; [intros []|constructor].
    + intros e' f' t' d' [Hin|[]]. inversion Hin; subst. repeat split; assumption.
    + intros e' r' [].
  - rewrite plan_single_create. apply Permutation_refl.
  - split; [assumption|]. destruct (run_counts (create_edge_steps e f t d) (with_ecount s c)) as [E1 E2].
    split.
    + intros e' r' He. rewrite E1. cbn [ecount with_ecount]. apply P2 in He.
      destruct He as [[He _]|(f' & t' & d' & [Hin|[]] & _)].
      * specialize (Hfe e' r' He). lia.
      * inversion Hin; subst. assumption.
    + intros m Hin. rewrite E2. rewrite run_nodes in Hin. apply (Hfn m Hin).
Qed.

Lemma delete_edge_good s e r : Good s -> get_edge s e = Some r -> Good (run_steps s (delete_edge_steps e r)).
Proof.
  intros [Hc [Hfe Hfn]] He.
  destruct (plan_consistent s [] [(e, r)] (delete_edge_steps e r)) as [P1 P2].
  - assumption.
  - constructor; [constructor|intros ? ? ? ? []|]. intros e' r' [Hin|[]]. inversion Hin; subst. assumption.
  - rewrite plan_single_delete. apply Permutation_refl.
  - split; [assumption|]. destruct (run_counts (delete_edge_steps e r) s) as [E1 E2]. split.
    + intros e' r' He'. rewrite E1. apply P2 in He'. destruct He' as [[He' _]|(f' & t' & d' & [] & _)]. apply (Hfe e' r' He').
    + intros m Hin. rewrite E2. rewrite run_nodes in Hin. apply (Hfn m Hin).
Qed.

Lemma delete_node_counts s n : ecount (delete_node s n) = ecount s /\ ncount (delete_node s n) = ncount s.
Proof.
  unfold delete_node.
  set (todo := dedup _). clearbody todo.
  assert (H : forall l s1, ecount (fold_left (fun s e => run_steps s (detach_steps s n e)) l s1) = ecount s1
                        /\ ncount (fold_left (fun s e => run_steps s (detach_steps s n e)) l s1) = ncount s1).
  { induction l as [|e l IH]; intros s1; [split; reflexivity|]. cbn [fold_left].
    destruct (IH (run_steps s1 (detach_steps s1 n e))) as [E1 E2].
    destruct (run_counts (detach_steps s1 n e) s1) as [E3 E4]. split; congruence. }
  destruct (H todo s) as [E1 E2]. split; assumption.
Qed.

Definition plain (o : op) : bool := match o with CreateEdgeId _ _ _ _ => false | _ => true end.

Lemma fold_max_ge l : forall a x, In x l -> x <= fold_left N.max l a.
Proof.
  induction l as [|y l IH]; intros a x Hx; [destruct Hx|]. cbn [fold_left]. destruct Hx as [->|Hx].
  - clear IH. revert a. induction l as [|z l IH2]; intros a; cbn [fold_left]; [lia|].
    specialize (IH2 (N.max a z)). pose proof (N.le_max_l (N.max a x) z).
    assert (forall b c, b <= c -> fold_left N.max l b <= fold_left N.max l c) as Hmono.
    { clear. induction l as [|w l IH]; intros b c Hbc; cbn [fold_left]; [assumption|]. apply IH. lia. }
    etransitivity; [apply IH2|]. apply Hmono. lia.
  - apply IH. assumption.
Qed.
Lemma aget_In_fst {V} (l : list (N * V)) k v : aget l k = Some v -> In k (map fst l).
Proof.
  induction l as [|[k0 v0] l IH]; cbn; [discriminate|]. destruct (N.eqb_spec k0 k) as [->|]; [left; reflexivity|].
  intros H. right. apply IH. assumption.
Qed.

Lemma create_edge_op_good s f t d : Good s -> Good (fst (create_edge_op s f t d)).
Proof.
  intros Hg. unfold create_edge_op. destruct (node_exists s f) eqn:Hf; cbn [negb]; [|assumption].
  destruct (node_exists s t) eqn:Ht; cbn [negb fst]; [|assumption].
  apply mem_In in Hf. apply mem_In in Ht.
  apply create_edge_good; try assumption; try lia.
  destruct (get_edge s (ecount s + 1)) as [r|] eqn:He; [|reflexivity].
  destruct Hg as [_ [Hfe _]]. specialize (Hfe _ _ He). lia.
Qed.

Lemma batch_fold_good l : forall s, Good s ->
  Good (fold_left (fun s c => let '(f, t, d) := c in fst (create_edge_op s f t d)) l s).
Proof.
  induction l as [|[[f t] d] l IH]; intros s Hg; [assumption|]. cbn [fold_left]. apply IH.
  apply create_edge_op_good. assumption.
Qed.

Lemma apply_good s o : Good s -> plain o = true -> Good (fst (apply s o)).
Proof.
  intros Hg Hp. destruct o as [|f t d|e f t d|e|n|n|e|l| |]; try discriminate Hp.
  - apply create_node_good. assumption.
  - cbn [apply]. apply create_edge_op_good. assumption.
  - cbn [apply]. destruct (get_edge s e) as [r|] eqn:He; cbn [fst]; [|assumption].
    apply delete_edge_good; assumption.
  - cbn [apply]. destruct (node_exists s n) eqn:Hn; cbn [fst]; [|assumption].
    destruct Hg as [Hc [Hfe Hfn]]. destruct (delete_node_consistent s n Hc) as (C1 & C2 & C3).
    destruct (delete_node_counts s n) as [E1 E2].
    split; [assumption|split].
    + intros e r He. rewrite E1. apply C3 in He. apply (Hfe e r (proj1 He)).
    + intros m Hin. rewrite E2. apply Hfn.
      change (snodes (delete_node s n)) with (filter (fun x => negb (N.eqb x n)) (snodes (after_loop s n))) in Hin.
      apply filter_In in Hin. destruct Hin as [Hin _].
      assert (Hfold : forall l s1, snodes (fold_left (fun s e => run_steps s (detach_steps s n e)) l s1) = snodes s1).
      { induction l as [|e l IH]; intros s1; [reflexivity|]. cbn [fold_left]. rewrite IH. apply run_nodes. }
      unfold after_loop in Hin. rewrite Hfold in Hin. assumption.
  - cbn [apply]. destruct (node_exists s n); assumption.
  - cbn [apply]. destruct (get_edge s e); assumption.
  - cbn [apply]. unfold batch_create. destruct (batch_missing s l); cbn [fst]; [assumption|].
    apply batch_fold_good. assumption.
  - (* Reopen *)
    cbn [apply fst]. destruct Hg as [[H1 H2 H3 H4 H5] [Hfe Hfn]]. split; [constructor; assumption|split].
    + intros e r He. cbn [ecount]. apply fold_max_ge. unfold get_edge in He. cbn [sedges] in He.
      apply aget_In_fst in He. assumption.
    + intros m Hm. cbn [ncount]. apply fold_max_ge. assumption.
  - cbn [apply fst]. assumption.
Qed.

(* the sequential theorem: Consistent is an invariant of every operation sequence from the empty graph *)
Theorem run_good : forall ops s, Good s -> forallb plain ops = true -> Good (run s ops).
Proof.
  induction ops as [|o ops IH]; intros s Hg Hp; [assumption|].
  cbn in Hp. apply andb_true_iff in Hp. destruct Hp as [Hp1 Hp2].
  cbn [run]. apply IH; [apply apply_good; assumption|assumption].
Qed.

(* ---------------------------------------------------------------- reads agree with the edge set *)
Theorem lists_exact s : Consistent s -> forall n e,
  (In e (lst s (KOut n)) <-> exists r, get_edge s e = Some r /\ touches_out r n) /\
  (In e (lst s (KIn n)) <-> exists r, get_edge s e = Some r /\ touches_in r n).
Proof.
  intros Hc n e. split; split.
  - apply (c_out _ Hc).
  - intros (r & He & [<-|[Hd <-]]); destruct (c_edge _ Hc e r He) as (_ & _ & H3 & H4 & H5); [assumption|apply H5; assumption].
  - apply (c_in _ Hc).
  - intros (r & He & [<-|[Hd <-]]); destruct (c_edge _ Hc e r He) as (_ & _ & H3 & H4 & H5); [assumption|apply H5; assumption].
Qed.

(* ---------------------------------------------------------------- threads and interleavings *)
Inductive Interleave {A} : list (list A) -> list A -> Prop :=
| il_done : forall ts, Forall (fun t => t = []) ts -> Interleave ts []
| il_step : forall ts1 a t ts2 tr,
    Interleave (ts1 ++ t :: ts2) tr -> Interleave (ts1 ++ (a :: t) :: ts2) (a :: tr).

Lemma interleave_perm {A} (ts : list (list A)) tr : Interleave ts tr -> Permutation tr (concat ts).
Proof.
  induction 1 as [ts Hall|ts1 a t ts2 tr Hi IH].
  - assert (E : concat ts = []).
    { induction Hall as [|t ts Ht _ IH]; [reflexivity|]. cbn. rewrite Ht, IH. reflexivity. }
    rewrite E. constructor.
  - rewrite concat_app in IH. rewrite concat_app. cbn [concat] in *.
    change ((a :: t) ++ concat ts2) with (a :: t ++ concat ts2).
    apply Permutation_cons_app. exact IH.
Qed.

Inductive pop := PCreate (c : creq) | PDelete (d : N * erec).
Definition pop_steps (o : pop) : list astep := match o with PCreate c => csteps c | PDelete d => dsteps d end.
Definition creates (l : list pop) : list creq := flat_map (fun o => match o with PCreate c => [c] | _ => [] end) l.
Definition deletes (l : list pop) : list (N * erec) := flat_map (fun o => match o with PDelete d => [d] | _ => [] end) l.

Lemma pops_perm l : Permutation (flat_map pop_steps l) (plan_steps (creates l) (deletes l)).
Proof.
  unfold plan_steps. induction l as [|[c|d] l IH]; cbn [flat_map creates deletes pop_steps app].
  - constructor.
  - rewrite <- app_assoc. apply Permutation_app_head. exact IH.
  - unfold creates, deletes in *.
    eapply Permutation_trans; [apply Permutation_app_head; exact IH|].
    rewrite !app_assoc. apply Permutation_app_tail. apply Permutation_app_comm.
Qed.

(* any number of threads, each a sequence of edge creations/deletions, every adjacency
   read-modify-write atomic: every interleaving of their atomic steps ends consistent *)
Theorem threads_consistent s (threads : list (list pop)) tr :
  Consistent s -> Plan s (creates (concat threads)) (deletes (concat threads)) ->
  Interleave (map (flat_map pop_steps) threads) tr ->
  Consistent (run_steps s tr) /\
  (forall e r, get_edge (run_steps s tr) e = Some r <->
     (get_edge s e = Some r /\ ~ (exists r', In (e, r') (deletes (concat threads))))
     \/ (exists f t d, In (e, f, t, d) (creates (concat threads)) /\ r = ER f t d)).
Proof.
  intros Hs Hp Hi. apply plan_consistent; try assumption.
  eapply Permutation_trans; [apply interleave_perm; eassumption|].
  rewrite <- flat_map_concat_map.
  assert (E : flat_map (flat_map pop_steps) threads = flat_map pop_steps (concat threads)).
  { clear. induction threads as [|t ts IH]; [reflexivity|]. cbn. rewrite flat_map_app, IH. reflexivity. }
  rewrite E. apply pops_perm.
Qed.

(* ---------------------------------------------------------------- refutations *)
(* without the per-key lock: two threads add an edge at the same hub; thread 2 reads the hub's list
   before thread 1 has written it back and overwrites thread 1's update *)
Definition lu_s0 : store := fst (apply (fst (apply (fst (apply empty CreateNode)) CreateNode)) CreateNode).
Definition lu_t1 := create_edge_nsteps 1 1 1 2 true.
Definition lu_t2 := create_edge_nsteps 2 2 1 3 true.
Definition lu_schedule : list nstep :=
  [NAtom (APutEdge 1 (ER 1 2 true)); NAtom (APutEdge 2 (ER 1 3 true));
   NRead 1 (KOut 1); NRead 2 (KOut 1); NWriteAdd 1 (KOut 1) 1; NWriteAdd 2 (KOut 1) 2;
   NRead 1 (KIn 2); NWriteAdd 1 (KIn 2) 1; NRead 2 (KIn 3); NWriteAdd 2 (KIn 3) 2].

Theorem lost_update_refuted :
  Consistent lu_s0 /\ Interleave [lu_t1; lu_t2] lu_schedule /\
  get_edge (nrun lu_s0 lu_schedule) 1 = Some (ER 1 2 true) /\
  ~ In 1 (lst (nrun lu_s0 lu_schedule) (KOut 1)) /\
  ~ Consistent (nrun lu_s0 lu_schedule).
Proof.
  split; [|split; [|split; [|split]]].
  - apply (run_good [CreateNode; CreateNode; CreateNode] empty good_empty eq_refl).
  - unfold lu_t1, lu_t2, lu_schedule, create_edge_nsteps. cbn [app].
    apply (il_step [] _ _ [_]). apply (il_step [_] _ _ []). apply (il_step [] _ _ [_]). apply (il_step [_] _ _ []).
    apply (il_step [] _ _ [_]). apply (il_step [_] _ _ []). apply (il_step [] _ _ [_]). apply (il_step [] _ _ [_]).
    apply (il_step [_] _ _ []). apply (il_step [_] _ _ []). apply il_done. repeat constructor.
  - vm_compute. reflexivity.
  - vm_compute. intros [H|[]]. discriminate H.
  - intros Hc. destruct (c_edge _ Hc 1 (ER 1 2 true)) as (_ & _ & H3 & _); [vm_compute; reflexivity|].
    vm_compute in H3. destruct H3 as [H|[]]. discriminate H.
Qed.

(* delete_node racing an edge creation on the same node (no lock covers the existence check and the
   list updates together): create_edge(1, 2) has checked that both endpoints exist, delete_node(1)
   runs to completion, create_edge then writes the edge and its list entries *)
Definition dr_s0 : store := fst (apply (fst (apply empty CreateNode)) CreateNode).
Theorem delete_node_race_refuted :
  Consistent dr_s0 /\ node_exists dr_s0 1 = true /\ node_exists dr_s0 2 = true /\
  ~ Consistent (run_steps (delete_node dr_s0 1) (create_edge_steps 1 1 2 true)).
Proof.
  split; [|split; [|split]].
  - apply (run_good [CreateNode; CreateNode] empty good_empty eq_refl).
  - reflexivity.
  - reflexivity.
  - intros Hc. destruct (c_edge _ Hc 1 (ER 1 2 true)) as (H1 & _); [vm_compute; reflexivity|].
    vm_compute in H1. destruct H1 as [H|[]]. discriminate H.
Qed.
