(* C05/Props.v -- pinned property theorems; nothing but statements closed by `exact`. *)
From NV.Common Require Import Base.
From NV.C05 Require Import Model Proofs Inst.
From Coq Require Import Permutation.
Open Scope N_scope.

(* what `Consistent` says, spelled out: (1) every existing edge has both endpoints and is listed by
   both of them in the right direction lists; (2),(3) every listed edge exists and touches the lister
   in the direction of the list; (4) no list has duplicates; (5) lists exist only for existing nodes *)
Theorem C05_consistent_means : forall s, Consistent s <->
  (forall e r, get_edge s e = Some r ->
      In (rfrom r) (snodes s) /\ In (rto r) (snodes s) /\
      In e (lst s (KOut (rfrom r))) /\ In e (lst s (KIn (rto r))) /\
      (rdir r = false -> In e (lst s (KOut (rto r))) /\ In e (lst s (KIn (rfrom r))))) /\
  (forall n e, In e (lst s (KOut n)) ->
      exists r, get_edge s e = Some r /\ (rfrom r = n \/ (rdir r = false /\ rto r = n))) /\
  (forall n e, In e (lst s (KIn n)) ->
      exists r, get_edge s e = Some r /\ (rto r = n \/ (rdir r = false /\ rfrom r = n))) /\
  (forall k, NoDup (lst s k)) /\
  (forall k, get_list s k <> None -> In (key_node k) (snodes s)).
Proof.
  intros s. split.
  - intros [H1 H2 H3 H4 H5]. split; [exact H1|split; [exact H2|split; [exact H3|split; [exact H4|exact H5]]]].
  - intros (H1 & H2 & H3 & H4 & H5). constructor; [exact H1|exact H2|exact H3|exact H4|exact H5].
Qed.

(* sequential: Consistent holds after every sequence of node/edge creations, updates and deletions
   (self-loops, parallel edges, undirected edges, missing ids included) *)
Theorem C05_sequential_consistent : forall ops,
  forallb plain ops = true -> Consistent (run empty ops).
Proof. exact (fun ops H => proj1 (run_good ops empty good_empty H)). Qed.

(* deleting a node removes the node and exactly its incident edges, and leaves a consistent graph *)
Theorem C05_delete_node_removes_edges : forall s n, Consistent s ->
  Consistent (delete_node s n) /\ ~ In n (snodes (delete_node s n)) /\
  (forall e r, get_edge (delete_node s n) e = Some r <-> get_edge s e = Some r /\ rfrom r <> n /\ rto r <> n).
Proof. exact (fun s n H => delete_node_consistent s n H). Qed.

(* the adjacency lists are exactly what the edge set implies (so edges_of, degrees and neighbours,
   which are computed from them, are too) *)
Theorem C05_reads_exact : forall s, Consistent s -> forall n e,
  (In e (lst s (KOut n)) <-> exists r, get_edge s e = Some r /\ (rfrom r = n \/ (rdir r = false /\ rto r = n))) /\
  (In e (lst s (KIn n)) <-> exists r, get_edge s e = Some r /\ (rto r = n \/ (rdir r = false /\ rfrom r = n))).
Proof. exact lists_exact. Qed.

(* concurrent: any number of threads, each running a sequence of edge creations (distinct fresh ids,
   endpoints exist) and deletions (of existing edges), adjacency read-modify-write atomic per key:
   EVERY interleaving of their atomic store steps ends in a consistent state that holds exactly the
   old edges minus the deleted ones plus the created ones *)
Theorem C05_concurrent_atomic_rmw : forall s (threads : list (list pop)) tr,
  Consistent s ->
  NoDup (map cid (creates (concat threads))) ->
  (forall e f t d, In (e, f, t, d) (creates (concat threads)) -> get_edge s e = None /\ In f (snodes s) /\ In t (snodes s)) ->
  (forall e r, In (e, r) (deletes (concat threads)) -> get_edge s e = Some r) ->
  Interleave (map (flat_map pop_steps) threads) tr ->
  Consistent (run_steps s tr) /\
  (forall e r, get_edge (run_steps s tr) e = Some r <->
     (get_edge s e = Some r /\ ~ (exists r', In (e, r') (deletes (concat threads))))
     \/ (exists f t d, In (e, f, t, d) (creates (concat threads)) /\ r = ER f t d)).
Proof. exact (fun s threads tr Hs H1 H2 H3 Hi => threads_consistent s threads tr Hs (Build_Plan _ _ _ H1 H2 H3) Hi). Qed.

(* non-vacuity: two threads on a hub with a self-loop and a parallel undirected edge already present *)
Example C05_concurrent_example :
  let s := run empty [CreateNode; CreateNode; CreateNode; CreateEdge 1 1 false; CreateEdge 1 2 true; CreateEdge 2 1 false] in
  let threads := [[PCreate (4, 1, 2, true); PDelete (2, ER 1 2 true)]; [PCreate (5, 3, 1, false); PDelete (1, ER 1 1 false)]] in
  Consistent s /\ Plan s (creates (concat threads)) (deletes (concat threads)).
Proof.
  split; [apply C05_sequential_consistent; reflexivity|].
  constructor.
  - repeat constructor; cbn; intuition discriminate.
  - intros e f t d H. cbn in H. destruct H as [H|[H|[]]]; inversion H; subst; vm_compute; intuition.
  - intros e r H. cbn in H. destruct H as [H|[H|[]]]; inversion H; subst; reflexivity.
Qed.

(* the same statement is FALSE when the read and the write-back of an adjacency update are separate
   steps (the code before the per-key lock): F-C05-rmw *)
Theorem C05_lost_update_refuted :
  Consistent lu_s0 /\ Interleave [lu_t1; lu_t2] lu_schedule /\
  get_edge (nrun lu_s0 lu_schedule) 1 = Some (ER 1 2 true) /\
  ~ In 1 (lst (nrun lu_s0 lu_schedule) (KOut 1)) /\
  ~ Consistent (nrun lu_s0 lu_schedule).
Proof. exact lost_update_refuted. Qed.

(* and it is FALSE for a node deletion that runs between an edge creation's endpoint check and its
   writes (known finding: class concurrent-delete-node) *)
Theorem C05_delete_node_race_refuted :
  Consistent dr_s0 /\ node_exists dr_s0 1 = true /\ node_exists dr_s0 2 = true /\
  ~ Consistent (run_steps (delete_node dr_s0 1) (create_edge_steps 1 1 2 true)).
Proof. exact delete_node_race_refuted. Qed.

Print Assumptions C05_consistent_means.
Print Assumptions C05_sequential_consistent.
Print Assumptions C05_delete_node_removes_edges.
Print Assumptions C05_reads_exact.
Print Assumptions C05_concurrent_atomic_rmw.
Print Assumptions C05_lost_update_refuted.
Print Assumptions C05_delete_node_race_refuted.
