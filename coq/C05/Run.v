(* C05/Run.v -- executable entry points: the `Consistent` oracle evaluated on what the REAL engine's
   public reads returned, and the comparison with the store-level model. Depends on Model only. *)
From NV.Common Require Import Base.
From NV.C05 Require Import Model.
Open Scope N_scope.

Definition vrank (v : N) : N := match v with 0 => 0 | 2 => 5 | 1 => 4 | 9 => 2 | _ => 3 end.
Definition vworse (a b : N) : N := if N.ltb (vrank a) (vrank b) then b else a.
Definition vall (l : list N) : N := fold_left vworse l 0.

Definition lN_eqb := list_eqb N.eqb.
Definition erec_eqb (a b : erec) : bool :=
  N.eqb (rfrom a) (rfrom b) && N.eqb (rto a) (rto b) && Bool.eqb (rdir a) (rdir b).
Definition nobs_eqb (a b : nobs) : bool :=
  N.eqb (o_id a) (o_id b) && lN_eqb (o_out a) (o_out b) && lN_eqb (o_in a) (o_in b)
  && N.eqb (o_outdeg a) (o_outdeg b) && N.eqb (o_indeg a) (o_indeg b)
  && lN_eqb (o_nout a) (o_nout b) && lN_eqb (o_nin a) (o_nin b) && lN_eqb (o_nboth a) (o_nboth b).
Definition obs_eqb (a b : obs) : bool :=
  lN_eqb (ob_nodes a) (ob_nodes b)
  && list_eqb (pair_eqb N.eqb erec_eqb) (ob_edges a) (ob_edges b)
  && list_eqb nobs_eqb (ob_per a) (ob_per b) && Bool.eqb (ob_ok a) (ob_ok b).
Definition res_eqb (a b : res) : bool :=
  match a, b with
  | RId x, RId y => N.eqb x y
  | ROk, ROk => true
  | RNoNode x, RNoNode y => N.eqb x y
  | RNoEdge x, RNoEdge y => N.eqb x y
  | RErr, RErr => true
  | RIds x, RIds y => lN_eqb x y
  | RRejected, RRejected => true
  | _, _ => false
  end.

(* ---- the property, on an observation --------------------------------------------------------
   (1) every existing edge has existing endpoints and is listed by both of them in the right lists
   (2) every listed edge exists and touches the lister in the direction of that list
   (3) degrees are the sizes of the lists (no orphan or duplicate entries hidden by edges_of)
   (4) neighbours are exactly what the edge set implies *)
Definition per_of (o : obs) (n : N) : option nobs := find (fun p => N.eqb (o_id p) n) (ob_per o).
Definition listed (o : obs) (sel : nobs -> list N) (n e : N) : bool :=
  match per_of o n with Some p => mem e (sel p) | None => false end.

Definition nbr_def (o : obs) (n : N) (dir : N) : list N :=
  sort_N (dedup (filter (fun x => negb (N.eqb x n))
    (flat_map (fun er =>
       let r := snd er in
       (if (N.eqb dir 0 || N.eqb dir 2) then
          (if N.eqb (rfrom r) n then [rto r] else []) ++ (if negb (rdir r) && N.eqb (rto r) n then [rfrom r] else [])
        else [])
       ++
       (if (N.eqb dir 1 || N.eqb dir 2) then
          (if N.eqb (rto r) n then [rfrom r] else []) ++ (if negb (rdir r) && N.eqb (rfrom r) n then [rto r] else [])
        else []))
      (ob_edges o)))).

Definition edge_listed_ok (o : obs) (er : N * erec) : bool :=
  let '(e, r) := er in
  mem (rfrom r) (ob_nodes o) && mem (rto r) (ob_nodes o)
  && listed o o_out (rfrom r) e && listed o o_in (rto r) e
  && (rdir r || (listed o o_out (rto r) e && listed o o_in (rfrom r) e)).
Definition node_lists_ok (o : obs) (p : nobs) : bool :=
  let n := o_id p in
  forallb (fun e => match aget (ob_edges o) e with
                    | Some r => N.eqb (rfrom r) n || (negb (rdir r) && N.eqb (rto r) n)
                    | None => false end) (o_out p)
  && forallb (fun e => match aget (ob_edges o) e with
                       | Some r => N.eqb (rto r) n || (negb (rdir r) && N.eqb (rfrom r) n)
                       | None => false end) (o_in p)
  && N.eqb (o_outdeg p) (N.of_nat (length (o_out p))) && N.eqb (o_indeg p) (N.of_nat (length (o_in p)))
  && lN_eqb (o_nout p) (nbr_def o n 0) && lN_eqb (o_nin p) (nbr_def o n 1) && lN_eqb (o_nboth p) (nbr_def o n 2).
Definition consistent_obs (o : obs) : bool :=
  ob_ok o && lN_eqb (map o_id (ob_per o)) (ob_nodes o)
  && forallb (edge_listed_ok o) (ob_edges o)
  && forallb (node_lists_ok o) (ob_per o).

(* ---- sequential traces: (ops, result and observation after each op) *)
Definition seq_case := (list op * list (res * obs))%type.
Fixpoint seq_walk (s : store) (ops : list op) (os : list (res * obs)) : N :=
  match ops, os with
  | [], [] => V_OK
  | o :: ops', (r, ob) :: os' =>
      let '(s', r') := apply s o in
      if negb (consistent_obs ob) then V_VIOLATION
      else if negb (res_eqb r' r && obs_eqb (observe s') ob) then V_MISMATCH
      else seq_walk s' ops' os'
  | _, _ => 9
  end.
Definition check_seq (c : seq_case) : N := let '(ops, os) := c in seq_walk empty ops os.

(* ---- concurrent runs: sequential setup, then threads (ops with the results the engine returned,
   creations carrying the id handed out), then the observation at quiescence.
   mode 0: threads create edges between nodes that stay and delete/update edges of the setup (a
           deleted edge is never updated): the final graph does not depend on the interleaving
           (C05_concurrent_atomic_rmw), so the model run thread after thread must give the same
           observation.
   mode 1: node deletions race with other operations: only the oracle is evaluated; a failure is
           in known class 0 `concurrent-delete-node` when one thread deleted a node that another
           thread used as an endpoint of an edge creation, or whose incident edges another thread may have
           updated/deleted meanwhile (C05_delete_node_race_refuted). *)
(* operations of another thread that can race with delete_node n: an edge creation naming n, or an
   edge update/deletion (the edge may be incident to n; update_edge re-puts a record it read) *)
Definition names_endpoint (n : N) (o : op) : bool :=
  match o with
  | CreateEdge f t _ => N.eqb f n || N.eqb t n
  | CreateEdgeId _ f t _ => N.eqb f n || N.eqb t n
  | UpdateEdge _ => true
  | DeleteEdge _ => true
  | _ => false
  end.
Definition deleted_nodes (t : list (op * res)) : list N :=
  flat_map (fun p => match p with (DeleteNode n, ROk) => [n] | _ => [] end) t.
Fixpoint delete_node_race (before after : list (list (op * res))) : bool :=
  match after with
  | [] => false
  | t :: rest =>
      existsb (fun n => existsb (fun t' => existsb (fun p => names_endpoint n (fst p)) t') (before ++ rest)) (deleted_nodes t)
      || delete_node_race (before ++ [t]) rest
  end.
(* every edge id handed out to a thread is unique and was not in use before the threads started *)
Definition created_ids (threads : list (list (op * res))) : list N :=
  flat_map (fun p => match p with (CreateEdgeId e _ _ _, RId _) => [e] | _ => [] end) (concat threads).
Fixpoint nodupb (l : list N) : bool :=
  match l with [] => true | x :: r => negb (mem x r) && nodupb r end.
Definition ids_unique (s0 : store) (threads : list (list (op * res))) : bool :=
  nodupb (created_ids threads)
  && forallb (fun e => match get_edge s0 e with Some _ => false | None => true end) (created_ids threads).
Definition conc_case := (N * list op * list (list (op * res)) * obs)%type.
Definition check_conc (c : conc_case) : N :=
  let '(mode, setup, threads, ob) := c in
  if negb (ids_unique (run empty setup) threads) then V_VIOLATION
  else if negb (consistent_obs ob) then
    (if N.eqb mode 1 && delete_node_race [] threads then V_KNOWN 0 else V_VIOLATION)
  else if N.eqb mode 0 then
    let s := run (run empty setup) (map fst (concat threads)) in
    if obs_eqb (observe s) ob then V_OK else V_MISMATCH
  else V_OK.

(* ---- concurrent phase followed by a sequential tail: setup, threads (as in conc mode 0: only edge
   creations on nodes that stay, so the state after the phase does not depend on the interleaving
   except for the ORDER of the adjacency lists), then sequential operations observed after every
   step.  Adjacency lists left in non-ascending order by the concurrent phase must not matter. *)
Definition mixed_case := (list op * list (list (op * res)) * list op * list (res * obs))%type.
Definition check_mixed (c : mixed_case) : N :=
  let '(setup, threads, tail, os) := c in
  if negb (ids_unique (run empty setup) threads) then V_VIOLATION
  else seq_walk (run (run empty setup) (map fst (concat threads))) tail os.

(* ---- traversal: after a sequence of operations, traverse(start, dir, max_depth) for many starts and
   bounds.  Oracle (from the engine's OWN all_edges): exactly the existing nodes at distance
   <= max_depth following edges in the requested direction (undirected edges either way). *)
Definition ref_step (o : obs) (dir : N) (u : N) : list N :=
  flat_map (fun er =>
    let r := snd er in
    (if N.eqb dir 0 || N.eqb dir 2 then
       (if N.eqb (rfrom r) u then [rto r] else []) ++ (if negb (rdir r) && N.eqb (rto r) u then [rfrom r] else [])
     else [])
    ++
    (if N.eqb dir 1 || N.eqb dir 2 then
       (if N.eqb (rto r) u then [rfrom r] else []) ++ (if negb (rdir r) && N.eqb (rfrom r) u then [rto r] else [])
     else [])) (ob_edges o).
(* distance-indexed balls, computed without a visited set: ball (k+1) = ball k + successors of ball k *)
Fixpoint ref_ball (o : obs) (dir : N) (k : nat) (start : N) : list N :=
  match k with
  | O => [start]
  | S k' => let b := ref_ball o dir k' start in dedup (b ++ flat_map (ref_step o dir) b)
  end.
Definition trav_oracle (o : obs) (q : N * N * N * option (list N)) : bool :=
  let '(start, dir, depth, r) := q in
  match r with
  | None => negb (mem start (ob_nodes o))
  | Some ns => mem start (ob_nodes o)
               && lN_eqb ns (sort_N (filter (fun v => mem v (ob_nodes o)) (ref_ball o dir (N.to_nat depth) start)))
  end.
Definition trav_case := (list op * obs * list (N * N * N * option (list N)))%type.
Definition check_trav (c : trav_case) : N :=
  let '(ops, ob, qs) := c in
  if negb (consistent_obs ob && forallb (trav_oracle ob) qs) then V_VIOLATION
  else let s := run empty ops in
       if obs_eqb (observe s) ob
          && forallb (fun q => let '(start, dir, depth, r) := q in
                               option_eqb lN_eqb (traverse s start dir depth) r) qs
       then V_OK else V_MISMATCH.
