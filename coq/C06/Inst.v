(* C06/Inst.v -- PER-RUN OBLIGATIONS over gen/Gen_C06.v (regenerated from the Rust sources on every
   run): every mutator of stored vectors invalidates the cached index, the cached branch of the
   searches is guarded by the query dimension, SparseVector::from_dense keeps exactly the non-zero
   components, and the representation-choice constants. *)
From NV.Common Require Import Base.
From NV.C06 Require Import Types Model Proofs.
From NV.gen Require Import Gen_C06.
Open Scope N_scope.

Lemma gen_all_invalidate : AllInvalidate gen_invalidates.
Proof.
  intros m Hm. unfold mutators in Hm. cbn [In] in Hm.
  repeat (destruct Hm as [<-|Hm]); [..|contradiction]; vm_compute; reflexivity.
Qed.

Lemma gen_dim_guard : gen_cached_dim_guard = true.
Proof. vm_compute. reflexivity. Qed.

(* post-filtered search falls back to the exact filtered search when it comes up short (F-C06-postfilter repaired) *)
Lemma gen_fallback : gen_post_filter_fallback = true.
Proof. vm_compute. reflexivity. Qed.

(* the cached index and the exact scan call exactly the zero-norm vectors degenerate (score 0): a
   threshold on either side would make the index report other scores than the exact scan for
   non-zero vectors of tiny norm *)
Lemma gen_zero_guards : gen_index_zero_guard_exact = true /\ gen_scan_zero_guard_exact = true.
Proof. vm_compute. split; reflexivity. Qed.

(* the rayon twins of the exact scan compute the same thing as the sequential scans (same filter, same score
   expression on the same query): the exact-path theorem then covers both *)
Lemma gen_twins : gen_scan_twins_agree = true.
Proof. vm_compute. reflexivity. Qed.

Lemma gen_keep_spec : forall b, gen_keep b = negb (f_iszero b).
Proof. intros b. unfold gen_keep. repeat match goal with |- context [if ?c then _ else _] => destruct c end; reflexivity. Qed.

(* |v| > 1e-6 (f32 bits 0x358637BD); threshold 1/2 *)
Lemma gen_constants : gen_eps_bits = 897988541 /\ gen_thr_num = 1 /\ gen_thr_den = 2.
Proof. vm_compute. repeat split; reflexivity. Qed.
