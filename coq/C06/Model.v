(* C06/Model.v -- executable model of the vector engine's search paths, representation choice and
   index-cache discipline (vector_engine/src/lib.rs, tensor_store/src/sparse_vector.rs).
   Definitions only.

   * score : metric -> query -> stored -> f32 bits.  Float arithmetic is not reproduced; the
     theorems hold for EVERY score function; the correspondence runs interpret it by the
     implementation's own metric functions.  Metric ids: 0 cosine, 1 dot product, 2 euclidean
     (as 1/(1+d)), 10 the cached index's own similarity (to_similarity of distance_dense).
   * HashMap scan order is an explicit, universally quantified input (`scan`: any permutation of
     the stored entries).
   * The approximate index is an arbitrary function `ann` from the snapshot it was built from;
     only the safety facts listed in DESIGN section 3/C06 are claimed for the cached path. *)
From NV.Common Require Import Base.
From NV.C06 Require Import Types.
Open Scope N_scope.

(* ------------------------------------------------------------------ sparse representation *)
Section Sparse.
Variable keep : N -> bool.          (* SparseVector::try_from_dense: `val != 0.0` *)

(* (dimension, positions, values) *)
Fixpoint sp_collect (i : nat) (v : vec) : list (nat * N) :=
  match v with
  | [] => []
  | x :: r => if keep x then (i, x) :: sp_collect (S i) r else sp_collect (S i) r
  end.
Definition from_dense (v : vec) : nat * list (nat * N) := (length v, sp_collect 0 v).

Fixpoint set_nth (l : vec) (i : nat) (x : N) : vec :=
  match l, i with
  | [], _ => []
  | _ :: t, O => x :: t
  | h :: t, S i' => h :: set_nth t i' x
  end.
(* SparseVector::to_dense: vec![0.0; dimension], then dense[pos] = val *)
Definition to_dense (s : nat * list (nat * N)) : vec :=
  fold_left (fun d pv => set_nth d (fst pv) (snd pv)) (snd s) (repeat 0 (fst s)).
End Sparse.

(* -0.0 becomes +0.0; nothing else changes *)
Definition normalise_zero (v : vec) : vec := map (fun b => if f_iszero b then 0 else b) v.

(* should_use_sparse_with_threshold: nnz = #{ |x| > eps }, 1 - nnz/len >= num/den
   (exact on integers for every length below 2^22; see Inst.v) *)
Definition use_sparse (eps num den : N) (v : vec) : bool :=
  match v with
  | [] => false
  | _ => let nnz := N.of_nat (length (filter (fun b => f_abs_gt b eps) v)) in
         let len := N.of_nat (length v) in
         N.leb (num * len) (den * (len - nnz))
  end.

(* ------------------------------------------------------------------ exact search *)
Section Search.
Variable score : N -> vec -> vec -> N.

(* stable insertion sort, best (greatest score) first: what a stable sort with the comparator
   b.score.partial_cmp(&a.score).unwrap_or(Equal) yields when no score is NaN *)
Fixpoint ins_desc (x : N * N) (l : list (N * N)) : list (N * N) :=
  match l with
  | [] => [x]
  | y :: r => if f_lt (snd x) (snd y) then y :: ins_desc x r else x :: y :: r
  end.
Definition sort_desc (l : list (N * N)) : list (N * N) := fold_right ins_desc [] l.

Definition cands (m : N) (q : vec) (d : list (N * vec)) : list (N * N) :=
  map (fun kv => (fst kv, score m q (snd kv))) (filter (fun kv => same_dim (snd kv) q) d).

(* search_sequential / search_parallel + sort + truncate, over a scan order *)
Definition search_exact (m : N) (q : vec) (k : nat) (scan : list (N * vec)) : list (N * N) :=
  firstn k (sort_desc (cands m q scan)).

(* cached path of search_similar / search_in_collection: map node ids through the key mapping,
   sort, truncate.  `hits` = what index.search(query, k) returned. *)
Definition map_hits (mapping : list N) (hits : list (nat * N)) : list (N * N) :=
  flat_map (fun h => match nth_error mapping (fst h) with Some key => [(key, snd h)] | None => [] end) hits.
Definition search_cached (mapping : list N) (hits : list (nat * N)) (k : nat) : list (N * N) :=
  firstn k (sort_desc (map_hits mapping hits)).
End Search.

(* ------------------------------------------------------------------ the engine: data + cache *)
Definition E_NOTFOUND : N := 1.
Definition E_EMPTY : N := 2.
Definition E_TOPK : N := 3.
Definition E_DIM : N := 4.
Definition E_COLL_NOTFOUND : N := 5.
Definition E_COLL_EXISTS : N := 6.
Definition E_BATCH : N := 7.
Definition E_BATCHOP : N := 8.      (* BatchOperationError: an element failed after earlier ones were stored *)

(* mutators of stored vectors (ids used by the translator's invalidation table) *)
Definition M_STORE : N := 0.          (* store_embedding *)
Definition M_DELETE : N := 1.         (* delete_embedding *)
Definition M_STORE_META : N := 2.     (* store_embedding_with_metadata *)
Definition M_BATCH_DELETE : N := 3.   (* batch_delete_embeddings *)
Definition M_CLEAR : N := 4.          (* clear *)
Definition M_COLL_STORE : N := 5.     (* store_in_collection(_with_metadata) *)
Definition M_COLL_DELETE : N := 6.    (* delete_from_collection *)
Definition M_DELETE_COLL : N := 7.    (* delete_collection *)
Definition M_BATCH_STORE : N := 8.    (* batch_store_embeddings: is every element written through an invalidating store *)
Definition mutators : list N := [0; 1; 2; 3; 4; 5; 6; 7; 8].

Record coll := Co {
  data : list (N * vec);                 (* key -> vector as get_embedding returns it *)
  cache : option (list (N * vec));       (* what the cached index was built from, in mapping order *)
  created : bool                         (* registered through create_collection *)
}.
Definition empty_coll : coll := Co [] None false.
Definition st := list (N * coll).        (* collection id -> collection; 0 = the default collection *)
Definition cget (s : st) (c : N) : coll := match aget s c with Some x => x | None => empty_coll end.

Inductive out :=
| RUnit
| RErr (e : N)
| RNum (n : N)
| RVec (v : vec)
| RRes (l : list (N * N)).

Inductive op :=
| OStore (c k : N) (v : vec)
| OStoreMeta (c k : N) (v : vec)
| ODelete (c k : N)
| OBatchStore (kvs : list (N * vec))
| OBatchDelete (ks : list N)
| OClear
| OCreateColl (c : N)
| ODeleteColl (c : N)
| OBuild (c : N)
| OGet (c k : N)
| OSearch (c : N) (q : vec) (k : N)
| OSearchMetric (q : vec) (k m : N)
| OSearchFiltered (c : N) (q : vec) (k b strat ovs : N).
    (* filter: metadata field "tag" = b; strat 0 auto, 1 pre, 2 post; ovs = FilteredSearchConfig::oversample_factor *)

(* which path a search takes *)
Inductive path :=
| PErr (e : N)
| PEmpty                                  (* zero-magnitude query: empty result *)
| PCached (snap : list (N * vec))
| PExact (m : N) (d : list (N * vec))
| PPanic.                                 (* index out of bounds inside the index's dot product *)

Section Engine.
Variable inval : N -> bool.               (* does mutator m invalidate the collection's cached index *)
Variable dim_guard : bool.                (* is the cached index consulted only for queries of its dimension *)
Variable keep : N -> bool.
Variable eps num den : N.
Variable maxd : N.                        (* VectorEngineConfig::max_dimension; 0 = None *)

(* `if let Some(max_dim) = self.config.max_dimension { if vector.len() > max_dim {..} }` *)
Definition too_long (v : vec) : bool := negb (N.eqb maxd 0) && N.ltb maxd (N.of_nat (length v)).

Definition stored (v : vec) : vec :=
  if use_sparse eps num den v then to_dense (from_dense keep v) else v.

Definition drop_cache (m : N) (x : coll) : coll :=
  if inval m then Co (data x) None (created x) else x.

Definition put_vec (s : st) (c : N) (m : N) (k : N) (v : vec) : st :=
  let x := cget s c in
  aset s c (drop_cache m (Co (aset (data x) k (stored v)) (cache x) (created x))).

Definition is_some {A} (o : option A) : bool := match o with Some _ => true | None => false end.

Definition dims_consistent (d : list (N * vec)) : bool :=
  match d with
  | [] => true
  | kv :: r => forallb (fun kv' => same_dim (snd kv') (snd kv)) r
  end.

Definition zero_query (q : vec) : bool := forallb f_iszero q.

Definition search_path (s : st) (c : N) (q : vec) (k : N) : path :=
  match q with
  | [] => PErr E_EMPTY
  | _ => if N.eqb k 0 then PErr E_TOPK
         else if N.eqb c 0 && too_long q then PErr E_DIM      (* search_similar only *)
         else if zero_query q then PEmpty
         else match cache (cget s c) with
              | Some (e :: r) =>
                  if same_dim (snd e) q then PCached (e :: r)
                  else if dim_guard then PExact 0 (data (cget s c))
                  else if Nat.ltb (length q) (length (snd e)) then PPanic   (* simd::dot_product(stored, query) *)
                  else PCached (e :: r)
              | _ => PExact 0 (data (cget s c))
              end
  end.

(* The implementation keys its cache map by collection NAME and stores the default collection's index
   under the name "_default".  `slot` maps a collection to the collection whose cache entry its
   searches consult: the identity for every named collection not called "_default" (then this is
   search_path), but a named collection called "_default" reads the default collection's entry. *)
Definition search_path_slot (slot : N -> N) (s : st) (c : N) (q : vec) (k : N) : path :=
  match q with
  | [] => PErr E_EMPTY
  | _ => if N.eqb k 0 then PErr E_TOPK
         else if N.eqb c 0 && too_long q then PErr E_DIM
         else if zero_query q then PEmpty
         else match cache (cget s (slot c)) with
              | Some (e :: r) =>
                  if same_dim (snd e) q then PCached (e :: r)
                  else if dim_guard then PExact 0 (data (cget s c))
                  else if Nat.ltb (length q) (length (snd e)) then PPanic
                  else PCached (e :: r)
              | _ => PExact 0 (data (cget s c))
              end
  end.

Definition search_metric_path (s : st) (q : vec) (k m : N) : path :=
  match q with
  | [] => PErr E_EMPTY
  | _ => if N.eqb k 0 then PErr E_TOPK
         else if zero_query q && negb (N.eqb m 2) then PEmpty
         else PExact m (data (cget s 0))
  end.

(* batch_store_embeddings below the parallel threshold: store_embedding per element, stop at the
   first element that fails (the earlier ones stay stored) *)
Fixpoint batch_put (s : st) (kvs : list (N * vec)) (n : N) : st * out :=
  match kvs with
  | [] => (s, RNum n)
  | kv :: r => if too_long (snd kv) then (s, RErr E_BATCHOP)
               else batch_put (put_vec s 0 M_BATCH_STORE (fst kv) (snd kv)) r (n + 1)
  end.

Definition step (s : st) (o : op) : st * out :=
  match o with
  | OStore c k v =>
      match v with
      | [] => (s, RErr E_EMPTY)
      | _ => if too_long v then (s, RErr E_DIM)
             else (put_vec s c (if N.eqb c 0 then M_STORE else M_COLL_STORE) k v, RUnit)
      end
  | OStoreMeta c k v =>
      match v with
      | [] => (s, RErr E_EMPTY)
      | _ => if too_long v then (s, RErr E_DIM)
             else (put_vec s c (if N.eqb c 0 then M_STORE_META else M_COLL_STORE) k v, RUnit)
      end
  | ODelete c k =>
      let x := cget s c in
      match aget (data x) k with
      | None => (s, RErr E_NOTFOUND)
      | Some _ =>
          (aset s c (drop_cache (if N.eqb c 0 then M_DELETE else M_COLL_DELETE)
                                (Co (adel (data x) k) (cache x) (created x))), RUnit)
      end
  | OBatchStore kvs =>
      if existsb (fun kv => match snd kv with [] => true | _ => false end) kvs then (s, RErr E_BATCH)
      else batch_put s kvs 0
  | OBatchDelete ks =>
      let x := cget s 0 in
      let '(d, n) := fold_left (fun acc k => let '(d, n) := acc in
                                  match aget d k with Some _ => (adel d k, n + 1) | None => acc end)
                               ks (data x, 0) in
      (aset s 0 (drop_cache M_BATCH_DELETE (Co d (cache x) (created x))), RNum n)
  | OClear =>
      let x := cget s 0 in
      (aset s 0 (drop_cache M_CLEAR (Co [] (cache x) (created x))), RNum (N.of_nat (length (data x))))
  | OCreateColl c =>
      let x := cget s c in
      if created x then (s, RErr E_COLL_EXISTS) else (aset s c (Co (data x) (cache x) true), RUnit)
  | ODeleteColl c =>
      let x := cget s c in
      if created x then (aset s c (drop_cache M_DELETE_COLL (Co [] (cache x) false)), RUnit)
      else (s, RErr E_COLL_NOTFOUND)
  | OBuild c =>
      let x := cget s c in
      if dims_consistent (data x) then (aset s c (Co (data x) (Some (data x)) (created x)), RUnit)
      else (s, RErr E_DIM)
  | OGet c k =>
      (s, match aget (data (cget s c)) k with Some v => RVec v | None => RErr E_NOTFOUND end)
  | OSearch _ _ _ => (s, RUnit)          (* outputs of searches are characterised through search_path *)
  | OSearchMetric _ _ _ => (s, RUnit)
  | OSearchFiltered _ _ _ _ _ _ => (s, RUnit)
  end.

(* --- metadata (only the one field the filtered searches of the correspondence runs look at) ---
   collection -> key -> value of the metadata field "tag".  It lives in the same stored record as
   the vector: store_embedding / store_in_collection write a fresh record (the field disappears),
   the *_with_metadata variants set it (the runs use tag = key mod 2). *)
Definition tags := list (N * list (N * N)).
Definition tget (t : tags) (c : N) : list (N * N) := match aget t c with Some x => x | None => [] end.
Fixpoint stored_prefix (kvs : list (N * vec)) : list (N * vec) :=
  match kvs with
  | [] => []
  | kv :: r => if too_long (snd kv) then [] else kv :: stored_prefix r
  end.
Definition tstep (s : st) (t : tags) (o : op) : tags :=
  match o with
  | OStore c k (x :: v) => if too_long (x :: v) then t else aset t c (adel (tget t c) k)
  | OStoreMeta c k (x :: v) => if too_long (x :: v) then t else aset t c (aset (tget t c) k (N.modulo k 2))
  | ODelete c k => aset t c (adel (tget t c) k)
  | OBatchStore kvs =>
      if existsb (fun kv => match snd kv with [] => true | _ => false end) kvs then t
      else aset t 0 (fold_left (fun x kv => adel x (fst kv)) (stored_prefix kvs) (tget t 0))
  | OBatchDelete ks => aset t 0 (fold_left (fun x k => adel x k) ks (tget t 0))
  | OClear => aset t 0 []
  | ODeleteColl c => if created (cget s c) then aset t c [] else t
  | _ => t
  end.
Definition matching (t : tags) (c b : N) (d : list (N * vec)) : list (N * vec) :=
  filter (fun kv => match aget (tget t c) (fst kv) with Some x => N.eqb x b | None => false end) d.

Inductive fpath :=
| FErr (e : N)
| FEmpty
| FExact (m : list (N * vec))                                   (* exact search over the matching vectors *)
| FCachedOrExact (snap m : list (N * vec))                      (* candidates from the cached index; or the exact fallback *)
| FPostNoFallback (n : N) (d m : list (N * vec))                (* first k matching of the exact top n; nothing else *)
| FPostCached (snap m : list (N * vec))
| FPanic.

Variable post_fallback : bool.   (* does post-filtering fall back to the exact filtered search when it comes up short *)

(* search_similar_filtered / search_filtered_in_collection with the default selectivity threshold
   (1/10 over a sample of up to 100 keys) and oversample factor ovs:
   oversample_k = top_k.saturating_mul(oversample_factor).max(top_k) *)
Definition oversample_k (k ovs : N) : N := N.max (k * ovs) k.
Definition filtered_path (s : st) (t : tags) (c : N) (q : vec) (k b strat ovs : N) : fpath :=
  match q with
  | [] => FErr E_EMPTY
  | _ =>
    if N.eqb k 0 then FErr E_TOPK
    else if N.eqb c 0 && too_long q then FErr E_DIM      (* search_similar_filtered only *)
    else if zero_query q then FEmpty
    else
      let d := data (cget s c) in
      let m := matching t c b d in
      let cnt := N.of_nat (length d) in
      let chosen := if N.eqb strat 0
                    then (if N.eqb cnt 0 then 2 else if N.ltb (10 * N.of_nat (length m)) cnt then 1 else 2)
                    else strat in
      if N.eqb chosen 1 then FExact m
      else match search_path s c q (oversample_k k ovs) with
           | PCached snap => if post_fallback then FCachedOrExact snap m else FPostCached snap m
           | PExact _ d' => if post_fallback then FExact m else FPostNoFallback (oversample_k k ovs) d' m
           | PEmpty => FEmpty
           | PErr e => FErr e
           | PPanic => FPanic
           end
  end.

Fixpoint run (s : st) (ops : list op) : st :=
  match ops with
  | [] => s
  | o :: r => run (fst (step s o)) r
  end.
End Engine.


(* ------------------------------------------------------------------ HNSW search, one layer
   (tensor_store/src/hnsw.rs search_layer / search_layer_greedy / search_with_ef), over an ARBITRARY
   layer graph `nbrs` and an arbitrary distance table `dist` (the f32 bits of
   embedding.distance_dense(query, metric) per node).  The two BinaryHeaps are lists with
   arbitrary `pick` functions (which of several equal or incomparable entries a heap yields is not
   specified); fuel bounds the loop (every node is expanded at most once).  Construction of the
   graph is not modelled. *)
Section Layer.
Variable nbrs : nat -> list nat.
Variable dist : nat -> N.
Variable pick_min pick_max : list (nat * N) -> option ((nat * N) * list (nat * N)).
Variable ef : nat.

Definition hmem (i : nat) (l : list nat) : bool := existsb (Nat.eqb i) l.
Definition worst (res : list (nat * N)) : option (nat * N) :=
  match pick_max res with Some (w, _) => Some w | None => None end.

(* while results.len() > ef { results.pop(); } *)
Fixpoint trim (fuel : nat) (res : list (nat * N)) : list (nat * N) :=
  match fuel with
  | O => res
  | S f => if Nat.ltb ef (length res)
           then match pick_max res with Some (_, r) => trim f r | None => res end
           else res
  end.

(* the body of `for neighbor_id in neighbor_ids` *)
Definition explore1 (acc : list nat * list (nat * N) * list (nat * N)) (j : nat)
  : list nat * list (nat * N) * list (nat * N) :=
  let '(vis, cand, res) := acc in
  if hmem j vis then acc
  else
    let d := dist j in
    let add := Nat.ltb (length res) ef
               || match worst res with Some w => f_lt d (snd w) | None => true end in
    if add then (j :: vis, (j, d) :: cand, trim (S (length res)) ((j, d) :: res))
    else (j :: vis, cand, res).

(* `while let Some(current) = candidates.pop()` *)
Fixpoint layer_loop (fuel : nat) (vis : list nat) (cand res : list (nat * N)) : list (nat * N) :=
  match fuel with
  | O => res
  | S f =>
    match pick_min cand with
    | None => res
    | Some (cur, cand') =>
      if Nat.leb ef (length res)
         && match worst res with Some w => f_lt (snd w) (snd cur) | None => false end
      then res
      else let '(vis', cand'', res') := fold_left explore1 (nbrs (fst cur)) (vis, cand', res) in
           layer_loop f vis' cand'' res'
    end
  end.

Fixpoint ins_asc (x : nat * N) (l : list (nat * N)) : list (nat * N) :=
  match l with
  | [] => [x]
  | y :: r => if f_lt (snd y) (snd x) then y :: ins_asc x r else x :: y :: r
  end.
Definition sort_asc (l : list (nat * N)) : list (nat * N) := fold_right ins_asc [] l.

Definition search_layer (fuel entry : nat) : list (nat * N) :=
  sort_asc (layer_loop fuel [entry] [(entry, dist entry)] [(entry, dist entry)]).

(* search_layer_greedy: move to a strictly closer neighbour until none is *)
Fixpoint greedy (fuel cur : nat) : nat :=
  match fuel with
  | O => cur
  | S f =>
    let '(c', _, changed) :=
      fold_left (fun acc j => let '(c, cd, ch) := acc in
                              if f_lt (dist j) cd then (j, dist j, true) else acc)
                (nbrs cur) (cur, dist cur, false) in
    if changed then greedy f c' else cur
  end.

(* search_with_ef at layer 0: take k, convert the distance to a similarity *)
Variable to_sim : N -> N.
Definition hnsw_hits (fuel entry k : nat) : list (nat * N) :=
  map (fun p => (fst p, to_sim (snd p))) (firstn k (search_layer fuel entry)).
End Layer.
