(* C06/Proofs.v -- lemmas and main theorems over the vector-engine model. *)
From NV.Common Require Import Base.
From NV.C06 Require Import Types Model.
From Coq Require Import Permutation Sorted.
Open Scope N_scope.

(* ============================================================ A. sparse representation *)
Section SparseProofs.
Variable keep : N -> bool.

Lemma set_nth_app pre x y rest : set_nth (pre ++ y :: rest) (length pre) x = pre ++ x :: rest.
Proof. induction pre as [|h t IH]; cbn; [reflexivity|rewrite IH; reflexivity]. Qed.

Lemma set_nth_length l i x : length (set_nth l i x) = length l.
Proof. revert i; induction l as [|h t IH]; intros [|i]; cbn; auto. Qed.

Lemma to_dense_gen : forall v pre,
  fold_left (fun d pv => set_nth d (fst pv) (snd pv)) (sp_collect keep (length pre) v) (pre ++ repeat 0 (length v))
  = pre ++ map (fun b => if keep b then b else 0) v.
Proof.
  induction v as [|x r IH]; intros pre; cbn [sp_collect length repeat map fold_left].
  - reflexivity.
  - destruct (keep x) eqn:E.
    + cbn [fold_left fst snd]. rewrite set_nth_app.
      replace (pre ++ x :: repeat 0 (length r)) with ((pre ++ [x]) ++ repeat 0 (length r)) by (rewrite <- app_assoc; reflexivity).
      replace (S (length pre)) with (length (pre ++ [x])) by (rewrite app_length; cbn; lia).
      rewrite IH. rewrite <- app_assoc. reflexivity.
    + replace (pre ++ 0 :: repeat 0 (length r)) with ((pre ++ [0]) ++ repeat 0 (length r)) by (rewrite <- app_assoc; reflexivity).
      replace (S (length pre)) with (length (pre ++ [0])) by (rewrite app_length; cbn; lia).
      rewrite IH. rewrite <- app_assoc. reflexivity.
Qed.

Theorem sparse_roundtrip v : to_dense (from_dense keep v) = map (fun b => if keep b then b else 0) v.
Proof. unfold to_dense, from_dense. cbn [fst snd]. exact (to_dense_gen v []). Qed.
End SparseProofs.

Theorem sparse_roundtrip_normalise keep :
  (forall b, keep b = negb (f_iszero b)) ->
  forall v, to_dense (from_dense keep v) = normalise_zero v.
Proof.
  intros H v. rewrite sparse_roundtrip. unfold normalise_zero. apply map_ext. intros b. rewrite H.
  destruct (f_iszero b); reflexivity.
Qed.

(* what normalise_zero changes: exactly the -0.0 components, to +0.0 *)
Lemma normalise_zero_spec v : Forall2 (fun w r => r = w \/ (w = SIGN /\ r = 0)) v (normalise_zero v).
Proof.
  induction v as [|b r IH]; cbn; constructor; [|exact IH].
  unfold f_iszero. destruct (N.eqb_spec b 0) as [->|]; [left; reflexivity|].
  destruct (N.eqb_spec b SIGN) as [->|]; cbn; [right; split; reflexivity|left; reflexivity].
Qed.

(* stored vectors read back: the vector itself, or its zero-normalised form when the sparse
   representation is chosen *)
Theorem stored_readback keep eps num den :
  (forall b, keep b = negb (f_iszero b)) ->
  forall v, stored keep eps num den v = v \/ stored keep eps num den v = normalise_zero v.
Proof.
  intros H v. unfold stored. destruct (use_sparse eps num den v); [right|left; reflexivity].
  apply sparse_roundtrip_normalise. exact H.
Qed.

(* ============================================================ B. exact search *)
Section SearchProofs.
Variable score : N -> vec -> vec -> N.

Definition skey (x : N * N) : Z := f_key (snd x).
Definition nonan (l : list (N * N)) : Prop := Forall (fun x => f_isnan (snd x) = false) l.
Definition ge (a b : N * N) : Prop := (skey b <= skey a)%Z.

Lemma f_lt_key a b : f_isnan a = false -> f_isnan b = false -> f_lt a b = Z.ltb (f_key a) (f_key b).
Proof. intros Ha Hb. unfold f_lt. rewrite Ha, Hb. reflexivity. Qed.

Lemma ins_perm x l : Permutation (ins_desc x l) (x :: l).
Proof.
  induction l as [|y r IH]; cbn; [apply Permutation_refl|].
  destruct (f_lt (snd x) (snd y)); [|apply Permutation_refl].
  eapply Permutation_trans; [apply perm_skip; exact IH|apply perm_swap].
Qed.

Lemma sort_perm l : Permutation (sort_desc l) l.
Proof.
  induction l as [|x r IH]; cbn; [constructor|].
  eapply Permutation_trans; [apply ins_perm|apply perm_skip; exact IH].
Qed.

Lemma nonan_perm l l' : Permutation l l' -> nonan l -> nonan l'.
Proof. intros P H. unfold nonan in *. rewrite Forall_forall in *. intros x Hx. apply H. eapply Permutation_in; [apply Permutation_sym; exact P|exact Hx]. Qed.

Lemma ins_sorted x l : f_isnan (snd x) = false -> nonan l ->
  StronglySorted ge l -> StronglySorted ge (ins_desc x l).
Proof.
  intros Hx Hl Hs. induction l as [|y r IH]; cbn.
  - constructor; constructor.
  - pose proof (Forall_inv Hl) as Hy. pose proof (Forall_inv_tail Hl) as Hr.
    inversion Hs as [|? ? Hs' Hall]; subst.
    rewrite f_lt_key by assumption. destruct (Z.ltb_spec (f_key (snd x)) (f_key (snd y))) as [Hlt|Hge].
    + constructor; [apply IH; assumption|].
      rewrite Forall_forall. intros z Hz.
      apply (Permutation_in _ (ins_perm x r)) in Hz. destruct Hz as [<-|Hz].
      * unfold ge, skey. lia.
      * rewrite Forall_forall in Hall. apply Hall. exact Hz.
    + constructor; [exact Hs|]. constructor; [unfold ge, skey; lia|].
      rewrite Forall_forall in *. intros z Hz. specialize (Hall z Hz). unfold ge, skey in *. lia.
Qed.

Lemma sort_sorted l : nonan l -> StronglySorted ge (sort_desc l).
Proof.
  induction l as [|x r IH]; cbn; intros H; [constructor|].
  pose proof (Forall_inv H) as Hx. pose proof (Forall_inv_tail H) as Hr.
  apply ins_sorted; [exact Hx| |apply IH; exact Hr].
  eapply nonan_perm; [apply Permutation_sym, sort_perm|exact Hr].
Qed.

Lemma in_firstn {A} (x : A) k l : In x (firstn k l) -> In x l.
Proof. intros H. rewrite <- (firstn_skipn k l). apply in_or_app. left. exact H. Qed.
Lemma in_skipn {A} (x : A) k l : In x (skipn k l) -> In x l.
Proof. intros H. rewrite <- (firstn_skipn k l). apply in_or_app. right. exact H. Qed.

Lemma sorted_firstn k l : StronglySorted ge l -> StronglySorted ge (firstn k l).
Proof.
  revert k. induction l as [|x r IH]; intros [|k] H; cbn; try constructor.
  - inversion H; subst. apply IH. assumption.
  - inversion H as [|? ? ? Hall]; subst. rewrite Forall_forall in *. intros z Hz. apply Hall.
    eapply in_firstn. exact Hz.
Qed.

(* in a sorted list everything in the first k is at least as good as everything after *)
Lemma sorted_split k l : StronglySorted ge l ->
  forall x y, In x (firstn k l) -> In y (skipn k l) -> ge x y.
Proof.
  revert k. induction l as [|a r IH]; intros [|k] H x y Hx Hy; cbn in *; try tauto.
  inversion H as [|? ? Hs Hall]; subst. destruct Hx as [<-|Hx].
  - rewrite Forall_forall in Hall. apply Hall. eapply in_skipn. exact Hy.
  - eapply IH; eassumption.
Qed.

Lemma cands_perm m q d d' : Permutation d d' -> Permutation (cands score m q d) (cands score m q d').
Proof.
  intros P. unfold cands. apply Permutation_map.
  induction P; cbn.
  - constructor.
  - destruct (same_dim (snd x) q); [apply perm_skip|]; assumption.
  - destruct (same_dim (snd x) q), (same_dim (snd y) q); try apply Permutation_refl. apply perm_swap.
  - eapply Permutation_trans; eassumption.
Qed.

Lemma cands_in m q d key sc : In (key, sc) (cands score m q d) ->
  exists v, In (key, v) d /\ same_dim v q = true /\ sc = score m q v.
Proof.
  unfold cands. rewrite in_map_iff. intros [[k v] [E H]]. apply filter_In in H. cbn in *.
  injection E as <- <-. exists v. tauto.
Qed.

Lemma cands_keys_nodup m q d : NoDup (map fst d) -> NoDup (map fst (cands score m q d)).
Proof.
  unfold cands. rewrite map_map. cbn [fst]. induction d as [|[k v] r IH]; cbn [filter map fst snd]; intros H; [constructor|].
  inversion H as [|? ? Hni Hnd]; subst. destruct (same_dim v q); cbn [map fst]; [constructor|]; auto.
  intros Hin. apply Hni. rewrite in_map_iff in *. destruct Hin as [p [E Hp]]. apply filter_In in Hp.
  exists p. tauto.
Qed.

Lemma nodup_perm_keys (l l' : list (N * N)) : Permutation l l' -> NoDup (map fst l) -> NoDup (map fst l').
Proof. intros P. apply Permutation_NoDup. apply Permutation_map. exact P. Qed.

Lemma nodup_firstn {A} k (l : list A) : NoDup l -> NoDup (firstn k l).
Proof.
  revert k. induction l as [|x r IH]; intros [|k] H; cbn; try constructor.
  - inversion H; subst. intros Hin. apply in_firstn in Hin. contradiction.
  - inversion H; subst. apply IH. assumption.
Qed.

(* The exact path, for every scan order of the stored vectors: the result is the k best
   same-dimension stored vectors, best first, each live and current with its true score. *)
Theorem exact_search_topk m q k scan d :
  Permutation scan d -> NoDup (map fst d) -> nonan (cands score m q d) ->
  let r := search_exact score m q k scan in
  length r = Nat.min k (length (cands score m q d))
  /\ StronglySorted ge r
  /\ NoDup (map fst r)
  /\ (forall key sc, In (key, sc) r -> exists v, In (key, v) d /\ same_dim v q = true /\ sc = score m q v)
  /\ exists rest, Permutation (r ++ rest) (cands score m q d) /\ forall x y, In x r -> In y rest -> ge x y.
Proof.
  intros P Hnd Hnn r. unfold r, search_exact.
  set (cs := cands score m q scan).
  assert (Pc : Permutation cs (cands score m q d)) by (apply cands_perm; exact P).
  assert (Ps : Permutation (sort_desc cs) (cands score m q d)).
  { eapply Permutation_trans; [apply sort_perm|exact Pc]. }
  assert (Hnn' : nonan cs) by (eapply nonan_perm; [apply Permutation_sym; exact Pc|exact Hnn]).
  assert (Hs : StronglySorted ge (sort_desc cs)) by (apply sort_sorted; exact Hnn').
  repeat split.
  - rewrite firstn_length. rewrite (Permutation_length Ps). reflexivity.
  - apply sorted_firstn. exact Hs.
  - rewrite <- firstn_map. apply nodup_firstn.
    apply (nodup_perm_keys (cands score m q d)); [apply Permutation_sym; exact Ps|].
    apply cands_keys_nodup. exact Hnd.
  - intros key sc Hin. apply in_firstn in Hin. apply (Permutation_in _ Ps) in Hin.
    apply cands_in. exact Hin.
  - exists (skipn k (sort_desc cs)). split.
    + rewrite firstn_skipn. exact Ps.
    + intros x y. apply sorted_split. exact Hs.
Qed.

(* ============================================================ C. cached path: safety facts *)

Lemma map_hits_in mapping hits key sc : In (key, sc) (map_hits mapping hits) ->
  exists i, In (i, sc) hits /\ nth_error mapping i = Some key.
Proof.
  unfold map_hits. rewrite in_flat_map. intros [[i s] [Hin H]]. cbn in H.
  destruct (nth_error mapping i) eqn:E; [|contradiction].
  destruct H as [H|[]]. injection H as <- <-. exists i. split; assumption.
Qed.

Lemma map_hits_keys_nodup mapping hits : NoDup mapping -> NoDup (map fst hits) ->
  NoDup (map fst (map_hits mapping hits)).
Proof.
  intros Hm. induction hits as [|[i s] r IH]; cbn; intros Hh; [constructor|].
  inversion Hh as [|? ? Hni Hnd]; subst.
  destruct (nth_error mapping i) eqn:E; cbn; [|auto].
  constructor; [|auto]. intros Hin. rewrite in_map_iff in Hin. destruct Hin as [[k' s'] [Ek Hin]].
  cbn in Ek. subst k'. apply map_hits_in in Hin. destruct Hin as [j [Hj Ej]].
  assert (i = j).
  { apply (proj1 (NoDup_nth_error mapping) Hm); [apply nth_error_Some; congruence|congruence]. }
  subst j. apply Hni. apply (in_map fst) in Hj. exact Hj.
Qed.

(* With a cached index: whatever list of (node id, score) the index search returns, provided its
   node ids are distinct and each score is the true score of that node's vector, the result
   holds at most k entries, is ordered, has no duplicate key, and every key is an indexed
   vector reported with its true score. *)
Theorem cached_search_safe q k (snap : list (N * vec)) (hits : list (nat * N)) :
  NoDup (map fst snap) -> NoDup (map fst hits) ->
  (forall i sc, In (i, sc) hits -> forall kv, nth_error snap i = Some kv -> sc = score 10 q (snd kv)) ->
  (forall i sc, In (i, sc) hits -> f_isnan sc = false) ->
  let r := search_cached (map fst snap) hits k in
  (length r <= k)%nat
  /\ StronglySorted ge r
  /\ NoDup (map fst r)
  /\ forall key sc, In (key, sc) r -> exists v, In (key, v) snap /\ sc = score 10 q v.
Proof.
  intros Hs Hh Htrue Hnn r. unfold r, search_cached.
  set (mh := map_hits (map fst snap) hits).
  assert (Hnn' : nonan mh).
  { unfold nonan. rewrite Forall_forall. intros [key sc] Hin. apply map_hits_in in Hin.
    destruct Hin as [i [Hi _]]. cbn. eapply Hnn. exact Hi. }
  repeat split.
  - rewrite firstn_length. lia.
  - apply sorted_firstn. apply sort_sorted. exact Hnn'.
  - rewrite <- firstn_map. apply nodup_firstn.
    apply (nodup_perm_keys mh); [apply Permutation_sym, sort_perm|].
    apply map_hits_keys_nodup; assumption.
  - intros key sc Hin. apply in_firstn in Hin. apply (Permutation_in _ (sort_perm mh)) in Hin.
    apply map_hits_in in Hin. destruct Hin as [i [Hi Ei]].
    rewrite nth_error_map in Ei. destruct (nth_error snap i) as [[k' v]|] eqn:E; [|discriminate].
    cbn in Ei. injection Ei as ->. exists v. split; [eapply nth_error_In; exact E|].
    exact (Htrue i sc Hi (key, v) E).
Qed.
End SearchProofs.

(* ============================================================ D. cache discipline *)
Section CacheProofs.
Variable inval : N -> bool.
Variable keep : N -> bool.
Variable eps num den : N.
Variable maxd : N.
Notation stepm := (step inval keep eps num den maxd).
Notation runm := (run inval keep eps num den maxd).

(* a cached index always stands for the collection's current data *)
Definition CacheInv (s : st) : Prop :=
  forall c x snap, aget s c = Some x -> cache x = Some snap -> snap = data x /\ dims_consistent snap = true.

Definition AllInvalidate : Prop := forall m, In m mutators -> inval m = true.

Lemma inv_aset s c x : CacheInv s -> (forall snap, cache x = Some snap -> snap = data x /\ dims_consistent snap = true) -> CacheInv (aset s c x).
Proof.
  intros Hs Hx c' x' snap. rewrite aget_aset. destruct (N.eqb_spec c c') as [->|Hne].
  - intros [= <-]. apply Hx.
  - apply Hs.
Qed.

Lemma drop_cache_none m x : inval m = true -> cache (drop_cache inval m x) = None.
Proof. intros H. unfold drop_cache. rewrite H. reflexivity. Qed.

Lemma inv_put s c m k v : inval m = true -> CacheInv s -> CacheInv (put_vec inval keep eps num den s c m k v).
Proof.
  intros Hm Hs. unfold put_vec. apply inv_aset; [exact Hs|]. intros snap. rewrite drop_cache_none by exact Hm. discriminate.
Qed.

Lemma step_inv s o : AllInvalidate -> CacheInv s -> CacheInv (fst (stepm s o)).
Proof.
  intros Hall Hs.
  assert (H0 : inval 0 = true) by (apply Hall; cbn; tauto).
  assert (H1 : inval 1 = true) by (apply Hall; cbn; tauto).
  assert (H2 : inval 2 = true) by (apply Hall; cbn; tauto).
  assert (H3 : inval 3 = true) by (apply Hall; cbn; tauto).
  assert (H4 : inval 4 = true) by (apply Hall; cbn; tauto).
  assert (H5 : inval 5 = true) by (apply Hall; cbn; tauto).
  assert (H6 : inval 6 = true) by (apply Hall; cbn; tauto).
  assert (H7 : inval 7 = true) by (apply Hall; cbn; tauto).
  assert (H8 : inval 8 = true) by (apply Hall; cbn; tauto).
  destruct o as [c k v|c k v|c k|kvs|ks| |c|c|c|c k|c q k|q k m|c q k b strat ovs]; cbn [step fst].
  - destruct v; [exact Hs|]. destruct (too_long maxd (n :: v)); [exact Hs|].
    cbn [fst]. apply inv_put; [|exact Hs]. unfold M_STORE, M_COLL_STORE. destruct (N.eqb c 0); assumption.
  - destruct v; [exact Hs|]. destruct (too_long maxd (n :: v)); [exact Hs|].
    cbn [fst]. apply inv_put; [|exact Hs]. unfold M_STORE_META, M_COLL_STORE. destruct (N.eqb c 0); assumption.
  - destruct (aget (data (cget s c)) k); [|exact Hs]. cbn [fst]. apply inv_aset; [exact Hs|].
    intros snap. rewrite drop_cache_none; [discriminate|]. unfold M_DELETE, M_COLL_DELETE. destruct (N.eqb c 0); assumption.
  - match goal with |- context [if ?b then _ else _] => destruct b end; [exact Hs|].
    generalize 0 as cnt. revert s Hs. induction kvs as [|kv r IH]; intros s Hs cnt; cbn [batch_put fst]; [exact Hs|].
    destruct (too_long maxd (snd kv)); [exact Hs|].
    apply IH. apply inv_put; [exact H8|exact Hs].
  - match goal with |- context [let '(_, _) := ?e in _] => destruct e as [d n] end. cbn [fst]. apply inv_aset; [exact Hs|].
    intros snap. rewrite drop_cache_none; [discriminate|exact H3].
  - apply inv_aset; [exact Hs|]. intros snap. rewrite drop_cache_none; [discriminate|exact H4].
  - destruct (created (cget s c)) eqn:E; [exact Hs|]. cbn [fst]. apply inv_aset; [exact Hs|].
    cbn [cache data]. intros snap Hc. unfold cget in *. destruct (aget s c) eqn:Ea.
    + eapply Hs; eassumption.
    + cbn in Hc. discriminate.
  - destruct (created (cget s c)); [|exact Hs]. cbn [fst]. apply inv_aset; [exact Hs|].
    intros snap. rewrite drop_cache_none; [discriminate|exact H7].
  - destruct (dims_consistent (data (cget s c))) eqn:Ed; [|exact Hs]. cbn [fst]. apply inv_aset; [exact Hs|].
    cbn [cache data]. intros snap [= <-]. split; [reflexivity|exact Ed].
  - exact Hs.
  - exact Hs.
  - exact Hs.
  - exact Hs.
Qed.

Theorem cache_discipline : AllInvalidate -> forall ops s, CacheInv s -> CacheInv (runm s ops).
Proof.
  intros Hall. induction ops as [|o r IH]; intros s Hs; cbn [run]; [exact Hs|].
  apply IH. apply step_inv; assumption.
Qed.

Lemma CacheInv_init : CacheInv [].
Proof. intros c x snap H. discriminate. Qed.

(* ... and only then: a mutator that leaves the cache in place breaks the invariant.  One
   three- or four-step program per mutator. *)
Definition stale_witness (m : N) : list op :=
  match m with
  | 0 => [OStore 0 0 [1]; OBuild 0; OStore 0 1 [1]]
  | 1 => [OStore 0 0 [1]; OBuild 0; ODelete 0 0]
  | 2 => [OStoreMeta 0 0 [1]; OBuild 0; OStoreMeta 0 1 [1]]
  | 3 => [OStore 0 0 [1]; OBuild 0; OBatchDelete [0]]
  | 4 => [OStore 0 0 [1]; OBuild 0; OClear]
  | 5 => [OStore 1 0 [1]; OBuild 1; OStore 1 1 [1]]
  | 6 => [OStore 1 0 [1]; OBuild 1; ODelete 1 0]
  | 7 => [OCreateColl 1; OStore 1 0 [1]; OBuild 1; ODeleteColl 1]
  | _ => [OStore 0 0 [1]; OBuild 0; OBatchStore [(1, [1])]]
  end.

Theorem cache_discipline_needed m : In m mutators -> inval m = false -> ~ CacheInv (runm [] (stale_witness m)).
Proof.
  intros Hm E Hinv. unfold mutators in Hm. cbn [In] in Hm.
  assert (Htl : too_long maxd [1] = false).
  { unfold too_long. cbn [length]. destruct (N.eqb_spec maxd 0); cbn; [reflexivity|]. apply N.ltb_ge. lia. }
  set (w := stored keep eps num den [1]) in *.
  repeat (destruct Hm as [<-|Hm]); [..|contradiction]; cbn [stale_witness run step fst] in Hinv;
    rewrite ?Htl in Hinv; cbn [fst] in Hinv;
    cbn [batch_put existsb snd fst] in Hinv; rewrite ?Htl in Hinv; cbn [batch_put fst] in Hinv;
    unfold put_vec, cget, drop_cache, M_STORE, M_DELETE, M_STORE_META, M_BATCH_DELETE, M_CLEAR, M_COLL_STORE, M_COLL_DELETE, M_DELETE_COLL, M_BATCH_STORE in Hinv;
    cbn [aget aset adel N.eqb data cache created empty_coll dims_consistent forallb fold_left] in Hinv;
    fold w in Hinv.
  all: repeat match type of Hinv with
       | context [inval ?k] => first [rewrite E in Hinv | destruct (inval k)]
       end; cbn in Hinv.
  all: try (destruct (Hinv 0 _ _ eq_refl eq_refl) as [Hd _]; discriminate).
  all: try (destruct (Hinv 1 _ _ eq_refl eq_refl) as [Hd _]; discriminate).
Qed.

(* which path a search takes in a state where the invariant holds, with the dimension guard:
   the cached index is only consulted when it stands for the live data and every indexed vector
   has the query's dimension; otherwise the exact path runs over the live data *)
Lemma same_dim_trans (a b c : vec) : same_dim a b = true -> same_dim b c = true -> same_dim a c = true.
Proof. unfold same_dim. rewrite !Nat.eqb_eq. congruence. Qed.
Lemma same_dim_sym (a b : vec) : same_dim a b = same_dim b a.
Proof. unfold same_dim. apply Nat.eqb_sym. Qed.

Theorem search_path_sound s c q k : CacheInv s ->
  match search_path true maxd s c q k with
  | PCached snap => snap = data (cget s c) /\ forall kv, In kv snap -> same_dim (snd kv) q = true
  | PExact m d => m = 0 /\ d = data (cget s c)
  | PPanic => False
  | _ => True
  end.
Proof.
  intros Hinv. unfold search_path. destruct q as [|x q]; [exact I|].
  destruct (N.eqb k 0); [exact I|]. destruct (N.eqb c 0 && too_long maxd (x :: q)); [exact I|].
  destruct (zero_query (x :: q)); [exact I|].
  destruct (cache (cget s c)) as [[|e r]|] eqn:Ec; try (split; reflexivity).
  destruct (same_dim (snd e) (x :: q)) eqn:Ed; [|split; reflexivity].
  unfold cget in *. destruct (aget s c) as [xc|] eqn:Ea; [|discriminate].
  destruct (Hinv c xc _ Ea Ec) as [Hsnap Hdims]. split; [exact Hsnap|].
  intros kv [<-|Hin]; [exact Ed|]. cbn in Hdims. rewrite forallb_forall in Hdims.
  eapply same_dim_trans; [apply Hdims; exact Hin|exact Ed].
Qed.

(* filtered search with the fallback and the dimension guard: an exact search over the vectors that
   match the filter, or (valid cached index) candidates from the index restricted to them *)
Theorem filtered_path_sound s t c q k b strat ovs : CacheInv s ->
  match filtered_path true maxd true s t c q k b strat ovs with
  | FExact m => m = matching t c b (data (cget s c))
  | FCachedOrExact snap m => snap = data (cget s c) /\ m = matching t c b (data (cget s c))
  | FErr _ | FEmpty => True
  | _ => False
  end.
Proof.
  intros Hinv. unfold filtered_path. destruct q as [|x q]; [exact I|].
  destruct (N.eqb k 0); [exact I|]. destruct (N.eqb c 0 && too_long maxd (x :: q)); [exact I|].
  destruct (zero_query (x :: q)) eqn:Ez; [exact I|].
  match goal with |- context [if N.eqb ?ch 1 then _ else _] => destruct (N.eqb ch 1) end; [reflexivity|].
  pose proof (search_path_sound s c (x :: q) (oversample_k k ovs) Hinv) as Hp.
  destruct (search_path true maxd s c (x :: q) (oversample_k k ovs)) as [e| |snap|m d| ]; try exact I.
  - destruct Hp as [Hs _]. split; [exact Hs|reflexivity].
  - reflexivity.
  - exact Hp.
Qed.

Lemma search_path_slot_id dg s c q k : search_path_slot dg maxd (fun x => x) s c q k = search_path dg maxd s c q k.
Proof. reflexivity. Qed.

(* known finding reserved-default-name: a named collection (here id 9) whose cache lookups land in the
   default collection's slot is answered from the default collection's index *)
Lemma reserved_name_refuted : AllInvalidate -> maxd = 0 ->
  let s := runm [] [OStore 0 0 [1065353216; 1065353216]; OBuild 0; OStore 9 7 [1073741824; 1065353216]] in
  CacheInv s /\
  exists snap, search_path_slot true maxd (fun c => if N.eqb c 9 then 0 else c) s 9 [1065353216; 1065353216] 1 = PCached snap
               /\ snap <> data (cget s 9).
Proof.
  intros Hall Hmax s. split; [apply cache_discipline; [exact Hall|apply CacheInv_init]|].
  assert (H0 : inval 0 = true) by (apply Hall; cbn; tauto).
  assert (H5 : inval 5 = true) by (apply Hall; cbn; tauto).
  unfold s. subst maxd. cbn [run step fst too_long N.eqb negb andb]. unfold put_vec, cget, drop_cache, search_path_slot, too_long, M_STORE, M_COLL_STORE.
  cbn [aget aset N.eqb data cache created empty_coll dims_consistent forallb].
  rewrite ?H0, ?H5.
  set (w := stored keep eps num den [1065353216; 1065353216]).
  set (w9 := stored keep eps num den [1073741824; 1065353216]).
  assert (Hl : length w = 2%nat).
  { unfold w, stored. destruct (use_sparse _ _ _ _); [|reflexivity]. rewrite sparse_roundtrip. reflexivity. }
  cbn. rewrite ?H0, ?H5. cbn. unfold same_dim. rewrite Hl. cbn.
  eexists. split; [reflexivity|discriminate].
Qed.
End CacheProofs.

(* ============================================================ E. HNSW layer search: safety facts
   for every layer graph, distance table, heap discipline (pick functions) and fuel *)
Section LayerProofs.
Variable nbrs : nat -> list nat.
Variable dist : nat -> N.
Variable pick_min pick_max : list (nat * N) -> option ((nat * N) * list (nat * N)).
Variable ef : nat.
Variable n : nat.                                   (* number of nodes *)
Hypothesis pick_min_perm : forall l x r, pick_min l = Some (x, r) -> Permutation l (x :: r).
Hypothesis pick_max_perm : forall l x r, pick_max l = Some (x, r) -> Permutation l (x :: r).
Hypothesis graph_wf : forall i j, (i < n)%nat -> In j (nbrs i) -> (j < n)%nat.

Notation trim' := (trim pick_max ef).
Notation explore' := (explore1 dist pick_max ef).
Notation loop' := (layer_loop nbrs dist pick_min pick_max ef).

(* every queued / kept entry is a visited, in-range node with its true distance; kept ids are distinct *)
Definition LInv (vis : list nat) (cand res : list (nat * N)) : Prop :=
  (forall i, In i vis -> (i < n)%nat) /\
  (forall p, In p cand -> In (fst p) vis /\ snd p = dist (fst p)) /\
  (forall p, In p res -> In (fst p) vis /\ snd p = dist (fst p)) /\
  NoDup (map fst res).

Lemma hmem_in i l : hmem i l = true <-> In i l.
Proof.
  unfold hmem. rewrite existsb_exists. split.
  - intros [x [Hx E]]. apply Nat.eqb_eq in E. subst. exact Hx.
  - intros H. exists i. split; [exact H|apply Nat.eqb_refl].
Qed.

Lemma trim_sub fuel : forall res,
  (forall p, In p (trim' fuel res) -> In p res) /\ (NoDup (map fst res) -> NoDup (map fst (trim' fuel res))).
Proof.
  induction fuel as [|f IH]; intros res; cbn [trim]; [split; auto|].
  destruct (Nat.ltb ef (length res)); [|split; auto].
  destruct (pick_max res) as [[w r]|] eqn:E; [|split; auto].
  pose proof (pick_max_perm _ _ _ E) as P. destruct (IH r) as [H1 H2]. split.
  - intros p Hp. apply (Permutation_in _ (Permutation_sym P)). right. apply H1. exact Hp.
  - intros Hnd. apply H2. apply (Permutation_map fst) in P. apply (Permutation_NoDup P) in Hnd.
    cbn in Hnd. inversion Hnd; assumption.
Qed.

Lemma explore_inv i vis cand res j : (i < n)%nat -> In j (nbrs i) ->
  LInv vis cand res ->
  let '(vis', cand', res') := explore' (vis, cand, res) j in LInv vis' cand' res'.
Proof.
  intros Hi Hj (Hv & Hc & Hr & Hnd). unfold explore1.
  destruct (hmem j vis) eqn:Em; [exact (conj Hv (conj Hc (conj Hr Hnd)))|].
  assert (Hnv : ~ In j vis) by (intro H; apply hmem_in in H; congruence).
  assert (Hjn : (j < n)%nat) by (eapply graph_wf; eassumption).
  match goal with |- context [if ?b then _ else _] => destruct b end.
  - destruct (trim_sub (S (length res)) ((j, dist j) :: res)) as [T1 T2].
    repeat split.
    + intros x [<-|Hx]; auto.
    + destruct H as [<-|H]; cbn; [left; reflexivity|right; apply Hc; exact H].
    + destruct H as [<-|H]; cbn; [reflexivity|apply Hc; exact H].
    + apply T1 in H. destruct H as [<-|H]; cbn; [left; reflexivity|right; apply Hr; exact H].
    + apply T1 in H. destruct H as [<-|H]; cbn; [reflexivity|apply Hr; exact H].
    + apply T2. cbn. constructor; [|exact Hnd]. intros Hin. apply in_map_iff in Hin.
      destruct Hin as [p [E Hp]]. apply Hr in Hp. destruct Hp as [Hp _]. rewrite E in Hp. contradiction.
  - repeat split.
    + intros x [<-|Hx]; auto.
    + right. apply Hc. exact H.
    + apply Hc. exact H.
    + right. apply Hr. exact H.
    + apply Hr. exact H.
    + exact Hnd.
Qed.

Lemma explore_fold_inv i : forall js vis cand res, (i < n)%nat -> (forall j, In j js -> In j (nbrs i)) ->
  LInv vis cand res ->
  let '(vis', cand', res') := fold_left explore' js (vis, cand, res) in LInv vis' cand' res'.
Proof.
  induction js as [|j r IH]; intros vis cand res Hi Hsub H; cbn [fold_left]; [exact H|].
  pose proof (explore_inv i vis cand res j Hi (Hsub j (or_introl eq_refl)) H) as H1.
  destruct (explore' (vis, cand, res) j) as [[vis1 cand1] res1].
  apply IH; [exact Hi|intros j' Hj'; apply Hsub; right; exact Hj'|exact H1].
Qed.

Lemma loop_inv fuel : forall vis cand res, LInv vis cand res ->
  let r := loop' fuel vis cand res in
  NoDup (map fst r) /\ forall p, In p r -> (fst p < n)%nat /\ snd p = dist (fst p).
Proof.
  induction fuel as [|f IH]; intros vis cand res H; cbn [layer_loop].
  - destruct H as (Hv & _ & Hr & Hnd). split; [exact Hnd|]. intros p Hp. destruct (Hr p Hp). split; auto.
  - assert (Hdone : NoDup (map fst res) /\ forall p, In p res -> (fst p < n)%nat /\ snd p = dist (fst p)).
    { destruct H as (Hv & _ & Hr & Hnd). split; [exact Hnd|]. intros p Hp. destruct (Hr p Hp). split; auto. }
    destruct (pick_min cand) as [[cur cand']|] eqn:E; [|exact Hdone].
    match goal with |- context [if ?b then _ else _] => destruct b end; [exact Hdone|].
    pose proof (pick_min_perm _ _ _ E) as P.
    destruct H as (Hv & Hc & Hr & Hnd).
    assert (Hcur : In (fst cur) vis /\ snd cur = dist (fst cur)).
    { apply Hc. apply (Permutation_in _ (Permutation_sym P)). left. reflexivity. }
    assert (H' : LInv vis cand' res).
    { refine (conj Hv (conj _ (conj Hr Hnd))). intros p Hp. apply Hc.
      apply (Permutation_in _ (Permutation_sym P)). right. exact Hp. }
    pose proof (explore_fold_inv (fst cur) (nbrs (fst cur)) vis cand' res (Hv _ (proj1 Hcur)) (fun j Hj => Hj) H') as H2.
    destruct (fold_left explore' (nbrs (fst cur)) (vis, cand', res)) as [[vis2 cand2] res2].
    apply IH. exact H2.
Qed.

Lemma ins_asc_perm x l : Permutation (ins_asc x l) (x :: l).
Proof.
  induction l as [|y r IH]; cbn; [apply Permutation_refl|].
  destruct (f_lt (snd y) (snd x)); [|apply Permutation_refl].
  eapply Permutation_trans; [apply perm_skip; exact IH|apply perm_swap].
Qed.
Lemma sort_asc_perm l : Permutation (sort_asc l) l.
Proof.
  induction l as [|x r IH]; cbn; [constructor|].
  eapply Permutation_trans; [apply ins_asc_perm|apply perm_skip; exact IH].
Qed.

(* search_layer, any fuel, any entry node in range: distinct node ids, all in range, each with
   its true distance *)
Theorem search_layer_safe fuel entry : (entry < n)%nat ->
  let r := search_layer nbrs dist pick_min pick_max ef fuel entry in
  NoDup (map fst r) /\ forall p, In p r -> (fst p < n)%nat /\ snd p = dist (fst p).
Proof.
  intros He r. unfold r, search_layer.
  set (l := loop' fuel [entry] [(entry, dist entry)] [(entry, dist entry)]).
  assert (H : NoDup (map fst l) /\ forall p, In p l -> (fst p < n)%nat /\ snd p = dist (fst p)).
  { apply loop_inv. repeat split.
    - intros i [<-|[]]. exact He.
    - destruct H as [<-|[]]. left. reflexivity.
    - destruct H as [<-|[]]. reflexivity.
    - destruct H as [<-|[]]. left. reflexivity.
    - destruct H as [<-|[]]. reflexivity.
    - cbn. constructor; [intros []|constructor]. }
  destruct H as [H1 H2]. pose proof (sort_asc_perm l) as P. split.
  - apply (Permutation_NoDup (Permutation_sym (Permutation_map fst P))). exact H1.
  - intros p Hp. apply H2. apply (Permutation_in _ P). exact Hp.
Qed.

(* greedy descent stays inside the graph *)
Theorem greedy_in_range fuel : forall cur, (cur < n)%nat -> (greedy nbrs dist fuel cur < n)%nat.
Proof.
  induction fuel as [|f IH]; intros cur Hc; cbn [greedy]; [exact Hc|].
  set (F := fun (acc : nat * N * bool) (j : nat) => let '(c, cd, ch) := acc in if f_lt (dist j) cd then (j, dist j, true) else acc).
  assert (Hfold : forall js c cd ch, (c < n)%nat -> (forall j, In j js -> (j < n)%nat) ->
            (fst (fst (fold_left F js (c, cd, ch))) < n)%nat).
  { induction js as [|j r IHj]; intros c cd ch Hcn Hjs; cbn [fold_left]; [exact Hcn|].
    unfold F at 2. destruct (f_lt (dist j) cd).
    - apply IHj; [apply Hjs; left; reflexivity|intros j' Hj'; apply Hjs; right; exact Hj'].
    - apply IHj; [exact Hcn|intros j' Hj'; apply Hjs; right; exact Hj']. }
  specialize (Hfold (nbrs cur) cur (dist cur) false Hc (fun j Hj => graph_wf cur j Hc Hj)).
  fold F. destruct (fold_left F (nbrs cur) (cur, dist cur, false)) as [[c' cd'] changed]. cbn in Hfold.
  destruct changed; [apply IH; exact Hfold|exact Hc].
Qed.

(* what HNSWIndex::search hands to the engine: distinct node ids, each with the similarity of its
   own distance -- the premise of cached_search_safe *)
Theorem hnsw_hits_safe (to_sim : N -> N) fuel entry k : (entry < n)%nat ->
  let h := hnsw_hits nbrs dist pick_min pick_max ef to_sim fuel entry k in
  NoDup (map fst h) /\ forall i sc, In (i, sc) h -> (i < n)%nat /\ sc = to_sim (dist i).
Proof.
  intros He h. unfold h, hnsw_hits. destruct (search_layer_safe fuel entry He) as [H1 H2].
  set (r := search_layer nbrs dist pick_min pick_max ef fuel entry) in *. split.
  - rewrite map_map. cbn [fst]. rewrite <- firstn_map. apply nodup_firstn. exact H1.
  - intros i sc Hin. apply in_map_iff in Hin. destruct Hin as [p [E Hp]]. injection E as <- <-.
    apply in_firstn in Hp. destruct (H2 p Hp) as [Ha Hb]. split; [exact Ha|rewrite Hb; reflexivity].
Qed.
End LayerProofs.

(* engine + index search composed: the cached branch of search_similar / search_in_collection over
   ANY layer-0 graph of the index *)
Theorem cached_path_safe (score : N -> vec -> vec -> N) q k (snap : list (N * vec))
        nbrs dist pick_min pick_max ef to_sim fuel entry :
  NoDup (map fst snap) ->
  (forall l x r, pick_min l = Some (x, r) -> Permutation l (x :: r)) ->
  (forall l x r, pick_max l = Some (x, r) -> Permutation l (x :: r)) ->
  (forall i j, (i < length snap)%nat -> In j (nbrs i) -> (j < length snap)%nat) ->
  (entry < length snap)%nat ->
  (forall i kv, nth_error snap i = Some kv -> score 10 q (snd kv) = to_sim (dist i)) ->
  (forall i, (i < length snap)%nat -> f_isnan (to_sim (dist i)) = false) ->
  let r := search_cached (map fst snap) (hnsw_hits nbrs dist pick_min pick_max ef to_sim fuel entry k) k in
  (length r <= k)%nat
  /\ StronglySorted ge r
  /\ NoDup (map fst r)
  /\ forall key sc, In (key, sc) r -> exists v, In (key, v) snap /\ sc = score 10 q v.
Proof.
  intros Hnd Hpm Hpx Hwf He Htrue Hnn.
  destruct (hnsw_hits_safe nbrs dist pick_min pick_max ef (length snap) Hpm Hpx Hwf to_sim fuel entry k He) as [H1 H2].
  apply cached_search_safe; [exact Hnd|exact H1| |].
  - intros i sc Hin kv Hkv. destruct (H2 i sc Hin) as [_ ->]. symmetry. apply Htrue. exact Hkv.
  - intros i sc Hin. destruct (H2 i sc Hin) as [Hi ->]. apply Hnn. exact Hi.
Qed.
