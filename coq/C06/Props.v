(* C06/Props.v -- pinned property theorems; nothing but statements closed by `exact`. *)
From NV.Common Require Import Base.
From NV.C06 Require Import Types Model Proofs Inst.
From NV.gen Require Import Gen_C06.
From Coq Require Import Permutation Sorted.
Open Scope N_scope.

(* Clause 1 (exact path).  For EVERY score function (metric), query, k, stored set d with distinct
   keys and every HashMap scan order `scan` of it: the result has min(k, n) entries (n = stored
   vectors of the query's dimension), is ordered best first, has no duplicate key, every entry is a
   stored key with its current vector's true score, and nothing left out beats anything returned. *)
Theorem C06_exact_topk : forall (score : N -> vec -> vec -> N) m q k scan d,
  Permutation scan d -> NoDup (map fst d) ->
  Forall (fun x => f_isnan (snd x) = false) (cands score m q d) ->
  let r := search_exact score m q k scan in
  length r = Nat.min k (length (cands score m q d))
  /\ StronglySorted (fun a b => (f_key (snd b) <= f_key (snd a))%Z) r
  /\ NoDup (map fst r)
  /\ (forall key sc, In (key, sc) r -> exists v, In (key, v) d /\ same_dim v q = true /\ sc = score m q v)
  /\ exists rest, Permutation (r ++ rest) (cands score m q d)
       /\ forall x y, In x r -> In y rest -> (f_key (snd y) <= f_key (snd x))%Z.
Proof. exact exact_search_topk. Qed.

Example C06_exact_topk_nonvacuous :
  let score := fun (_ : N) (_ v : vec) => hd 0 v in
  let d := [(1, [1065353216; 0]); (2, [1073741824; 0]); (3, [1056964608]); (4, [1073741824; 5])] in
  search_exact score 0 [1; 1] 2 (rev d) = [(4, 1073741824); (2, 1073741824)]
  /\ Forall (fun x => f_isnan (snd x) = false) (cands score 0 [1; 1] d).
Proof. vm_compute. split; [reflexivity|repeat constructor]. Qed.

(* Clause 2 (cached index), safety facts only.  Whatever the index search returns -- distinct node
   ids, each with the true score of the vector it stands for -- the engine's result has at most k
   entries, is ordered, has no duplicate key, and every key is an indexed vector with its true
   score.  PARTIAL: that HNSWIndex::search returns distinct nodes with true scores is a premise
   here (it is exercised on the real index by the correspondence harness); graph construction and
   recall are not modelled. *)
Theorem C06_cached_safe_partial : forall (score : N -> vec -> vec -> N) q k (snap : list (N * vec)) (hits : list (nat * N)),
  NoDup (map fst snap) -> NoDup (map fst hits) ->
  (forall i sc, In (i, sc) hits -> forall kv, nth_error snap i = Some kv -> sc = score 10 q (snd kv)) ->
  (forall i sc, In (i, sc) hits -> f_isnan sc = false) ->
  let r := search_cached (map fst snap) hits k in
  (length r <= k)%nat
  /\ StronglySorted (fun a b => (f_key (snd b) <= f_key (snd a))%Z) r
  /\ NoDup (map fst r)
  /\ forall key sc, In (key, sc) r -> exists v, In (key, v) snap /\ sc = score 10 q v.
Proof. exact cached_search_safe. Qed.

(* Clause 2, the index search itself (PARTIAL: search code only).  HNSWIndex::search_layer over an
   ARBITRARY layer graph (nbrs), distance table (dist), heap discipline (pick_min / pick_max: any
   functions that remove one element) and fuel, followed by search_with_ef's take-k and
   distance->similarity conversion: distinct node ids, all in range, each with the similarity of
   its own distance.  Graph CONSTRUCTION (neighbour selection, level sampling) is not modelled, so
   recall is not claimed; the model of the search loop is tied to hnsw.rs by reading only (no hook
   exports the real graph), the facts themselves are checked on the real index's answers by the
   harness. *)
Theorem C06_hnsw_search_safe_partial : forall (nbrs : nat -> list nat) (dist : nat -> N)
    (pick_min pick_max : list (nat * N) -> option ((nat * N) * list (nat * N))) (ef n : nat),
  (forall l x r, pick_min l = Some (x, r) -> Permutation l (x :: r)) ->
  (forall l x r, pick_max l = Some (x, r) -> Permutation l (x :: r)) ->
  (forall i j, (i < n)%nat -> In j (nbrs i) -> (j < n)%nat) ->
  forall (to_sim : N -> N) (fuel entry k : nat), (entry < n)%nat ->
  let h := hnsw_hits nbrs dist pick_min pick_max ef to_sim fuel entry k in
  NoDup (map fst h) /\ forall i sc, In (i, sc) h -> (i < n)%nat /\ sc = to_sim (dist i).
Proof. exact hnsw_hits_safe. Qed.

(* the upper layers' greedy descent never leaves the graph *)
Theorem C06_hnsw_greedy_in_range_partial : forall (nbrs : nat -> list nat) (dist : nat -> N) (n : nat),
  (forall i j, (i < n)%nat -> In j (nbrs i) -> (j < n)%nat) ->
  forall fuel cur, (cur < n)%nat -> (greedy nbrs dist fuel cur < n)%nat.
Proof. exact greedy_in_range. Qed.

(* engine and index search composed: the cached branch returns at most k entries, ordered, without
   duplicate keys, every key an indexed vector with its true score -- for every layer graph *)
Theorem C06_cached_path_safe_partial : forall (score : N -> vec -> vec -> N) q k (snap : list (N * vec))
    nbrs dist pick_min pick_max ef to_sim fuel entry,
  NoDup (map fst snap) ->
  (forall l x r, pick_min l = Some (x, r) -> Permutation l (x :: r)) ->
  (forall l x r, pick_max l = Some (x, r) -> Permutation l (x :: r)) ->
  (forall i j, (i < length snap)%nat -> In j (nbrs i) -> (j < length snap)%nat) ->
  (entry < length snap)%nat ->
  (forall i kv, nth_error snap i = Some kv -> score 10 q (snd kv) = to_sim (dist i)) ->
  (forall i, (i < length snap)%nat -> f_isnan (to_sim (dist i)) = false) ->
  let r := search_cached (map fst snap) (hnsw_hits nbrs dist pick_min pick_max ef to_sim fuel entry k) k in
  (length r <= k)%nat
  /\ StronglySorted (fun a b => (f_key (snd b) <= f_key (snd a))%Z) r
  /\ NoDup (map fst r)
  /\ forall key sc, In (key, sc) r -> exists v, In (key, v) snap /\ sc = score 10 q v.
Proof. exact cached_path_safe. Qed.

Example C06_hnsw_nonvacuous :
  let nbrs := fun i : nat => match i with O => [1; 2] | S O => [0; 2; 3] | S (S O) => [0; 1] | _ => [1] end%nat in
  let dist := fun i : nat => match i with O => 1065353216 | S O => 1056964608 | S (S O) => 1073741824 | _ => 1048576000 end in
  let pick := fun (l : list (nat * N)) => match l with [] => None | x :: r => Some (x, r) end in
  map fst (hnsw_hits nbrs dist pick pick 2 (fun d => d) 10 0 2) = [1; 0]%nat.
Proof. vm_compute. reflexivity. Qed.

(* Clause 2, "the index is never consulted after the data it was built from changed": in every
   state reachable by any program, a cached index stands for exactly the collection's current
   vectors (all of one dimension).  Uses the per-run fact that every mutator invalidates. *)
Theorem C06_cache_discipline : forall maxd ops c x snap,
  aget (run gen_invalidates gen_keep gen_eps_bits gen_thr_num gen_thr_den maxd [] ops) c = Some x ->
  cache x = Some snap -> snap = data x /\ dims_consistent snap = true.
Proof.
  exact (fun maxd ops => cache_discipline gen_invalidates gen_keep gen_eps_bits gen_thr_num gen_thr_den maxd
                      gen_all_invalidate ops [] (CacheInv_init)).
Qed.

(* ... and the searches therefore take the cached branch only when it stands for the live data and
   the query has the indexed dimension; otherwise they run the exact path over the live data *)
Theorem C06_search_path : forall maxd ops c q k,
  let s := run gen_invalidates gen_keep gen_eps_bits gen_thr_num gen_thr_den maxd [] ops in
  match search_path gen_cached_dim_guard maxd s c q k with
  | PCached snap => snap = data (cget s c) /\ forall kv, In kv snap -> same_dim (snd kv) q = true
  | PExact m d => m = 0 /\ d = data (cget s c)
  | PPanic => False
  | _ => True
  end.
Proof.
  intros maxd ops c q k. rewrite gen_dim_guard. apply search_path_sound.
  exact (cache_discipline gen_invalidates gen_keep gen_eps_bits gen_thr_num gen_thr_den maxd
           gen_all_invalidate ops [] (CacheInv_init)).
Qed.

(* searches with a metadata filter (search_similar_filtered / search_filtered_in_collection, any
   strategy, any oversample factor): an exact search over the stored vectors that match the filter -- C06_exact_topk applies
   with d := those vectors -- or, with a valid cached index, index candidates restricted to them *)
Theorem C06_filtered_search_path : forall maxd ops t c q k b strat ovs,
  let s := run gen_invalidates gen_keep gen_eps_bits gen_thr_num gen_thr_den maxd [] ops in
  match filtered_path gen_cached_dim_guard maxd gen_post_filter_fallback s t c q k b strat ovs with
  | FExact m => m = matching t c b (data (cget s c))
  | FCachedOrExact snap m => snap = data (cget s c) /\ m = matching t c b (data (cget s c))
  | FErr _ | FEmpty => True
  | _ => False
  end.
Proof.
  intros maxd ops t c q k b strat ovs. rewrite gen_dim_guard, gen_fallback. apply filtered_path_sound.
  exact (cache_discipline gen_invalidates gen_keep gen_eps_bits gen_thr_num gen_thr_den maxd
           gen_all_invalidate ops [] (CacheInv_init)).
Qed.

(* KNOWN FINDING reserved-default-name.  The implementation keys its cache map by collection NAME and
   stores the default collection's index under the name "_default" (unit tests pin both key
   choices).  The theorems above are about collection ids = distinct cache slots, i.e. named
   collections not called "_default".  A named collection with that name consults the default
   collection's slot (search_path_slot with the aliasing slot map; with the identity map it IS
   search_path): even in a state satisfying the invariant it is answered from the other collection's
   index. *)
Theorem C06_search_path_slot_identity : forall maxd dg s c q k,
  search_path_slot dg maxd (fun x => x) s c q k = search_path dg maxd s c q k.
Proof. exact search_path_slot_id. Qed.

Theorem C06_reserved_name_refuted :
  let s := run gen_invalidates gen_keep gen_eps_bits gen_thr_num gen_thr_den 0 []
             [OStore 0 0 [1065353216; 1065353216]; OBuild 0; OStore 9 7 [1073741824; 1065353216]] in
  (forall c x snap, aget s c = Some x -> cache x = Some snap -> snap = data x /\ dims_consistent snap = true) /\
  exists snap, search_path_slot true 0 (fun c => if N.eqb c 9 then 0 else c) s 9 [1065353216; 1065353216] 1 = PCached snap
               /\ snap <> data (cget s 9).
Proof. exact (reserved_name_refuted gen_invalidates gen_keep gen_eps_bits gen_thr_num gen_thr_den 0 gen_all_invalidate eq_refl). Qed.

(* the discipline is necessary: for ANY engine parameters, a mutator that does not invalidate
   admits a short program after which the cached index is stale (this is F-C06-stale; the four
   programs for store_embedding_with_metadata, batch_delete_embeddings, clear, delete_collection
   failed on the real code before the repair) *)
Theorem C06_cache_discipline_needed : forall inval keep eps num den maxd m,
  In m mutators -> inval m = false ->
  ~ (forall c x snap, aget (run inval keep eps num den maxd [] (stale_witness m)) c = Some x ->
       cache x = Some snap -> snap = data x /\ dims_consistent snap = true).
Proof. exact cache_discipline_needed. Qed.

(* Clause 3: read-back.  The sparse representation returns the vector with -0.0 replaced by +0.0
   and nothing else changed (NaN, infinities, denormals kept bit for bit) ... *)
Theorem C06_sparse_roundtrip : forall v, to_dense (from_dense gen_keep v) = normalise_zero v.
Proof. exact (sparse_roundtrip_normalise gen_keep gen_keep_spec). Qed.

Theorem C06_normalise_zero_only_negzero : forall v,
  Forall2 (fun w r => r = w \/ (w = SIGN /\ r = 0)) v (normalise_zero v).
Proof. exact normalise_zero_spec. Qed.

(* ... and whichever representation is chosen, get_embedding returns v or normalise_zero v *)
Theorem C06_stored_readback : forall v,
  stored gen_keep gen_eps_bits gen_thr_num gen_thr_den v = v \/
  stored gen_keep gen_eps_bits gen_thr_num gen_thr_den v = normalise_zero v.
Proof. exact (stored_readback gen_keep gen_eps_bits gen_thr_num gen_thr_den gen_keep_spec). Qed.

Example C06_sparse_nonvacuous :
  stored gen_keep gen_eps_bits gen_thr_num gen_thr_den [SIGN; 1065353216; 0; 2143289344] = [0; 1065353216; 0; 2143289344].
Proof. vm_compute. reflexivity. Qed.

Print Assumptions C06_exact_topk.
Print Assumptions C06_cached_safe_partial.
Print Assumptions C06_hnsw_search_safe_partial.
Print Assumptions C06_hnsw_greedy_in_range_partial.
Print Assumptions C06_cached_path_safe_partial.
Print Assumptions C06_cache_discipline.
Print Assumptions C06_search_path.
Print Assumptions C06_filtered_search_path.
Print Assumptions C06_cache_discipline_needed.
Print Assumptions C06_search_path_slot_identity.
Print Assumptions C06_reserved_name_refuted.
Print Assumptions C06_sparse_roundtrip.
Print Assumptions C06_normalise_zero_only_negzero.
Print Assumptions C06_stored_readback.
