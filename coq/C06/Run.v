(* C06/Run.v -- executable entry points for the correspondence check and the property oracles.
   Depends on Model + the regenerated tables only (NOT on the proofs). *)
From NV.Common Require Import Base.
From NV.C06 Require Import Types Model.
From NV.gen Require Import Gen_C06.
Open Scope N_scope.

(* the implementation's own metric values: (metric id, query, stored vector, f32 bits) *)
Definition stbl := list (N * vec * vec * N).
Definition BAD : N := 4294967296.     (* not an f32 *)
Definition score_of (t : stbl) (m : N) (q v : vec) : N :=
  match find (fun e => let '(m', q', v', _) := e in N.eqb m m' && vec_eqb q q' && vec_eqb v v') t with
  | Some (_, _, _, x) => x
  | None => BAD
  end.

Definition mstep := step gen_invalidates gen_keep gen_eps_bits gen_thr_num gen_thr_den.

Definition res_eqb (a b : list (N * N)) : bool := list_eqb (pair_eqb N.eqb N.eqb) a b.
Definition out_eqb (a b : out) : bool :=
  match a, b with
  | RUnit, RUnit => true
  | RErr x, RErr y => N.eqb x y
  | RNum x, RNum y => N.eqb x y
  | RVec x, RVec y => vec_eqb x y
  | RRes x, RRes y => res_eqb x y
  | _, _ => false
  end.

(* ---- the criteria ---- *)
Fixpoint sorted_desc (r : list (N * N)) : bool :=
  match r with
  | a :: ((b :: _) as t) => f_le (snd b) (snd a) && sorted_desc t
  | _ => true
  end.
Fixpoint nodup_keys (r : list (N * N)) : bool :=
  match r with
  | [] => true
  | a :: t => negb (existsb (fun b => N.eqb (fst a) (fst b)) t) && nodup_keys t
  end.
Definition has_key (k : N) (r : list (N * N)) : bool := existsb (fun x => N.eqb (fst x) k) r.

(* exact path: r is the k best of the candidates cs (key, true score), best first *)
Definition exact_ok (cs : list (N * N)) (k : nat) (r : list (N * N)) : bool :=
  Nat.eqb (length r) (Nat.min k (length cs))
  && sorted_desc r
  && nodup_keys r
  && forallb (fun x => existsb (fun c => N.eqb (fst c) (fst x) && N.eqb (snd c) (snd x)) cs) r
  && forallb (fun c => has_key (fst c) r || forallb (fun x => f_le (snd c) (snd x)) r) cs.

(* cached path: safety facts only, against the vectors d the index stands for *)
Definition cached_ok (sc : vec -> N) (d : list (N * vec)) (k : nat) (r : list (N * N)) : bool :=
  Nat.leb (length r) k
  && sorted_desc r
  && nodup_keys r
  && forallb (fun x => match aget d (fst x) with Some v => N.eqb (snd x) (sc v) | None => false end) r.

(* ---- specification state: what the caller wrote, and the build that is still valid ---- *)
Record scoll := SC { written : list (N * vec); valid : option (list (N * vec)) }.
Definition sst := list (N * scoll).
Definition sget (a : sst) (c : N) : scoll := match aget a c with Some x => x | None => SC [] None end.
Definition data_eqb (x y : list (N * vec)) : bool := list_eqb (pair_eqb N.eqb vec_eqb) x y.
(* new written data for collection c; a build stays valid only while the data is unchanged *)
Definition supd (a : sst) (c : N) (w : list (N * vec)) : sst :=
  let x := sget a c in
  aset a c (SC w (if data_eqb w (written x) then valid x else None)).
Definition sstep (a : sst) (o : op) : sst :=
  match o with
  | OStore c k (x :: v) | OStoreMeta c k (x :: v) => supd a c (aset (written (sget a c)) k (x :: v))
  | ODelete c k => supd a c (adel (written (sget a c)) k)
  | OBatchStore kvs =>
      if existsb (fun kv => match snd kv with [] => true | _ => false end) kvs then a
      else supd a 0 (fold_left (fun w kv => aset w (fst kv) (snd kv)) kvs (written (sget a 0)))
  | OBatchDelete ks => supd a 0 (fold_left (fun w k => adel w k) ks (written (sget a 0)))
  | OClear => supd a 0 []
  | _ => a
  end.
(* delete_collection and build need to know what the implementation answered *)
Definition sstep_out (a : sst) (o : op) (r : out) (dump_c : list (N * vec)) : sst :=
  match o, r with
  | ODeleteColl c, RUnit => supd a c []
  | OBuild c, RUnit => let x := sget a c in aset a c (SC (written x) (Some dump_c))
  | _, _ => sstep a o
  end.

(* ---- observations: (returned value, read-back of every collection in play) ---- *)
Definition dump := list (N * list (N * vec)).
Definition obs := (out * dump)%type.
Definition dget (d : dump) (c : N) : list (N * vec) := match aget d c with Some x => x | None => [] end.

(* stored vectors read back exactly as written (f32 equality; NaN payloads bit for bit), nothing
   deleted reads back, nothing written is missing *)
Fixpoint vec_same (a b : vec) : bool :=
  match a, b with
  | [], [] => true
  | x :: r, y :: t => f_same x y && vec_same r t
  | _, _ => false
  end.
Definition readback_ok (a : sst) (d : dump) : bool :=
  forallb (fun cd => let '(c, rd) := cd in
     let w := written (sget a c) in
     forallb (fun kv => match aget w (fst kv) with Some x => vec_same (snd kv) x | None => false end) rd
     && forallb (fun kv => is_some (aget rd (fst kv))) w) d.

Definition nonzero_query (q : vec) : bool := negb (forallb f_iszero q).

(* the property oracle for one step, on the implementation's outputs *)
Definition oracle_step (t : stbl) (a' : sst) (o : op) (ob : obs) : bool :=
  let '(r, d) := ob in
  readback_ok a' d &&
  match o, r with
  | OSearch c (x :: q) k, RRes l =>
      if nonzero_query (x :: q) && negb (N.eqb k 0) then
        let live := dget d c in
        let ex := exact_ok (cands (score_of t) 0 (x :: q) live) (N.to_nat k) l in
        match valid (sget a' c) with
        | Some (_ :: _) => ex || cached_ok (score_of t 10 (x :: q)) live (N.to_nat k) l
        | _ => ex
        end
      else true
  | OSearchMetric (x :: q) k m, RRes l =>
      if (nonzero_query (x :: q) || N.eqb m 2) && negb (N.eqb k 0) then
        exact_ok (cands (score_of t) m (x :: q) (dget d 0)) (N.to_nat k) l
      else true
  | _, _ => true
  end.

(* correspondence with the model for one step *)
Definition path_ok (t : stbl) (p : path) (q : vec) (k : N) (r : out) : bool :=
  match p, r with
  | PErr e, RErr e' => N.eqb e e'
  | PEmpty, RRes [] => true
  | PExact m d, RRes l => exact_ok (cands (score_of t) m q d) (N.to_nat k) l
  | PCached snap, RRes l => cached_ok (score_of t 10 q) snap (N.to_nat k) l
  | PPanic, RErr 99 => true
  | _, _ => false
  end.
Definition data_matches (rd md : list (N * vec)) : bool :=
  Nat.eqb (length rd) (length md) &&
  forallb (fun kv => match aget md (fst kv) with Some v => vec_eqb v (snd kv) | None => false end) rd.
Definition dump_matches (d : dump) (s : st) : bool :=
  forallb (fun cd => data_matches (snd cd) (data (cget s (fst cd)))) d.

Definition model_step_ok (t : stbl) (s : st) (o : op) (ob : obs) : st * bool :=
  let '(r, d) := ob in
  let '(s', mr) := mstep s o in
  (s', dump_matches d s' &&
       match o with
       | OSearch c q k => path_ok t (search_path gen_cached_dim_guard s c q k) q k r
       | OSearchMetric q k m => path_ok t (search_metric_path s q k m) q k r
       | _ => out_eqb mr r
       end).

(* dumps must list keys in increasing order without repetition (canonical form) *)
Fixpoint walk (t : stbl) (s : st) (a : sst) (ops : list op) (os : list obs) : N :=
  match ops, os with
  | [], [] => V_OK
  | o :: ops', ob :: os' =>
      let a' := sstep_out a o (fst ob) (dget (snd ob) (match o with OBuild c => c | _ => 0 end)) in
      if negb (oracle_step t a' o ob) then V_VIOLATION
      else let '(s', ok) := model_step_ok t s o ob in
           if ok then walk t s' a' ops' os' else V_MISMATCH
  | _, _ => 9
  end.

Definition trace_case := (stbl * list op * list obs)%type.
Definition check_trace (c : trace_case) : N :=
  let '(t, ops, os) := c in walk t [] [] ops os.

(* ---- representation round trip on the implementation: (v, SparseVector::from_dense(v).to_dense()) *)
Definition sparse_case := (vec * vec)%type.
Definition check_sparse (c : sparse_case) : N :=
  let '(v, r) := c in
  if negb (vec_same r v) then V_VIOLATION
  else if vec_eqb r (to_dense (from_dense gen_keep v)) then V_OK else V_MISMATCH.
