(* C06/Run.v -- executable entry points for the correspondence check and the property oracles.
   Depends on Model + the regenerated tables only (NOT on the proofs). *)
From NV.Common Require Import Base.
From NV.C06 Require Import Types Model.
From NV.gen Require Import Gen_C06.
Open Scope N_scope.

(* the implementation's own metric values: (metric id, query, stored vector, f32 bits) *)
Definition stbl := list (N * vec * vec * N).
Definition BAD : N := 4294967296.     (* not an f32 *)
Definition score_of (t : stbl) (m : N) (q v : vec) : N :=
  match find (fun e => let '(m', q', v', _) := e in N.eqb m m' && vec_eqb q q' && vec_eqb v v') t with
  | Some (_, _, _, x) => x
  | None => BAD
  end.

Definition mstep (maxd : N) := step gen_invalidates gen_keep gen_eps_bits gen_thr_num gen_thr_den maxd.

Definition res_eqb (a b : list (N * N)) : bool := list_eqb (pair_eqb N.eqb N.eqb) a b.
Definition out_eqb (a b : out) : bool :=
  match a, b with
  | RUnit, RUnit => true
  | RErr x, RErr y => N.eqb x y
  | RNum x, RNum y => N.eqb x y
  | RVec x, RVec y => vec_eqb x y
  | RRes x, RRes y => res_eqb x y
  | _, _ => false
  end.

(* ---- the criteria ---- *)
Fixpoint sorted_desc (r : list (N * N)) : bool :=
  match r with
  | a :: ((b :: _) as t) => f_le (snd b) (snd a) && sorted_desc t
  | _ => true
  end.
Fixpoint nodup_keys (r : list (N * N)) : bool :=
  match r with
  | [] => true
  | a :: t => negb (existsb (fun b => N.eqb (fst a) (fst b)) t) && nodup_keys t
  end.
Definition has_key (k : N) (r : list (N * N)) : bool := existsb (fun x => N.eqb (fst x) k) r.

(* exact path: r is the k best of the candidates cs (key, true score), best first *)
Definition exact_ok (cs : list (N * N)) (k : nat) (r : list (N * N)) : bool :=
  Nat.eqb (length r) (Nat.min k (length cs))
  && sorted_desc r
  && nodup_keys r
  && forallb (fun x => existsb (fun c => N.eqb (fst c) (fst x) && N.eqb (snd c) (snd x)) cs) r
  && forallb (fun c => has_key (fst c) r || forallb (fun x => f_le (snd c) (snd x)) r) cs.

(* cached path: safety facts only, against the vectors d the index stands for *)
(* cached path, as the PROPERTY states it: at most k, ordered, no duplicate key, every key a currently
   stored vector, reported with its TRUE score = the score the exact scan gives that pair (the index
   computes 1 - (1 - cos): equal up to two roundings, see f_close) *)
Definition cached_true_ok (sc : vec -> N) (d : list (N * vec)) (k : nat) (r : list (N * N)) : bool :=
  Nat.leb (length r) k
  && sorted_desc r
  && nodup_keys r
  && forallb (fun x => match aget d (fst x) with Some v => f_close (snd x) (sc v) | None => false end) r.

Definition cached_ok (sc : vec -> N) (d : list (N * vec)) (k : nat) (r : list (N * N)) : bool :=
  Nat.leb (length r) k
  && sorted_desc r
  && nodup_keys r
  && forallb (fun x => match aget d (fst x) with Some v => N.eqb (snd x) (sc v) | None => false end) r.

(* ---- specification state: what the caller wrote, and the build that is still valid ---- *)
Record scoll := SC { written : list (N * vec); valid : option (list (N * vec)) }.
Definition sst := list (N * scoll).
Definition sget (a : sst) (c : N) : scoll := match aget a c with Some x => x | None => SC [] None end.
Definition data_eqb (x y : list (N * vec)) : bool := list_eqb (pair_eqb N.eqb vec_eqb) x y.
(* new written data for collection c; a build stays valid only while the data is unchanged *)
Definition supd (a : sst) (c : N) (w : list (N * vec)) : sst :=
  let x := sget a c in
  aset a c (SC w (if data_eqb w (written x) then valid x else None)).
(* what the caller's writes amount to, given the configured max_dimension (0 = none): a single store
   of an over-long vector is rejected; a batch stores its elements in order up to the first rejected one *)
Definition sstep (maxd : N) (a : sst) (o : op) : sst :=
  match o with
  | OStore c k (x :: v) | OStoreMeta c k (x :: v) =>
      if too_long maxd (x :: v) then a else supd a c (aset (written (sget a c)) k (x :: v))
  | ODelete c k => supd a c (adel (written (sget a c)) k)
  | OBatchStore kvs =>
      if existsb (fun kv => match snd kv with [] => true | _ => false end) kvs then a
      else supd a 0 (fold_left (fun w kv => aset w (fst kv) (snd kv)) (stored_prefix maxd kvs) (written (sget a 0)))
  | OBatchDelete ks => supd a 0 (fold_left (fun w k => adel w k) ks (written (sget a 0)))
  | OClear => supd a 0 []
  | _ => a
  end.
(* delete_collection and build need to know what the implementation answered *)
Definition sstep_out (maxd : N) (a : sst) (o : op) (r : out) (dump_c : list (N * vec)) : sst :=
  match o, r with
  | ODeleteColl c, RUnit => supd a c []
  | OBuild c, RUnit => let x := sget a c in aset a c (SC (written x) (Some dump_c))
  | _, _ => sstep maxd a o
  end.

(* ---- observations: (returned value, read-back of every collection in play) ---- *)
Definition dump := list (N * list (N * vec)).
Definition tdump := list (N * list (N * N)).          (* collection -> key -> value of the "tag" metadata field *)
Definition obs := (out * dump * tdump)%type.
Definition dget (d : dump) (c : N) : list (N * vec) := match aget d c with Some x => x | None => [] end.

(* stored vectors read back exactly as written (f32 equality; NaN payloads bit for bit), nothing
   deleted reads back, nothing written is missing *)
Fixpoint vec_same (a b : vec) : bool :=
  match a, b with
  | [], [] => true
  | x :: r, y :: t => f_same x y && vec_same r t
  | _, _ => false
  end.
Definition readback_ok (a : sst) (d : dump) : bool :=
  forallb (fun cd => let '(c, rd) := cd in
     let w := written (sget a c) in
     forallb (fun kv => match aget w (fst kv) with Some x => vec_same (snd kv) x | None => false end) rd
     && forallb (fun kv => is_some (aget rd (fst kv))) w) d.

Definition nonzero_query (q : vec) : bool := negb (forallb f_iszero q).

(* the property oracle for one step, on the implementation's outputs *)
(* candidates among the vectors whose "tag" field is b, per the implementation's own read-back *)
Definition tagged (td : tdump) (c b : N) (d : list (N * vec)) : list (N * vec) :=
  filter (fun kv => match aget (match aget td c with Some x => x | None => [] end) (fst kv) with
                    | Some x => N.eqb x b | None => false end) d.

Definition oracle_step (t : stbl) (a' : sst) (o : op) (ob : obs) : bool :=
  let '(r, d, td) := ob in
  readback_ok a' d &&
  match o, r with
  | OSearchFiltered c (x :: q) k b _ _, RRes l =>
      if nonzero_query (x :: q) && negb (N.eqb k 0) then
        let live := tagged td c b (dget d c) in
        let ex := exact_ok (cands (score_of t) 0 (x :: q) live) (N.to_nat k) l in
        match valid (sget a' c) with
        | Some (_ :: _) => ex || cached_true_ok (score_of t 0 (x :: q)) live (N.to_nat k) l
        | _ => ex
        end
      else true
  | OSearch c (x :: q) k, RRes l =>
      if nonzero_query (x :: q) && negb (N.eqb k 0) then
        let live := dget d c in
        let ex := exact_ok (cands (score_of t) 0 (x :: q) live) (N.to_nat k) l in
        match valid (sget a' c) with
        | Some (_ :: _) => ex || cached_true_ok (score_of t 0 (x :: q)) live (N.to_nat k) l
        | _ => ex
        end
      else true
  | OSearchMetric (x :: q) k m, RRes l =>
      if (nonzero_query (x :: q) || N.eqb m 2) && negb (N.eqb k 0) then
        exact_ok (cands (score_of t) m (x :: q) (dget d 0)) (N.to_nat k) l
      else true
  | _, _ => true
  end.

(* correspondence with the model for one step *)
Definition path_ok (t : stbl) (p : path) (q : vec) (k : N) (r : out) : bool :=
  match p, r with
  | PErr e, RErr e' => N.eqb e e'
  | PEmpty, RRes [] => true
  | PExact m d, RRes l => exact_ok (cands (score_of t) m q d) (N.to_nat k) l
  | PCached snap, RRes l => cached_ok (score_of t 10 q) snap (N.to_nat k) l
  | PPanic, RErr 99 => true
  | _, _ => false
  end.
Definition data_matches (rd md : list (N * vec)) : bool :=
  Nat.eqb (length rd) (length md) &&
  forallb (fun kv => match aget md (fst kv) with Some v => vec_eqb v (snd kv) | None => false end) rd.
Definition dump_matches (d : dump) (s : st) : bool :=
  forallb (fun cd => data_matches (snd cd) (data (cget s (fst cd)))) d.

(* post-filtering without the fallback: the first k matching of the top n of ALL candidates; a matching
   candidate may be missing only if k better ones were returned or it can lie beyond the cut *)
Definition post_ok (all m : list (N * N)) (n k : nat) (r : list (N * N)) : bool :=
  Nat.leb (length r) k && sorted_desc r && nodup_keys r
  && forallb (fun x => existsb (fun c => N.eqb (fst c) (fst x) && N.eqb (snd c) (snd x)) m) r
  && forallb (fun c => has_key (fst c) r
                       || (Nat.eqb (length r) k && forallb (fun x => f_le (snd c) (snd x)) r)
                       || Nat.leb n (length (filter (fun y => negb (N.eqb (fst y) (fst c)) && f_le (snd c) (snd y)) all))) m.

Definition fpath_ok (t : stbl) (p : fpath) (q : vec) (k : N) (r : out) : bool :=
  match p, r with
  | FErr e, RErr e' => N.eqb e e'
  | FEmpty, RRes [] => true
  | FExact m, RRes l => exact_ok (cands (score_of t) 0 q m) (N.to_nat k) l
  | FCachedOrExact snap m, RRes l =>
      exact_ok (cands (score_of t) 0 q m) (N.to_nat k) l
      || (cached_ok (score_of t 10 q) snap (N.to_nat k) l && forallb (fun x => is_some (aget m (fst x))) l)
  | FPostNoFallback n d m, RRes l =>
      post_ok (cands (score_of t) 0 q d) (cands (score_of t) 0 q m) (N.to_nat n) (N.to_nat k) l
  | FPostCached snap m, RRes l =>
      cached_ok (score_of t 10 q) snap (N.to_nat k) l && forallb (fun x => is_some (aget m (fst x))) l
  | FPanic, RErr 99 => true
  | _, _ => false
  end.

Definition tdump_matches (td : tdump) (tg : tags) : bool :=
  forallb (fun ce => let '(c, rows) := ce in
     let m := tget tg c in
     Nat.eqb (length rows) (length m) &&
     forallb (fun kv => match aget m (fst kv) with Some x => N.eqb x (snd kv) | None => false end) rows) td.

Definition model_step_ok (maxd : N) (t : stbl) (s : st) (tg : tags) (o : op) (ob : obs) : st * tags * bool :=
  let '(r, d, td) := ob in
  let '(s', mr) := mstep maxd s o in
  let tg' := tstep maxd s tg o in
  (s', tg', dump_matches d s' && tdump_matches td tg' &&
       match o with
       | OSearchFiltered c q k b strat ovs =>
           fpath_ok t (filtered_path gen_cached_dim_guard maxd gen_post_filter_fallback s tg c q k b strat ovs) q k r
       | OSearch c q k => path_ok t (search_path gen_cached_dim_guard maxd s c q k) q k r
       | OSearchMetric q k m => path_ok t (search_metric_path s q k m) q k r
       | _ => out_eqb mr r
       end).

(* dumps must list keys in increasing order without repetition (canonical form) *)
(* walk the WHOLE trace: the property oracle is evaluated on every observation, also after a
   model/implementation disagreement (remembered in `mism`, reported only if no observation violated
   the property) *)
Fixpoint walk (maxd : N) (t : stbl) (s : st) (tg : tags) (a : sst) (mism : bool) (ops : list op) (os : list obs) : N :=
  match ops, os with
  | [], [] => if mism then V_MISMATCH else V_OK
  | o :: ops', ob :: os' =>
      let '(r, d, _) := ob in
      let a' := sstep_out maxd a o r (dget d (match o with OBuild c => c | _ => 0 end)) in
      if negb (oracle_step t a' o ob) then V_VIOLATION
      else let '(s', tg', ok) := model_step_ok maxd t s tg o ob in
           walk maxd t s' tg' a' (mism || negb ok) ops' os'
  | _, _ => 9
  end.

(* (max_dimension (0 = none), score table, ops, observations) *)
Definition trace_case := (N * stbl * list op * list obs)%type.
Definition check_trace (c : trace_case) : N :=
  let '(maxd, t, ops, os) := c in walk maxd t [] [] [] false ops os.

(* ---- representation round trip on the implementation: (v, SparseVector::from_dense(v).to_dense()) *)
Definition sparse_case := (vec * vec)%type.
Definition check_sparse (c : sparse_case) : N :=
  let '(v, r) := c in
  if negb (vec_same r v) then V_VIOLATION
  else if vec_eqb r (to_dense (from_dense gen_keep v)) then V_OK else V_MISMATCH.

(* ---- the real HNSWIndex, directly (insert n vectors, search_with_ef): the premise of
   C06_cached_safe_partial and the facts of C06_hnsw_search_safe_partial on the implementation.
   (k, per node id the EXACT scan's cosine score for (query, node vector) -- VectorEngine::compute_similarity --,
   returned (id, score)): distinct in-range ids, ordered, at most k, each score the true score up to
   the two roundings of 1 - (1 - cos) *)
Definition hnsw_case := (N * list N * list (N * N))%type.
Definition check_hnsw (c : hnsw_case) : N :=
  let '(k, truth, hits) := c in
  if Nat.leb (length hits) (N.to_nat k)
     && nodup_keys hits
     && sorted_desc hits
     && forallb (fun h => match nth_error truth (N.to_nat (fst h)) with
                          | Some s => f_close (snd h) s
                          | None => false end) hits
  then V_OK else V_VIOLATION.
