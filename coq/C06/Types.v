(* C06/Types.v -- f32 values as IEEE-754 bit patterns (N < 2^32) with the comparisons the vector
   engine uses, defined on the bits.  No float arithmetic is modelled: scores are supplied by a
   function (a Section variable in the model, the implementation's own metric functions in the
   correspondence runs). *)
From NV.Common Require Import Base.
Open Scope N_scope.

Definition vec := list N.

Definition SIGN : N := 2147483648.                      (* 2^31 *)
Definition f_exp (b : N) : N := N.land (N.shiftr b 23) 255.
Definition f_man (b : N) : N := N.land b 8388607.
Definition f_isnan (b : N) : bool := N.eqb (f_exp b) 255 && negb (N.eqb (f_man b) 0).
Definition f_iszero (b : N) : bool := N.eqb b 0 || N.eqb b SIGN.       (* +0.0 or -0.0 *)
Definition f_neg (b : N) : bool := N.leb SIGN b.
Definition f_abs (b : N) : N := if f_neg b then b - SIGN else b.
(* strictly monotone map from the non-NaN floats to Z; -0.0 and +0.0 both map to 0 *)
Definition f_key (b : N) : Z := if f_neg b then (- Z.of_N (b - SIGN))%Z else Z.of_N b.
(* a < b as f32 (false when either is NaN) *)
Definition f_lt (a b : N) : bool := negb (f_isnan a) && negb (f_isnan b) && Z.ltb (f_key a) (f_key b).
Definition f_le (a b : N) : bool := negb (f_isnan a) && negb (f_isnan b) && Z.leb (f_key a) (f_key b).
(* |b| > t for a positive, finite threshold t given by its bits *)
Definition f_abs_gt (b t : N) : bool := negb (f_isnan b) && N.ltb t (f_abs b).
(* f32 `==` on non-NaN values, bit equality otherwise: "reads back exactly" *)
Definition f_same (a b : N) : bool := N.eqb a b || (f_iszero a && f_iszero b).

(* exact value of a finite f32, scaled by 2^149 (an integer): (-1)^s * m * 2^(e-1) for normal numbers
   (m = 2^23 + mantissa, e = biased exponent), (-1)^s * mantissa for subnormals and zeros *)
Definition f_finite (b : N) : bool := negb (N.eqb (f_exp (f_abs b)) 255).
Definition f_scaled (b : N) : Z :=
  let a := f_abs b in
  let e := f_exp a in
  let m := f_man a in
  let v := if N.eqb e 0 then Z.of_N m else Z.shiftl (Z.of_N (8388608 + m)) (Z.of_N e - 1) in
  if f_neg b then (- v)%Z else v.
(* |a - b| <= 2^-20 (about 9.5e-7) on finite values.  Used where the property compares a score the cached
   index reports -- computed as 1 - (1 - cos), two extra roundings of at most 2^-24 each on values in
   [-1, 2] -- with the exact scan's score for the same pair of vectors. *)
Definition f_close (a b : N) : bool :=
  f_finite a && f_finite b && Z.leb (Z.abs (f_scaled a - f_scaled b)) (Z.shiftl 1 129).

Definition vec_eqb (a b : vec) : bool := list_eqb N.eqb a b.
Definition same_dim (a b : vec) : bool := Nat.eqb (length a) (length b).
