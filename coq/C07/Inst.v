(* C07/Inst.v -- PER-RUN OBLIGATIONS over gen/Gen_C07.v (regenerated from snapshot.rs on every run):
   the header fields occupy pairwise disjoint ranges of the right widths inside HEADER_SIZE, and
   from_raw_bytes inverts to_raw_bytes for every well-formed header.  A harmless rewrite of the
   Rust functions re-proves; a changed offset, width or byte order fails. *)
From NV.Common Require Import Base.
From NV.C07 Require Import Types Model.
From NV.gen Require Import Gen_C07.
Open Scope N_scope.

Lemma gen_layout_disjoint : layout_disjoint gen_header_size gen_write_layout = true.
Proof. vm_compute. reflexivity. Qed.

Lemma gen_save_order : gen_save_order_ok = true.
Proof. vm_compute. reflexivity. Qed.

(* the round-trip premise `zd (zc b) = Some b` of C07_file_roundtrip is about an UNBOUNDED decoder: the
   loader must not put a size or ratio cap on the payload the saver wrote *)
Lemma gen_load_unbounded : gen_load_decompress_unbounded = true.
Proof. reflexivity. Qed.

(* both save functions: only temp-file steps, the temp file complete, then one rename as the last step *)
Lemma gen_steps_safe : steps_safe gen_save_steps_v3 = true /\ steps_safe gen_save_steps_quant = true.
Proof. split; vm_compute; reflexivity. Qed.

Lemma le_val_bytes_4 x : x < 2 ^ 32 ->
  le_val [x mod 256; x / 256 mod 256; x / 256 / 256 mod 256; x / 256 / 256 / 256 mod 256] = x.
Proof.
  intros Hx. cbn [le_val]. change (2 ^ 32) with 4294967296 in Hx.
  Ltac Zify.zify_post_hook ::= Z.div_mod_to_equations. lia.
Qed.

Lemma le_val_bytes_8 x : x < 2 ^ 64 ->
  le_val [x mod 256; x / 256 mod 256; x / 256 / 256 mod 256; x / 256 / 256 / 256 mod 256;
          x / 256 / 256 / 256 / 256 mod 256; x / 256 / 256 / 256 / 256 / 256 mod 256;
          x / 256 / 256 / 256 / 256 / 256 / 256 mod 256;
          x / 256 / 256 / 256 / 256 / 256 / 256 / 256 mod 256] = x.
Proof.
  intros Hx. cbn [le_val]. change (2 ^ 64) with 18446744073709551616 in Hx.
  Ltac Zify.zify_post_hook ::= Z.div_mod_to_equations. lia.
Qed.

Lemma gen_read_generic m0 m1 m2 m3 a0 a1 a2 a3 b0 b1 b2 b3 c0 c1 c2 c3 c4 c5 c6 c7 :
  let fb := fun f : N => match f with
                         | 0 => [m0; m1; m2; m3]
                         | 1 => [a0; a1; a2; a3]
                         | 2 => [b0; b1; b2; b3]
                         | _ => [c0; c1; c2; c3; c4; c5; c6; c7]
                         end in
  let raw := to_raw_gen gen_header_size gen_write_layout fb in
  read_field gen_read_layout 0 raw = fb 0 /\ read_field gen_read_layout 1 raw = fb 1
  /\ read_field gen_read_layout 2 raw = fb 2 /\ read_field gen_read_layout 3 raw = fb 3
  /\ N.of_nat (length raw) = gen_header_size /\ firstn 4 raw = fb 0.
Proof. vm_compute. repeat split; reflexivity. Qed.

Lemma gen_read_fields m0 m1 m2 m3 v f c :
  let raw := to_raw (H [m0; m1; m2; m3] v f c) in
  read_field gen_read_layout 0 raw = [m0; m1; m2; m3]
  /\ read_field gen_read_layout 1 raw = le_bytes 4 v
  /\ read_field gen_read_layout 2 raw = le_bytes 4 f
  /\ read_field gen_read_layout 3 raw = le_bytes 8 c
  /\ N.of_nat (length raw) = gen_header_size /\ firstn 4 raw = [m0; m1; m2; m3].
Proof.
  exact (gen_read_generic m0 m1 m2 m3
           (v mod 256) (v / 256 mod 256) (v / 256 / 256 mod 256) (v / 256 / 256 / 256 mod 256)
           (f mod 256) (f / 256 mod 256) (f / 256 / 256 mod 256) (f / 256 / 256 / 256 mod 256)
           (c mod 256) (c / 256 mod 256) (c / 256 / 256 mod 256) (c / 256 / 256 / 256 mod 256)
           (c / 256 / 256 / 256 / 256 mod 256) (c / 256 / 256 / 256 / 256 / 256 mod 256)
           (c / 256 / 256 / 256 / 256 / 256 / 256 mod 256)
           (c / 256 / 256 / 256 / 256 / 256 / 256 / 256 mod 256)).
Qed.

Lemma magic4 (m : list N) : length m = 4%nat -> exists m0 m1 m2 m3, m = [m0; m1; m2; m3].
Proof.
  destruct m as [|m0 [|m1 [|m2 [|m3 [|]]]]]; try discriminate. intros _. eauto.
Qed.

Lemma gen_header_length h : length (h_magic h) = 4%nat ->
  N.of_nat (length (to_raw h)) = gen_header_size.
Proof.
  destruct h as [m v f c]; cbn [h_magic]. intros Hm.
  destruct (magic4 m Hm) as (m0 & m1 & m2 & m3 & ->).
  apply (gen_read_fields m0 m1 m2 m3 v f c).
Qed.

Lemma gen_header_roundtrip h : header_wf h -> from_raw (to_raw h) = h.
Proof.
  destruct h as [m v f c]. unfold header_wf; cbn [h_magic h_version h_flags h_count].
  intros (Hm & _ & Hv & Hf & Hc).
  destruct (magic4 m Hm) as (m0 & m1 & m2 & m3 & ->).
  destruct (gen_read_fields m0 m1 m2 m3 v f c) as (G0 & G1 & G2 & G3 & _).
  unfold from_raw, from_raw_with. rewrite G0, G1, G2, G3.
  cbn [le_bytes]. rewrite (le_val_bytes_4 v Hv), (le_val_bytes_4 f Hf), (le_val_bytes_8 c Hc).
  reflexivity.
Qed.

(* the first bytes of a written header are the magic: detect_version sees a v3 file *)
Lemma gen_magic_first h tail : h_magic h = gen_magic ->
  firstn 4 (to_raw h ++ tail) = gen_magic.
Proof.
  destruct h as [m v f c]; cbn [h_magic]. intros ->.
  destruct (magic4 gen_magic eq_refl) as (m0 & m1 & m2 & m3 & E). rewrite E.
  destruct (gen_read_fields m0 m1 m2 m3 v f c) as (_ & _ & _ & _ & HL & HF).
  set (raw := to_raw _) in *.
  assert (HL' : (4 <= length raw)%nat) by (unfold gen_header_size in HL; lia).
  rewrite firstn_app. replace (4 - length raw)%nat with 0%nat by lia.
  cbn [firstn]. rewrite app_nil_r. exact HF.
Qed.
