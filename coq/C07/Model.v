(* C07/Model.v -- executable model of the snapshot machinery of tensor_store.
   DEFINITIONS ONLY.  Sources mirrored (read them next to this file):
     snapshot.rs      SnapshotHeader::{to,from}_raw_bytes, validate, detect_version, load, load_v3,
                      save_v3_with_compression (temp file + rename)
     slab_router.rs   classify_key, put/get/delete/exists/scan, snapshot/restore, to_bytes/from_bytes
     entity_index.rs  append-only vocabulary with tombstones
     embedding_slab.rs CompressedEmbedding::{from_dense,to_dense}  (sparse rule, TT threshold)
     lib.rs           save_snapshot_compressed / load_snapshot_compressed (the "quantising" format)
     tensor_compress  format.rs compress_vector / looks_like_id_list, delta.rs delta_encode/decode
   Constants, layouts and operator choices come from gen/Gen_C07.v (regenerated every run). *)
From NV.Common Require Import Base.
From NV.C07 Require Import Types.
From NV.gen Require Import Gen_C07.
Open Scope N_scope.

(* ------------------------------------------------------------------ little endian *)
Fixpoint le_bytes (n : nat) (x : N) : list N :=
  match n with
  | O => []
  | S k => (x mod 256) :: le_bytes k (x / 256)
  end.
Fixpoint le_val (bs : list N) : N :=
  match bs with
  | [] => 0
  | b :: r => b + 256 * le_val r
  end.

(* ------------------------------------------------------------------ header codec *)
Record header := H { h_magic : list N; h_version : N; h_flags : N; h_count : N }.

Definition header_eqb (a b : header) : bool :=
  list_eqb N.eqb (h_magic a) (h_magic b) && N.eqb (h_version a) (h_version b)
  && N.eqb (h_flags a) (h_flags b) && N.eqb (h_count a) (h_count b).

(* bytes written for field f (0 magic, 1 version u32, 2 flags u32, 3 entry_count u64) *)
Definition field_bytes (h : header) (f : N) : list N :=
  match f with
  | 0 => h_magic h
  | 1 => le_bytes 4 (h_version h)
  | 2 => le_bytes 4 (h_flags h)
  | _ => le_bytes 8 (h_count h)
  end.

(* buf[a .. a+|bs|].copy_from_slice(bs) *)
Definition place (buf : list N) (a : nat) (bs : list N) : list N :=
  firstn a buf ++ bs ++ skipn (a + length bs) buf.

Definition to_raw_gen (hsize : N) (wl : list (N * N * N)) (fb : N -> list N) : list N :=
  fold_left (fun buf e => let '(f, a, _) := e in place buf (N.to_nat a) (fb f))
            wl (repeat 0 (N.to_nat hsize)).
Definition to_raw_with (hsize : N) (wl : list (N * N * N)) (h : header) : list N :=
  to_raw_gen hsize wl (field_bytes h).

Definition read_field (rl : list (N * list N)) (f : N) (buf : list N) : list N :=
  match aget rl f with
  | Some ix => map (fun i => nth (N.to_nat i) buf 0) ix
  | None => []
  end.

Definition from_raw_with (rl : list (N * list N)) (buf : list N) : header :=
  H (read_field rl 0 buf) (le_val (read_field rl 1 buf)) (le_val (read_field rl 2 buf))
    (le_val (read_field rl 3 buf)).

Definition to_raw := to_raw_with gen_header_size gen_write_layout.
Definition from_raw := from_raw_with gen_read_layout.

(* field ranges pairwise disjoint, inside the header, of the field's width *)
Definition field_width (f : N) : N := match f with 0 => 4 | 1 => 4 | 2 => 4 | _ => 8 end.
Definition range_ok (hsize : N) (e : N * N * N) : bool :=
  let '(f, a, b) := e in (a <=? b) && (b <=? hsize) && (b - a =? field_width f).
Definition ranges_disjoint (e1 e2 : N * N * N) : bool :=
  let '(_, a1, b1) := e1 in let '(_, a2, b2) := e2 in (b1 <=? a2) || (b2 <=? a1).
Fixpoint pairwise {A} (r : A -> A -> bool) (l : list A) : bool :=
  match l with
  | [] => true
  | x :: t => forallb (r x) t && pairwise r t
  end.
Definition layout_disjoint (hsize : N) (wl : list (N * N * N)) : bool :=
  forallb (range_ok hsize) wl && pairwise ranges_disjoint wl
  && list_eqb N.eqb (map (fun e => fst (fst e)) wl) [0; 1; 2; 3].

Definition new_header (compressed : bool) (count : N) : header :=
  H gen_magic gen_version (if compressed then gen_flag_compressed else 0) count.
Definition validate (h : header) : bool :=
  list_eqb N.eqb (h_magic h) gen_magic && N.eqb (h_version h) gen_version.
Definition is_compressed (h : header) : bool := negb (N.eqb (N.land (h_flags h) gen_flag_compressed) 0).

Definition header_wf (h : header) : Prop :=
  length (h_magic h) = 4%nat /\ Forall (fun b => b < 256) (h_magic h)
  /\ h_version h < 2 ^ 32 /\ h_flags h < 2 ^ 32 /\ h_count h < 2 ^ 64.

(* ------------------------------------------------------------------ paths and the file system *)
(* a path is its file stem plus optional extension ("snap", Some "bin" = snap.bin) *)
Record path := P { p_stem : str; p_ext : option str }.
Definition dot : N := 46.
Definition render (p : path) : str :=
  match p_ext p with
  | Some e => p_stem p ++ dot :: e
  | None => p_stem p
  end.
(* the sibling temp file: mode 0 = Path::with_extension(ext); mode 1 = file name + "." + ext *)
Definition temp_path_with (mode : N) (ext : str) (p : path) : path :=
  if N.eqb mode 0 then P (p_stem p) (Some ext) else P (render p) (Some ext).
Definition temp_path := temp_path_with gen_temp_mode gen_temp_ext.

Definition fs := str -> option bytes.
Definition fs_set (f : fs) (p : str) (c : option bytes) : fs :=
  fun q => if str_eqb q p then c else f q.
(* rename(2): atomic replacement; renaming a file onto itself does nothing *)
Definition fs_rename (f : fs) (t p : str) : fs :=
  if str_eqb t p then f
  else fun q => if str_eqb q p then f t else if str_eqb q t then None else f q.

(* The save protocol as the list of file-system steps found in the source (gen_save_steps_v3, gen_save_steps_quant):
   0 create/truncate temp, 1 write the content to temp, 2 fsync temp, 3 unlink the target,
   4 rename temp -> target, anything else = an unrecognised operation on the target (worst case:
   the target is truncated). *)
Definition sstep_fs (p t : str) (content : bytes) (f : fs) (s : N) : fs :=
  match s with
  | 0 => fs_set f t (Some [])
  | 1 => fs_set f t (Some content)
  | 2 => f
  | 3 => fs_set f p None
  | 4 => fs_rename f t p
  | _ => fs_set f p (Some [])
  end.
Definition run_steps (p t : str) (content : bytes) (f : fs) (steps : list N) : fs :=
  fold_left (sstep_fs p t content) steps f.

(* every state a crash can leave behind while `save` runs: between any two steps, and inside a
   write step with any prefix of the content in the temp file *)
Inductive save_state (steps : list N) (f : fs) (p t : str) (content : bytes) : fs -> Prop :=
| ss_between : forall n, save_state steps f p t content (run_steps p t content f (firstn n steps))
| ss_partial : forall n k, nth_error steps n = Some 1 -> (k <= length content)%nat ->
    save_state steps f p t content
      (fs_set (run_steps p t content f (firstn n steps)) t (Some (firstn k content))).

(* the protocol shape the atomicity theorem needs: only temp-file steps, the temp file complete at
   the end, then exactly one rename as the last step *)
Fixpoint temp_full (full : bool) (pre : list N) : bool :=
  match pre with
  | [] => full
  | 0 :: r => temp_full false r
  | 1 :: r => temp_full true r
  | 2 :: r => temp_full full r
  | _ => false
  end.
Definition steps_safe (steps : list N) : bool :=
  match rev steps with
  | l :: rpre => (l =? 4) && temp_full false (rev rpre)
  | [] => false
  end.

(* ------------------------------------------------------------------ loading (libraries = parameters) *)
Section Codec.
  Variable snap : Type.                          (* SlabRouterSnapshot *)
  Variable ser : snap -> bytes.                  (* bitcode::serialize *)
  Variable deser : bytes -> option snap.         (* bitcode::deserialize *)
  Variable zc : bytes -> bytes.                  (* zstd::encode_all *)
  Variable zd : bytes -> option bytes.           (* zstd::decode_all *)
  Variable load_v2 : bytes -> option snap.       (* legacy HashMap format *)

  Definition detect_v3 (b : bytes) : bool := list_eqb N.eqb (firstn 4 b) gen_magic.

  Definition load_v3 (b : bytes) : option snap :=
    let hs := N.to_nat gen_header_size in
    if (length b <? hs)%nat then None            (* read_exact fails *)
    else
      let h := from_raw (firstn hs b) in
      if validate h then
        let body := skipn hs b in
        if is_compressed h then
          match zd body with Some d => deser d | None => None end
        else deser body
      else None.

  Definition load_bytes (b : bytes) : option snap := if detect_v3 b then load_v3 b else load_v2 b.
  Definition load (f : fs) (p : str) : option snap :=
    match f p with Some b => load_bytes b | None => None end.

  Definition file_bytes (compress : bool) (count : N) (s : snap) : bytes :=
    to_raw (new_header compress count) ++ (if compress then zc (ser s) else ser s).
End Codec.

(* ------------------------------------------------------------------ f32 on bit patterns *)
Definition f32_abs (b : N) : N := N.land b 2147483647.
Definition f32_sign (b : N) : bool := N.testbit b 31.
Definition f32_exp (b : N) : N := N.land (N.shiftr b 23) 255.
Definition f32_man (b : N) : N := N.land b 8388607.
Definition f32_inf : N := 2139095040.            (* 0x7F800000 *)
Definition f32_is_nan (b : N) : bool := f32_inf <? f32_abs b.
Definition f32_is_zero (b : N) : bool := f32_abs b =? 0.
(* a < b as Rust compares f32 *)
Definition f32_ltb (a b : N) : bool :=
  if f32_is_nan a || f32_is_nan b then false
  else if f32_is_zero a && f32_is_zero b then false
  else match f32_sign a, f32_sign b with
       | false, false => a <? b
       | true, true => b <? a
       | true, false => true
       | false, true => false
       end.
Definition f32_neg (b : N) : bool := f32_ltb b 0.   (* v < 0.0 *)
(* v.fract() != 0.0   (NaN and infinities: fract is NaN, and NaN != 0.0 holds) *)
Definition f32_has_fract (b : N) : bool :=
  let e := f32_exp b in
  if e =? 255 then true
  else if e <? 127 then negb (f32_is_zero b)
  else if 150 <=? e then false
  else negb (N.land (f32_man b) (N.ones (150 - e)) =? 0).
Definition u64_max : N := 18446744073709551615.
(* `v as u64`: NaN -> 0, negative -> 0, truncation, saturation *)
Definition f32_to_u64 (b : N) : N :=
  if f32_is_nan b then 0
  else if f32_sign b then 0
  else
    let e := f32_exp b in
    if e <? 127 then 0
    else
      let m := f32_man b + 8388608 in
      if 150 <=? e then (if 191 <=? e then u64_max else N.min u64_max (N.shiftl m (e - 150)))
      else N.shiftr m (150 - e).
(* `x as f32` for u64 x: round to nearest, ties to even *)
Definition u64_to_f32 (x : N) : N :=
  if x =? 0 then 0
  else
    let k := N.log2 x in
    if k <=? 23 then (127 + k) * 8388608 + (N.shiftl x (23 - k) - 8388608)
    else
      let sh := k - 23 in
      let q := N.shiftr x sh in
      let rem := N.land x (N.ones sh) in
      let half := N.shiftl 1 (sh - 1) in
      let up := (half <? rem) || ((rem =? half) && N.odd q) in
      (127 + k) * 8388608 + (q - 8388608) + (if up then 1 else 0).

(* ------------------------------------------------------------------ embedding slab snapshot *)
Definition nzb (b : N) : bool :=
  let a := f32_abs b in (gen_sparse_eps_bits <? a) && (a <=? f32_inf).     (* v.abs() > eps *)
Definition nnz (v : list N) : N := N.of_nat (length (filter nzb v)).
Definition use_sparse (v : list N) : bool := nnz v * gen_sparse_factor <=? N.of_nat (length v).
(* which components the sparse form keeps: everything but +0.0 (repaired code), or only |v| > eps *)
Definition keepb (b : N) : bool := if gen_sparse_keep_exact then negb (b =? 0) else nzb b.
Definition clean (v : list N) : list N := map (fun x => if keepb x then x else 0) v.

Fixpoint sp_entries (i : nat) (v : list N) : list (nat * N) :=
  match v with
  | [] => []
  | x :: r => if keepb x then (i, x) :: sp_entries (S i) r else sp_entries (S i) r
  end.
Fixpoint upd (d : list N) (i : nat) (x : N) : list N :=
  match d, i with
  | [], _ => []
  | _ :: r, O => x :: r
  | y :: r, S j => y :: upd r j x
  end.
Definition scatter (d : list N) (es : list (nat * N)) : list N :=
  fold_left (fun d e => upd d (fst e) (snd e)) es d.

Section EmbSlab.
  Variable tt : Type.                              (* tensor_compress::TTVector *)
  Variable tt_dec : list N -> option tt.           (* TTConfig::for_dim + tt_decompose *)
  Variable tt_rec : tt -> list N.                  (* tt_reconstruct *)

  Inductive cemb := CEDense (v : list N) | CESparse (dim : nat) (es : list (nat * N)) | CETT (t : tt).

  Definition from_dense (v : list N) : cemb :=
    match v with
    | [] => CEDense []
    | _ =>
      if use_sparse v then CESparse (length v) (sp_entries 0 v)
      else if gen_tt_min_dim <=? N.of_nat (length v) then
        match tt_dec v with Some t => CETT t | None => CEDense v end
      else CEDense v
    end.
  Definition to_dense (c : cemb) : list N :=
    match c with
    | CEDense v => v
    | CESparse d es => scatter (repeat 0 d) es
    | CETT t => tt_rec t
    end.
  (* what one embedding looks like after EmbeddingSlab::snapshot + restore *)
  Definition rt_vec (v : list N) : list N := to_dense (from_dense v).
End EmbSlab.

(* ------------------------------------------------------------------ the router *)
Inductive kclass := KEmb | KGraph | KTable | KCache | KMeta.
Definition s_emb : str := [101; 109; 98; 58].           (* "emb:" *)
Definition s_node : str := [110; 111; 100; 101; 58].    (* "node:" *)
Definition s_edge : str := [101; 100; 103; 101; 58].    (* "edge:" *)
Definition s_table : str := [116; 97; 98; 108; 101; 58].  (* "table:" *)
Definition s_cache : str := [95; 99; 97; 99; 104; 101; 58]. (* "_cache:" *)
Definition s_embedding : str := [95; 101; 109; 98; 101; 100; 100; 105; 110; 103]. (* "_embedding" *)
Definition classify (k : str) : kclass :=
  if starts_with s_emb k then KEmb
  else if starts_with s_node k || starts_with s_edge k then KGraph
  else if starts_with s_table k then KTable
  else if starts_with s_cache k then KCache
  else KMeta.

Fixpoint str_ltb (a b : str) : bool :=
  match a, b with
  | [], [] => false
  | [], _ :: _ => true
  | _ :: _, [] => false
  | x :: a', y :: b' => if x <? y then true else if y <? x then false else str_ltb a' b'
  end.
(* TensorData::set on a name-sorted field list *)
Fixpoint tset (d : tdata) (k : str) (v : tval) : tdata :=
  match d with
  | [] => [(k, v)]
  | (k', v') :: r =>
      if str_eqb k' k then (k, v) :: r
      else if str_ltb k k' then (k, v) :: (k', v') :: r
      else (k', v') :: tset r k v
  end.
Fixpoint sorted_insert (l : list str) (k : str) : list str :=
  match l with
  | [] => [k]
  | k' :: r => if str_eqb k' k then l else if str_ltb k k' then k :: l else k' :: sorted_insert r k
  end.

Record router := R {
  r_dim : N;                          (* EmbeddingSlab dimension *)
  r_meta : list (str * tdata);        (* MetadataSlab (all shards) *)
  r_cache : list (str * tdata);       (* CacheRing (capacity never reached) *)
  r_vocab : list str;                 (* EntityIndex vocabulary: position = id *)
  r_tomb : list N;                    (* tombstoned ids *)
  r_emb : list (N * list N)           (* EmbeddingSlab: id -> vector *)
}.
Definition empty_router (dim : N) : router := R dim [] [] [] [] [].

Definition is_tomb (r : router) (id : N) : bool := existsb (N.eqb id) (r_tomb r).
Fixpoint find_live (voc : list str) (i : N) (tomb : list N) (k : str) : option N :=
  match voc with
  | [] => None
  | k' :: rest =>
      if str_eqb k' k && negb (existsb (N.eqb i) tomb) then Some i
      else find_live rest (N.succ i) tomb k
  end.
Definition idx_get (r : router) (k : str) : option N := find_live (r_vocab r) 0 (r_tomb r) k.
Definition idx_live_count (r : router) : N :=
  N.of_nat (length (r_vocab r)) - N.of_nat (length (r_tomb r)).

Definition with_meta (r : router) (m : list (str * tdata)) : router :=
  R (r_dim r) m (r_cache r) (r_vocab r) (r_tomb r) (r_emb r).
Definition with_cache (r : router) (c : list (str * tdata)) : router :=
  R (r_dim r) (r_meta r) c (r_vocab r) (r_tomb r) (r_emb r).
Definition with_emb (r : router) (e : list (N * list N)) : router :=
  R (r_dim r) (r_meta r) (r_cache r) (r_vocab r) (r_tomb r) e.

Definition get_or_create (r : router) (k : str) : router * N :=
  match idx_get r k with
  | Some id => (r, id)
  | None => (R (r_dim r) (r_meta r) (r_cache r) (r_vocab r ++ [k]) (r_tomb r) (r_emb r),
             N.of_nat (length (r_vocab r)))
  end.

Definition put (r : router) (k : str) (v : tdata) : router :=
  match classify k with
  | KEmb =>
      let '(r1, id) := get_or_create r k in
      let stale := if gen_put_drops_stale_vector then with_emb r1 (adel (r_emb r1) id) else r1 in
      let r2 := match sget v s_embedding with
                | Some (TVec vec) =>
                    if N.of_nat (length vec) =? r_dim r then with_emb r1 (aset (r_emb r1) id vec) else stale
                | _ => stale
                end in
      with_meta r2 (sset (r_meta r2) k v)
  | KCache => with_cache r (sset (r_cache r) k v)
  | _ => with_meta r (sset (r_meta r) k v)
  end.

Definition get (r : router) (k : str) : option tdata :=
  match classify k with
  | KEmb =>
      match idx_get r k with
      | Some id =>
          match aget (r_emb r) id with
          | Some vec =>
              Some (tset (match sget (r_meta r) k with Some d => d | None => [] end) s_embedding (TVec vec))
          | None => sget (r_meta r) k
          end
      | None => sget (r_meta r) k
      end
  | KCache => sget (r_cache r) k
  | _ => sget (r_meta r) k
  end.

Definition has {V} (l : list (str * V)) (k : str) : bool :=
  match sget l k with Some _ => true | None => false end.
Definition exists_ (r : router) (k : str) : bool :=
  match classify k with
  | KEmb => (match idx_get r k with Some _ => true | None => false end) || has (r_meta r) k
  | KCache => has (r_cache r) k
  | _ => has (r_meta r) k
  end.

(* returns (router, found) *)
Definition delete (r : router) (k : str) : router * bool :=
  if negb (exists_ r k) then (r, false)
  else
    match classify k with
    | KEmb =>
        let r1 := match idx_get r k with
                  | Some id => R (r_dim r) (r_meta r) (r_cache r) (r_vocab r) (id :: r_tomb r) (adel (r_emb r) id)
                  | None => r
                  end in
        (with_meta r1 (sdel (r_meta r1) k), true)
    | KCache => (with_cache r (sdel (r_cache r) k), true)
    | _ => (with_meta r (sdel (r_meta r) k), true)
    end.

Fixpoint live_keys (voc : list str) (i : N) (tomb : list N) : list str :=
  match voc with
  | [] => []
  | k :: rest => if existsb (N.eqb i) tomb then live_keys rest (N.succ i) tomb
                 else k :: live_keys rest (N.succ i) tomb
  end.
(* SlabRouter::scan as a sorted duplicate-free list *)
Definition scan (r : router) (prefix : str) : list str :=
  let ks := map fst (r_meta r) ++ live_keys (r_vocab r) 0 (r_tomb r) ++ map fst (r_cache r) in
  fold_left sorted_insert (filter (starts_with prefix) ks) [].

Definition entry_count (r : router) : N :=
  N.of_nat (length (r_meta r)) + N.of_nat (length (r_cache r)) + idx_live_count r.

Inductive sop := OPut (k : str) (v : tdata) | ODelete (k : str).
Definition apply_op (r : router) (o : sop) : router :=
  match o with
  | OPut k v => put r k v
  | ODelete k => fst (delete r k)
  end.
Definition run_ops (r : router) (ops : list sop) : router := fold_left apply_op ops r.

Definition dump (r : router) : list (str * option tdata) := map (fun k => (k, get r k)) (scan r []).

(* SlabRouter::snapshot then SlabRouter::restore: every slab is carried over as data, except that
   each stored embedding passes through CompressedEmbedding::from_dense / to_dense *)
Definition rt_router (rtv : list N -> list N) (r : router) : router :=
  with_emb r (map (fun e => (fst e, rtv (snd e))) (r_emb r)).

(* ------------------------------------------------------------------ the quantising ("compressed") format *)
Inductive cscalar := CInt (z : Z) | CFloat (bits : N) | CStr (s : str) | CBool (b : bool) | CNull.
Inductive cval :=
| CScalar (s : cscalar)
| CVecRaw (v : list N)
| CIdList (deltas : list N)        (* delta encoded u64s (the varint layer is a lossless codec: C20) *)
| CPtr (p : str)
| CPtrs (ps : list str).

Definition two64 : N := 18446744073709551616.
Definition dsub (a b : N) : N :=                       (* b - a on u64 *)
  if gen_delta_wrapping then (b + two64 - a) mod two64 else b - a (* saturating *).
Fixpoint delta_enc_from (prev : N) (ids : list N) : list N :=
  match ids with
  | [] => []
  | x :: r => dsub prev x :: delta_enc_from x r
  end.
Definition delta_encode (ids : list N) : list N :=
  match ids with
  | [] => []
  | x :: r => x :: delta_enc_from x r
  end.
Fixpoint delta_dec_from (cur : N) (ds : list N) : list N :=
  match ds with
  | [] => []
  | d :: r => let c := (cur + d) mod two64 in c :: delta_dec_from c r
  end.
Definition delta_decode (ds : list N) : list N :=
  match ds with
  | [] => []
  | x :: r => x :: delta_dec_from x r
  end.

(* a value the f32 -> u64 -> f32 cast of the id path gives back: a non-negative integer below 2^64 *)
Definition id_exact (b : N) : bool := negb (f32_sign b) && negb (f32_has_fract b) && (f32_exp b <? 191).
(* `guard` = looks_like_id_list admits only id_exact values (repaired code); without it: by name
   unconditionally, by shape every non-negative integer-valued non-decreasing vector *)
Definition id_elem_ok (guard : bool) (x : N) : bool :=
  if guard then id_exact x else negb (f32_neg x) && negb (f32_has_fract x).
Fixpoint id_chain (guard : bool) (prev : N) (v : list N) : bool :=
  match v with
  | [] => true
  | x :: r => negb (f32_ltb x prev) && id_elem_ok guard x && id_chain guard x r
  end.
Definition looks_like_id_list_with (guard : bool) (v : list N) (fname : str) : bool :=
  if str_eqb fname gen_id_name || ends_with gen_id_suffix fname then (if guard then forallb id_exact v else true)
  else match v with
       | x :: _ :: _ => id_elem_ok guard x && id_chain guard x (tl v)
       | _ => false
       end.
Definition looks_like_id_list := looks_like_id_list_with gen_id_exact_guard.

(* decimal digits of a length *)
Fixpoint dec_digits (fuel : nat) (n : N) (acc : str) : str :=
  match fuel with
  | O => acc
  | S f => let acc' := (48 + n mod 10) :: acc in if n <? 10 then acc' else dec_digits f (n / 10) acc'
  end.
Definition s_bytes_colon : str := [98; 121; 116; 101; 115; 58].   (* "bytes:" *)

(* SparseVector::to_dense *)
Definition sparse_dense (dim : N) (pos vals : list N) : list N :=
  scatter (repeat 0 (N.to_nat dim)) (combine (map N.to_nat pos) vals).

(* compress_vector with tensor_mode = None (TT quantisation is outside this model) *)
Definition compress_vector_with (guard delta : bool) (v : list N) (fname : str) : cval :=
  if delta && looks_like_id_list_with guard v fname then CIdList (delta_encode (map f32_to_u64 v))
  else CVecRaw v.
Definition compress_vector := compress_vector_with gen_id_exact_guard.

Definition cmap_with (guard delta : bool) (fname : str) (v : tval) : cval :=
  match v with
  | TScalar SNull => CScalar CNull
  | TScalar (SBool b) => CScalar (CBool b)
  | TScalar (SInt z) => CScalar (CInt z)
  | TScalar (SFloat f) => CScalar (CFloat f)
  | TScalar (SStr s) => CScalar (CStr s)
  | TScalar (SBytes bs) =>
      if gen_bytes_as_len_string
      then CScalar (CStr (s_bytes_colon ++ dec_digits 25 (N.of_nat (length bs)) []))
      else CScalar (CStr bs)   (* placeholder for an unknown future mapping: forces a mismatch *)
  | TVec v => compress_vector_with guard delta v fname
  | TSparse d p vs => compress_vector_with guard delta (sparse_dense d p vs) fname
  | TPtr p => CPtr p
  | TPtrs ps => CPtrs ps
  end.
Definition cmap := cmap_with gen_id_exact_guard.
Definition cunmap (c : cval) : tval :=
  match c with
  | CScalar CNull => TScalar SNull
  | CScalar (CBool b) => TScalar (SBool b)
  | CScalar (CInt z) => TScalar (SInt z)
  | CScalar (CFloat f) => TScalar (SFloat f)
  | CScalar (CStr s) => TScalar (SStr s)
  | CVecRaw v => TVec v
  | CIdList ds => TVec (map u64_to_f32 (delta_decode ds))
  | CPtr p => TPtr p
  | CPtrs ps => TPtrs ps
  end.
Definition q_field (delta : bool) (f : str * tval) : str * tval := (fst f, cunmap (cmap delta (fst f) (snd f))).
Definition q_tdata (delta : bool) (d : tdata) : tdata := map (q_field delta) d.

(* save_snapshot_compressed + load_snapshot_compressed on a store: every key of scan(""), read
   through get, each field mapped, and put into a fresh store *)
Definition q_roundtrip (delta : bool) (r : router) : router :=
  fold_left (fun acc e => match snd e with
                          | Some d => put acc (fst e) (q_tdata delta d)
                          | None => acc
                          end)
            (dump r) (empty_router (r_dim r)).

(* ------------------------------------------------------------------ property-level equality through the quantising format *)
Definition dense_of (v : tval) : option (list N) :=
  match v with
  | TVec x => Some x
  | TSparse d p vs => Some (sparse_dense d p vs)
  | _ => None
  end.
Definition elem_close (x y : N) : bool := N.eqb x y || (f32_is_zero x && f32_is_zero y).
Definition vec_close (a b : list N) : bool := list_eqb elem_close a b.
(* exact, except that a vector payload is compared numerically in dense form (the quantisation
   error configured with tensor_mode = None is zero) *)
Definition q_equal (x y : tval) : bool :=
  match dense_of x, dense_of y with
  | Some a, Some b => vec_close a b
  | _, _ => tval_eqb x y
  end.
(* the f32 -> u64 -> f32 cast of the id-list path gives the value back *)
Definition cast_ok (b : N) : bool := elem_close b (u64_to_f32 (f32_to_u64 b)).
Definition is_bytes_scalar (v : tval) : bool :=
  match v with TScalar (SBytes _) => true | _ => false end.
Definition id_path_lossy_with (guard delta : bool) (fname : str) (v : tval) : bool :=
  match dense_of v with
  | Some d => delta && looks_like_id_list_with guard d fname && negb (forallb cast_ok d)
  | None => false
  end.
Definition id_path_lossy := id_path_lossy_with gen_id_exact_guard.
(* the two known-finding classes of the quantising format *)
Definition quant_known_with (guard delta : bool) (fname : str) (v : tval) : bool :=
  is_bytes_scalar v || id_path_lossy_with guard delta fname v.
Definition quant_known := quant_known_with gen_id_exact_guard.

