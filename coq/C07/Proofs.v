(* C07/Proofs.v -- lemmas for the snapshot properties (all stores, all crash points). *)
From NV.Common Require Import Base.
From NV.C07 Require Import Types Model Inst.
From NV.gen Require Import Gen_C07.
Open Scope N_scope.

(* ------------------------------------------------------------------ strings *)
Lemma Neqb_iff x y : N.eqb x y = true <-> x = y.
Proof. apply N.eqb_eq. Qed.

Lemma str_eqb_eq a b : str_eqb a b = true <-> a = b.
Proof. apply list_eqb_spec. exact Neqb_iff. Qed.

Lemma str_eqb_refl a : str_eqb a a = true.
Proof. apply str_eqb_eq. reflexivity. Qed.

Lemma list_eqb_length {A} (e : A -> A -> bool) l1 l2 :
  list_eqb e l1 l2 = true -> length l1 = length l2.
Proof.
  revert l2. induction l1 as [|x xs IH]; destruct l2 as [|y ys]; cbn; intros E; try discriminate.
  - reflexivity.
  - apply andb_true_iff in E. destruct E as [_ E]. f_equal. apply IH. exact E.
Qed.

Lemma str_eqb_neq a b : a <> b -> str_eqb a b = false.
Proof.
  intros Hne. destruct (str_eqb a b) eqn:E; [|reflexivity].
  apply str_eqb_eq in E. contradiction.
Qed.

(* ------------------------------------------------------------------ the temp file is a sibling *)
(* per-run: holds for the rule found in the source (mode 1: file name + "." + ext) *)
Lemma temp_is_sibling p : str_eqb (render (temp_path p)) (render p) = false.
Proof.
  apply str_eqb_neq. unfold temp_path, temp_path_with.
  change (N.eqb gen_temp_mode 0) with false. cbn [render p_ext p_stem].
  intros E. apply (f_equal (@length N)) in E. rewrite app_length in E. cbn [length] in E. lia.
Qed.

(* ------------------------------------------------------------------ crash atomicity at the byte level *)
Lemma fs_set_other f t c p : str_eqb p t = false -> fs_set f t c p = f p.
Proof. intros E. unfold fs_set. rewrite E. reflexivity. Qed.

Lemma fs_set_same f t c : fs_set f t c t = c.
Proof. unfold fs_set. rewrite str_eqb_refl. reflexivity. Qed.

Lemma str_eqb_sym_false a b : str_eqb a b = false -> str_eqb b a = false.
Proof.
  intros H. destruct (str_eqb b a) eqn:E; [|reflexivity]. apply str_eqb_eq in E. subst.
  rewrite str_eqb_refl in H. discriminate.
Qed.

Definition all_temp (pre : list N) : bool := forallb (fun s => s <? 3) pre.

Lemma temp_full_cons full s r :
  temp_full full (s :: r) =
  if s =? 0 then temp_full false r else if s =? 1 then temp_full true r
  else if s =? 2 then temp_full full r else false.
Proof. destruct s as [|[[q|q|]|[q|q|]|]]; reflexivity. Qed.

Lemma sstep_temp p t content f s : s <? 3 = true ->
  sstep_fs p t content f s =
  if s =? 0 then fs_set f t (Some []) else if s =? 1 then fs_set f t (Some content) else f.
Proof. destruct s as [|[[q|q|]|[q|q|]|]]; try reflexivity; cbn; discriminate. Qed.

Lemma temp_full_all pre : forall full, temp_full full pre = true -> all_temp pre = true.
Proof.
  induction pre as [|s r IH]; intros full H; [reflexivity|]. rewrite temp_full_cons in H.
  cbn [all_temp forallb]. fold (all_temp r).
  destruct (N.eqb_spec s 0) as [->|]; [rewrite (IH _ H); reflexivity|].
  destruct (N.eqb_spec s 1) as [->|]; [rewrite (IH _ H); reflexivity|].
  destruct (N.eqb_spec s 2) as [->|]; [rewrite (IH _ H); reflexivity|discriminate].
Qed.

Lemma all_temp_firstn n pre : all_temp pre = true -> all_temp (firstn n pre) = true.
Proof.
  revert n. induction pre as [|s r IH]; intros n H; destruct n; try reflexivity.
  cbn [firstn all_temp forallb] in *. apply andb_true_iff in H. destruct H as [H1 H2].
  rewrite H1. cbn. apply IH. exact H2.
Qed.

Section Protocol.
  Variables (p t : str) (content : bytes).
  Hypothesis Htp : str_eqb t p = false.

  Lemma Hpt : str_eqb p t = false.
  Proof. apply str_eqb_sym_false. exact Htp. Qed.

  (* temp-file steps never touch the target *)
  Lemma temp_steps_target pre : forall f, all_temp pre = true -> run_steps p t content f pre p = f p.
  Proof.
    induction pre as [|s r IH]; intros f H; [reflexivity|].
    cbn [all_temp forallb] in H. apply andb_true_iff in H. destruct H as [Hs Hr].
    cbn [run_steps fold_left]. fold (run_steps p t content (sstep_fs p t content f s) r).
    rewrite (IH _ Hr). rewrite (sstep_temp p t content f s Hs).
    destruct (s =? 0); [apply fs_set_other; exact Hpt|].
    destruct (s =? 1); [apply fs_set_other; exact Hpt|reflexivity].
  Qed.

  (* ... and leave the temp file complete when temp_full says so *)
  Lemma temp_steps_full pre : forall full f,
    temp_full full pre = true -> (full = true -> f t = Some content) ->
    run_steps p t content f pre t = Some content.
  Proof.
    induction pre as [|s r IH]; intros full f Hf Hc.
    - cbn in *. apply Hc. exact Hf.
    - pose proof (temp_full_all _ _ Hf) as Ha. cbn [all_temp forallb] in Ha.
      apply andb_true_iff in Ha. destruct Ha as [Hs _].
      rewrite temp_full_cons in Hf. cbn [run_steps fold_left].
      fold (run_steps p t content (sstep_fs p t content f s) r). rewrite (sstep_temp p t content f s Hs).
      destruct (s =? 0); [apply (IH false _ Hf); discriminate|].
      destruct (s =? 1); [apply (IH true _ Hf); intros _; apply fs_set_same|].
      destruct (s =? 2); [apply (IH full f Hf Hc)|discriminate].
  Qed.

  Lemma run_steps_app f l1 l2 :
    run_steps p t content f (l1 ++ l2) = run_steps p t content (run_steps p t content f l1) l2.
  Proof. unfold run_steps. apply fold_left_app. Qed.

  Lemma crash_atomic_bytes steps f f' :
    steps_safe steps = true ->
    save_state steps f p t content f' ->
    f' p = f p \/ f' p = Some content.
  Proof.
    unfold steps_safe. intros Hs HS.
    destruct (rev steps) as [|l rpre] eqn:R; [discriminate|].
    apply andb_true_iff in Hs. destruct Hs as [Hl Hs]. apply N.eqb_eq in Hl. subst l.
    assert (Hsteps : steps = rev rpre ++ [4]).
    { rewrite <- (rev_involutive steps), R. reflexivity. }
    set (pre := rev rpre) in *. pose proof (temp_full_all pre false Hs) as Hall.
    assert (Hlen : length steps = S (length pre)) by (rewrite Hsteps, app_length; cbn; lia).
    destruct HS as [n|n k Hn Hk].
    - destruct (Nat.le_gt_cases n (length pre)) as [Hle|Hgt].
      + left. rewrite Hsteps, firstn_app. replace (n - length pre)%nat with 0%nat by lia.
        cbn [firstn]. rewrite app_nil_r. apply temp_steps_target. apply all_temp_firstn. exact Hall.
      + right. rewrite firstn_all2 by lia. rewrite Hsteps, run_steps_app.
        cbn [run_steps fold_left sstep_fs]. unfold fs_rename. rewrite Htp, str_eqb_refl.
        apply (temp_steps_full pre false f Hs). discriminate.
    - left. assert (Hlt : (n < length pre)%nat).
      { assert (n < length steps)%nat by (apply nth_error_Some; rewrite Hn; discriminate).
        destruct (Nat.eq_dec n (length pre)) as [->|]; [|lia].
        rewrite Hsteps, nth_error_app2, Nat.sub_diag in Hn by lia. discriminate. }
      rewrite fs_set_other by exact Hpt.
      rewrite Hsteps, firstn_app. replace (n - length pre)%nat with 0%nat by lia.
      cbn [firstn]. rewrite app_nil_r. apply temp_steps_target. apply all_temp_firstn. exact Hall.
  Qed.
End Protocol.

(* the old rule (Path::with_extension) is NOT safe: a path that already has the temp extension *)
Definition tmp_s : str := [116; 109; 112].
Lemma crash_refuted_with_extension :
  exists (f : fs) (p : path) (content : bytes) (f' : fs),
    save_state [0; 1; 4] f (render p) (render (temp_path_with 0 tmp_s p)) content f'
    /\ f' (render p) <> f (render p) /\ f' (render p) <> Some content.
Proof.
  exists (fun q => if str_eqb q [115; 46; 116; 109; 112] then Some [1; 2; 3] else None),
         (P [115] (Some tmp_s)), [7; 8; 9; 10]. eexists. split.
  - apply (ss_partial _ _ _ _ _ 1%nat 2%nat); [reflexivity|cbn; lia].
  - split; vm_compute; discriminate.
Qed.

(* a protocol that unlinks the target before the rename is NOT safe even with a proper sibling temp
   file: between the two steps the path holds neither snapshot *)
Lemma crash_refuted_unlink_first :
  exists (f : fs) (p t : str) (content : bytes) (f' : fs),
    str_eqb t p = false /\ save_state [0; 1; 3; 4] f p t content f'
    /\ f' p <> f p /\ f' p <> Some content.
Proof.
  exists (fun q => if str_eqb q [115] then Some [1; 2; 3] else None), [115], [115; 46; 116], [7; 8; 9; 10].
  eexists. split; [reflexivity|]. split.
  - apply (ss_between _ _ _ _ _ 3%nat).
  - split; vm_compute; discriminate.
Qed.

(* ------------------------------------------------------------------ loading *)
Section CodecFacts.
  Variable snap : Type.
  Variable ser : snap -> bytes.
  Variable deser : bytes -> option snap.
  Variable zc : bytes -> bytes.
  Variable zd : bytes -> option bytes.
  Variable load_v2 : bytes -> option snap.
  Hypothesis deser_ser : forall s, deser (ser s) = Some s.
  Hypothesis zd_zc : forall b, zd (zc b) = Some b.

  Lemma new_header_wf c n : n < 2 ^ 64 -> header_wf (new_header c n).
  Proof.
    intros Hn. unfold header_wf, new_header; cbn [h_magic h_version h_flags h_count].
    repeat split; try exact Hn.
    - repeat constructor.
    - destruct c; reflexivity.
  Qed.

  Lemma is_compressed_new c n : is_compressed (new_header c n) = c.
  Proof. destruct c; reflexivity. Qed.

  Lemma validate_new c n : validate (new_header c n) = true.
  Proof. reflexivity. Qed.

  Lemma load_written h body :
    header_wf h -> validate h = true ->
    load_bytes snap deser zd load_v2 (to_raw h ++ body) =
    if is_compressed h then match zd body with Some d => deser d | None => None end else deser body.
  Proof.
    intros Hwf Hv. unfold load_bytes, detect_v3.
    assert (Hm : h_magic h = gen_magic).
    { unfold validate in Hv. apply andb_true_iff in Hv. destruct Hv as [Hv _].
      apply (list_eqb_spec N.eqb Neqb_iff) in Hv. exact Hv. }
    rewrite (gen_magic_first h body Hm).
    replace (list_eqb N.eqb gen_magic gen_magic) with true by reflexivity.
    unfold load_v3.
    assert (HL : length (to_raw h) = N.to_nat gen_header_size).
    { destruct Hwf as (Hlen & _). pose proof (gen_header_length h Hlen) as E. lia. }
    assert (Hlt : (length (to_raw h ++ body) <? N.to_nat gen_header_size)%nat = false).
    { apply Nat.ltb_ge. rewrite app_length. lia. }
    rewrite Hlt.
    rewrite firstn_app, <- HL, firstn_all, Nat.sub_diag. cbn [firstn]. rewrite app_nil_r.
    rewrite (gen_header_roundtrip h Hwf). rewrite Hv.
    rewrite skipn_app, skipn_all, Nat.sub_diag. cbn [skipn app]. reflexivity.
  Qed.

  Lemma file_roundtrip c n s : n < 2 ^ 64 ->
    load_bytes snap deser zd load_v2 (file_bytes snap ser zc c n s) = Some s.
  Proof.
    intros Hn. unfold file_bytes.
    rewrite (load_written (new_header c n) _ (new_header_wf c n Hn) (validate_new c n)).
    rewrite is_compressed_new. destruct c.
    - rewrite zd_zc. apply deser_ser.
    - apply deser_ser.
  Qed.

  Lemma bad_header_rejected b :
    validate (from_raw (firstn (N.to_nat gen_header_size) b)) = false ->
    load_v3 snap deser zd b = None.
  Proof.
    intros Hv. unfold load_v3. destruct (length b <? N.to_nat gen_header_size)%nat; [reflexivity|].
    rewrite Hv. reflexivity.
  Qed.

  Lemma short_file_rejected b :
    (length b < N.to_nat gen_header_size)%nat -> load_v3 snap deser zd b = None.
  Proof.
    intros Hl. unfold load_v3. apply Nat.ltb_lt in Hl. rewrite Hl. reflexivity.
  Qed.

  (* crash atomicity at the level of what `load` returns *)
  Lemma crash_atomic_load steps f p content f' :
    steps_safe steps = true ->
    save_state steps f (render p) (render (temp_path p)) content f' ->
    load snap deser zd load_v2 f' (render p) = load snap deser zd load_v2 f (render p)
    \/ load snap deser zd load_v2 f' (render p) = load_bytes snap deser zd load_v2 content.
  Proof.
    intros Hs HS.
    destruct (crash_atomic_bytes _ _ _ (temp_is_sibling p) steps f f' Hs HS) as [E|E];
      unfold load; rewrite E; [left|right]; reflexivity.
  Qed.
End CodecFacts.

(* ------------------------------------------------------------------ embedding slab: sparse form is lossless *)
Lemma upd_app_here pre x y r : upd (pre ++ y :: r) (length pre) x = pre ++ x :: r.
Proof. induction pre as [|a pre IH]; cbn; [reflexivity|]. rewrite IH. reflexivity. Qed.

Lemma scatter_entries pre v :
  scatter (pre ++ repeat 0 (length v)) (sp_entries (length pre) v) = pre ++ clean v.
Proof.
  revert pre. induction v as [|x r IH]; intros pre; cbn [sp_entries length repeat clean map].
  - reflexivity.
  - destruct (keepb x) eqn:K.
    + unfold scatter. cbn [fold_left fst snd]. rewrite upd_app_here.
      change (pre ++ x :: repeat 0 (length r)) with (pre ++ [x] ++ repeat 0 (length r)).
      rewrite app_assoc.
      replace (S (length pre)) with (length (pre ++ [x])) by (rewrite app_length; cbn; lia).
      fold (scatter ((pre ++ [x]) ++ repeat 0 (length r)) (sp_entries (length (pre ++ [x])) r)).
      rewrite IH. rewrite <- app_assoc. reflexivity.
    + change (pre ++ 0 :: repeat 0 (length r)) with (pre ++ [0] ++ repeat 0 (length r)).
      rewrite app_assoc.
      replace (S (length pre)) with (length (pre ++ [0])) by (rewrite app_length; cbn; lia).
      rewrite IH. rewrite <- app_assoc. reflexivity.
Qed.

(* per-run: with the repaired keep rule nothing is rewritten *)
Lemma clean_id v : clean v = v.
Proof.
  unfold clean, keepb. change gen_sparse_keep_exact with true.
  induction v as [|x r IH]; cbn [map]; [reflexivity|]. rewrite IH.
  destruct (N.eqb_spec x 0) as [->|]; reflexivity.
Qed.

Section EmbFacts.
  Variable tt : Type.
  Variable tt_dec : list N -> option tt.
  Variable tt_rec : tt -> list N.

  Lemma rt_vec_exact v :
    N.of_nat (length v) < gen_tt_min_dim \/ use_sparse v = true ->
    rt_vec tt tt_dec tt_rec v = v.
  Proof.
    intros Hc. unfold rt_vec, from_dense. destruct v as [|x r]; [reflexivity|].
    set (v := x :: r) in *.
    destruct (use_sparse v) eqn:US.
    - cbn [to_dense]. pose proof (scatter_entries [] v) as S0. cbn [app length] in S0.
      rewrite S0. apply clean_id.
    - destruct Hc as [Hlt|Hs]; [|discriminate].
      apply N.leb_gt in Hlt. rewrite Hlt. reflexivity.
  Qed.
End EmbFacts.

(* ------------------------------------------------------------------ the store after snapshot + restore *)
Lemma map_id_on {A} (g : A -> A) l : (forall x, In x l -> g x = x) -> map g l = l.
Proof.
  induction l as [|a l IH]; cbn; intros Hg; [reflexivity|].
  rewrite Hg by (left; reflexivity). rewrite IH; [reflexivity|]. intros x Hx. apply Hg. right. exact Hx.
Qed.

Lemma rt_router_id rtv r :
  (forall id vec, In (id, vec) (r_emb r) -> rtv vec = vec) -> rt_router rtv r = r.
Proof.
  intros Hx. unfold rt_router, with_emb. destruct r as [d m c v t e]; cbn [r_dim r_meta r_cache r_vocab r_tomb r_emb] in *.
  f_equal. apply map_id_on. intros [id vec] Hin. cbn [fst snd]. rewrite (Hx id vec Hin). reflexivity.
Qed.

(* every stored embedding is below the TT threshold or sparse => the reloaded store IS the store *)
Lemma store_roundtrip tt tt_dec tt_rec r :
  (forall id vec, In (id, vec) (r_emb r) ->
     N.of_nat (length vec) < gen_tt_min_dim \/ use_sparse vec = true) ->
  rt_router (rt_vec tt tt_dec tt_rec) r = r.
Proof.
  intros Hs. apply rt_router_id. intros id vec Hin. apply rt_vec_exact. exact (Hs id vec Hin).
Qed.

(* ------------------------------------------------------------------ the quantising format *)
Lemma list_eqb_refl {A} (e : A -> A -> bool) l : (forall x, e x x = true) -> list_eqb e l l = true.
Proof. intros He. induction l as [|x r IH]; cbn; [reflexivity|]. rewrite He, IH. reflexivity. Qed.

Lemma elem_close_refl x : elem_close x x = true.
Proof. unfold elem_close. rewrite N.eqb_refl. reflexivity. Qed.

Lemma vec_close_refl v : vec_close v v = true.
Proof. apply list_eqb_refl. exact elem_close_refl. Qed.

Lemma scalar_eqb_refl s : scalar_eqb s s = true.
Proof.
  destruct s; cbn; try reflexivity.
  - destruct b; reflexivity.
  - apply Z.eqb_refl.
  - apply N.eqb_refl.
  - apply str_eqb_refl.
  - apply list_eqb_refl. exact N.eqb_refl.
Qed.

Lemma tval_eqb_refl v : tval_eqb v v = true.
Proof.
  destruct v; cbn.
  - apply scalar_eqb_refl.
  - apply list_eqb_refl. exact N.eqb_refl.
  - rewrite N.eqb_refl. rewrite !(list_eqb_refl N.eqb) by exact N.eqb_refl. reflexivity.
  - apply str_eqb_refl.
  - apply list_eqb_refl. exact str_eqb_refl.
Qed.

(* delta coding on u64 with the operator found in delta.rs (wrapping) is lossless *)
Lemma delta_step a b : a < two64 -> b < two64 -> (a + dsub a b) mod two64 = b.
Proof.
  intros Ha Hb. unfold dsub. change gen_delta_wrapping with true. cbv iota. unfold two64 in *.
  Ltac Zify.zify_post_hook ::= Z.div_mod_to_equations. lia.
Qed.

Lemma delta_from_roundtrip prev ids :
  prev < two64 -> Forall (fun x => x < two64) ids ->
  delta_dec_from prev (delta_enc_from prev ids) = ids.
Proof.
  revert prev. induction ids as [|x r IH]; intros prev Hp Hall; cbn [delta_enc_from delta_dec_from].
  - reflexivity.
  - inversion Hall as [|? ? Hx Hr]; subst. cbv zeta. rewrite (delta_step prev x Hp Hx).
    f_equal. apply IH; assumption.
Qed.

Lemma delta_roundtrip ids :
  Forall (fun x => x < two64) ids -> delta_decode (delta_encode ids) = ids.
Proof.
  destruct ids as [|x r]; intros Hall; cbn [delta_encode delta_decode]; [reflexivity|].
  inversion Hall as [|? ? Hx Hr]; subst. f_equal. apply delta_from_roundtrip; assumption.
Qed.

Lemma f32_man_lt b : f32_man b < 8388608.
Proof.
  unfold f32_man. change 8388607 with (N.ones 23). rewrite N.land_ones.
  change 8388608 with (2 ^ 23). apply N.mod_lt. discriminate.
Qed.

Lemma f32_to_u64_lt b : f32_to_u64 b < two64.
Proof.
  unfold f32_to_u64, two64, u64_max.
  destruct (f32_is_nan b); [lia|]. destruct (f32_sign b); [lia|].
  destruct (f32_exp b <? 127); [lia|].
  destruct (150 <=? f32_exp b).
  - destruct (191 <=? f32_exp b); [lia|].
    pose proof (N.le_min_l 18446744073709551615 (N.shiftl (f32_man b + 8388608) (f32_exp b - 150))). lia.
  - rewrite N.shiftr_div_pow2. pose proof (f32_man_lt b) as Hm.
    assert (Hd : (f32_man b + 8388608) / 2 ^ (150 - f32_exp b) <= f32_man b + 8388608).
    { apply N.div_le_upper_bound.
      - apply N.pow_nonzero. discriminate.
      - assert (1 <= 2 ^ (150 - f32_exp b)).
        { change 1 with (2 ^ 0) at 1. apply N.pow_le_mono_r; [discriminate|lia]. }
        nia. }
    lia.
Qed.

Lemma vec_cast_close d :
  forallb cast_ok d = true -> vec_close d (map u64_to_f32 (map f32_to_u64 d)) = true.
Proof.
  induction d as [|x r IH]; cbn [forallb map]; intros Hc; [reflexivity|].
  apply andb_true_iff in Hc. destruct Hc as [Hx Hr]. unfold vec_close. cbn [list_eqb].
  unfold cast_ok in Hx. rewrite Hx. cbn. exact (IH Hr).
Qed.

Lemma compress_vector_close g delta d f :
  (delta && looks_like_id_list_with g d f && negb (forallb cast_ok d)) = false ->
  exists w, cunmap (compress_vector_with g delta d f) = TVec w /\ vec_close d w = true.
Proof.
  intros Hk. unfold compress_vector_with. destruct (delta && looks_like_id_list_with g d f) eqn:Hid.
  - cbn [andb] in Hk. apply negb_false_iff in Hk. cbn [cunmap].
    rewrite delta_roundtrip.
    + eexists. split; [reflexivity|]. apply vec_cast_close. exact Hk.
    + apply Forall_forall. intros y Hy. apply in_map_iff in Hy. destruct Hy as (b & <- & _).
      apply f32_to_u64_lt.
  - cbn [cunmap]. eexists. split; [reflexivity|]. apply vec_close_refl.
Qed.

Lemma quant_exact_with g delta f v :
  quant_known_with g delta f v = false -> q_equal v (cunmap (cmap_with g delta f v)) = true.
Proof.
  unfold quant_known_with. intros Hk. apply orb_false_iff in Hk. destruct Hk as [Hb Hl].
  destruct v as [s|d|dim pos vals|p|ps].
  - destruct s; cbn in Hb; try discriminate; cbn; try reflexivity.
    + destruct b; reflexivity.
    + apply Z.eqb_refl.
    + apply N.eqb_refl.
    + apply str_eqb_refl.
  - unfold id_path_lossy_with in Hl. cbn [dense_of] in Hl. cbn [cmap_with].
    destruct (compress_vector_close g delta d f Hl) as (w & -> & Hw). exact Hw.
  - unfold id_path_lossy_with in Hl. cbn [dense_of] in Hl. cbn [cmap_with].
    destruct (compress_vector_close g delta (sparse_dense dim pos vals) f Hl) as (w & -> & Hw). exact Hw.
  - cbn. apply str_eqb_refl.
  - cbn. apply list_eqb_refl. exact str_eqb_refl.
Qed.

Lemma quant_exact delta f v :
  quant_known delta f v = false -> q_equal v (cunmap (cmap delta f v)) = true.
Proof. apply quant_exact_with. Qed.

(* ------------------------------------------------------------------ the guarded id path is exact *)
Lemma sign_false_lt b : b < 2 ^ 32 -> f32_sign b = false -> b < 2 ^ 31.
Proof.
  unfold f32_sign. intros Hb Hs. apply N.testbit_false in Hs.
  change (2 ^ 31) with 2147483648 in *. change (2 ^ 32) with 4294967296 in Hb. lia.
Qed.

Lemma fields_of b : b < 2 ^ 31 ->
  f32_exp b = b / 8388608 /\ f32_man b = b mod 8388608 /\ f32_abs b = b.
Proof.
  intros Hb. unfold f32_exp, f32_man, f32_abs.
  change 255 with (N.ones 8). change 8388607 with (N.ones 23). change 2147483647 with (N.ones 31).
  rewrite !N.land_ones, N.shiftr_div_pow2.
  change (2 ^ 23) with 8388608. change (2 ^ 8) with 256. change (2 ^ 31) with 2147483648 in *.
  repeat split; lia.
Qed.

Lemma pow_split t : t <= 23 -> 2 ^ t * 2 ^ (23 - t) = 8388608.
Proof. intros Ht. rewrite <- N.pow_add_r. replace (t + (23 - t)) with 23 by lia. reflexivity. Qed.

Lemma pow_pos t : 0 < 2 ^ t.
Proof. apply N.neq_0_lt_0. apply N.pow_nonzero. discriminate. Qed.

(* small exponents: 127 <= e < 150, t = 150 - e in 1..23, mantissa divisible by 2^t *)
Lemma cast_small e m :
  127 <= e -> e < 150 -> m < 8388608 -> m mod 2 ^ (150 - e) = 0 ->
  u64_to_f32 (N.shiftr (m + 8388608) (150 - e)) = e * 8388608 + m.
Proof.
  intros H1 H2 Hm Hd. set (t := 150 - e) in *. assert (Ht : 1 <= t <= 23) by lia.
  pose proof (pow_split t (proj2 Ht)) as HPQ. pose proof (pow_pos t) as HP. pose proof (pow_pos (23 - t)) as HQ.
  set (P := 2 ^ t) in *. set (Q := 2 ^ (23 - t)) in *.
  assert (Hm' : m = P * (m / P)) by (apply N.div_exact; [lia|exact Hd]).
  set (m' := m / P) in *.
  assert (Hm'Q : m' < Q) by nia.
  rewrite N.shiftr_div_pow2. fold P.
  assert (Hx : (m + 8388608) / P = m' + Q).
  { rewrite Hm', <- HPQ. rewrite <- N.mul_add_distr_l. rewrite N.mul_comm. apply N.div_mul. lia. }
  rewrite Hx. unfold u64_to_f32.
  assert (Hnz : (m' + Q =? 0) = false) by (apply N.eqb_neq; lia). rewrite Hnz.
  assert (Hlog : N.log2 (m' + Q) = 23 - t).
  { apply N.log2_unique; [lia|]. fold Q. split; [lia|].
    replace (N.succ (23 - t)) with (1 + (23 - t)) by lia. rewrite N.pow_add_r. fold Q. change (2 ^ 1) with 2. lia. }
  rewrite Hlog. assert (Hle : (23 - t <=? 23) = true) by (apply N.leb_le; lia). rewrite Hle.
  rewrite N.shiftl_mul_pow2. replace (23 - (23 - t)) with t by lia. fold P.
  assert (He : e = 150 - t) by lia. rewrite He. nia.
Qed.

Lemma cast_big e m :
  150 <= e -> e < 191 -> m < 8388608 ->
  u64_to_f32 (N.min u64_max (N.shiftl (m + 8388608) (e - 150))) = e * 8388608 + m.
Proof.
  intros H1 H2 Hm. set (s := e - 150) in *. assert (Hs : s <= 40) by lia.
  rewrite N.shiftl_mul_pow2. pose proof (pow_pos s) as HP.
  assert (HP40 : 2 ^ s <= 2 ^ 40) by (apply N.pow_le_mono_r; [discriminate|exact Hs]).
  change (2 ^ 40) with 1099511627776 in HP40.
  set (P := 2 ^ s) in *. set (X := (m + 8388608) * P).
  assert (HX : X <= u64_max) by (unfold u64_max, X; nia).
  rewrite N.min_r by exact HX. unfold u64_to_f32.
  assert (Hnz : (X =? 0) = false) by (apply N.eqb_neq; unfold X; nia). rewrite Hnz.
  assert (Hlog : N.log2 X = 23 + s).
  { apply N.log2_unique; [lia|]. rewrite N.pow_add_r. fold P. change (2 ^ 23) with 8388608.
    replace (N.succ (23 + s)) with (24 + s) by lia. rewrite N.pow_add_r. fold P. change (2 ^ 24) with 16777216.
    unfold X. split; nia. }
  rewrite Hlog. destruct (N.eq_dec s 0) as [Hs0|Hs0].
  - assert (HP1 : P = 1) by (unfold P; rewrite Hs0; reflexivity).
    rewrite Hs0. change (23 + 0 <=? 23) with true. cbv iota. change (23 - (23 + 0)) with 0.
    rewrite N.shiftl_0_r. unfold X. rewrite HP1. assert (e = 150) by lia. subst e. lia.
  - assert (Hgt : (23 + s <=? 23) = false) by (apply N.leb_gt; lia). rewrite Hgt.
    replace (23 + s - 23) with s by lia. cbv zeta.
    rewrite N.shiftr_div_pow2, N.land_ones. fold P.
    assert (Hq : X / P = m + 8388608) by (unfold X; apply N.div_mul; lia).
    assert (Hr : X mod P = 0) by (unfold X; apply N.mod_mul; lia).
    rewrite Hq, Hr. rewrite N.shiftl_mul_pow2.
    assert (Hh : 0 < 1 * 2 ^ (s - 1)) by (pose proof (pow_pos (s - 1)); lia).
    assert (Hup : ((1 * 2 ^ (s - 1) <? 0) || (0 =? 1 * 2 ^ (s - 1)) && N.odd (m + 8388608)) = false).
    { apply orb_false_iff. split; [apply N.ltb_ge; lia|].
      apply andb_false_iff. left. apply N.eqb_neq. lia. }
    rewrite Hup. assert (He : e = 150 + s) by lia. rewrite He. lia.
Qed.

Lemma id_exact_cast b : b < 2 ^ 32 -> id_exact b = true -> u64_to_f32 (f32_to_u64 b) = b.
Proof.
  intros Hb Hx. unfold id_exact in Hx. apply andb_true_iff in Hx. destruct Hx as [Hx He].
  apply andb_true_iff in Hx. destruct Hx as [Hs Hf]. apply negb_true_iff in Hs, Hf. apply N.ltb_lt in He.
  pose proof (sign_false_lt b Hb Hs) as Hb31. destruct (fields_of b Hb31) as (Ee & Em & Ea).
  assert (Hbm : b = (b / 8388608) * 8388608 + b mod 8388608) by lia.
  assert (Hm : b mod 8388608 < 8388608) by lia.
  unfold f32_has_fract in Hf. unfold f32_is_zero in Hf. rewrite Ee, Em, Ea in Hf. rewrite Ee in He.
  unfold f32_to_u64, f32_is_nan. rewrite Ea, Hs, Ee, Em.
  set (e := b / 8388608) in *. set (m := b mod 8388608) in *.
  assert (Hnan : (f32_inf <? b) = false) by (apply N.ltb_ge; unfold f32_inf; lia). rewrite Hnan.
  destruct (e =? 255) eqn:E255; [discriminate|].
  destruct (e <? 127) eqn:E127.
  - apply negb_false_iff in Hf. apply N.eqb_eq in Hf. subst b. reflexivity.
  - apply N.ltb_ge in E127. destruct (150 <=? e) eqn:E150.
    + apply N.leb_le in E150. assert (H191 : (191 <=? e) = false) by (apply N.leb_gt; exact He). rewrite H191.
      rewrite (cast_big e m E150 He Hm). symmetry. exact Hbm.
    + apply N.leb_gt in E150. apply negb_false_iff in Hf. apply N.eqb_eq in Hf. rewrite N.land_ones in Hf.
      rewrite (cast_small e m E127 E150 Hm Hf). symmetry. exact Hbm.
Qed.

Definition f32_wf (b : N) : Prop := b < 2 ^ 32.
Definition tval_wf (v : tval) : Prop :=
  match v with
  | TVec d => Forall f32_wf d
  | TSparse _ _ vs => Forall f32_wf vs
  | _ => True
  end.

Lemma chain_exact prev v : id_chain true prev v = true -> forallb id_exact v = true.
Proof.
  revert prev. induction v as [|x r IH]; intros prev; cbn [id_chain forallb]; [reflexivity|].
  intros H. apply andb_true_iff in H. destruct H as [H Hr]. apply andb_true_iff in H. destruct H as [_ Hx].
  cbn [id_elem_ok] in Hx. rewrite Hx. cbn. apply (IH x Hr).
Qed.

Lemma looks_exact v f : looks_like_id_list_with true v f = true -> forallb id_exact v = true.
Proof.
  unfold looks_like_id_list_with. destruct (str_eqb f gen_id_name || ends_with gen_id_suffix f); [auto|].
  destruct v as [|x [|y r]]; try discriminate. intros H. apply andb_true_iff in H. destruct H as [Hx Hc].
  cbn [id_elem_ok] in Hx. cbn [tl] in Hc. cbn [forallb]. rewrite Hx. cbn [andb].
  apply (chain_exact x (y :: r) Hc).
Qed.

Lemma exact_cast_ok b : f32_wf b -> id_exact b = true -> cast_ok b = true.
Proof.
  intros Hw Hx. unfold cast_ok, elem_close. rewrite (id_exact_cast b Hw Hx), N.eqb_refl. reflexivity.
Qed.

Lemma forallb_cast d : Forall f32_wf d -> forallb id_exact d = true -> forallb cast_ok d = true.
Proof.
  induction d as [|x r IH]; cbn [forallb]; intros Hw Hx; [reflexivity|].
  inversion Hw; subst. apply andb_true_iff in Hx. destruct Hx as [Hx Hr].
  rewrite (exact_cast_ok x) by assumption. cbn. apply IH; assumption.
Qed.

Lemma upd_wf (P : N -> Prop) d i x : Forall P d -> P x -> Forall P (upd d i x).
Proof.
  revert i. induction d as [|y r IH]; intros i Hd Hx; cbn [upd]; [constructor|].
  inversion Hd; subst. destruct i; constructor; auto.
Qed.

Lemma scatter_wf (P : N -> Prop) es : forall d, Forall P d -> Forall (fun e => P (snd e)) es -> Forall P (scatter d es).
Proof.
  unfold scatter. induction es as [|e r IH]; intros d Hd He; cbn [fold_left]; [exact Hd|].
  inversion He; subst. apply IH; [apply upd_wf; assumption|assumption].
Qed.

Lemma combine_snd_wf {A} (P : N -> Prop) (a : list A) vs :
  Forall P vs -> Forall (fun e => P (snd e)) (combine a vs).
Proof.
  revert vs. induction a as [|x r IH]; intros vs Hv; cbn [combine]; [constructor|].
  destruct vs as [|v t]; [constructor|]. inversion Hv; subst. constructor; [assumption|apply IH; assumption].
Qed.

Lemma sparse_dense_wf d p vs : Forall f32_wf vs -> Forall f32_wf (sparse_dense d p vs).
Proof.
  intros Hv. unfold sparse_dense. apply scatter_wf.
  - apply Forall_forall. intros x Hx. apply repeat_spec in Hx. subst x. unfold f32_wf. reflexivity.
  - apply combine_snd_wf. exact Hv.
Qed.

Lemma id_path_never_lossy delta f v : tval_wf v -> id_path_lossy_with true delta f v = false.
Proof.
  intros Hw. unfold id_path_lossy_with. destruct v as [s|d|dim pos vals|p|ps]; cbn [dense_of]; try reflexivity.
  - destruct (delta && looks_like_id_list_with true d f) eqn:E; [|reflexivity].
    apply andb_true_iff in E. destruct E as [_ E]. cbn [andb].
    rewrite (forallb_cast d Hw (looks_exact d f E)). reflexivity.
  - destruct (delta && looks_like_id_list_with true (sparse_dense dim pos vals) f) eqn:E; [|reflexivity].
    apply andb_true_iff in E. destruct E as [_ E]. cbn [andb].
    rewrite (forallb_cast _ (sparse_dense_wf dim pos vals Hw) (looks_exact _ f E)). reflexivity.
Qed.

(* per-run: the source carries the guard *)
Lemma gen_guard_on : gen_id_exact_guard = true.
Proof. reflexivity. Qed.

Lemma quant_exact_all delta f v :
  tval_wf v -> is_bytes_scalar v = false -> q_equal v (cunmap (cmap delta f v)) = true.
Proof.
  intros Hw Hb. apply quant_exact. unfold quant_known. rewrite gen_guard_on.
  unfold quant_known_with. rewrite Hb, (id_path_never_lossy delta f v Hw). reflexivity.
Qed.

(* the unrestricted statement is false: the two known classes *)
Lemma quant_refuted_bytes :
  exists delta f v, is_bytes_scalar v = true /\ q_equal v (cunmap (cmap delta f v)) = false.
Proof. exists false, [98], (TScalar (SBytes [1; 2; 3])). split; vm_compute; reflexivity. Qed.

(* the earlier heuristic (a field named ids / *_ids takes the id path whatever it holds) *)
Lemma quant_refuted_ids :
  exists delta f v, id_path_lossy_with false delta f v = true
                    /\ q_equal v (cunmap (cmap_with false delta f v)) = false.
Proof.
  (* field "ids" = [5.0; 3.0; 2.5; -1.0] *)
  exists true, [105; 100; 115], (TVec [1084227584; 1077936128; 1075838976; 3212836864]).
  split; vm_compute; reflexivity.
Qed.
