(* C07/Props.v -- pinned property theorems; nothing but statements closed by `exact`. *)
From NV.Common Require Import Base.
From NV.C07 Require Import Types Model Inst Proofs.
From NV.gen Require Import Gen_C07.
Open Scope N_scope.

(* The raw header written by to_raw_bytes is read back unchanged by from_raw_bytes
   (offsets regenerated from snapshot.rs on every run). *)
Theorem C07_header_roundtrip : forall h, header_wf h -> from_raw (to_raw h) = h.
Proof. exact gen_header_roundtrip. Qed.
Example C07_header_roundtrip_nonvacuous : header_wf (new_header true 12345).
Proof. apply (new_header_wf true 12345). reflexivity. Qed.

(* Files with a bad magic/version, or shorter than the header, are rejected by the v3 loader. *)
Theorem C07_bad_header_rejected : forall (snap : Type) (deser : bytes -> option snap) (zd : bytes -> option bytes) b,
  validate (from_raw (firstn (N.to_nat gen_header_size) b)) = false \/ (length b < N.to_nat gen_header_size)%nat ->
  load_v3 snap deser zd b = None.
Proof.
  intros snap deser zd b [Hv|Hl]; [exact (bad_header_rejected snap deser zd b Hv)|exact (short_file_rejected snap deser zd b Hl)].
Qed.

(* Saving through a file, compressed or not, and loading it back gives the saved snapshot
   (bitcode and zstd round trips are the visible premises). *)
Theorem C07_file_roundtrip : forall (snap : Type) (ser : snap -> bytes) (deser : bytes -> option snap)
    (zc : bytes -> bytes) (zd : bytes -> option bytes) (load_v2 : bytes -> option snap),
  (forall s, deser (ser s) = Some s) -> (forall b, zd (zc b) = Some b) ->
  forall compress count s, count < 2 ^ 64 ->
  load_bytes snap deser zd load_v2 (file_bytes snap ser zc compress count s) = Some s.
Proof. exact file_roundtrip. Qed.

(* The temp file of the save protocol is never the target (rule regenerated from the source). *)
Theorem C07_temp_is_sibling : forall p, str_eqb (render (temp_path p)) (render p) = false.
Proof. exact temp_is_sibling. Qed.

(* Crash atomicity.  The save protocol is the list of file-system steps regenerated from the source
   (create temp, write, [fsync], rename; Inst.gen_steps_safe re-checks every run that both save
   functions consist of temp-file steps only, leave the temp file complete and end with the one
   rename).  In EVERY state a crash can leave behind -- between any two steps, or inside the write
   with any prefix of the content in the temp file -- loading the path yields the previous snapshot
   or the new one. *)
Theorem C07_crash_atomic : forall (snap : Type) (deser : bytes -> option snap) (zd : bytes -> option bytes)
    (load_v2 : bytes -> option snap) steps f p content f',
  steps = gen_save_steps_v3 \/ steps = gen_save_steps_quant ->
  save_state steps f (render p) (render (temp_path p)) content f' ->
  load snap deser zd load_v2 f' (render p) = load snap deser zd load_v2 f (render p)
  \/ load snap deser zd load_v2 f' (render p) = load_bytes snap deser zd load_v2 content.
Proof.
  intros snap deser zd load_v2 steps f p content f' Hsteps.
  apply crash_atomic_load. destruct Hsteps as [E|E]; rewrite E; apply gen_steps_safe.
Qed.
Example C07_crash_atomic_nonvacuous :
  save_state gen_save_steps_v3 (fun _ => None) [115] [115; 46; 116] [1; 2; 3]
             (fs_set (run_steps [115] [115; 46; 116] [1; 2; 3] (fun _ => None) (firstn 1 gen_save_steps_v3))
                     [115; 46; 116] (Some (firstn 2 [1; 2; 3]))).
Proof. apply (ss_partial _ _ _ _ _ 1%nat 2%nat); [reflexivity|cbn; lia]. Qed.

(* With the earlier temp rule (Path::with_extension) the statement is false: a target that already
   has the temp extension is truncated in place (fixed in /repo; kept as the replayed witness). *)
Theorem C07_crash_atomic_with_extension_refuted :
  exists (f : fs) (p : path) (content : bytes) (f' : fs),
    save_state [0; 1; 4] f (render p) (render (temp_path_with 0 tmp_s p)) content f'
    /\ f' (render p) <> f (render p) /\ f' (render p) <> Some content.
Proof. exact crash_refuted_with_extension. Qed.

(* A protocol that removes the target before renaming is not atomic either, sibling temp or not:
   between the unlink and the rename the path holds neither snapshot. *)
Theorem C07_crash_atomic_unlink_first_refuted :
  exists (f : fs) (p t : str) (content : bytes) (f' : fs),
    str_eqb t p = false /\ save_state [0; 1; 3; 4] f p t content f'
    /\ f' p <> f p /\ f' p <> Some content.
Proof. exact crash_refuted_unlink_first. Qed.

(* Embeddings below the tensor-train threshold, and sparse ones of any length, come back bit-identical
   from the embedding slab's snapshot form. *)
Theorem C07_embedding_exact : forall (tt : Type) (tt_dec : list N -> option tt) (tt_rec : tt -> list N) v,
  N.of_nat (length v) < gen_tt_min_dim \/ use_sparse v = true ->
  rt_vec tt tt_dec tt_rec v = v.
Proof. exact rt_vec_exact. Qed.

(* ... hence a store all of whose slab embeddings are of that kind is reproduced exactly by
   snapshot + restore: every get, exists and scan answers as before (the stores are equal). *)
Theorem C07_store_roundtrip : forall (tt : Type) (tt_dec : list N -> option tt) (tt_rec : tt -> list N) r,
  (forall id vec, In (id, vec) (r_emb r) -> N.of_nat (length vec) < gen_tt_min_dim \/ use_sparse vec = true) ->
  rt_router (rt_vec tt tt_dec tt_rec) r = r.
Proof. exact store_roundtrip. Qed.
Example C07_store_roundtrip_nonvacuous :
  let r := run_ops (empty_router 2) [OPut [101; 109; 98; 58; 49] [(s_embedding, TVec [1065353216; 1])]] in
  r_emb r = [(0, [1065353216; 1])]
  /\ forall id vec, In (id, vec) (r_emb r) -> N.of_nat (length vec) < gen_tt_min_dim \/ use_sparse vec = true.
Proof.
  split; [reflexivity|]. intros id vec [E|[]]. inversion E; subst. left. reflexivity.
Qed.

(* The quantising format reproduces every field exactly (vector payloads numerically, in dense
   form) outside two classes: Bytes scalars (known finding: the format has no Bytes scalar), and
   vectors on the id-list path holding a value the f32->u64->f32 cast changes (for any id-path
   rule; C07_quant_exact_all below shows the second class is empty for the repaired rule). *)
Theorem C07_quant_exact : forall delta f v,
  quant_known delta f v = false -> q_equal v (cunmap (cmap delta f v)) = true.
Proof. exact quant_exact. Qed.
Example C07_quant_exact_nonvacuous :
  quant_known true [105; 100; 115] (TVec [1084227584; 1088421888]) = false      (* ids = [5.0; 7.0] *)
  /\ quant_known true [119] (TSparse 4 [1] [3212836864]) = false.
Proof. split; vm_compute; reflexivity. Qed.

(* With the guarded id path (gen_id_exact_guard, re-checked every run) the f32->u64->f32 cast is the
   identity on every admitted value -- proved at bit level (Proofs.id_exact_cast) -- so ONLY Bytes
   scalars are outside: every other field of every well-formed value is reproduced. *)
Theorem C07_quant_exact_all : forall delta f v,
  tval_wf v -> is_bytes_scalar v = false -> q_equal v (cunmap (cmap delta f v)) = true.
Proof. exact quant_exact_all. Qed.

Theorem C07_id_cast_exact : forall b, b < 2 ^ 32 -> id_exact b = true -> u64_to_f32 (f32_to_u64 b) = b.
Proof. exact id_exact_cast. Qed.
Example C07_id_cast_exact_nonvacuous : id_exact 1084227584 = true /\ id_exact 1602224127 = true.   (* 5.0, the largest f32 below 2^64 *)
Proof. split; vm_compute; reflexivity. Qed.

Theorem C07_quant_exact_refuted_bytes :
  exists delta f v, is_bytes_scalar v = true /\ q_equal v (cunmap (cmap delta f v)) = false.
Proof. exact quant_refuted_bytes. Qed.

(* the earlier id-list heuristic (by name alone; fixed in /repo, kept as the replayed witness) *)
Theorem C07_quant_exact_refuted_ids :
  exists delta f v, id_path_lossy_with false delta f v = true
                    /\ q_equal v (cunmap (cmap_with false delta f v)) = false.
Proof. exact quant_refuted_ids. Qed.

Print Assumptions C07_header_roundtrip.
Print Assumptions C07_bad_header_rejected.
Print Assumptions C07_file_roundtrip.
Print Assumptions C07_temp_is_sibling.
Print Assumptions C07_crash_atomic.
Print Assumptions C07_crash_atomic_with_extension_refuted.
Print Assumptions C07_crash_atomic_unlink_first_refuted.
Print Assumptions C07_embedding_exact.
Print Assumptions C07_store_roundtrip.
Print Assumptions C07_quant_exact.
Print Assumptions C07_quant_exact_all.
Print Assumptions C07_id_cast_exact.
Print Assumptions C07_quant_exact_refuted_bytes.
Print Assumptions C07_quant_exact_refuted_ids.
