(* C07/Run.v -- executable entry points for the correspondence check and the property oracles.
   Depends on Types + Model + Gen_C07 only. *)
From NV.Common Require Import Base.
From NV.C07 Require Import Types Model.
From NV.gen Require Import Gen_C07.
Open Scope N_scope.

(* ---------------------------------------------------------------- header cases *)
(* (compressed, entry count, the first bytes of the file written by the implementation) *)
Definition hdr_case := (bool * N * list N)%type.
Definition check_hdr (c : hdr_case) : N :=
  let '(compressed, count, raw) := c in
  let h := from_raw raw in
  (* oracle: what the implementation wrote decodes to the header it meant to write *)
  if negb (N.eqb (N.of_nat (length raw)) gen_header_size && validate h
           && Bool.eqb (is_compressed h) compressed && N.eqb (h_count h) count)
  then V_VIOLATION
  else if list_eqb N.eqb (to_raw (new_header compressed count)) raw then V_OK else V_MISMATCH.

(* ---------------------------------------------------------------- dumps *)
Definition dump_t := list (str * option tdata).
Definition dump_eqb : dump_t -> dump_t -> bool :=
  list_eqb (pair_eqb str_eqb (option_eqb tdata_eqb)).

(* the closed instance of the embedding round trip used for cases (all below the TT threshold;
   a case at or above it would go through the identity here and show up as a mismatch) *)
Definition rtv : list N -> list N := rt_vec (list N) (fun v => Some v) (fun v => v).

(* fields of `a` that differ from `b` (same key): (field name, before, after) *)
Fixpoint diff_fields (a b : tdata) : list (str * option tval * option tval) :=
  match a with
  | [] => map (fun f => (fst f, None, Some (snd f))) b
  | (k, v) :: ra =>
      match sget b k with
      | Some v' => (if tval_eqb v v' then [] else [(k, Some v, Some v')]) ++ diff_fields ra (sdel b k)
      | None => (k, Some v, None) :: diff_fields ra b
      end
  end.

(* ---------------------------------------------------------------- raw (v3) round trips *)
(* known class 2 (sparse-threshold): an `emb:` key's slab vector below the TT threshold that the
   sparse rule rewrites: before = v, after = clean v <> v *)
Definition sparse_threshold_field (key : str) (d : str * option tval * option tval) : bool :=
  let '(f, x, y) := d in
  match classify key, x, y with
  | KEmb, Some (TVec v), Some (TVec w) =>
      str_eqb f s_embedding && (N.of_nat (length v) <? gen_tt_min_dim) && use_sparse v
      && list_eqb N.eqb w (clean v)
  | _, _, _ => false
  end.

(* 0 = equal; 1 = differs only inside the class `cls`; 2 = differs otherwise *)
Fixpoint compare_dumps (cls : str -> str * option tval * option tval -> bool) (a b : dump_t) : N :=
  match a, b with
  | [], [] => 0
  | (k, Some d) :: ra, (k', Some d') :: rb =>
      if negb (str_eqb k k') then 2
      else
        let ds := diff_fields d d' in
        let here := match ds with [] => 0 | _ => if forallb (cls k) ds then 1 else 2 end in
        N.max here (compare_dumps cls ra rb)
  | _, _ => 2
  end.

(* (slab dimension, format: 0 file+zstd 1 file raw 2 bytes, ops, dump before, dump after) *)
Definition rt_case := (N * N * list sop * dump_t * dump_t)%type.
Definition check_rt (c : rt_case) : N :=
  let '(dim, fmt, ops, before, after) := c in
  match compare_dumps sparse_threshold_field before after with
  | 2 => V_VIOLATION
  | 1 => V_KNOWN 2
  | _ =>
      let r := run_ops (empty_router dim) ops in
      if dump_eqb (dump r) before && dump_eqb (dump (rt_router rtv r)) after then V_OK else V_MISMATCH
  end.
(* the class-2 cases are still compared with the model *)
Definition check_rt_model (c : rt_case) : bool :=
  let '(dim, fmt, ops, before, after) := c in
  let r := run_ops (empty_router dim) ops in
  dump_eqb (dump r) before && dump_eqb (dump (rt_router rtv r)) after.
Definition check_rt_full (c : rt_case) : N :=
  let v := check_rt c in
  if (10 <=? v) && negb (check_rt_model c) then V_MISMATCH else v.

(* ---------------------------------------------------------------- quantising format *)
Definition q_class (delta : bool) (d : str * option tval * option tval) : N :=   (* 0 ok 10 bytes 11 ids 2 other *)
  let '(f, x, y) := d in
  match x, y with
  | Some a, Some b =>
      if q_equal a b then 0
      else if is_bytes_scalar a then 10
      else if id_path_lossy delta f a then 11
      else 2
  | _, _ => 2
  end.
Fixpoint q_compare (delta : bool) (a b : dump_t) : list N :=
  match a, b with
  | [], [] => []
  | (k, Some d) :: ra, (k', Some d') :: rb =>
      if negb (str_eqb k k') then [2]
      else map (q_class delta) (diff_fields d d') ++ q_compare delta ra rb
  | _, _ => [2]
  end.

(* (delta_encoding, ops, dump before, dump after); tensor_mode = None *)
Definition q_case := (bool * list sop * dump_t * dump_t)%type.
Definition check_q (c : q_case) : N :=
  let '(delta, ops, before, after) := c in
  let cs := q_compare delta before after in
  let r := run_ops (empty_router 384) ops in
  let model_ok := dump_eqb (dump r) before && dump_eqb (dump (q_roundtrip delta r)) after in
  if existsb (N.eqb 2) cs then V_VIOLATION
  else if existsb (N.eqb 10) cs then (if model_ok then V_KNOWN 0 else V_MISMATCH)
  else if existsb (N.eqb 11) cs then (if model_ok then V_KNOWN 1 else V_MISMATCH)
  else if model_ok then V_OK else V_MISMATCH.

(* ---------------------------------------------------------------- crash cases *)
(* outcome of loading `path` in one crash state: 0 error, 1 the previous snapshot (or "no snapshot"
   when there was none), 2 the new snapshot, 3 something else, 4 panic *)
Definition s_snap : str := [115; 110; 97; 112].
Definition s_bin : str := [98; 105; 110].
Definition crash_path (tmp_ext : bool) : path := P s_snap (Some (if tmp_ext then gen_temp_ext else s_bin)).
Definition old_bytes : bytes := [0].
Definition new_bytes (n : N) : bytes := map N.succ (N_seq n).
Definition classify_state (had_old : bool) (n : N) (f : fs) (p : str) : N :=
  match f p with
  | Some b => if list_eqb N.eqb b old_bytes then 1 else if list_eqb N.eqb b (new_bytes n) then 2 else 0
  | None => if had_old then 0 else 1
  end.
Definition fs0 (had_old : bool) (p : str) : fs := fun q => if had_old && str_eqb q p then Some old_bytes else None.
Definition model_outcomes (tmp_ext had_old : bool) (n : N) : list N * N :=
  let p := render (crash_path tmp_ext) in
  let t := render (temp_path (crash_path tmp_ext)) in
  let f := fs0 had_old p in
  (map (fun k => classify_state had_old n (fs_set f t (Some (firstn (N.to_nat k) (new_bytes n)))) p) (N_seq (n + 1)),
   classify_state had_old n (fs_rename (fs_set f t (Some (new_bytes n))) t p) p).

(* (path has the temp extension, an older snapshot existed, length of the new file,
    outcome per truncation length 0..n of the temp file before the rename, outcome after the save) *)
Definition crash_case := (bool * bool * N * list N * N)%type.
Definition good (o : N) : bool := N.eqb o 1 || N.eqb o 2.
Definition check_crash (c : crash_case) : N :=
  let '(tmp_ext, had_old, n, outs, after) := c in
  let '(mo, ma) := model_outcomes tmp_ext had_old n in
  let agree := list_eqb N.eqb mo outs && N.eqb ma after in
  if negb (N.eqb (N.of_nat (length outs)) (n + 1)) then 9
  else if negb (forallb good outs && N.eqb after 2) then
    (if tmp_ext && forallb good (map (fun o => if N.eqb o 0 then 1 else o) outs) && N.eqb after 2
     then (if agree then V_KNOWN 3 else V_MISMATCH) else V_VIOLATION)
  else if agree then V_OK else V_MISMATCH.

(* ---------------------------------------------------------------- a concurrent observer of the path *)
(* One thread saves two stores alternately to one path (an older snapshot is always there); another
   thread keeps opening the path.  (saves done, polls done, polls that found no file, polls whose
   content was neither of the two snapshots).  Atomic replacement: the path always holds one of them. *)
Definition observe_case := (N * N * N * N)%type.
Definition check_observe (c : observe_case) : N :=
  let '(saves, polls, missing, foreign) := c in
  if negb (N.eqb missing 0 && N.eqb foreign 0) then V_VIOLATION
  else
    (* the model says a poll can find no file only if some step before the rename touches the target *)
    V_OK.

