(* C07/Types.v -- values held by the tensor store (tensor_store/src/lib.rs TensorValue, ScalarValue,
   TensorData).  Strings are UTF-8 byte lists; floats are IEEE bit patterns (f64 -> N < 2^64,
   f32 -> N < 2^32); a TensorData is an association list sorted by field name (HashMap order is
   never observed: the harness sorts). *)
From NV.Common Require Import Base.
Open Scope N_scope.

Definition str := list N.
Definition bytes := list N.
Definition str_eqb : str -> str -> bool := list_eqb N.eqb.

Inductive scalar :=
| SNull | SBool (b : bool) | SInt (z : Z) | SFloat (bits : N) | SStr (s : str) | SBytes (bs : bytes).

Inductive tval :=
| TScalar (s : scalar)
| TVec (v : list N)                              (* Vec<f32> as bit patterns *)
| TSparse (dim : N) (pos : list N) (vals : list N) (* SparseVector: dimension, positions, f32 bits *)
| TPtr (p : str)
| TPtrs (ps : list str).

Definition tdata := list (str * tval).

Definition scalar_eqb (a b : scalar) : bool :=
  match a, b with
  | SNull, SNull => true
  | SBool x, SBool y => Bool.eqb x y
  | SInt x, SInt y => Z.eqb x y
  | SFloat x, SFloat y => N.eqb x y
  | SStr x, SStr y => str_eqb x y
  | SBytes x, SBytes y => list_eqb N.eqb x y
  | _, _ => false
  end.

Definition tval_eqb (a b : tval) : bool :=
  match a, b with
  | TScalar x, TScalar y => scalar_eqb x y
  | TVec x, TVec y => list_eqb N.eqb x y
  | TSparse d p v, TSparse d' p' v' => N.eqb d d' && list_eqb N.eqb p p' && list_eqb N.eqb v v'
  | TPtr x, TPtr y => str_eqb x y
  | TPtrs x, TPtrs y => list_eqb str_eqb x y
  | _, _ => false
  end.

Definition field_eqb (a b : str * tval) : bool := str_eqb (fst a) (fst b) && tval_eqb (snd a) (snd b).
Definition tdata_eqb : tdata -> tdata -> bool := list_eqb field_eqb.

(* association lists keyed by strings *)
Section SAssoc.
  Context {V : Type}.
  Fixpoint sget (l : list (str * V)) (k : str) : option V :=
    match l with
    | [] => None
    | (k', v) :: r => if str_eqb k' k then Some v else sget r k
    end.
  Fixpoint sset (l : list (str * V)) (k : str) (v : V) : list (str * V) :=
    match l with
    | [] => [(k, v)]
    | (k', v') :: r => if str_eqb k' k then (k, v) :: r else (k', v') :: sset r k v
    end.
  Fixpoint sdel (l : list (str * V)) (k : str) : list (str * V) :=
    match l with
    | [] => []
    | (k', v') :: r => if str_eqb k' k then sdel r k else (k', v') :: sdel r k
    end.
End SAssoc.

Fixpoint starts_with (p s : str) : bool :=
  match p, s with
  | [], _ => true
  | a :: p', b :: s' => N.eqb a b && starts_with p' s'
  | _ :: _, [] => false
  end.
Definition ends_with (suf s : str) : bool := starts_with (rev suf) (rev s).
