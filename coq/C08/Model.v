(* C08/Model.v -- executable model of checkpoint / rollback.  DEFINITIONS ONLY.
   Sources mirrored:
     tensor_store/src/lib.rs        snapshot_bytes, restore_from_bytes (clear; re-put scan("") keys)
     tensor_checkpoint/src/lib.rs   CheckpointManager::{create, rollback, list}
     tensor_checkpoint/src/storage.rs  artifacts as blobs, list sorted by created_at descending,
                                    lookup by id or name = first match in that order
     tensor_checkpoint/src/retention.rs  delete from the tail beyond max_checkpoints
     query_router init_blob_with_config  the blob store is built on the engines' own store
   The store is modelled at key level: the key-addressed part (everything scan("")/get see: graph
   nodes and edges, embeddings, metadata) and the relational slab (tables), plus the checkpoint
   catalogue, which physically is a set of `_blob:` keys of the SAME store and is therefore part
   of every image.  Images are immutable byte strings; the model keeps them in an append-only table
   and lets catalogue entries refer to them by position. *)
From NV.Common Require Import Base.
Open Scope N_scope.

Record cp := CP { cp_name : N; cp_created : N; cp_img : nat }.
Record store := ST {
  s_kv : list (N * N);        (* key -> value: the key-addressed slabs *)
  s_rel : list (N * N);       (* table -> contents: the relational slab *)
  s_cat : list cp             (* checkpoint artifacts held in this store, in listing order *)
}.
Record state := S8 { st : store; images : list store }.

Definition empty_store : store := ST [] [] [].
Definition init : state := S8 empty_store [].

(* Configuration read from the source (gen/Gen_C08.v) is passed in explicitly *)
Record cfg := CFG {
  restore_slabs : bool;        (* restore_from_bytes carries the relational slab over *)
  keep_catalogue : bool;       (* rollback leaves the catalogue alone (separate store / re-instated) *)
  max_cp : nat                 (* CheckpointConfig::max_checkpoints *)
}.

(* ---- restore_from_bytes, exactly as coded: clear everything, then put every key of the image's
        scan("") with the value the image's get returns *)
Definition reput (img : list (N * N)) : list (N * N) :=
  fold_left (fun acc k => match aget img k with Some v => aset acc k v | None => acc end)
            (map fst img) [].
Definition restore (c : cfg) (cur img : store) : store :=
  ST (reput (s_kv img))
     (if restore_slabs c then s_rel img else [])
     (if keep_catalogue c then s_cat cur else s_cat img).

(* ---- the catalogue *)
(* CheckpointStorage::list: stable sort, newest first *)
Fixpoint insert_desc (x : cp) (l : list cp) : list cp :=
  match l with
  | [] => [x]
  | y :: r => if cp_created y <=? cp_created x then x :: l else y :: insert_desc x r
  end.
Definition sort_desc (l : list cp) : list cp := fold_right insert_desc [] l.
(* fold_right inserts the LAST listed element first; an earlier element is placed before the first
   one that is not newer, so equal timestamps keep their listing order (Rust's sort_by is stable) *)

Definition cp_eqb (a b : cp) : bool :=
  N.eqb (cp_name a) (cp_name b) && N.eqb (cp_created a) (cp_created b) && Nat.eqb (cp_img a) (cp_img b).

(* RetentionManager::enforce: beyond max, delete from the tail of the sorted list *)
Definition enforce (max : nat) (cat : list cp) : list cp :=
  let keep := firstn max (sort_desc cat) in
  if (length cat <=? max)%nat then cat else filter (fun c => existsb (cp_eqb c) keep) cat.

Definition find_cp (cat : list cp) (name : N) : option cp :=
  find (fun c => N.eqb (cp_name c) name) (sort_desc cat).
(* lookup by id: a checkpoint's id is modelled by the position of its image (unique for ever) *)
Definition find_cp_id (cat : list cp) (k : nat) : option cp :=
  find (fun c => Nat.eqb (cp_img c) k) (sort_desc cat).

Inductive op :=
| OPutKV (k v : N) | ODelKV (k : N)
| OPutRel (t v : N) | ODelRel (t : N)
| OCheckpoint (name now : N)
| ORollback (name : N)
| ORollbackId (k : nat)
| OList.

Definition with_kv (s : store) (kv : list (N * N)) : store := ST kv (s_rel s) (s_cat s).
Definition with_rel (s : store) (r : list (N * N)) : store := ST (s_kv s) r (s_cat s).
Definition with_cat (s : store) (c : list cp) : store := ST (s_kv s) (s_rel s) c.

(* CheckpointManager::create: image of the whole store (catalogue included, the new artifact not
   yet), store the artifact, enforce retention *)
Definition checkpoint (c : cfg) (s : state) (name now : N) : state :=
  let img := st s in
  let new := CP name now (length (images s)) in
  S8 (with_cat (st s) (enforce (max_cp c) (s_cat (st s) ++ [new]))) (images s ++ [img]).

(* CheckpointManager::rollback: None = "checkpoint not found" *)
Definition rollback (c : cfg) (s : state) (name : N) : option state :=
  match find_cp (s_cat (st s)) name with
  | Some e =>
      match nth_error (images s) (cp_img e) with
      | Some img => Some (S8 (restore c (st s) img) (images s))
      | None => None
      end
  | None => None
  end.

Definition rollback_id (c : cfg) (s : state) (k : nat) : option state :=
  match find_cp_id (s_cat (st s)) k with
  | Some e =>
      match nth_error (images s) (cp_img e) with
      | Some img => Some (S8 (restore c (st s) img) (images s))
      | None => None
      end
  | None => None
  end.

Definition step (c : cfg) (s : state) (o : op) : state :=
  match o with
  | OPutKV k v => S8 (with_kv (st s) (aset (s_kv (st s)) k v)) (images s)
  | ODelKV k => S8 (with_kv (st s) (adel (s_kv (st s)) k)) (images s)
  | OPutRel t v => S8 (with_rel (st s) (aset (s_rel (st s)) t v)) (images s)
  | ODelRel t => S8 (with_rel (st s) (adel (s_rel (st s)) t)) (images s)
  | OCheckpoint name now => checkpoint c s name now
  | ORollback name => match rollback c s name with Some s' => s' | None => s end
  | ORollbackId k => match rollback_id c s k with Some s' => s' | None => s end
  | OList => s
  end.
Definition run (c : cfg) (s : state) (ops : list op) : state := fold_left (step c) ops s.

Definition list_names (s : state) : list N := map cp_name (sort_desc (s_cat (st s))).

(* ---- what the property promises about the catalogue (independent of where it is stored):
        every checkpoint created so far, trimmed to the newest max at each creation; a rollback
        does not touch it *)
Definition spec_step (max : nat) (cat : list cp) (o : op) (img : nat) : list cp :=
  match o with
  | OCheckpoint name now => enforce max (cat ++ [CP name now img])
  | _ => cat
  end.
