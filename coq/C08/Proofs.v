(* C08/Proofs.v -- lemmas for checkpoint / rollback (all scripts). *)
From NV.Common Require Import Base.
From NV.C08 Require Import Model.
Open Scope N_scope.

(* ------------------------------------------------------------------ restore_from_bytes re-puts every key *)
Definition reput_f (img : list (N * N)) (acc : list (N * N)) (k : N) : list (N * N) :=
  match aget img k with Some v => aset acc k v | None => acc end.

Lemma reput_fold img ks acc k :
  aget (fold_left (reput_f img) ks acc) k =
  if existsb (N.eqb k) ks
  then match aget img k with Some v => Some v | None => aget acc k end
  else aget acc k.
Proof.
  revert acc. induction ks as [|k' ks IH]; intros acc; cbn [fold_left existsb].
  - reflexivity.
  - rewrite IH. unfold reput_f.
    destruct (N.eqb_spec k k') as [->|Hne]; cbn [orb].
    + destruct (aget img k') as [v|] eqn:E.
      * rewrite aget_aset, N.eqb_refl. destruct (existsb (N.eqb k') ks); reflexivity.
      * destruct (existsb (N.eqb k') ks); reflexivity.
    + destruct (aget img k') as [v|] eqn:E.
      * rewrite aget_aset. destruct (N.eqb_spec k' k) as [->|_]; [contradiction|].
        reflexivity.
      * reflexivity.
Qed.

Lemma aget_keys (img : list (N * N)) k v :
  aget img k = Some v -> existsb (N.eqb k) (map fst img) = true.
Proof.
  induction img as [|[k0 v0] r IH]; cbn; [discriminate|].
  destruct (N.eqb_spec k0 k) as [->|Hne]; intros E.
  - rewrite N.eqb_refl. reflexivity.
  - rewrite (IH E). apply orb_true_r.
Qed.

Lemma reput_lookup img k : aget (reput img) k = aget img k.
Proof.
  unfold reput. change (fun acc k0 => match aget img k0 with Some v => aset acc k0 v | None => acc end)
    with (reput_f img).
  rewrite reput_fold. destruct (aget img k) as [v|] eqn:E.
  - rewrite (aget_keys img k v E). reflexivity.
  - cbn. destruct (existsb (N.eqb k) (map fst img)); reflexivity.
Qed.

(* ------------------------------------------------------------------ sorting / retention keep only listed entries *)
Lemma in_insert_desc x y l : In y (insert_desc x l) <-> y = x \/ In y l.
Proof.
  induction l as [|z r IH]; cbn [insert_desc].
  - cbn. intuition congruence.
  - destruct (cp_created z <=? cp_created x); cbn [In].
    + intuition congruence.
    + rewrite IH. intuition congruence.
Qed.

Lemma in_sort_desc y l : In y (sort_desc l) <-> In y l.
Proof.
  induction l as [|x r IH]; cbn [sort_desc fold_right In]; [tauto|].
  fold (sort_desc r). rewrite in_insert_desc, IH. intuition congruence.
Qed.

Lemma in_enforce max e l : In e (enforce max l) -> In e l.
Proof.
  unfold enforce. destruct (length l <=? max)%nat; [auto|]. intros H. apply filter_In in H. tauto.
Qed.

Lemma find_cp_spec cat name e :
  find_cp cat name = Some e -> In e cat /\ cp_name e = name.
Proof.
  unfold find_cp. intros H. apply find_some in H. destruct H as [Hin Hn].
  rewrite in_sort_desc in Hin. apply N.eqb_eq in Hn. split; assumption.
Qed.

(* ------------------------------------------------------------------ images are past states *)
Lemma run_app c s l1 l2 : run c s (l1 ++ l2) = run c (run c s l1) l2.
Proof. unfold run. apply fold_left_app. Qed.

Lemma images_step c s o :
  images (step c s o) = images s \/
  (exists name now, o = OCheckpoint name now /\ images (step c s o) = images s ++ [st s]).
Proof.
  destruct o; cbn [step]; try (left; reflexivity).
  - right. eauto.
  - left. unfold rollback. destruct (find_cp _ _); [|reflexivity].
    destruct (nth_error _ _); reflexivity.
  - left. unfold rollback_id. destruct (find_cp_id _ _); [|reflexivity].
    destruct (nth_error _ _); reflexivity.
Qed.

Lemma images_grow c ops s : exists l, images (run c s ops) = images s ++ l.
Proof.
  revert s. induction ops as [|o r IH]; intros s; cbn [run fold_left].
  - exists []. rewrite app_nil_r. reflexivity.
  - destruct (IH (step c s o)) as [l Hl]. fold (run c (step c s o) r). rewrite Hl.
    destruct (images_step c s o) as [E|(n & w & _ & E)]; rewrite E.
    + exists l. reflexivity.
    + exists ([st s] ++ l). rewrite <- app_assoc. reflexivity.
Qed.

(* where a catalogue entry comes from: the checkpoint statement at position i of the script *)
Definition origin (c : cfg) (ops : list op) (e : cp) : Prop :=
  exists i, nth_error ops i = Some (OCheckpoint (cp_name e) (cp_created e))
            /\ cp_img e = length (images (run c init (firstn i ops))).

Lemma origin_extend c ops o e : origin c ops e -> origin c (ops ++ [o]) e.
Proof.
  intros (i & Hn & Hi). exists i. assert (Hlt : (i < length ops)%nat).
  { apply nth_error_Some. rewrite Hn. discriminate. }
  split.
  - rewrite nth_error_app1 by exact Hlt. exact Hn.
  - rewrite firstn_app. replace (i - length ops)%nat with 0%nat by lia.
    cbn [firstn]. rewrite app_nil_r. exact Hi.
Qed.

Definition inv (c : cfg) (ops : list op) : Prop :=
  let s := run c init ops in
  (forall e, In e (s_cat (st s)) -> origin c ops e)
  /\ (forall img e, In img (images s) -> In e (s_cat img) -> origin c ops e).

Lemma inv_holds c ops : inv c ops.
Proof.
  induction ops as [|o ops IH] using rev_ind.
  - split; cbn; intros; contradiction.
  - destruct IH as [IH1 IH2]. unfold inv. rewrite run_app. cbn [run fold_left].
    set (s := run c init ops) in *.
    assert (E1 : forall e, origin c ops e -> origin c (ops ++ [o]) e) by (intros; apply origin_extend; assumption).
    destruct o; cbn [step st images with_kv with_rel s_cat];
      try (split; [intros e He; apply E1, IH1; exact He | intros img e Hi He; apply E1; eapply IH2; eassumption]).
    + (* checkpoint *)
      unfold checkpoint. cbn [st images with_cat s_cat].
      assert (Hnew : origin c (ops ++ [OCheckpoint name now]) (CP name now (length (images s)))).
      { exists (length ops). cbn [cp_name cp_created cp_img]. split.
        - rewrite nth_error_app2 by lia. rewrite Nat.sub_diag. reflexivity.
        - rewrite firstn_app, firstn_all, Nat.sub_diag. cbn [firstn]. rewrite app_nil_r. reflexivity. }
      split.
      * intros e He. apply in_enforce in He. apply in_app_or in He. destruct He as [He|[<-|[]]].
        -- apply E1, IH1. exact He.
        -- exact Hnew.
      * intros img e Hi He. apply in_app_or in Hi. destruct Hi as [Hi|[<-|[]]].
        -- apply E1. eapply IH2; eassumption.
        -- apply E1, IH1. exact He.
    + (* rollback *)
      unfold rollback. destruct (find_cp (s_cat (st s)) name) as [e0|] eqn:F;
        [|split; [intros e He; apply E1, IH1; exact He | intros img e Hi He; apply E1; eapply IH2; eassumption]].
      destruct (nth_error (images s) (cp_img e0)) as [img0|] eqn:Nn;
        [|split; [intros e He; apply E1, IH1; exact He | intros img e Hi He; apply E1; eapply IH2; eassumption]].
      cbn [st images]. split.
      * intros e He. unfold restore in He. cbn [s_cat] in He. apply E1.
        destruct (keep_catalogue c).
        -- apply IH1. exact He.
        -- apply (IH2 img0 e); [eapply nth_error_In; eassumption | exact He].
      * intros img e Hi He. apply E1. eapply IH2; eassumption.
    + (* rollback by id *)
      unfold rollback_id. destruct (find_cp_id (s_cat (st s)) k) as [e0|] eqn:F;
        [|split; [intros e He; apply E1, IH1; exact He | intros img e Hi He; apply E1; eapply IH2; eassumption]].
      destruct (nth_error (images s) (cp_img e0)) as [img0|] eqn:Nn;
        [|split; [intros e He; apply E1, IH1; exact He | intros img e Hi He; apply E1; eapply IH2; eassumption]].
      cbn [st images]. split.
      * intros e He. unfold restore in He. cbn [s_cat] in He. apply E1.
        destruct (keep_catalogue c).
        -- apply IH1. exact He.
        -- apply (IH2 img0 e); [eapply nth_error_In; eassumption | exact He].
      * intros img e Hi He. apply E1. eapply IH2; eassumption.
Qed.

(* the image a catalogue entry points to is the store at the moment its checkpoint was taken *)
Lemma image_of_origin c ops i name now :
  nth_error ops i = Some (OCheckpoint name now) ->
  nth_error (images (run c init ops)) (length (images (run c init (firstn i ops))))
  = Some (st (run c init (firstn i ops))).
Proof.
  intros Hn.
  assert (Hsplit : ops = firstn i ops ++ OCheckpoint name now :: skipn (S i) ops).
  { rewrite <- (firstn_skipn i ops) at 1. f_equal.
    clear - Hn. revert ops Hn. induction i as [|i IH]; intros [|o r] Hn; cbn in *; try discriminate.
    - inversion Hn. reflexivity.
    - apply IH. exact Hn. }
  rewrite Hsplit at 1. rewrite run_app. cbn [run fold_left].
  set (s := run c init (firstn i ops)). fold (run c (step c s (OCheckpoint name now)) (skipn (S i) ops)).
  destruct (images_grow c (skipn (S i) ops) (step c s (OCheckpoint name now))) as [l Hl].
  rewrite Hl. cbn [step checkpoint images]. rewrite <- app_assoc.
  rewrite nth_error_app2 by lia. rewrite Nat.sub_diag. reflexivity.
Qed.

(* MAIN: a successful rollback to `name` puts back the state some `CHECKPOINT name` saw *)
Lemma rollback_restores c ops name s' :
  rollback c (run c init ops) name = Some s' ->
  exists i now,
    nth_error ops i = Some (OCheckpoint name now)
    /\ (forall k, aget (s_kv (st s')) k = aget (s_kv (st (run c init (firstn i ops)))) k)
    /\ (restore_slabs c = true -> s_rel (st s') = s_rel (st (run c init (firstn i ops))))
    /\ (keep_catalogue c = true -> s_cat (st s') = s_cat (st (run c init ops)))
    /\ images s' = images (run c init ops).
Proof.
  unfold rollback. set (s := run c init ops).
  destruct (find_cp (s_cat (st s)) name) as [e|] eqn:F; [|discriminate].
  destruct (nth_error (images s) (cp_img e)) as [img|] eqn:Nn; [|discriminate].
  intros [= <-]. destruct (find_cp_spec _ _ _ F) as [Hin Hname].
  destruct (inv_holds c ops) as [I1 _]. destruct (I1 e Hin) as (i & Hop & Himg).
  rewrite Hname in Hop. exists i, (cp_created e). split; [exact Hop|].
  pose proof (image_of_origin c ops i name (cp_created e) Hop) as Hi.
  fold s in Hi. rewrite <- Himg, Nn in Hi. inversion Hi; subst img. cbn [st images].
  unfold restore. cbn [s_kv s_rel s_cat]. repeat split.
  - intros k. apply reput_lookup.
  - intros ->. reflexivity.
  - intros ->. reflexivity.
Qed.

Lemma find_cp_id_spec cat k e :
  find_cp_id cat k = Some e -> In e cat /\ cp_img e = k.
Proof.
  unfold find_cp_id. intros H. apply find_some in H. destruct H as [Hin Hn].
  rewrite in_sort_desc in Hin. apply Nat.eqb_eq in Hn. split; assumption.
Qed.

(* the same by id: rolling back to the checkpoint with id k puts back the state the k-th CHECKPOINT
   statement of the script saw -- also when a later checkpoint carries the same name *)
Lemma rollback_id_restores c ops k s' :
  rollback_id c (run c init ops) k = Some s' ->
  exists i name now,
    nth_error ops i = Some (OCheckpoint name now)
    /\ k = length (images (run c init (firstn i ops)))
    /\ (forall key, aget (s_kv (st s')) key = aget (s_kv (st (run c init (firstn i ops)))) key)
    /\ (restore_slabs c = true -> s_rel (st s') = s_rel (st (run c init (firstn i ops)))).
Proof.
  unfold rollback_id. set (s := run c init ops).
  destruct (find_cp_id (s_cat (st s)) k) as [e|] eqn:F; [|discriminate].
  destruct (nth_error (images s) (cp_img e)) as [img|] eqn:Nn; [|discriminate].
  intros [= <-]. destruct (find_cp_id_spec _ _ _ F) as [Hin Hk].
  destruct (inv_holds c ops) as [I1 _]. destruct (I1 e Hin) as (i & Hop & Himg).
  exists i, (cp_name e), (cp_created e). split; [exact Hop|]. split; [rewrite <- Hk; exact Himg|].
  pose proof (image_of_origin c ops i _ _ Hop) as Hi.
  fold s in Hi. rewrite <- Himg, Nn in Hi. inversion Hi; subst img. cbn [st images].
  unfold restore. cbn [s_kv s_rel s_cat]. split.
  - intros key. apply reput_lookup.
  - intros ->. reflexivity.
Qed.

(* ------------------------------------------------------------------ refutations on the faithful configuration *)
Definition faithful : cfg := CFG false false 10.

Lemma relational_not_restored :
  exists ops name s',
    rollback faithful (run faithful init ops) name = Some s'
    /\ s_rel (st s') <> s_rel (st (run faithful init (firstn 1 ops))).
Proof.
  exists [OPutRel 1 7; OCheckpoint 1 1001; OPutRel 1 8], 1. eexists. split.
  - vm_compute. reflexivity.
  - vm_compute. discriminate.
Qed.

(* c2 was created, retention (max 10) keeps it, yet after ROLLBACK TO c1 it cannot be rolled back to *)
Lemma catalogue_rolled_back :
  exists ops,
    list_names (run faithful init ops) = []
    /\ rollback faithful (run faithful init ops) 2 = None
    /\ map cp_name (sort_desc (fold_left (fun cat oi => spec_step 10 cat (fst oi) (snd oi))
                                         (combine ops (seq 0 (length ops))) [])) = [2; 1].
Proof.
  exists [OCheckpoint 1 1001; OCheckpoint 2 1002; ORollback 1]. repeat split; vm_compute; reflexivity.
Qed.

(* ------------------------------------------------------------------ retention keeps the newest *)
Fixpoint sorted_desc (l : list cp) : Prop :=
  match l with
  | [] => True
  | x :: r => (forall y, In y r -> cp_created y <= cp_created x) /\ sorted_desc r
  end.

Lemma insert_desc_sorted x l : sorted_desc l -> sorted_desc (insert_desc x l).
Proof.
  induction l as [|z r IH]; cbn [insert_desc sorted_desc]; intros Hs.
  - split; [intros y []|exact I].
  - destruct Hs as [Hz Hr]. destruct (N.leb_spec (cp_created z) (cp_created x)) as [Hle|Hgt].
    + cbn [sorted_desc]. split; [|split; assumption].
      intros y [<-|Hy]; [exact Hle|]. specialize (Hz y Hy). lia.
    + cbn [sorted_desc]. split.
      * intros y Hy. rewrite in_insert_desc in Hy. destruct Hy as [->|Hy]; [lia|apply Hz; exact Hy].
      * apply IH. exact Hr.
Qed.

Lemma sort_desc_sorted l : sorted_desc (sort_desc l).
Proof. induction l as [|x r IH]; cbn; [exact I|]. apply insert_desc_sorted. exact IH. Qed.

Lemma in_skipn_in {A} n (l : list A) y : In y (skipn n l) -> In y l.
Proof.
  revert l. induction n as [|n IH]; intros l H; [exact H|].
  destruct l as [|z r]; [destruct H|]. right. apply IH. exact H.
Qed.

Lemma sorted_firstn_skipn n l x y :
  sorted_desc l -> In x (firstn n l) -> In y (skipn n l) -> cp_created y <= cp_created x.
Proof.
  revert l. induction n as [|n IH]; intros l Hs Hx Hy; [destruct Hx|].
  destruct l as [|z r]; [destruct Hx|]. cbn in Hx, Hy. destruct Hs as [Hz Hr].
  destruct Hx as [<-|Hx].
  - apply Hz. eapply in_skipn_in. exact Hy.
  - eapply IH; eassumption.
Qed.

Lemma cp_eqb_refl e : cp_eqb e e = true.
Proof. unfold cp_eqb. rewrite !N.eqb_refl, Nat.eqb_refl. reflexivity. Qed.

Lemma cp_eqb_eq a b : cp_eqb a b = true -> a = b.
Proof.
  destruct a, b; unfold cp_eqb; cbn. intros H. apply andb_true_iff in H. destruct H as [H H3].
  apply andb_true_iff in H. destruct H as [H1 H2]. apply N.eqb_eq in H1, H2. apply Nat.eqb_eq in H3.
  subst. reflexivity.
Qed.

(* every entry retention removes is not newer than any entry it keeps *)
Lemma enforce_keeps_newest max l kept dropped :
  In kept (enforce max l) -> In dropped l -> ~ In dropped (enforce max l) ->
  cp_created dropped <= cp_created kept.
Proof.
  unfold enforce. destruct (length l <=? max)%nat; [intros _ Hd Hn; contradiction|].
  intros Hk Hd Hn. apply filter_In in Hk. destruct Hk as [_ Hk].
  apply existsb_exists in Hk. destruct Hk as (k' & Hk' & Ek). apply cp_eqb_eq in Ek. subst k'.
  assert (Hds : In dropped (skipn max (sort_desc l))).
  { assert (Hin : In dropped (sort_desc l)) by (apply in_sort_desc; exact Hd).
    rewrite <- (firstn_skipn max (sort_desc l)) in Hin. apply in_app_or in Hin.
    destruct Hin as [Hf|Hs]; [|exact Hs]. exfalso. apply Hn. apply filter_In. split; [exact Hd|].
    apply existsb_exists. exists dropped. split; [exact Hf|apply cp_eqb_refl]. }
  eapply sorted_firstn_skipn; [apply sort_desc_sorted|exact Hk'|exact Hds].
Qed.

(* a retained checkpoint can be rolled back to, as long as no rollback replaced the catalogue:
   it is found by name, its image exists, and rollback_restores applies *)
Lemma retained_can_roll_back c ops e :
  In e (s_cat (st (run c init ops))) ->
  (forall e', In e' (s_cat (st (run c init ops))) -> cp_name e' = cp_name e -> e' = e) ->
  exists s', rollback c (run c init ops) (cp_name e) = Some s'.
Proof.
  intros Hin Huniq. unfold rollback. set (s := run c init ops) in *.
  destruct (find_cp (s_cat (st s)) (cp_name e)) as [e0|] eqn:F.
  - destruct (find_cp_spec _ _ _ F) as [Hin0 Hn0]. rewrite (Huniq e0 Hin0 Hn0) in *.
    destruct (inv_holds c ops) as [I1 _]. destruct (I1 e Hin) as (i & Hop & Himg).
    pose proof (image_of_origin c ops i _ _ Hop) as Hi. fold s in Hi. rewrite <- Himg in Hi.
    rewrite Hi. eauto.
  - exfalso. unfold find_cp in F.
    assert (Hs : In e (sort_desc (s_cat (st s)))) by (rewrite in_sort_desc; exact Hin).
    pose proof (find_none _ _ F e Hs) as Hf. cbv beta in Hf. rewrite N.eqb_refl in Hf. discriminate.
Qed.
