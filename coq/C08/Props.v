(* C08/Props.v -- pinned property theorems; nothing but statements closed by `exact`. *)
From NV.Common Require Import Base.
From NV.C08 Require Import Model Proofs.
Open Scope N_scope.

(* After a successful ROLLBACK TO name, for EVERY script: some `CHECKPOINT name` statement of the
   script exists such that every key-addressed entry (graph nodes/edges, embeddings, metadata) reads
   exactly as it did at that moment -- later additions gone, later deletions back; the relational slab
   too when restore_from_bytes carries it (restore_slabs); the catalogue is untouched when it does
   not live in the rolled-back store (keep_catalogue). *)
Theorem C08_rollback_restores : forall c ops name s',
  rollback c (run c init ops) name = Some s' ->
  exists i now,
    nth_error ops i = Some (OCheckpoint name now)
    /\ (forall k, aget (s_kv (st s')) k = aget (s_kv (st (run c init (firstn i ops)))) k)
    /\ (restore_slabs c = true -> s_rel (st s') = s_rel (st (run c init (firstn i ops))))
    /\ (keep_catalogue c = true -> s_cat (st s') = s_cat (st (run c init ops)))
    /\ images s' = images (run c init ops).
Proof. exact rollback_restores. Qed.
Example C08_rollback_restores_nonvacuous :
  exists s', rollback faithful (run faithful init [OPutKV 1 7; OPutRel 5 5; OCheckpoint 1 1001; OPutKV 1 8; ODelKV 1; OPutKV 2 9]) 1 = Some s'
             /\ s_kv (st s') = [(1, 7)].
Proof. eexists. split; vm_compute; reflexivity. Qed.

(* The same by id (ROLLBACK TO '<uuid>'): the state seen by exactly that CHECKPOINT statement comes back,
   also when later checkpoints re-use its name. *)
Theorem C08_rollback_by_id_restores : forall c ops k s',
  rollback_id c (run c init ops) k = Some s' ->
  exists i name now,
    nth_error ops i = Some (OCheckpoint name now)
    /\ k = length (images (run c init (firstn i ops)))
    /\ (forall key, aget (s_kv (st s')) key = aget (s_kv (st (run c init (firstn i ops)))) key)
    /\ (restore_slabs c = true -> s_rel (st s') = s_rel (st (run c init (firstn i ops)))).
Proof. exact rollback_id_restores. Qed.
Example C08_rollback_by_id_nonvacuous :
  exists s', rollback_id faithful (run faithful init [OPutKV 1 7; OCheckpoint 5 1001; OPutKV 1 8; OCheckpoint 5 1002; OPutKV 1 9]) 0 = Some s'
             /\ s_kv (st s') = [(1, 7)].
Proof. eexists. split; vm_compute; reflexivity. Qed.

(* On the code as read (restore_from_bytes re-puts only scan("") keys; artifacts in the same store)
   the full statement is false: *)
Theorem C08_relational_restored_refuted :
  exists ops name s',
    rollback faithful (run faithful init ops) name = Some s'
    /\ s_rel (st s') <> s_rel (st (run faithful init (firstn 1 ops))).
Proof. exact relational_not_restored. Qed.

(* ... and a retained checkpoint (c2: created, max 10) cannot be rolled back to after ROLLBACK TO c1:
   the list is empty although the promised catalogue is [c2; c1]. *)
Theorem C08_retained_rollback_refuted :
  exists ops,
    list_names (run faithful init ops) = []
    /\ rollback faithful (run faithful init ops) 2 = None
    /\ map cp_name (sort_desc (fold_left (fun cat oi => spec_step 10 cat (fst oi) (snd oi))
                                         (combine ops (seq 0 (length ops))) [])) = [2; 1].
Proof. exact catalogue_rolled_back. Qed.

(* Retention: whatever it removes is not newer than anything it keeps (creation seconds). *)
Theorem C08_retention_keeps_newest : forall max l kept dropped,
  In kept (enforce max l) -> In dropped l -> ~ In dropped (enforce max l) ->
  cp_created dropped <= cp_created kept.
Proof. exact enforce_keeps_newest. Qed.
Example C08_retention_nonvacuous :
  enforce 2 [CP 1 1001 0; CP 2 1002 1; CP 3 1003 2] = [CP 2 1002 1; CP 3 1003 2].
Proof. vm_compute. reflexivity. Qed.

(* Every checkpoint present in the catalogue (names unique) can be rolled back to. *)
Theorem C08_retained_can_roll_back : forall c ops e,
  In e (s_cat (st (run c init ops))) ->
  (forall e', In e' (s_cat (st (run c init ops))) -> cp_name e' = cp_name e -> e' = e) ->
  exists s', rollback c (run c init ops) (cp_name e) = Some s'.
Proof. exact retained_can_roll_back. Qed.

Print Assumptions C08_rollback_restores.
Print Assumptions C08_rollback_by_id_restores.
Print Assumptions C08_relational_restored_refuted.
Print Assumptions C08_retained_rollback_refuted.
Print Assumptions C08_retention_keeps_newest.
Print Assumptions C08_retained_can_roll_back.
