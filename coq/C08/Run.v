(* C08/Run.v -- executable entry points for the correspondence check and the property oracles.
   Depends on Model + Gen_C08 only. *)
From NV.Common Require Import Base.
From NV.C08 Require Import Model.
From NV.gen Require Import Gen_C08.
Open Scope N_scope.

Definition the_cfg (max : N) : cfg :=
  CFG gen_restore_slabs (gen_rollback_keeps_catalogue || negb gen_catalogue_shared) (N.to_nat max).

(* what the harness saw after a statement:
   query-battery digests (relational, graph, vector), the key-addressed dump (catalogue keys
   excluded), the relational slab dump, the catalogue's names newest first *)
Definition obs := (N * N * N * list (N * N) * list (N * N) * list N)%type.
Definition o_q (o : obs) : N * N * N := let '(a, b, c, _, _, _) := o in (a, b, c).
Definition o_kv (o : obs) : list (N * N) := let '(_, _, _, kv, _, _) := o in kv.
Definition o_rel (o : obs) : list (N * N) := let '(_, _, _, _, r, _) := o in r.
Definition o_cat (o : obs) : list N := let '(_, _, _, _, _, c) := o in c.

Inductive sop :=
| SWrite (kvd reld : list (N * option N)) (is_rel ok_impl ok_ref : bool)
| SCheckpoint (name now : N) (ok : bool)
| SRollback (name : N) (ok : bool)
| SRollbackId (k : N) (ok : bool)      (* ROLLBACK TO '<id>' of the k-th checkpoint created by the script (0-based) *)
| SList.

Definition apply_delta (put : N -> N -> op) (del : N -> op) (d : N * option N) : op :=
  match snd d with Some v => put (fst d) v | None => del (fst d) end.
Definition model_step (c : cfg) (s : state) (o : sop) : state :=
  match o with
  | SWrite kvd reld _ _ _ =>
      run c s (map (apply_delta OPutKV ODelKV) kvd ++ map (apply_delta OPutRel ODelRel) reld)
  | SCheckpoint name now _ => step c s (OCheckpoint name now)
  | SRollback name _ => step c s (ORollback name)
  | SRollbackId k _ => step c s (ORollbackId (N.to_nat k))
  | SList => s
  end.

(* canonical (sorted by key) view of an association list *)
Fixpoint ins_sorted (x : N * N) (l : list (N * N)) : list (N * N) :=
  match l with
  | [] => [x]
  | y :: r => if fst x <? fst y then x :: l else y :: ins_sorted x r
  end.
Definition canon (l : list (N * N)) : list (N * N) := fold_right ins_sorted [] l.
Definition kv_eqb (a b : list (N * N)) : bool := list_eqb (pair_eqb N.eqb N.eqb) (canon a) (canon b).

Definition model_agrees (s : state) (o : obs) : bool :=
  kv_eqb (s_kv (st s)) (o_kv o) && kv_eqb (s_rel (st s)) (o_rel o)
  && list_eqb N.eqb (list_names s) (o_cat o).

(* severity lattice for one script: 0 fine; 10/11 known class 0/1; 2 violation *)
Definition worse (a b : N) : N :=
  if N.eqb a 2 || N.eqb b 2 then 2 else if N.eqb a 0 then b else if N.eqb b 0 then a else N.min a b.

Definition q3_eqb (a b : N * N * N) : bool :=
  let '(a1, a2, a3) := a in let '(b1, b2, b3) := b in N.eqb a1 b1 && N.eqb a2 b2 && N.eqb a3 b3.
Definition q3_nonrel_eqb (a b : N * N * N) : bool :=
  let '(_, a2, a3) := a in let '(_, b2, b3) := b in N.eqb a2 b2 && N.eqb a3 b3.

Definition spec_names (cat : list cp) : list N := map cp_name (sort_desc cat).
Definition in_cat (cat : list cp) (name : N) : bool := existsb (fun c => N.eqb (cp_name c) name) cat.

(* the property oracle for one step, on the implementation's own observations.
   wstate: spec catalogue, digests recorded at checkpoint time, "a rollback has happened" *)
(* The known finding `catalogue-rolled-back` has an exact shape: the artifacts live in the store that is
   rolled back, so after ROLLBACK TO x the catalogue is the one x's image carries.  w_k replays just
   that (the model with a FIXED configuration -- catalogue in the rolled-back store -- not the
   regenerated one) over the script's checkpoint / rollback statements.  A catalogue or a rollback
   target that differs from the promise is put in the known class only if it is what w_k says;
   anything else -- e.g. ALL checkpoints gone after a rollback -- is a violation of its own. *)
Record wstate := W { w_cat : list cp; w_q : list (N * (N * N * N)); w_qi : list (N * (N * N * N)); w_rb : bool; w_n : nat;
                     w_k : state }.
Definition known_cfg (max : nat) : cfg := CFG false false max.
Definition in_cat_id (cat : list cp) (k : N) : bool := existsb (fun c => Nat.eqb (cp_img c) (N.to_nat k)) cat.

Definition cat_verdict (w : wstate) (o : obs) : N :=
  if list_eqb N.eqb (spec_names (w_cat w)) (o_cat o) then 0
  else if w_rb w && list_eqb N.eqb (list_names (w_k w)) (o_cat o) then 11 else 2.

(* digests of the checkpoint the known-defect catalogue resolves to *)
Definition known_q (w : wstate) (e : option cp) : option (N * N * N) :=
  match e with Some c => aget (w_qi w) (N.of_nat (cp_img c)) | None => None end.

(* verdict of one rollback: promised target's digests q_spec (None = not in the promised catalogue),
   the known-defect target kt, whether the implementation reported success, what it answers now *)
Definition rollback_verdict (w w' : wstate) (q_spec : option (N * N * N)) (kt : option cp) (ok : bool) (o : obs) : N :=
  let known_match := w_rb w && match known_q w kt with
                               | Some q => q3_nonrel_eqb q (o_q o)
                               | None => false
                               end in
  match q_spec with
  | Some q =>
      if negb ok then (if w_rb w && match kt with None => true | Some _ => false end then 11 else 2)
      else
        (* known class 0 (restore-slabs) has an exact shape too: restore_from_bytes EMPTIES the relational
           slab.  Relational answers that differ from the checkpoint while the slab still holds tables
           (e.g. rows written after the checkpoint survive) are a violation of their own. *)
        let rel_known := match o_rel o with [] => true | _ => false end in
        let here := if q3_eqb q (o_q o) then 0
                    else if q3_nonrel_eqb q (o_q o) then (if rel_known then 10 else 2)
                    else if known_match then 11 else 2 in
        worse here (cat_verdict w' o)
  | None =>
      if ok then (if known_match then worse 11 (cat_verdict w' o) else 2) else cat_verdict w o
  end.

Definition oracle_step (max : nat) (w : wstate) (sp : sop) (o : obs) : wstate * N :=
  match sp with
  | SWrite _ _ is_rel ok_impl ok_ref =>
      (w, worse (if w_rb w && negb (Bool.eqb ok_impl ok_ref) then (if is_rel then 10 else 2) else 0)
                (cat_verdict w o))
  | SCheckpoint name now ok =>
      let cat' := enforce max (w_cat w ++ [CP name now (w_n w)]) in
      let w' := W cat' ((name, o_q o) :: w_q w) ((N.of_nat (w_n w), o_q o) :: w_qi w) (w_rb w) (S (w_n w))
                  (step (known_cfg max) (w_k w) (OCheckpoint name now)) in
      (w', if negb ok then 2 else cat_verdict w' o)
  | SRollback name ok =>
      let kt := find_cp (s_cat (st (w_k w))) name in
      let w' := W (w_cat w) (w_q w) (w_qi w) (ok || w_rb w) (w_n w)
                  (if ok then step (known_cfg max) (w_k w) (ORollback name) else w_k w) in
      (w', rollback_verdict w w' (if in_cat (w_cat w) name then aget (w_q w) name else None) kt ok o)
  | SRollbackId k ok =>
      let kt := find_cp_id (s_cat (st (w_k w))) (N.to_nat k) in
      let w' := W (w_cat w) (w_q w) (w_qi w) (ok || w_rb w) (w_n w)
                  (if ok then step (known_cfg max) (w_k w) (ORollbackId (N.to_nat k)) else w_k w) in
      (w', rollback_verdict w w' (if in_cat_id (w_cat w) k then aget (w_qi w) k else None) kt ok o)
  | SList => (w, cat_verdict w o)
  end.

Fixpoint walk (c : cfg) (s : state) (w : wstate) (steps : list (sop * obs)) (sev : N) (agree : bool) : N * bool :=
  match steps with
  | [] => (sev, agree)
  | (sp, o) :: r =>
      let s' := model_step c s sp in
      let '(w', v) := oracle_step (max_cp c) w sp o in
      walk c s' w' r (worse sev v) (agree && model_agrees s' o)
  end.

Fixpoint nodup_b (l : list N) : bool :=
  match l with [] => true | x :: r => negb (existsb (N.eqb x) r) && nodup_b r end.
(* scripts use (through the clock hook) pairwise distinct creation times; names may repeat (automatic
   checkpoints are named after the statement kind): a name then means its newest checkpoint *)
Definition well_formed (steps : list (sop * obs)) : bool :=
  nodup_b (flat_map (fun e => match fst e with SCheckpoint _ now _ => [now] | _ => [] end) steps).

(* (max_checkpoints, steps with observations) *)
Definition script_case := (N * list (sop * obs))%type.
Definition check_script (c : script_case) : N :=
  let '(max, steps) := c in
  if negb (well_formed steps) then 9
  else
    let '(sev, agree) := walk (the_cfg max) init (W [] [] [] false 0 init) steps 0 true in
    if N.eqb sev 2 then V_VIOLATION
    else if N.eqb sev 9 then 9
    else if negb agree then V_MISMATCH
    else if N.eqb sev 10 then V_KNOWN 0
    else if N.eqb sev 11 then V_KNOWN 1
    else V_OK.
